/-
  Helper lemmas for SFModel.Level, part 1: the tree builder, tuples, leaf lookup, membership.
-/
import SFModel.Level
import SFModel.IndexLemmas
set_option linter.unusedSectionVars false
set_option linter.unusedVariables false

namespace SF

namespace Level
variable {α : Type}

@[simp] theorem offset_setOffset (t : Level α) (o : Nat) : (t.setOffset o).offset = o := by
  cases t <;> rfl

mutual
theorem tuples_length : ∀ (t : Level α) (d : Nat), WF d t → t.tuples.length = t.len
  | .leaf ls o, d, h => by simp [tuples, len]
  | .node ls cs o, d, h => by
    simp only [WF] at h
    simp only [tuples, len]
    exact tuplesZip_length ls cs (d - 1) 0 h.2.2.2 h.2.2.1
theorem tuplesZip_length : ∀ (ls : List α) (cs : List (Level α)) (d acc : Nat),
    WFList d acc cs → ls.length = cs.length → (tuplesZip ls cs).length = lenList cs
  | [], [], d, acc, h, hl => by simp [tuplesZip, lenList]
  | [], c :: cs, d, acc, h, hl => by simp at hl
  | l :: ls, [], d, acc, h, hl => by simp at hl
  | l :: ls, c :: cs, d, acc, h, hl => by
    simp only [WFList] at h
    simp only [tuplesZip, lenList, List.length_append, List.length_map]
    rw [tuples_length c d h.2.1, tuplesZip_length ls cs d _ h.2.2 (by simpa using hl)]
end

/-- every tuple of `tuplesZip ls cs` starts with a label of `ls` -/
theorem head_mem_of_mem_tuplesZip : ∀ (ls : List α) (cs : List (Level α)) (x : List α),
    x ∈ tuplesZip ls cs → ∃ l r, x = l :: r ∧ l ∈ ls
  | [], _, x, h => by simp [tuplesZip] at h
  | l :: ls, [], x, h => by simp [tuplesZip] at h
  | l :: ls, c :: cs, x, h => by
    simp only [tuplesZip, List.mem_append, List.mem_map] at h
    rcases h with ⟨r, _, rfl⟩ | h
    · exact ⟨l, r, rfl, by simp⟩
    · obtain ⟨l', r, rfl, hm⟩ := head_mem_of_mem_tuplesZip ls cs x h
      exact ⟨l', r, rfl, by simp [hm]⟩

mutual
theorem tuples_nodup : ∀ (t : Level α) (d : Nat), WF d t → t.tuples.Nodup
  | .leaf ls o, d, h => by
    simp only [WF] at h
    simp only [tuples]
    rw [List.nodup_iff_pairwise_ne, List.pairwise_map]
    exact List.Pairwise.imp (fun hab e => hab (by simpa using e)) (List.nodup_iff_pairwise_ne.mp h.2)
  | .node ls cs o, d, h => by
    simp only [WF] at h
    simp only [tuples]
    exact tuplesZip_nodup ls cs (d - 1) 0 h.2.2.2 h.2.1
theorem tuplesZip_nodup : ∀ (ls : List α) (cs : List (Level α)) (d acc : Nat),
    WFList d acc cs → ls.Nodup → (tuplesZip ls cs).Nodup
  | [], _, d, acc, h, hn => by simp [tuplesZip]
  | l :: ls, [], d, acc, h, hn => by simp [tuplesZip]
  | l :: ls, c :: cs, d, acc, h, hn => by
    simp only [WFList] at h
    rw [List.nodup_cons] at hn
    simp only [tuplesZip]
    rw [List.nodup_append]
    refine ⟨?_, tuplesZip_nodup ls cs d _ h.2.2 hn.2, ?_⟩
    · have := tuples_nodup c d h.2.1
      rw [List.nodup_iff_pairwise_ne, List.pairwise_map]
      exact List.Pairwise.imp (fun hab e => hab (by simpa using e)) (List.nodup_iff_pairwise_ne.mp this)
    · intro a ha b hb e
      subst e
      simp only [List.mem_map] at ha
      obtain ⟨r, _, rfl⟩ := ha
      obtain ⟨l', r', he, hm⟩ := head_mem_of_mem_tuplesZip ls cs _ hb
      simp only [List.cons.injEq] at he
      exact hn.1 (he.1 ▸ hm)
end

-- every tuple of a tree of uniform depth `d` has `d` components
mutual
theorem tuples_depth : ∀ (t : Level α) (d : Nat), WF d t → ∀ x ∈ t.tuples, x.length = d
  | .leaf ls o, d, h, x, hx => by
    simp only [WF] at h
    simp only [tuples, List.mem_map] at hx
    obtain ⟨a, _, rfl⟩ := hx
    simp [h.1]
  | .node ls cs o, d, h, x, hx => by
    simp only [WF] at h
    simp only [tuples] at hx
    have := tuplesZip_depth ls cs (d - 1) 0 h.2.2.2 x hx
    omega
theorem tuplesZip_depth : ∀ (ls : List α) (cs : List (Level α)) (d acc : Nat),
    WFList d acc cs → ∀ x ∈ tuplesZip ls cs, x.length = d + 1
  | [], _, d, acc, h, x, hx => by simp [tuplesZip] at hx
  | l :: ls, [], d, acc, h, x, hx => by simp [tuplesZip] at hx
  | l :: ls, c :: cs, d, acc, h, x, hx => by
    simp only [WFList] at h
    simp only [tuplesZip, List.mem_append, List.mem_map] at hx
    rcases hx with ⟨r, hr, rfl⟩ | hx
    · simp [tuples_depth c d h.2.1 r hr]
    · exact tuplesZip_depth ls cs d _ h.2.2 x hx
end

theorem treeOrdered_map_cons (l : α) (ts : List (List α)) (h : TreeOrdered ts) :
    TreeOrdered (ts.map (l :: ·)) := by
  intro i j k x y z n hx hy hz hij hjk he
  simp only [List.getElem?_map, Option.map_eq_some_iff] at hx hy hz
  obtain ⟨x', hx, rfl⟩ := hx
  obtain ⟨y', hy, rfl⟩ := hy
  obtain ⟨z', hz, rfl⟩ := hz
  cases n with
  | zero => simp
  | succ n =>
    simp only [List.take_succ_cons, List.cons.injEq, true_and] at he ⊢
    exact h i j k x' y' z' n hx hy hz hij hjk he

theorem treeOrdered_append (P Q : List (List α)) (hP : TreeOrdered P) (hQ : TreeOrdered Q)
    (hsep : ∀ x ∈ P, ∀ z ∈ Q, ∀ n, x.take (n + 1) ≠ z.take (n + 1)) : TreeOrdered (P ++ Q) := by
  intro i j k x y z n hx hy hz hij hjk he
  by_cases hk : k < P.length
  · rw [List.getElem?_append_left (by omega)] at hx hy
    rw [List.getElem?_append_left hk] at hz
    exact hP i j k x y z n hx hy hz hij hjk he
  · by_cases hi : i < P.length
    · rw [List.getElem?_append_left hi] at hx
      rw [List.getElem?_append_right (by omega)] at hz
      cases n with
      | zero => simp
      | succ n => exact absurd he (hsep x (List.mem_of_getElem? hx) z (List.mem_of_getElem? hz) n)
    · rw [List.getElem?_append_right (by omega)] at hx hy hz
      exact hQ _ _ _ x y z n hx hy hz (by omega) (by omega) he

mutual
theorem tuples_treeOrdered : ∀ (t : Level α) (d : Nat), WF d t → TreeOrdered t.tuples
  | .leaf ls o, d, h => by
    have hn := tuples_nodup (.leaf ls o) d h
    intro i j k x y z n hx hy hz hij hjk he
    cases n with
    | zero => simp
    | succ n =>
      have hx1 : x.length = 1 := by
        simp only [tuples, List.getElem?_map, Option.map_eq_some_iff] at hx
        obtain ⟨a, _, rfl⟩ := hx; rfl
      have hz1 : z.length = 1 := by
        simp only [tuples, List.getElem?_map, Option.map_eq_some_iff] at hz
        obtain ⟨a, _, rfl⟩ := hz; rfl
      rw [List.take_of_length_le (by omega), List.take_of_length_le (by omega)] at he
      subst he
      have hlt : i < (tuples (.leaf ls o)).length := (List.getElem?_eq_some_iff.mp hx).1
      have := (List.getElem?_inj hlt hn).mp (hx.trans hz.symm)
      omega
  | .node ls cs o, d, h => by
    simp only [WF] at h
    simp only [tuples]
    exact tuplesZip_treeOrdered ls cs (d - 1) 0 h.2.2.2 h.2.1
theorem tuplesZip_treeOrdered : ∀ (ls : List α) (cs : List (Level α)) (d acc : Nat),
    WFList d acc cs → ls.Nodup → TreeOrdered (tuplesZip ls cs)
  | [], _, d, acc, h, hn => by intro i j k x y z n hx; simp [tuplesZip] at hx
  | l :: ls, [], d, acc, h, hn => by intro i j k x y z n hx; simp [tuplesZip] at hx
  | l :: ls, c :: cs, d, acc, h, hn => by
    simp only [WFList] at h
    rw [List.nodup_cons] at hn
    simp only [tuplesZip]
    apply treeOrdered_append
    · exact treeOrdered_map_cons l _ (tuples_treeOrdered c d h.2.1)
    · exact tuplesZip_treeOrdered ls cs d _ h.2.2 hn.2
    · intro x hx z hz n he
      simp only [List.mem_map] at hx
      obtain ⟨r, _, rfl⟩ := hx
      obtain ⟨l', r', rfl, hm⟩ := head_mem_of_mem_tuplesZip ls cs _ hz
      simp only [List.take_succ_cons, List.cons.injEq] at he
      exact hn.1 (he.1 ▸ hm)
end

section lookup
variable [DecidableEq α]

theorem pos?_eq_some_iff {ls : List α} (hn : ls.Nodup) {k : α} {i : Nat} :
    pos? ls k = some i ↔ ls[i]? = some k := by
  unfold pos?
  constructor
  · intro h
    obtain ⟨j, hj, hk⟩ := AMap.get?_zipIdx_inv 0 h
    simp only [Nat.add_zero] at hj; subst hj; exact hk
  · intro h
    simpa using AMap.get?_zipIdx_some 0 hn h

theorem pos?_eq_none_iff {ls : List α} {k : α} : pos? ls k = none ↔ k ∉ ls := by
  unfold pos?
  constructor
  · intro h hm
    have := (AMap.get?_zipIdx_isSome (l := ls) (a := k) 0).mpr hm
    rw [h] at this; simp at this
  · intro h; exact AMap.get?_zipIdx_none 0 h

theorem pos?_isSome_iff {ls : List α} {k : α} : (pos? ls k).isSome = true ↔ k ∈ ls :=
  AMap.get?_zipIdx_isSome 0

/-- an element of `tuplesZip` whose head is not among the labels does not exist -/
theorem not_mem_tuplesZip_of_head {ls : List α} {cs : List (Level α)} {k : α} {rest : List α}
    (hk : k ∉ ls) {q : Nat} : (tuplesZip ls cs)[q]? ≠ some (k :: rest) := by
  intro h
  obtain ⟨l, r, he, hm⟩ := head_mem_of_mem_tuplesZip ls cs _ (List.mem_of_getElem? h)
  simp only [List.cons.injEq] at he
  exact hk (he.1 ▸ hm)

mutual
theorem leafLoc_spec : ∀ (t : Level α) (d : Nat), WF d t → ∀ (key : List α) (pos p : Nat),
    (t.leafLoc key pos = .ok p ↔ ∃ i, p = pos + i ∧ t.tuples[i]? = some key)
  | .leaf ls o, d, h, key, pos, p => by
    simp only [WF] at h
    match key with
    | [] =>
      simp only [leafLoc, tuples, List.getElem?_map, Option.map_eq_some_iff]
      constructor
      · intro e; cases e
      · rintro ⟨i, _, a, _, e⟩; cases e
    | [k] =>
      simp only [leafLoc, tuples, List.getElem?_map, Option.map_eq_some_iff]
      cases hp : pos? ls k with
      | none =>
        simp only
        constructor
        · intro e; cases e
        · rintro ⟨i, _, a, ha, e⟩
          simp only [List.cons.injEq, and_true] at e; subst e
          exact absurd (List.mem_of_getElem? ha) (pos?_eq_none_iff.mp hp)
      | some i =>
        simp only [Except.ok.injEq]
        have hi := (pos?_eq_some_iff h.2).mp hp
        constructor
        · intro e; exact ⟨i, e.symm, k, hi, rfl⟩
        · rintro ⟨j, hj, a, ha, e⟩
          simp only [List.cons.injEq, and_true] at e; subst e
          have := (pos?_eq_some_iff h.2).mpr ha
          rw [hp] at this; cases this; omega
    | k :: k' :: rest =>
      simp only [leafLoc, tuples, List.getElem?_map, Option.map_eq_some_iff]
      constructor
      · intro e; cases e
      · rintro ⟨i, _, a, _, e⟩; simp at e
  | .node ls cs o, d, h, key, pos, p => by
    simp only [WF] at h
    match key with
    | [] =>
      simp only [leafLoc, tuples]
      constructor
      · intro e; cases e
      · rintro ⟨i, _, hi⟩
        obtain ⟨l, r, he, _⟩ := head_mem_of_mem_tuplesZip ls cs _ (List.mem_of_getElem? hi)
        cases he
    | k :: rest =>
      simp only [leafLoc, tuples]
      cases hp : pos? ls k with
      | none =>
        simp only
        constructor
        · intro e; cases e
        · rintro ⟨i, _, hi⟩
          exact absurd hi (not_mem_tuplesZip_of_head (pos?_eq_none_iff.mp hp))
      | some i =>
        simp only
        have hi := (pos?_eq_some_iff h.2.1).mp hp
        have := leafLocAt_spec ls cs (d - 1) 0 h.2.2.2 h.2.1 i k rest pos p hi
        simpa using this
theorem leafLocAt_spec : ∀ (ls : List α) (cs : List (Level α)) (d acc : Nat),
    WFList d acc cs → ls.Nodup → ∀ (i : Nat) (k : α) (rest : List α) (pos p : Nat), ls[i]? = some k →
    (leafLocAt cs i rest pos = .ok p ↔ ∃ q, p = pos + acc + q ∧ (tuplesZip ls cs)[q]? = some (k :: rest))
  | [], cs, d, acc, h, hn, i, k, rest, pos, p, hi => by simp at hi
  | l :: ls, [], d, acc, h, hn, i, k, rest, pos, p, hi => by
    simp only [leafLocAt, tuplesZip]
    constructor
    · intro e; cases e
    · rintro ⟨q, _, e⟩; simp at e
  | l :: ls, c :: cs, d, acc, h, hn, 0, k, rest, pos, p, hi => by
    simp only [WFList] at h
    rw [List.nodup_cons] at hn
    simp only [List.getElem?_cons_zero, Option.some.injEq] at hi
    subst hi
    simp only [leafLocAt, tuplesZip]
    rw [leafLoc_spec c d h.2.1 rest (pos + c.offset) p, h.1]
    constructor
    · rintro ⟨r, hr, ht⟩
      refine ⟨r, hr, ?_⟩
      have hlt : r < c.tuples.length := (List.getElem?_eq_some_iff.mp ht).1
      rw [List.getElem?_append_left (by simpa using hlt)]
      simp [List.getElem?_map, ht]
    · rintro ⟨q, hq, ht⟩
      by_cases hlt : q < (c.tuples.map (l :: ·)).length
      · rw [List.getElem?_append_left hlt] at ht
        simp only [List.getElem?_map, Option.map_eq_some_iff, List.cons.injEq, true_and] at ht
        obtain ⟨r, hr, rfl⟩ := ht
        exact ⟨q, hq, hr⟩
      · rw [List.getElem?_append_right (by omega)] at ht
        exact absurd ht (not_mem_tuplesZip_of_head hn.1)
  | l :: ls, c :: cs, d, acc, h, hn, i + 1, k, rest, pos, p, hi => by
    simp only [WFList] at h
    rw [List.nodup_cons] at hn
    simp only [List.getElem?_cons_succ] at hi
    have hkl : l ≠ k := fun e => hn.1 (e ▸ List.mem_of_getElem? hi)
    simp only [leafLocAt, tuplesZip]
    rw [leafLocAt_spec ls cs d (acc + c.len) h.2.2 hn.2 i k rest pos p hi]
    have hlen : (c.tuples.map (l :: ·)).length = c.len := by simp [tuples_length c d h.2.1]
    constructor
    · rintro ⟨q, hq, ht⟩
      refine ⟨c.len + q, by omega, ?_⟩
      rw [List.getElem?_append_right (by omega)]
      rw [hlen]; simpa using ht
    · rintro ⟨q, hq, ht⟩
      by_cases hlt : q < (c.tuples.map (l :: ·)).length
      · rw [List.getElem?_append_left hlt] at ht
        simp only [List.getElem?_map, Option.map_eq_some_iff, List.cons.injEq] at ht
        obtain ⟨r, _, he, _⟩ := ht
        exact absurd he hkl
      · rw [List.getElem?_append_right (by omega)] at ht
        rw [hlen] at ht hlt
        exact ⟨q - c.len, by omega, ht⟩
end

theorem not_mem_tuplesZip_of_head' {ls : List α} {cs : List (Level α)} {k : α} {rest : List α}
    (hk : k ∉ ls) : (k :: rest) ∉ tuplesZip ls cs := by
  intro h
  obtain ⟨l, r, he, hm⟩ := head_mem_of_mem_tuplesZip ls cs _ h
  simp only [List.cons.injEq] at he
  exact hk (he.1 ▸ hm)

mutual
theorem contains_spec : ∀ (t : Level α) (d : Nat), WF d t → ∀ (key : List α), key.length = d →
    (t.contains key = true ↔ key ∈ t.tuples)
  | .leaf ls o, d, h, key, hl => by
    simp only [WF] at h
    match key, hl with
    | [], hl => simp at hl; omega
    | [k], _ =>
      simp only [contains, tuples, List.mem_map, List.cons.injEq, and_true, exists_eq_right]
      exact pos?_isSome_iff
    | k :: k' :: rest, hl => simp at hl; omega
  | .node ls cs o, d, h, key, hl => by
    simp only [WF] at h
    match key, hl with
    | [], hl => simp at hl; omega
    | k :: rest, hl =>
      simp only [contains, tuples]
      cases hp : pos? ls k with
      | none =>
        simp only [Bool.false_eq_true, false_iff]
        exact not_mem_tuplesZip_of_head' (pos?_eq_none_iff.mp hp)
      | some i =>
        simp only
        have hi := (pos?_eq_some_iff h.2.1).mp hp
        exact containsAt_spec ls cs (d - 1) 0 h.2.2.2 h.2.1 i k rest hi (by simp at hl; omega)
theorem containsAt_spec : ∀ (ls : List α) (cs : List (Level α)) (d acc : Nat),
    WFList d acc cs → ls.Nodup → ∀ (i : Nat) (k : α) (rest : List α), ls[i]? = some k → rest.length = d →
    (containsAt cs i rest = true ↔ (k :: rest) ∈ tuplesZip ls cs)
  | [], cs, d, acc, h, hn, i, k, rest, hi, hl => by simp at hi
  | l :: ls, [], d, acc, h, hn, i, k, rest, hi, hl => by simp [containsAt, tuplesZip]
  | l :: ls, c :: cs, d, acc, h, hn, 0, k, rest, hi, hl => by
    simp only [WFList] at h
    rw [List.nodup_cons] at hn
    simp only [List.getElem?_cons_zero, Option.some.injEq] at hi
    subst hi
    simp only [containsAt, tuplesZip, List.mem_append, List.mem_map, List.cons.injEq, true_and,
      exists_eq_right]
    rw [contains_spec c d h.2.1 rest hl]
    constructor
    · intro hm; exact Or.inl hm
    · rintro (hm | hm)
      · exact hm
      · exact absurd hm (not_mem_tuplesZip_of_head' hn.1)
  | l :: ls, c :: cs, d, acc, h, hn, i + 1, k, rest, hi, hl => by
    simp only [WFList] at h
    rw [List.nodup_cons] at hn
    simp only [List.getElem?_cons_succ] at hi
    have hkl : l ≠ k := fun e => hn.1 (e ▸ List.mem_of_getElem? hi)
    simp only [containsAt, tuplesZip, List.mem_append, List.mem_map, List.cons.injEq]
    rw [containsAt_spec ls cs d (acc + c.len) h.2.2 hn.2 i k rest hi hl]
    constructor
    · intro hm; exact Or.inr hm
    · rintro (⟨r, _, he, _⟩ | hm)
      · exact absurd he hkl
      · exact hm
end

/-- `__contains__` (with its depth check) is exactly membership among the tuples, for every key -/
theorem containsKey_spec {t : Level α} {d : Nat} (hw : WF d t) (key : List α) :
    t.containsKey d key = true ↔ key ∈ t.tuples := by
  unfold containsKey
  by_cases hl : key.length = d
  · rw [if_neg (by simpa using hl)]
    exact contains_spec t d hw key hl
  · rw [if_pos (by simpa using hl)]
    simp only [Bool.false_eq_true, false_iff]
    intro hm
    exact hl (tuples_depth t d hw key hm)

end lookup

end Level

/-! ### the builder -/

namespace BTree
variable {α : Type} [DecidableEq α]

mutual
/-- the label tuples held by a partially built tree, in insertion order -/
def btuples : BTree α → List (List α)
  | .leaves ls => ls.map ([·])
  | .dict items => btuplesItems items
def btuplesItems : List (α × BTree α) → List (List α)
  | [] => []
  | (k, b) :: items => b.btuples.map (k :: ·) ++ btuplesItems items
end

mutual
/-- depth `d`, distinct keys in every dict -/
def BWF : Nat → BTree α → Prop
  | d, .leaves _ => d = 1
  | d, .dict items => 2 ≤ d ∧ (items.map (·.1)).Nodup ∧ BWFItems (d - 1) items
def BWFItems : Nat → List (α × BTree α) → Prop
  | _, [] => True
  | d, (_, b) :: items => BWF d b ∧ BWFItems d items
end

mutual
/-- `observed_last[j:]` names the right-most path of the tree. -/
def Right : BTree α → List (Option α) → Prop
  | .leaves _, _ => True
  | .dict items, obs => RightItems items obs
def RightItems : List (α × BTree α) → List (Option α) → Prop
  | [], _ => True
  | [(k, b)], o :: obs => o = some k ∧ Right b obs
  | [(_, _)], [] => False
  | _ :: kb :: items, obs => RightItems (kb :: items) obs
end

theorem btuplesItems_append (a b : List (α × BTree α)) :
    btuplesItems (a ++ b) = btuplesItems a ++ btuplesItems b := by
  induction a with
  | nil => simp [btuplesItems]
  | cons kb a ih => obtain ⟨k, x⟩ := kb; simp [btuplesItems, ih]

theorem BWFItems_append (d : Nat) (a b : List (α × BTree α)) :
    BWFItems d (a ++ b) ↔ BWFItems d a ∧ BWFItems d b := by
  induction a with
  | nil => simp [BWFItems]
  | cons kb a ih => obtain ⟨k, x⟩ := kb; simp [BWFItems, ih, and_assoc]

theorem rightItems_snoc (init : List (α × BTree α)) (k : α) (b : BTree α) (obs : List (Option α)) :
    RightItems (init ++ [(k, b)]) obs ↔ ∃ obs', obs = some k :: obs' ∧ Right b obs' := by
  induction init with
  | nil =>
    cases obs with
    | nil => simp [RightItems]
    | cons o obs => simp only [List.nil_append, RightItems, List.cons.injEq]; constructor
                    · rintro ⟨rfl, h⟩; exact ⟨obs, ⟨rfl, rfl⟩, h⟩
                    · rintro ⟨obs', ⟨rfl, rfl⟩, h⟩; exact ⟨rfl, h⟩
  | cons kb init ih =>
    cases hi : init ++ [(k, b)] with
    | nil => simp at hi
    | cons kb' rest =>
      simp only [List.cons_append, hi, RightItems]
      rw [← hi]; exact ih

theorem find?_none_iff (items : List (α × BTree α)) (v : α) :
    find? items v = none ↔ v ∉ items.map (·.1) := by
  induction items with
  | nil => simp [find?]
  | cons kb items ih =>
    obtain ⟨k, b⟩ := kb
    simp only [find?, List.map_cons, List.mem_cons, not_or]
    by_cases h : k = v
    · simp [h]
    · rw [if_neg h, ih]; constructor
      · intro hm; exact ⟨fun e => h e.symm, hm⟩
      · intro hm; exact hm.2

theorem find?_snoc (init : List (α × BTree α)) (v : α) (b : BTree α) (h : v ∉ init.map (·.1)) :
    find? (init ++ [(v, b)]) v = some b := by
  induction init with
  | nil => simp [find?]
  | cons kb init ih =>
    obtain ⟨k, x⟩ := kb
    simp only [List.map_cons, List.mem_cons, not_or] at h
    simp only [List.cons_append, find?]
    rw [if_neg (fun e => h.1 e.symm)]
    exact ih h.2

theorem replace_snoc (init : List (α × BTree α)) (v : α) (b b' : BTree α) (h : v ∉ init.map (·.1)) :
    replace (init ++ [(v, b)]) v b' = init ++ [(v, b')] := by
  induction init with
  | nil => simp [replace]
  | cons kb init ih =>
    obtain ⟨k, x⟩ := kb
    simp only [List.map_cons, List.mem_cons, not_or] at h
    simp only [List.cons_append, replace]
    rw [if_neg (fun e => h.1 e.symm), ih h.2]

/-- a key found again that is `observed_last` is the last item of its dict -/
theorem found_is_last {items : List (α × BTree α)} {v : α} {sub0 : BTree α} {obs : List (Option α)}
    (hn : (items.map (·.1)).Nodup) (hf : find? items v = some sub0) (hr : RightItems items (some v :: obs)) :
    ∃ init, items = init ++ [(v, sub0)] ∧ v ∉ init.map (·.1) ∧ Right sub0 obs := by
  rcases List.eq_nil_or_concat items with rfl | ⟨init, ⟨k, b⟩, rfl⟩
  · simp [find?] at hf
  · rw [List.concat_eq_append] at hn hf hr ⊢
    obtain ⟨obs', he, hb⟩ := (rightItems_snoc init k b _).mp hr
    simp only [List.cons.injEq, Option.some.injEq] at he
    obtain ⟨rfl, rfl⟩ := he
    rw [List.map_append, List.nodup_append] at hn
    have hv : v ∉ init.map (·.1) := fun hm => hn.2.2 v hm v (by simp) rfl
    rw [find?_snoc init v b hv] at hf
    cases hf
    exact ⟨init, rfl, hv, hb⟩

/-- One label inserted: the tree stays well formed, `observed_last` follows the right-most path,
    the label is added at the end. -/
theorem insert_spec : ∀ (label : List α) (b : BTree α) (obs : List (Option α)) (d : Nat)
    (b' : BTree α) (obs' : List (Option α)),
    BWF d b → Right b obs → d ≤ obs.length → label.length = d → insert b label obs = .ok (b', obs') →
    BWF d b' ∧ Right b' obs' ∧ obs'.length = obs.length ∧ btuples b' = btuples b ++ [label]
  | [], b, obs, d, b', obs', hw, hr, hl, hlen, h => by
    cases b <;> simp [insert] at h
  | [v], .leaves ls, obs, d, b', obs', hw, hr, hl, hlen, h => by
    simp only [insert, Except.ok.injEq, Prod.mk.injEq] at h
    obtain ⟨rfl, rfl⟩ := h
    simp only [BWF] at hw
    subst hw
    exact ⟨by simp [BWF], by simp [Right], rfl, by simp [btuples]⟩
  | [v], .dict items, obs, d, b', obs', hw, hr, hl, hlen, h => by
    simp [insert] at h
  | v :: w :: rest, .leaves ls, obs, d, b', obs', hw, hr, hl, hlen, h => by
    simp [insert] at h
  | v :: w :: rest, .dict items, [], d, b', obs', hw, hr, hl, hlen, h => by
    simp [insert] at h
  | v :: w :: rest, .dict items, o :: obs, d, b', obs', hw, hr, hl, hlen, h => by
    simp only [BWF] at hw
    obtain ⟨hd, hn, hitems⟩ := hw
    simp only [List.length_cons] at hlen hl
    simp only [insert] at h
    cases hf : find? items v with
    | none =>
      rw [hf] at h
      simp only at h
      have hbw : BWF (d - 1) (if rest.isEmpty then BTree.leaves [] else BTree.dict ([] : List (α × BTree α))) := by
        split
        · rename_i he
          have : rest = [] := by simpa using he
          subst this
          simp only [BWF]; simp at hlen; omega
        · rename_i he
          have : rest ≠ [] := by simpa using he
          have : 0 < rest.length := List.length_pos_iff.mpr this
          simp only [BWF, BWFItems, List.map_nil, List.nodup_nil, and_true]; omega
      have hR : Right (if rest.isEmpty then BTree.leaves [] else BTree.dict ([] : List (α × BTree α))) obs := by
        split <;> simp [Right, RightItems]
      have hbt : btuples (if rest.isEmpty then BTree.leaves [] else BTree.dict ([] : List (α × BTree α))) = [] := by
        split <;> simp [btuples, btuplesItems]
      cases hi : insert (if rest.isEmpty then BTree.leaves [] else BTree.dict []) (w :: rest) obs with
      | error e => rw [hi] at h; cases h
      | ok r =>
        obtain ⟨sub, obs''⟩ := r
        rw [hi] at h
        simp only [Except.ok.injEq, Prod.mk.injEq] at h
        obtain ⟨rfl, rfl⟩ := h
        obtain ⟨h2, h3, h4, h5⟩ := insert_spec (w :: rest) _ obs (d - 1) sub obs'' hbw hR (by omega)
          (by simp only [List.length_cons]; omega) hi
        refine ⟨?_, ?_, by simp [h4], ?_⟩
        · simp only [BWF]
          refine ⟨hd, ?_, ?_⟩
          · rw [List.map_append, List.nodup_append]
            refine ⟨hn, by simp, ?_⟩
            intro a ha b hb e
            simp only [List.map_cons, List.map_nil, List.mem_singleton] at hb
            subst hb; subst e
            exact (find?_none_iff items a).mp hf ha
          · rw [BWFItems_append]; exact ⟨hitems, by simp [BWFItems, h2]⟩
        · simp only [Right]
          rw [rightItems_snoc]; exact ⟨obs'', rfl, h3⟩
        · simp only [btuples]
          rw [hbt] at h5
          rw [btuplesItems_append]
          simp [btuplesItems, h5]
    | some sub0 =>
      rw [hf] at h
      simp only at h
      by_cases ho : o = some v
      · subst ho
        rw [if_neg (by simp)] at h
        simp only [Right] at hr
        obtain ⟨init, rfl, hv, hrs⟩ := found_is_last hn hf hr
        rw [BWFItems_append] at hitems
        simp only [BWFItems, and_true] at hitems
        cases hi : insert sub0 (w :: rest) obs with
        | error e => rw [hi] at h; cases h
        | ok r =>
          obtain ⟨sub, obs''⟩ := r
          rw [hi] at h
          simp only [Except.ok.injEq, Prod.mk.injEq] at h
          obtain ⟨rfl, rfl⟩ := h
          obtain ⟨h2, h3, h4, h5⟩ := insert_spec (w :: rest) sub0 obs (d - 1) sub obs'' hitems.2 hrs (by omega)
            (by simp only [List.length_cons]; omega) hi
          rw [replace_snoc init v sub0 sub hv]
          refine ⟨?_, ?_, by simp [h4], ?_⟩
          · simp only [BWF]
            refine ⟨hd, ?_, ?_⟩
            · simpa [List.map_append] using hn
            · rw [BWFItems_append]; exact ⟨hitems.1, by simp [BWFItems, h2]⟩
          · simp only [Right]
            rw [rightItems_snoc]; exact ⟨obs'', rfl, h3⟩
          · simp only [btuples]
            rw [btuplesItems_append, btuplesItems_append]
            simp [btuplesItems, h5]
      · rw [if_pos ho] at h; cases h

theorem insertAll_spec (d : Nat) : ∀ (ls : List (List α)) (t : BTree α) (obs : List (Option α)) (t' : BTree α),
    BWF d t → Right t obs → d ≤ obs.length → insertAll d t obs ls = .ok t' →
    BWF d t' ∧ btuples t' = btuples t ++ ls
  | [], t, obs, t', hw, hr, hl, h => by
    simp only [insertAll, Except.ok.injEq] at h
    subst h; exact ⟨hw, by simp⟩
  | l :: ls, t, obs, t', hw, hr, hl, h => by
    simp only [insertAll] at h
    by_cases hlen : l.length = d
    · rw [if_neg (by simpa using hlen)] at h
      cases hi : insert t l obs with
      | error e => rw [hi] at h; cases h
      | ok r =>
        obtain ⟨t1, obs1⟩ := r
        rw [hi] at h
        simp only at h
        obtain ⟨h2, h3, h4, h5⟩ := insert_spec l t obs d t1 obs1 hw hr hl hlen hi
        obtain ⟨h6, h7⟩ := insertAll_spec d ls t1 obs1 t' h2 h3 (by omega) h
        exact ⟨h6, by rw [h7, h5]; simp⟩
    · rw [if_pos (by simpa using hlen)] at h; cases h

variable [IntLabel α]

theorem mk?_ok {ls : List α} {ix : Index α} (h : Index.mk? ls = .ok ix) : ix.labels = ls ∧ ls.Nodup := by
  rw [Index.mk?_eq] at h
  by_cases hn : ls.Nodup
  · rw [if_pos hn] at h
    simp only [Except.ok.injEq] at h
    subst h; exact ⟨rfl, hn⟩
  · rw [if_neg hn] at h; cases h

mutual
theorem toLevel_spec : ∀ (b : BTree α) (off d : Nat) (t : Level α),
    BWF d b → toLevel b off = .ok t → Level.WF d t ∧ t.offset = off ∧ t.tuples = btuples b
  | .leaves ls, off, d, t, hw, h => by
    simp only [toLevel] at h
    cases hm : Index.mk? ls with
    | error e => rw [hm] at h; cases h
    | ok ix =>
      rw [hm] at h
      simp only [Except.ok.injEq] at h
      subst h
      obtain ⟨h1, h2⟩ := mk?_ok hm
      simp only [BWF] at hw
      simp [Level.WF, Level.offset, Level.tuples, btuples, h1, h2, hw]
  | .dict items, off, d, t, hw, h => by
    simp only [toLevel] at h
    simp only [BWF] at hw
    cases hc : toLevels items 0 with
    | error e => rw [hc] at h; cases h
    | ok cs =>
      rw [hc] at h
      simp only at h
      cases hm : Index.mk? (items.map (·.1)) with
      | error e => rw [hm] at h; cases h
      | ok ix =>
        rw [hm] at h
        simp only [Except.ok.injEq] at h
        subst h
        obtain ⟨h1, h2⟩ := mk?_ok hm
        obtain ⟨h3, h4, h5⟩ := toLevels_spec items 0 (d - 1) cs hw.2.2 hc
        simp only [Level.WF, Level.offset, Level.tuples, btuples, h1]
        exact ⟨⟨hw.1, h2, by simp [h4], h3⟩, trivial, h5⟩
theorem toLevels_spec : ∀ (items : List (α × BTree α)) (acc d : Nat) (cs : List (Level α)),
    BWFItems d items → toLevels items acc = .ok cs →
    Level.WFList d acc cs ∧ cs.length = items.length ∧
      Level.tuplesZip (items.map (·.1)) cs = btuplesItems items
  | [], acc, d, cs, hw, h => by
    simp only [toLevels, Except.ok.injEq] at h
    subst h
    simp [Level.WFList, Level.tuplesZip, btuplesItems]
  | (k, b) :: items, acc, d, cs, hw, h => by
    simp only [toLevels] at h
    simp only [BWFItems] at hw
    cases hb : toLevel b acc with
    | error e => rw [hb] at h; cases h
    | ok c =>
      rw [hb] at h
      simp only at h
      cases hr : toLevels items (acc + c.len) with
      | error e => rw [hr] at h; cases h
      | ok cs' =>
        rw [hr] at h
        simp only [Except.ok.injEq] at h
        subst h
        obtain ⟨h1, h2, h3⟩ := toLevel_spec b acc d c hw.1 hb
        obtain ⟨h4, h5, h6⟩ := toLevels_spec items (acc + c.len) d cs' hw.2 hr
        simp only [Level.WFList, List.length_cons, List.map_cons, Level.tuplesZip, btuplesItems]
        exact ⟨⟨h2, h1, h4⟩, by omega, by rw [h3, h6]⟩
end

end BTree

namespace Level
variable {α : Type} [DecidableEq α] [IntLabel α]

theorem fromLabels_spec {ts : List (List α)} {t : Level α} (h : fromLabels ts = .ok t) :
    (∃ d, WF d t ∧ (ts ≠ [] → 2 ≤ d)) ∧ t.offset = 0 ∧ t.tuples = ts := by
  unfold fromLabels at h
  cases ts with
  | nil =>
    simp only [Except.ok.injEq] at h
    subst h
    exact ⟨⟨1, by simp [WF], by simp⟩, rfl, by simp [tuples]⟩
  | cons first rest =>
    simp only at h
    by_cases hlt : first.length < 2
    · rw [if_pos hlt] at h; cases h
    · rw [if_neg hlt] at h
      cases hi : BTree.insertAll first.length (.dict []) (List.replicate first.length none) (first :: rest) with
      | error e => rw [hi] at h; cases h
      | ok tree =>
        rw [hi] at h
        simp only at h
        have hw0 : BTree.BWF first.length (.dict ([] : List (α × BTree α))) := by
          simp only [BTree.BWF, BTree.BWFItems, List.map_nil, List.nodup_nil, and_true]; omega
        obtain ⟨h1, h2⟩ := BTree.insertAll_spec first.length (first :: rest) (.dict []) _ tree hw0
          (by simp [BTree.Right, BTree.RightItems]) (by simp) hi
        obtain ⟨h3, h4, h5⟩ := BTree.toLevel_spec tree 0 first.length t h1 h
        refine ⟨⟨first.length, h3, fun _ => by omega⟩, h4, ?_⟩
        rw [h5, h2]; simp [BTree.btuples, BTree.btuplesItems]

end Level

end SF
