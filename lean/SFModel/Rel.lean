/-
  SFModel.Rel — reshaping and relational operations of Frame, rows as lists.

  Mirrors (as coded on the pinned tree):
    * static_frame/core/frame.py  `Frame._join`        (join section)
        match discovery (`map_iloc`: per left row `np.flatnonzero((row_left == target_right).all(axis=1))`),
        the `is_many` switch with its `seen` set, `left_loc_set / right_loc_set` (sets of LABELS),
        `many_loc` (Pair), PairLeft / PairRight extensions per join type, the composite construction
        (`left_index._loc_to_iloc(p[0])`, `_extract(row_key)`, reindex with fill, `other.loc[loc_right, col]`)
        and the non-composite construction (`final.extend(left, fill)` aligned by label,
        `if loc in left_index and … in map_iloc / elif loc in right_index / else fill`), templates.
    * static_frame/core/frame.py  `set_index`, `set_index_hierarchy`, `unset_index`,
        `relabel_shift_in`, `relabel_shift_out`            (index-move section)
    * static_frame/core/frame.py  `pivot`; static_frame/core/pivot.py `extrapolate_column_fields`,
        `pivot_items`, `pivot_records_items`               (pivot section)
    * static_frame/core/pivot.py  `pivot_index_map`; frame.py `pivot_stack`, `pivot_unstack` (stack section)

  Spec: relational definitions over lists of rows — nested-loop join, group-by then aggregate.

  A row label is a value of type `λ` in the join section and a tuple `List α` (one entry per index
  depth) in the other sections.  `keq` is the row-wise `==` of the key arrays (a parameter; NaN keys
  match nothing).  Not modelled: dtype resolution of the result columns (NumPy), `Index.union`
  ordering of the non-composite outer join, the order in which `ufunc_unique` / `iter_group_items`
  deliver distinct keys (parameter `uniq`).
-/
import SFModel.Basic

namespace SF.Rel

/-! ## join -/

structure Row (lam α : Type) where
  label : lam
  cells : List α
deriving Repr, DecidableEq

/-- a frame as seen by `_join`: its rows (with labels), its column labels -/
structure Tbl (lam γ α : Type) where
  rows : List (Row lam α)
  columns : List γ
deriving Repr, DecidableEq

inductive JoinType | inner | left | right | outer
deriving DecidableEq, Repr

/-- `Pair`, `PairLeft((x, cifv))`, `PairRight((cifv, x))` -/
inductive JLabel (lam : Type) where
  | pair (l r : lam)
  | left (l : lam)
  | right (r : lam)
deriving DecidableEq, Repr

def JoinType.keepsLeft : JoinType → Bool
  | .left | .outer => true
  | _ => false
def JoinType.keepsRight : JoinType → Bool
  | .right | .outer => true
  | _ => false

/-- a test on a position that may be out of range (never is: positions come from `range`) -/
def optTest {β : Type} (p : β → Bool) : Option β → Bool
  | some x => p x
  | none => false

section Join
variable {lam γ α κ : Type} [DecidableEq lam]
variable (kl kr : Row lam α → κ) (keq : κ → κ → Bool)

/-- `np.flatnonzero((row_left == target_right).all(axis=1))`: the right positions matching key `k` -/
def matchedIdx (k : κ) (R : List (Row lam α)) : List Nat :=
  (List.range R.length).filter fun j => optTest (fun r => keq k (kr r)) R[j]?

/-- the `for idx_left, row_left in enumerate(target_left)` loop filling `map_iloc`
    (left position ↦ matched right positions; rows without a match are skipped), `i0` = first position -/
def mapIlocFrom (R : List (Row lam α)) : Nat → List (Row lam α) → List (Nat × List Nat)
  | _, [] => []
  | i, l :: ls =>
    let m := matchedIdx kr keq (kl l) R
    if m.isEmpty then mapIlocFrom R (i + 1) ls else (i, m) :: mapIlocFrom R (i + 1) ls

def mapIloc (L R : List (Row lam α)) : List (Nat × List Nat) := mapIlocFrom kl kr keq R 0 L

/-- the `is_many` switch: starts as `composite_index`, becomes true on a left row with several matches
    or on a right position matched a second time (`seen`) -/
def isManyLoop : Bool → List Nat → List (Nat × List Nat) → Bool
  | many, _, [] => many
  | many, seen, (_, m) :: rest =>
    if many then true
    else match m with
      | [j] => if seen.contains j then true else isManyLoop false (j :: seen) rest
      | [] => isManyLoop false seen rest
      | _ :: _ :: _ => true

/-- `left_index[list(map_iloc.keys())]` zipped with the items: (left label, matched right labels) -/
def locPairs (L R : List (Row lam α)) : List (lam × List lam) :=
  (mapIloc kl kr keq L R).filterMap fun (i, m) =>
    match L[i]? with
    | some l => some (l.label, pick (R.map (·.label)) m)
    | none => none

/-- `many_loc`: `Pair(p) for p in product((left_loc_element,), right_loc_part)`, left-major -/
def manyLoc (L R : List (Row lam α)) : List (JLabel lam) :=
  (locPairs kl kr keq L R).flatMap fun (l, rs) => rs.map fun r => JLabel.pair l r

def leftLocSet (L R : List (Row lam α)) : List lam := (locPairs kl kr keq L R).map (·.1)
def rightLocSet (L R : List (Row lam α)) : List lam := (locPairs kl kr keq L R).flatMap (·.2)

/-- `final_index` of the composite (`is_many`) path -/
def finalIndexMany (jt : JoinType) (L R : List (Row lam α)) : List (JLabel lam) :=
  let many := manyLoc kl kr keq L R
  let extL := ((L.map (·.label)).filter fun x => !(leftLocSet kl kr keq L R).contains x).map JLabel.left
  let extR := ((R.map (·.label)).filter fun x => !(rightLocSet kl kr keq L R).contains x).map JLabel.right
  match jt with
  | .inner => many
  | .left => many ++ extL
  | .right => many ++ extR
  | .outer => many ++ extL ++ extR

/-- `index._loc_to_iloc(label)` followed by the row extraction: the row carrying a label (KeyError if none) -/
def rowOf (T : List (Row lam α)) (x : lam) : Except Err (Row lam α) :=
  match T.find? (fun r => r.label == x) with
  | some r => .ok r
  | none => .error .lookup

/-- one output row of the composite path: left cells (extracted by `row_key`, or fill after the
    reindex for PairRight) followed by the right cells (`other.loc[loc_right, col]`, or fill) -/
def manyRow (L R : List (Row lam α)) (wl wr : Nat) (fill : α) (p : JLabel lam) :
    Except Err (Row (JLabel lam) α) :=
  match p with
  | .pair l r => do
      let a ← rowOf L l
      let b ← rowOf R r
      pure ⟨p, a.cells ++ b.cells⟩
  | .left l => do
      let a ← rowOf L l
      pure ⟨p, a.cells ++ List.replicate wr fill⟩
  | .right r => do
      let b ← rowOf R r
      pure ⟨p, List.replicate wl fill ++ b.cells⟩

/-- result columns: `left_template.format(c)` then `right_template.format(c)`; a repeated label is
    rejected by the columns index -/
def joinColumns [DecidableEq γ] (tl tr : γ → γ) (cl cr : List γ) : Except Err (List γ) :=
  let cs := cl.map tl ++ cr.map tr
  if cs.eraseDups.length = cs.length then .ok cs else .error .nonUnique

/-- `Frame._join` with `composite_index=True` (so `is_many` is True from the start) -/
def joinComposite [DecidableEq γ] (jt : JoinType) (tl tr : γ → γ) (fill : α)
    (L R : Tbl lam γ α) : Except Err (Tbl (JLabel lam) γ α) := do
  let cols ← joinColumns tl tr L.columns R.columns
  let rows ← (finalIndexMany kl kr keq jt L.rows R.rows).mapM
    (manyRow L.rows R.rows L.columns.length R.columns.length fill)
  pure ⟨rows, cols⟩

/-! non-composite construction -/

/-- `final_index` when `is_many` is False; the outer case is `left_index.union(right_index)`
    (order delivered by the set operation: here left labels then the new right labels) -/
def finalIndexOne (jt : JoinType) (L R : List (Row lam α)) : List lam :=
  match jt with
  | .inner => leftLocSet kl kr keq L R
  | .left => L.map (·.label)
  | .right => R.map (·.label)
  | .outer => L.map (·.label) ++ (R.map (·.label)).filter fun x => !(L.map (·.label)).contains x

/-- position of a label (`left_index._loc_to_iloc(loc)`) -/
def ilocOf (T : List (Row lam α)) (x : lam) : Option Nat := T.findIdx? (fun r => r.label == x)

/-- the left cells of an output row of the non-composite path: `final.extend(left, fill_value)`
    aligns by label — the left row CARRYING THIS LABEL, or fill -/
def leftCellsOf (L : List (Row lam α)) (wl : Nat) (fill : α) (loc : lam) : List α :=
  match L.find? (fun r => r.label == loc) with
  | some a => a.cells
  | none => List.replicate wl fill

/-- `loc in left_index and left_index._loc_to_iloc(loc) in map_iloc`: the matched right positions -/
def viaLeft (L R : List (Row lam α)) (loc : lam) : Option (List Nat) :=
  match ilocOf L loc with
  | some i => (mapIloc kl kr keq L R).lookup i
  | none => none

/-- one output row of the non-composite path: left cells by label; the right cells from the
    three-way branch `loc in left_index and iloc in map_iloc` / `loc in right_index` / fill -/
def oneRow (L R : List (Row lam α)) (wl wr : Nat) (fill : α) (loc : lam) : Except Err (Row lam α) :=
  match viaLeft kl kr keq L R loc with
  | some m =>
    match m with
    | [j] => match R[j]? with
      | some b => .ok ⟨loc, leftCellsOf L wl fill loc ++ b.cells⟩
      | none => .error .lookup
    | _ => .error .other   -- `assert len(iloc) == 1`
  | none =>
    match R.find? (fun r => r.label == loc) with
    | some b => .ok ⟨loc, leftCellsOf L wl fill loc ++ b.cells⟩
    | none => .ok ⟨loc, leftCellsOf L wl fill loc ++ List.replicate wr fill⟩

/-- `Frame._join` with `composite_index=False` -/
def joinNonComposite [DecidableEq γ] (jt : JoinType) (tl tr : γ → γ) (fill : α)
    (L R : Tbl lam γ α) : Except Err (Tbl lam γ α) := do
  if isManyLoop false [] (mapIloc kl kr keq L.rows R.rows) then
    .error .shape    -- RuntimeError('A composite index is required in this join.')
  else
    let cols ← joinColumns tl tr L.columns R.columns
    let rows ← (finalIndexOne kl kr keq jt L.rows R.rows).mapM
      (oneRow kl kr keq L.rows R.rows L.columns.length R.columns.length fill)
    pure ⟨rows, cols⟩

/-! ### spec: nested-loop join -/

/-- the matching pairs, left-major -/
def matchPairs (L R : List (Row lam α)) : List (Row lam α × Row lam α) :=
  L.flatMap fun l => (R.filter fun r => keq (kl l) (kr r)).map fun r => (l, r)

def unmatchedLeft (L R : List (Row lam α)) : List (Row lam α) :=
  L.filter fun l => !(R.any fun r => keq (kl l) (kr r))

def unmatchedRight (L R : List (Row lam α)) : List (Row lam α) :=
  R.filter fun r => !(L.any fun l => keq (kl l) (kr r))

/-- relational definition of the four joins with the composite labels -/
def joinSpec (jt : JoinType) (wl wr : Nat) (fill : α) (L R : List (Row lam α)) :
    List (Row (JLabel lam) α) :=
  (matchPairs kl kr keq L R).map (fun (l, r) => ⟨JLabel.pair l.label r.label, l.cells ++ r.cells⟩)
  ++ (if jt.keepsLeft then
        (unmatchedLeft kl kr keq L R).map fun l => ⟨JLabel.left l.label, l.cells ++ List.replicate wr fill⟩
      else [])
  ++ (if jt.keepsRight then
        (unmatchedRight kl kr keq L R).map fun r => ⟨JLabel.right r.label, List.replicate wl fill ++ r.cells⟩
      else [])

/-- relational definition of the 1:1 joins labelled by the left label (inner, left) -/
def joinSpecLeftLabel (jt : JoinType) (wr : Nat) (fill : α) (L R : List (Row lam α)) :
    List (Row lam α) :=
  L.filterMap fun l =>
    match R.find? (fun r => keq (kl l) (kr r)) with
    | some r => some ⟨l.label, l.cells ++ r.cells⟩
    | none => if jt = .left then some ⟨l.label, l.cells ++ List.replicate wr fill⟩ else none

end Join


/-! ## frames with tuple labels -/

/-- A frame: one name per index depth (`index.names`), row labels as tuples (a flat index has
    depth 1), flat column labels, rows as lists of cells. -/
structure Fr (γ α : Type) where
  indexNames : List γ
  index : List (List α)
  columns : List γ
  rows : List (List α)
deriving Repr, DecidableEq

/-- invariants of a frame -/
def Fr.WF {γ α} (f : Fr γ α) : Prop :=
  f.index.length = f.rows.length ∧ (∀ r ∈ f.rows, r.length = f.columns.length) ∧
    (∀ l ∈ f.index, l.length = f.indexNames.length)

section Sel
variable {β : Type}

/-- the entries at the given positions, in key order (`_extract(column_key=[…])` on one row) -/
def sel (r : List β) (js : List Nat) : List β := pick r js

/-- the entries NOT at the given positions, in order (`_drop_blocks(column_key=…)`, `_drop_iloc`) -/
def rest (r : List β) (js : List Nat) : List β :=
  pick r ((List.range r.length).filter fun i => !js.contains i)

/-- `list(x) has no repeated element` (the Index constructor's uniqueness check) -/
def nodupB [DecidableEq β] : List β → Bool
  | [] => true
  | x :: xs => !xs.contains x && nodupB xs

/-- the loop behind `IndexHierarchy` tree-form: a key may not come back after another one -/
def contiguousAux [DecidableEq β] (seen : List β) (last : Option β) : List β → Bool
  | [] => true
  | x :: xs =>
    if last = some x then contiguousAux seen last xs
    else if seen.contains x then false
    else contiguousAux (x :: seen) (some x) xs

/-- tree-form of hierarchical labels: at every depth the groups of equal prefixes are contiguous -/
def treeForm [DecidableEq β] (labels : List (List β)) (depth : Nat) : Bool :=
  (List.range depth).all fun p => contiguousAux [] none (labels.map (·.take (p + 1)))

end Sel

section Moves
variable {γ α : Type} [DecidableEq γ] [DecidableEq α]

/-- `columns._loc_to_iloc(label)` -/
def locToIloc (cols : List γ) (c : γ) : Except Err Nat :=
  match cols.findIdx? (· == c) with
  | some j => .ok j
  | none => .error .lookup

/-- the index constructor on computed labels: unique, and tree-form when hierarchical -/
def checkLabels (labels : List (List α)) (depth : Nat) : Except Err Unit :=
  if !nodupB labels then .error .nonUnique
  else if depth > 1 && !treeForm labels depth then .error .indexInit
  else .ok ()

/-- `Frame.set_index(column, drop=…)` (one column).  With `drop` the data is rebuilt from the
    remaining blocks with `shape_reference=(rows, 0)` (commit 0a55f7a): when the column was the
    only one, the frame keeps its rows, each without cells (here: `rest r [j] = []` per row). -/
def setIndex (f : Fr γ α) (c : γ) (drop : Bool) : Except Err (Fr γ α) := do
  let j ← locToIloc f.columns c
  let labels := f.rows.map (sel · [j])
  checkLabels labels 1
  pure { indexNames := [c], index := labels,
         columns := if drop then rest f.columns [j] else f.columns,
         rows := if drop then f.rows.map (rest · [j]) else f.rows }

/-- `Frame.set_index_hierarchy(columns, drop=…)` (`reorder_for_hierarchy=False`); `drop` keeps the
    row count when every column is consumed (`shape_reference`, commit 0a55f7a). -/
def setIndexHierarchy (f : Fr γ α) (cs : List γ) (drop : Bool) : Except Err (Fr γ α) := do
  let js ← cs.mapM (locToIloc f.columns)
  if js.length < 2 then .error .indexInit   -- an IndexHierarchy needs depth > 1
  else
    let labels := f.rows.map (sel · js)
    checkLabels labels js.length
    pure { indexNames := sel f.columns js, index := labels,
           columns := if drop then rest f.columns js else f.columns,
           rows := if drop then f.rows.map (rest · js) else f.rows }

/-- the automatic index: labels `auto 0 … auto (n-1)`, one depth named `autoName` -/
def autoIndex (auto : Nat → α) (n : Nat) : List (List α) := (List.range n).map fun i => [auto i]

/-- `Frame.unset_index(names=…)`: the index arrays are put in front of the data -/
def unsetIndex (f : Fr γ α) (names : List γ) (auto : Nat → α) (autoName : γ) : Except Err (Fr γ α) :=
  let cols := (if names.isEmpty then f.indexNames else names) ++ f.columns
  if !nodupB cols then .error .nonUnique
  else .ok { indexNames := [autoName], index := autoIndex auto f.rows.length, columns := cols,
             rows := List.zipWith (· ++ ·) f.index f.rows }

/-- `Frame.relabel_shift_in(key, axis=0)`: the selected columns become the innermost index depths -/
def relabelShiftIn (f : Fr γ α) (cs : List γ) : Except Err (Fr γ α) := do
  let js ← cs.mapM (locToIloc f.columns)
  let labels := List.zipWith (fun l r => l ++ sel r js) f.index f.rows
  checkLabels labels (f.indexNames.length + js.length)
  pure { indexNames := f.indexNames ++ sel f.columns js, index := labels,
         columns := rest f.columns js, rows := f.rows.map (rest · js) }

/-- `Frame.relabel_shift_out(depth_level, axis=0)`: the selected depths go in front of the data;
    what remains is the new index (automatic when nothing remains) -/
def relabelShiftOut (f : Fr γ α) (ds : List Nat) (auto : Nat → α) (autoName : γ) : Except Err (Fr γ α) :=
  let depth := f.indexNames.length
  if ds.any (fun d => decide (d ≥ depth)) then .error .lookup
  else
    let cols := sel f.indexNames ds ++ f.columns
    let remainNames := rest f.indexNames ds
    let remain := f.index.map (rest · ds)
    if !nodupB cols then .error .nonUnique
    else do
      if !remainNames.isEmpty then checkLabels remain remainNames.length
      pure { indexNames := if remainNames.isEmpty then [autoName] else remainNames,
             index := if remainNames.isEmpty then autoIndex auto f.rows.length else remain,
             columns := cols,
             rows := List.zipWith (fun l r => sel l ds ++ r) f.index f.rows }

end Moves

/-! ## pivot -/

/-- a component of a result column label: a value of a columns field, or a field / function name -/
inductive PLab (γ α : Type) where
  | val (a : α)
  | fld (c : γ)
deriving DecidableEq, Repr

structure PFrame (γ α : Type) where
  index : List (List α)
  columns : List (List (PLab γ α))
  rows : List (List α)
deriving Repr, DecidableEq

section Pivot
variable {γ α : Type} [DecidableEq γ] [DecidableEq α]

/-- `extrapolate_column_fields`: the labels of the columns one group of the columns fields expands to -/
def extrapolate (nColFields : Nat) (group : List α) (dataFields funcFields : List γ) : List (List (PLab γ α)) :=
  let g : List (PLab γ α) := group.map PLab.val
  if nColFields = 1 ∧ dataFields.length = 1 then
    if funcFields.isEmpty then [g] else funcFields.map fun fn => g ++ [PLab.fld fn]
  else if nColFields = 1 ∧ dataFields.length > 1 then
    if funcFields.isEmpty then dataFields.map fun d => g ++ [PLab.fld d]
    else dataFields.flatMap fun d => funcFields.map fun fn => g ++ [PLab.fld d, PLab.fld fn]
  else if nColFields > 1 ∧ dataFields.length = 1 then
    if funcFields.isEmpty then [g] else funcFields.map fun fn => g ++ [PLab.fld fn]
  else
    if funcFields.isEmpty then dataFields.map fun d => g ++ [PLab.fld d]
    else dataFields.flatMap fun d => funcFields.map fun fn => g ++ [PLab.fld d, PLab.fld fn]

/-- `if len(values) == 1: values[0] else: func(values)` — the function is NOT applied to a single value -/
def aggOne (fn : List α → α) (vals : List α) : α :=
  match vals with
  | [v] => v
  | _ => fn vals

/-- one record of `pivot_records_items` / `pivot_items`: per data field, per function -/
def record (dj : List Nat) (funcs : List (γ × (List α → α))) (sub : List (List α)) : List α :=
  dj.flatMap fun j => funcs.map fun (_, fn) => aggOne fn (sub.flatMap fun r => sel r [j])

/-- "assume no aggregation necessary": the raw data cells of one row, repeated per function -/
def rawRecord (dj : List Nat) (funcs : List (γ × (List α → α))) (r : List α) : List α :=
  dj.flatMap fun j => funcs.flatMap fun _ => sel r [j]

/-- the sub-frame of one columns-field group: (index label, record) pairs -/
def subFrame (ij dj : List Nat) (funcs : List (γ × (List α → α))) (uniq : List (List α) → List (List α))
    (sub : List (List α)) : List (List α × List α) :=
  let labels := sub.map (sel · ij)
  if !nodupB labels then
    -- aggregate: group the sub-frame by the index fields
    (uniq labels).map fun k => (k, record dj funcs (sub.filter fun r => sel r ij == k))
  else
    sub.map fun r => (sel r ij, rawRecord dj funcs r)

/-- the data fields: as given, or every column not used as index / columns field -/
def pivotData (f : Fr γ α) (indexFields columnsFields dataFields : List γ) : List γ :=
  if dataFields.isEmpty
  then f.columns.filter fun c => !(indexFields ++ columnsFields).contains c else dataFields

/-- `func_fields`: empty for a single function, else the labels of the function map -/
def funcFieldsOf (funcs : List (γ × (List α → α))) : List γ :=
  if funcs.length = 1 then [] else funcs.map (·.1)

/-- `Frame.pivot`.  `uniq` delivers the distinct keys (`ufunc_unique`, `iter_group_items`) in the
    order NumPy yields them. -/
def pivot (uniq : List (List α) → List (List α)) (f : Fr γ α) (indexFields columnsFields dataFields : List γ)
    (funcs : List (γ × (List α → α))) (fill : α) : Except Err (PFrame γ α) := do
  if funcs.isEmpty || indexFields.isEmpty then .error .value
  else
    let funcFields : List γ := funcFieldsOf funcs
    if (indexFields ++ columnsFields).any (fun c => !f.columns.contains c) then .error .init
    else
      let data := pivotData f indexFields columnsFields dataFields
      if data.isEmpty then .error .init
      else
        let ij ← indexFields.mapM (locToIloc f.columns)
        let cj ← columnsFields.mapM (locToIloc f.columns)
        let dj ← data.mapM (locToIloc f.columns)
        let indexValues := uniq (f.rows.map (sel · ij))
        if columnsFields.isEmpty then
          -- group by the index fields
          let cols : List (List (PLab γ α)) :=
            if funcFields.isEmpty then data.map fun d => [PLab.fld d]
            else data.flatMap fun d => funcFields.map fun fn => [PLab.fld d, PLab.fld fn]
          pure { index := indexValues, columns := cols,
                 rows := indexValues.map fun k => record dj funcs (f.rows.filter fun r => sel r ij == k) }
        else
          let groups := uniq (f.rows.map (sel · cj))
          let subs := groups.map fun g =>
            subFrame ij dj funcs uniq (f.rows.filter fun r => sel r cj == g)
          let width := dj.length * funcs.length
          pure { index := indexValues,
                 columns := groups.flatMap fun g => extrapolate columnsFields.length g data funcFields,
                 -- from_concat(sub_frames, index=index_inner, axis=1, fill_value): align by label
                 rows := indexValues.map fun k => subs.flatMap fun sf =>
                   match sf.find? (fun p => p.1 == k) with
                   | some p => p.2
                   | none => List.replicate width fill }

/-- relational definition of one pivot cell: the function applied to the data cells of exactly
    the source rows with that (index value, columns value) pair; fill where there is none -/
def pivotCell (f : Fr γ α) (ij cj : List Nat) (j : Nat) (agg : List α → α) (fill : α) (k g : List α) : α :=
  let src := f.rows.filter fun r => sel r ij == k && sel r cj == g
  if src.isEmpty then fill else agg (src.flatMap fun r => sel r [j])

/-- the relational content of one (index value, group) block of the result -/
def pivotBlock (f : Fr γ α) (ij cj dj : List Nat) (funcs : List (γ × (List α → α))) (fill : α)
    (k g : List α) : List α :=
  dj.flatMap fun j => funcs.map fun fn => pivotCell f ij cj j (aggOne fn.2) fill k g

/-- `uniq` delivers every distinct key exactly once -/
def UniqSpec (uniq : List (List α) → List (List α)) : Prop :=
  ∀ l, (uniq l).Nodup ∧ ∀ x, x ∈ uniq l ↔ x ∈ l


end Pivot


/-! ## pivot_stack / pivot_unstack -/

/-- a frame whose row and column labels are both tuples (hierarchical or depth 1) -/
structure HFr (α : Type) where
  index : List (List α)
  columns : List (List α)
  rows : List (List α)
deriving Repr, DecidableEq

section Stack
variable {α : Type} [DecidableEq α]

/-- the entries of a label at the depths where the mask has the given value
    (`target_select` / `group_select` of `pivot_index_map`) -/
def maskSel (mask : List Bool) (want : Bool) (l : List α) : List α :=
  (l.zip mask).filterMap fun (x, b) => if b = want then some x else none

/-- `target_map[target] = axis_idx` on an insertion-ordered dict -/
def tmInsert (tm : List (List α × Nat)) (t : List α) (i : Nat) : List (List α × Nat) :=
  match tm with
  | [] => [(t, i)]
  | (t', v) :: rest => if t' = t then (t', i) :: rest else (t', v) :: tmInsert rest t i

/-- `group_to_target_map[group][target] = axis_idx` on an insertion-ordered dict of dicts -/
def g2tInsert (m : List (List α × List (List α × Nat))) (g t : List α) (i : Nat) :
    List (List α × List (List α × Nat)) :=
  match m with
  | [] => [(g, [(t, i)])]
  | (g', tm) :: rest => if g' = g then (g', tmInsert tm t i) :: rest else (g', tm) :: g2tInsert rest g t i

/-- the loop of `pivot_index_map` over the labels of the contracted axis (`i0` = first position);
    with `group_depth == 0` every label has the empty group, which gives the single `None` group -/
def pimLoop (mask : List Bool) : Nat → List (List α) → List (List α × List (List α × Nat)) →
    List (List α × List (List α × Nat))
  | _, [], m => m
  | i, l :: ls, m => pimLoop mask (i + 1) ls (g2tInsert m (maskSel mask false l) (maskSel mask true l) i)

/-- `targets_unique`: the targets in the order observed -/
def targetsUnique (mask : List Bool) (labels : List (List α)) : List (List α) :=
  (labels.map (maskSel mask true)).eraseDups

def g2tOf (mask : List Bool) (labels : List (List α)) : List (List α × List (List α × Nat)) :=
  pimLoop mask 0 labels []

/-- `values_src._extract(row_idx, col_idx)` -/
def cellAt (rows : List (List α)) (i j : Nat) : Option α := (rows[i]?).bind (·[j]?)

/-- the labels of the contracted axis after the pivot: the groups, or the automatic labels when no
    depth remains (`contract_dst = None`) -/
def contractLabels (auto : Nat → α) (g2t : List (List α × List (List α × Nat))) (groupDepth : Nat) : List (List α) :=
  if groupDepth = 0 then (List.range g2t.length).map fun i => [auto i] else g2t.map (·.1)

/-- one record / one column of the result: per group (in dict order) the source cell registered
    for this target, or the fill value -/
def pimRecord (g2t : List (List α × List (List α × Nat))) (t : List α) (get : Nat → Option α) (fill : α) :
    Except Err (List α) :=
  g2t.mapM fun (gt : List α × List (List α × Nat)) =>
    match gt.2.lookup t with
    | some idx =>
      match get idx with
      | some v => Except.ok v
      | none => Except.error Err.lookup
    | none => Except.ok fill

/-- the (outer label, position, target) triples in the order the result is produced -/
def expandKeys (outerLabels targets : List (List α)) : List (List α × Nat × List α) :=
  outerLabels.zipIdx.flatMap fun (p : List α × Nat) => targets.map fun t => (p.1 ++ t, p.2, t)

/-- `Frame.pivot_stack(depth_level)`: `mask` marks the column depths that move to the index -/
def pivotStack (f : HFr α) (mask : List Bool) (fill : α) (auto : Nat → α) : Except Err (HFr α) :=
  let g2t := g2tOf mask f.columns
  let keys := expandKeys f.index (targetsUnique mask f.columns)
  let groupDepth := (mask.filter (· == false)).length
  match keys.mapM (fun (k : List α × Nat × List α) =>
      pimRecord g2t k.2.2 (fun c => cellAt f.rows k.2.1 c) fill) with
  | .error e => .error e
  | .ok recs => .ok { index := keys.map (·.1), columns := contractLabels auto g2t groupDepth, rows := recs }

/-- `Frame.pivot_unstack(depth_level)`: `mask` marks the index depths that move to the columns -/
def pivotUnstack (f : HFr α) (mask : List Bool) (fill : α) (auto : Nat → α) : Except Err (HFr α) :=
  let g2t := g2tOf mask f.index
  let keys := expandKeys f.columns (targetsUnique mask f.index)
  let groupDepth := (mask.filter (· == false)).length
  match keys.mapM (fun (k : List α × Nat × List α) =>
      pimRecord g2t k.2.2 (fun r => cellAt f.rows r k.2.1) fill) with
  | .error e => .error e
  | .ok cols =>
    .ok { index := contractLabels auto g2t groupDepth, columns := keys.map (·.1),
          -- the items are columns: transpose into rows
          rows := (List.range g2t.length).map fun i => cols.filterMap fun col => col[i]? }

/-- `group_to_target_map[g][t]` (None when absent) -/
def lookup2 (m : List (List α × List (List α × Nat))) (g t : List α) : Option Nat :=
  match m.lookup g with
  | some tm => tm.lookup t
  | none => none

/-- the (group, target) split of a label -/
def split (mask : List Bool) (l : List α) : List α × List α := (maskSel mask false l, maskSel mask true l)


end Stack

end SF.Rel
