/- Helper lemmas about the flag automaton of `prepare_iter_for_array` (Props/C07.lean). -/
import SFModel.DType

namespace SF

/-! ### `prepare_iter_for_array` -/

def ECls.isNonStr : ECls → Bool
  | .inexact | .bigInt | .other => true
  | _ => false

def hasCls (cs : List ECls) (x : ECls) : Bool := cs.any (· == x)

/-- the mixes for which `prepare_iter_for_array` must answer `object` -/
def objMix (cs : List ECls) : Bool :=
  hasCls cs .tupleLike || hasCls cs .enum || (hasCls cs .str && cs.any ECls.isNonStr)
    || (hasCls cs .bigInt && hasCls cs .inexact)

theorem objMix_append_left {seen : List ECls} (cs : List ECls) (h : objMix seen = true) :
    objMix (seen ++ cs) = true := by
  unfold objMix hasCls at *
  simp only [List.any_append, Bool.or_eq_true, Bool.and_eq_true] at *
  rcases h with ((h | h) | ⟨h1, h2⟩) | ⟨h1, h2⟩
  · exact Or.inl (Or.inl (Or.inl (Or.inl h)))
  · exact Or.inl (Or.inl (Or.inr (Or.inl h)))
  · exact Or.inl (Or.inr ⟨Or.inl h1, Or.inl h2⟩)
  · exact Or.inr ⟨Or.inl h1, Or.inl h2⟩

theorem hasCls_append (seen : List ECls) (c x : ECls) :
    hasCls (seen ++ [c]) x = (hasCls seen x || c == x) := by
  simp [hasCls, List.any_append]

theorem anyNonStr_append (seen : List ECls) (c : ECls) :
    (seen ++ [c]).any ECls.isNonStr = (seen.any ECls.isNonStr || c.isNonStr) := by
  simp [List.any_append]

/-- the flags describe the values seen so far -/
structure FlagsInv (f : PFlags) (seen : List ECls) : Prop where
  tuple : f.hasTuple = hasCls seen .tupleLike
  str : f.hasStr = hasCls seen .str
  enum : f.hasEnum = hasCls seen .enum
  nonStr : f.hasNonStr = seen.any ECls.isNonStr
  inexact : f.hasInexact = hasCls seen .inexact
  bigInt : f.hasBigInt = hasCls seen .bigInt
  resolved : f.resolved = objMix seen

/-- the fields after one turn of the loop body -/
theorem step_fields (f : PFlags) (c : ECls) (hr : f.resolved = false) :
    (f.step c).hasTuple = (f.hasTuple || c == .tupleLike) ∧
    (f.step c).hasStr = (f.hasStr || c == .str) ∧
    (f.step c).hasEnum = (f.hasEnum || c == .enum) ∧
    (f.step c).hasNonStr = (f.hasNonStr || c.isNonStr) ∧
    (f.step c).hasInexact = (f.hasInexact || c == .inexact) ∧
    (f.step c).hasBigInt = (f.hasBigInt || c == .bigInt) ∧
    (f.step c).resolved =
      ((f.hasTuple || c == .tupleLike) || (f.hasEnum || c == .enum)
        || ((f.hasStr || c == .str) && (f.hasNonStr || c.isNonStr))
        || ((f.hasBigInt || c == .bigInt) && (f.hasInexact || c == .inexact))) := by
  obtain ⟨r, t, s, e, n, i, b⟩ := f
  simp only at hr
  subst hr
  cases c <;> cases t <;> cases s <;> cases e <;> cases n <;> cases i <;> cases b <;> decide

theorem FlagsInv.step {f : PFlags} {seen : List ECls} (h : FlagsInv f seen) (c : ECls)
    (hr : f.resolved = false) : FlagsInv (f.step c) (seen ++ [c]) := by
  obtain ⟨h1, h2, h3, h4, h5, h6, h7⟩ := step_fields f c hr
  refine ⟨?_, ?_, ?_, ?_, ?_, ?_, ?_⟩
  · rw [h1, hasCls_append, h.tuple]
  · rw [h2, hasCls_append, h.str]
  · rw [h3, hasCls_append, h.enum]
  · rw [h4, anyNonStr_append, h.nonStr]
  · rw [h5, hasCls_append, h.inexact]
  · rw [h6, hasCls_append, h.bigInt]
  · rw [h7]
    unfold objMix
    simp only [hasCls_append, anyNonStr_append, h.tuple, h.str, h.enum, h.nonStr, h.inexact, h.bigInt]

theorem FlagsInv.init : FlagsInv {} [] := by
  constructor <;> rfl

/-- the loop, started in a state describing `seen`, answers `object` iff the whole input is an
    object mix, and reports a tuple iff one was seen before the loop stopped -/
theorem prepareGo_resolved {f : PFlags} {seen : List ECls} (h : FlagsInv f seen) (cs : List ECls) :
    (prepareGo f cs).resolved = objMix (seen ++ cs) := by
  induction cs generalizing f seen with
  | nil => simp [prepareGo, h.resolved]
  | cons c cs ih =>
    simp only [prepareGo]
    split
    · rename_i hr
      rw [hr]
      exact (objMix_append_left _ (by rw [← h.resolved]; exact hr)).symm
    · rename_i hr
      have := ih (h.step c (by simpa using hr))
      rw [this]; simp

/-- where the scan stops: the shortest prefix that is an object mix (or everything) -/
def scanned : List ECls → List ECls → List ECls
  | seen, [] => seen
  | seen, c :: cs => if objMix seen then seen else scanned (seen ++ [c]) cs

theorem prepareGo_inv {f : PFlags} {seen : List ECls} (h : FlagsInv f seen) (cs : List ECls) :
    FlagsInv (prepareGo f cs) (scanned seen cs) := by
  induction cs generalizing f seen with
  | nil => simpa [prepareGo, scanned] using h
  | cons c cs ih =>
    simp only [prepareGo, scanned]
    rw [← h.resolved]
    split
    · exact h
    · rename_i hr
      exact ih (h.step c (by simpa using hr))

end SF
