/-
  Lemmas for SFModel.BlocksAssign: the assignment generator `_assign_from_iloc_by_unit` refines
  "replace exactly the addressed cells" on the `(dtype, column)` view of the blocks.
-/
import SFModel.BlocksAssign
import SFModel.BlocksLemmas

namespace SF
open TB
variable {α : Type}

/-! ### writing one column -/

theorem writeCol_length (c : List α) (rps : List Nat) (vals : List α) :
    (writeCol c rps vals).length = c.length := by
  unfold writeCol
  generalize rps.zip vals = l
  induction l generalizing c with
  | nil => rfl
  | cons p l ih => simp only [List.foldl_cons]; rw [ih]; simp

/-- a row that is not addressed keeps its cell -/
theorem writeCol_get_not_mem (c : List α) (rps : List Nat) (vals : List α) (i : Nat) (h : i ∉ rps) :
    (writeCol c rps vals)[i]? = c[i]? := by
  unfold writeCol
  induction rps generalizing c vals with
  | nil => rfl
  | cons r rps ih =>
    cases vals with
    | nil => rfl
    | cons x vals =>
      simp only [List.zip_cons_cons, List.foldl_cons]
      rw [ih _ _ (fun hm => h (List.mem_cons_of_mem _ hm))]
      exact List.getElem?_set_ne (fun e => h (by rw [e]; exact List.mem_cons_self))

/-- an addressed row holds the value of its LAST occurrence in the key -/
theorem writeCol_get_last (c : List α) (rps : List Nat) (vals : List α) (k : Nat)
    (hk : k < rps.length) (hlen : vals.length = rps.length) (hlt : ∀ r ∈ rps, r < c.length)
    (hlast : ∀ k', k < k' → (h' : k' < rps.length) → rps[k'] ≠ rps[k]) :
    (writeCol c rps vals)[rps[k]]? = vals[k]? := by
  unfold writeCol
  induction rps generalizing c vals k with
  | nil => cases hk
  | cons r rps ih =>
    cases vals with
    | nil => simp at hlen
    | cons x vals =>
      simp only [List.zip_cons_cons, List.foldl_cons]
      simp only [List.length_cons, Nat.add_right_cancel_iff] at hlen
      cases k with
      | zero =>
        simp only [List.getElem_cons_zero, List.getElem?_cons_zero]
        have hnot : r ∉ rps := by
          intro hm
          obtain ⟨j, hj, hj'⟩ := List.getElem_of_mem hm
          have := hlast (j + 1) (by omega) (by simpa using hj)
          simp only [List.getElem_cons_succ, List.getElem_cons_zero] at this
          exact this hj'
        have := writeCol_get_not_mem (c.set r x) rps vals r hnot
        unfold writeCol at this
        rw [this]
        exact List.getElem?_set_self (hlt r List.mem_cons_self)
      | succ k =>
        simp only [List.getElem_cons_succ, List.getElem?_cons_succ]
        apply ih (c.set r x) vals k (by simpa using hk) hlen
        · intro r' hr'
          rw [List.length_set]
          exact hlt r' (List.mem_cons_of_mem _ hr')
        · intro k' hkk' h'
          have := hlast (k' + 1) (by omega) (by simpa using h')
          simpa using this

/-- writing every row in order replaces the column -/
theorem writeCol_range (c vals : List α) (h : vals.length = c.length) :
    writeCol c (List.range c.length) vals = vals := by
  apply List.ext_getElem?
  intro i
  by_cases hi : i < c.length
  · have hk : i < (List.range c.length).length := by simpa using hi
    have := writeCol_get_last c (List.range c.length) vals i hk (by simpa using h)
      (by intro r hr; simpa using hr)
      (by intro k' hkk' h'; simp; omega)
    simpa using this
  · rw [List.getElem?_eq_none (by rw [writeCol_length]; omega), List.getElem?_eq_none (by omega)]

theorem writeCol_all (c vals : List α) (rps : List Nat) (rows : Nat) (hr : rps = List.range rows)
    (hc : c.length = rows) (hv : vals.length = rps.length) : writeCol c rps vals = vals := by
  subst hr
  subst hc
  exact writeCol_range c vals (by simpa using hv)

/-! ### broadcasting, pieces -/

theorem bcast_self {β} (l : List β) (n : Nat) (h : l.length = n) : bcast l n = some l := by
  simp [bcast, h]

namespace AVal

/-- the value the walk holds when `k` addressed columns have been passed: slice targets consume the
    value, integer targets do not -/
def cur (isSl : Bool) (v : AVal α) (k : Nat) : AVal α := if isSl then v.dropCols k else v

@[simp] theorem dropCols_dt (v : AVal α) (k : Nat) : (v.dropCols k).dt = v.dt := by
  cases v <;> rfl

@[simp] theorem cur_dt (isSl : Bool) (v : AVal α) (k : Nat) : (cur isSl v k).dt = v.dt := by
  unfold cur; split <;> simp

@[simp] theorem dropCols_sized (v : AVal α) (k : Nat) : (v.dropCols k).sized = v.sized := by
  cases v <;> rfl

theorem dropCols_zero (v : AVal α) : v.dropCols 0 = v := by
  cases v <;> simp [dropCols]

/-- the `n` values the `m`-th addressed column receives (spec of the cursor) -/
def valsFor (v : AVal α) (isSl : Bool) (n m : Nat) : List α :=
  match v with
  | .elem x _ => List.replicate n x
  | .col vs _ =>
    if isSl then (match vs[m]? with | some x => List.replicate n x | none => []) else vs
  | .mat cols _ => cols.getD m []

/-- the value has a cell for every addressed row of the `m`-th addressed column -/
def FitAt (v : AVal α) (isSl scalarRow : Bool) (n m : Nat) : Prop :=
  match v with
  | .elem _ _ => True
  | .col vs _ => if isSl then m < vs.length else (scalarRow = false ∧ vs.length = n)
  | .mat cols _ => isSl = true ∧ scalarRow = false ∧ ∃ c, cols[m]? = some c ∧ c.length = n

theorem valsFor_length (v : AVal α) (isSl scalarRow : Bool) (n m : Nat) (h : v.FitAt isSl scalarRow n m) :
    (v.valsFor isSl n m).length = n := by
  cases v with
  | elem x t => simp [valsFor]
  | col vs t =>
    cases isSl with
    | true =>
      simp only [FitAt, if_true] at h
      simp [valsFor, List.getElem?_eq_getElem h]
    | false =>
      simp only [FitAt, Bool.false_eq_true, if_false] at h
      simp [valsFor, h.2]
  | mat cols t =>
    obtain ⟨_, _, c, hc, hl⟩ := h
    simp [valsFor, List.getD_eq_getElem?_getD, hc, hl]

end AVal

theorem bcastE_self {β} (l : List β) (n : Nat) (h : l.length = n) : bcastE l n = .ok l := by
  simp [bcastE, bcast_self l n h]

theorem mapM_bcast_ok (cs : List (List α)) (n : Nat) (h : ∀ c ∈ cs, c.length = n) :
    cs.mapM (bcastE · n) = .ok cs := by
  have := mapM_map_except_ok cs id (fun c => bcastE (β := α) c n) id
    (by intro c hc; simp [bcastE_self c n (h c hc)])
  simpa using this

/-- what `takePiece` hands to the write and what the write stores, for a target of `len + 1` columns
    met when `k` addressed columns have been passed -/
theorem piece_cells_spec (v0 : AVal α) (isSl is1d scalarRow : Bool) (k len n : Nat)
    (vw : Except Err Nat) (hvw : is1d = false → vw = .ok (len + 1))
    (hfit : ∀ i, i ≤ len → v0.FitAt isSl scalarRow n (k + i))
    (h1d : is1d = true → len = 0) (his : isSl = false → is1d = true) :
    ∃ piece, TB.takePiece (AVal.cur isSl v0 k) isSl is1d vw = .ok (piece, AVal.cur isSl v0 (k + len + 1)) ∧
      piece.cells is1d scalarRow (len + 1) n
        = .ok ((List.range (len + 1)).map (fun i => v0.valsFor isSl n (k + i))) := by
  cases v0 with
  | elem x t =>
    refine ⟨.elem x, ?_, ?_⟩
    · have hc : ∀ k, AVal.cur isSl (AVal.elem x t) k = AVal.elem x t := by
        intro k; unfold AVal.cur; split <;> rfl
      simp [hc, TB.takePiece, AVal.sized]
    · simp only [Piece.cells, AVal.valsFor]
      congr 1
      apply List.ext_getElem
      · simp
      · intro i h1 h2; simp
  | col vs t =>
    cases isSl with
    | false =>
      have h1 := his rfl
      have hl := h1d h1
      subst hl h1
      have hf := hfit 0 (Nat.le_refl _)
      simp only [AVal.FitAt, Bool.false_eq_true, if_false] at hf
      refine ⟨.vec vs, ?_, ?_⟩
      · simp [AVal.cur, TB.takePiece]
      · simp [Piece.cells, hf.1, bcastE_self vs n hf.2, Except.map, AVal.valsFor]
    | true =>
      have hlt : ∀ i, i ≤ len → k + i < vs.length := by
        intro i hi
        have := hfit i hi
        simpa [AVal.FitAt] using this
      cases is1d with
      | true =>
        have hl := h1d rfl
        subst hl
        have hk : k < vs.length := by simpa using hlt 0 (Nat.le_refl _)
        refine ⟨.elem vs[k], ?_, ?_⟩
        · simp only [AVal.cur, if_true, AVal.dropCols, TB.takePiece, AVal.sized, and_self, Nat.add_zero]
          rw [List.drop_eq_getElem_cons hk]
        · simp [Piece.cells, AVal.valsFor, List.getElem?_eq_getElem hk]
      | false =>
        rw [hvw rfl]
        refine ⟨.vec ((vs.drop k).take (len + 1)), ?_, ?_⟩
        · simp only [AVal.cur, if_true, AVal.dropCols, TB.takePiece, AVal.sized, and_self,
            Bool.false_eq_true, if_false, List.drop_drop]
          congr 3
        · have hlen : ((vs.drop k).take (len + 1)).length = len + 1 := by
            have := hlt len (Nat.le_refl _)
            simp; omega
          simp only [Piece.cells, Bool.false_eq_true, if_false, bcastE_self _ _ hlen, Except.map]
          congr 1
          apply List.ext_getElem
          · rw [List.length_map, hlen]; simp
          · intro i h1 h2
            have hi : i ≤ len := by simp at h2; omega
            have := hlt i hi
            simp [AVal.valsFor, List.getElem?_eq_getElem this]
  | mat cols t =>
    have hf0 := hfit 0 (Nat.zero_le _)
    obtain ⟨hsl, hsc, _⟩ := hf0
    subst hsl hsc
    have hget : ∀ i, i ≤ len → ∃ c, cols[k + i]? = some c ∧ c.length = n := by
      intro i hi
      exact (hfit i hi).2.2
    have hlt : ∀ i, i ≤ len → k + i < cols.length := by
      intro i hi
      obtain ⟨c, hc, _⟩ := hget i hi
      exact (List.getElem?_eq_some_iff.mp hc).1
    cases is1d with
    | true =>
      have hl := h1d rfl
      subst hl
      have hk : k < cols.length := by simpa using hlt 0 (Nat.le_refl _)
      obtain ⟨c, hc, hcl⟩ := hget 0 (Nat.le_refl _)
      have hck : cols[k] = c := by
        have := List.getElem?_eq_getElem hk
        simp only [Nat.add_zero] at hc
        rw [hc] at this
        exact (Option.some.inj this).symm
      refine ⟨.vec cols[k], ?_, ?_⟩
      · simp only [AVal.cur, if_true, AVal.dropCols, TB.takePiece, AVal.sized, and_self, Nat.add_zero]
        rw [List.drop_eq_getElem_cons hk]
      · simp [Piece.cells, AVal.valsFor, bcastE_self cols[k] n (by rw [hck]; exact hcl), Except.map,
          List.getD_eq_getElem?_getD, List.getElem?_eq_getElem hk]
    | false =>
      rw [hvw rfl]
      refine ⟨.mat ((cols.drop k).take (len + 1)), ?_, ?_⟩
      · simp only [AVal.cur, if_true, AVal.dropCols, TB.takePiece, AVal.sized, and_self,
          Bool.false_eq_true, if_false, List.drop_drop]
        congr 3
      · have hlen : ((cols.drop k).take (len + 1)).length = len + 1 := by
          have := hlt len (Nat.le_refl _)
          simp; omega
        have hall : ∀ c ∈ (cols.drop k).take (len + 1), c.length = n := by
          intro c hc
          obtain ⟨i, hi, hci⟩ := List.getElem_of_mem hc
          rw [hlen] at hi
          obtain ⟨c', hc', hcl'⟩ := hget i (by omega)
          have : ((cols.drop k).take (len + 1))[i]? = some c' := by
            rw [List.getElem?_take, if_pos hi, List.getElem?_drop]; exact hc'
          rw [List.getElem?_eq_getElem (by rw [hlen]; exact hi)] at this
          rw [← hci, Option.some.inj this]; exact hcl'
        simp only [Piece.cells, Bool.false_eq_true, if_false, bcastE_self _ _ hlen, mapM_bcast_ok _ n hall]
        congr 1
        apply List.ext_getElem
        · rw [hlen]; simp
        · intro i h1 h2
          have hi : i ≤ len := by simp at h2; omega
          have := hlt i hi
          simp [AVal.valsFor, List.getD_eq_getElem?_getD, List.getElem?_eq_getElem this]

/-! ### one target -/

/-- the two shapes of target `_key_to_block_slices` yields for an ascending key: a plain slice
    `[a, hi)` (every key but an integer) or the integer column -/
def SelOK (isSl : Bool) (p : ATgt) : Prop :=
  if isSl then p.sel = .sl ⟨some (p.a : Int), some (p.hi : Int), none⟩ else (p.sel = .col p.a ∧ p.len = 0)

theorem tgtInfo_spec (b : Block α) (hw : 0 < b.width) (isSl : Bool) (p : ATgt) (hsel : SelOK isSl p)
    (hhi : p.hi ≤ b.width) :
    ∃ info, tgtInfo b p.sel = .ok info ∧ info.start = p.a ∧ info.stop = p.hi ∧
      (isSl = false → info.is1d = true) ∧ (info.is1d = true → p.len = 0) ∧
      info.emptyW = .ok (p.len + 1) ∧
      info.pre = .ok ((List.range' p.a (p.len + 1)).map (fun c => b.colsOf.getD c [])) ∧
      (info.is1d = false → info.vw = .ok (p.len + 1)) ∧ BSel.isSl p.sel = isSl := by
  have hhi' : p.a + p.len + 1 ≤ b.width := hhi
  cases isSl with
  | true =>
    have hs : p.sel = .sl ⟨some (p.a : Int), some (p.hi : Int), none⟩ := hsel
    have hcol : ∀ c : List α, b.width = 1 → b.colsOf = [c] →
        ∃ info, colInfo c p.sel = .ok info ∧ info.start = p.a ∧ info.stop = p.hi ∧
        (true = false → info.is1d = true) ∧ (info.is1d = true → p.len = 0) ∧
        info.emptyW = .ok (p.len + 1) ∧
        info.pre = .ok ((List.range' p.a (p.len + 1)).map (fun c => b.colsOf.getD c [])) ∧
        (info.is1d = false → info.vw = .ok (p.len + 1)) ∧ BSel.isSl p.sel = true := by
      intro c hw1 hc
      have ha : p.a = 0 := by omega
      have hl : p.len = 0 := by omega
      rw [hs]
      have hneg : ¬ ((p.a : Int) < 0) := by omega
      simp only [colInfo, if_neg hneg]
      refine ⟨_, rfl, by simp, by simp [ATgt.hi, hl], fun _ => rfl, fun _ => hl, by simp [hl], ?_, by simp, rfl⟩
      simp [ha, hl, hc, List.range'_succ]
    cases b with
    | d1 t c => exact hcol c rfl rfl
    | d2 t cs =>
      match cs, hw, hhi', hcol with
      | [], hw, _, _ => simp [Block.width] at hw
      | [c], _, _, hcol => exact hcol c rfl rfl
      | c1 :: c2 :: rest, _, hhi', _ =>
        simp only [Block.width, List.length_cons] at hhi'
        rw [hs]
        have hneg : ¬ ((p.a : Int) < 0 ∨ (p.hi : Int) < 0) := by omega
        have hhiI : ((p.hi : Nat) : Int) = (p.a : Int) + p.len + 1 := by simp [ATgt.hi]
        have hpos := positions_asc p.a p.len (c1 :: c2 :: rest).length (by simp only [List.length_cons]; omega)
        simp only [tgtInfo, wideInfo, if_neg hneg]
        refine ⟨_, rfl, by simp, by simp, by simp, by simp, ?_, ?_, ?_, rfl⟩
        · have : ¬ ((p.hi : Int) < (p.a : Int)) := by omega
          simp only [if_neg this]
          congr 1
          omega
        · rw [hhiI, hpos]
          simp only [Except.map, Block.colsOf]
          congr 1
          apply pick_eq_map_getD
          intro q hq
          rw [List.mem_range'_1] at hq
          simp only [List.length_cons]; omega
        · intro _
          rw [hhiI, hpos]
          simp [Except.map]
  | false =>
    obtain ⟨hs, hl⟩ : p.sel = .col p.a ∧ p.len = 0 := hsel
    have hcol : ∀ c : List α, b.width = 1 → b.colsOf = [c] →
        ∃ info, colInfo c p.sel = .ok info ∧ info.start = p.a ∧ info.stop = p.hi ∧
        (false = false → info.is1d = true) ∧ (info.is1d = true → p.len = 0) ∧
        info.emptyW = .ok (p.len + 1) ∧
        info.pre = .ok ((List.range' p.a (p.len + 1)).map (fun c => b.colsOf.getD c [])) ∧
        (info.is1d = false → info.vw = .ok (p.len + 1)) ∧ BSel.isSl p.sel = false := by
      intro c hw1 hc
      have ha : p.a = 0 := by omega
      rw [hs]
      simp only [colInfo]
      refine ⟨_, rfl, rfl, by simp [ATgt.hi, hl], fun _ => rfl, fun _ => hl, by simp [hl], ?_, by simp, rfl⟩
      simp [ha, hl, hc, List.range'_succ]
    cases b with
    | d1 t c => exact hcol c rfl rfl
    | d2 t cs =>
      match cs, hw, hhi', hcol with
      | [], hw, _, _ => simp [Block.width] at hw
      | [c], _, _, hcol => exact hcol c rfl rfl
      | c1 :: c2 :: rest, _, hhi', _ =>
        simp only [Block.width, List.length_cons] at hhi'
        rw [hs]
        have hlt : p.a < (c1 :: c2 :: rest).length := by simp only [List.length_cons]; omega
        simp only [tgtInfo, wideInfo]
        refine ⟨_, rfl, rfl, by simp [ATgt.hi, hl], fun _ => rfl, fun _ => hl, by simp [hl], ?_, by simp, rfl⟩
        simp only [List.getElem?_eq_getElem hlt, hl, Block.colsOf]
        simp [List.range'_succ, List.getD_eq_getElem?_getD, List.getElem?_eq_getElem hlt]

theorem gapPart_spec (b : Block α) (ps a : Nat) (hpa : ps ≤ a) (ha : a < b.width) :
    ∃ gap, gapPart b ps a = .ok gap ∧
      colsDT gap = (List.range' ps (a - ps)).map (fun c => (b.dt, b.colsOf.getD c [])) := by
  by_cases hgt : a > ps
  · cases b with
    | d1 t c => simp only [Block.width] at ha; omega
    | d2 t cs =>
      simp only [Block.width] at ha
      refine ⟨[.d2 t (subCols cs ps a)], by simp only [gapPart, if_pos hgt], ?_⟩
      simp only [colsDT_cons, colsDT_nil, List.append_nil, colsDT_d2_subCols t cs ps a (by omega)]
      rfl
  · have : a - ps = 0 := by omega
    refine ⟨[], by simp only [gapPart, if_neg hgt], ?_⟩
    rw [this]; rfl

/-- the new `(dtype, column)` of the `m`-th addressed column: the value's dtype with a null row key,
    else the resolved dtype; the addressed rows overwritten -/
def asgCol (resolve : DT → DT → DT) (nullRow : Bool) (rps : List Nat) (v0 : AVal α) (isSl : Bool)
    (m : Nat) (x : DT × List α) : DT × List α :=
  (if nullRow then v0.dt else resolve v0.dt x.1, writeCol x.2 rps (v0.valsFor isSl rps.length m))

theorem mkBlock_colsDT (is1d : Bool) (t : DT) (cols : List (List α)) (h : is1d = true → ∃ c, cols = [c]) :
    ∃ blk, mkBlock is1d t cols = .ok blk ∧ blk.colsDT = cols.map (fun c => (t, c)) := by
  cases is1d with
  | true =>
    obtain ⟨c, rfl⟩ := h rfl
    exact ⟨.d1 t c, rfl, rfl⟩
  | false => exact ⟨.d2 t cols, rfl, rfl⟩

theorem assignStep_spec (resolve : DT → DT → DT) (nullRow scalarRow : Bool) (rps : List Nat) (rows : Nat)
    (hnull : nullRow = true → rps = List.range rows)
    (b : Block α) (hb : b.RowsOk rows) (hw : 0 < b.width) (isSl : Bool) (v0 : AVal α) (p : ATgt)
    (hsel : SelOK isSl p) (hhi : p.hi ≤ b.width) (ps : Nat) (hps : ps ≤ p.a) (k : Nat)
    (hfit : ∀ i, i ≤ p.len → v0.FitAt isSl scalarRow rps.length (k + i)) :
    ∃ ys, assignStep resolve nullRow scalarRow (.ok rps) b p.sel ps (AVal.cur isSl v0 k)
        = .ok (ys, p.hi, AVal.cur isSl v0 (k + p.len + 1)) ∧
      colsDT ys = (List.range' ps (p.a - ps)).map (fun c => (b.dt, b.colsOf.getD c [])) ++
        (List.range (p.len + 1)).map (fun i =>
          asgCol resolve nullRow rps v0 isSl (k + i) (b.dt, b.colsOf.getD (p.a + i) [])) := by
  have hhi' : p.a + p.len + 1 ≤ b.width := hhi
  obtain ⟨info, hinfo, hstart, hstop, his, h1d, hempty, hpre, hvw, hisSl⟩ := tgtInfo_spec b hw isSl p hsel hhi
  obtain ⟨gap, hgap, hgapDT⟩ := gapPart_spec b ps p.a hps (by omega)
  obtain ⟨piece, htake, hcells⟩ := piece_cells_spec v0 isSl info.is1d scalarRow k p.len rps.length
    info.vw hvw hfit h1d his
  -- the columns of the assigned target, whichever way it is allocated
  let newCols : List (List α) := (List.range (p.len + 1)).map (fun i =>
      writeCol (b.colsOf.getD (p.a + i) []) rps (v0.valsFor isSl rps.length (k + i)))
  have hone : info.is1d = true → ∃ c, newCols = [c] := by
    intro h
    have := h1d h
    refine ⟨writeCol (b.colsOf.getD (p.a + 0) []) rps (v0.valsFor isSl rps.length (k + 0)), ?_⟩
    simp [newCols, this]
  obtain ⟨blk, hblk, hblkDT⟩ := mkBlock_colsDT info.is1d (if nullRow then v0.dt else resolve v0.dt b.dt)
    newCols hone
  have hcollen : ∀ i, i ≤ p.len → (b.colsOf.getD (p.a + i) []).length = rows := by
    intro i hi
    have hlt : p.a + i < b.colsOf.length := by rw [Block.colsOf_length]; omega
    rw [List.getD_eq_getElem?_getD, List.getElem?_eq_getElem hlt]
    exact hb _ (List.getElem_mem hlt)
  refine ⟨gap ++ [blk], ?_, ?_⟩
  · unfold assignStep
    simp only [hinfo, hstart, hgap, hisSl, htake]
    cases nullRow with
    | true =>
      have hr := hnull rfl
      have : (List.range (p.len + 1)).map (fun i => v0.valsFor isSl rps.length (k + i)) = newCols := by
        apply List.map_congr_left
        intro i hi
        rw [List.mem_range] at hi
        exact (writeCol_all _ _ rps rows hr (hcollen i (by omega))
          (AVal.valsFor_length v0 isSl scalarRow rps.length (k + i) (hfit i (by omega)))).symm
      simp only [if_true] at hblk
      simp only [if_true, hempty, Except.map, hstop, hcells, this, AVal.cur_dt, hblk]
    | false =>
      have : List.zipWith (fun c vals => writeCol c rps vals)
          ((List.range' p.a (p.len + 1)).map (fun c => b.colsOf.getD c []))
          ((List.range (p.len + 1)).map (fun i => v0.valsFor isSl rps.length (k + i))) = newCols := by
        apply List.ext_getElem
        · simp [newCols]
        · intro i h1 h2
          simp [newCols]
      simp only [Bool.false_eq_true, if_false] at hblk
      simp only [Bool.false_eq_true, if_false, hpre, Except.map, hstop, List.length_map,
        List.length_range', hcells, this, AVal.cur_dt, hblk]
  · rw [colsDT_append, hgapDT]
    congr 1
    simp only [colsDT_cons, colsDT_nil, List.append_nil, hblkDT, newCols, List.map_map]
    apply List.map_congr_left
    intro i _
    simp [asgCol]

/-! ### the walk over the targets of one block -/

/-- number of addressed columns of a list of targets -/
def tgtsWidth (ts : List ATgt) : Nat := (ts.map (fun t => t.len + 1)).sum

@[simp] theorem tgtsWidth_nil : tgtsWidth [] = 0 := rfl
@[simp] theorem tgtsWidth_cons (p : ATgt) (ts : List ATgt) : tgtsWidth (p :: ts) = p.len + 1 + tgtsWidth ts := by
  simp [tgtsWidth]
theorem tgtsWidth_append (xs ys : List ATgt) : tgtsWidth (xs ++ ys) = tgtsWidth xs + tgtsWidth ys := by
  simp [tgtsWidth]

/-- `ord` numbers the addressed cells of the targets consecutively from `k` (the cursor into the value) -/
def OrdOk (ord : Nat × Nat → Nat) : List ATgt → Nat → Prop
  | [], _ => True
  | p :: rest, k => (∀ i, i ≤ p.len → ord (p.blk, p.a + i) = k + i) ∧ OrdOk ord rest (k + p.len + 1)

theorem OrdOk_append (ord : Nat × Nat → Nat) (xs ys : List ATgt) (k : Nat) :
    OrdOk ord (xs ++ ys) k ↔ OrdOk ord xs k ∧ OrdOk ord ys (k + tgtsWidth xs) := by
  induction xs generalizing k with
  | nil => simp [OrdOk]
  | cons p xs ih =>
    simp only [List.cons_append, OrdOk, ih, tgtsWidth_cons]
    have : k + p.len + 1 + tgtsWidth xs = k + (p.len + 1 + tgtsWidth xs) := by omega
    rw [this]
    exact and_assoc.symm

theorem assignWalk_spec (resolve : DT → DT → DT) (nullRow scalarRow : Bool) (rps : List Nat) (rows : Nat)
    (hnull : nullRow = true → rps = List.range rows)
    (b : Block α) (hb : b.RowsOk rows) (hw : 0 < b.width) (isSl : Bool) (v0 : AVal α)
    (bi : Nat) (cov : Nat → Bool) (ord : Nat × Nat → Nat) (pre post : List ATgt) (ps : Nat)
    (parts : List (Block α)) (k : Nat)
    (hpre : ∀ p ∈ pre, p.blk = bi ∧ SelOK isSl p ∧ p.hi ≤ b.width)
    (hsorted : pre.Pairwise ALt) (hps : ∀ p ∈ pre, ps ≤ p.a) (hpsl : ps ≤ b.width)
    (hpost : ∀ q, post.head? = some q → q.blk ≠ bi)
    (hcov : ∀ c, ps ≤ c → (cov c = true ↔ ∃ p ∈ pre, p.a ≤ c ∧ c < p.hi))
    (hord : OrdOk ord pre k)
    (hfit : ∀ m, k ≤ m → m < k + tgtsWidth pre → v0.FitAt isSl scalarRow rps.length m) :
    ∃ parts' ps', assignWalk resolve nullRow scalarRow (.ok rps) b bi ((pre ++ post).map ATgt.pair) ps parts
          (AVal.cur isSl v0 k)
        = .ok (parts ++ parts', ps', post.map ATgt.pair, AVal.cur isSl v0 (k + tgtsWidth pre)) ∧
      ps ≤ ps' ∧ ps' ≤ b.width ∧ (∀ p ∈ pre, p.hi ≤ ps') ∧ (pre = [] → ps' = ps) ∧
      colsDT parts' = (List.range' ps (ps' - ps)).map (fun c =>
        if cov c then asgCol resolve nullRow rps v0 isSl (ord (bi, c)) (b.dt, b.colsOf.getD c [])
        else (b.dt, b.colsOf.getD c [])) := by
  induction pre generalizing ps parts k with
  | nil =>
    refine ⟨[], ps, ?_, Nat.le_refl _, hpsl, by simp, fun _ => rfl, by simp⟩
    cases post with
    | nil => simp [assignWalk]
    | cons q post' =>
      have hq := hpost q rfl
      simp only [List.nil_append, List.map_cons, assignWalk, ATgt.pair, ne_eq, hq, not_false_eq_true,
        if_true, List.append_nil, tgtsWidth_nil, Nat.add_zero]
  | cons p pre' ih =>
    obtain ⟨hblk, hselp, hhi⟩ := hpre p List.mem_cons_self
    have hpa := hps p List.mem_cons_self
    rw [List.pairwise_cons] at hsorted
    obtain ⟨hp_lt, hsorted'⟩ := hsorted
    have hahi : p.a < p.hi := by simp [ATgt.hi]; omega
    have hnext : ∀ p' ∈ pre', p.hi < p'.a := by
      intro p' hp'
      have hb' := (hpre p' (List.mem_cons_of_mem _ hp')).1
      rcases hp_lt p' hp' with h | ⟨_, h⟩
      · omega
      · exact h
    obtain ⟨hord1, hord'⟩ := hord
    obtain ⟨ys, hstep, hysDT⟩ := assignStep_spec resolve nullRow scalarRow rps rows hnull b hb hw isSl v0 p
      hselp hhi ps hpa k (fun i hi => hfit (k + i) (by omega) (by simp only [tgtsWidth_cons]; omega))
    obtain ⟨parts'', ps', hwk, h1, h2, h3, _, h4⟩ := ih p.hi (parts ++ ys) (k + p.len + 1)
      (fun q hq => hpre q (List.mem_cons_of_mem _ hq)) hsorted'
      (fun q hq => Nat.le_of_lt (hnext q hq)) hhi
      (by
        intro c hc
        rw [hcov c (by omega)]
        constructor
        · rintro ⟨q, hq, hq1, hq2⟩
          rw [List.mem_cons] at hq
          rcases hq with rfl | hq
          · omega
          · exact ⟨q, hq, hq1, hq2⟩
        · rintro ⟨q, hq, hq1, hq2⟩
          exact ⟨q, List.mem_cons_of_mem _ hq, hq1, hq2⟩)
      hord'
      (fun m hm1 hm2 => hfit m (by omega) (by simp only [tgtsWidth_cons]; omega))
    have hgapcov : ∀ c, ps ≤ c → c < p.a → cov c = false := by
      intro c hc1 hc2
      cases hcv : cov c with
      | false => rfl
      | true =>
        obtain ⟨q, hq, hq1, hq2⟩ := (hcov c hc1).mp hcv
        rw [List.mem_cons] at hq
        rcases hq with rfl | hq
        · omega
        · have := hnext q hq; omega
    have htcov : ∀ c, p.a ≤ c → c < p.hi → cov c = true := by
      intro c hc1 hc2
      exact (hcov c (by omega)).mpr ⟨p, List.mem_cons_self, hc1, hc2⟩
    refine ⟨ys ++ parts'', ps', ?_, by omega, h2, ?_, by simp, ?_⟩
    · simp only [List.cons_append, List.map_cons, assignWalk, ATgt.pair, hblk, ne_eq, not_true_eq_false,
        if_false, hstep]
      rw [hwk]
      have e : k + p.len + 1 + tgtsWidth pre' = k + (p.len + 1 + tgtsWidth pre') := by omega
      simp only [List.append_assoc, tgtsWidth_cons, e]
    · intro q hq
      rw [List.mem_cons] at hq
      rcases hq with rfl | hq
      · exact h1
      · exact h3 q hq
    · rw [colsDT_append, h4, hysDT, range'_split3 ps p.a p.hi ps' hpa (Nat.le_of_lt hahi) h1,
        List.map_append, List.map_append, List.append_assoc]
      congr 1
      · apply List.map_congr_left
        intro c hc
        rw [List.mem_range'_1] at hc
        rw [hgapcov c hc.1 (by omega)]; rfl
      · congr 1
        have hlen : p.hi - p.a = p.len + 1 := by simp [ATgt.hi]; omega
        rw [hlen, List.range'_eq_map_range, List.map_map]
        apply List.map_congr_left
        intro i hi
        rw [List.mem_range] at hi
        simp only [Function.comp]
        rw [htcov (p.a + i) (by omega) (by simp [ATgt.hi]; omega), if_pos rfl, ← hblk,
          hord1 i (by omega)]

/-! ### the loop over the blocks -/

theorem tailPart_colsDT (b : Block α) (ps' : Nat) (hle : ps' ≤ b.width) :
    colsDT (tailPart b ps') = (List.range' ps' (b.width - ps')).map (fun c => (b.dt, b.colsOf.getD c [])) := by
  by_cases h0 : ps' = 0
  · subst h0
    simp only [tailPart, if_true, colsDT_cons, colsDT_nil, List.append_nil, Nat.sub_zero]
    rw [Block.colsDT_eq_range, List.range_eq_range']
  · cases b with
    | d1 t c =>
      simp only [Block.width] at hle
      have : ps' = 1 := by omega
      subst this
      simp [tailPart, Block.width]
    | d2 t cs =>
      simp only [Block.width] at hle ⊢
      by_cases hlt : ps' < cs.length
      · simp only [tailPart, if_neg h0, if_pos hlt, colsDT_cons, colsDT_nil, List.append_nil,
          colsDT_d2_subCols t cs ps' cs.length (Nat.le_refl _)]
        rfl
      · have : cs.length - ps' = 0 := by omega
        simp [tailPart, if_neg h0, if_neg hlt, this]

/-- the expected `(dtype, column)` list: the covered cell number `ord p` becomes `G (ord p) _` -/
def asgSpec (cov : Nat × Nat → Bool) (ord : Nat × Nat → Nat) (G : Nat → DT × List α → DT × List α) :
    Nat → List (Block α) → List (DT × List α)
  | _, [] => []
  | bi, b :: rest =>
    (List.range b.width).map (fun c =>
      if cov (bi, c) then G (ord (bi, c)) (b.dt, b.colsOf.getD c []) else (b.dt, b.colsOf.getD c [])) ++
    asgSpec cov ord G (bi + 1) rest

theorem assignGo_spec (resolve : DT → DT → DT) (nullRow scalarRow : Bool) (rps : List Nat) (rows : Nat)
    (hnull : nullRow = true → rps = List.range rows) (isSl : Bool) (v0 : AVal α)
    (cov : Nat × Nat → Bool) (ord : Nat × Nat → Nat) (bi : Nat) (bs : List (Block α)) (tgts : List ATgt)
    (k : Nat)
    (hbs : ∀ b ∈ bs, b.RowsOk rows ∧ 0 < b.width)
    (hok : ∀ t ∈ tgts, bi ≤ t.blk ∧ SelOK isSl t ∧ ∃ b, bs[t.blk - bi]? = some b ∧ t.hi ≤ b.width)
    (hsorted : tgts.Pairwise ALt)
    (hcov : ∀ p : Nat × Nat, bi ≤ p.1 →
      (cov p = true ↔ ∃ t ∈ tgts, t.blk = p.1 ∧ t.a ≤ p.2 ∧ p.2 < t.hi))
    (hord : OrdOk ord tgts k)
    (hfit : ∀ m, k ≤ m → m < k + tgtsWidth tgts → v0.FitAt isSl scalarRow rps.length m) :
    ∃ out, assignGo resolve nullRow scalarRow (.ok rps) bi bs (tgts.map ATgt.pair) (AVal.cur isSl v0 k) = .ok out ∧
      colsDT out = asgSpec cov ord (asgCol resolve nullRow rps v0 isSl) bi bs := by
  induction bs generalizing bi tgts k with
  | nil => exact ⟨[], by simp [assignGo], rfl⟩
  | cons b rest ih =>
    obtain ⟨pre, post, rfl, hpre, hpost⟩ := split_targets bi tgts (fun t ht => (hok t ht).1) hsorted
    rw [List.pairwise_append] at hsorted
    obtain ⟨hspre, hspost, hcross⟩ := hsorted
    rw [OrdOk_append] at hord
    obtain ⟨hordpre, hordpost⟩ := hord
    rw [tgtsWidth_append] at hfit
    obtain ⟨hbrows, hbw⟩ := hbs b List.mem_cons_self
    obtain ⟨out', hout', hspec'⟩ := ih (bi + 1) post (k + tgtsWidth pre)
      (fun x hx => hbs x (List.mem_cons_of_mem _ hx))
      (by
        intro t ht
        obtain ⟨h1, h2, b', h3, h4⟩ := hok t (List.mem_append_right _ ht)
        have := hpost t ht
        refine ⟨by omega, h2, b', ?_, h4⟩
        have e : t.blk - bi = (t.blk - (bi + 1)) + 1 := by omega
        rw [e, List.getElem?_cons_succ] at h3
        exact h3)
      hspost
      (by
        intro p hp
        rw [hcov p (by omega)]
        constructor
        · rintro ⟨t, ht, h1, h2⟩
          rw [List.mem_append] at ht
          rcases ht with ht | ht
          · have := hpre t ht; omega
          · exact ⟨t, ht, h1, h2⟩
        · rintro ⟨t, ht, h1, h2⟩
          exact ⟨t, List.mem_append_right _ ht, h1, h2⟩)
      hordpost
      (fun m hm1 hm2 => hfit m (by omega) (by omega))
    have hcovb : ∀ c, cov (bi, c) = true ↔ ∃ p ∈ pre, p.a ≤ c ∧ c < p.hi := by
      intro c
      rw [hcov (bi, c) (Nat.le_refl _)]
      constructor
      · rintro ⟨t, ht, h1, h2⟩
        rw [List.mem_append] at ht
        rcases ht with ht | ht
        · exact ⟨t, ht, h2⟩
        · have := hpost t ht; simp only at h1; omega
      · rintro ⟨t, ht, h2⟩
        exact ⟨t, List.mem_append_left _ ht, hpre t ht, h2⟩
    have hwidth : ∀ p ∈ pre, p.hi ≤ b.width := by
      intro p hp
      obtain ⟨_, _, b', h3, h4⟩ := hok p (List.mem_append_left _ hp)
      rw [hpre p hp, Nat.sub_self, List.getElem?_cons_zero] at h3
      cases h3; exact h4
    obtain ⟨parts', ps', hwk, _, hps'l, hhi, hnil, hparts⟩ :=
      assignWalk_spec resolve nullRow scalarRow rps rows hnull b hbrows hbw isSl v0 bi
        (fun c => cov (bi, c)) ord pre post 0 [] k
        (fun p hp => ⟨hpre p hp, (hok p (List.mem_append_left _ hp)).2.1, hwidth p hp⟩)
        hspre (fun _ _ => Nat.zero_le _) (Nat.zero_le _)
        (by
          intro q hq
          have := hpost q (List.mem_of_mem_head? hq)
          omega)
        (fun c _ => hcovb c) hordpre
        (fun m hm1 hm2 => hfit m hm1 (by omega))
    simp only [List.nil_append] at hwk
    have hbeyond : ∀ c, ps' ≤ c → cov (bi, c) = false := by
      intro c hc
      cases h : cov (bi, c) with
      | false => rfl
      | true =>
        obtain ⟨p, hp, _, hp2⟩ := (hcovb c).mp h
        have := hhi p hp; omega
    refine ⟨parts' ++ tailPart b ps' ++ out', ?_, ?_⟩
    · simp only [assignGo, hwk, hout']
    · rw [colsDT_append, colsDT_append, hspec', hparts, tailPart_colsDT b ps' hps'l]
      simp only [asgSpec]
      congr 1
      have hsplit : List.range b.width = List.range' 0 (ps' - 0) ++ List.range' ps' (b.width - ps') := by
        rw [List.range_eq_range']
        have : b.width = (ps' - 0) + (b.width - ps') := by omega
        conv => lhs; rw [this]
        rw [← List.range'_append_1]; simp
      rw [hsplit, List.map_append]
      congr 1
      apply List.map_congr_left
      intro c hc
      rw [List.mem_range'_1] at hc
      rw [hbeyond c hc.1]; rfl

/-! ### the targets of an ascending column key (`retain_key_order=True`) -/

/-- what `_cols_to_slice` can return: an ascending slice without step, a descending run down to
    column 0 (no stop), or a descending slice (stop below start) -/
def StepShape (s : PySlice) : Prop :=
  s.step = none ∨ s.stop = none ∨ ∃ a z, s.start = some a ∧ s.stop = some z ∧ z < a

theorem colsToSlice_shape {l : List Int} {s : PySlice} (h : colsToSlice l = some s) : StepShape s := by
  match l, h with
  | [a], h =>
    simp only [colsToSlice, Option.some.injEq] at h
    subst h; exact Or.inl rfl
  | a :: b :: rest, h =>
    simp only [colsToSlice] at h
    split at h
    · simp only [Option.some.injEq] at h
      subst h; exact Or.inl rfl
    · split at h
      · simp only [Option.some.injEq] at h
        subst h; exact Or.inr (Or.inl rfl)
      · simp only [Option.some.injEq] at h
        subst h
        exact Or.inr (Or.inr ⟨a, _, rfl, rfl, by omega⟩)

theorem contiguousPairs_shape (l : List (Nat × Nat)) (last : Option (Nat × Nat)) (bundle : List Nat)
    (ps : List (Nat × BSel)) (h : contiguousPairs l last bundle = some ps) :
    ∀ q ∈ ps, ∃ s, q.2 = .sl s ∧ StepShape s := by
  induction l generalizing last bundle ps with
  | nil =>
    cases last with
    | none =>
      simp only [contiguousPairs, Option.some.injEq] at h
      subst h; simp
    | some lp =>
      obtain ⟨lb, lc⟩ := lp
      simp only [contiguousPairs] at h
      split at h
      · simp only [Option.some.injEq] at h
        subst h; simp
      · simp only [Option.map_eq_some_iff] at h
        obtain ⟨s, hs, rfl⟩ := h
        intro q hq
        simp only [List.mem_singleton] at hq
        subst hq
        exact ⟨s, rfl, colsToSlice_shape hs⟩
  | cons p rest ih =>
    obtain ⟨b, c⟩ := p
    cases last with
    | none =>
      simp only [contiguousPairs] at h
      exact ih _ _ _ h
    | some lp =>
      obtain ⟨lb, lc⟩ := lp
      simp only [contiguousPairs] at h
      split at h
      · exact ih _ _ _ h
      · cases hs : colsToSlice (bundle.map Int.ofNat) with
        | none => rw [hs] at h; simp at h
        | some s =>
          rw [hs] at h
          cases htl : contiguousPairs rest (some (b, c)) [c] with
          | none => rw [htl] at h; simp at h
          | some tl =>
            rw [htl] at h
            simp only [Option.some.injEq] at h
            subst h
            intro q hq
            rw [List.mem_cons] at hq
            rcases hq with rfl | hq
            · exact ⟨s, rfl, colsToSlice_shape hs⟩
            · exact ih _ _ _ htl q hq

/-- a non-empty ascending range read off a slice of that shape pins the slice down -/
theorem sl_of_range {s : PySlice} {a hi : Nat} (hr : (BSel.sl s).range = some (a, hi)) (hlt : a < hi)
    (hsh : StepShape s) : s = ⟨some (a : Int), some (hi : Int), none⟩ := by
  obtain ⟨start, stop, step⟩ := s
  cases start with
  | none => simp [BSel.range] at hr
  | some a' =>
    cases stop with
    | none => simp [BSel.range] at hr
    | some b' =>
      simp only [BSel.range] at hr
      split at hr
      · rename_i hnn
        simp only [Option.some.injEq, Prod.mk.injEq] at hr
        obtain ⟨h1, h2⟩ := hr
        have ha : a' = (a : Int) := by omega
        have hb : b' = (hi : Int) := by omega
        subst ha hb
        rcases hsh with h | h | ⟨x, z, hx, hz, hzx⟩
        · simp only at h; subst h; rfl
        · simp at h
        · simp only [Option.some.injEq] at hx hz
          omega
      · cases hr

theorem TB.assign_atgts (tb : TB α) (hwf : tb.WF) (ck : Key) (cps : List Nat)
    (hck : ck.positions tb.ncols = .ok cps) (hs : cps.Pairwise (· < ·)) :
    ∃ atgts : List ATgt, keyToBlockSlices tb ck true = .ok (atgts.map ATgt.pair) ∧
      (∀ t ∈ atgts, SelOK ck.isMulti t ∧ ∃ b, tb.blocks[t.blk]? = some b ∧ t.hi ≤ b.width) ∧
      atgts.Pairwise ALt ∧ atgts.flatMap ATgt.cells = pick tb.index cps := by
  -- every key but `all` / an integer goes through `_indices_to_contiguous_pairs`
  have hsel : ∃ atgts : List ATgt, contiguousPairs (pick tb.index cps) none [] = some (atgts.map ATgt.pair) ∧
      (∀ t ∈ atgts, SelOK true t ∧ ∃ b, tb.blocks[t.blk]? = some b ∧ t.hi ≤ b.width) ∧
      atgts.Pairwise ALt ∧ atgts.flatMap ATgt.cells = pick tb.index cps := by
    obtain ⟨atgts, h1, h2, h3, h4⟩ := tb.contiguous_atgts cps hs
    refine ⟨atgts, h1, ?_, h3, h4⟩
    intro t ht
    obtain ⟨hr, hb⟩ := h2 t ht
    refine ⟨?_, hb⟩
    obtain ⟨sl, hsl, hshape⟩ := contiguousPairs_shape _ _ _ _ h1 t.pair (List.mem_map.mpr ⟨t, ht, rfl⟩)
    have hsl' : t.sel = .sl sl := hsl
    rw [hsl'] at hr
    have := sl_of_range hr (by simp [ATgt.hi]; omega) hshape
    show t.sel = _
    rw [hsl', this]
  cases ck with
  | all =>
    simp only [Key.positions, Except.ok.injEq] at hck
    subst hck
    let conv : Block α × Nat → ATgt := fun x => ⟨x.2, allSel x.1, 0, x.1.width - 1⟩
    have hmem : ∀ x ∈ tb.blocks.zipIdx, tb.blocks[x.2]? = some x.1 ∧ 0 < x.1.width := by
      intro x hx
      obtain ⟨b, i⟩ := x
      have := (mem_zipIdx_getElem? hx).2
      simp only [Nat.sub_zero] at this
      exact ⟨this, hwf.1 b (List.mem_of_getElem? this)⟩
    refine ⟨tb.blocks.zipIdx.map conv, ?_, ?_, ?_, ?_⟩
    · simp only [keyToBlockSlices, allBlockSlices, List.map_map]
      congr 1
      apply List.map_congr_left
      intro x _
      obtain ⟨b, i⟩ := x
      cases b <;> rfl
    · intro t ht
      obtain ⟨x, hx, rfl⟩ := List.mem_map.mp ht
      obtain ⟨h1, h2⟩ := hmem x hx
      refine ⟨?_, x.1, h1, ?_⟩
      · show (conv x).sel = _
        obtain ⟨b, i⟩ := x
        cases b with
        | d1 t c => rfl
        | d2 t cs =>
          simp only [Block.width] at h2
          simp only [conv, allSel, ATgt.hi, Block.width]
          congr 3
          omega
      · simp only [ATgt.hi, conv]; omega
    · rw [List.pairwise_map, List.pairwise_iff_getElem]
      intro i j hi hj hij
      left
      simp only [conv, List.getElem_zipIdx]
      omega
    · rw [← index_length, pick_range, index, indexFrom_eq_flatMap, List.flatMap_map]
      apply flatMap_congr'
      intro x hx
      have hw := (hmem x hx).2
      simp only [ATgt.cells, conv, List.range_eq_range']
      congr 2
      omega
  | int i =>
    obtain ⟨p, rfl, hp, _⟩ := C04.int_position hck
    have hnp : normPos i tb.index.length = .ok p := by
      rw [index_length]
      simp only [Key.positions] at hck
      cases hn : normPos i tb.ncols with
      | error e => rw [hn] at hck; cases hck
      | ok q => rw [hn] at hck; simp [Except.map] at hck; rw [hck]
    have hpl : p < tb.index.length := by rw [index_length]; exact hp
    obtain ⟨blk, hblk, hlt⟩ := mem_index (List.getElem_mem hpl)
    refine ⟨[⟨tb.index[p].1, .col tb.index[p].2, tb.index[p].2, 0⟩], ?_, ?_, ?_, ?_⟩
    · simp only [keyToBlockSlices, hnp, List.getElem?_eq_getElem hpl]
      rfl
    · intro t ht
      simp only [List.mem_singleton] at ht; subst ht
      exact ⟨⟨rfl, rfl⟩, blk, hblk, by simp only [ATgt.hi]; omega⟩
    · simp
    · simp [ATgt.cells, pick, List.getElem?_eq_getElem hpl, List.range'_succ]
  | slice s =>
    obtain ⟨atgts, h1, h2, h3, h4⟩ := hsel
    refine ⟨atgts, ?_, h2, h3, h4⟩
    have hpos : s.positions tb.ncols = .ok cps := hck
    simp only [keyToBlockSlices, if_true, pyListSlice, index_length, hpos, h1]
  | mask bs =>
    obtain ⟨atgts, h1, h2, h3, h4⟩ := hsel
    refine ⟨atgts, ?_, h2, h3, h4⟩
    simp only [Key.positions] at hck
    split at hck
    · rename_i hlen
      simp only [Except.ok.injEq] at hck
      subst hck
      have : ¬ (bs.length > tb.index.length ∧ (bs.drop tb.index.length).any id = true) := by
        rw [index_length]; omega
      simp only [keyToBlockSlices, if_neg this, h1]
    · cases hck
  | list is =>
    obtain ⟨atgts, h1, h2, h3, h4⟩ := hsel
    refine ⟨atgts, ?_, h2, h3, h4⟩
    simp only [Key.positions] at hck
    simp only [keyToBlockSlices, index_length, hck, if_true, h1]

/-! ### assembly -/

/-- numbering the cells of the targets by their position in the (duplicate free) list of all cells -/
theorem ordOk_idxOf (cells : List (Nat × Nat)) (hnd : cells.Nodup) (done : List (Nat × Nat)) (ts : List ATgt)
    (h : cells = done ++ ts.flatMap ATgt.cells) : OrdOk (fun p => cells.idxOf p) ts done.length := by
  induction ts generalizing done with
  | nil => trivial
  | cons p ts ih =>
    refine ⟨?_, ?_⟩
    · intro i hi
      have hlt : done.length + i < cells.length := by
        rw [h]; simp [ATgt.cells]; omega
      have hget : cells[done.length + i] = (p.blk, p.a + i) := by
        have : cells[done.length + i]? = some (p.blk, p.a + i) := by
          rw [h, List.getElem?_append_right (by omega)]
          simp only [List.flatMap_cons, Nat.add_sub_cancel_left]
          rw [List.getElem?_append_left (by simp [ATgt.cells]; omega)]
          simp [ATgt.cells, List.getElem?_range' (show i < p.len + 1 by omega)]
        rw [List.getElem?_eq_getElem hlt] at this
        exact Option.some.inj this
      have := hnd.idxOf_getElem (done.length + i) hlt
      rw [hget] at this
      exact this
    · have := ih (done ++ p.cells) (by rw [h]; simp)
      have e : (done ++ p.cells).length = done.length + p.len + 1 := by simp [ATgt.cells]; omega
      rw [e] at this
      exact this

theorem tgtsWidth_eq_cells (ts : List ATgt) : tgtsWidth ts = (ts.flatMap ATgt.cells).length := by
  induction ts with
  | nil => rfl
  | cons p ts ih => simp [ATgt.cells, ih]

theorem asgSpec_eq_zipWith (cov : Nat × Nat → Bool) (ord : Nat × Nat → Nat) (G : Nat → DT × List α → DT × List α)
    (bi : Nat) (bs : List (Block α)) :
    asgSpec cov ord G bi bs
      = List.zipWith (fun p x => if cov p then G (ord p) x else x) (indexFrom bi bs) (colsDT bs) := by
  induction bs generalizing bi with
  | nil => rfl
  | cons b rest ih =>
    simp only [asgSpec, indexFrom, colsDT_cons]
    rw [List.zipWith_append (by simp [Block.colsDT]), ih, Block.colsDT_eq_range, List.zipWith_map]
    congr 1
    apply List.ext_getElem
    · simp
    · intro i h1 h2; simp

theorem pick_getElem? {β} (l : List β) (ps : List Nat) (h : ∀ p ∈ ps, p < l.length) (m : Nat) :
    (pick l ps)[m]? = ps[m]?.bind (l[·]?) := by
  induction ps generalizing m with
  | nil => simp [pick]
  | cons q ps ih =>
    have hq := h q List.mem_cons_self
    have : pick l (q :: ps) = l[q] :: pick l ps := by
      simp [pick, List.getElem?_eq_getElem hq]
    rw [this]
    cases m with
    | zero => simp [List.getElem?_eq_getElem hq]
    | succ m =>
      simp only [List.getElem?_cons_succ]
      exact ih (fun p hp => h p (List.mem_cons_of_mem _ hp)) m

theorem TB.asgSpec_eq_mapIdx (tb : TB α) (cps : List Nat) (hs : cps.Pairwise (· < ·))
    (hlt : ∀ j ∈ cps, j < tb.ncols) (G : Nat → DT × List α → DT × List α) :
    asgSpec (tb.covOf cps) (fun p => (pick tb.index cps).idxOf p) G 0 tb.blocks
      = (colsDT tb.blocks).mapIdx (fun j x => if j ∈ cps then G (cps.idxOf j) x else x) := by
  rw [asgSpec_eq_zipWith]
  have hnd : cps.Nodup := hs.imp (fun h => Nat.ne_of_lt h)
  have hpnd := tb.pick_index_nodup hnd
  apply List.ext_getElem?
  intro j
  rw [List.getElem?_zipWith, List.getElem?_mapIdx]
  have hlen : (indexFrom 0 tb.blocks).length = (colsDT tb.blocks).length := by
    rw [indexFrom_length, colsDT_length]
  by_cases hj : j < (colsDT tb.blocks).length
  · have hj' : j < (indexFrom 0 tb.blocks).length := by omega
    rw [List.getElem?_eq_getElem hj, List.getElem?_eq_getElem hj']
    simp only [Option.map_some]
    have hcv : tb.covOf cps (indexFrom 0 tb.blocks)[j] = true ↔ j ∈ cps :=
      tb.covOf_index cps j _ (List.getElem?_eq_getElem (l := tb.index) hj')
    by_cases hc : j ∈ cps
    · rw [if_pos hc, if_pos (hcv.mpr hc)]
      congr 2
      -- the cell of column `j` is the `idxOf j`-th selected cell
      have hm : cps.idxOf j < cps.length := List.idxOf_lt_length_of_mem hc
      have hpl : (pick tb.index cps)[cps.idxOf j]? = some (indexFrom 0 tb.blocks)[j] := by
        rw [pick_getElem? tb.index cps (fun p hp => by rw [index_length]; exact hlt p hp),
          List.getElem?_eq_getElem hm]
        simp only [Option.bind_some, List.getElem_idxOf hm]
        exact List.getElem?_eq_getElem (l := tb.index) hj'
      obtain ⟨hml, hme⟩ := List.getElem?_eq_some_iff.mp hpl
      have := hpnd.idxOf_getElem (cps.idxOf j) hml
      rw [hme] at this
      exact this
    · rw [if_neg hc, if_neg (fun h => hc (hcv.mp h))]
  · rw [List.getElem?_eq_none (by omega), List.getElem?_eq_none (l := colsDT tb.blocks) (by omega)]
    rfl

theorem null_slice_positions (n : Nat) : PySlice.positions ⟨none, none, none⟩ n = .ok (List.range n) := by
  have hi : PySlice.indices ⟨none, none, none⟩ n = .ok (0, (n : Int), 1) := by
    simp [PySlice.indices]
  have hlen : rangeLen 0 (n : Int) 1 = n := by
    unfold rangeLen
    rw [if_pos (by omega)]
    split
    · simp only [Int.ediv_one]; omega
    · omega
  simp only [PySlice.positions, hi, rangeList, hlen]
  congr 1
  apply List.ext_getElem
  · simp
  · intro k h1 h2
    simp

theorem rowIsNull_positions {rk : Key} {n : Nat} {rps : List Nat} (hn : rowIsNull rk = true)
    (h : rk.positions n = .ok rps) : rps = List.range n := by
  cases rk with
  | all => simp only [Key.positions, Except.ok.injEq] at h; exact h.symm
  | slice s =>
    obtain ⟨a, b, c⟩ := s
    cases a <;> cases b <;> cases c <;> simp [rowIsNull] at hn
    simp only [Key.positions, null_slice_positions, Except.ok.injEq] at h
    exact h.symm
  | int i => simp [rowIsNull] at hn
  | list is => simp [rowIsNull] at hn
  | mask bs => simp [rowIsNull] at hn

/-- `_assign_from_iloc_by_unit` on the `(dtype, column)` view: exactly the addressed columns are
    rebuilt (`asgCol`), in place; everything else is carried over. -/
theorem TB.assignUnit_refines (tb : TB α) (hwf : tb.WF) (hne : tb.blocks ≠ []) (rk ck : Key)
    (rps cps : List Nat) (v : AVal α) (resolve : DT → DT → DT)
    (hrk : rk.positions tb.rows = .ok rps) (hck : ck.positions tb.ncols = .ok cps)
    (hs : cps.Pairwise (· < ·))
    (hfit : ∀ m, m < cps.length → v.FitAt ck.isMulti (!rk.isMulti) rps.length m) :
    ∃ r, tb.assignUnit rk ck v resolve = .ok r ∧ r.WF ∧
      r.cols = ((colsDT tb.blocks).mapIdx (fun j x =>
        if j ∈ cps then asgCol resolve (rowIsNull rk) rps v ck.isMulti (cps.idxOf j) x else x)).map Prod.snd ∧
      r.dtypes = ((colsDT tb.blocks).mapIdx (fun j x =>
        if j ∈ cps then asgCol resolve (rowIsNull rk) rps v ck.isMulti (cps.idxOf j) x else x)).map Prod.fst := by
  obtain ⟨atgts, hk, hok, hsorted, hcells⟩ := tb.assign_atgts hwf ck cps hck hs
  have hcpslt := C04.key_positions_in_range hck
  have hnd : cps.Nodup := hs.imp (fun h => Nat.ne_of_lt h)
  have hpnd := tb.pick_index_nodup hnd
  have hwidth : tgtsWidth atgts = cps.length := by
    rw [tgtsWidth_eq_cells, hcells, pick_length]
    intro p hp; rw [index_length]; exact hcpslt p hp
  have hcover : ∀ p : Nat × Nat,
      (∃ t ∈ atgts, t.blk = p.1 ∧ t.a ≤ p.2 ∧ p.2 < t.hi) ↔ ∃ j ∈ cps, tb.index[j]? = some p :=
    fun p => atgts_cover tb atgts cps cps hcells (fun _ => Iff.rfl) p
  obtain ⟨out, hout, hspec⟩ := assignGo_spec resolve (rowIsNull rk) (!rk.isMulti) rps tb.rows
    (fun hn => rowIsNull_positions hn hrk) ck.isMulti v (tb.covOf cps)
    (fun p => (pick tb.index cps).idxOf p) 0 tb.blocks atgts 0
    (fun b hb => ⟨hwf.2 b hb, hwf.1 b hb⟩)
    (fun t ht => by
      obtain ⟨h1, b, h2, h3⟩ := hok t ht
      exact ⟨Nat.zero_le _, h1, b, by simpa using h2, h3⟩)
    hsorted
    (fun p _ => by rw [tb.covOf_iff, hcover p])
    (by
      have := ordOk_idxOf (pick tb.index cps) hpnd [] atgts (by simp [hcells])
      simpa using this)
    (fun m _ hm => hfit m (by omega))
  rw [tb.asgSpec_eq_mapIdx cps hs hcpslt] at hspec
  have hcur : AVal.cur ck.isMulti v 0 = v := by
    unfold AVal.cur; split
    · exact AVal.dropCols_zero v
    · rfl
  rw [hcur, ← hrk] at hout
  -- every yielded column has the row count of the original
  have hcollen : ∀ x ∈ colsDT tb.blocks, x.2.length = tb.rows := by
    intro x hx
    simp only [colsDT, List.mem_flatMap, Block.colsDT, List.mem_map] at hx
    obtain ⟨b, hb, c, hc, rfl⟩ := hx
    exact hwf.2 b hb c hc
  have hrows : ∀ b ∈ out, b.RowsOk tb.rows := by
    intro b hb c hc
    have hmem : (b.dt, c) ∈ colsDT out := by
      simp only [colsDT, List.mem_flatMap]
      exact ⟨b, hb, List.mem_map.mpr ⟨c, hc, rfl⟩⟩
    rw [hspec] at hmem
    obtain ⟨j, hj, hje⟩ := List.getElem_of_mem hmem
    simp only [List.getElem_mapIdx] at hje
    have hx := hcollen _ (List.getElem_mem (l := colsDT tb.blocks) (by simpa using hj))
    split at hje
    · have := congrArg Prod.snd hje
      simp only [asgCol] at this
      rw [← this, writeCol_length]; exact hx
    · have := congrArg Prod.snd hje
      simp only at this
      rw [← this]; exact hx
  have hncols : 0 < (colsDT out).length := by
    rw [hspec, List.length_mapIdx, colsDT_length]
    cases hb : tb.blocks with
    | nil => exact absurd hb hne
    | cons b rest =>
      have := hwf.1 b (by rw [hb]; exact List.mem_cons_self)
      simp; omega
  obtain ⟨rc', acc, hgo⟩ := fromBlocks_go_ok out tb.rows none [] (Or.inl rfl) hrows
  obtain ⟨_, _, _, hnone⟩ := fromBlocks_go_spec out none [] rc' acc hgo
  have hemp : tb.blocks.isEmpty = false := by cases hb : tb.blocks <;> simp_all
  cases rc' with
  | none =>
    exfalso
    have h1 := (flatMap_filter_width out).1
    rw [hnone rfl] at h1
    have h2 : (colsDT out).length = 0 := by
      have := congrArg List.length (colsDT_snd out)
      rw [List.length_map, ← h1] at this
      simpa using this
    omega
  | some r' =>
    have hfb : fromBlocks out none = .ok ⟨r', acc⟩ := by
      unfold fromBlocks; rw [hgo]
    obtain ⟨hwf', hcols, hdts⟩ := TB.fromBlocks_spec _ _ _ hfb
    refine ⟨⟨r', acc⟩, ?_, hwf', ?_, ?_⟩
    · simp only [assignUnit, hemp, Bool.false_eq_true, if_false, hk, hout, hfb]
    · rw [hcols, ← colsDT_snd, hspec]
    · rw [hdts, ← colsDT_fst, hspec]

/-! ### cell level -/

theorem AVal.fitAt_of_fits (v : AVal α) (rkMulti ckMulti : Bool) (nr nc : Nat)
    (h : v.Fits rkMulti ckMulti nr nc) (m : Nat) (hm : m < nc) : v.FitAt ckMulti (!rkMulti) nr m := by
  cases v with
  | elem x t => trivial
  | col vs t =>
    cases ckMulti with
    | true =>
      simp only [AVal.Fits, if_true] at h
      simp only [AVal.FitAt, if_true]; omega
    | false =>
      simp only [AVal.Fits, Bool.false_eq_true, if_false] at h
      simp only [AVal.FitAt, Bool.false_eq_true, if_false]
      exact ⟨by simp [h.1], h.2⟩
  | mat cols t =>
    obtain ⟨h1, h2, h3⟩ := h
    refine ⟨h1, by simp [h2], ?_⟩
    have := h3 m hm
    cases hc : cols[m]? with
    | none => rw [hc] at this; simp at this
    | some c =>
      rw [hc] at this
      simp only [Option.map_some, Option.some.injEq] at this
      exact ⟨c, rfl, this⟩

theorem AVal.valsFor_get (v : AVal α) (isSl scalarRow : Bool) (n m kr : Nat)
    (h : v.FitAt isSl scalarRow n m) (hkr : kr < n) :
    (v.valsFor isSl n m)[kr]? = v.cell isSl kr m := by
  cases v with
  | elem x t => simp [AVal.valsFor, AVal.cell, hkr]
  | col vs t =>
    cases isSl with
    | true =>
      simp only [AVal.FitAt, if_true] at h
      simp [AVal.valsFor, AVal.cell, List.getElem?_eq_getElem h, hkr]
    | false => simp [AVal.valsFor, AVal.cell]
  | mat cols t =>
    obtain ⟨_, _, c, hc, _⟩ := h
    simp [AVal.valsFor, AVal.cell, List.getD_eq_getElem?_getD, hc]

/-- `assignUnit` cell by cell: values and dtypes of everything that is not addressed are kept, the
    addressed cells hold the value's cells (the last occurrence of a repeated row position wins),
    the addressed columns get the value's dtype (null row key) or the resolved dtype. -/
theorem TB.assignUnit_cells (tb : TB α) (hwf : tb.WF) (hne : tb.blocks ≠ []) (rk ck : Key)
    (rps cps : List Nat) (v : AVal α) (resolve : DT → DT → DT)
    (hrk : rk.positions tb.rows = .ok rps) (hck : ck.positions tb.ncols = .ok cps)
    (hs : cps.Pairwise (· < ·)) (hfit : v.Fits rk.isMulti ck.isMulti rps.length cps.length) :
    ∃ r, tb.assignUnit rk ck v resolve = .ok r ∧ r.WF ∧ r.rows = tb.rows ∧ r.ncols = tb.ncols ∧
      (∀ j i : Nat, j ∉ cps ∨ i ∉ rps → r.cols[j]?.bind (·[i]?) = tb.cols[j]?.bind (·[i]?)) ∧
      (∀ kc kr (hc : kc < cps.length) (hr : kr < rps.length),
         (∀ k', kr < k' → (h' : k' < rps.length) → rps[k'] ≠ rps[kr]) →
         r.cols[cps[kc]]?.bind (·[rps[kr]]?) = v.cell ck.isMulti kr kc) ∧
      (∀ j : Nat, j ∉ cps → r.dtypes[j]? = tb.dtypes[j]?) ∧
      (∀ j : Nat, j ∈ cps → r.dtypes[j]? =
        tb.dtypes[j]?.map (fun d => if rowIsNull rk then v.dt else resolve v.dt d)) := by
  have hfitAt := AVal.fitAt_of_fits v rk.isMulti ck.isMulti rps.length cps.length hfit
  obtain ⟨r, hr, hwf', hcols, hdts⟩ := tb.assignUnit_refines hwf hne rk ck rps cps v resolve hrk hck hs hfitAt
  have hcpslt := C04.key_positions_in_range hck
  have hrpslt := C04.key_positions_in_range hrk
  have hnd : cps.Nodup := hs.imp (fun h => Nat.ne_of_lt h)
  have hcollen : ∀ x ∈ colsDT tb.blocks, x.2.length = tb.rows := by
    intro x hx
    simp only [colsDT, List.mem_flatMap, Block.colsDT, List.mem_map] at hx
    obtain ⟨b, hb, c, hc, rfl⟩ := hx
    exact hwf.2 b hb c hc
  have hLlen : (colsDT tb.blocks).length = tb.ncols := colsDT_length _
  -- column `j` of the result
  have hcolj : ∀ j : Nat, r.cols[j]? = (colsDT tb.blocks)[j]?.map (fun x =>
      if j ∈ cps then writeCol x.2 rps (v.valsFor ck.isMulti rps.length (cps.idxOf j)) else x.2) := by
    intro j
    rw [hcols, List.getElem?_map, List.getElem?_mapIdx]
    cases (colsDT tb.blocks)[j]? with
    | none => rfl
    | some x => by_cases hj : j ∈ cps <;> simp [hj, asgCol]
  have hdtj : ∀ j : Nat, r.dtypes[j]? = (colsDT tb.blocks)[j]?.map (fun x =>
      if j ∈ cps then (if rowIsNull rk then v.dt else resolve v.dt x.1) else x.1) := by
    intro j
    rw [hdts, List.getElem?_map, List.getElem?_mapIdx]
    cases (colsDT tb.blocks)[j]? with
    | none => rfl
    | some x => by_cases hj : j ∈ cps <;> simp [hj, asgCol]
  have htcol : ∀ j : Nat, tb.cols[j]? = (colsDT tb.blocks)[j]?.map Prod.snd := by
    intro j; rw [tb.cols_eq_colsDT, List.getElem?_map]
  have htdt : ∀ j : Nat, tb.dtypes[j]? = (colsDT tb.blocks)[j]?.map Prod.fst := by
    intro j; rw [tb.dtypes_eq_colsDT, List.getElem?_map]
  have hnc : r.ncols = tb.ncols := by
    rw [← cols_length, ← cols_length, hcols, tb.cols_eq_colsDT]
    simp
  have hpos : 0 < tb.ncols := by
    unfold ncols
    cases hb : tb.blocks with
    | nil => exact absurd hb hne
    | cons b rest =>
      have := hwf.1 b (by rw [hb]; exact List.mem_cons_self)
      simp; omega
  have hrows : r.rows = tb.rows := by
    have h0 : 0 < (colsDT tb.blocks).length := by omega
    have hx := hcollen _ (List.getElem_mem h0)
    have hc0 := hcolj 0
    rw [List.getElem?_eq_getElem h0] at hc0
    simp only [Option.map_some] at hc0
    obtain ⟨hl0, he0⟩ := List.getElem?_eq_some_iff.mp hc0
    have hmem : r.cols[0] ∈ r.cols := List.getElem_mem hl0
    generalize r.cols[0] = c0 at hmem he0
    have hmem' : c0 ∈ r.blocks.flatMap Block.colsOf := hmem
    rw [List.mem_flatMap] at hmem'
    obtain ⟨b, hb, hcb⟩ := hmem'
    have := hwf'.2 b hb c0 hcb
    rw [← this, he0]
    split
    · rw [writeCol_length]; exact hx
    · exact hx
  refine ⟨r, hr, hwf', hrows, hnc, ?_, ?_, ?_, ?_⟩
  · intro j i hji
    rw [hcolj, htcol]
    cases (colsDT tb.blocks)[j]? with
    | none => rfl
    | some x =>
      simp only [Option.map_some, Option.bind_some]
      by_cases hj : j ∈ cps
      · rw [if_pos hj]
        rcases hji with h | h
        · exact absurd hj h
        · exact writeCol_get_not_mem _ _ _ _ h
      · rw [if_neg hj]
  · intro kc kr hc hrr hlast
    have hjm : cps[kc] ∈ cps := List.getElem_mem hc
    have hjl : cps[kc] < (colsDT tb.blocks).length := by rw [hLlen]; exact hcpslt _ hjm
    rw [hcolj, List.getElem?_eq_getElem hjl]
    simp only [Option.map_some, Option.bind_some, if_pos hjm]
    rw [hnd.idxOf_getElem kc hc]
    have hfa := hfitAt kc hc
    have hx := hcollen _ (List.getElem_mem hjl)
    rw [writeCol_get_last _ rps _ kr hrr
      (AVal.valsFor_length v ck.isMulti (!rk.isMulti) rps.length kc hfa)
      (by intro q hq; rw [hx]; exact hrpslt q hq) hlast]
    exact AVal.valsFor_get v ck.isMulti (!rk.isMulti) rps.length kc kr hfa hrr
  · intro j hj
    rw [hdtj, htdt]
    cases (colsDT tb.blocks)[j]? with
    | none => rfl
    | some x => simp [hj]
  · intro j hj
    rw [hdtj, htdt]
    cases (colsDT tb.blocks)[j]? with
    | none => rfl
    | some x => simp [hj]

end SF
