/-
  SFModel.DType — dtype resolution of static-frame (C07).

  Mirrors, branch by branch, static_frame/core/util.py:
    * `resolve_dtype`            → `resolveE` (mirrored, `Except`), `resolve` (total, extracted from it)
    * `resolve_dtype_iter`       → `resolveIterE` / `resolveIter`  (early exit at object)
    * `dtype_from_element`       → `dtypeFromElement`
    * `dtype_kind_to_na`         → `kindToNa`
    * `dtype_to_fill_value`      → `dtypeToFillValue`
    * `concat_resolved`          → `concatResolved`
    * `full_for_fill`            → `fullForFill`
    * `prepare_iter_for_array`   → `prepareIter` (flag automaton with early exit)
  `np.result_type` is the table `resultType` (a parameter of the model, compared exhaustively with
  NumPy on every run by harness/sfv/props/c07.py).

  `holds d v` = "an array of dtype `d` stores the value `v` unchanged"; `store d v` is what is read
  back after writing `v` into an array of dtype `d`.
-/
import SFModel.Basic

namespace SF

/-! ### dtypes -/

/-- datetime64 / timedelta64 units (`generic` = no unit: `np.dtype('M8')`, the dtype of `NaT`). -/
inductive TUnit
  | generic | Y | M | W | D | h | m | s | ms | us | ns
deriving DecidableEq, Repr, Inhabited

def TUnit.rank : TUnit → Nat
  | .generic => 0 | .Y => 1 | .M => 2 | .W => 3 | .D => 4 | .h => 5
  | .m => 6 | .s => 7 | .ms => 8 | .us => 9 | .ns => 10

/-- the finer of two units (NumPy promotes to it) -/
def TUnit.finer (u v : TUnit) : TUnit := if u.rank ≤ v.rank then v else u

/-- years and months have no fixed length: timedelta64 cannot convert them to days and finer -/
def TUnit.nonlinear : TUnit → Bool
  | .Y | .M => true
  | _ => false

inductive DType
  | bool
  | int (w : Nat)       -- bits
  | uint (w : Nat)
  | float (w : Nat)
  | complex (w : Nat)   -- total bits (complex128 = two float64)
  | str (n : Nat)       -- '<Un'
  | bytes (n : Nat)     -- 'Sn'
  | dt (u : TUnit)
  | td (u : TUnit)
  | obj
deriving DecidableEq, Repr, Inhabited

/-- `dtype.kind` -/
inductive Kind
  | b | i | u | f | c | U | S | M | m | O
deriving DecidableEq, Repr, Inhabited

def DType.kind : DType → Kind
  | .bool => .b | .int _ => .i | .uint _ => .u | .float _ => .f | .complex _ => .c
  | .str _ => .U | .bytes _ => .S | .dt _ => .M | .td _ => .m | .obj => .O

/-- `kind in DTYPE_STR_KINDS` -/
def Kind.isStr : Kind → Bool
  | .U | .S => true
  | _ => false
/-- `kind in DTYPE_INT_KINDS` -/
def Kind.isInt : Kind → Bool
  | .i | .u => true
  | _ => false
/-- `kind in DTYPE_INEXACT_KINDS` -/
def Kind.isInexact : Kind → Bool
  | .f | .c => true
  | _ => false
/-- `kind in DTYPE_NAT_KINDS` -/
def Kind.isNat : Kind → Bool
  | .M | .m => true
  | _ => false

/-- the widths NumPy really has -/
def DType.Valid : DType → Prop
  | .int w | .uint w => w = 8 ∨ w = 16 ∨ w = 32 ∨ w = 64
  | .float w => w = 16 ∨ w = 32 ∨ w = 64 ∨ w = 128
  | .complex w => w = 64 ∨ w = 128 ∨ w = 256
  | _ => True

instance : DecidablePred DType.Valid := fun d => by
  cases d <;> unfold DType.Valid <;> infer_instance

/-! ### `np.result_type` (table parameter) -/

/-- Outcome of `np.result_type(a, b)`: a dtype, `TypeError`, or a pair the table does not list
    (pairs `resolve_dtype` never hands to NumPy: `resolveE_total`). -/
inductive RT
  | ok (d : DType)
  | typeError
  | untabulated
deriving DecidableEq, Repr

/-- smallest float width that holds every integer of `w` bits (NumPy's int→float promotion) -/
def minFloat (w : Nat) : Nat := if w ≤ 8 then 16 else if w ≤ 16 then 32 else 64

/-- signed with unsigned: the signed type if strictly wider, else the next signed width, else float64 -/
def intUint (a b : Nat) : DType :=
  if b < a then .int a else if 2 * b ≤ 64 then .int (2 * b) else .float 64

def resultTd (u v : TUnit) : RT :=
  if u = .generic then .ok (.td v)
  else if v = .generic then .ok (.td u)
  else if u.nonlinear = v.nonlinear then .ok (.td (u.finer v))
  else .typeError

def resultType : DType → DType → RT
  | .bool, .bool => .ok .bool
  | .bool, .int w | .int w, .bool => .ok (.int w)
  | .bool, .uint w | .uint w, .bool => .ok (.uint w)
  | .bool, .float w | .float w, .bool => .ok (.float w)
  | .bool, .complex w | .complex w, .bool => .ok (.complex w)
  | .int a, .int b => .ok (.int (max a b))
  | .uint a, .uint b => .ok (.uint (max a b))
  | .int a, .uint b | .uint b, .int a => .ok (intUint a b)
  | .float f, .int w | .int w, .float f => .ok (.float (max f (minFloat w)))
  | .float f, .uint w | .uint w, .float f => .ok (.float (max f (minFloat w)))
  | .float f, .float g => .ok (.float (max f g))
  | .complex c, .int w | .int w, .complex c => .ok (.complex (max c (2 * minFloat w)))
  | .complex c, .uint w | .uint w, .complex c => .ok (.complex (max c (2 * minFloat w)))
  | .complex c, .float f | .float f, .complex c => .ok (.complex (max c (2 * f)))
  | .complex c, .complex d => .ok (.complex (max c d))
  | .str n, .str m => .ok (.str (max n m))
  | .bytes n, .bytes m => .ok (.bytes (max n m))
  | .str n, .bytes m | .bytes m, .str n => .ok (.str (max n m))
  | .dt u, .dt v => .ok (.dt (u.finer v))
  | .td u, .td v => resultTd u v
  | _, _ => .untabulated

/-! ### `resolve_dtype` -/

/-- `return np.result_type(dt1, dt2)` outside a `try`: a TypeError propagates. -/
def rtOrRaise (a b : DType) : Except Err DType :=
  match resultType a b with
  | .ok d => .ok d
  | .typeError => .error .value
  | .untabulated => .error .other

/-- `util.resolve_dtype(dt1, dt2)`, branch by branch. -/
def resolveE (dt1 dt2 : DType) : Except Err DType :=
  -- if the same, return that dtype
  if dt1 = dt2 then .ok dt1
  -- if either is object, we go to object
  else if dt1.kind = .O ∨ dt2.kind = .O then .ok .obj
  else
    let dt1_is_str := dt1.kind.isStr
    let dt2_is_str := dt2.kind.isStr
    if dt1_is_str ∧ dt2_is_str then rtOrRaise dt1 dt2
    else
      let dt1_is_dt := decide (dt1.kind = .M)
      let dt2_is_dt := decide (dt2.kind = .M)
      if dt1_is_dt ∧ dt2_is_dt then rtOrRaise dt1 dt2
      else
        let dt1_is_tdelta := decide (dt1.kind = .m)
        let dt2_is_tdelta := decide (dt2.kind = .m)
        if dt1_is_tdelta ∧ dt2_is_tdelta then
          -- try: return np.result_type(dt1, dt2)  except TypeError: return DTYPE_OBJECT
          match resultType dt1 dt2 with
          | .ok d => .ok d
          | .typeError => .ok .obj
          | .untabulated => .error .other
        else
          let dt1_is_bool := decide (dt1 = .bool)
          let dt2_is_bool := decide (dt2 = .bool)
          if dt1_is_str ∨ dt2_is_str ∨ dt1_is_bool ∨ dt2_is_bool
              ∨ dt1_is_dt ∨ dt2_is_dt ∨ dt1_is_tdelta ∨ dt2_is_tdelta then .ok .obj
          else rtOrRaise dt1 dt2

/-- `resolve_dtype` never raises: every pair it hands to `np.result_type` outside the `try` is
    tabulated with a dtype. -/
theorem resolveE_ne_error (a b : DType) (e : Err) : resolveE a b ≠ .error e := by
  cases a <;> cases b <;>
    simp [resolveE, rtOrRaise, resultType, DType.kind, Kind.isStr, resultTd] <;>
    (repeat' split) <;> simp_all <;> (repeat' split at *) <;> simp_all

/-- The total function the property theorems are about; no default is involved: the error arm
    is impossible by `resolveE_ne_error`. -/
def resolve (a b : DType) : DType :=
  match h : resolveE a b with
  | .ok d => d
  | .error e => absurd h (resolveE_ne_error a b e)

theorem resolveE_eq (a b : DType) : resolveE a b = .ok (resolve a b) := by
  unfold resolve
  split
  · assumption
  · rename_i e h; exact absurd h (resolveE_ne_error a b e)

/-- `util.resolve_dtype_iter`: pairwise resolution, stop at object.  `none` = empty iterable
    (`next()` raises StopIteration). -/
def resolveIterGo (acc : DType) : List DType → DType
  | [] => acc
  | d :: ds =>
    let r := resolve acc d
    if r = .obj then r else resolveIterGo r ds

def resolveIter : List DType → Option DType
  | [] => none
  | d :: ds => some (resolveIterGo d ds)

/-! ### value universe -/

/-- A small universe of element values.  `flt w id` is a finite non-integral float whose shortest
    exact IEEE format has `w` bits; `str len id` a string of `len` characters; `dt u t` a datetime64
    whose own unit is `u`. -/
inductive V
  | none | nan | natD | natT
  | bool (b : Bool)
  | int (n : Int)
  | flt (w : Nat) (id : Nat)
  | cplx (w : Nat) (id : Nat)
  | str (len : Nat) (id : Nat)
  | bytes (len : Nat) (id : Nat)
  | dt (u : TUnit) (t : Int)
  | td (u : TUnit) (t : Int)
  | tuple (id : Nat)
  | garbage (id : Nat)        -- what is read back after a lossy cast (never equal to a supplied value)
deriving DecidableEq, Repr, Inhabited

/-- mantissa bits (with the hidden bit) and exponent bound of the float formats -/
def mant (w : Nat) : Nat := if w ≤ 16 then 11 else if w ≤ 32 then 24 else if w ≤ 64 then 53 else 64
def emax (w : Nat) : Nat := if w ≤ 16 then 16 else if w ≤ 32 then 128 else if w ≤ 64 then 1024 else 16384

/-- `n` written in binary needs at most `p` significant bits -/
def fitsMant (p n : Nat) : Bool := n % 2 ^ (Nat.log2 n + 1 - p) == 0

/-- the natural number `n` is exactly representable in the float format of `w` bits -/
def fitsFloat (w n : Nat) : Bool := fitsMant (mant w) n && decide (n < 2 ^ emax w)

/-- datetime64: a value of unit `u'` converts exactly to unit `u` (calendar units convert to finer
    ones, except into weeks, whose grid does not contain month / year starts; a generic-unit value
    is only `NaT` / the bare integer of `np.timedelta64(0)`) -/
def dtExact (u' u : TUnit) : Bool :=
  u' == u || u' == .generic || (decide (u'.rank ≤ u.rank) && u != .W)

/-- timedelta64: exact conversion exists inside {Y, M} and inside {W … ns} -/
def tdExact (u' u : TUnit) : Bool :=
  u' == u || u' == .generic || (u != .generic && u'.nonlinear == u.nonlinear && decide (u'.rank ≤ u.rank))

/-- two's complement range of a signed integer of `w` bits / range of an unsigned one -/
def intRange (w : Nat) (n : Int) : Prop := -((2 ^ (w - 1) : Nat) : Int) ≤ n ∧ n < ((2 ^ (w - 1) : Nat) : Int)
def uintRange (w : Nat) (n : Int) : Prop := 0 ≤ n ∧ n < ((2 ^ w : Nat) : Int)
instance (w : Nat) (n : Int) : Decidable (intRange w n) := by unfold intRange; infer_instance
instance (w : Nat) (n : Int) : Decidable (uintRange w n) := by unfold uintRange; infer_instance

def holdsB : DType → V → Bool
  | .obj, .garbage _ => false
  | .obj, _ => true
  | .bool, .bool _ => true
  | .int w, .int n => decide (intRange w n)
  | .uint w, .int n => decide (uintRange w n)
  | .float _, .nan => true
  | .float _, .none => true          -- NumPy stores None as NaN: a missing marker stays a missing marker
  | .float w, .int n => fitsFloat w n.natAbs
  | .float w, .flt w' _ => decide (w' ≤ w)
  | .complex _, .nan => true
  | .complex _, .none => true
  | .complex c, .int n => fitsFloat (c / 2) n.natAbs
  | .complex c, .flt w' _ => decide (w' ≤ c / 2)
  | .complex c, .cplx c' _ => decide (c' ≤ c)
  | .str n, .str len _ => decide (len ≤ n)
  | .bytes n, .bytes len _ => decide (len ≤ n)
  | .dt _, .natD => true
  | .dt _, .natT => true            -- any NaT / None is stored as the array's own NaT
  | .dt _, .none => true
  | .dt u, .dt u' _ => dtExact u' u
  | .td _, .natT => true
  | .td _, .natD => true
  | .td _, .none => true
  | .td u, .td u' _ => tdExact u' u
  | _, _ => false

/-- "the value is stored unchanged" -/
def holds (d : DType) (v : V) : Prop := holdsB d v = true

instance (d : DType) (v : V) : Decidable (holds d v) := inferInstanceAs (Decidable (_ = true))

/-- What is read back after writing `v` into an array of dtype `d`: `v` itself when it is held;
    otherwise NumPy casts (truncates a string, rounds an integer, turns a bool into a number …) or
    raises — in the model: a value different from every supplied one. -/
def store (d : DType) (v : V) : V := if holdsB d v then v else .garbage 0

/-! ### elements: `dtype_from_element`, NA values, fill values -/

/-- What `dtype_from_element` distinguishes about its argument. -/
inductive Elem
  | nanSingleton            -- `value is np.nan`
  | none
  | tuple (id : Nat)
  | npScalar (d : DType) (v : V)   -- `hasattr(value, 'dtype')`
  | py (v : V)                     -- any other Python value: `np.array(value).dtype`
deriving DecidableEq, Repr

/-- `np.array(value).dtype` for a Python scalar (table parameter, compared with NumPy). -/
def npArrayDType : V → DType
  | .bool _ => .bool
  | .int n => if intRange 64 n then .int 64 else if uintRange 64 n then .uint 64 else .obj
  | .nan | .flt _ _ => .float 64
  | .cplx _ _ => .complex 128
  | .str len _ => .str (max len 1)       -- `np.array('').dtype` is `<U1`
  | .bytes len _ => .bytes (max len 1)
  | .dt u _ => .dt u      -- not reached for Python values (datetime.date gives object)
  | .td u _ => .td u
  | .natD => .dt .generic
  | .natT => .td .generic
  | .none | .tuple _ | .garbage _ => .obj

/-- `util.dtype_from_element` -/
def dtypeFromElement : Elem → DType
  | .nanSingleton => .float 64
  | .none => .obj
  | .tuple _ => .obj
  | .npScalar d _ => d
  | .py v => npArrayDType v

def Elem.value : Elem → V
  | .nanSingleton => .nan
  | .none => .none
  | .tuple id => .tuple id
  | .npScalar _ v => v
  | .py v => v

/-- an element described faithfully: a NumPy scalar is held by its own dtype, a Python float is a
    float64, a Python complex a complex128 -/
def Elem.WF : Elem → Prop
  | .npScalar d v => holds d v
  | .py (.flt w _) => w ≤ 64
  | .py (.cplx w _) => w ≤ 128
  | .py (.garbage _) => False
  | _ => True

/-- `util.dtype_kind_to_na(kind)`: note the timedelta kind also gets the *datetime64* `NaT`. -/
def kindToNa (k : Kind) : Elem :=
  if k.isInexact then .nanSingleton
  else if k.isInt then .nanSingleton      -- "allow integers to go to float rather than object"
  else if k.isNat then .npScalar (.dt .generic) .natD
  else .none

/-- `util.dtype_to_fill_value(dtype)`; `none` = NotImplementedError. -/
def dtypeToFillValue (d : DType) : Option Elem :=
  let kind := d.kind
  if kind.isInt then some (.py (.int 0))
  else if kind = .b then some (.py (.bool false))
  else if kind.isInexact then some .nanSingleton
  else if kind = .O then some .none
  else if kind.isStr then some (.py (.str 0 0))
  else if kind = .M then some (.npScalar (.dt .generic) .natD)
  else if kind = .m then some (.npScalar (.td .generic) (.td .generic 0))
  else none

/-! ### merge sites -/

/-- an array: its dtype and the values it stores -/
structure Arr where
  dt : DType
  vals : List V
deriving DecidableEq, Repr

def Arr.WellTyped (a : Arr) : Prop := ∀ v ∈ a.vals, holds a.dt v

/-- `astype(d)` / writing all of `a` into a destination of dtype `d` -/
def Arr.writeInto (d : DType) (a : Arr) : List V := a.vals.map (store d)

/-- `util.concat_resolved`: first pass resolves the dtype (argument order `resolve_dtype(array.dtype,
    dt_resolve)`, skipped once object), then `np.concatenate(out=empty(resolved))`. -/
def concatDType (first : DType) : List DType → DType
  | [] => first
  | d :: ds => concatDType (if first ≠ .obj then resolve d first else first) ds

def concatResolved : List Arr → Option Arr
  | [] => none
  | a :: as =>
    let r := concatDType a.dt (as.map (·.dt))
    some ⟨r, (a :: as).flatMap (Arr.writeInto r)⟩

/-- the generic merge pattern of the assignment / reindex sites:
    `dst = np.empty(n, dtype=resolve_dtype_iter(dtypes)); dst[sel_i] = part_i` -/
def mergeWrite (parts : List Arr) : Option Arr :=
  match resolveIter (parts.map (·.dt)) with
  | none => none
  | some r => some ⟨r, parts.flatMap (Arr.writeInto r)⟩

/-- `util.full_for_fill(dtype, shape, fill_value)` -/
def fullForFill (dtype : Option DType) (n : Nat) (fill : Elem) : Arr :=
  let dtype_element := dtypeFromElement fill
  let dtype_final := match dtype with
    | some d => resolve d dtype_element
    | none => dtype_element
  ⟨dtype_final, List.replicate n (store dtype_final fill.value)⟩

/-! ### `prepare_iter_for_array` -/

/-- what the loop of `prepare_iter_for_array` distinguishes about one value -/
inductive ECls
  | tupleLike      -- tuple, list, or object with `__slots__`
  | enum
  | str            -- `str` or `np.str_`
  | inexact        -- type is exactly `float` or `complex`
  | bigInt         -- type is `int` and `abs(v) > INT_MAX_COERCIBLE_TO_FLOAT`
  | other          -- any other non-string (bool, small int, NumPy scalars, None, bytes, dates …)
deriving DecidableEq, Repr

structure PFlags where
  resolved : Bool := false    -- `resolved == object`
  hasTuple : Bool := false
  hasStr : Bool := false
  hasEnum : Bool := false
  hasNonStr : Bool := false
  hasInexact : Bool := false
  hasBigInt : Bool := false
deriving DecidableEq, Repr

/-- one turn of the loop body (entered only while `resolved != object`) -/
def PFlags.step (f : PFlags) (c : ECls) : PFlags :=
  let f := match c with
    | .tupleLike => { f with hasTuple := true }
    | .enum => { f with hasEnum := true }
    | .str => { f with hasStr := true }
    | .inexact => { f with hasNonStr := true, hasInexact := true }
    | .bigInt => { f with hasNonStr := true, hasBigInt := true }
    | .other => { f with hasNonStr := true }
  if f.hasTuple || f.hasEnum || (f.hasStr && f.hasNonStr) then { f with resolved := true }
  else if f.hasBigInt && f.hasInexact then { f with resolved := true }
  else f

/-- the loop with its early exit: once resolved is object the remaining values are not inspected -/
def prepareGo (f : PFlags) : List ECls → PFlags
  | [] => f
  | c :: cs => if f.resolved then f else prepareGo (f.step c) cs

/-- `prepare_iter_for_array(values)` → (`resolved is object`, `has_tuple`) -/
def prepareIter (cs : List ECls) : Bool × Bool :=
  let f := prepareGo {} cs
  (f.resolved, f.hasTuple)

end SF
