/-
  SFModel.RelLemmas — helper lemmas for Props/C20.lean.
-/
import SFModel.Rel
set_option linter.unusedSectionVars false

namespace SF.Rel
open SF

theorem pick_nil {α} (l : List α) : pick l [] = [] := rfl
theorem pick_cons {α} (l : List α) (p : Nat) (ps : List Nat) :
    pick l (p :: ps) = (match l[p]? with | some x => [x] | none => []) ++ pick l ps := by
  unfold pick
  simp only [List.filterMap_cons]
  cases l[p]? <;> simp

theorem pick_map {α β} (f : α → β) (l : List α) (ps : List Nat) : pick (l.map f) ps = (pick l ps).map f := by
  induction ps with
  | nil => rfl
  | cons p ps ih =>
    rw [pick_cons, pick_cons, ih]
    simp only [List.getElem?_map]
    cases l[p]? <;> simp

/-- selecting the positions where the element satisfies `p` is filtering -/
theorem pick_filter_range' {α} (p : α → Bool) : ∀ (l pre : List α),
    pick (pre ++ l) ((List.range' pre.length l.length).filter fun j => optTest p (pre ++ l)[j]?) = l.filter p
  | [], pre => by simp [pick]
  | x :: xs, pre => by
    have hx : (pre ++ x :: xs)[pre.length]? = some x := by simp
    have ih := pick_filter_range' p xs (pre ++ [x])
    simp only [List.append_assoc, List.singleton_append, List.length_append, List.length_cons,
      List.length_nil, Nat.zero_add] at ih
    have h0 : optTest p (some x) = p x := rfl
    simp only [List.length_cons, List.range'_succ, List.filter_cons, hx, h0]
    cases hp : p x
    · simp only [Bool.false_eq_true, if_false]
      exact ih
    · simp only [if_true, pick_cons, hx, List.singleton_append]
      rw [ih]

theorem pick_filter_range {α} (p : α → Bool) (l : List α) :
    pick l ((List.range l.length).filter fun j => optTest p l[j]?) = l.filter p := by
  have := pick_filter_range' p l []
  simpa [List.range_eq_range'] using this

theorem filter_isEmpty {β} (p : β → Bool) (l : List β) : (l.filter p).isEmpty = !(l.any p) := by
  induction l with
  | nil => rfl
  | cons x xs ih =>
    simp only [List.filter_cons, List.any_cons]
    cases p x <;> simp [ih]


section Join
variable {lam γ α κ : Type} [DecidableEq lam]
variable (kl kr : Row lam α → κ) (keq : κ → κ → Bool)

/-- one entry of `map_iloc` read through the label indices -/
def locPairOf (R : List (Row lam α)) (l : Row lam α) : Option (lam × List lam) :=
  if (R.any fun r => keq (kl l) (kr r)) then
    some (l.label, (R.filter fun r => keq (kl l) (kr r)).map (·.label))
  else none

theorem pick_matchedIdx (k : κ) (R : List (Row lam α)) :
    pick R (matchedIdx kr keq k R) = R.filter fun r => keq k (kr r) := by
  unfold matchedIdx
  exact pick_filter_range (fun r => keq k (kr r)) R

theorem matchedIdx_isEmpty (k : κ) (R : List (Row lam α)) :
    (matchedIdx kr keq k R).isEmpty = (R.filter fun r => keq k (kr r)).isEmpty := by
  rw [Bool.eq_iff_iff]
  simp only [List.isEmpty_iff]
  constructor
  · intro h
    rw [← pick_matchedIdx, h]; rfl
  · intro h
    unfold matchedIdx
    rw [List.filter_eq_nil_iff]
    intro j hj
    simp only [List.mem_range] at hj
    rw [List.getElem?_eq_getElem hj]
    simp only [Bool.not_eq_true, optTest]
    have := List.filter_eq_nil_iff.mp h (R[j]) (List.getElem_mem hj)
    simpa using this

/-- what `map_iloc`, read back through the two label indices, holds: for every left row with a match,
    its label and the labels of its matching right rows -/
theorem locPairs_from (R : List (Row lam α)) : ∀ (ls pre : List (Row lam α)),
    ((mapIlocFrom kl kr keq R pre.length ls).filterMap fun (i, m) =>
      match (pre ++ ls)[i]? with
      | some l => some (l.label, pick (R.map (·.label)) m)
      | none => none) =
    ls.filterMap (locPairOf kl kr keq R)
  | [], pre => by simp [mapIlocFrom]
  | l :: ls, pre => by
    have hl : (pre ++ l :: ls)[pre.length]? = some l := by simp
    have ih := locPairs_from R ls (pre ++ [l])
    simp only [List.append_assoc, List.singleton_append, List.length_append, List.length_cons,
      List.length_nil, Nat.zero_add] at ih
    unfold mapIlocFrom
    simp only [matchedIdx_isEmpty, List.filterMap_cons, locPairOf, filter_isEmpty]
    cases he : (R.any fun r => keq (kl l) (kr r))
    · simp only [Bool.not_false, if_true, Bool.false_eq_true, if_false]
      rw [ih]
    · have hp : pick (R.map (·.label)) (matchedIdx kr keq (kl l) R) =
          (R.filter fun r => keq (kl l) (kr r)).map (·.label) := by
        rw [pick_map, pick_matchedIdx]
      simp only [Bool.not_true, Bool.false_eq_true, if_false, if_true, List.filterMap_cons, hl, hp]
      rw [ih]

theorem locPairs_eq (L R : List (Row lam α)) :
    locPairs kl kr keq L R = L.filterMap (locPairOf kl kr keq R) := by
  have := locPairs_from kl kr keq R L []
  simp only [List.nil_append, List.length_nil] at this
  unfold locPairs mapIloc
  exact this

end Join

theorem mapM_ok {ε β δ : Type} {f : β → Except ε δ} {g : β → δ} : ∀ (xs : List β),
    (∀ x ∈ xs, f x = .ok (g x)) → xs.mapM f = .ok (xs.map g)
  | [], _ => rfl
  | x :: xs, h => by
    have h1 := h x (by simp)
    have ih := mapM_ok (f := f) (g := g) xs (fun y hy => h y (by simp [hy]))
    simp [List.mapM_cons, h1, ih, bind, Except.bind, pure, Except.pure]

theorem mapM_ok_append {ε β δ : Type} {f : β → Except ε δ} : ∀ (xs ys : List β) (a b : List δ),
    xs.mapM f = .ok a → ys.mapM f = .ok b → (xs ++ ys).mapM f = .ok (a ++ b)
  | [], ys, a, b, h1, h2 => by
    simp [List.mapM_nil, pure, Except.pure] at h1
    subst h1; simpa using h2
  | x :: xs, ys, a, b, h1, h2 => by
    simp only [List.mapM_cons, bind, Except.bind] at h1
    split at h1
    · cases h1
    · rename_i v hv
      split at h1
      · cases h1
      · rename_i vs hvs
        simp only [pure, Except.pure, Except.ok.injEq] at h1
        subst h1
        have ih := mapM_ok_append xs ys vs b hvs h2
        simp [List.mapM_cons, hv, ih, bind, Except.bind, pure, Except.pure]

section Join2
variable {lam γ α κ : Type} [DecidableEq lam]
variable (kl kr : Row lam α → κ) (keq : κ → κ → Bool)

theorem manyLoc_eq (L R : List (Row lam α)) :
    manyLoc kl kr keq L R =
      (matchPairs kl kr keq L R).map fun (l, r) => JLabel.pair l.label r.label := by
  unfold manyLoc matchPairs
  rw [locPairs_eq]
  induction L with
  | nil => rfl
  | cons l ls ih =>
    simp only [List.filterMap_cons, List.flatMap_cons, List.map_append, locPairOf]
    rw [← ih]
    cases he : (R.any fun r => keq (kl l) (kr r))
    · have : (R.filter fun r => keq (kl l) (kr r)) = [] := by
        have := filter_isEmpty (fun r => keq (kl l) (kr r)) R
        rw [he] at this; simpa using this
      simp [this]
    · simp [List.map_map, Function.comp_def]

theorem leftLocSet_eq (L R : List (Row lam α)) :
    leftLocSet kl kr keq L R = (L.filter fun l => R.any fun r => keq (kl l) (kr r)).map (·.label) := by
  unfold leftLocSet
  rw [locPairs_eq]
  induction L with
  | nil => rfl
  | cons l ls ih =>
    simp only [List.filterMap_cons, List.filter_cons, locPairOf]
    cases R.any fun r => keq (kl l) (kr r) <;> simp [ih]

theorem mem_rightLocSet (L R : List (Row lam α)) (x : lam) :
    x ∈ rightLocSet kl kr keq L R ↔ ∃ l ∈ L, ∃ r ∈ R, keq (kl l) (kr r) = true ∧ r.label = x := by
  unfold rightLocSet
  rw [locPairs_eq]
  simp only [List.mem_flatMap, List.mem_filterMap]
  constructor
  · rintro ⟨⟨a, rs⟩, ⟨l, hl, hp⟩, hx⟩
    unfold locPairOf at hp
    split at hp
    · simp only [Option.some.injEq, Prod.mk.injEq] at hp
      obtain ⟨_, rfl⟩ := hp
      simp only [List.mem_map, List.mem_filter] at hx
      obtain ⟨r, ⟨hr, hk⟩, rfl⟩ := hx
      exact ⟨l, hl, r, hr, hk, rfl⟩
    · cases hp
  · rintro ⟨l, hl, r, hr, hk, rfl⟩
    refine ⟨(l.label, (R.filter fun r => keq (kl l) (kr r)).map (·.label)), ⟨l, hl, ?_⟩, ?_⟩
    · have : (R.any fun r => keq (kl l) (kr r)) = true := by
        simp; exact ⟨r, hr, hk⟩
      simp [locPairOf, this]
    · simp only [List.mem_map, List.mem_filter]
      exact ⟨r, ⟨hr, hk⟩, rfl⟩

theorem label_inj : ∀ {T : List (Row lam α)}, (T.map (·.label)).Nodup → ∀ {x y}, x ∈ T → y ∈ T →
    x.label = y.label → x = y
  | [], _, _, _, hx, _, _ => by cases hx
  | t :: ts, h, x, y, hx, hy, e => by
    simp only [List.map_cons, List.nodup_cons, List.mem_map, not_exists, not_and] at h
    simp only [List.mem_cons] at hx hy
    rcases hx with rfl | hx <;> rcases hy with rfl | hy
    · rfl
    · exact (h.1 y hy e.symm).elim
    · exact (h.1 x hx e).elim
    · exact label_inj h.2 hx hy e

theorem rowOf_mem {T : List (Row lam α)} (h : (T.map (·.label)).Nodup) {x : Row lam α} (hx : x ∈ T) :
    rowOf T x.label = .ok x := by
  unfold rowOf
  cases hf : T.find? (fun r => r.label == x.label) with
  | none =>
    have := List.find?_eq_none.mp hf x hx
    simp at this
  | some y =>
    have hy := List.mem_of_find?_eq_some hf
    have hp := List.find?_some hf
    simp only [beq_iff_eq] at hp
    rw [label_inj h hy hx hp]

end Join2


section Join3
variable {lam γ α κ : Type} [DecidableEq lam]
variable (kl kr : Row lam α → κ) (keq : κ → κ → Bool)

theorem extL_eq (L R : List (Row lam α)) (hL : (L.map (·.label)).Nodup) :
    ((L.map (·.label)).filter fun x => !(leftLocSet kl kr keq L R).contains x) =
      (unmatchedLeft kl kr keq L R).map (·.label) := by
  unfold unmatchedLeft
  rw [List.filter_map]
  congr 1
  apply List.filter_congr
  intro x hx
  simp only [Function.comp]
  congr 1
  rw [leftLocSet_eq, Bool.eq_iff_iff]
  simp only [List.contains_iff_mem, List.mem_map, List.mem_filter]
  constructor
  · rintro ⟨y, ⟨hy, hm⟩, e⟩
    rw [← label_inj hL hy hx e]; exact hm
  · intro hm
    exact ⟨x, ⟨hx, hm⟩, rfl⟩

theorem extR_eq (L R : List (Row lam α)) (hR : (R.map (·.label)).Nodup) :
    ((R.map (·.label)).filter fun x => !(rightLocSet kl kr keq L R).contains x) =
      (unmatchedRight kl kr keq L R).map (·.label) := by
  unfold unmatchedRight
  rw [List.filter_map]
  congr 1
  apply List.filter_congr
  intro x hx
  simp only [Function.comp]
  congr 1
  rw [Bool.eq_iff_iff]
  simp only [List.contains_iff_mem, mem_rightLocSet, List.any_eq_true]
  constructor
  · rintro ⟨l, hl, r, hr, hk, e⟩
    rw [← label_inj hR hr hx e]; exact ⟨l, hl, hk⟩
  · rintro ⟨l, hl, hk⟩
    exact ⟨l, hl, x, hx, hk, rfl⟩

theorem mem_matchPairs (L R : List (Row lam α)) (l r : Row lam α) :
    (l, r) ∈ matchPairs kl kr keq L R ↔ l ∈ L ∧ r ∈ R ∧ keq (kl l) (kr r) = true := by
  simp only [matchPairs, List.mem_flatMap, List.mem_map, List.mem_filter, Prod.mk.injEq]
  constructor
  · rintro ⟨a, ha, b, ⟨hb, hk⟩, rfl, rfl⟩; exact ⟨ha, hb, hk⟩
  · rintro ⟨ha, hb, hk⟩; exact ⟨l, ha, r, ⟨hb, hk⟩, rfl, rfl⟩

/-- the rows of the composite join are exactly the relational join -/
theorem manyRows_eq (jt : JoinType) (fill : α) (wl wr : Nat) (L R : List (Row lam α))
    (hL : (L.map (·.label)).Nodup) (hR : (R.map (·.label)).Nodup) :
    (finalIndexMany kl kr keq jt L R).mapM (manyRow L R wl wr fill) =
      .ok (joinSpec kl kr keq jt wl wr fill L R) := by
  have hm : (manyLoc kl kr keq L R).mapM (manyRow L R wl wr fill) =
      .ok ((matchPairs kl kr keq L R).map fun (l, r) => ⟨JLabel.pair l.label r.label, l.cells ++ r.cells⟩) := by
    rw [manyLoc_eq]
    have := mapM_ok (f := fun (p : Row lam α × Row lam α) => manyRow L R wl wr fill (JLabel.pair p.1.label p.2.label))
      (g := fun (p : Row lam α × Row lam α) => (⟨JLabel.pair p.1.label p.2.label, p.1.cells ++ p.2.cells⟩ : Row (JLabel lam) α))
      (matchPairs kl kr keq L R) (by
        rintro ⟨l, r⟩ hp
        obtain ⟨hl, hr, _⟩ := (mem_matchPairs kl kr keq L R l r).mp hp
        simp [manyRow, rowOf_mem hL hl, rowOf_mem hR hr, bind, Except.bind, pure, Except.pure])
    rw [List.mapM_map]
    exact this
  have hl : (((L.map (·.label)).filter fun x => !(leftLocSet kl kr keq L R).contains x).map JLabel.left).mapM
      (manyRow L R wl wr fill) =
      .ok ((unmatchedLeft kl kr keq L R).map fun l => ⟨JLabel.left l.label, l.cells ++ List.replicate wr fill⟩) := by
    rw [extL_eq kl kr keq L R hL, List.map_map, List.mapM_map]
    apply mapM_ok
    intro l hl
    have hl' : l ∈ L := (List.mem_filter.mp hl).1
    simp [manyRow, rowOf_mem hL hl', bind, Except.bind, pure, Except.pure]
  have hr : (((R.map (·.label)).filter fun x => !(rightLocSet kl kr keq L R).contains x).map JLabel.right).mapM
      (manyRow L R wl wr fill) =
      .ok ((unmatchedRight kl kr keq L R).map fun r => ⟨JLabel.right r.label, List.replicate wl fill ++ r.cells⟩) := by
    rw [extR_eq kl kr keq L R hR, List.map_map, List.mapM_map]
    apply mapM_ok
    intro r hr
    have hr' : r ∈ R := (List.mem_filter.mp hr).1
    simp [manyRow, rowOf_mem hR hr', bind, Except.bind, pure, Except.pure]
  unfold finalIndexMany joinSpec
  cases jt
  · simpa [JoinType.keepsLeft, JoinType.keepsRight] using hm
  · simpa [JoinType.keepsLeft, JoinType.keepsRight] using mapM_ok_append _ _ _ _ hm hl
  · simpa [JoinType.keepsLeft, JoinType.keepsRight] using mapM_ok_append _ _ _ _ hm hr
  · simpa [JoinType.keepsLeft, JoinType.keepsRight, List.append_assoc] using
      mapM_ok_append _ _ _ _ (mapM_ok_append _ _ _ _ hm hl) hr
end Join3

section Join4
variable {lam γ α κ : Type} [DecidableEq lam]
variable (kl kr : Row lam α → κ) (keq : κ → κ → Bool)

theorem lookup_mapIlocFrom_lt (R : List (Row lam α)) : ∀ (ls : List (Row lam α)) (s j : Nat), j < s →
    (mapIlocFrom kl kr keq R s ls).lookup j = none
  | [], _, _, _ => rfl
  | l :: ls, s, j, h => by
    unfold mapIlocFrom
    dsimp only
    have ih := lookup_mapIlocFrom_lt R ls (s + 1) j (by omega)
    split
    · exact ih
    · rw [List.lookup_cons]
      have : (j == s) = false := by simp; omega
      simp [this, ih]

/-- the entry of `map_iloc` under a left position -/
def entryOf (R : List (Row lam α)) (l : Row lam α) : Option (List Nat) :=
  if (matchedIdx kr keq (kl l) R).isEmpty then none else some (matchedIdx kr keq (kl l) R)

theorem lookup_mapIlocFrom (R : List (Row lam α)) : ∀ (ls : List (Row lam α)) (s k : Nat),
    (mapIlocFrom kl kr keq R s ls).lookup (s + k) =
      match ls[k]? with
      | some l => entryOf kl kr keq R l
      | none => none
  | [], _, _ => by simp [mapIlocFrom]
  | l :: ls, s, 0 => by
    unfold mapIlocFrom
    dsimp only
    simp only [Nat.add_zero, List.getElem?_cons_zero, entryOf]
    split
    · exact lookup_mapIlocFrom_lt kl kr keq R ls (s + 1) s (by omega)
    · simp [List.lookup_cons]
  | l :: ls, s, k + 1 => by
    unfold mapIlocFrom
    dsimp only
    have ih := lookup_mapIlocFrom R ls (s + 1) k
    have e : s + (k + 1) = s + 1 + k := by omega
    simp only [List.getElem?_cons_succ]
    split
    · rw [e]; exact ih
    · rw [List.lookup_cons]
      have : (s + (k + 1) == s) = false := by simp
      simp only [this]
      rw [e]; exact ih

theorem ilocOf_mem {T : List (Row lam α)} (h : (T.map (·.label)).Nodup) {x : Row lam α} (hx : x ∈ T) :
    ∃ i, ilocOf T x.label = some i ∧ T[i]? = some x := by
  unfold ilocOf
  cases hf : T.findIdx? (fun r => r.label == x.label) with
  | none =>
    have := List.findIdx?_eq_none_iff.mp hf x hx
    simp at this
  | some i =>
    obtain ⟨hi, hp, _⟩ := List.findIdx?_eq_some_iff_getElem.mp hf
    simp only [beq_iff_eq] at hp
    have := label_inj h (List.getElem_mem hi) hx hp
    exact ⟨i, rfl, by rw [List.getElem?_eq_getElem hi, this]⟩

theorem viaLeft_mem (L R : List (Row lam α)) (hL : (L.map (·.label)).Nodup) {l : Row lam α} (hl : l ∈ L) :
    viaLeft kl kr keq L R l.label = entryOf kl kr keq R l := by
  obtain ⟨i, hi, hli⟩ := ilocOf_mem hL hl
  unfold viaLeft
  rw [hi]
  have := lookup_mapIlocFrom kl kr keq R L 0 i
  simp only [Nat.zero_add, hli] at this
  exact this

theorem find?_of_filter_singleton {β} (p : β → Bool) (l : List β) (b : β) (h : l.filter p = [b]) :
    l.find? p = some b := by
  rw [← List.head?_filter, h]; rfl

theorem matched_singleton (R : List (Row lam α)) (k : κ) (j : Nat) (h : matchedIdx kr keq k R = [j]) :
    ∃ b, R[j]? = some b ∧ R.find? (fun r => keq k (kr r)) = some b := by
  have hp := pick_matchedIdx kr keq k R
  rw [h, pick_cons, pick_nil] at hp
  cases hj : R[j]? with
  | none =>
    -- j comes from `range R.length`
    have : j ∈ matchedIdx kr keq k R := by rw [h]; simp
    unfold matchedIdx at this
    simp only [List.mem_filter, List.mem_range] at this
    rw [List.getElem?_eq_getElem this.1] at hj
    cases hj
  | some b =>
    rw [hj] at hp
    simp only [List.append_nil] at hp
    exact ⟨b, rfl, find?_of_filter_singleton _ _ _ hp.symm⟩

theorem find?_none_of_not_any {β} (p : β → Bool) (l : List β) (h : l.any p = false) : l.find? p = none := by
  rw [List.find?_eq_none]
  intro x hx hp
  have : l.any p = true := List.any_eq_true.mpr ⟨x, hx, hp⟩
  rw [h] at this; cases this

theorem entryOf_none (R : List (Row lam α)) (l : Row lam α) (h : (R.any fun r => keq (kl l) (kr r)) = false) :
    entryOf kl kr keq R l = none := by
  unfold entryOf
  rw [matchedIdx_isEmpty, filter_isEmpty, h]; rfl

theorem entryOf_some (R : List (Row lam α)) (l : Row lam α) (h : (R.any fun r => keq (kl l) (kr r)) = true) :
    entryOf kl kr keq R l = some (matchedIdx kr keq (kl l) R) := by
  unfold entryOf
  rw [matchedIdx_isEmpty, filter_isEmpty, h]; rfl

theorem isManyLoop_false_len : ∀ (xs : List (Nat × List Nat)) (seen : List Nat),
    isManyLoop false seen xs = false → ∀ p ∈ xs, p.2.length ≤ 1
  | [], _, _, _, hp => by cases hp
  | (i, m) :: rest, seen, h, p, hp => by
    simp only [List.mem_cons] at hp
    cases m with
    | nil =>
      simp only [isManyLoop, Bool.false_eq_true, if_false] at h
      rcases hp with rfl | hp
      · simp
      · exact isManyLoop_false_len rest seen h p hp
    | cons j t =>
      cases t with
      | nil =>
        simp only [isManyLoop, Bool.false_eq_true, if_false] at h
        split at h
        · cases h
        · rcases hp with rfl | hp
          · simp
          · exact isManyLoop_false_len rest (j :: seen) h p hp
      | cons j2 t2 =>
        simp [isManyLoop] at h

theorem mem_mapIlocFrom (R : List (Row lam α)) : ∀ (ls : List (Row lam α)) (s : Nat) (l : Row lam α), l ∈ ls →
    (matchedIdx kr keq (kl l) R).isEmpty = false →
    ∃ i, (i, matchedIdx kr keq (kl l) R) ∈ mapIlocFrom kl kr keq R s ls
  | [], _, _, h, _ => by cases h
  | x :: xs, s, l, h, hm => by
    unfold mapIlocFrom
    dsimp only
    simp only [List.mem_cons] at h
    rcases h with rfl | h
    · simp [hm]
    · obtain ⟨i, hi⟩ := mem_mapIlocFrom R xs (s + 1) l h hm
      split
      · exact ⟨i, hi⟩
      · exact ⟨i, by simp [hi]⟩

theorem find_label_mem {T : List (Row lam α)} (h : (T.map (·.label)).Nodup) {x : Row lam α} (hx : x ∈ T) :
    T.find? (fun r => r.label == x.label) = some x := by
  have := rowOf_mem h hx
  unfold rowOf at this
  split at this
  · rename_i r hr; simp only [Except.ok.injEq] at this; rw [hr, this]
  · cases this

/-- one row of the non-composite path, for the label of a left row -/
theorem oneRow_mem (L R : List (Row lam α)) (wl wr : Nat) (fill : α) (hL : (L.map (·.label)).Nodup)
    (hm : isManyLoop false [] (mapIloc kl kr keq L R) = false) {l : Row lam α} (hl : l ∈ L) :
    oneRow kl kr keq L R wl wr fill l.label =
      match R.find? (fun r => keq (kl l) (kr r)) with
      | some b => .ok ⟨l.label, l.cells ++ b.cells⟩
      | none =>
        match R.find? (fun r => r.label == l.label) with
        | some b => .ok ⟨l.label, l.cells ++ b.cells⟩
        | none => .ok ⟨l.label, l.cells ++ List.replicate wr fill⟩ := by
  have hlc : leftCellsOf L wl fill l.label = l.cells := by
    unfold leftCellsOf; rw [find_label_mem hL hl]
  unfold oneRow
  rw [hlc, viaLeft_mem kl kr keq L R hL hl]
  cases ha : (R.any fun r => keq (kl l) (kr r))
  · rw [entryOf_none kl kr keq R l ha, find?_none_of_not_any _ _ ha]
    cases R.find? (fun r => r.label == l.label) <;> rfl
  · rw [entryOf_some kl kr keq R l ha]
    have hne : (matchedIdx kr keq (kl l) R).isEmpty = false := by
      rw [matchedIdx_isEmpty, filter_isEmpty, ha]; rfl
    obtain ⟨i, hi⟩ := mem_mapIlocFrom kl kr keq R L 0 l hl hne
    have hlen := isManyLoop_false_len _ _ hm _ hi
    simp only at hlen
    match hmi : matchedIdx kr keq (kl l) R, hlen, hne with
    | [], _, hne => simp [hmi] at hne
    | [j], _, _ =>
      obtain ⟨b, hb, hf⟩ := matched_singleton kr keq R (kl l) j hmi
      simp only [hb, hf]
    | _ :: _ :: _, hlen, _ => simp at hlen

theorem filterMap_eq_of {β δ : Type} (f : β → Option δ) (p : β → Bool) (g : β → δ) : ∀ (l : List β),
    (∀ x ∈ l, p x = true → f x = some (g x)) → (∀ x ∈ l, p x = false → f x = none) →
    l.filterMap f = (l.filter p).map g
  | [], _, _ => rfl
  | x :: xs, h1, h2 => by
    have ih := filterMap_eq_of f p g xs (fun y hy => h1 y (by simp [hy])) (fun y hy => h2 y (by simp [hy]))
    simp only [List.filterMap_cons, List.filter_cons]
    cases hp : p x
    · simp [h2 x (by simp) hp, ih]
    · simp [h1 x (by simp) hp, ih]

/-- the row a left row contributes: joined with its (first) matching right row, or filled -/
def leftLabelRow (R : List (Row lam α)) (wr : Nat) (fill : α) (l : Row lam α) : Row lam α :=
  match R.find? (fun r => keq (kl l) (kr r)) with
  | some b => ⟨l.label, l.cells ++ b.cells⟩
  | none => ⟨l.label, l.cells ++ List.replicate wr fill⟩

theorem find?_isSome_of_any {β} (p : β → Bool) (l : List β) (h : l.any p = true) : ∃ b, l.find? p = some b := by
  cases hf : l.find? p with
  | some b => exact ⟨b, rfl⟩
  | none =>
    obtain ⟨x, hx, hp⟩ := List.any_eq_true.mp h
    have := List.find?_eq_none.mp hf x hx
    exact (this hp).elim

theorem oneRows_eq (jt : JoinType) (hjt : jt = .inner ∨ jt = .left) (fill : α) (wl wr : Nat)
    (L R : List (Row lam α)) (hL : (L.map (·.label)).Nodup)
    (hm : isManyLoop false [] (mapIloc kl kr keq L R) = false)
    (hdisj : jt = .left → ∀ l ∈ unmatchedLeft kl kr keq L R, ∀ r ∈ R, r.label ≠ l.label) :
    (finalIndexOne kl kr keq jt L R).mapM (oneRow kl kr keq L R wl wr fill) =
      .ok (joinSpecLeftLabel kl kr keq jt wr fill L R) := by
  rcases hjt with rfl | rfl
  · -- inner
    simp only [finalIndexOne]
    rw [leftLocSet_eq, List.mapM_map]
    have h1 := mapM_ok (f := fun (l : Row lam α) => oneRow kl kr keq L R wl wr fill l.label)
      (g := leftLabelRow kl kr keq R wr fill) (L.filter fun l => R.any fun r => keq (kl l) (kr r)) (by
        intro l hl
        obtain ⟨hlL, ha⟩ := List.mem_filter.mp hl
        obtain ⟨b, hb⟩ := find?_isSome_of_any _ _ ha
        rw [oneRow_mem kl kr keq L R wl wr fill hL hm hlL]
        simp only [leftLabelRow, hb])
    rw [show (oneRow kl kr keq L R wl wr fill ∘ fun (x : Row lam α) => x.label) =
      (fun l => oneRow kl kr keq L R wl wr fill l.label) from rfl, h1]
    congr 1
    unfold joinSpecLeftLabel
    symm
    apply filterMap_eq_of
    · intro l _ ha
      obtain ⟨b, hb⟩ := find?_isSome_of_any _ _ ha
      simp only [hb, leftLabelRow]
    · intro l _ ha
      simp [find?_none_of_not_any _ _ ha]
  · -- left
    simp only [finalIndexOne]
    rw [List.mapM_map]
    have h1 := mapM_ok (f := fun (l : Row lam α) => oneRow kl kr keq L R wl wr fill l.label)
      (g := leftLabelRow kl kr keq R wr fill) L (by
        intro l hl
        rw [oneRow_mem kl kr keq L R wl wr fill hL hm hl]
        cases ha : (R.any fun r => keq (kl l) (kr r))
        · have hu : l ∈ unmatchedLeft kl kr keq L R := by
            simp only [unmatchedLeft, List.mem_filter]; exact ⟨hl, by simp [ha]⟩
          have hn : R.find? (fun r => r.label == l.label) = none := by
            rw [List.find?_eq_none]
            intro r hr hp
            simp only [beq_iff_eq] at hp
            exact hdisj rfl l hu r hr hp
          simp only [find?_none_of_not_any _ _ ha, hn, leftLabelRow]
        · obtain ⟨b, hb⟩ := find?_isSome_of_any _ _ ha
          simp only [hb, leftLabelRow])
    rw [show (oneRow kl kr keq L R wl wr fill ∘ fun (x : Row lam α) => x.label) =
      (fun l => oneRow kl kr keq L R wl wr fill l.label) from rfl, h1]
    congr 1
    unfold joinSpecLeftLabel
    symm
    have ft : L.filter (fun _ => true) = L := by
      induction L with
      | nil => rfl
      | cons x xs ih => simp
    refine (filterMap_eq_of _ (fun _ => true) (leftLabelRow kl kr keq R wr fill) L ?_ ?_).trans (by rw [ft])
    · intro l _ _
      unfold leftLabelRow
      cases R.find? (fun r => keq (kl l) (kr r)) <;> simp
    · intro l _ h; cases h

end Join4

/-! ### index moves -/

section Moves
variable {γ α : Type} [DecidableEq γ] [DecidableEq α]

theorem perm_of_nodup_mem_iff {β : Type} [DecidableEq β] {l1 l2 : List β} (h1 : l1.Nodup) (h2 : l2.Nodup)
    (h : ∀ a, a ∈ l1 ↔ a ∈ l2) : l1.Perm l2 := by
  rw [List.perm_iff_count]
  intro a
  rw [h1.count, h2.count]
  simp [h a]

theorem pick_range {β : Type} (r : List β) : pick r (List.range r.length) = r := by
  have := pick_filter_range (fun _ => true) r
  have e : (List.range r.length).filter (fun j => optTest (fun _ => true) r[j]?) = List.range r.length := by
    apply List.filter_eq_self.mpr
    intro j hj
    simp only [List.mem_range] at hj
    rw [List.getElem?_eq_getElem hj]; rfl
  rw [e] at this
  rw [this]
  exact List.filter_eq_self.mpr (fun _ _ => rfl)

theorem pick_perm {β : Type} (r : List β) {ps qs : List Nat} (h : ps.Perm qs) : (pick r ps).Perm (pick r qs) := by
  unfold pick
  exact h.filterMap _

/-- moving the selected cells to the front permutes the row: every cell stays in its row -/
theorem sel_rest_perm {β : Type} (r : List β) (js : List Nat) (hn : js.Nodup) (hb : ∀ j ∈ js, j < r.length) :
    (sel r js ++ rest r js).Perm r := by
  unfold sel rest
  have : pick r js ++ pick r ((List.range r.length).filter fun i => !js.contains i) =
      pick r (js ++ (List.range r.length).filter fun i => !js.contains i) := by
    simp [pick]
  rw [this]
  have hp : (js ++ (List.range r.length).filter fun i => !js.contains i).Perm (List.range r.length) := by
    apply perm_of_nodup_mem_iff
    · rw [List.nodup_append]
      refine ⟨hn, List.Nodup.sublist List.filter_sublist List.nodup_range, ?_⟩
      intro a ha b hb' e
      subst e
      simp only [List.mem_filter, List.contains_iff_mem] at hb'
      simp [ha] at hb'
    · exact List.nodup_range
    · intro a
      simp only [List.mem_append, List.mem_filter, List.mem_range, List.contains_iff_mem]
      constructor
      · rintro (h | h)
        · exact hb a h
        · exact h.1
      · intro h
        by_cases ha : a ∈ js
        · exact Or.inl ha
        · exact Or.inr ⟨h, by simp [ha]⟩
  have := pick_perm r hp
  rw [pick_range] at this
  exact this

theorem setIndex_ok {f g : Fr γ α} {c : γ} {drop : Bool} (h : setIndex f c drop = .ok g) :
    ∃ j, locToIloc f.columns c = .ok j ∧ g.indexNames = [c] ∧ g.index = f.rows.map (sel · [j]) ∧
      g.columns = (if drop then rest f.columns [j] else f.columns) ∧
      g.rows = (if drop then f.rows.map (rest · [j]) else f.rows) := by
  unfold setIndex at h
  simp only [bind, Except.bind] at h
  split at h
  · cases h
  · rename_i j hj
    split at h
    · cases h
    · simp only [pure, Except.pure, Except.ok.injEq] at h
      subst h
      exact ⟨j, hj, rfl, rfl, rfl, rfl⟩

theorem setIndexHierarchy_ok {f g : Fr γ α} {cs : List γ} {drop : Bool} (h : setIndexHierarchy f cs drop = .ok g) :
    ∃ js, cs.mapM (locToIloc f.columns) = .ok js ∧ g.indexNames = sel f.columns js ∧
      g.index = f.rows.map (sel · js) ∧
      g.columns = (if drop then rest f.columns js else f.columns) ∧
      g.rows = (if drop then f.rows.map (rest · js) else f.rows) := by
  unfold setIndexHierarchy at h
  simp only [bind, Except.bind] at h
  split at h
  · cases h
  · rename_i js hjs
    split at h
    · cases h
    · split at h
      · cases h
      · simp only [pure, Except.pure, Except.ok.injEq] at h
        subst h
        exact ⟨js, hjs, rfl, rfl, rfl, rfl⟩

theorem unsetIndex_ok {f h : Fr γ α} {auto : Nat → α} {an : γ} (hu : unsetIndex f [] auto an = .ok h) :
    h.indexNames = [an] ∧ h.index = autoIndex auto f.rows.length ∧
      h.columns = f.indexNames ++ f.columns ∧ h.rows = List.zipWith (· ++ ·) f.index f.rows := by
  unfold unsetIndex at hu
  simp only [List.isEmpty_nil, if_true] at hu
  split at hu
  · cases hu
  · simp only [Except.ok.injEq] at hu
    subst hu
    exact ⟨rfl, rfl, rfl, rfl⟩

theorem zipWith_map_map {β δ ε : Type} (f : δ → ε → β) (a : β → δ) (b : β → ε) (l : List β) :
    List.zipWith f (l.map a) (l.map b) = l.map fun x => f (a x) (b x) := by
  induction l with
  | nil => rfl
  | cons x xs ih => simp [ih]

theorem locToIloc_sel {cols : List γ} {c : γ} {j : Nat} (h : locToIloc cols c = .ok j) :
    j < cols.length ∧ sel cols [j] = [c] := by
  unfold locToIloc at h
  split at h
  · rename_i i hi
    simp only [Except.ok.injEq] at h
    subst h
    obtain ⟨hlt, hp, _⟩ := List.findIdx?_eq_some_iff_getElem.mp hi
    simp only [beq_iff_eq] at hp
    refine ⟨hlt, ?_⟩
    simp [sel, pick, List.getElem?_eq_getElem hlt, hp]
  · cases h

theorem mapM_locToIloc_bound {cols : List γ} : ∀ {cs : List γ} {js : List Nat},
    cs.mapM (locToIloc cols) = .ok js → ∀ j ∈ js, j < cols.length
  | [], js, h => by
    simp [List.mapM_nil, pure, Except.pure] at h; subst h; intro j hj; cases hj
  | c :: cs, js, h => by
    simp only [List.mapM_cons, bind, Except.bind] at h
    split at h
    · cases h
    · rename_i j hj
      split at h
      · cases h
      · rename_i js' hjs
        simp only [pure, Except.pure, Except.ok.injEq] at h
        subst h
        intro x hx
        simp only [List.mem_cons] at hx
        rcases hx with rfl | hx
        · exact (locToIloc_sel hj).1
        · exact mapM_locToIloc_bound hjs x hx

theorem sel_length {β : Type} (r : List β) (js : List Nat) (h : ∀ j ∈ js, j < r.length) :
    (sel r js).length = js.length := by
  induction js with
  | nil => rfl
  | cons j js ih =>
    have hj := h j (by simp)
    simp only [sel, pick_cons, List.getElem?_eq_getElem hj, List.length_append, List.length_cons,
      List.length_nil]
    have := ih (fun x hx => h x (by simp [hx]))
    simp only [sel] at this
    omega

theorem pick_append_range' {β : Type} : ∀ (b a : List β), pick (a ++ b) (List.range' a.length b.length) = b
  | [], a => by simp [pick]
  | x :: xs, a => by
    have hx : (a ++ x :: xs)[a.length]? = some x := by simp
    have ih := pick_append_range' xs (a ++ [x])
    simp only [List.append_assoc, List.singleton_append, List.length_append, List.length_cons,
      List.length_nil, Nat.zero_add] at ih
    simp only [List.length_cons, List.range'_succ, pick_cons, hx, List.singleton_append, ih]

theorem filter_range_not_range' (m n : Nat) :
    (List.range (m + n)).filter (fun i => !(List.range' m n).contains i) = List.range m := by
  rw [List.range_add, List.filter_append]
  have h1 : (List.range m).filter (fun i => !(List.range' m n).contains i) = List.range m := by
    apply List.filter_eq_self.mpr
    intro i hi
    simp only [List.mem_range] at hi
    simp only [Bool.not_eq_true', List.contains_eq_mem, List.mem_range'_1, decide_eq_false_iff_not]
    omega
  have h2 : ((List.range n).map (m + ·)).filter (fun i => !(List.range' m n).contains i) = [] := by
    apply List.filter_eq_nil_iff.mpr
    intro i hi
    simp only [List.mem_map, List.mem_range] at hi
    obtain ⟨k, hk, rfl⟩ := hi
    simp only [Bool.not_eq_true, Bool.not_eq_false', List.contains_eq_mem, List.mem_range'_1,
      decide_eq_true_eq]
    omega
  rw [h1, h2]; simp

theorem filterMap_congr' {β δ : Type} {f g : β → Option δ} : ∀ (l : List β), (∀ x ∈ l, f x = g x) →
    l.filterMap f = l.filterMap g
  | [], _ => rfl
  | x :: xs, h => by
    simp only [List.filterMap_cons, h x (by simp), filterMap_congr' xs (fun y hy => h y (by simp [hy]))]

theorem pick_append_left {β : Type} (a b : List β) : pick (a ++ b) (List.range a.length) = a := by
  have : pick (a ++ b) (List.range a.length) = pick a (List.range a.length) := by
    unfold pick
    apply filterMap_congr'
    intro i hi
    simp only [List.mem_range] at hi
    rw [List.getElem?_append_left hi]
  rw [this, pick_range]

theorem sel_append_range' {β : Type} (a b : List β) : sel (a ++ b) (List.range' a.length b.length) = b :=
  pick_append_range' b a

theorem rest_append_range' {β : Type} (a b : List β) : rest (a ++ b) (List.range' a.length b.length) = a := by
  unfold rest
  rw [List.length_append, filter_range_not_range', pick_append_left]

end Moves

section Moves2
variable {γ α : Type} [DecidableEq γ] [DecidableEq α]

theorem relabelShiftIn_ok {f g : Fr γ α} {cs : List γ} (h : relabelShiftIn f cs = .ok g) :
    ∃ js, cs.mapM (locToIloc f.columns) = .ok js ∧ g.indexNames = f.indexNames ++ sel f.columns js ∧
      g.index = List.zipWith (fun l r => l ++ sel r js) f.index f.rows ∧
      g.columns = rest f.columns js ∧ g.rows = f.rows.map (rest · js) := by
  unfold relabelShiftIn at h
  simp only [bind, Except.bind] at h
  split at h
  · cases h
  · rename_i js hjs
    split at h
    · cases h
    · simp only [pure, Except.pure, Except.ok.injEq] at h
      subst h
      exact ⟨js, hjs, rfl, rfl, rfl, rfl⟩

theorem relabelShiftOut_ok {g h : Fr γ α} {ds : List Nat} {auto : Nat → α} {an : γ}
    (hu : relabelShiftOut g ds auto an = .ok h) (hne : (rest g.indexNames ds).isEmpty = false) :
    h.indexNames = rest g.indexNames ds ∧ h.index = g.index.map (rest · ds) ∧
      h.columns = sel g.indexNames ds ++ g.columns ∧
      h.rows = List.zipWith (fun l r => sel l ds ++ r) g.index g.rows := by
  unfold relabelShiftOut at hu
  dsimp only at hu
  split at hu
  · cases hu
  · split at hu
    · cases hu
    · simp only [hne, Bool.not_false, if_true, Bool.false_eq_true, if_false, bind, Except.bind] at hu
      split at hu
      · cases hu
      · simp only [pure, Except.pure, Except.ok.injEq] at hu
        subst hu
        exact ⟨rfl, rfl, rfl, rfl⟩

theorem shift_index (d : Nat) (js : List Nat) : ∀ (I Rw : List (List α)), I.length = Rw.length →
    (∀ l ∈ I, l.length = d) → (∀ r ∈ Rw, ∀ j ∈ js, j < r.length) →
    (List.zipWith (fun l r => l ++ sel r js) I Rw).map (rest · (List.range' d js.length)) = I
  | [], [], _, _, _ => rfl
  | [], _ :: _, h, _, _ => by simp at h
  | _ :: _, [], h, _, _ => by simp at h
  | l :: I, r :: Rw, h, hl, hr => by
    have ih := shift_index d js I Rw (by simpa using h) (fun x hx => hl x (by simp [hx]))
      (fun x hx => hr x (by simp [hx]))
    have e : rest (l ++ sel r js) (List.range' d js.length) = l := by
      have := rest_append_range' l (sel r js)
      rw [hl l (by simp), sel_length r js (hr r (by simp))] at this
      exact this
    simp only [List.zipWith_cons_cons, List.map_cons, e, ih]

theorem shift_rows (d : Nat) (js : List Nat) : ∀ (I Rw : List (List α)), I.length = Rw.length →
    (∀ l ∈ I, l.length = d) → (∀ r ∈ Rw, ∀ j ∈ js, j < r.length) →
    List.zipWith (fun l r => sel l (List.range' d js.length) ++ r)
      (List.zipWith (fun l r => l ++ sel r js) I Rw) (Rw.map (rest · js)) =
      Rw.map fun r => sel r js ++ rest r js
  | [], [], _, _, _ => rfl
  | [], _ :: _, h, _, _ => by simp at h
  | _ :: _, [], h, _, _ => by simp at h
  | l :: I, r :: Rw, h, hl, hr => by
    have ih := shift_rows d js I Rw (by simpa using h) (fun x hx => hl x (by simp [hx]))
      (fun x hx => hr x (by simp [hx]))
    have e : sel (l ++ sel r js) (List.range' d js.length) = sel r js := by
      have := sel_append_range' l (sel r js)
      rw [hl l (by simp), sel_length r js (hr r (by simp))] at this
      exact this
    simp only [List.zipWith_cons_cons, List.map_cons, e, ih]

end Moves2

/-! ### pivot -/

section Pivot
variable {γ α : Type} [DecidableEq γ] [DecidableEq α]

theorem nodupB_cons {β : Type} [DecidableEq β] (x : β) (xs : List β) :
    nodupB (x :: xs) = true ↔ x ∉ xs ∧ nodupB xs = true := by
  simp [nodupB]

/-- with unique keys, filtering on a key finds at most the one row `find?` finds -/
theorem filter_key_of_nodup {β : Type} (key : β → List α) (k : List α) : ∀ (l : List β),
    nodupB (l.map key) = true → l.filter (fun r => key r == k) = (l.find? (fun r => key r == k)).toList
  | [], _ => rfl
  | x :: xs, h => by
    rw [List.map_cons, nodupB_cons] at h
    have ih := filter_key_of_nodup key k xs h.2
    simp only [List.filter_cons, List.find?_cons]
    by_cases hx : key x = k
    · have e : (key x == k) = true := by simp [hx]
      simp only [e, if_true, Option.toList_some]
      congr 1
      apply List.filter_eq_nil_iff.mpr
      intro y hy
      simp only [beq_iff_eq]
      intro hyk
      apply h.1
      rw [hx, ← hyk]
      exact List.mem_map_of_mem hy
    · have e : (key x == k) = false := by simp [hx]
      simp only [e, Bool.false_eq_true, if_false]
      exact ih

theorem flatMap_const_replicate {β δ : Type} (a : δ) : ∀ (l : List β), (l.map fun _ => a) = List.replicate l.length a
  | [] => rfl
  | _ :: xs => by simp [flatMap_const_replicate a xs, List.replicate_succ]

theorem flatMap_congr' {β δ : Type} {f g : β → List δ} : ∀ (l : List β), (∀ x ∈ l, f x = g x) →
    l.flatMap f = l.flatMap g
  | [], _ => rfl
  | x :: xs, h => by
    simp only [List.flatMap_cons, h x (by simp), flatMap_congr' xs (fun y hy => h y (by simp [hy]))]

theorem fill_block {δ : Type} (dj : List Nat) (funcs : List δ) (fill : α) :
    (dj.flatMap fun _ => funcs.map fun _ => fill) = List.replicate (dj.length * funcs.length) fill := by
  induction dj with
  | nil => simp
  | cons j js ih =>
    simp only [List.flatMap_cons, ih, List.length_cons]
    rw [flatMap_const_replicate, List.replicate_append_replicate]
    congr 1
    rw [Nat.add_mul, Nat.one_mul, Nat.add_comm]

theorem aggOne_singleton (fn : List α → α) (v : α) : aggOne fn [v] = v := rfl

/-- the block `from_concat` takes from the sub-frame of group `g` for index value `k` (or the fill
    block) is the relational block: both construction branches of the sub-frame agree with it -/
theorem subFrame_block (uniq : List (List α) → List (List α)) (hu : UniqSpec uniq) (f : Fr γ α)
    (ij cj dj : List Nat) (funcs : List (γ × (List α → α))) (fill : α) (k g : List α)
    (hdj : ∀ r ∈ f.rows, ∀ j ∈ dj, j < r.length) :
    (match (subFrame ij dj funcs uniq (f.rows.filter fun r => sel r cj == g)).find? (fun p => p.1 == k) with
      | some p => p.2
      | none => List.replicate (dj.length * funcs.length) fill) =
    pivotBlock f ij cj dj funcs fill k g := by
  have hsrc : (f.rows.filter fun r => sel r ij == k && sel r cj == g) =
      (f.rows.filter fun r => sel r cj == g).filter fun r => sel r ij == k := by
    rw [List.filter_filter]
  generalize hsub : (f.rows.filter fun r => sel r cj == g) = sub at hsrc
  have hsubmem : ∀ r ∈ sub, r ∈ f.rows := fun r hr => by
    rw [← hsub] at hr; exact (List.mem_filter.mp hr).1
  unfold pivotBlock subFrame
  dsimp only
  by_cases hnd : nodupB (sub.map (sel · ij)) = true
  · -- labels unique: raw rows
    simp only [hnd, Bool.not_true, Bool.false_eq_true, if_false]
    rw [List.find?_map]
    have hf := filter_key_of_nodup (fun r => sel r ij) k sub hnd
    cases hfind : sub.find? ((fun p : List α × List α => p.1 == k) ∘ fun r => (sel r ij, rawRecord dj funcs r)) with
    | none =>
      have hfind' : sub.find? (fun r => sel r ij == k) = none := hfind
      simp only [Option.map_none]
      have hf : sub.filter (fun r => sel r ij == k) = [] := by rw [hf, hfind']; rfl
      unfold pivotCell
      simp only [hsrc, hf, List.isEmpty_nil, if_true]
      exact (fill_block dj funcs fill).symm
    | some r =>
      have hfind' : sub.find? (fun r => sel r ij == k) = some r := hfind
      have hr : r ∈ f.rows := hsubmem r (List.mem_of_find?_eq_some hfind')
      simp only [Option.map_some]
      have hf : sub.filter (fun r => sel r ij == k) = [r] := by rw [hf, hfind']; rfl
      unfold pivotCell rawRecord
      simp only [hsrc, hf, List.isEmpty_cons, Bool.false_eq_true, if_false, List.flatMap_cons, List.flatMap_nil,
        List.append_nil]
      apply flatMap_congr'
      intro j hj
      have hjr := hdj r hr j hj
      have hs : sel r [j] = [r[j]] := by simp [sel, pick, List.getElem?_eq_getElem hjr]
      rw [hs]
      simp only [aggOne_singleton]
      clear hfind
      induction funcs with
      | nil => rfl
      | cons fn fns ih => simp [ih]
  · -- repeated labels: aggregate by group
    simp only [hnd, Bool.not_false, if_true]
    rw [List.find?_map]
    obtain ⟨hun, hum⟩ := hu (sub.map (sel · ij))
    by_cases hk : k ∈ sub.map (sel · ij)
    · have hk' : k ∈ uniq (sub.map (sel · ij)) := (hum k).mpr hk
      have hfind : (uniq (sub.map (sel · ij))).find?
          ((fun p : List α × List α => p.1 == k) ∘ fun k' => (k', record dj funcs (sub.filter fun r => sel r ij == k'))) = some k := by
        have : ∃ b, (uniq (sub.map (sel · ij))).find? (fun k' => k' == k) = some b :=
          find?_isSome_of_any _ _ (List.any_eq_true.mpr ⟨k, hk', by simp⟩)
        obtain ⟨b, hb⟩ := this
        have hbk := List.find?_some hb
        simp only [beq_iff_eq] at hbk
        subst hbk
        exact hb
      rw [hfind]
      simp only [Option.map_some]
      unfold record pivotCell
      have hne : (sub.filter fun r => sel r ij == k).isEmpty = false := by
        rw [filter_isEmpty]
        simp only [List.mem_map] at hk
        obtain ⟨r, hr, hrk⟩ := hk
        simp only [Bool.not_eq_false', List.any_eq_true]
        exact ⟨r, hr, by simp [hrk]⟩
      simp only [hsrc, hne, Bool.false_eq_true, if_false]
    · have hk' : k ∉ uniq (sub.map (sel · ij)) := fun h => hk ((hum k).mp h)
      have hfind : (uniq (sub.map (sel · ij))).find?
          ((fun p : List α × List α => p.1 == k) ∘ fun k' => (k', record dj funcs (sub.filter fun r => sel r ij == k'))) = none := by
        rw [List.find?_eq_none]
        intro x hx
        simp only [Function.comp, beq_iff_eq]
        intro e; subst e; exact hk' hx
      rw [hfind]
      simp only [Option.map_none]
      have he : (sub.filter fun r => sel r ij == k) = [] := by
        apply List.filter_eq_nil_iff.mpr
        intro r hr
        simp only [beq_iff_eq]
        intro e
        exact hk (e ▸ List.mem_map_of_mem hr)
      unfold pivotCell
      simp only [hsrc, he, List.isEmpty_nil, if_true]
      exact (fill_block dj funcs fill).symm

theorem aggOne_eq_of_idem (fn : List α → α) (h : ∀ v, fn [v] = v) : aggOne fn = fn := by
  funext vals
  unfold aggOne
  split
  · rename_i v; exact (h v).symm
  · rfl

/-- refinement: the mirrored `Frame.pivot` (columns fields given) computes the relational pivot -/
theorem pivot_eq_spec (uniq : List (List α) → List (List α)) (hu : UniqSpec uniq) (f : Fr γ α)
    (wf : ∀ r ∈ f.rows, r.length = f.columns.length)
    (ifs cfs dfs : List γ) (funcs : List (γ × (List α → α))) (fill : α) (ij cj dj : List Nat)
    (hfun : funcs.isEmpty = false) (hifs : ifs.isEmpty = false) (hcfs : cfs.isEmpty = false)
    (hval : (ifs ++ cfs).any (fun c => !f.columns.contains c) = false)
    (hdata : (pivotData f ifs cfs dfs).isEmpty = false)
    (hij : ifs.mapM (locToIloc f.columns) = .ok ij) (hcj : cfs.mapM (locToIloc f.columns) = .ok cj)
    (hdj : (pivotData f ifs cfs dfs).mapM (locToIloc f.columns) = .ok dj) :
    pivot uniq f ifs cfs dfs funcs fill = .ok
      { index := uniq (f.rows.map (sel · ij)),
        columns := (uniq (f.rows.map (sel · cj))).flatMap fun g =>
          extrapolate cfs.length g (pivotData f ifs cfs dfs) (funcFieldsOf funcs),
        rows := (uniq (f.rows.map (sel · ij))).map fun k =>
          (uniq (f.rows.map (sel · cj))).flatMap fun g => pivotBlock f ij cj dj funcs fill k g } := by
  have hb : ∀ r ∈ f.rows, ∀ j ∈ dj, j < r.length := fun r hr j hj => by
    rw [wf r hr]; exact mapM_locToIloc_bound hdj j hj
  unfold pivot
  simp only [hfun, hifs, Bool.or_self, Bool.false_eq_true, if_false, hval, hdata, hij, hcj, hdj, hcfs,
    bind, Except.bind, pure, Except.pure]
  congr 2
  apply List.map_congr_left
  intro k _
  rw [List.flatMap_map]
  apply flatMap_congr'
  intro g _
  exact subFrame_block uniq hu f ij cj dj funcs fill k g hb

/-- refinement, no columns fields: one row per distinct index value, one column per data field x
    function, each cell the aggregate of exactly the rows with that index value -/
theorem pivot_eq_spec_no_columns (uniq : List (List α) → List (List α)) (hu : UniqSpec uniq) (f : Fr γ α)
    (ifs dfs : List γ) (funcs : List (γ × (List α → α))) (fill : α) (ij dj : List Nat)
    (hfun : funcs.isEmpty = false) (hifs : ifs.isEmpty = false)
    (hval : (ifs ++ []).any (fun c => !f.columns.contains c) = false)
    (hdata : (pivotData f ifs [] dfs).isEmpty = false)
    (hij : ifs.mapM (locToIloc f.columns) = .ok ij)
    (hdj : (pivotData f ifs [] dfs).mapM (locToIloc f.columns) = .ok dj) :
    pivot uniq f ifs [] dfs funcs fill = .ok
      { index := uniq (f.rows.map (sel · ij)),
        columns :=
          if (funcFieldsOf funcs).isEmpty then (pivotData f ifs [] dfs).map fun d => [PLab.fld d]
          else (pivotData f ifs [] dfs).flatMap fun d => (funcFieldsOf funcs).map fun fn => [PLab.fld d, PLab.fld fn],
        rows := (uniq (f.rows.map (sel · ij))).map fun k => pivotBlock f ij [] dj funcs fill k [] } := by
  unfold pivot
  simp only [hfun, hifs, Bool.or_self, Bool.false_eq_true, if_false, hval, hdata, hij, hdj, List.mapM_nil,
    List.isEmpty_nil, if_true, bind, Except.bind, pure, Except.pure]
  congr 2
  apply List.map_congr_left
  intro k hk
  have hk' : k ∈ f.rows.map (sel · ij) := ((hu _).2 k).mp hk
  unfold record pivotBlock pivotCell
  have hsel : ∀ r : List α, (sel r ([] : List Nat) == ([] : List α)) = true := fun r => by simp [sel, pick]
  have hflt : (f.rows.filter fun r => sel r ij == k && sel r [] == []) = f.rows.filter fun r => sel r ij == k := by
    apply List.filter_congr
    intro r _
    rw [hsel r, Bool.and_true]
  have hne : (f.rows.filter fun r => sel r ij == k).isEmpty = false := by
    rw [filter_isEmpty]
    simp only [List.mem_map] at hk'
    obtain ⟨r, hr, hrk⟩ := hk'
    simp only [Bool.not_eq_false', List.any_eq_true]
    exact ⟨r, hr, by simp [hrk]⟩
  simp only [hflt, hne, Bool.false_eq_true, if_false]

end Pivot

/-! ### pivot_stack / pivot_unstack -/

section Stack
variable {α : Type} [DecidableEq α]

theorem lookup_cons_if {β : Type} (a k : List α) (b : β) (as : List (List α × β)) :
    List.lookup a ((k, b) :: as) = if a = k then some b else List.lookup a as := by
  rw [List.lookup_cons]
  by_cases h : a = k
  · have e : (a == k) = true := by simp [h]
    simp [e, h]
  · have e : (a == k) = false := by simp [h]
    simp [e, h]

theorem lookup_tmInsert (tm : List (List α × Nat)) (t t' : List α) (i : Nat) :
    (tmInsert tm t i).lookup t' = if t' = t then some i else tm.lookup t' := by
  induction tm with
  | nil => simp [tmInsert, lookup_cons_if]
  | cons p rest ih =>
    obtain ⟨a, v⟩ := p
    by_cases ha : a = t
    · subst ha
      by_cases h : t' = a <;> simp [tmInsert, lookup_cons_if, h]
    · by_cases h : t' = a
      · subst h
        simp [tmInsert, lookup_cons_if, ha]
      · simp [tmInsert, lookup_cons_if, ha, h, ih]

theorem lookup2_g2tInsert (m : List (List α × List (List α × Nat))) (g t g' t' : List α) (i : Nat) :
    lookup2 (g2tInsert m g t i) g' t' = if g' = g ∧ t' = t then some i else lookup2 m g' t' := by
  induction m with
  | nil =>
    by_cases hg : g' = g
    · subst hg
      by_cases ht : t' = t <;> simp [g2tInsert, lookup2, lookup_cons_if, ht]
    · simp [g2tInsert, lookup2, lookup_cons_if, hg]
  | cons p rest ih =>
    obtain ⟨a, tm⟩ := p
    by_cases ha : a = g
    · subst ha
      by_cases hg : g' = a
      · subst hg
        simp [g2tInsert, lookup2, lookup_cons_if, lookup_tmInsert]
      · simp [g2tInsert, lookup2, lookup_cons_if, hg]
    · by_cases hg : g' = a
      · subst hg
        simp [g2tInsert, lookup2, lookup_cons_if, ha]
      · have := ih
        simp only [lookup2] at this
        simp [g2tInsert, lookup2, lookup_cons_if, ha, hg, this]

/-- soundness of `pivot_index_map`: a registered position carries that (group, target) -/
theorem pimLoop_sound (mask : List Bool) : ∀ (ls pre : List (List α)) (m : List (List α × List (List α × Nat))),
    (∀ g t c, lookup2 m g t = some c → ∃ l, pre[c]? = some l ∧ split mask l = (g, t)) →
    ∀ g t c, lookup2 (pimLoop mask pre.length ls m) g t = some c →
      ∃ l, (pre ++ ls)[c]? = some l ∧ split mask l = (g, t)
  | [], pre, m, hm, g, t, c, h => by
    simp only [pimLoop] at h
    simpa using hm g t c h
  | x :: xs, pre, m, hm, g, t, c, h => by
    simp only [pimLoop] at h
    have := pimLoop_sound mask xs (pre ++ [x]) (g2tInsert m (maskSel mask false x) (maskSel mask true x) pre.length)
      (by
        intro g' t' c' h'
        rw [lookup2_g2tInsert] at h'
        split at h'
        · rename_i hgt
          simp only [Option.some.injEq] at h'
          subst h'
          exact ⟨x, by simp, by simp [split, hgt.1, hgt.2]⟩
        · obtain ⟨l, hl, hs⟩ := hm g' t' c' h'
          have hc : c' < pre.length := (List.getElem?_eq_some_iff.mp hl).1
          exact ⟨l, by rw [List.getElem?_append_left hc]; exact hl, hs⟩)
      g t c (by simpa using h)
    simpa using this

/-- completeness: every label is registered under its (group, target), at a position whose label
    has the same (group, target) — its own position when labels with equal split are equal -/
theorem pimLoop_complete (mask : List Bool) : ∀ (ls pre : List (List α)) (m : List (List α × List (List α × Nat))),
    (∀ l ∈ pre, ∃ c, lookup2 m (split mask l).1 (split mask l).2 = some c) →
    ∀ l ∈ pre ++ ls, ∃ c, lookup2 (pimLoop mask pre.length ls m) (split mask l).1 (split mask l).2 = some c
  | [], pre, m, hm, l, hl => by
    simp only [pimLoop]
    exact hm l (by simpa using hl)
  | x :: xs, pre, m, hm, l, hl => by
    simp only [pimLoop]
    have := pimLoop_complete mask xs (pre ++ [x]) (g2tInsert m (maskSel mask false x) (maskSel mask true x) pre.length)
      (by
        intro l' hl'
        rw [lookup2_g2tInsert]
        split
        · exact ⟨_, rfl⟩
        · simp only [List.mem_append, List.mem_singleton] at hl'
          rcases hl' with h | rfl
          · exact hm l' h
          · rename_i hne
            exact (hne ⟨rfl, rfl⟩).elim)
      l (by simpa using hl)
    simpa using this

theorem g2tOf_sound (mask : List Bool) (labels : List (List α)) (g t : List α) (c : Nat)
    (h : lookup2 (g2tOf mask labels) g t = some c) : ∃ l, labels[c]? = some l ∧ split mask l = (g, t) := by
  have := pimLoop_sound mask labels [] [] (by intro g t c h; simp [lookup2] at h) g t c (by simpa [g2tOf] using h)
  simpa using this

theorem g2tOf_complete (mask : List Bool) (labels : List (List α)) (l : List α) (hl : l ∈ labels) :
    ∃ c, lookup2 (g2tOf mask labels) (split mask l).1 (split mask l).2 = some c := by
  have := pimLoop_complete mask labels [] [] (by intro l h; cases h) l (by simpa using hl)
  simpa [g2tOf] using this

theorem mapM_ok_getElem {ε β δ : Type} {f : β → Except ε δ} : ∀ {l : List β} {r : List δ}, l.mapM f = .ok r →
    r.length = l.length ∧ ∀ (p : Nat) x y, l[p]? = some x → r[p]? = some y → f x = .ok y
  | [], r, h => by
    simp [List.mapM_nil, pure, Except.pure] at h
    subst h
    exact ⟨rfl, by intro p x y hx; simp at hx⟩
  | a :: as, r, h => by
    simp only [List.mapM_cons, bind, Except.bind] at h
    split at h
    · cases h
    · rename_i v hv
      split at h
      · cases h
      · rename_i vs hvs
        simp only [pure, Except.pure, Except.ok.injEq] at h
        subst h
        obtain ⟨hl, hp⟩ := mapM_ok_getElem hvs
        refine ⟨by simp [hl], ?_⟩
        intro p x y hx hy
        cases p with
        | zero =>
          simp only [List.getElem?_cons_zero, Option.some.injEq] at hx hy
          subst hx; subst hy; exact hv
        | succ p =>
          simp only [List.getElem?_cons_succ] at hx hy
          exact hp p x y hx hy

theorem g2tInsert_keys (m : List (List α × List (List α × Nat))) (g t : List α) (i : Nat) :
    (g2tInsert m g t i).map (·.1) = if g ∈ m.map (·.1) then m.map (·.1) else m.map (·.1) ++ [g] := by
  induction m with
  | nil => simp [g2tInsert]
  | cons p rest ih =>
    obtain ⟨a, tm⟩ := p
    by_cases ha : a = g
    · subst ha; simp [g2tInsert]
    · have hne : ¬ g = a := fun h => ha h.symm
      simp only [g2tInsert, ha, if_false, List.map_cons, ih, List.mem_cons, hne, false_or]
      split <;> simp

theorem pimLoop_keys_nodup (mask : List Bool) : ∀ (ls : List (List α)) (s : Nat) (m : List (List α × List (List α × Nat))),
    (m.map (·.1)).Nodup → ((pimLoop mask s ls m).map (·.1)).Nodup
  | [], _, m, h => by simpa [pimLoop] using h
  | x :: xs, s, m, h => by
    simp only [pimLoop]
    apply pimLoop_keys_nodup mask xs
    rw [g2tInsert_keys]
    split
    · exact h
    · rename_i hn
      rw [List.nodup_append]
      refine ⟨h, by simp, ?_⟩
      intro a ha b hb e
      simp only [List.mem_singleton] at hb
      subst hb; subst e
      exact hn ha

theorem g2tOf_keys_nodup (mask : List Bool) (labels : List (List α)) : ((g2tOf mask labels).map (·.1)).Nodup :=
  pimLoop_keys_nodup mask labels 0 [] (by simp)

theorem lookup_of_mem_nodup {β : Type} : ∀ {m : List (List α × β)} {gt : List α × β}, (m.map (·.1)).Nodup → gt ∈ m →
    m.lookup gt.1 = some gt.2
  | [], _, _, h => by cases h
  | (a, b) :: rest, gt, hn, h => by
    simp only [List.map_cons, List.nodup_cons] at hn
    simp only [List.mem_cons] at h
    rw [lookup_cons_if]
    rcases h with rfl | h
    · simp
    · have hne : ¬ gt.1 = a := by
        intro e; apply hn.1; rw [← e]; exact List.mem_map_of_mem h
      simp only [hne, if_false]
      exact lookup_of_mem_nodup hn.2 h

/-- one entry of a record: a source cell registered under (group, target), or the fill value when
    no label of the contracted axis has that (group, target) -/
theorem pimRecord_spec (mask : List Bool) (labels : List (List α)) (t : List α) (get : Nat → Option α) (fill : α)
    (row : List α) (h : pimRecord (g2tOf mask labels) t get fill = .ok row) :
    row.length = (g2tOf mask labels).length ∧
    ∀ (p : Nat) gt v, (g2tOf mask labels)[p]? = some gt → row[p]? = some v →
      (∃ c l, labels[c]? = some l ∧ split mask l = (gt.1, t) ∧ get c = some v) ∨
      (v = fill ∧ ∀ l ∈ labels, split mask l ≠ (gt.1, t)) := by
  unfold pimRecord at h
  obtain ⟨hlen, hp⟩ := mapM_ok_getElem h
  refine ⟨hlen, ?_⟩
  intro p gt v hgt hv
  have hmem : gt ∈ g2tOf mask labels := List.mem_of_getElem? hgt
  have hlk : (g2tOf mask labels).lookup gt.1 = some gt.2 := lookup_of_mem_nodup (g2tOf_keys_nodup mask labels) hmem
  have hl2 : lookup2 (g2tOf mask labels) gt.1 t = gt.2.lookup t := by simp [lookup2, hlk]
  have := hp p gt v hgt hv
  split at this
  · rename_i idx hidx
    split at this
    · rename_i w hw
      simp only [Except.ok.injEq] at this
      subst this
      obtain ⟨l, hl, hs⟩ := g2tOf_sound mask labels gt.1 t idx (by rw [hl2]; exact hidx)
      exact Or.inl ⟨idx, l, hl, hs, hw⟩
    · cases this
  · rename_i hnone
    simp only [Except.ok.injEq] at this
    subst this
    refine Or.inr ⟨rfl, ?_⟩
    intro l hl hs
    obtain ⟨c, hc⟩ := g2tOf_complete mask labels l hl
    rw [hs] at hc
    simp only at hc
    rw [hl2, hnone] at hc
    cases hc

theorem pivotStack_ok {f s : HFr α} {mask : List Bool} {fill : α} {auto : Nat → α}
    (h : pivotStack f mask fill auto = .ok s) :
    s.index = (expandKeys f.index (targetsUnique mask f.columns)).map (·.1) ∧
    (expandKeys f.index (targetsUnique mask f.columns)).mapM (fun (k : List α × Nat × List α) =>
      pimRecord (g2tOf mask f.columns) k.2.2 (fun c => cellAt f.rows k.2.1 c) fill) = .ok s.rows := by
  unfold pivotStack at h
  dsimp only at h
  split at h
  · cases h
  · rename_i recs hrecs
    simp only [Except.ok.injEq] at h
    subst h
    exact ⟨rfl, hrecs⟩

theorem pivotUnstack_ok {f s : HFr α} {mask : List Bool} {fill : α} {auto : Nat → α}
    (h : pivotUnstack f mask fill auto = .ok s) :
    s.columns = (expandKeys f.columns (targetsUnique mask f.index)).map (·.1) ∧
    ∃ cols, (expandKeys f.columns (targetsUnique mask f.index)).mapM (fun (k : List α × Nat × List α) =>
      pimRecord (g2tOf mask f.index) k.2.2 (fun r => cellAt f.rows r k.2.1) fill) = .ok cols ∧
      s.rows = (List.range (g2tOf mask f.index).length).map fun i => cols.filterMap fun col => col[i]? := by
  unfold pivotUnstack at h
  dsimp only at h
  split at h
  · cases h
  · rename_i cols hcols
    simp only [Except.ok.injEq] at h
    subst h
    exact ⟨rfl, cols, hcols, rfl⟩

end Stack

end SF.Rel
