/- Helper lemmas for SFModel.BlocksResize, part 7: glue for the property theorems (typed columns as
   `dtypes.zip cols`, the rows-only branch block by block, the cell-level statement in terms of labels). -/
import SFModel.BlocksResizeLemmas6

namespace SF
open SetOps (IC gather scatter dstToSrc mapMExcept Idx PyOrd lookup fromCorrespondence AxisOk)

variable {α : Type}

theorem colsDT_zip (bs : List (Block α)) :
    colsDT bs = (bs.flatMap (fun b => List.replicate b.width b.dt)).zip (bs.flatMap Block.colsOf) := by
  induction bs with
  | nil => rfl
  | cons b bs ih =>
    simp only [colsDT_cons, List.flatMap_cons, ih]
    rw [List.zip_append (by simp)]
    congr 1
    simp only [Block.colsDT]
    apply List.ext_getElem
    · simp
    · intro i h1 h2
      simp

theorem TB.colsDT_zip (tb : TB α) : colsDT tb.blocks = tb.dtypes.zip tb.cols := SF.colsDT_zip tb.blocks

theorem gather_eq_pick {β : Type} {l : List β} {is : List Nat} {g : List β} (h : gather l is = some g) :
    g = pick l is := by
  induction is generalizing g with
  | nil => simp [gather] at h; subst h; rfl
  | cons i is ih =>
    unfold gather at h
    split at h
    · rename_i v r hv hr
      cases h
      have := ih hr
      simp only [pick] at this
      simp [pick, hv, ← this]
    · cases h

section env
variable (resolve : DT → DT → DT) (conv : DT → DT → α → α)

/-- branch (2) block by block -/
theorem TB.resizeBlocks_rows_eq (tb : TB α) (hwf : tb.WF) (ic : IC) (hi : ic.WF tb.rows) (fill : α) (fillDT : DT) :
    tb.resizeBlocks resolve conv (some ic) none fill fillDT =
      .ok (tb.blocks.map (blockT resolve conv ic fill fillDT)) := by
  unfold TB.resizeBlocks
  exact SetOps.mapMExcept_ok
    (fun b hb => (Block.resizeRows_ok resolve conv hi fill fillDT b (hwf.2 b hb)).1)

theorem blockT_shape (ic : IC) (fill : α) (fillDT : DT) (b : Block α) :
    (blockT resolve conv ic fill fillDT b).is1d = b.is1d ∧
      (blockT resolve conv ic fill fillDT b).width = b.width ∧
      (blockT resolve conv ic fill fillDT b).dt = rowsDT resolve ic b.dt fillDT := by
  cases b <;> simp [blockT, Block.is1d, Block.width, Block.dt]

/-- a subset selection of rows reads the source cells at `iloc_src`, in the order given -/
theorem colT_subset_pick {ic : IC} {n : Nat} (hic : ic.WF n) (hs : ic.isSubset = true) (fill : α) (fillDT : DT)
    (x : DT × List α) (hx : x.2.length = n) :
    colT resolve conv (some ic) fill fillDT x = (x.1, pick x.2 ic.ilocSrc) := by
  obtain ⟨h1, h2⟩ := colT_subset resolve conv hic hs fill fillDT x.1 x.2 hx
  have hg : gather x.2 ic.ilocSrc = some (colT resolve conv (some ic) fill fillDT x).2 := by
    unfold gatherE at h1
    cases hgg : gather x.2 ic.ilocSrc with
    | none => rw [hgg] at h1; cases h1
    | some g => rw [hgg] at h1; simp only [Except.ok.injEq] at h1; rw [h1]
  exact Prod.ext h2 (gather_eq_pick hg)

end env

/-! ### the reindexed TypeBlocks in terms of labels -/

section cells
variable {κ : Type} [DecidableEq κ] (resolve : DT → DT → DT) (conv : DT → DT → α → α)

theorem axisOk_optWF {o : PyOrd κ} (ho : o.Lawful) (cur ni : Idx κ) (hcur : cur.labels.Nodup)
    (hni : ni.labels.Nodup) (oic : Option IC) (h : AxisOk o cur ni oic) :
    SetOps.OptWF oic cur.labels.length ∧ SetOps.newLen oic cur.labels.length = ni.labels.length := by
  cases oic with
  | none =>
    simp only [AxisOk] at h
    exact ⟨trivial, by simp [SetOps.newLen, h]⟩
  | some ic =>
    simp only [AxisOk] at h
    exact SetOps.fromCorrespondence_wf' ho cur ni hcur hni h

/-- THE SPECIFICATION in terms of labels: under each new column label, the typed column that
    results from the source column of that label (dtype by the rule, cells label-wise), or the fill
    column. -/
theorem resizeSpec_labels {o : PyOrd κ} (ho : o.Lawful) (index columns ni nc : Idx κ)
    (hidx : index.labels.Nodup) (hcol : columns.labels.Nodup) (hni : ni.labels.Nodup) (hnc : nc.labels.Nodup)
    (iic cic : Option IC) (hi : AxisOk o index ni iic) (hc : AxisOk o columns nc cic)
    (fill : α) (fillDT : DT) (cols : List (DT × List α)) (hn : cols.length = columns.labels.length)
    (hr : ∀ x ∈ cols, x.2.length = index.labels.length) (L : List (DT × List α))
    (hL : resizeSpec resolve conv index.labels.length iic cic fill fillDT cols = .ok L) :
    ∀ c ∈ nc.labels, ∃ y, lookup nc.labels L c = some y ∧
      match lookup columns.labels cols c with
      | none => y = fillColDT conv ni.labels.length fill fillDT
      | some x => y.1 = rowDT resolve iic fillDT x.1 ∧
          ∀ r ∈ ni.labels, lookup ni.labels y.2 r =
            some (match lookup index.labels x.2 r with
                  | some v => rowCv resolve conv iic fillDT x.1 v
                  | none => conv fillDT y.1 fill) := by
  obtain ⟨hiwf, hilen⟩ := axisOk_optWF ho index ni hidx hni iic hi
  have hG : ∀ x ∈ cols, resizeColDT resolve conv iic fill fillDT x = .ok (colT resolve conv iic fill fillDT x) :=
    fun x hx => (resizeColDT_eq_colT resolve conv hiwf fill fillDT x (hr x hx)).1
  have hcolT : ∀ x ∈ cols, (colT resolve conv iic fill fillDT x).1 = rowDT resolve iic fillDT x.1 ∧
      ∀ r ∈ ni.labels, lookup ni.labels (colT resolve conv iic fill fillDT x).2 r =
        some (match lookup index.labels x.2 r with
              | some v => rowCv resolve conv iic fillDT x.1 v
              | none => conv fillDT (colT resolve conv iic fill fillDT x).1 fill) :=
    fun x hx => ⟨(resizeColDT_eq_colT resolve conv hiwf fill fillDT x (hr x hx)).2.1,
      fun r hr' => colT_cells resolve conv ho index ni hidx hni iic hi fill fillDT x (hr x hx) r hr'⟩
  have hmem : ∀ c x, lookup columns.labels cols c = some x → x ∈ cols := by
    intro c x hx
    by_cases hm : c ∈ columns.labels
    · rw [SetOps.lookup_of_mem hm] at hx; exact List.mem_of_getElem? hx
    · rw [SetOps.lookup_of_not_mem hm] at hx; cases hx
  intro c hcm
  cases cic with
  | none =>
    simp only [AxisOk] at hc
    have hL' : resizeSpec resolve conv index.labels.length iic none fill fillDT cols =
        .ok (cols.map (colT resolve conv iic fill fillDT)) := by
      unfold resizeSpec; exact SetOps.mapMExcept_ok hG
    rw [hL'] at hL
    simp only [Except.ok.injEq] at hL
    subst hL
    have hcm' : c ∈ columns.labels := hc ▸ hcm
    obtain ⟨x, hx⟩ := SetOps.lookup_isSome hcm' hn
    refine ⟨colT resolve conv iic fill fillDT x, ?_, ?_⟩
    · rw [hc, SetOps.lookup_map', hx]; rfl
    · rw [hx]; exact hcolT x (hmem c x hx)
  | some cc =>
    simp only [AxisOk] at hc
    have hcwf := (SetOps.fromCorrespondence_wf' ho columns nc hcol hnc hc).1
    have hL' := colLoopG_ok hcwf cols hn _ _ hG (fillColDT conv (SetOps.newLen iic index.labels.length) fill fillDT)
    unfold resizeSpec at hL
    simp only [] at hL
    rw [hL'] at hL
    simp only [Except.ok.injEq] at hL
    subst hL
    refine ⟨_, slots_lookup ho columns nc hcol hnc hc cols _ _ c hcm, ?_⟩
    cases hx : lookup columns.labels cols c with
    | none => simp only [hilen]
    | some x => exact hcolT x (hmem c x hx)

end cells

end SF
