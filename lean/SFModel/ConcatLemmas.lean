/- Helper lemmas for SFModel.Concat, part 1: the three strategies of vstack_blocks_to_blocks. -/
import SFModel.Concat
import SFModel.SetOpsFrameLemmas

namespace SF
namespace Concat
open SF.SetOps

section
variable {β : Type}

/-- one step of `concat_resolved`'s dtype resolution -/
def kindStep (k x : Kind) : Kind := if k = .obj then .obj else resolveKind x k

theorem resolveKinds_cons (k x : Kind) (xs : List Kind) :
    resolveKinds k (x :: xs) = resolveKinds (kindStep k x) xs := rfl

/-- a block stacked on top of another of the same width -/
def zipBlock (b h : Block β) : Block β := ⟨kindStep b.kind h.kind, List.zipWith (· ++ ·) b.cols h.cols⟩

/-- block-wise stacking of two TypeBlocks with the same block widths -/
def zipBlocks : TB β → TB β → TB β
  | b :: bs, h :: hs => zipBlock b h :: zipBlocks bs hs
  | _, _ => []

/-- column-wise stacking (dtype kind resolved, values appended) -/
def zipColumns (a b : List (Kind × List β)) : List (Kind × List β) :=
  List.zipWith (fun x y => (kindStep x.1 y.1, x.2 ++ y.2)) a b

theorem zipBlock_width {b h : Block β} (hw : h.width = b.width) : (zipBlock b h).width = b.width := by
  simp only [zipBlock, Block.width, List.length_zipWith] at hw ⊢
  omega

theorem zipBlocks_widths {a b : TB β} (hw : b.widths = a.widths) : (zipBlocks a b).widths = a.widths := by
  induction a generalizing b with
  | nil => cases b <;> simp [zipBlocks, TB.widths]
  | cons x xs ih =>
    cases b with
    | nil => simp [TB.widths] at hw
    | cons y ys =>
      simp only [TB.widths, List.map_cons, List.cons.injEq] at hw
      simp only [zipBlocks, TB.widths, List.map_cons, List.cons.injEq]
      exact ⟨zipBlock_width hw.1, ih (b := ys) hw.2⟩

theorem zipBlocks_columns {a b : TB β} (hw : b.widths = a.widths) :
    (zipBlocks a b).columns = zipColumns a.columns b.columns := by
  induction a generalizing b with
  | nil => cases b <;> simp [zipBlocks, TB.columns, zipColumns]
  | cons x xs ih =>
    cases b with
    | nil => simp [TB.widths] at hw
    | cons y ys =>
      simp only [TB.widths, List.map_cons, List.cons.injEq] at hw
      have hxy : y.cols.length = x.cols.length := hw.1
      simp only [zipBlocks, TB.columns, zipColumns]
      rw [List.zipWith_append (by simp [hxy])]
      congr 1
      · simp only [zipBlock, List.zipWith_map, List.map_zipWith]
      · exact ih (b := ys) hw.2

theorem TB.columns_length (tb : TB β) : tb.columns.length = tb.widths.sum := by
  induction tb with
  | nil => rfl
  | cons b bs ih => simp [TB.columns, TB.widths, Block.width, ih] at *

/-! ### the aligned strategies absorb the second member -/

theorem stackCols_cons (p q : List (List β)) (qs : List (List (List β))) :
    stackCols p (q :: qs) = stackCols (List.zipWith (· ++ ·) p q) qs := rfl

theorem stackParts_absorb (b h : Block β) (hs : List (Block β)) (hw : h.width = b.width) :
    stackParts (b :: h :: hs) = stackParts (zipBlock b h :: hs) := by
  have hz : (zipBlock b h).width = b.width := zipBlock_width hw
  unfold stackParts
  simp only [List.all_cons, hz, hw, beq_self_eq_true, Bool.true_and, List.map_cons]
  split
  · rfl
  · rfl

theorem vstackAligned_absorb (first o : TB β) (os : List (TB β)) (hw : o.widths = first.widths) :
    vstackAligned first (o :: os) = vstackAligned (zipBlocks first o) os := by
  induction first generalizing o os with
  | nil =>
    cases o with
    | nil => simp [vstackAligned, zipBlocks]
    | cons _ _ => simp [TB.widths] at hw
  | cons b bs ih =>
    cases o with
    | nil => simp [TB.widths] at hw
    | cons h hs =>
      simp only [TB.widths, List.map_cons, List.cons.injEq] at hw
      simp only [zipBlocks]
      unfold vstackAligned
      simp only [headsOf, List.map_cons, List.tail_cons]
      cases hho : headsOf os with
      | none => rfl
      | some hs2 =>
        simp only []
        rw [stackParts_absorb b h hs2 hw.1, ih hs (os.map List.tail) hw.2]

theorem stackParts_single (b : Block β) : stackParts [b] = .ok b := by
  simp [stackParts, resolveKinds, stackCols]

theorem vstackAligned_nil (first : TB β) : vstackAligned first [] = .ok first := by
  induction first with
  | nil => rfl
  | cons b bs ih =>
    unfold vstackAligned
    simp only [headsOf, List.map_nil, stackParts_single, ih]

/-! ### the per-column strategy absorbs the second member -/

theorem mapMExcept_congr {γ δ : Type} {f g : γ → Except Err δ} {l : List γ} (h : ∀ x ∈ l, f x = g x) :
    mapMExcept f l = mapMExcept g l := by
  induction l with
  | nil => rfl
  | cons x xs ih =>
    unfold mapMExcept
    rw [h x (by simp), ih (fun y hy => h y (by simp [hy]))]

theorem zipColumns_getElem? (a b : List (Kind × List β)) (i : Nat) :
    (zipColumns a b)[i]? =
      match a[i]?, b[i]? with
      | some x, some y => some (kindStep x.1 y.1, x.2 ++ y.2)
      | _, _ => none := by
  simp only [zipColumns, List.getElem?_zipWith]
  cases a[i]? <;> cases b[i]? <;> rfl

theorem stackParts_absorb_col (k0 k1 : Kind) (c0 c1 : List β) (ps : List (Block β)) :
    stackParts (⟨k0, [c0]⟩ :: ⟨k1, [c1]⟩ :: ps) = stackParts (⟨kindStep k0 k1, [c0 ++ c1]⟩ :: ps) := by
  have := stackParts_absorb (⟨k0, [c0]⟩ : Block β) ⟨k1, [c1]⟩ ps rfl
  simpa [zipBlock] using this

theorem vstackColumns_absorb (first o : TB β) (os : List (TB β))
    (hl : o.columns.length = first.columns.length) (hw : o.widths = first.widths) :
    vstackColumns first (o :: os) = vstackColumns (zipBlocks first o) os := by
  unfold vstackColumns
  have hlen : (zipBlocks first o).columns.length = first.columns.length := by
    rw [zipBlocks_columns hw, zipColumns, List.length_zipWith, hl, Nat.min_self]
  rw [hlen]
  apply mapMExcept_congr
  intro i hi
  have hi' : i < first.columns.length := by simpa using hi
  have hio : i < o.columns.length := hl ▸ hi'
  simp only [columnParts]
  rw [zipBlocks_columns hw, zipColumns_getElem?, List.getElem?_eq_getElem hi', List.getElem?_eq_getElem hio]
  simp only []
  cases columnParts i os with
  | none => rfl
  | some ps =>
    simp only []
    exact stackParts_absorb_col _ _ _ _ ps

theorem TB.columns_singletons (l : List (Kind × List β)) :
    TB.columns (l.map fun kc => (⟨kc.1, [kc.2]⟩ : Block β)) = l := by
  induction l with
  | nil => rfl
  | cons x xs ih => simp [TB.columns, ih]

theorem vstackColumns_nil (first : TB β) :
    vstackColumns first [] = .ok (first.columns.map fun kc => (⟨kc.1, [kc.2]⟩ : Block β)) := by
  unfold vstackColumns
  refine Eq.trans (mapMExcept_ok (f' := fun i => match first.columns[i]? with
        | some kc => (⟨kc.1, [kc.2]⟩ : Block β)
        | none => ⟨.obj, []⟩) ?_) ?_
  · intro i hi
    have hi' : i < first.columns.length := by simpa using hi
    simp only [columnParts, List.getElem?_eq_getElem hi', stackParts_single]
  · congr 1
    apply List.ext_getElem?
    intro i
    by_cases hi : i < first.columns.length
    · simp [List.getElem?_map, List.getElem?_range hi, List.getElem?_eq_getElem hi]
    · have hi' : first.columns.length ≤ i := by omega
      simp [List.getElem?_map, List.getElem?_eq_none, hi']

/-- Block-aligned stacking and per-column stacking give the same columns (dtype kind and values)
    whenever every member has the first member's block widths. -/
theorem vstackAligned_eq_columns (first : TB β) (others : List (TB β))
    (hw : ∀ t ∈ others, t.widths = first.widths) :
    ∃ r r', vstackAligned first others = .ok r ∧ vstackColumns first others = .ok r' ∧
      r.columns = r'.columns ∧ r.widths = first.widths := by
  induction others generalizing first with
  | nil =>
    exact ⟨first, _, vstackAligned_nil first, vstackColumns_nil first, (TB.columns_singletons _).symm, rfl⟩
  | cons o os ih =>
    have ho : o.widths = first.widths := hw o (by simp)
    have hl : o.columns.length = first.columns.length := by
      rw [TB.columns_length, TB.columns_length, ho]
    rw [vstackAligned_absorb first o os ho, vstackColumns_absorb first o os hl ho]
    have hz := zipBlocks_widths ho
    obtain ⟨r, r', h1, h2, h3, h4⟩ := ih (zipBlocks first o) (fun t ht => by rw [hz]; exact hw t (by simp [ht]))
    exact ⟨r, r', h1, h2, h3, by rw [h4, hz]⟩

/-! ### consolidation keeps the columns; its widths are the reblock signature -/

theorem consolidate_columns (tb : TB β) : (consolidate tb).columns = tb.columns := by
  induction tb with
  | nil => rfl
  | cons b bs ih =>
    unfold consolidate
    split
    · rename_i c cs hc
      rw [hc] at ih
      split
      · rename_i hk
        simp only [TB.columns, List.map_append] at ih ⊢
        rw [← ih, hk]
        simp [List.append_assoc]
      · simp only [TB.columns] at ih ⊢
        rw [ih]
    · rename_i hc
      rw [hc] at ih
      simp only [TB.columns] at ih ⊢
      rw [← ih]

theorem consolidate_sig (tb : TB β) :
    (consolidate tb).map (fun b => (b.kind, b.width)) = reblockSignature tb := by
  induction tb with
  | nil => rfl
  | cons b bs ih =>
    unfold consolidate reblockSignature
    cases hc : consolidate bs with
    | nil =>
      rw [hc] at ih
      simp only [List.map_nil] at ih
      rw [← ih]
      simp
    | cons c cs =>
      rw [hc] at ih
      simp only [List.map_cons] at ih
      rw [← ih]
      simp only []
      by_cases hk : c.kind = b.kind
      · simp [hk, Block.width, Nat.add_comm]
      · simp [hk]

theorem consolidate_widths (tb : TB β) : (consolidate tb).widths = (reblockSignature tb).map (·.2) := by
  rw [← consolidate_sig, List.map_map]
  rfl


/-! ### the per-column strategy only looks at the columns -/

theorem columnParts_congr (i : Nat) {ts ts' : List (TB β)} (h : ts.map TB.columns = ts'.map TB.columns) :
    columnParts i ts = columnParts i ts' := by
  induction ts generalizing ts' with
  | nil =>
    cases ts' with
    | nil => rfl
    | cons _ _ => simp at h
  | cons t ts ih =>
    cases ts' with
    | nil => simp at h
    | cons t' ts' =>
      simp only [List.map_cons, List.cons.injEq] at h
      simp only [columnParts, h.1, ih h.2]

theorem vstackColumns_congr {t t' : TB β} {ts ts' : List (TB β)} (h0 : t.columns = t'.columns)
    (h : ts.map TB.columns = ts'.map TB.columns) : vstackColumns t ts = vstackColumns t' ts' := by
  unfold vstackColumns
  rw [h0]
  apply mapMExcept_congr
  intro i _
  have : columnParts i (t :: ts) = columnParts i (t' :: ts') :=
    columnParts_congr i (by simp [h0, h])
  simp only [this]

/-- the TypeBlocks with one block per column -/
def canon (tb : TB β) : TB β := tb.columns.map fun kc => (⟨kc.1, [kc.2]⟩ : Block β)

theorem canon_columns (tb : TB β) : (canon tb).columns = tb.columns := TB.columns_singletons _

theorem canon_widths (tb : TB β) : (canon tb).widths = List.replicate tb.columns.length 1 := by
  unfold canon TB.widths
  rw [List.map_map]
  apply List.ext_getElem?
  intro i
  by_cases hi : i < tb.columns.length
  · simp [List.getElem?_map, List.getElem?_eq_getElem hi, List.getElem?_replicate, hi, Block.width]
  · have hi' : tb.columns.length ≤ i := by omega
    simp [List.getElem?_replicate, hi, hi']

/-- The per-column strategy succeeds whenever all members have the same number of columns. -/
theorem vstackColumns_ok (t : TB β) (ts : List (TB β)) (hcols : ∀ x ∈ ts, x.columns.length = t.columns.length) :
    ∃ r', vstackColumns t ts = .ok r' := by
  have hc : vstackColumns t ts = vstackColumns (canon t) (ts.map canon) :=
    vstackColumns_congr (canon_columns t).symm (by
      rw [List.map_map]
      apply List.map_congr_left
      intro x _
      exact (canon_columns x).symm)
  rw [hc]
  obtain ⟨_, r', _, h2, _, _⟩ := vstackAligned_eq_columns (canon t) (ts.map canon) (by
    intro x hx
    obtain ⟨y, hy, rfl⟩ := List.mem_map.mp hx
    rw [canon_widths, canon_widths, hcols y hy])
  exact ⟨r', h2⟩

/-- `vstack_blocks_to_blocks`: the block-compatible, the reblock-compatible and the per-column
    strategy produce the same columns (dtype kind and values), whichever flags select them. -/
theorem vstack_agree (t : TB β) (ts : List (TB β)) (bc rc : Bool)
    (hbc : bc = true → ∀ x ∈ ts, x.widths = t.widths)
    (hrc : rc = true → ∀ x ∈ ts, (reblockSignature x).map (·.2) = (reblockSignature t).map (·.2))
    (hcols : ∀ x ∈ ts, x.columns.length = t.columns.length) :
    ∃ r r', vstackBlocksToBlocks (t :: ts) bc rc = .ok r ∧ vstackColumns t ts = .ok r' ∧
      r.columns = r'.columns := by
  unfold vstackBlocksToBlocks
  by_cases hb : bc = true
  · -- block-compatible
    subst hb
    simp only [Bool.true_or, if_true, Bool.not_true, Bool.false_and, Bool.false_eq_true, if_false]
    obtain ⟨r, r', h1, h2, h3, _⟩ := vstackAligned_eq_columns t ts (hbc rfl)
    exact ⟨r, r', h1, h2, h3⟩
  · have hbf : bc = false := by simpa using hb
    subst hbf
    by_cases hr : rc = true
    · -- reblock-compatible
      subst hr
      simp only [Bool.or_true, if_true, Bool.not_false, Bool.and_self]
      have hw : ∀ x ∈ ts.map consolidate, x.widths = (consolidate t).widths := by
        intro x hx
        obtain ⟨y, hy, rfl⟩ := List.mem_map.mp hx
        rw [consolidate_widths, consolidate_widths, hrc rfl y hy]
      obtain ⟨r, r', h1, h2, h3, _⟩ := vstackAligned_eq_columns (consolidate t) (ts.map consolidate) hw
      have hc : vstackColumns (consolidate t) (ts.map consolidate) = vstackColumns t ts :=
        vstackColumns_congr (consolidate_columns t) (by
          rw [List.map_map]
          apply List.map_congr_left
          intro x _
          exact consolidate_columns x)
      exact ⟨r, r', h1, hc ▸ h2, h3⟩
    · have hrf : rc = false := by simpa using hr
      subst hrf
      simp only [Bool.or_self, Bool.false_eq_true, if_false]
      obtain ⟨r', h⟩ := vstackColumns_ok t ts hcols
      exact ⟨r', r', h, h, rfl⟩

/-- the flags `from_concat` accumulates really mean "all members have the first member's widths" -/
theorem compatFlags_spec (t : TB β) (ts : List (TB β)) :
    ((compatFlags (t :: ts)).1 = true → ∀ x ∈ ts, x.widths = t.widths) ∧
    ((compatFlags (t :: ts)).2 = true →
      ∀ x ∈ ts, (reblockSignature x).map (·.2) = (reblockSignature t).map (·.2)) := by
  induction ts generalizing t with
  | nil => simp
  | cons b rest ih =>
    obtain ⟨ih1, ih2⟩ := ih b
    simp only [compatFlags]
    constructor
    · intro h
      simp only [Bool.and_eq_true, blockCompatible, beq_iff_eq] at h
      intro x hx
      rcases List.mem_cons.mp hx with rfl | hx
      · exact h.1
      · rw [ih1 h.2 x hx, h.1]
    · intro h
      simp only [Bool.and_eq_true, reblockCompatible, beq_iff_eq] at h
      intro x hx
      rcases List.mem_cons.mp hx with rfl | hx
      · exact h.1
      · rw [ih2 h.2 x hx, h.1]

/-- values of the per-column result: column `j` is the members' columns `j` one after the other -/
def appendCols (a b : List (List β)) : List (List β) := List.zipWith (· ++ ·) a b

theorem zipColumns_values (a b : List (Kind × List β)) :
    (zipColumns a b).map (·.2) = appendCols (a.map (·.2)) (b.map (·.2)) := by
  simp only [zipColumns, appendCols, List.map_zipWith, List.zipWith_map]

/-- the columns of the stacked result, as a left fold over the members -/
theorem vstackColumns_values (t : TB β) (ts : List (TB β)) (hcols : ∀ x ∈ ts, x.columns.length = t.columns.length) :
    ∃ r', vstackColumns t ts = .ok r' ∧
      r'.columns.map (·.2) = ts.foldl (fun acc x => appendCols acc (x.columns.map (·.2))) (t.columns.map (·.2)) := by
  have hc : vstackColumns t ts = vstackColumns (canon t) (ts.map canon) :=
    vstackColumns_congr (canon_columns t).symm (by
      rw [List.map_map]
      apply List.map_congr_left
      intro x _
      exact (canon_columns x).symm)
  rw [hc]
  clear hc
  induction ts generalizing t with
  | nil =>
    refine ⟨_, vstackColumns_nil (canon t), ?_⟩
    rw [TB.columns_singletons, canon_columns]
    rfl
  | cons o os ih =>
    have ho : (canon o).widths = (canon t).widths := by
      rw [canon_widths, canon_widths, hcols o (by simp)]
    have hl : (canon o).columns.length = (canon t).columns.length := by
      rw [canon_columns, canon_columns, hcols o (by simp)]
    simp only [List.map_cons]
    rw [vstackColumns_absorb (canon t) (canon o) (os.map canon) hl ho]
    -- the absorbed first member is again canonical (one block per column)
    have hz : zipBlocks (canon t) (canon o) = canon (zipBlocks (canon t) (canon o)) := by
      have hcz := zipBlocks_columns ho
      unfold canon at hcz ⊢
      rw [TB.columns_singletons, TB.columns_singletons] at hcz
      rw [hcz]
      clear hcz ho hl ih
      generalize t.columns = a
      generalize o.columns = b
      induction a generalizing b with
      | nil => cases b <;> simp [zipBlocks, zipColumns]
      | cons x xs iha =>
        cases b with
        | nil => simp [zipBlocks, zipColumns]
        | cons y ys =>
          simp only [List.map_cons, zipBlocks, zipColumns, List.zipWith_cons_cons, List.cons.injEq]
          exact ⟨by simp [zipBlock], iha ys⟩
    rw [hz]
    have hlen : (zipBlocks (canon t) (canon o)).columns.length = t.columns.length := by
      rw [zipBlocks_columns ho, zipColumns, List.length_zipWith, canon_columns, canon_columns,
        hcols o (by simp), Nat.min_self]
    obtain ⟨r', h1, h2⟩ := ih (zipBlocks (canon t) (canon o)) (fun x hx => by
      rw [hlen]; exact hcols x (by simp [hx]))
    refine ⟨r', h1, ?_⟩
    rw [h2, List.foldl_cons, zipBlocks_columns ho, zipColumns_values, canon_columns, canon_columns]

end

end Concat
end SF
