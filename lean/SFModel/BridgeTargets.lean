/-
  Bridge lemmas for C14 (directional fills): the definitions regenerated from the current
  static_frame/core/util.py by tools/py2lean_targets.py (`SF.Gen.Targets.slices_from_targets*`: the candidate
  slices between the transition positions, the no-op tests, `slice_condition` and the limit-trimming
  arithmetic) equal the hand-written mirrored definitions of SFModel/NA.lean (`rawSlicesFwd`,
  `rawSlicesBwd`, `trimSlice`, `slicesFromTargets`) the C14 theorems are about.  Re-checked by the kernel on
  every run against what the source says *now*.
-/
import SFModel.NA
import SFModel.Gen.Targets
namespace SF.BridgeTargets
open SF SF.NA SF.WindowSem

/-- the callers' `slice_condition`: the first cell of the slice is missing -/
def condOf (sel : List Bool) (a _b : Int) : Bool := decide (sel[a.toNat]? = some true)

/-- a yielded `(slice, value)` pair as the model holds it (the value is identified by its target position) -/
def toSl (x : (Int × Int) × Nat) : Sl := ⟨x.1.1.toNat, x.1.2.toNat, x.2⟩

theorem sliceLen_inside (a b : Nat) (n : Nat) (ha : a ≤ n) (hb : b ≤ n) :
    (sliceWindow (a : Int) (b : Int) n).2 = b - a := by
  unfold sliceWindow adjust
  simp only []
  rw [if_neg (by omega), if_neg (by omega)]
  omega

/-- **body_bridge**: one pass of the generated loop body (no-op tests, `slice_condition`, limit trimming)
    = the filter + `trimSlice` of the hand-mirrored `slicesFromTargets`, for slices inside the array -/
theorem body_bridge (fwd : Bool) (limit : Nat) (sel : List Bool) (length : Nat) (s : Sl)
    (h1 : s.start ≤ length) (h2 : s.stop ≤ length) :
    (Gen.Targets.slices_from_targets_body length fwd (limit : Int) (condOf sel) s.start s.stop).map
        (fun ab => toSl (ab, s.target))
      = (if s.start = s.stop then none
         else if fwd ∧ s.start ≥ length then none
         else if sel[s.start]? = some true then some (trimSlice fwd limit s)
         else none) := by
  unfold Gen.Targets.slices_from_targets_body trimSlice condOf toSl
  simp only [sliceLen_inside _ _ _ h1 h2]
  obtain ⟨a, b, t⟩ := s
  simp only [] at h1 h2 ⊢
  repeat' split
  all_goals (simp_all <;> omega)


/-! ### the candidate slices -/

theorem raw_fwd_aux (length : Nat) (l m : List Nat) :
    (((l.map (fun (x : Nat) => (x : Int))).zip (m.map (fun (x : Nat) => (x : Int)))).map
        (fun p => Gen.Targets.slices_from_targets_fwd length p.1 p.2)).zip l
      = (l.zip m).map (fun (p : Nat × Nat) => ((((p.1 + 1 : Nat) : Int), (p.2 : Int)), p.1)) := by
  induction l generalizing m with
  | nil => simp
  | cons a l ih =>
    cases m with
    | nil => simp
    | cons b m =>
      simp only [List.map_cons, List.zip_cons_cons, ih]
      simp [Gen.Targets.slices_from_targets_fwd]

theorem raw_bwd_aux (length : Nat) (l : List (Option Nat)) (m : List Nat) :
    (((l.map (fun o => o.map (fun (x : Nat) => (x : Int)))).zip (m.map (fun (x : Nat) => (x : Int)))).map
        (fun p => Gen.Targets.slices_from_targets_bwd length p.1 p.2)).zip m
      = ((l.map (fun o => match o with | none => 0 | some x => x + 1)).zip m).map
          (fun (p : Nat × Nat) => (((p.1 : Int), (p.2 : Int)), p.2)) := by
  induction l generalizing m with
  | nil => simp
  | cons a l ih =>
    cases m with
    | nil => simp
    | cons b m =>
      simp only [List.map_cons, List.zip_cons_cons, ih]
      cases a <;> simp [Gen.Targets.slices_from_targets_bwd]

/-- **raw_fwd_bridge**: the generated forward candidates (with their values) = `rawSlicesFwd` -/
theorem raw_fwd_bridge (ts : List Nat) (length : Nat) :
    (Gen.Targets.slices_from_targets_raw (ts.map (fun (x : Nat) => (x : Int))) length true).zip ts
      = (rawSlicesFwd ts length).map (fun s => (((s.start : Int), (s.stop : Int)), s.target)) := by
  unfold Gen.Targets.slices_from_targets_raw rawSlicesFwd
  simp only [if_true]
  have h : (ts.map (fun (x : Nat) => (x : Int))).drop 1 ++ [(length : Int)]
      = (ts.tail ++ [length]).map (fun (x : Nat) => (x : Int)) := by
    simp
  rw [h, raw_fwd_aux]
  simp [List.map_map, Function.comp_def]

/-- **raw_bwd_bridge**: the generated backward candidates (with their values) = `rawSlicesBwd` -/
theorem raw_bwd_bridge (ts : List Nat) (length : Nat) :
    (Gen.Targets.slices_from_targets_raw (ts.map (fun (x : Nat) => (x : Int))) length false).zip ts
      = (rawSlicesBwd ts).map (fun s => (((s.start : Int), (s.stop : Int)), s.target)) := by
  unfold Gen.Targets.slices_from_targets_raw rawSlicesBwd
  simp only [Bool.false_eq_true, if_false]
  have h : (none :: (ts.map (fun (x : Nat) => (x : Int))).dropLast.map some)
      = ((none :: ts.dropLast.map some) : List (Option Nat)).map (fun o => o.map (fun (x : Nat) => (x : Int))) := by
    simp [List.map_dropLast, List.map_map, Function.comp_def]
  rw [h, raw_bwd_aux]
  simp [List.map_map, Function.comp_def]

theorem rawFwd_bounds (ts : List Nat) (length : Nat) (h : ∀ t ∈ ts, t < length) :
    ∀ s ∈ rawSlicesFwd ts length, s.start ≤ length ∧ s.stop ≤ length := by
  intro s hs
  unfold rawSlicesFwd at hs
  simp only [List.mem_map] at hs
  obtain ⟨⟨t, stop⟩, hmem, rfl⟩ := hs
  have h1 := (List.of_mem_zip hmem).1
  have h2 := (List.of_mem_zip hmem).2
  simp only [List.mem_append, List.mem_singleton] at h2
  have := h t h1
  refine ⟨by simp only []; omega, ?_⟩
  rcases h2 with h2 | h2
  · have := h stop (List.mem_of_mem_tail h2); simp only []; omega
  · simp only []; omega

theorem rawBwd_bounds (ts : List Nat) (length : Nat) (h : ∀ t ∈ ts, t < length) :
    ∀ s ∈ rawSlicesBwd ts, s.start ≤ length ∧ s.stop ≤ length := by
  intro s hs
  unfold rawSlicesBwd at hs
  simp only [List.mem_map] at hs
  obtain ⟨⟨s0, t⟩, hmem, rfl⟩ := hs
  have h1 := (List.of_mem_zip hmem).1
  have h2 := (List.of_mem_zip hmem).2
  have := h t h2
  refine ⟨?_, by simp only []; omega⟩
  simp only [List.mem_cons, List.mem_map] at h1
  rcases h1 with h1 | ⟨t', ht', rfl⟩
  · simp only []; omega
  · have := h t' (List.dropLast_subset _ ht'); simp only []; omega

theorem filterMap_congr' {α β : Type} (l : List α) (f g : α → Option β) (h : ∀ x ∈ l, f x = g x) :
    l.filterMap f = l.filterMap g := by
  induction l with
  | nil => rfl
  | cons a l ih =>
    simp only [List.filterMap_cons]
    rw [h a (List.mem_cons_self ..), ih (fun x hx => h x (List.mem_cons_of_mem _ hx))]

/-- **slices_bridge**: the generator translated from the source, run on the transition positions `ts` of an
    array of `length` cells (every position inside the array) with the callers' `slice_condition`, yields
    exactly the hand-mirrored `slicesFromTargets` - for both directions and every limit -/
theorem slices_bridge (fwd : Bool) (limit : Nat) (sel : List Bool) (length : Nat) (ts : List Nat)
    (h : ∀ t ∈ ts, t < length) :
    (Gen.Targets.slices_from_targets (ts.map (fun (x : Nat) => (x : Int))) ts length fwd (limit : Int) (condOf sel)).map toSl
      = slicesFromTargets fwd limit sel length ts := by
  unfold Gen.Targets.slices_from_targets slicesFromTargets
  cases fwd
  · rw [raw_bwd_bridge]
    simp only [Bool.false_eq_true, if_false, List.filterMap_map, List.map_filterMap]
    apply filterMap_congr'
    intro s hs
    have hb := rawBwd_bounds ts length h s hs
    have := body_bridge false limit sel length s hb.1 hb.2
    simpa [Function.comp_def, Option.map_map] using this
  · rw [raw_fwd_bridge]
    simp only [if_true, List.filterMap_map, List.map_filterMap]
    apply filterMap_congr'
    intro s hs
    have hb := rawFwd_bounds ts length h s hs
    have := body_bridge true limit sel length s hb.1 hb.2
    simpa [Function.comp_def, Option.map_map] using this

/-! ### non-vacuity: the generated generator runs -/

/-- cells `v _ _ _ v` (positions 1-3 missing), forward, limit 2: positions 1, 2 are filled from position 0 -/
example : (Gen.Targets.slices_from_targets [0, 4] [0, 4] 5 true 2 (condOf [false, true, true, true, false])).map toSl
    = [⟨1, 3, 0⟩] := by decide

example : slicesFromTargets true 2 [false, true, true, true, false] 5 [0, 4] = [⟨1, 3, 0⟩] := by decide

/-- … backward, limit 2: positions 2, 3 are filled from position 4 -/
example : (Gen.Targets.slices_from_targets [0, 4] [0, 4] 5 false 2 (condOf [false, true, true, true, false])).map toSl
    = [⟨2, 4, 4⟩] := by decide

end SF.BridgeTargets
