/- Helper lemmas for the grow-only model. -/
import SFModel.FrameGO

namespace SF
variable {α : Type}

/-! ### IndexGO -/

theorem idxAppend_ok {l : List String} {k : String} (h : k ∉ l) : idxAppend l k = (l ++ [k], none) := by
  simp [idxAppend, h]

theorem idxAppend_err {l : List String} {k : String} (h : k ∈ l) : idxAppend l k = (l, some .lookup) := by
  simp [idxAppend, h]

theorem hasDup_false_iff {l ks : List String} :
    hasDup l ks = false ↔ (∀ k ∈ ks, k ∉ l) ∧ ks.Nodup := by
  induction ks with
  | nil => simp [hasDup]
  | cons k ks ih =>
    simp only [hasDup, Bool.or_eq_false_iff, decide_eq_false_iff_not, ih, List.mem_cons, forall_eq_or_imp,
      List.nodup_cons]
    constructor
    · rintro ⟨⟨h1, h2⟩, h3, h4⟩; exact ⟨⟨h1, h3⟩, h2, h4⟩
    · rintro ⟨⟨h1, h3⟩, h2, h4⟩; exact ⟨⟨h1, h2⟩, h3, h4⟩

/-- with no duplicate among old and new labels the one-by-one loop appends everything -/
theorem idxExtendOld_ok {l ks : List String} (h : hasDup l ks = false) :
    idxExtendOld l ks = (l ++ ks, none) := by
  induction ks generalizing l with
  | nil => simp [idxExtendOld]
  | cons k ks ih =>
    obtain ⟨hn, hd⟩ := hasDup_false_iff.mp h
    have hk : k ∉ l := hn k (by simp)
    simp only [idxExtendOld, idxAppend_ok hk]
    have h' : hasDup (l ++ [k]) ks = false := by
      apply hasDup_false_iff.mpr
      refine ⟨?_, (List.nodup_cons.mp hd).2⟩
      intro x hx
      simp only [List.mem_append, List.mem_singleton, not_or]
      refine ⟨hn x (by simp [hx]), ?_⟩
      intro hxk; subst hxk
      exact (List.nodup_cons.mp hd).1 hx
    rw [ih h']
    simp

theorem idxExtend_ok {l ks : List String} (h : hasDup l ks = false) : idxExtend l ks = (l ++ ks, none) := by
  simp [idxExtend, h, idxExtendOld_ok h]

theorem idxExtend_err {l ks : List String} (h : hasDup l ks = true) : idxExtend l ks = (l, some .lookup) := by
  simp [idxExtend, h]

theorem nodup_append_of_hasDup_false {l ks : List String} (hl : l.Nodup) (h : hasDup l ks = false) :
    (l ++ ks).Nodup := by
  obtain ⟨hn, hd⟩ := hasDup_false_iff.mp h
  rw [List.nodup_append]
  refine ⟨hl, hd, ?_⟩
  intro a ha b hb hab
  subst hab
  exact hn a hb ha

/-! ### TypeBlocks.append / extend on aligned blocks -/

theorem ncols_append (tb : TB α) (b : Block α) :
    TB.ncols ⟨tb.rows, tb.blocks ++ [b]⟩ = tb.ncols + b.width := by
  simp [TB.ncols, List.map_append, List.sum_append]

theorem cols_append (tb : TB α) (b : Block α) :
    TB.cols ⟨tb.rows, tb.blocks ++ [b]⟩ = tb.cols ++ b.colsOf := by
  simp [TB.cols, List.flatMap_append]

theorem dtypes_append (tb : TB α) (b : Block α) :
    TB.dtypes ⟨tb.rows, tb.blocks ++ [b]⟩ = tb.dtypes ++ List.replicate b.width b.dt := by
  simp [TB.dtypes, List.flatMap_append]

theorem wf_append {tb : TB α} {b : Block α} (h : tb.WF) (hw : 0 < b.width) (hr : b.RowsOk tb.rows) :
    TB.WF ⟨tb.rows, tb.blocks ++ [b]⟩ := by
  obtain ⟨h1, h2⟩ := h
  constructor
  · intro x hx
    simp only [List.mem_append, List.mem_singleton] at hx
    rcases hx with hx | rfl
    · exact h1 x hx
    · exact hw
  · intro x hx
    simp only [List.mem_append, List.mem_singleton] at hx
    rcases hx with hx | rfl
    · exact h2 x hx
    · exact hr

/-- an aligned, non-empty block is always accepted by `append` -/
theorem append_aligned (tb : TB α) (b : Block α) (hw : 0 < b.width) (hr : b.RowsOk tb.rows) :
    tb.append b = .ok ⟨tb.rows, tb.blocks ++ [b]⟩ := by
  cases b with
  | d1 t c =>
    have : c.length = tb.rows := hr c (by simp [Block.colsOf])
    simp [TB.append, this]
  | d2 t cs =>
    cases cs with
    | nil => simp [Block.width] at hw
    | cons c cs =>
      have hc : c.length = tb.rows := hr c (by simp [Block.colsOf])
      have hcs : ∀ x ∈ cs, x.length = c.length := by
        intro x hx
        rw [hc]; exact hr x (by simp [Block.colsOf, hx])
      simp [TB.append, hc]
      intro x hx
      rw [← hc]; exact hcs x hx

theorem tbAppend_aligned (tb : TB α) (b : Block α) (hw : 0 < b.width) (hr : b.RowsOk tb.rows) :
    tbAppend tb b = (⟨tb.rows, tb.blocks ++ [b]⟩, none) := by
  simp [tbAppend, append_aligned tb b hw hr]

theorem tbExtend_aligned (tb : TB α) (bs : List (Block α))
    (h : ∀ b ∈ bs, 0 < b.width ∧ b.RowsOk tb.rows) :
    tbExtend tb bs = (⟨tb.rows, tb.blocks ++ bs⟩, none) := by
  induction bs generalizing tb with
  | nil => simp [tbExtend]
  | cons b bs ih =>
    have hb := h b (by simp)
    simp only [tbExtend, tbAppend_aligned tb b hb.1 hb.2]
    have := ih ⟨tb.rows, tb.blocks ++ [b]⟩ (fun x hx => h x (by simp [hx]))
    simp only at this
    rw [this]
    simp

theorem ncols_extend (tb : TB α) (bs : List (Block α)) :
    TB.ncols ⟨tb.rows, tb.blocks ++ bs⟩ = tb.ncols + (bs.map Block.width).sum := by
  simp [TB.ncols, List.map_append, List.sum_append]

theorem cols_extend (tb : TB α) (bs : List (Block α)) :
    TB.cols ⟨tb.rows, tb.blocks ++ bs⟩ = tb.cols ++ bs.flatMap Block.colsOf := by
  simp [TB.cols, List.flatMap_append]

theorem dtypes_extend (tb : TB α) (bs : List (Block α)) :
    TB.dtypes ⟨tb.rows, tb.blocks ++ bs⟩ = tb.dtypes ++ bs.flatMap (fun b => List.replicate b.width b.dt) := by
  simp [TB.dtypes, List.flatMap_append]

theorem wf_extend {tb : TB α} {bs : List (Block α)} (h : tb.WF)
    (hb : ∀ b ∈ bs, 0 < b.width ∧ b.RowsOk tb.rows) : TB.WF ⟨tb.rows, tb.blocks ++ bs⟩ := by
  obtain ⟨h1, h2⟩ := h
  constructor
  · intro x hx
    simp only [List.mem_append] at hx
    rcases hx with hx | hx
    · exact h1 x hx
    · exact (hb x hx).1
  · intro x hx
    simp only [List.mem_append] at hx
    rcases hx with hx | hx
    · exact h2 x hx
    · exact (hb x hx).2

/-- what `evalPairs` returns: one 1-D block of the right length per pair, keys in order, none held -/
theorem evalPairs_ok {s : GO α} {pairs : List (String × GVal α)} {ks : List String} {bs : List (Block α)}
    (h : evalPairs s pairs = .ok (ks, bs)) :
    ks = pairs.map (·.1) ∧ ks.length = bs.length ∧ (∀ k ∈ ks, k ∉ s.labels) ∧
    (∀ b ∈ bs, b.width = 1 ∧ b.RowsOk s.nrows) := by
  induction pairs generalizing ks bs with
  | nil =>
    simp only [evalPairs, Except.ok.injEq, Prod.mk.injEq] at h
    obtain ⟨rfl, rfl⟩ := h
    simp
  | cons p rest ih =>
    obtain ⟨k, v⟩ := p
    simp only [evalPairs] at h
    split at h
    · cases h
    · rename_i c hc
      split at h
      · cases h
      · rename_i ks' bs' hrest
        simp only [Except.ok.injEq, Prod.mk.injEq] at h
        obtain ⟨rfl, rfl⟩ := h
        obtain ⟨h1, h2, h3, h4⟩ := ih hrest
        unfold setitemBlock at hc
        split at hc
        · cases hc
        · rename_i hk
          split at hc
          · cases hc
          · rename_i c'
            split at hc
            · cases hc
            · rename_i hlen
              simp only [Except.ok.injEq] at hc
              subst hc
              refine ⟨by simp [h1], by simp [h2], ?_, ?_⟩
              · intro x hx
                simp only [List.mem_cons] at hx
                rcases hx with rfl | hx
                · exact hk
                · exact h3 x hx
              · intro b hb
                simp only [List.mem_cons] at hb
                rcases hb with rfl | hb
                · refine ⟨rfl, ?_⟩
                  intro col hcol
                  simp only [Block.colsOf, List.mem_singleton] at hcol
                  subst hcol
                  simpa using hlen
                · exact h4 b hb

theorem sum_width_one {bs : List (Block α)} (h : ∀ b ∈ bs, b.width = 1) : (bs.map Block.width).sum = bs.length := by
  induction bs with
  | nil => simp
  | cons b bs ih =>
    simp only [List.map_cons, List.sum_cons, List.length_cons, h b (by simp)]
    rw [ih (fun x hx => h x (by simp [hx]))]
    omega

end SF
