/-
  Helper lemmas for SFModel.Level, part 6: HLoc resolution (`Level.locToIloc`) for per-depth selectors
  that include label slices with step `None` / `1`.

  A label slice is resolved by every visited node against its OWN label order
  (`LocMap.map_slice_args` on the node's `Index`), so the specification is node-aware:
    * `Sel.matchesIn ls a sel` — the label `a` of a node with labels `ls` is selected by `sel`;
    * `Sel.present ls sel`     — the node holds both slice endpoints (an absent endpoint is LocInvalid,
                                  raised from the node and not caught);
    * `Level.matchIn`, `Level.clean` — the two notions along a tuple / over the visited nodes.
-/
import SFModel.LevelHLocLemmas
set_option linter.unusedSectionVars false
set_option linter.unusedVariables false

namespace SF

/-! ### positions addressed by a mapped ascending slice -/

/-- `range(*slice(a, b, None | 1).indices(N))` for in-range non-negative endpoints -/
theorem slice_positions_asc (a b N : Nat) (st : Option Int) (hst : st = none ∨ st = some 1) (h2 : b ≤ N) :
    (PySlice.mk (some (a : Int)) (some (b : Int)) st).positions N = .ok ((List.range (b - a)).map (a + ·)) := by
  have hstep : st.getD 1 = 1 := by rcases hst with rfl | rfl <;> rfl
  have hi : (PySlice.mk (some (a : Int)) (some (b : Int)) st).indices N = .ok ((min (a : Int) N), (b : Int), 1) := by
    simp only [PySlice.indices, hstep]
    rw [if_neg (by decide)]
    simp only [show ¬ ((1 : Int) < 0) by decide, if_false]
    have ha : ¬ ((a : Int) < 0) := by omega
    have hb : ¬ ((b : Int) < 0) := by omega
    simp only [ha, hb, if_false]
    congr 2
    congr 1; omega
  simp only [PySlice.positions, hi]
  congr 1
  apply List.ext_getElem
  · simp only [List.length_map, rangeList_length, List.length_range]
    unfold rangeLen
    simp only [show (1 : Int) > 0 by decide, if_true]
    split
    · rename_i hlt
      rw [Int.ediv_one]; omega
    · omega
  · intro i g1 g2
    simp only [List.length_map, List.length_range] at g2
    simp only [List.getElem_map, rangeList_getElem, List.getElem_range]
    omega

theorem indices_asc_opt (a b : Option Int) (N : Nat) (st : Option Int) (hst : st = none ∨ st = some 1) :
    (PySlice.mk a b st).indices N = (PySlice.mk (some (a.getD 0)) (some (b.getD N)) st).indices N := by
  have hstep : st.getD 1 = 1 := by rcases hst with rfl | rfl <;> rfl
  simp only [PySlice.indices, hstep]
  rw [if_neg (by decide), if_neg (by decide)]
  simp only [show ¬ ((1 : Int) < 0) by decide, if_false]
  cases a <;> cases b <;> simp only [Option.getD_none, Option.getD_some] <;> congr 2 <;> (try congr 1) <;> omega

theorem slice_positions_asc_opt (a b : Option Nat) (N : Nat) (st : Option Int) (hst : st = none ∨ st = some 1)
    (hb : ∀ x, b = some x → x ≤ N) :
    (PySlice.mk (a.map Int.ofNat) (b.map Int.ofNat) st).positions N
      = .ok ((List.range (b.getD N - a.getD 0)).map (a.getD 0 + ·)) := by
  have h := slice_positions_asc (a.getD 0) (b.getD N) N st hst (by cases b with | none => simp | some x => simpa using hb x rfl)
  simp only [PySlice.positions] at h ⊢
  rw [indices_asc_opt _ _ N st hst]
  have e1 : (a.map Int.ofNat).getD 0 = ((a.getD 0 : Nat) : Int) := by cases a <;> rfl
  have e2 : (b.map Int.ofNat).getD (N : Int) = ((b.getD N : Nat) : Int) := by cases b <;> rfl
  rw [e1, e2]; exact h

namespace Sel
variable {α : Type} [DecidableEq α]

/-- the selectors covered by `hloc_exact_slices`: label / all / list and label slices whose step is
    `None` or `1` -/
def simpleS : Sel α → Bool
  | .all => true
  | .label _ => true
  | .list _ => true
  | .slice _ _ st => decide (st = none ∨ st = some 1)
  | .mask _ => false

/-- the start endpoint of a slice does not exclude position `p` of a node with labels `ls`: an open
    start, or a label of the node at a position ≤ `p` -/
def geStart (ls : List α) (p : Nat) : Option α → Bool
  | none => true
  | some x => match Level.pos? ls x with
    | some l => decide (l ≤ p)
    | none => false

/-- the stop endpoint (inclusive) does not exclude position `p`: an open stop, or a label of the node
    at a position ≥ `p` -/
def leStop (ls : List α) (p : Nat) : Option α → Bool
  | none => true
  | some y => match Level.pos? ls y with
    | some h => decide (p ≤ h)
    | none => false

/-- Node-aware matching: the label `a` of a node whose labels are `ls` is selected by the selector.
    A slice selects by POSITION in the label order of the node: the position of `a` lies between the
    positions of the endpoints, both inclusive. -/
def matchesIn (ls : List α) (a : α) : Sel α → Bool
  | .slice s e _ => match Level.pos? ls a with
    | none => false
    | some p => geStart ls p s && leStop ls p e
  | sel => sel.matches a

/-- an endpoint is open or a label of the node -/
def endIn (ls : List α) : Option α → Bool
  | none => true
  | some x => ls.contains x

/-- the node holds every slice endpoint of the selector (`LocMap.map_slice_args` raises LocInvalid
    for an endpoint that is not a label of the node) -/
def present (ls : List α) : Sel α → Bool
  | .slice s e _ => endIn ls s && endIn ls e
  | _ => true

/-- first selected position of a slice (`none`: the endpoint is absent) -/
def lo? (ls : List α) : Option α → Option Nat
  | none => some 0
  | some x => Level.pos? ls x

/-- one past the last selected position of a slice -/
def hi? (ls : List α) : Option α → Option Nat
  | none => some ls.length
  | some y => (Level.pos? ls y).map (· + 1)

/-- positions among a node's labels selected by the selector, in the order the targets are visited
    (extends `Sel.idxs` to slices: the contiguous run between the endpoints) -/
def idxsS (ls : List α) : Sel α → List Nat
  | .slice s e _ => match lo? ls s, hi? ls e with
    | some lo, some hi => (List.range (hi - lo)).map (lo + ·)
    | _, _ => []
  | sel => sel.idxs ls

end Sel

namespace Level
variable {α : Type} [DecidableEq α] [IntLabel α]

/-! ### specification side -/

mutual
/-- Node-aware matching of a tuple: component by component, each against the selector of its depth
    IN THE NODE THE COMPONENT LIVES IN (the node reached by the components before it). -/
def matchIn (key : List (Sel α)) : Level α → Nat → List α → Bool
  | .leaf ls _, dep, [a] => (key.getD dep .all).matchesIn ls a
  | .leaf _ _, _, _ => false
  | .node _ _ _, _, [] => false
  | .node ls cs _, dep, a :: rest =>
    (key.getD dep .all).matchesIn ls a &&
      match pos? ls a with
      | none => false
      | some i => matchInAt key cs i (dep + 1) rest
def matchInAt (key : List (Sel α)) : List (Level α) → Nat → Nat → List α → Bool
  | [], _, _, _ => false
  | c :: _, 0, dep, rest => matchIn key c dep rest
  | _ :: cs, i + 1, dep, rest => matchInAt key cs i dep rest
end

mutual
/-- Specification (extends `specPos`): depth-first, every node visits its selected targets in
    selector order. -/
def specPosS (key : List (Sel α)) : Level α → Nat → Nat → List Nat
  | .leaf ls _, dep, start => ((key.getD dep .all).idxsS ls).map (start + ·)
  | .node ls cs _, dep, start =>
    ((key.getD dep .all).idxsS ls).flatMap (fun i => specPosSIdx key cs i (dep + 1) start)
def specPosSIdx (key : List (Sel α)) : List (Level α) → Nat → Nat → Nat → List Nat
  | [], _, _, _ => []
  | c :: _, 0, dep, start => specPosS key c dep start
  | c :: cs, i + 1, dep, start => specPosSIdx key cs i dep (start + c.len)
end

mutual
/-- No VISITED node lacks a slice endpoint: the node itself holds the endpoints of its depth's
    selector, and so does every node below a SELECTED label (`j` = position of the first target of
    the list among the node's targets). -/
def clean (key : List (Sel α)) : Level α → Nat → Bool
  | .leaf ls _, dep => (key.getD dep .all).present ls
  | .node ls cs _, dep =>
    (key.getD dep .all).present ls && cleanSel key cs ((key.getD dep .all).idxsS ls) 0 (dep + 1)
def cleanSel (key : List (Sel α)) : List (Level α) → List Nat → Nat → Nat → Bool
  | [], _, _, _ => true
  | c :: cs, is, j, dep => (!is.contains j || clean key c dep) && cleanSel key cs is (j + 1) dep
end

/-! ### the selected positions of one node -/

theorem lo?_lt_or {ls : List α} {s : Option α} {lo : Nat} (h : Sel.lo? ls s = some lo) : lo ≤ ls.length := by
  cases s with
  | none => simp only [Sel.lo?, Option.some.injEq] at h; omega
  | some x => have := pos?_lt (show pos? ls x = some lo from h); omega

theorem hi?_le {ls : List α} {e : Option α} {hi : Nat} (h : Sel.hi? ls e = some hi) : hi ≤ ls.length := by
  cases e with
  | none => simp only [Sel.hi?, Option.some.injEq] at h; omega
  | some y =>
    simp only [Sel.hi?, Option.map_eq_some_iff] at h
    obtain ⟨p, hp, rfl⟩ := h
    have := pos?_lt hp; omega

theorem idxsS_lt {ls : List α} {sel : Sel α} : ∀ p ∈ sel.idxsS ls, p < ls.length := by
  intro p hp
  cases sel with
  | all => exact idxs_lt (sel := .all) p hp
  | label a => exact idxs_lt (sel := .label a) p hp
  | list as => exact idxs_lt (sel := .list as) p hp
  | mask bs => exact idxs_lt (sel := .mask bs) p hp
  | slice s e c =>
    simp only [Sel.idxsS] at hp
    split at hp
    · rename_i lo hi h1 h2
      have := hi?_le h2
      simp only [List.mem_map, List.mem_range] at hp
      obtain ⟨j, hj, rfl⟩ := hp
      omega
    · simp at hp

theorem idxsS_nodup {ls : List α} (hls : ls.Nodup) {sel : Sel α} (hsel : ∀ as, sel = .list as → as.Nodup) :
    (sel.idxsS ls).Nodup := by
  cases sel with
  | all => exact idxs_nodup hls hsel
  | label a => exact idxs_nodup hls hsel
  | list as => exact idxs_nodup hls hsel
  | mask bs => exact idxs_nodup hls hsel
  | slice s e c =>
    simp only [Sel.idxsS]
    split
    · rename_i lo hi h1 h2
      rw [List.nodup_iff_pairwise_ne, List.pairwise_map]
      exact List.Pairwise.imp (fun hab e => hab (by omega)) (List.nodup_iff_pairwise_ne.mp List.nodup_range)
    · simp

theorem endIn_iff_lo {ls : List α} {s : Option α} : Sel.endIn ls s = true ↔ (Sel.lo? ls s).isSome = true := by
  cases s with
  | none => simp [Sel.endIn, Sel.lo?]
  | some x => simp only [Sel.endIn, Sel.lo?, List.contains_eq_mem, decide_eq_true_eq, pos?_isSome_iff]

theorem endIn_iff_hi {ls : List α} {e : Option α} : Sel.endIn ls e = true ↔ (Sel.hi? ls e).isSome = true := by
  cases e with
  | none => simp [Sel.endIn, Sel.hi?]
  | some x => simp only [Sel.endIn, Sel.hi?, List.contains_eq_mem, decide_eq_true_eq, Option.isSome_map, pos?_isSome_iff]

theorem mem_idxsS {ls : List α} (hls : ls.Nodup) {sel : Sel α} (hs : sel.simpleS = true) (i : Nat) :
    i ∈ sel.idxsS ls ↔ ∃ a, ls[i]? = some a ∧ sel.matchesIn ls a = true := by
  cases sel with
  | all => exact mem_idxs (sel := .all) hls rfl i
  | label b => exact mem_idxs (sel := .label b) hls rfl i
  | list as => exact mem_idxs (sel := .list as) hls rfl i
  | mask bs => simp [Sel.simpleS] at hs
  | slice s e c =>
    simp only [Sel.idxsS, Sel.matchesIn]
    constructor
    · intro hi
      split at hi
      · rename_i lo hi' h1 h2
        simp only [List.mem_map, List.mem_range] at hi
        obtain ⟨j, hj, rfl⟩ := hi
        have hlt : lo + j < ls.length := by have := hi?_le h2; omega
        refine ⟨ls[lo + j], by simp [hlt], ?_⟩
        have hp : pos? ls ls[lo + j] = some (lo + j) := (pos?_eq_some_iff hls).mpr (by simp [hlt])
        simp only [hp, Bool.and_eq_true]
        constructor
        · cases s with
          | none => rfl
          | some x =>
            have : pos? ls x = some lo := h1
            simp [Sel.geStart, this]
        · cases e with
          | none => rfl
          | some y =>
            simp only [Sel.hi?, Option.map_eq_some_iff] at h2
            obtain ⟨p, hp', rfl⟩ := h2
            simp only [Sel.leStop, hp', decide_eq_true_eq]; omega
      · simp at hi
    · rintro ⟨a, ha, hm⟩
      have hp : pos? ls a = some i := (pos?_eq_some_iff hls).mpr ha
      simp only [hp, Bool.and_eq_true] at hm
      have hlt : i < ls.length := (List.getElem?_eq_some_iff.mp ha).1
      obtain ⟨m1, m2⟩ := hm
      have h1 : ∃ lo, Sel.lo? ls s = some lo ∧ lo ≤ i := by
        cases s with
        | none => exact ⟨0, rfl, by omega⟩
        | some x =>
          simp only [Sel.geStart] at m1
          cases hx : pos? ls x with
          | none => simp [hx] at m1
          | some l => simp only [hx, decide_eq_true_eq] at m1; exact ⟨l, hx, m1⟩
      have h2 : ∃ hi, Sel.hi? ls e = some hi ∧ i < hi := by
        cases e with
        | none => exact ⟨ls.length, rfl, hlt⟩
        | some y =>
          simp only [Sel.leStop] at m2
          cases hy : pos? ls y with
          | none => simp [hy] at m2
          | some h => simp only [hy, decide_eq_true_eq] at m2; exact ⟨h + 1, by simp [Sel.hi?, hy], by omega⟩
      obtain ⟨lo, e1, l1⟩ := h1
      obtain ⟨hi, e2, l2⟩ := h2
      simp only [e1, e2, List.mem_map, List.mem_range]
      exact ⟨i - lo, by omega, by omega⟩

/-! ### one step of the loop on a slice selector -/

theorem mapSliceArgs_asc (ls : List α) (off : Nat) (s e : Option α) (st : Option Int)
    (hst : st = none ∨ st = some 1) :
    Index.mapSliceArgs (ls.zipIdx 0) off s e st =
      match Sel.lo? ls s, Sel.hi? ls e with
      | some lo, some hi =>
        .ok ⟨s.map (fun _ => (lo : Int) + off), e.map (fun _ => (hi : Int) + off), st⟩
      | _, _ => .error .lookup := by
  have hstep : ¬ (st.getD 1 < 0) := by rcases hst with rfl | rfl <;> decide
  cases s with
  | none =>
    cases e with
    | none => simp [Index.mapSliceArgs, Index.mapSliceArg, Index.mapSliceStop, Sel.lo?, Sel.hi?]
    | some y =>
      simp only [Index.mapSliceArgs, Index.mapSliceArg, Index.mapSliceStop, Sel.lo?, Sel.hi?, hstep, if_false]
      cases hy : AMap.get? (ls.zipIdx 0) y with
      | none => have : pos? ls y = none := hy; simp [this]
      | some p => have : pos? ls y = some p := hy; simp [this]; omega
  | some x =>
    simp only [Index.mapSliceArgs, Index.mapSliceArg, Sel.lo?]
    cases hx : AMap.get? (ls.zipIdx 0) x with
    | none => have : pos? ls x = none := hx; simp [this]
    | some l =>
      have hx' : pos? ls x = some l := hx
      cases e with
      | none => simp [Index.mapSliceStop, Sel.hi?, hx']
      | some y =>
        simp only [Index.mapSliceStop, Sel.hi?, hstep, if_false, hx']
        cases hy : AMap.get? (ls.zipIdx 0) y with
        | none => have : pos? ls y = none := hy; simp [this]
        | some p => have : pos? ls y = some p := hy; simp [this]; omega

theorem hlocVisit_node_slice (key : List (Sel α)) (ls : List α) (cs : List (Level α)) (o dep off : Nat)
    (s e : Option α) (st : Option Int) (hk : key.getD dep .all = .slice s e st)
    (hst : st = none ∨ st = some 1) (hl : ls.length = cs.length) :
    hlocVisit key (.node ls cs o) (dep, off) =
      match Sel.lo? ls s, Sel.hi? ls e with
      | some lo, some hi =>
        ([], (((List.range (hi - lo)).map (lo + ·)).filterMap (cs[·]?)).map (·, (dep + 1, off + o)))
      | _, _ => ([.error .lookup], []) := by
  unfold hlocVisit
  simp only [offset, hk, Sel.toLKey, nodeIndex, Index.locToIlocP, Index.locMap, Option.isSome_none,
    Bool.false_eq_true, false_and, if_false, Option.getD_none, mapSliceArgs_asc ls 0 s e st hst]
  cases h1 : Sel.lo? ls s with
  | none => simp
  | some lo =>
    cases h2 : Sel.hi? ls e with
    | none => simp
    | some hi =>
      simp only [IKey.positions]
      have hhi : hi ≤ cs.length := hl ▸ hi?_le h2
      have := slice_positions_asc_opt (s.map (fun _ => lo)) (e.map (fun _ => hi)) cs.length st hst
        (by intro x hx; cases e <;> simp at hx; omega)
      simp only [Option.map_map] at this
      have e1 : (Option.map (fun _ => lo) s).getD 0 = lo := by
        cases s with
        | none => simp only [Sel.lo?, Option.some.injEq] at h1; simp [h1]
        | some x => rfl
      have e2 : (Option.map (fun _ => hi) e).getD cs.length = hi := by
        cases e with
        | none => simp only [Sel.hi?, Option.some.injEq] at h2; simp [← h2, hl]
        | some x => rfl
      have e3 : Option.map (fun (_ : α) => (lo : Int) + ((0 : Nat) : Int)) s = Option.map (Int.ofNat ∘ fun _ => lo) s := by
        cases s <;> simp
      have e4 : Option.map (fun (_ : α) => (hi : Int) + ((0 : Nat) : Int)) e = Option.map (Int.ofNat ∘ fun _ => hi) e := by
        cases e <;> simp
      rw [e3, e4, this, e1, e2]

theorem hlocVisit_leaf_slice (key : List (Sel α)) (ls : List α) (o dep off : Nat)
    (s e : Option α) (st : Option Int) (hk : key.getD dep .all = .slice s e st)
    (hst : st = none ∨ st = some 1) :
    hlocVisit key (.leaf ls o) (dep, off) =
      match Sel.lo? ls s, Sel.hi? ls e with
      | some lo, some hi =>
        ([.ok (.slice ⟨some ((lo + (off + o) : Nat) : Int), some ((hi + (off + o) : Nat) : Int), st⟩)], [])
      | _, _ => ([.error .lookup], []) := by
  unfold hlocVisit
  simp only [offset, hk, Sel.toLKey, nodeIndex, Index.locToIlocP, Index.locMap, Option.isSome_some,
    true_and, Option.getD_some, mapSliceArgs_asc ls (off + o) s e st hst, Index.len]
  split
  · rename_i hc
    obtain ⟨c1, c2, c3⟩ := hc
    cases s with
    | some _ => simp at c1
    | none =>
      cases e with
      | some _ => simp at c2
      | none =>
        cases st with
        | some _ => simp at c3
        | none => simp [Sel.lo?, Sel.hi?]
  · cases h1 : Sel.lo? ls s with
    | none => simp
    | some lo =>
      cases h2 : Sel.hi? ls e with
      | none => simp
      | some hi =>
        have hb : (st.isNone = true ∨ st.getD 1 > 0) := by rcases hst with rfl | rfl <;> simp
        simp only [Index.boundSlice, hb, if_true]
        have e1 : (Option.map (fun (_ : α) => (lo : Int) + ((off + o : Nat) : Int)) s).getD ((off + o : Nat) : Int)
            = ((lo + (off + o) : Nat) : Int) := by
          cases s with
          | none => simp only [Sel.lo?, Option.some.injEq] at h1; simp [← h1]
          | some x => simp
        have e2 : (Option.map (fun (_ : α) => (hi : Int) + ((off + o : Nat) : Int)) e).getD (((off + o : Nat) : Int) + (ls.length : Int))
            = ((hi + (off + o) : Nat) : Int) := by
          cases e with
          | none => simp only [Sel.hi?, Option.some.injEq] at h2; simp [← h2]; omega
          | some x => simp
        rw [e1, e2]

theorem present_slice_iff {ls : List α} {s e : Option α} {st : Option Int} :
    (Sel.slice s e st).present ls = true ↔ ∃ lo hi, Sel.lo? ls s = some lo ∧ Sel.hi? ls e = some hi := by
  simp only [Sel.present, Bool.and_eq_true]
  rw [endIn_iff_lo, endIn_iff_hi, Option.isSome_iff_exists, Option.isSome_iff_exists]
  constructor
  · rintro ⟨⟨lo, h1⟩, ⟨hi, h2⟩⟩; exact ⟨lo, hi, h1, h2⟩
  · rintro ⟨lo, hi, h1, h2⟩; exact ⟨⟨lo, h1⟩, ⟨hi, h2⟩⟩

theorem simpleS_cases {sel : Sel α} (hs : sel.simpleS = true) :
    (sel.simple = true ∧ (∀ ls, sel.present ls = true) ∧ (∀ ls, sel.idxsS ls = sel.idxs ls)) ∨
    ∃ s e st, sel = .slice s e st ∧ (st = none ∨ st = some 1) := by
  cases sel with
  | all => left; exact ⟨rfl, fun _ => rfl, fun _ => rfl⟩
  | label a => left; exact ⟨rfl, fun _ => rfl, fun _ => rfl⟩
  | list as => left; exact ⟨rfl, fun _ => rfl, fun _ => rfl⟩
  | mask bs => simp [Sel.simpleS] at hs
  | slice s e st => right; exact ⟨s, e, st, rfl, by simpa [Sel.simpleS] using hs⟩

/-- a node: either it lacks a slice endpoint and yields LocInvalid (nothing is enqueued), or it yields
    nothing and enqueues the selected targets, in selector order, with the running offset -/
theorem hlocVisit_nodeS (key : List (Sel α)) (ls : List α) (cs : List (Level α)) (o dep off : Nat)
    (hs : (key.getD dep .all).simpleS = true) (hl : ls.length = cs.length) :
    hlocVisit key (.node ls cs o) (dep, off) =
      if (key.getD dep .all).present ls = true then
        ([], (((key.getD dep .all).idxsS ls).filterMap (cs[·]?)).map (·, (dep + 1, off + o)))
      else ([.error .lookup], []) := by
  rcases simpleS_cases hs with ⟨h1, h2, h3⟩ | ⟨s, e, st, hk, hst⟩
  · rw [h2, h3, if_pos rfl]
    exact hlocVisit_node key ls cs o dep off h1 hl
  · rw [hlocVisit_node_slice key ls cs o dep off s e st hk hst hl, hk]
    by_cases hp : (Sel.slice s e st).present ls = true
    · rw [if_pos hp]
      obtain ⟨lo, hi, e1, e2⟩ := present_slice_iff.mp hp
      simp only [e1, e2, Sel.idxsS]
    · rw [if_neg hp]
      have : ¬ ∃ lo hi, Sel.lo? ls s = some lo ∧ Sel.hi? ls e = some hi := fun h => hp (present_slice_iff.mpr h)
      split
      · rename_i lo hi e1 e2; exact absurd ⟨lo, hi, e1, e2⟩ this
      · rfl

/-- a leaf: either it lacks a slice endpoint and yields LocInvalid, or it yields well-formed parts
    addressing the selected labels of the leaf -/
theorem hlocVisit_leafS (key : List (Sel α)) (ls : List α) (o dep off : Nat)
    (hs : (key.getD dep .all).simpleS = true) :
    ((key.getD dep .all).present ls = true → ∃ parts,
      hlocVisit key (.leaf ls o) (dep, off) = (parts.map .ok, []) ∧
      ∀ N, off + o + ls.length ≤ N →
        flattenParts N parts = .ok ((((key.getD dep .all).idxsS ls).map (off + o + ·)).map Int.ofNat)) ∧
    ((key.getD dep .all).present ls ≠ true → hlocVisit key (.leaf ls o) (dep, off) = ([.error .lookup], [])) := by
  rcases simpleS_cases hs with ⟨h1, h2, h3⟩ | ⟨s, e, st, hk, hst⟩
  · rw [h2, h3]
    refine ⟨fun _ => ⟨_, hlocVisit_leaf key ls o dep off h1, fun N hN => leafItems_flatten ls (off + o) N _ hN⟩,
      fun h => absurd rfl h⟩
  · rw [hlocVisit_leaf_slice key ls o dep off s e st hk hst, hk]
    constructor
    · intro hp
      obtain ⟨lo, hi, e1, e2⟩ := present_slice_iff.mp hp
      simp only [e1, e2, Sel.idxsS]
      refine ⟨[_], rfl, fun N hN => ?_⟩
      have hhi := hi?_le e2
      have := slice_positions_asc (lo + (off + o)) (hi + (off + o)) N st hst (by omega)
      simp only [flattenParts, this, Except.map, List.append_nil, List.map_map]
      congr 1
      have : hi + (off + o) - (lo + (off + o)) = hi - lo := by omega
      rw [this]
      apply List.map_congr_left
      intro j _
      simp only [Function.comp]; congr 1; omega
    · intro hp
      have : ¬ ∃ lo hi, Sel.lo? ls s = some lo ∧ Sel.hi? ls e = some hi := fun h => hp (present_slice_iff.mpr h)
      split
      · rename_i lo hi e1 e2; exact absurd ⟨lo, hi, e1, e2⟩ this
      · rfl

/-! ### the specification functions, target by target -/

theorem idxsS_of_not_present {ls : List α} {sel : Sel α} (h : sel.present ls ≠ true) : sel.idxsS ls = [] := by
  cases sel with
  | all => exact absurd rfl h
  | label a => exact absurd rfl h
  | list as => exact absurd rfl h
  | mask bs => exact absurd rfl h
  | slice s e st =>
    simp only [Sel.idxsS]
    split
    · rename_i lo hi e1 e2; exact absurd (present_slice_iff.mpr ⟨lo, hi, e1, e2⟩) h
    · rfl

theorem specPosSIdx_eq (key : List (Sel α)) {d : Nat} : ∀ (cs : List (Level α)) (acc i dep start : Nat),
    WFList d acc cs →
    specPosSIdx key cs i dep start = match cs[i]? with
      | some c => specPosS key c dep (start + c.offset - acc)
      | none => []
  | [], acc, i, dep, start, _ => by simp [specPosSIdx]
  | c0 :: cs, acc, 0, dep, start, hw => by
    simp only [WFList] at hw
    simp only [specPosSIdx, List.getElem?_cons_zero]
    rw [hw.1]; congr 1; omega
  | c0 :: cs, acc, i + 1, dep, start, hw => by
    simp only [WFList] at hw
    simp only [specPosSIdx, List.getElem?_cons_succ]
    rw [specPosSIdx_eq key cs (acc + c0.len) i dep (start + c0.len) hw.2.2]
    cases hc : cs[i]? with
    | none => rfl
    | some c =>
      simp only
      have := (WFList_getElem cs (acc + c0.len) i c hw.2.2 hc).2.1
      congr 1; omega

theorem cleanSel_iff (key : List (Sel α)) (is : List Nat) (dep : Nat) : ∀ (cs : List (Level α)) (j : Nat),
    cleanSel key cs is j dep = true ↔ ∀ i c, cs[i]? = some c → j + i ∈ is → clean key c dep = true
  | [], j => by simp [cleanSel]
  | c0 :: cs, j => by
    simp only [cleanSel, Bool.and_eq_true, Bool.or_eq_true, Bool.not_eq_true', List.contains_eq_mem,
      decide_eq_false_iff_not, cleanSel_iff key is dep cs (j + 1)]
    constructor
    · rintro ⟨h0, h1⟩ i c hc hm
      cases i with
      | zero =>
        simp only [List.getElem?_cons_zero, Option.some.injEq] at hc
        subst hc
        rcases h0 with h0 | h0
        · exact absurd hm h0
        · exact h0
      | succ i =>
        simp only [List.getElem?_cons_succ] at hc
        exact h1 i c hc (by rwa [show j + 1 + i = j + (i + 1) by omega])
    · intro h
      refine ⟨?_, fun i c hc hm => h (i + 1) c (by simpa using hc) (by rwa [show j + (i + 1) = j + 1 + i by omega])⟩
      by_cases hm : j ∈ is
      · right; exact h 0 c0 (by simp) hm
      · left; exact hm

/-! ### the HLoc loop, layer by layer -/

def specES (key : List (Sel α)) (dep : Nat) (x : Level α × (Nat × Nat)) : List Nat := specPosS key x.1 dep (est x)

/-- the entry's own node holds the slice endpoints of its depth -/
def localOK (key : List (Sel α)) (dep : Nat) (x : Level α × (Nat × Nat)) : Bool :=
  (key.getD dep .all).present x.1.labels

def cleanE (key : List (Sel α)) (dep : Nat) (x : Level α × (Nat × Nat)) : Bool := clean key x.1 dep

theorem hloc_entryS (key : List (Sel α)) (hs : ∀ dep, (key.getD dep .all).simpleS = true)
    (hnd : ∀ dep as, key.getD dep .all = .list as → as.Nodup) (N k dep : Nat)
    (t : Level α) (off : Nat) (hx : EntryOK (k + 1) dep N (t, (dep, off))) :
    (∀ y ∈ (hlocVisit key t (dep, off)).2, EntryOK k (dep + 1) N y) ∧
    1 + nodesSum (hlocVisit key t (dep, off)).2 ≤ t.nodes ∧
    (cleanE key dep (t, (dep, off)) = true ↔
      localOK key dep (t, (dep, off)) = true ∧ ∀ y ∈ (hlocVisit key t (dep, off)).2, cleanE key (dep + 1) y = true) ∧
    (localOK key dep (t, (dep, off)) ≠ true → (hlocVisit key t (dep, off)).1 = [.error .lookup]) ∧
    (k = 0 → (hlocVisit key t (dep, off)).2 = [] ∧
      (localOK key dep (t, (dep, off)) = true → ∃ parts, (hlocVisit key t (dep, off)).1 = parts.map .ok ∧
        flattenParts N parts = .ok ((specES key dep (t, (dep, off))).map Int.ofNat))) ∧
    (1 ≤ k → (localOK key dep (t, (dep, off)) = true → (hlocVisit key t (dep, off)).1 = []) ∧
      (hlocVisit key t (dep, off)).2.flatMap (specES key (dep + 1)) = specES key dep (t, (dep, off))) := by
  obtain ⟨hw, _, hbound⟩ := hx
  cases t with
  | leaf ls o =>
    simp only [WF] at hw
    have hk : k = 0 := by omega
    obtain ⟨l1, l2⟩ := hlocVisit_leafS key ls o dep off (hs dep)
    have hb : off + o + ls.length ≤ N := by simpa [est, offset, len] using hbound
    have hv2 : (hlocVisit key (.leaf ls o) (dep, off)).2 = [] := by
      by_cases hp : (key.getD dep .all).present ls = true
      · obtain ⟨parts, e1, _⟩ := l1 hp; rw [e1]
      · rw [l2 hp]
    rw [hv2]
    refine ⟨by simp, by simp [nodesSum, nodes], ?_, fun hp => by rw [l2 hp], fun _ => ⟨rfl, fun hp => ?_⟩, fun h1 => by omega⟩
    · simp [cleanE, clean, localOK, labels]
    · obtain ⟨parts, e1, e2⟩ := l1 hp
      exact ⟨parts, by rw [e1], by simpa [specES, specPosS, est, offset] using e2 N hb⟩
  | node ls cs o =>
    simp only [WF] at hw
    have hk : 1 ≤ k := by omega
    have hd : k + 1 - 1 = k := by omega
    rw [hd] at hw
    rw [hlocVisit_nodeS key ls cs o dep off (hs dep) hw.2.2.1]
    have hbound' : off + o + lenList cs ≤ N := by simpa [est, offset, len] using hbound
    by_cases hp : (key.getD dep .all).present ls = true
    · rw [if_pos hp]
      have hlo : localOK key dep (node ls cs o, dep, off) = true := hp
      simp only [hlo, ne_eq, not_true_eq_false, false_implies, true_and, true_implies]
      refine ⟨?_, ?_, ?_, fun h0 => by omega, fun _ => ?_⟩
      · intro y hy
        simp only [List.mem_map, List.mem_filterMap] at hy
        obtain ⟨c, ⟨i, _, hc⟩, rfl⟩ := hy
        obtain ⟨w1, w2, w3⟩ := WFList_getElem cs 0 i c hw.2.2.2 hc
        exact ⟨w1, rfl, by simp only [est]; omega⟩
      · have hsum : nodesSum (((key.getD dep .all).idxsS ls).filterMap (cs[·]?) |>.map (·, (dep + 1, off + o)))
            ≤ nodesList cs := by
          have := sumSel_le nodes cs _ (idxsS_nodup hw.2.1 (sel := key.getD dep .all) (fun as e => hnd dep as e))
          rw [nodesList_eq]
          simpa [nodesSum, nodesL, List.map_map, Function.comp_def] using this
        simp only [nodes]; omega
      · simp only [cleanE, clean, hp, Bool.true_and, cleanSel_iff, Nat.zero_add, List.mem_map,
          List.mem_filterMap]
        constructor
        · rintro h y ⟨c, ⟨i, hi, hc⟩, rfl⟩
          exact h i c hc hi
        · intro h i c hc hi
          exact h (c, (dep + 1, off + o)) ⟨c, ⟨i, hi, hc⟩, rfl⟩
      · have ho : (Level.node ls cs o).offset = o := rfl
        simp only [specES, specPosS, est, ho, List.flatMap_map]
        rw [filterMap_flatMap]
        apply flatMap_congr'
        intro i _
        rw [specPosSIdx_eq key cs 0 i (dep + 1) (off + o) hw.2.2.2]
        cases cs[i]? with
        | none => rfl
        | some c => simp
    · rw [if_neg hp]
      have hlo : ¬ (localOK key dep (node ls cs o, dep, off) = true) := hp
      refine ⟨by simp, by simp [nodesSum, nodes], ?_, fun _ => rfl, fun h0 => by omega, fun _ => ⟨fun h => absurd h hlo, ?_⟩⟩
      · constructor
        · intro h; simp only [cleanE, clean, Bool.and_eq_true] at h; exact absurd h.1 hp
        · intro h; exact absurd h.1 hlo
      · simp only [specES, specPosS, idxsS_of_not_present hp, List.flatMap_nil]

theorem hloc_passS (key : List (Sel α)) (hs : ∀ dep, (key.getD dep .all).simpleS = true)
    (hnd : ∀ dep as, key.getD dep .all = .list as → as.Nodup) (N k dep : Nat) :
    ∀ (q : List (Level α × (Nat × Nat))), (∀ x ∈ q, EntryOK (k + 1) dep N x) →
      (∀ x ∈ bfsExpand (hlocVisit key) q, EntryOK k (dep + 1) N x) ∧
      q.length + nodesSum (bfsExpand (hlocVisit key) q) ≤ nodesSum q ∧
      ((∀ x ∈ q, cleanE key dep x = true) ↔
        (∀ x ∈ q, localOK key dep x = true) ∧ ∀ y ∈ bfsExpand (hlocVisit key) q, cleanE key (dep + 1) y = true) ∧
      (¬ (∀ x ∈ q, localOK key dep x = true) → ∃ e, Except.error e ∈ bfsEmit (hlocVisit key) q) ∧
      (k = 0 → bfsExpand (hlocVisit key) q = [] ∧
        ((∀ x ∈ q, localOK key dep x = true) → ∃ parts, bfsEmit (hlocVisit key) q = parts.map .ok ∧
          flattenParts N parts = .ok ((q.flatMap (specES key dep)).map Int.ofNat))) ∧
      (1 ≤ k → ((∀ x ∈ q, localOK key dep x = true) → bfsEmit (hlocVisit key) q = []) ∧
        (bfsExpand (hlocVisit key) q).flatMap (specES key (dep + 1)) = q.flatMap (specES key dep))
  | [], _ => by
    refine ⟨by simp, by simp [nodesSum], by simp, by simp, fun _ => ⟨rfl, fun _ => ⟨[], rfl, rfl⟩⟩, fun _ => ⟨fun _ => rfl, rfl⟩⟩
  | x :: q, h => by
    obtain ⟨i1, i2, i3, i4, i5, i6⟩ := hloc_passS key hs hnd N k dep q (fun y hy => h y (by simp [hy]))
    have hx := h x (by simp)
    obtain ⟨t, dep', off⟩ := x
    have hdep : dep' = dep := hx.2.1
    subst hdep
    obtain ⟨j1, j2, j3, j4, j5, j6⟩ := hloc_entryS key hs hnd N k dep' t off hx
    rw [bfsExpand_cons, bfsEmit_cons]
    simp only [List.forall_mem_cons, List.mem_append, List.flatMap_cons, List.flatMap_append, List.length_cons]
    refine ⟨?_, ?_, ?_, ?_, ?_, ?_⟩
    · rintro y (hy | hy)
      · exact j1 y hy
      · exact i1 y hy
    · rw [nodesSum_append]
      simp only [nodesSum, List.map_cons, List.sum_cons] at i2 j2 ⊢; omega
    · rw [j3, i3]
      constructor
      · rintro ⟨⟨a1, a2⟩, b1, b2⟩
        exact ⟨⟨a1, b1⟩, fun y hy => hy.elim (a2 y) (b2 y)⟩
      · rintro ⟨⟨a1, b1⟩, c⟩
        exact ⟨⟨a1, fun y hy => c y (Or.inl hy)⟩, b1, fun y hy => c y (Or.inr hy)⟩
    · intro hn
      by_cases hl : localOK key dep' (t, dep', off) = true
      · have : ¬ (∀ x ∈ q, localOK key dep' x = true) := fun hq => hn ⟨hl, hq⟩
        obtain ⟨e, he⟩ := i4 this
        exact ⟨e, Or.inr he⟩
      · exact ⟨.lookup, Or.inl (by rw [j4 hl]; simp)⟩
    · intro hk
      obtain ⟨a1, a2⟩ := j5 hk
      obtain ⟨b1, b2⟩ := i5 hk
      refine ⟨by rw [a1, b1]; rfl, ?_⟩
      rintro ⟨hl, hq⟩
      obtain ⟨p1, c1, c2⟩ := a2 hl
      obtain ⟨p2, d1, d2⟩ := b2 hq
      refine ⟨p1 ++ p2, by rw [c1, d1, List.map_append], ?_⟩
      rw [flattenParts_append N _ _ _ _ c2 d2, List.map_append]
    · intro hk
      obtain ⟨a1, a2⟩ := j6 hk
      obtain ⟨b1, b2⟩ := i6 hk
      refine ⟨?_, by rw [a2, b2]⟩
      rintro ⟨hl, hq⟩
      rw [a1 hl, b1 hq]; rfl

theorem hloc_layersS (key : List (Sel α)) (hs : ∀ dep, (key.getD dep .all).simpleS = true)
    (hnd : ∀ dep as, key.getD dep .all = .list as → as.Nodup) (N : Nat) :
    ∀ (k dep : Nat) (q : List (Level α × (Nat × Nat))), (∀ x ∈ q, EntryOK k dep N x) →
      bfsLayers (hlocVisit key) k q = [] ∧ bfsVisited (hlocVisit key) k q ≤ nodesSum q ∧
      ((∀ x ∈ q, cleanE key dep x = true) → ∃ parts, bfsSpec (hlocVisit key) k q = parts.map .ok ∧
        flattenParts N parts = .ok ((q.flatMap (specES key dep)).map Int.ofNat)) ∧
      (¬ (∀ x ∈ q, cleanE key dep x = true) → ∃ e, Except.error e ∈ bfsSpec (hlocVisit key) k q)
  | 0, dep, q, h => by
    have : q = [] := by
      cases q with
      | nil => rfl
      | cons x q =>
        have := (h x (by simp)).1
        cases hx : x.1 <;> simp [hx, WF] at this
    subst this
    exact ⟨rfl, by simp [bfsVisited], fun _ => ⟨[], rfl, rfl⟩, fun hn => absurd (by simp) hn⟩
  | k + 1, dep, q, h => by
    obtain ⟨p1, p2, p3, p4, p5, p6⟩ := hloc_passS key hs hnd N k dep q h
    obtain ⟨r1, r2, r3, r4⟩ := hloc_layersS key hs hnd N k (dep + 1) _ p1
    simp only [bfsLayers, bfsVisited, bfsSpec]
    refine ⟨r1, by omega, ?_, ?_⟩
    · intro hc
      obtain ⟨hl, hc'⟩ := p3.mp hc
      by_cases hk : k = 0
      · obtain ⟨e1, e2⟩ := p5 hk
        obtain ⟨parts0, e3, e4⟩ := e2 hl
        subst hk
        exact ⟨parts0, by simp [e3, bfsSpec], e4⟩
      · obtain ⟨e1, e2⟩ := p6 (by omega)
        obtain ⟨parts, r5, r6⟩ := r3 hc'
        exact ⟨parts, by simp [e1 hl, r5], by rw [r6, e2]⟩
    · intro hn
      by_cases hl : ∀ x ∈ q, localOK key dep x = true
      · have : ¬ (∀ y ∈ bfsExpand (hlocVisit key) q, cleanE key (dep + 1) y = true) :=
          fun hc' => hn (p3.mpr ⟨hl, hc'⟩)
        obtain ⟨e, he⟩ := r4 this
        exact ⟨e, List.mem_append_right _ he⟩
      · obtain ⟨e, he⟩ := p4 hl
        exact ⟨e, List.mem_append_left _ he⟩

/-! ### result of `locToIloc` -/

theorem specPosS_bounds (key : List (Sel α)) : ∀ (d : Nat) (t : Level α) (dep start : Nat), WF d t →
    ∀ p ∈ specPosS key t dep start, start ≤ p ∧ p < start + t.len
  | 0, t, dep, start, hw, p, hp => by cases t <;> simp [WF] at hw
  | d + 1, .leaf ls o, dep, start, hw, p, hp => by
    simp only [specPosS, List.mem_map] at hp
    obtain ⟨i, hi, rfl⟩ := hp
    have := idxsS_lt i hi
    simp only [len]; omega
  | d + 1, .node ls cs o, dep, start, hw, p, hp => by
    simp only [WF] at hw
    have hd : d + 1 - 1 = d := by omega
    rw [hd] at hw
    simp only [specPosS, List.mem_flatMap] at hp
    obtain ⟨i, _, hp⟩ := hp
    rw [specPosSIdx_eq key cs 0 i (dep + 1) start hw.2.2.2] at hp
    cases hc : cs[i]? with
    | none => rw [hc] at hp; simp at hp
    | some c =>
      rw [hc] at hp
      simp only at hp
      obtain ⟨w1, w2, w3⟩ := WFList_getElem cs 0 i c hw.2.2.2 hc
      have := specPosS_bounds key d c (dep + 1) (start + c.offset - 0) w1 p hp
      simp only [len]; omega

/-- the loop on a key of label / all / list / ascending-slice selectors: it terminates within its fuel;
    when no visited node lacks a slice endpoint every part is well formed and the parts address
    `specPosS`; otherwise some node yielded LocInvalid -/
theorem locToIloc_slices {t : Level α} {d : Nat} (hw : WF d t) (ho : t.offset = 0) (key : List (Sel α))
    (hs : ∀ dep, (key.getD dep .all).simpleS = true)
    (hnd : ∀ dep as, key.getD dep .all = .list as → as.Nodup) :
    ∃ items, bfs (hlocVisit key) t.nodes [(t, (0, 0))] = some items ∧
      (clean key t 0 = true → ∃ parts, items = parts.map .ok ∧
        flattenParts t.len parts = .ok ((specPosS key t 0 0).map Int.ofNat)) ∧
      (clean key t 0 ≠ true → ∃ e, Except.error e ∈ items) := by
  have hq : ∀ x ∈ [(t, ((0 : Nat), (0 : Nat)))], EntryOK d 0 t.len x := by
    intro x hx
    simp only [List.mem_singleton] at hx
    subst hx
    exact ⟨hw, rfl, by simp [est, ho]⟩
  obtain ⟨h1, h2, h3, h4⟩ := hloc_layersS key hs hnd t.len d 0 _ hq
  refine ⟨_, bfs_eq_spec _ d _ _ h1 (by simpa [nodesSum] using h2), ?_, ?_⟩
  · intro hc
    obtain ⟨parts, e1, e2⟩ := h3 (by simpa [cleanE] using hc)
    exact ⟨parts, e1, by simpa [specES, est, ho] using e2⟩
  · intro hc
    exact h4 (by simpa [cleanE] using hc)

theorem locToIloc_slices_result {t : Level α} {d : Nat} (hw : WF d t) (ho : t.offset = 0) (key : List (Sel α))
    (hs : ∀ dep, (key.getD dep .all).simpleS = true)
    (hnd : ∀ dep as, key.getD dep .all = .list as → as.Nodup) (hc : clean key t 0 = true) :
    (t.locToIloc key = .error .lookup ∧ specPosS key t 0 0 = []) ∨
    ∃ r, t.locToIloc key = .ok r ∧ r.positions t.len = .ok (specPosS key t 0 0) := by
  obtain ⟨items, h1, h3, _⟩ := locToIloc_slices hw ho key hs hnd
  obtain ⟨parts, rfl, h2⟩ := h3 hc
  have hb : ∀ p ∈ specPosS key t 0 0, p < t.len := by
    intro p hp; have := specPosS_bounds key d t 0 0 hw p hp; omega
  unfold locToIloc
  simp only [h1, sequence_ok]
  match parts, h2 with
  | [], h2 =>
    left
    simp only [flattenParts, Except.ok.injEq] at h2
    refine ⟨rfl, ?_⟩
    cases hsp : specPosS key t 0 0 with
    | nil => rfl
    | cons a b => rw [hsp] at h2; simp at h2
  | [one], h2 =>
    right
    simp only
    by_cases hm : key.any Sel.isMultiple = true
    · rw [if_pos hm, h2]
      exact ⟨_, rfl, list_positions_of_lt _ _ hb⟩
    · rw [if_neg hm]
      exact ⟨one, rfl, part_positions hb h2⟩
  | p1 :: p2 :: rest, h2 =>
    right
    simp only [h2]
    exact ⟨_, rfl, list_positions_of_lt _ _ hb⟩

/-! ### what `specPosS` selects -/

theorem matchInAt_eq (key : List (Sel α)) : ∀ (cs : List (Level α)) (i dep : Nat) (rest : List α),
    matchInAt key cs i dep rest = match cs[i]? with
      | some c => matchIn key c dep rest
      | none => false
  | [], i, dep, rest => by simp [matchInAt]
  | c :: cs, 0, dep, rest => by simp [matchInAt]
  | c :: cs, i + 1, dep, rest => by simp [matchInAt, matchInAt_eq key cs i dep rest]

theorem mem_specPosS (key : List (Sel α)) (hs : ∀ dep, (key.getD dep .all).simpleS = true) :
    ∀ (d : Nat) (t : Level α) (dep start p : Nat), WF d t →
    (p ∈ specPosS key t dep start ↔ ∃ tup, matchIn key t dep tup = true ∧ t.leafLoc tup start = .ok p)
  | 0, t, dep, start, p, hw => by cases t <;> simp [WF] at hw
  | d + 1, .leaf ls o, dep, start, p, hw => by
    simp only [WF] at hw
    simp only [specPosS, List.mem_map]
    constructor
    · rintro ⟨i, hi, rfl⟩
      obtain ⟨a, ha, hm⟩ := (mem_idxsS hw.2 (hs dep) i).mp hi
      refine ⟨[a], by simp only [matchIn, hm], ?_⟩
      simp [leafLoc, (pos?_eq_some_iff hw.2).mpr ha]
    · rintro ⟨tup, hm, hl⟩
      match tup, hm, hl with
      | [], _, hl => simp [leafLoc] at hl
      | _ :: _ :: _, _, hl => simp [leafLoc] at hl
      | [a], hm, hl =>
        simp only [leafLoc] at hl
        cases hp : pos? ls a with
        | none => rw [hp] at hl; cases hl
        | some i =>
          rw [hp] at hl
          simp only [Except.ok.injEq] at hl
          refine ⟨i, (mem_idxsS hw.2 (hs dep) i).mpr ⟨a, (pos?_eq_some_iff hw.2).mp hp, ?_⟩, hl⟩
          simpa only [matchIn] using hm
  | d + 1, .node ls cs o, dep, start, p, hw => by
    simp only [WF] at hw
    have hd : d + 1 - 1 = d := by omega
    rw [hd] at hw
    simp only [specPosS, List.mem_flatMap]
    constructor
    · rintro ⟨i, hi, hp⟩
      obtain ⟨a, ha, hm⟩ := (mem_idxsS hw.2.1 (hs dep) i).mp hi
      rw [specPosSIdx_eq key cs 0 i (dep + 1) start hw.2.2.2] at hp
      cases hc : cs[i]? with
      | none => rw [hc] at hp; simp at hp
      | some c =>
        rw [hc] at hp
        simp only [Nat.sub_zero] at hp
        obtain ⟨w1, _, _⟩ := WFList_getElem cs 0 i c hw.2.2.2 hc
        obtain ⟨tup, t1, t2⟩ := (mem_specPosS key hs d c (dep + 1) (start + c.offset) p w1).mp hp
        have hpa := (pos?_eq_some_iff hw.2.1).mpr ha
        refine ⟨a :: tup, by simp only [matchIn, hm, hpa, matchInAt_eq, hc, t1, Bool.and_self], ?_⟩
        simp only [leafLoc, hpa, leafLocAt_eq, hc, t2]
    · rintro ⟨tup, hm, hl⟩
      match tup, hm, hl with
      | [], _, hl => simp [leafLoc] at hl
      | a :: rest, hm, hl =>
        simp only [leafLoc] at hl
        cases hp : pos? ls a with
        | none => rw [hp] at hl; cases hl
        | some i =>
          rw [hp] at hl
          simp only at hl
          rw [leafLocAt_eq] at hl
          simp only [matchIn, hp, matchInAt_eq, Bool.and_eq_true] at hm
          have ha := (pos?_eq_some_iff hw.2.1).mp hp
          refine ⟨i, (mem_idxsS hw.2.1 (hs dep) i).mpr ⟨a, ha, hm.1⟩, ?_⟩
          rw [specPosSIdx_eq key cs 0 i (dep + 1) start hw.2.2.2]
          cases hc : cs[i]? with
          | none => rw [hc] at hl; cases hl
          | some c =>
            rw [hc] at hl hm
            simp only [Nat.sub_zero] at hl hm ⊢
            obtain ⟨w1, _, _⟩ := WFList_getElem cs 0 i c hw.2.2.2 hc
            exact (mem_specPosS key hs d c (dep + 1) (start + c.offset) p w1).mpr ⟨rest, hm.2, hl⟩

/-- `specPosS` is exactly the set of positions whose tuple matches every selector, each component in
    the node it lives in -/
theorem specPosS_mem_iff {t : Level α} {d : Nat} (hw : WF d t) (key : List (Sel α))
    (hs : ∀ dep, (key.getD dep .all).simpleS = true) (p : Nat) :
    p ∈ specPosS key t 0 0 ↔ ∃ tup, t.tuples[p]? = some tup ∧ matchIn key t 0 tup = true := by
  rw [mem_specPosS key hs d t 0 0 p hw]
  constructor
  · rintro ⟨tup, hm, hl⟩
    obtain ⟨i, hi, ht⟩ := (leafLoc_spec t d hw tup 0 p).mp hl
    simp only [Nat.zero_add] at hi; subst hi
    exact ⟨tup, ht, hm⟩
  · rintro ⟨tup, ht, hm⟩
    exact ⟨tup, hm, (leafLoc_spec t d hw tup 0 p).mpr ⟨p, by simp, ht⟩⟩

/-! ### index order: without list selectors the selected positions are ascending -/

theorem pairwise_lt_ext : ∀ (l1 l2 : List Nat), l1.Pairwise (· < ·) → l2.Pairwise (· < ·) →
    (∀ x, x ∈ l1 ↔ x ∈ l2) → l1 = l2
  | [], [], _, _, _ => rfl
  | [], b :: l2, _, _, h => by have := (h b).mpr (by simp); simp at this
  | a :: l1, [], _, _, h => by have := (h a).mp (by simp); simp at this
  | a :: l1, b :: l2, h1, h2, h => by
    rw [List.pairwise_cons] at h1 h2
    have hab : a = b := by
      have m1 := (h a).mp (by simp)
      have m2 := (h b).mpr (by simp)
      simp only [List.mem_cons] at m1 m2
      rcases m1 with m1 | m1
      · exact m1
      · rcases m2 with m2 | m2
        · exact m2.symm
        · have := h1.1 b m2; have := h2.1 a m1; omega
    subst hab
    congr 1
    apply pairwise_lt_ext l1 l2 h1.2 h2.2
    intro x
    constructor
    · intro hx
      have := (h x).mp (by simp [hx])
      simp only [List.mem_cons] at this
      rcases this with rfl | this
      · have := h1.1 x hx; omega
      · exact this
    · intro hx
      have := (h x).mpr (by simp [hx])
      simp only [List.mem_cons] at this
      rcases this with rfl | this
      · have := h2.1 x hx; omega
      · exact this

theorem idxsS_sorted {ls : List α} {sel : Sel α} (hnl : ∀ as, sel ≠ .list as) :
    (sel.idxsS ls).Pairwise (· < ·) := by
  cases sel with
  | all => exact List.pairwise_lt_range
  | label a =>
    simp only [Sel.idxsS, Sel.idxs]
    cases pos? ls a <;> simp
  | list as => exact absurd rfl (hnl as)
  | mask bs => simp [Sel.idxsS, Sel.idxs]
  | slice s e st =>
    simp only [Sel.idxsS]
    split
    · rw [List.pairwise_map]
      exact List.Pairwise.imp (fun hab => by omega) List.pairwise_lt_range
    · simp

/-- the targets of a well-formed node cover consecutive runs of leaves -/
theorem WFList_offsets {d : Nat} : ∀ (cs : List (Level α)) (acc i j : Nat) (ci cj : Level α), WFList d acc cs →
    i < j → cs[i]? = some ci → cs[j]? = some cj → ci.offset + ci.len ≤ cj.offset
  | [], acc, i, j, ci, cj, _, _, h, _ => by simp at h
  | c0 :: cs, acc, i, 0, ci, cj, _, hij, _, _ => by omega
  | c0 :: cs, acc, 0, j + 1, ci, cj, hw, _, hi, hj => by
    simp only [WFList] at hw
    simp only [List.getElem?_cons_zero, Option.some.injEq] at hi
    simp only [List.getElem?_cons_succ] at hj
    subst hi
    have := (WFList_getElem cs (acc + c0.len) j cj hw.2.2 hj).2.1
    omega
  | c0 :: cs, acc, i + 1, j + 1, ci, cj, hw, hij, hi, hj => by
    simp only [WFList] at hw
    simp only [List.getElem?_cons_succ] at hi hj
    exact WFList_offsets cs (acc + c0.len) i j ci cj hw.2.2 (by omega) hi hj

theorem specPosS_sorted (key : List (Sel α)) (hnl : ∀ dep as, key.getD dep .all ≠ .list as) :
    ∀ (d : Nat) (t : Level α) (dep start : Nat), WF d t → (specPosS key t dep start).Pairwise (· < ·)
  | 0, t, dep, start, hw => by cases t <;> simp [WF] at hw
  | d + 1, .leaf ls o, dep, start, hw => by
    simp only [specPosS, List.pairwise_map]
    exact List.Pairwise.imp (fun hab => by omega) (idxsS_sorted (hnl dep))
  | d + 1, .node ls cs o, dep, start, hw => by
    simp only [WF] at hw
    have hd : d + 1 - 1 = d := by omega
    rw [hd] at hw
    simp only [specPosS]
    rw [List.pairwise_flatMap]
    constructor
    · intro i _
      rw [specPosSIdx_eq key cs 0 i (dep + 1) start hw.2.2.2]
      cases hc : cs[i]? with
      | none => simp
      | some c =>
        obtain ⟨w1, _, _⟩ := WFList_getElem cs 0 i c hw.2.2.2 hc
        exact specPosS_sorted key hnl d c (dep + 1) _ w1
    · refine List.Pairwise.imp ?_ (idxsS_sorted (ls := ls) (hnl dep))
      intro i j hij x hx y hy
      rw [specPosSIdx_eq key cs 0 i (dep + 1) start hw.2.2.2] at hx
      rw [specPosSIdx_eq key cs 0 j (dep + 1) start hw.2.2.2] at hy
      cases hci : cs[i]? with
      | none => rw [hci] at hx; simp at hx
      | some ci =>
        cases hcj : cs[j]? with
        | none => rw [hcj] at hy; simp at hy
        | some cj =>
          rw [hci] at hx; rw [hcj] at hy
          simp only [Nat.sub_zero] at hx hy
          obtain ⟨w1, _, _⟩ := WFList_getElem cs 0 i ci hw.2.2.2 hci
          obtain ⟨w2, _, _⟩ := WFList_getElem cs 0 j cj hw.2.2.2 hcj
          have b1 := specPosS_bounds key d ci (dep + 1) _ w1 x hx
          have b2 := specPosS_bounds key d cj (dep + 1) _ w2 y hy
          have := WFList_offsets cs 0 i j ci cj hw.2.2.2 hij hci hcj
          omega

/-- the positions (in index order) whose tuple matches every per-depth selector, each component in
    the node it lives in -/
def matchPositions (key : List (Sel α)) (t : Level α) : List Nat :=
  (List.range t.len).filter (fun p => match t.tuples[p]? with
    | some tup => matchIn key t 0 tup
    | none => false)

theorem specPosS_eq_matchPositions {t : Level α} {d : Nat} (hw : WF d t) (key : List (Sel α))
    (hs : ∀ dep, (key.getD dep .all).simpleS = true) (hnl : ∀ dep as, key.getD dep .all ≠ .list as) :
    specPosS key t 0 0 = matchPositions key t := by
  apply pairwise_lt_ext _ _ (specPosS_sorted key hnl d t 0 0 hw)
    (List.Pairwise.filter _ List.pairwise_lt_range)
  intro p
  rw [specPosS_mem_iff hw key hs p]
  simp only [List.mem_filter, List.mem_range]
  constructor
  · rintro ⟨tup, ht, hm⟩
    have := (List.getElem?_eq_some_iff.mp ht).1
    rw [tuples_length t d hw] at this
    exact ⟨this, by simp only [ht, hm]⟩
  · rintro ⟨_, hm⟩
    cases ht : t.tuples[p]? with
    | none => simp [ht] at hm
    | some tup => rw [ht] at hm; exact ⟨tup, rfl, hm⟩

/-! ### the exception is LocInvalid (`Err.lookup`) -/

theorem hloc_emit_lookup (key : List (Sel α)) (hs : ∀ dep, (key.getD dep .all).simpleS = true)
    (hnd : ∀ dep as, key.getD dep .all = .list as → as.Nodup) (N k dep : Nat) :
    ∀ (q : List (Level α × (Nat × Nat))), (∀ x ∈ q, EntryOK (k + 1) dep N x) →
      ∀ e, Except.error e ∈ bfsEmit (hlocVisit key) q → e = Err.lookup
  | [], _, e, he => by simp at he
  | x :: q, h, e, he => by
    have hx := h x (by simp)
    obtain ⟨t, dep', off⟩ := x
    have hdep : dep' = dep := hx.2.1
    subst hdep
    obtain ⟨_, _, _, j4, j5, j6⟩ := hloc_entryS key hs hnd N k dep' t off hx
    rw [bfsEmit_cons, List.mem_append] at he
    rcases he with he | he
    · by_cases hl : localOK key dep' (t, dep', off) = true
      · by_cases hk : k = 0
        · obtain ⟨parts, e1, _⟩ := (j5 hk).2 hl
          rw [e1] at he; simp at he
        · rw [(j6 (by omega)).1 hl] at he; simp at he
      · rw [j4 hl] at he
        simpa using he
    · exact hloc_emit_lookup key hs hnd N k dep' q (fun y hy => h y (by simp [hy])) e he

theorem hloc_layers_lookup (key : List (Sel α)) (hs : ∀ dep, (key.getD dep .all).simpleS = true)
    (hnd : ∀ dep as, key.getD dep .all = .list as → as.Nodup) (N : Nat) :
    ∀ (k dep : Nat) (q : List (Level α × (Nat × Nat))), (∀ x ∈ q, EntryOK k dep N x) →
      ∀ e, Except.error e ∈ bfsSpec (hlocVisit key) k q → e = Err.lookup
  | 0, dep, q, h, e, he => by simp [bfsSpec] at he
  | k + 1, dep, q, h, e, he => by
    simp only [bfsSpec, List.mem_append] at he
    rcases he with he | he
    · exact hloc_emit_lookup key hs hnd N k dep q h e he
    · exact hloc_layers_lookup key hs hnd N k (dep + 1) _ (hloc_passS key hs hnd N k dep q h).1 e he

theorem sequence_error_of {ε β : Type} (e0 : ε) : ∀ (l : List (Except ε β)), (∃ e, Except.error e ∈ l) →
    (∀ e, Except.error e ∈ l → e = e0) → sequence l = .error e0
  | [], h, _ => by obtain ⟨e, he⟩ := h; simp at he
  | .error e :: l, _, h2 => by rw [h2 e (by simp)]; rfl
  | .ok b :: l, h, h2 => by
    obtain ⟨e, he⟩ := h
    simp only [List.mem_cons, reduceCtorEq, false_or] at he
    have := sequence_error_of e0 l ⟨e, he⟩ (fun e' he' => h2 e' (by simp [he']))
    simp [sequence, this]

/-- a visited node that lacks a slice endpoint makes the whole call raise LocInvalid: never data -/
theorem locToIloc_slices_lookup {t : Level α} {d : Nat} (hw : WF d t) (ho : t.offset = 0) (key : List (Sel α))
    (hs : ∀ dep, (key.getD dep .all).simpleS = true)
    (hnd : ∀ dep as, key.getD dep .all = .list as → as.Nodup) (hc : clean key t 0 ≠ true) :
    t.locToIloc key = .error .lookup := by
  have hq : ∀ x ∈ [(t, ((0 : Nat), (0 : Nat)))], EntryOK d 0 t.len x := by
    intro x hx
    simp only [List.mem_singleton] at hx
    subst hx
    exact ⟨hw, rfl, by simp [est, ho]⟩
  obtain ⟨h1, h2, _, h4⟩ := hloc_layersS key hs hnd t.len d 0 _ hq
  have hb := bfs_eq_spec (hlocVisit key) d _ t.nodes h1 (by simpa [nodesSum] using h2)
  have he := sequence_error_of Err.lookup _ (h4 (by simpa [cleanE] using hc))
    (hloc_layers_lookup key hs hnd t.len d 0 _ hq)
  unfold locToIloc
  simp only [hb, he]

/-! ### sufficient condition: no selector can lack an endpoint -/

mutual
theorem clean_of_present (key : List (Sel α)) (h : ∀ dep ls, (key.getD dep .all).present ls = true) :
    ∀ (t : Level α) (dep : Nat), clean key t dep = true
  | .leaf ls o, dep => by simp only [clean, h]
  | .node ls cs o, dep => by
    simp only [clean, h, Bool.true_and]
    exact cleanSel_of_present key h cs _ 0 (dep + 1)
theorem cleanSel_of_present (key : List (Sel α)) (h : ∀ dep ls, (key.getD dep .all).present ls = true) :
    ∀ (cs : List (Level α)) (is : List Nat) (j dep : Nat), cleanSel key cs is j dep = true
  | [], _, _, _ => rfl
  | c :: cs, is, j, dep => by
    simp only [cleanSel, clean_of_present key h c dep, cleanSel_of_present key h cs is (j + 1) dep,
      Bool.or_true, Bool.and_self]
end

end Level
end SF
