/-
  Bridge lemmas for C13 (windows): the definitions regenerated from the current
  static_frame/core/container_util.py by tools/py2lean_window.py (`SF.Gen.Window.axis_window_items_*`)
  equal the hand-written mirrored definitions of SFModel/Window.lean (`countWindowMax`, the initial
  `WinSt`, `winBody`, `winExit`, `winLoop`, `windows`) that the C13 window theorems are about.
  Re-checked by the kernel on every run against what the source says *now*.

  `validOf` reads the Python argument `window_valid` (None or a callable) as the model's callback.
  The proofs are closed by unfold / split / simp / omega; the only facts about the generated terms they
  use are the two `WindowSem` lemmas below (a slice whose bounds are not negative is clamped by `min`;
  a label position that is not negative exists iff it is below `n`), so a source change that keeps the
  meaning keeps the proofs, one that alters a bound, a comparison, a constant or the order of a test
  and an update does not.
-/
import SFModel.Window
import SFModel.Gen.Window

namespace SF.BridgeWindow
open SF SF.Window SF.WindowSem

/-- `window_valid=None` accepts every window -/
def validOf : Option (Nat → Nat → Bool) → Nat → Nat → Bool
  | none => fun _ _ => true
  | some f => f

/-! ### the translator's two primitives against the project's Python semantics (Slice.lean) -/

/-- `labels.iloc[i]` is NumPy integer indexing: `normPos` of Slice.lean -/
theorem ilocPos_normPos (n : Nat) (i : Int) :
    ilocPos n i = match normPos i n with | .ok p => some p | .error _ => none := by
  unfold ilocPos normPos
  by_cases h1 : 0 ≤ i ∧ i < n
  · simp only [if_pos h1]
  · by_cases h2 : i < 0 ∧ -(n : Int) ≤ i
    · simp only [if_neg h1, if_pos h2]
    · simp only [if_neg h1, if_neg h2]

/-- `X[slice(a, b)]` through `slice.indices(n)` and `range`: first position and number of positions -/
theorem sliceWindow_indices (a b : Int) (n : Nat) :
    (PySlice.mk (some a) (some b) none).indices n = .ok (adjust a n, adjust b n, 1) ∧
    (sliceWindow a b n).1 = (adjust a n).toNat ∧
    (sliceWindow a b n).2 = rangeLen (adjust a n) (adjust b n) 1 := by
  refine ⟨?_, rfl, ?_⟩
  · simp [PySlice.indices, adjust]
  · unfold sliceWindow rangeLen
    simp only []
    split
    · split
      · rw [Int.ediv_one]; congr 1; omega
      · omega
    · omega

theorem sliceWindow_nonneg (a b : Int) (n : Nat) (ha : 0 ≤ a) (hb : 0 ≤ b) :
    sliceWindow a b n = (min a.toNat n, min b.toNat n - min a.toNat n) := by
  unfold sliceWindow adjust
  rw [if_neg (by omega), if_neg (by omega)]
  ext <;> simp <;> omega

theorem ilocPos_nonneg (n : Nat) (i : Int) (hi : 0 ≤ i) :
    ilocPos n i = if i < n then some i.toNat else none := by
  unfold ilocPos
  by_cases h : i < n
  · rw [if_pos ⟨hi, h⟩, if_pos h]
  · rw [if_neg (by omega), if_neg (by omega), if_neg h]

/-! ### the hand-mirrored body in propositional form -/

/-- the yield decision of `winBody` as one proposition -/
theorem winBody_fst (p : WinParams) (n : Nat) (valid : Nat → Nat → Bool) (s : WinSt) (L : Int) (lo len : Nat)
    (hL : L = s.idxLeft + s.size - 1 + p.labelShift)
    (hlo : lo = min (if s.idxLeft > 0 then s.idxLeft else 0).toNat n)
    (hlen : len = min ((if s.idxLeft + s.size - 1 > -1 then s.idxLeft + s.size - 1 else -1) + 1).toNat n - lo) :
    (winBody p n valid s).1 =
      if 0 ≤ L ∧ L < n ∧ (p.windowSized = true → (len : Int) = s.size) ∧ valid lo len = true
      then some (L.toNat, lo, len) else none := by
  subst hL hlen hlo
  unfold winBody
  simp only []
  cases p.windowSized <;> simp [and_assoc]

theorem winBody_snd (p : WinParams) (n : Nat) (valid : Nat → Nat → Bool) (s : WinSt) :
    (winBody p n valid s).2 = ⟨s.idxLeft + p.step, s.size + p.sizeIncrement, s.count + 1⟩ := rfl

/-! ### generated = hand-mirrored -/

/-- the defaults of `step, window_sized, label_shift, start_shift, size_increment` and `window_valid=None` -/
theorem defaults_bridge : Gen.Window.axis_window_items_defaults = (1, true, 0, 0, 0, true) := by
  decide

/-- the argument guards and the prelude: RuntimeError for `size <= 0` / `step < 0`, otherwise
    `count_window_max`, `idx_left_max = count_window_max - 1`, `idx_left = start_shift`, `count = 0` -/
theorem init_bridge (p : WinParams) (n : Nat) (v : Option (Nat → Nat → Bool)) :
    Gen.Window.axis_window_items_init n p.size p.step p.windowSized v p.labelShift p.startShift p.sizeIncrement
      = if p.size ≤ 0 then .error .shape else if p.step < 0 then .error .shape
        else .ok ((countWindowMax p n : Int), (countWindowMax p n : Int) - 1, p.startShift, ((0 : Nat) : Int)) := by
  unfold Gen.Window.axis_window_items_init countWindowMax
  simp only []
  repeat' split
  all_goals (first | rfl | omega | (simp <;> omega))

/-- first part of a pass (up to the `yield`): what the generated body yields is what `winBody` yields
    (`count_window_max`, `idx_left_max`, `count` are not read there) -/
theorem yield_bridge (p : WinParams) (n : Nat) (v : Option (Nat → Nat → Bool)) (s : WinSt) (cwm ilm c : Int) :
    Gen.Window.axis_window_items_yield n p.step p.windowSized v p.labelShift p.startShift p.sizeIncrement
        cwm ilm s.idxLeft s.size c
      = (winBody p n (validOf v) s).1.toList := by
  rw [winBody_fst p n (validOf v) s _ _ _ rfl rfl rfl]
  unfold Gen.Window.axis_window_items_yield
  simp only []
  rw [sliceWindow_nonneg _ _ n (by first | omega | (split <;> omega)) (by first | omega | (split <;> omega))]
  repeat' split
  all_goals (simp_all [validOf, ilocPos_nonneg] <;> omega)

/-- second part of a pass: the generated state update is `winBody`'s next state and the generated
    `break` test is `winExit` on that state -/
theorem update_bridge (p : WinParams) (n : Nat) (v : Nat → Nat → Bool) (s : WinSt) :
    Gen.Window.axis_window_items_update p.step p.labelShift p.startShift p.sizeIncrement
        (countWindowMax p n) ((countWindowMax p n : Int) - 1) s.idxLeft s.size s.count
      = (((winBody p n v s).2.idxLeft, (winBody p n v s).2.size, ((winBody p n v s).2.count : Int)),
         winExit p n (winBody p n v s).2) := by
  rw [winBody_snd]
  unfold Gen.Window.axis_window_items_update
  simp only []
  repeat' split
  all_goals (simp [winExit] <;> omega)

/-- one pass of the generated loop body (yield part; update part) -/
theorem step_bridge (p : WinParams) (n : Nat) (v : Option (Nat → Nat → Bool)) (s : WinSt) :
    Gen.Window.axis_window_items_step n p.step p.windowSized v p.labelShift p.startShift p.sizeIncrement
        (countWindowMax p n) ((countWindowMax p n : Int) - 1) s.idxLeft s.size s.count
      = ((winBody p n (validOf v) s).1.toList,
         ((winBody p n (validOf v) s).2.idxLeft, (winBody p n (validOf v) s).2.size, ((winBody p n (validOf v) s).2.count : Int)),
         winExit p n (winBody p n (validOf v) s).2) := by
  unfold Gen.Window.axis_window_items_step
  rw [yield_bridge, update_bridge p n (validOf v) s]

/-- **body_bridge**: one pass of the generated loop body = `winBody` (what is yielded, the next state) -/
theorem body_bridge (p : WinParams) (n : Nat) (v : Option (Nat → Nat → Bool)) (s : WinSt) :
    let g := Gen.Window.axis_window_items_step n p.step p.windowSized v p.labelShift p.startShift p.sizeIncrement
        (countWindowMax p n) ((countWindowMax p n : Int) - 1) s.idxLeft s.size s.count
    let r := winBody p n (validOf v) s
    g.1 = r.1.toList ∧ g.2.1 = (r.2.idxLeft, r.2.size, (r.2.count : Int)) := by
  intro g r
  simp only [g, r, step_bridge, and_self]

/-- **exit_bridge**: the generated `break` test after a pass = `winExit` on the state after `winBody` -/
theorem exit_bridge (p : WinParams) (n : Nat) (v : Option (Nat → Nat → Bool)) (s : WinSt) :
    (Gen.Window.axis_window_items_step n p.step p.windowSized v p.labelShift p.startShift p.sizeIncrement
        (countWindowMax p n) ((countWindowMax p n : Int) - 1) s.idxLeft s.size s.count).2.2
      = winExit p n (winBody p n (validOf v) s).2 := by
  rw [step_bridge]

/-- **loop_bridge**: the generated `while True` (with fuel) = `winLoop`, from every state, for every fuel -/
theorem loop_bridge (p : WinParams) (n : Nat) (v : Option (Nat → Nat → Bool)) (fuel : Nat) : ∀ (s : WinSt),
    Gen.Window.axis_window_items_loop n p.step p.windowSized v p.labelShift p.startShift p.sizeIncrement
        (countWindowMax p n) ((countWindowMax p n : Int) - 1) fuel (s.idxLeft, s.size, (s.count : Int))
      = winLoop p n (validOf v) fuel s := by
  induction fuel with
  | zero => intro s; rfl
  | succ fuel ih =>
    intro s
    rw [Gen.Window.axis_window_items_loop, winLoop]
    simp only [step_bridge]
    rw [ih]

/-- **windows_bridge**: the whole generated generator (guards, prelude, loop) = `windows` -/
theorem windows_bridge (p : WinParams) (n : Nat) (v : Option (Nat → Nat → Bool)) :
    Gen.Window.axis_window_items (countWindowMax p n + 1) n p.size p.step p.windowSized v p.labelShift p.startShift
        p.sizeIncrement
      = windows p n (validOf v) := by
  unfold Gen.Window.axis_window_items windows
  rw [init_bridge]
  by_cases h1 : p.size ≤ 0
  · simp only [if_pos h1]
  · by_cases h2 : p.step < 0
    · simp only [if_neg h1, if_pos h2]
    · simp only [if_neg h1, if_neg h2]
      have h := loop_bridge p n v (countWindowMax p n + 1) ⟨p.startShift, p.size, 0⟩
      simp only [] at h
      rw [h]
      first | rfl | (split <;> rfl)

/-! ### non-vacuity: the generated function runs -/

example : Gen.Window.axis_window_items 5 4 2 1 true none 0 0 0 = .ok [(1, 0, 2), (2, 1, 2), (3, 2, 2)] := by decide

example : Gen.Window.axis_window_items 5 4 0 1 true none 0 0 0 = .error .shape := by decide

/-- a negative label position is dropped although `labels.iloc[-1]` exists: the `idx_label < 0` guard -/
example : Gen.Window.axis_window_items 4 3 1 1 false none (-1) 0 0 = .ok [(0, 1, 1), (1, 2, 1)] := by decide

example : ilocPos 3 (-1) = some 2 ∧ ilocPos 3 3 = none ∧ ilocPos 3 (-4) = none := by decide

end SF.BridgeWindow
