/-
  Helper lemmas for SFModel.Index (automap as association list, IndexGO invariant).
-/
import SFModel.Index
set_option linter.unusedSectionVars false

namespace SF
open IntLabel

namespace AMap
variable {α : Type} [DecidableEq α]

theorem get?_append (m₁ m₂ : AMap α) (a : α) :
    get? (m₁ ++ m₂) a = match get? m₁ a with | some v => some v | none => get? m₂ a := by
  induction m₁ with
  | nil => simp [get?]
  | cons kv m ih =>
    obtain ⟨k, v⟩ := kv
    simp only [List.cons_append, get?]
    by_cases h : k = a
    · simp [h]
    · simp [h, ih]

theorem get?_zipIdx_none {l : List α} {a : α} (k : Nat) (h : a ∉ l) : get? (l.zipIdx k) a = none := by
  induction l generalizing k with
  | nil => simp [get?]
  | cons x l ih =>
    simp only [List.mem_cons, not_or] at h
    simp only [List.zipIdx_cons, get?]
    rw [if_neg (fun e => h.1 e.symm)]
    exact ih _ h.2

theorem get?_zipIdx_some {l : List α} {a : α} {i : Nat} (k : Nat) (hn : l.Nodup)
    (h : l[i]? = some a) : get? (l.zipIdx k) a = some (i + k) := by
  induction l generalizing k i with
  | nil => simp at h
  | cons x l ih =>
    rw [List.nodup_cons] at hn
    simp only [List.zipIdx_cons, get?]
    cases i with
    | zero =>
      simp only [List.getElem?_cons_zero, Option.some.injEq] at h
      simp [h]
    | succ i =>
      simp only [List.getElem?_cons_succ] at h
      have hmem : a ∈ l := List.mem_iff_getElem?.mpr ⟨i, h⟩
      have hx : x ≠ a := fun e => hn.1 (e ▸ hmem)
      rw [if_neg hx, ih (k + 1) hn.2 h]
      congr 1; omega

theorem get?_zipIdx_inv {l : List α} {a : α} {p : Nat} (k : Nat)
    (h : get? (l.zipIdx k) a = some p) : ∃ i, p = i + k ∧ l[i]? = some a := by
  induction l generalizing k with
  | nil => simp [get?] at h
  | cons x l ih =>
    simp only [List.zipIdx_cons, get?] at h
    by_cases hx : x = a
    · rw [if_pos hx] at h
      exact ⟨0, by simp at h; omega, by simp [hx]⟩
    · rw [if_neg hx] at h
      obtain ⟨i, hp, hi⟩ := ih _ h
      exact ⟨i + 1, by omega, by simpa using hi⟩

theorem get?_zipIdx_isSome {l : List α} {a : α} (k : Nat) :
    (get? (l.zipIdx k) a).isSome = true ↔ a ∈ l := by
  constructor
  · intro h
    obtain ⟨p, hp⟩ := Option.isSome_iff_exists.mp h
    obtain ⟨i, _, hi⟩ := get?_zipIdx_inv k hp
    exact List.mem_iff_getElem?.mpr ⟨i, hi⟩
  · intro h
    by_cases hs : (get? (l.zipIdx k) a).isSome = true
    · exact hs
    · have : get? (l.zipIdx k) a = none := by
        cases hg : get? (l.zipIdx k) a with
        | none => rfl
        | some v => simp [hg] at hs
      exfalso
      -- a ∈ l gives a first occurrence
      clear hs
      induction l generalizing k with
      | nil => simp at h
      | cons x l ih =>
        simp only [List.zipIdx_cons, get?] at this
        by_cases hx : x = a
        · rw [if_pos hx] at this; cases this
        · rw [if_neg hx] at this
          simp only [List.mem_cons] at h
          rcases h with h | h
          · exact hx h.symm
          · exact ih _ h this

/-- `buildFrom` from a canonical map: succeeds iff no new label repeats or is already held. -/
theorem buildFrom_zipIdx (pre ls : List α) :
    buildFrom (pre.zipIdx 0) ls =
      if ls.Nodup ∧ ∀ a ∈ ls, a ∉ pre then some ((pre ++ ls).zipIdx 0) else none := by
  induction ls generalizing pre with
  | nil => simp [buildFrom]
  | cons a as ih =>
    simp only [buildFrom, add]
    by_cases ha : a ∈ pre
    · have : (get? (pre.zipIdx 0) a).isSome = true := (get?_zipIdx_isSome 0).mpr ha
      rw [if_pos this]
      rw [if_neg]
      intro ⟨_, h⟩
      exact h a (by simp) ha
    · have : ¬ (get? (pre.zipIdx 0) a).isSome = true := fun h => ha ((get?_zipIdx_isSome 0).mp h)
      rw [if_neg this]
      have hz : pre.zipIdx 0 ++ [(a, (pre.zipIdx 0).length)] = (pre ++ [a]).zipIdx 0 := by
        simp [List.zipIdx_append]
      simp only [hz]
      rw [ih (pre ++ [a])]
      have hiff : (as.Nodup ∧ ∀ b ∈ as, b ∉ pre ++ [a]) ↔ ((a :: as).Nodup ∧ ∀ b ∈ a :: as, b ∉ pre) := by
        rw [List.nodup_cons]
        constructor
        · rintro ⟨hn, hb⟩
          refine ⟨⟨fun hm => ?_, hn⟩, ?_⟩
          · exact hb a hm (by simp)
          · intro b hbm
            simp only [List.mem_cons] at hbm
            rcases hbm with rfl | hbm
            · exact ha
            · intro hp; exact hb b hbm (by simp [hp])
        · rintro ⟨⟨hna, hn⟩, hb⟩
          refine ⟨hn, ?_⟩
          intro b hbm hp
          simp only [List.mem_append, List.mem_singleton] at hp
          rcases hp with hp | rfl
          · exact hb b (by simp [hbm]) hp
          · exact hna hbm
      by_cases hc : as.Nodup ∧ ∀ b ∈ as, b ∉ pre ++ [a]
      · rw [if_pos hc, if_pos (hiff.mp hc)]; simp
      · rw [if_neg hc, if_neg (fun h => hc (hiff.mpr h))]

theorem build_eq (ls : List α) : build ls = if ls.Nodup then some (ls.zipIdx 0) else none := by
  have := buildFrom_zipIdx ([] : List α) ls
  simp only [List.zipIdx_nil, List.nil_append, List.not_mem_nil, not_false_eq_true, implies_true,
    and_true] at this
  exact this

theorem build_some_iff {ls : List α} {m : AMap α} : build ls = some m ↔ ls.Nodup ∧ m = ls.zipIdx 0 := by
  rw [build_eq]
  by_cases h : ls.Nodup
  · rw [if_pos h]; constructor
    · intro e; exact ⟨h, (Option.some.inj e).symm⟩
    · rintro ⟨_, rfl⟩; rfl
  · rw [if_neg h]; constructor
    · intro e; cases e
    · rintro ⟨h', _⟩; exact absurd h' h

theorem build_none_iff {ls : List α} : build ls = none ↔ ¬ ls.Nodup := by
  rw [build_eq]
  by_cases h : ls.Nodup
  · rw [if_pos h]; simp [h]
  · rw [if_neg h]; simp [h]

end AMap

/-! ### auto labels -/

section auto
variable {α : Type} [IntLabel α]

theorem autoLabels_length (n : Nat) : (autoLabels n : List α).length = n := by
  simp [autoLabels]

theorem autoLabels_getElem? {n i : Nat} (h : i < n) :
    (autoLabels n : List α)[i]? = some (ofInt (Int.ofNat i)) := by
  simp [autoLabels, List.getElem?_map, List.getElem?_range h]

theorem ofInt_injective {i j : Int} (h : (ofInt i : α) = ofInt j) : i = j := by
  have h1 := toInt_ofInt (α := α) i
  rw [h, toInt_ofInt] at h1
  exact (Option.some.inj h1).symm

theorem mem_autoLabels {n : Nat} {a : α} :
    a ∈ (autoLabels n : List α) ↔ ∃ i : Nat, i < n ∧ a = ofInt (Int.ofNat i) := by
  simp only [autoLabels, List.mem_map, List.mem_range]
  constructor
  · rintro ⟨i, hi, rfl⟩; exact ⟨i, hi, rfl⟩
  · rintro ⟨i, hi, rfl⟩; exact ⟨i, hi, rfl⟩

theorem autoLabels_nodup (n : Nat) : (autoLabels n : List α).Nodup := by
  unfold autoLabels
  rw [List.nodup_iff_pairwise_ne, List.pairwise_map]
  refine List.Pairwise.imp ?_ (List.pairwise_lt_range (n := n))
  intro a b hab e
  have := ofInt_injective e
  simp only [Int.ofNat_eq_natCast] at this
  omega

theorem autoLabels_succ (n : Nat) :
    (autoLabels (n + 1) : List α) = autoLabels n ++ [ofInt (Int.ofNat n)] := by
  simp [autoLabels, List.range_succ]

/-- membership in `0 … n-1` decided the way `__contains__` does on a map-less index -/
theorem mem_autoLabels_iff_toInt {n : Nat} {a : α} :
    a ∈ (autoLabels n : List α) ↔ ∃ i : Int, toInt? a = some i ∧ 0 ≤ i ∧ i < n := by
  rw [mem_autoLabels]
  constructor
  · rintro ⟨i, hi, rfl⟩
    exact ⟨Int.ofNat i, toInt_ofInt _, by simp, by simp; omega⟩
  · rintro ⟨i, ht, h0, hn⟩
    refine ⟨i.toNat, by omega, ?_⟩
    have := ofInt_toInt a i ht
    rw [this]; congr 1
    simp only [Int.ofNat_eq_natCast]; omega

end auto

end SF

namespace SF
open IntLabel

/-! ### Index: lookup on a well-formed index -/

namespace Index
variable {α : Type} [DecidableEq α] [IntLabel α]

theorem mk?_eq (ls : List α) :
    mk? ls = if ls.Nodup then .ok ⟨ls, some (ls.zipIdx 0)⟩ else .error .nonUnique := by
  unfold mk?
  rw [AMap.build_eq]
  by_cases h : ls.Nodup <;> simp [h]

theorem mkAuto_WF (n : Nat) : (mkAuto n : Index α).WF := by
  refine ⟨autoLabels_nodup n, ?_⟩
  simp [mkAuto, autoLabels_length]

theorem contains_iff {ix : Index α} (h : ix.WF) (a : α) : ix.contains a = true ↔ a ∈ ix.labels := by
  obtain ⟨hn, hm⟩ := h
  unfold contains
  cases hmap : ix.map with
  | none =>
    rw [hmap] at hm
    simp only at hm ⊢
    rw [hm, mem_autoLabels_iff_toInt]
    cases ht : toInt? a with
    | none => simp
    | some i =>
      simp [len]
      exact fun _ => decide_eq_true_iff
  | some m =>
    rw [hmap] at hm
    simp only at hm ⊢
    obtain ⟨_, rfl⟩ := AMap.build_some_iff.mp hm
    exact AMap.get?_zipIdx_isSome 0

/-- looking up the i-th label gives position i -/
theorem locToIloc_label {ix : Index α} (h : ix.WF) {i : Nat} {a : α} (hi : ix.labels[i]? = some a) :
    ix.locToIloc (.label a) = .ok (.int i) := by
  obtain ⟨hn, hm⟩ := h
  have hlt : i < ix.labels.length := (List.getElem?_eq_some_iff.mp hi).1
  unfold locToIloc
  cases hmap : ix.map with
  | none =>
    rw [hmap] at hm
    simp only at hm ⊢
    rw [hm] at hi
    rw [autoLabels_getElem? hlt] at hi
    have ha : a = ofInt (Int.ofNat i) := (Option.some.inj hi).symm
    subst ha
    simp only [asInt, toInt_ofInt]
    have : normPos (Int.ofNat i) ix.len = .ok i := by
      unfold normPos len
      rw [if_pos]
      · simp
      · simp only [Int.ofNat_eq_natCast]; omega
    rw [this]
    simp
  | some m =>
    rw [hmap] at hm
    simp only at hm ⊢
    obtain ⟨_, rfl⟩ := AMap.build_some_iff.mp hm
    simp only [locToIlocP, hmap, locMap]
    rw [AMap.get?_zipIdx_some 0 hn hi]
    simp

/-- a label that is not held is a lookup error (on auto-integer indices: for non-negative or
    non-integer labels; negative integers in range are finding F13) -/
theorem locToIloc_absent {ix : Index α} (h : ix.WF) {a : α} (ha : a ∉ ix.labels)
    (hneg : ∀ i, toInt? a = some i → 0 ≤ i) :
    ix.locToIloc (.label a) = .error .lookup := by
  obtain ⟨hn, hm⟩ := h
  unfold locToIloc
  cases hmap : ix.map with
  | none =>
    rw [hmap] at hm
    simp only at hm ⊢
    cases ht : toInt? a with
    | none => simp [asInt, ht]
    | some i =>
      simp only [asInt, ht]
      have h0 := hneg i ht
      have hge : ¬ i < (ix.labels.length : Int) := by
        intro hlt
        apply ha
        rw [hm, mem_autoLabels_iff_toInt]
        exact ⟨i, ht, h0, hlt⟩
      have : normPos i ix.len = .error .lookup := by
        unfold normPos len
        rw [if_neg (by omega), if_neg (by omega)]
      rw [this]
  | some m =>
    rw [hmap] at hm
    simp only at hm ⊢
    obtain ⟨_, rfl⟩ := AMap.build_some_iff.mp hm
    simp only [locToIlocP, hmap, locMap]
    rw [AMap.get?_zipIdx_none 0 ha]

end Index

/-! ### IndexGO -/

namespace IndexGO
variable {α : Type} [DecidableEq α] [IntLabel α]

@[simp] theorem cached_mutLabels (s : IndexGO α) : s.cached.mutLabels = s.mutLabels := by
  unfold cached updateArrayCache; split <;> rfl
@[simp] theorem cached_map (s : IndexGO α) : s.cached.map = s.map := by
  unfold cached updateArrayCache; split <;> rfl
@[simp] theorem cached_count (s : IndexGO α) : s.cached.count = s.count := by
  unfold cached updateArrayCache; split <;> rfl
@[simp] theorem cached_recache (s : IndexGO α) : s.cached.recache = false := by
  unfold cached updateArrayCache
  split
  · rfl
  · rename_i h; simpa using h

theorem cached_labels {s : IndexGO α} (h : s.WF) : s.cached.labels = s.mutLabels := by
  unfold cached updateArrayCache
  split
  · rfl
  · rename_i hr
    exact (h.2.2.2 (by simpa using hr)).1

theorem cached_positions {s : IndexGO α} (h : s.WF) : s.cached.positions = s.count := by
  unfold cached updateArrayCache
  split
  · rfl
  · rename_i hr
    exact (h.2.2.2 (by simpa using hr)).2

theorem cached_WF {s : IndexGO α} (h : s.WF) : s.cached.WF := by
  refine ⟨by simpa using h.1, by simpa using h.2.1, by simpa using h.2.2.1, ?_⟩
  intro _
  exact ⟨by simpa using cached_labels h, by simpa using cached_positions h⟩

theorem cached_cached (s : IndexGO α) : s.cached.cached = s.cached := by
  generalize hc : s.cached = c
  have : c.recache = false := hc ▸ cached_recache s
  unfold cached; simp [this]

theorem toIndex_WF {s : IndexGO α} (h : s.WF) : s.toIndex.WF := by
  unfold toIndex Index.WF
  simp only [cached_labels h]
  refine ⟨h.1, ?_⟩
  have := h.2.2.1
  cases hm : s.map with
  | none => rw [hm] at this; simp only at this ⊢; rw [← h.2.1]; exact this
  | some m => rw [hm] at this; simpa using this

theorem toIndex_labels {s : IndexGO α} (h : s.WF) : s.toIndex.labels = s.mutLabels := by
  simp [toIndex, cached_labels h]

theorem contains_iff {s : IndexGO α} (h : s.WF) (a : α) : s.contains a = true ↔ a ∈ s.mutLabels := by
  unfold contains
  rw [Index.contains_iff (toIndex_WF h), toIndex_labels h]

theorem ofIndex_WF {ix : Index α} (h : ix.WF) : (ofIndex ix).WF := by
  refine ⟨h.1, rfl, ?_, fun _ => ⟨rfl, rfl⟩⟩
  have := h.2
  simp only [ofIndex]
  cases hm : ix.map with
  | none => rw [hm] at this; simpa using this
  | some m => rw [hm] at this; simpa using this

/-- The first step of `append` (`len(self)` inside `__contains__`) keeps everything but the caches. -/
private def pre (s : IndexGO α) (a : α) : IndexGO α :=
  match s.map, toInt? a with
  | none, some _ => s.cached
  | _, _ => s

private theorem pre_props {s : IndexGO α} (h : s.WF) (a : α) :
    (pre s a).WF ∧ (pre s a).mutLabels = s.mutLabels ∧ (pre s a).map = s.map ∧ (pre s a).count = s.count := by
  unfold pre
  split
  · exact ⟨cached_WF h, by simp, by simp, by simp⟩
  · exact ⟨h, rfl, rfl, rfl⟩

/-- Result of one `append` on a well-formed grow-only index. -/
theorem append_spec {s : IndexGO α} (h : s.WF) (a : α) :
    (s.append a).1.WF ∧
    (a ∈ s.mutLabels → (s.append a).2 = some .lookup ∧ (s.append a).1.mutLabels = s.mutLabels ∧
        (s.append a).1.map = s.map ∧ (s.append a).1.count = s.count) ∧
    (a ∉ s.mutLabels → (s.append a).2 = none ∧ (s.append a).1.mutLabels = s.mutLabels ++ [a]) := by
  obtain ⟨hwf1, hml, hmap, hcnt⟩ := pre_props h a
  have happ : s.append a =
      (if (pre s a).contains a then ((pre s a), some .lookup) else
        match (pre s a).map with
        | some m =>
          match m.add a with
          | none => ((pre s a), some .value)
          | some m' =>
            ({ (pre s a) with map := some m', mutLabels := (pre s a).mutLabels ++ [a], count := (pre s a).count + 1, recache := true }, none)
        | none =>
          if toInt? a = some ((pre s a).count : Int) then
            ({ (pre s a) with mutLabels := (pre s a).mutLabels ++ [a], count := (pre s a).count + 1, recache := true }, none)
          else
            match AMap.build (pre s a).mutLabels with
            | none => ((pre s a), some .value)
            | some m0 => match m0.add a with
              | none => ((pre s a), some .value)
              | some m => ({ (pre s a) with map := some m, mutLabels := (pre s a).mutLabels ++ [a], count := (pre s a).count + 1, recache := true }, none)) := by
    unfold append pre; rfl
  rw [happ]
  generalize pre s a = s1 at hwf1 hml hmap hcnt
  have hc := contains_iff hwf1 a
  rw [hml] at hc
  by_cases hmem : a ∈ s.mutLabels
  · rw [if_pos (hc.mpr hmem)]
    exact ⟨hwf1, fun _ => ⟨rfl, hml, hmap, hcnt⟩, fun hn => absurd hmem hn⟩
  · have hnc : ¬ s1.contains a = true := fun e => hmem (hc.mp e)
    rw [if_neg hnc]
    have hnd : (s1.mutLabels ++ [a]).Nodup := by
      rw [List.nodup_append]
      refine ⟨hwf1.1, by simp, ?_⟩
      intro x hx y hy
      simp only [List.mem_singleton] at hy
      subst hy
      intro e; subst e
      rw [hml] at hx; exact hmem hx
    obtain ⟨hn1, hc1, hm1, hr1⟩ := hwf1
    cases hmp : s1.map with
    | some m =>
      rw [hmp] at hm1
      simp only at hm1 ⊢
      obtain ⟨_, rfl⟩ := AMap.build_some_iff.mp hm1
      have hadd : AMap.add (s1.mutLabels.zipIdx 0) a = some ((s1.mutLabels ++ [a]).zipIdx 0) := by
        unfold AMap.add
        have : ¬ (AMap.get? (s1.mutLabels.zipIdx 0) a).isSome = true := by
          rw [AMap.get?_zipIdx_isSome]; rw [hml]; exact hmem
        rw [if_neg this]
        simp [List.zipIdx_append]
      rw [hadd]
      simp only
      refine ⟨⟨hnd, by simp [hc1], ?_, by simp⟩, fun hn => absurd hn hmem, fun _ => ⟨by simp, by simp [hml]⟩⟩
      simp only
      exact AMap.build_some_iff.mpr ⟨hnd, rfl⟩
    | none =>
      rw [hmp] at hm1
      simp only at hm1 ⊢
      by_cases hnext : toInt? a = some (s1.count : Int)
      · rw [if_pos hnext]
        refine ⟨⟨hnd, by simp [hc1], ?_, by simp⟩, fun hn => absurd hn hmem, fun _ => ⟨by simp, by simp [hml]⟩⟩
        simp only [hmp]
        rw [autoLabels_succ, ← hm1]
        congr 2
        exact ofInt_toInt a _ hnext
      · rw [if_neg hnext]
        rw [AMap.build_some_iff.mpr ⟨hn1, rfl⟩]
        have hadd : AMap.add (s1.mutLabels.zipIdx 0) a = some ((s1.mutLabels ++ [a]).zipIdx 0) := by
          unfold AMap.add
          have : ¬ (AMap.get? (s1.mutLabels.zipIdx 0) a).isSome = true := by
            rw [AMap.get?_zipIdx_isSome]; rw [hml]; exact hmem
          rw [if_neg this]
          simp [List.zipIdx_append]
        simp only [hadd]
        refine ⟨⟨hnd, by simp [hc1], ?_, by simp⟩, fun hn => absurd hn hmem, fun _ => ⟨by simp, by simp [hml]⟩⟩
        simp only
        exact AMap.build_some_iff.mpr ⟨hnd, rfl⟩

theorem extendDup_false_iff {s : IndexGO α} (h : s.WF) : ∀ (as obs : List α),
    extendDup s as obs = false ↔ as.Nodup ∧ (∀ a ∈ as, a ∉ s.mutLabels) ∧ (∀ a ∈ as, a ∉ obs)
  | [], obs => by simp [extendDup]
  | a :: as, obs => by
    have ih := extendDup_false_iff h as (obs ++ [a])
    have hc : s.contains a = false ↔ a ∉ s.mutLabels := by
      rw [← contains_iff h a]; simp
    simp only [extendDup, Bool.or_eq_false_iff, ih, hc, List.contains_eq_mem, decide_eq_false_iff_not,
      List.nodup_cons, List.mem_cons, List.mem_append]
    grind

theorem extendLoop_spec : ∀ (as : List α) {s : IndexGO α}, s.WF → as.Nodup → (∀ a ∈ as, a ∉ s.mutLabels) →
    (s.extendLoop as).1.WF ∧ (s.extendLoop as).2 = none ∧ (s.extendLoop as).1.mutLabels = s.mutLabels ++ as
  | [], s, h, _, _ => by simp [extendLoop, h]
  | a :: as, s, h, hn, hd => by
    rw [List.nodup_cons] at hn
    obtain ⟨hwf, _, hnew⟩ := append_spec h a
    obtain ⟨he, hml⟩ := hnew (hd a (by simp))
    unfold extendLoop
    cases hap : s.append a with
    | mk s' e =>
      rw [hap] at he hml hwf
      simp only at he hml hwf
      subst he
      simp only
      have hd' : ∀ x ∈ as, x ∉ s'.mutLabels := by
        intro x hx hm
        rw [hml] at hm
        simp only [List.mem_append, List.mem_singleton] at hm
        rcases hm with hm | rfl
        · exact hd x (by simp [hx]) hm
        · exact hn.1 hx
      obtain ⟨h1, h2, h3⟩ := extendLoop_spec as hwf hn.2 hd'
      exact ⟨h1, h2, by rw [h3, hml]; simp⟩

theorem extend_spec {s : IndexGO α} (h : s.WF) (as : List α) :
    (s.extend as).1.WF ∧ (s.extend as).1.mutLabels = s.mutLabels ++ acceptExtend s.mutLabels as ∧
    ((s.extend as).2 = none ↔ (as.Nodup ∧ ∀ a ∈ as, a ∉ s.mutLabels)) := by
  unfold extend acceptExtend
  have hiff := extendDup_false_iff h as []
  simp only [List.not_mem_nil, not_false_eq_true, implies_true, and_true] at hiff
  by_cases hd : extendDup s as [] = true
  · have hnot : ¬ (as.Nodup ∧ ∀ a ∈ as, a ∉ s.mutLabels) := by
      intro hc; rw [hiff.mpr hc] at hd; cases hd
    rw [if_pos hd, if_neg hnot]
    exact ⟨h, by simp, by simp [hnot]⟩
  · have hf : extendDup s as [] = false := by simpa using hd
    have hc := hiff.mp hf
    rw [if_neg hd, if_pos hc]
    obtain ⟨h1, h2, h3⟩ := extendLoop_spec as h hc.1 hc.2
    exact ⟨h1, h3, by simp only [h2, true_iff]; exact hc⟩

theorem step_spec {s : IndexGO α} (h : s.WF) (op : Op α) :
    (s.step op).WF ∧ (s.step op).mutLabels = s.mutLabels ++ accepted s.mutLabels [op] := by
  cases op with
  | append a =>
    obtain ⟨hwf, hdup, hnew⟩ := append_spec h a
    refine ⟨hwf, ?_⟩
    simp only [step, accepted]
    by_cases hmem : a ∈ s.mutLabels
    · rw [if_pos hmem]; simp [(hdup hmem).2.1]
    · rw [if_neg hmem]; simp [(hnew hmem).2]
  | extend as =>
    obtain ⟨h1, h2, _⟩ := extend_spec h as
    exact ⟨h1, by simp [step, accepted, h2]⟩

theorem accepted_cons (cur : List α) (op : Op α) (ops : List (Op α)) :
    accepted cur (op :: ops) = accepted cur [op] ++ accepted (cur ++ accepted cur [op]) ops := by
  cases op with
  | append a =>
    simp only [accepted]
    by_cases hmem : a ∈ cur <;> simp [hmem]
  | extend as => simp [accepted]

theorem run_spec {s : IndexGO α} (h : s.WF) (ops : List (Op α)) :
    (s.run ops).WF ∧ (s.run ops).mutLabels = s.mutLabels ++ accepted s.mutLabels ops := by
  induction ops generalizing s with
  | nil => simp [run, accepted, h]
  | cons op ops ih =>
    obtain ⟨h1, h2⟩ := step_spec h op
    have : s.run (op :: ops) = (s.step op).run ops := by unfold run; rfl
    rw [this]
    obtain ⟨h3, h4⟩ := ih h1
    refine ⟨h3, ?_⟩
    rw [h4, h2]
    conv => rhs; rw [accepted_cons]
    simp

end IndexGO

end SF
