/-
  Helper lemmas for SFModel.Level, part 3: the breadth-first loops (`bfs`) and the views
  (`iter`, `atDepth`, `valuesAtDepth`, `toTypeBlocks`).
-/
import SFModel.LevelGOLemmas
set_option linter.unusedSectionVars false
set_option linter.unusedVariables false

namespace SF

/-! ### the generic loop, layer by layer -/

section bfs
variable {ν σ β : Type} (visit : ν → σ → List β × List (ν × σ))

/-- what one pass over the deque yields -/
def bfsEmit (q : List (ν × σ)) : List β := q.flatMap (fun x => (visit x.1 x.2).1)
/-- what one pass over the deque appends -/
def bfsExpand (q : List (ν × σ)) : List (ν × σ) := q.flatMap (fun x => (visit x.1 x.2).2)

theorem bfsEmit_cons (t : ν) (s : σ) (q : List (ν × σ)) :
    bfsEmit visit ((t, s) :: q) = (visit t s).1 ++ bfsEmit visit q := by simp [bfsEmit]
theorem bfsExpand_cons (t : ν) (s : σ) (q : List (ν × σ)) :
    bfsExpand visit ((t, s) :: q) = (visit t s).2 ++ bfsExpand visit q := by simp [bfsExpand]
@[simp] theorem bfsEmit_nil : bfsEmit visit [] = [] := rfl
@[simp] theorem bfsExpand_nil : bfsExpand visit [] = [] := rfl

theorem bfs_cons (fuel : Nat) (t : ν) (s : σ) (q : List (ν × σ)) :
    bfs visit (fuel + 1) ((t, s) :: q) = (bfs visit fuel (q ++ (visit t s).2)).map ((visit t s).1 ++ ·) := by
  simp only [bfs]
  cases bfs visit fuel (q ++ (visit t s).2) <;> rfl

/-- popping a whole prefix of the deque -/
theorem bfs_append : ∀ (q1 q2 : List (ν × σ)) (fuel : Nat), q1.length ≤ fuel →
    bfs visit fuel (q1 ++ q2) =
      (bfs visit (fuel - q1.length) (q2 ++ bfsExpand visit q1)).map (bfsEmit visit q1 ++ ·)
  | [], q2, fuel, h => by
    simp only [List.nil_append, List.length_nil, Nat.sub_zero, bfsExpand, bfsEmit, List.flatMap_nil,
      List.append_nil]
    cases bfs visit fuel q2 <;> simp
  | (t, s) :: q1, q2, fuel, h => by
    obtain ⟨f, rfl⟩ : ∃ f, fuel = f + 1 := ⟨fuel - 1, by simp at h; omega⟩
    simp only [List.cons_append, bfs_cons]
    rw [List.append_assoc, bfs_append q1 (q2 ++ (visit t s).2) f (by simp at h; omega)]
    simp only [List.length_cons, Nat.add_sub_add_right, bfsExpand, bfsEmit, List.flatMap_cons,
      List.append_assoc]
    cases bfs visit (f - q1.length) (q2 ++ ((visit t s).2 ++ List.flatMap (fun x => (visit x.1 x.2).2) q1)) <;> simp

/-- `k` passes -/
def bfsLayers : Nat → List (ν × σ) → List (ν × σ)
  | 0, q => q
  | k + 1, q => bfsLayers k (bfsExpand visit q)

def bfsSpec : Nat → List (ν × σ) → List β
  | 0, _ => []
  | k + 1, q => bfsEmit visit q ++ bfsSpec k (bfsExpand visit q)

/-- number of pops in `k` passes -/
def bfsVisited : Nat → List (ν × σ) → Nat
  | 0, _ => 0
  | k + 1, q => q.length + bfsVisited k (bfsExpand visit q)

/-- If the deque is empty after `k` passes and the fuel covers the pops, the loop yields what the
    passes yield, in order. -/
theorem bfs_eq_spec : ∀ (k : Nat) (q : List (ν × σ)) (fuel : Nat),
    bfsLayers visit k q = [] → bfsVisited visit k q ≤ fuel → bfs visit fuel q = some (bfsSpec visit k q)
  | 0, q, fuel, h, _ => by
    simp only [bfsLayers] at h; subst h
    cases fuel <;> simp [bfs, bfsSpec]
  | k + 1, q, fuel, h, hf => by
    simp only [bfsLayers] at h
    simp only [bfsVisited] at hf
    have := bfs_append visit q [] fuel (by omega)
    simp only [List.append_nil, List.nil_append] at this
    rw [this, bfs_eq_spec k (bfsExpand visit q) (fuel - q.length) h (by omega)]
    simp [bfsSpec]

end bfs

namespace Level
variable {α : Type} [DecidableEq α] [IntLabel α]

/-! ### `__iter__` -/

def nodesSum {σ : Type} (q : List (Level α × σ)) : Nat := (q.map (fun x => x.1.nodes)).sum

theorem nodesSum_append {σ : Type} (a b : List (Level α × σ)) : nodesSum (a ++ b) = nodesSum a + nodesSum b := by
  simp [nodesSum, List.sum_append]

/-- the rows a queue entry stands for -/
def rowsOfEntry (x : Level α × List α) : List (List α) := x.1.tuples.map (x.2 ++ ·)

theorem zipChildren_spec {σ : Type} (f : α → σ) : ∀ (ls : List α) (cs : List (Level α)) (d acc : Nat),
    WFList d acc cs → ls.length = cs.length →
    (∀ x ∈ zipChildren f ls cs, WF d x.1) ∧ nodesSum (zipChildren f ls cs) = nodesList cs
  | [], [], d, acc, h, hl => by simp [zipChildren, nodesSum, nodesList]
  | [], _ :: _, d, acc, h, hl => by simp at hl
  | _ :: _, [], d, acc, h, hl => by simp at hl
  | l :: ls, c :: cs, d, acc, h, hl => by
    simp only [WFList] at h
    obtain ⟨h1, h2⟩ := zipChildren_spec f ls cs d _ h.2.2 (by simpa using hl)
    simp only [zipChildren, List.mem_cons, nodesList]
    refine ⟨?_, ?_⟩
    · rintro x (rfl | hx)
      · exact h.2.1
      · exact h1 x hx
    · simp only [nodesSum, List.map_cons, List.sum_cons] at h2 ⊢; omega

theorem zipChildren_rows (row : List α) : ∀ (ls : List α) (cs : List (Level α)),
    (zipChildren (fun l => row ++ [l]) ls cs).flatMap rowsOfEntry = (tuplesZip ls cs).map (row ++ ·)
  | [], _ => by simp [zipChildren, tuplesZip]
  | _ :: _, [] => by simp [zipChildren, tuplesZip]
  | l :: ls, c :: cs => by
    simp only [zipChildren, List.flatMap_cons, tuplesZip, List.map_append, List.map_map,
      zipChildren_rows row ls cs, rowsOfEntry]
    congr 1
    apply List.map_congr_left
    intro x _
    simp

/-- `d` passes of the `__iter__` loop over a forest of uniform depth `d` -/
theorem iter_layers : ∀ (d : Nat) (q : List (Level α × List α)), (∀ x ∈ q, WF d x.1) →
    bfsLayers iterVisit d q = [] ∧ bfsVisited iterVisit d q = nodesSum q ∧
      bfsSpec iterVisit d q = q.flatMap rowsOfEntry
  | 0, q, h => by
    have : q = [] := by
      cases q with
      | nil => rfl
      | cons x q =>
        have := h x (by simp)
        cases hx : x.1 <;> simp [hx, WF] at this
    subst this
    simp [bfsLayers, bfsVisited, bfsSpec, nodesSum]
  | d + 1, q, h => by
    -- one pass
    have hpass : (∀ x ∈ bfsExpand iterVisit q, WF d x.1) ∧
        nodesSum q = q.length + nodesSum (bfsExpand iterVisit q) ∧
        q.flatMap rowsOfEntry = bfsEmit iterVisit q ++ (bfsExpand iterVisit q).flatMap rowsOfEntry ∧
        (d = 0 → bfsExpand iterVisit q = []) ∧ (1 ≤ d → bfsEmit iterVisit q = []) := by
      induction q with
      | nil => simp [nodesSum]
      | cons x q ih =>
        obtain ⟨i1, i2, i3, i4, i5⟩ := ih (fun y hy => h y (by simp [hy]))
        have hx := h x (by simp)
        obtain ⟨t, row⟩ := x
        rw [bfsExpand_cons, bfsEmit_cons]
        cases t with
        | leaf ls o =>
          simp only [WF] at hx
          have e1 : iterVisit (Level.leaf ls o) row = (ls.map (fun v => row ++ [v]), []) := rfl
          rw [e1]
          simp only [List.nil_append, List.length_cons, List.flatMap_cons]
          refine ⟨i1, ?_, ?_, i4, fun h1 => by omega⟩
          · simp only [nodesSum, List.map_cons, List.sum_cons, nodes] at i2 ⊢; omega
          · rw [i3]; simp [rowsOfEntry, tuples]
        | node ls cs o =>
          simp only [WF] at hx
          have hd : d + 1 - 1 = d := by omega
          rw [hd] at hx
          obtain ⟨z1, z2⟩ := zipChildren_spec (fun l => row ++ [l]) ls cs d 0 hx.2.2.2 hx.2.2.1
          have e1 : iterVisit (Level.node ls cs o) row = ([], zipChildren (fun l => row ++ [l]) ls cs) := rfl
          rw [e1]
          simp only [List.nil_append, List.length_cons, List.flatMap_append, List.flatMap_cons,
            List.mem_append]
          refine ⟨?_, ?_, ?_, fun h0 => by omega, fun h1 => i5 h1⟩
          · rintro y (hy | hy)
            · exact z1 y hy
            · exact i1 y hy
          · rw [nodesSum_append, z2]
            simp only [nodesSum, List.map_cons, List.sum_cons, nodes] at i2 ⊢; omega
          · rw [zipChildren_rows, i3, i5 (by omega)]; simp [rowsOfEntry, tuples]
    obtain ⟨p1, p2, p3, p4, p5⟩ := hpass
    obtain ⟨r1, r2, r3⟩ := iter_layers d (bfsExpand iterVisit q) p1
    simp only [bfsLayers, bfsVisited, bfsSpec]
    exact ⟨r1, by omega, by rw [r3, p3]⟩

theorem iter_eq_tuples {t : Level α} {d : Nat} (h : WF d t) : t.iter = some t.tuples := by
  obtain ⟨h1, h2, h3⟩ := iter_layers d [(t, [])] (by simpa using h)
  unfold iter
  rw [bfs_eq_spec iterVisit d _ _ h1 (by simp [h2, nodesSum]), h3]
  simp [rowsOfEntry]

/-! ### `index_array_at_depth` / `label_widths_at_depth` -/

/-- the levels at depth `k` below a forest, left to right -/
def layerN : Nat → List (Level α) → List (Level α)
  | 0, ts => ts
  | k + 1, ts => layerN k (ts.flatMap children)

def nodesL (ts : List (Level α)) : Nat := (ts.map nodes).sum

theorem nodesList_eq : ∀ (cs : List (Level α)), nodesList cs = nodesL cs
  | [] => by simp [nodesList, nodesL]
  | c :: cs => by simp [nodesList, nodesL, nodesList_eq cs]

theorem nodes_eq (t : Level α) : t.nodes = 1 + nodesL t.children := by
  cases t with
  | leaf ls o => simp [nodes, children, nodesL]
  | node ls cs o => simp [nodes, children, nodesList_eq]

theorem nodesL_children : ∀ (ts : List (Level α)), nodesL ts = ts.length + nodesL (ts.flatMap children)
  | [] => by simp [nodesL]
  | t :: ts => by
    have := nodesL_children ts
    simp only [nodesL, List.map_cons, List.sum_cons, List.length_cons, List.flatMap_cons,
      List.map_append, List.sum_append] at this ⊢
    rw [nodes_eq t]; simp only [nodesL]; omega

theorem atDepth_expand_eq {β : Type} (f : Level α → β) (c : Nat) : ∀ (ts : List (Level α)),
    bfsExpand (atDepthVisit f c) (ts.map (·, c)) = [] ∧ bfsEmit (atDepthVisit f c) (ts.map (·, c)) = ts.map f
  | [] => ⟨rfl, rfl⟩
  | t :: ts => by
    obtain ⟨h1, h2⟩ := atDepth_expand_eq f c ts
    simp only [List.map_cons, bfsExpand_cons, bfsEmit_cons, h1, h2, atDepthVisit, if_true]
    simp

theorem atDepth_expand_ne {β : Type} (f : Level α → β) (dl c : Nat) (hne : c ≠ dl) : ∀ (ts : List (Level α)),
    bfsExpand (atDepthVisit f dl) (ts.map (·, c)) = (ts.flatMap children).map (·, c + 1) ∧
      bfsEmit (atDepthVisit f dl) (ts.map (·, c)) = []
  | [] => ⟨rfl, rfl⟩
  | t :: ts => by
    obtain ⟨h1, h2⟩ := atDepth_expand_ne f dl c hne ts
    simp only [List.map_cons, bfsExpand_cons, bfsEmit_cons, h1, h2, atDepthVisit, if_neg hne]
    simp

theorem atDepth_layers {β : Type} (f : Level α → β) (dl : Nat) : ∀ (k : Nat) (ts : List (Level α)) (c : Nat),
    c + k = dl →
    bfsLayers (atDepthVisit f dl) (k + 1) (ts.map (·, c)) = [] ∧
    bfsVisited (atDepthVisit f dl) (k + 1) (ts.map (·, c)) ≤ nodesL ts ∧
    bfsSpec (atDepthVisit f dl) (k + 1) (ts.map (·, c)) = (layerN k ts).map f
  | 0, ts, c, hc => by
    have hcd : c = dl := by omega
    subst hcd
    obtain ⟨h1, h2⟩ := atDepth_expand_eq f c ts
    rw [bfsLayers, bfsVisited, bfsSpec, h1, h2]
    simp only [bfsLayers, bfsVisited, bfsSpec, layerN, List.length_map, List.append_nil,
      Nat.add_zero, true_and]
    have := nodesL_children ts
    exact ⟨by omega, trivial⟩
  | k + 1, ts, c, hc => by
    have hne : c ≠ dl := by omega
    obtain ⟨h1, h2⟩ := atDepth_expand_ne f dl c hne ts
    obtain ⟨r1, r2, r3⟩ := atDepth_layers f dl k (ts.flatMap children) (c + 1) (by omega)
    rw [bfsLayers, bfsVisited, bfsSpec, h1, h2]
    refine ⟨r1, ?_, by simpa [layerN] using r3⟩
    have := nodesL_children ts
    simp only [List.length_map]; omega

theorem atDepth_eq {β : Type} (f : Level α → β) (t : Level α) (dl : Nat) :
    atDepth f t dl = some ((layerN dl [t]).map f) := by
  obtain ⟨h1, h2, h3⟩ := atDepth_layers f dl dl [t] 0 (by omega)
  unfold atDepth
  have : [(t, 0)] = [t].map (·, 0) := rfl
  rw [this, bfs_eq_spec _ (dl + 1) _ _ h1 (by simpa [nodesL] using h2), h3]

/-! ### `values_at_depth` -/

/-- the column of `k`-th components -/
def col (k : Nat) (ts : List (List α)) : List (Option α) := ts.map (·[k]?)

theorem col_append (k : Nat) (a b : List (List α)) : col k (a ++ b) = col k a ++ col k b := by
  simp [col]

/-- label and width of every target of a node -/
def zipLW : List α → List (Level α) → List (α × Nat)
  | l :: ls, c :: cs => (l, c.len) :: zipLW ls cs
  | _, _ => []

theorem widthsAux_spec : ∀ (ls : List α) (cs : List (Level α)) (d acc : Nat),
    WFList d acc cs → ls.length = cs.length → widthsAux ls cs acc = .ok (zipLW ls cs)
  | [], [], d, acc, h, hl => by simp [widthsAux, zipLW]
  | [], _ :: _, d, acc, h, hl => by simp at hl
  | _ :: _, [], d, acc, h, hl => by simp at hl
  | l :: ls, [c], d, acc, h, hl => by
    have : ls = [] := by
      cases ls with
      | nil => rfl
      | cons a as => simp at hl
    subst this
    simp [widthsAux, zipLW]
  | l :: ls, c :: c' :: cs, d, acc, h, hl => by
    simp only [WFList] at h
    have hdelta : (if c'.offset > 0 then c'.offset - acc else c.len) = c.len := by
      have h1 := h.1; have h2 := h.2.2.1
      split <;> omega
    simp only [widthsAux, hdelta]
    rw [widthsAux_spec ls (c' :: cs) d (acc + c.len) (by simp only [WFList]; exact h.2.2) (by simpa using hl)]
    simp [zipLW]

theorem tuplesZip_col_zero : ∀ (ls : List α) (cs : List (Level α)) (d acc : Nat),
    WFList d acc cs → ls.length = cs.length →
    col 0 (tuplesZip ls cs) = ((zipLW ls cs).flatMap (fun lw => List.replicate lw.2 lw.1)).map some
  | [], [], d, acc, h, hl => by simp [tuplesZip, zipLW, col]
  | [], _ :: _, d, acc, h, hl => by simp at hl
  | _ :: _, [], d, acc, h, hl => by simp at hl
  | l :: ls, c :: cs, d, acc, h, hl => by
    simp only [WFList] at h
    simp only [tuplesZip, zipLW, col_append, List.flatMap_cons, List.map_append]
    rw [tuplesZip_col_zero ls cs d _ h.2.2 (by simpa using hl)]
    congr 1
    simp only [col, List.map_map]
    rw [← tuples_length c d h.2.1]
    simp only [List.map_replicate]
    apply List.ext_getElem
    · simp
    · intro i h1 h2; simp

theorem tuplesZip_col_succ (k : Nat) : ∀ (ls : List α) (cs : List (Level α)), ls.length = cs.length →
    col (k + 1) (tuplesZip ls cs) = col k (cs.flatMap tuples)
  | [], [], hl => by simp [tuplesZip, col]
  | [], _ :: _, hl => by simp at hl
  | _ :: _, [], hl => by simp at hl
  | l :: ls, c :: cs, hl => by
    simp only [tuplesZip, col_append, List.flatMap_cons]
    rw [tuplesZip_col_succ k ls cs (by simpa using hl)]
    congr 1
    simp [col]

theorem children_WF {t : Level α} {d : Nat} (h : WF (d + 1) t) : ∀ c ∈ t.children, WF d c := by
  cases t with
  | leaf ls o => simp [children]
  | node ls cs o =>
    simp only [WF] at h
    simp only [children]
    have : ∀ (cs : List (Level α)) (acc : Nat), WFList d acc cs → ∀ c ∈ cs, WF d c := by
      intro cs
      induction cs with
      | nil => simp
      | cons c cs ih =>
        intro acc hw x hx
        simp only [WFList] at hw
        simp only [List.mem_cons] at hx
        rcases hx with rfl | hx
        · exact hw.2.1
        · exact ih _ hw.2.2 x hx
    exact this cs 0 (by simpa using h.2.2.2)

theorem tuples_col_succ {t : Level α} {d : Nat} (h : WF d t) (hd : 2 ≤ d) (k : Nat) :
    col (k + 1) t.tuples = col k (t.children.flatMap tuples) := by
  cases t with
  | leaf ls o => simp only [WF] at h; omega
  | node ls cs o =>
    simp only [WF] at h
    simp only [tuples, children]
    exact tuplesZip_col_succ k ls cs h.2.2.1

/-- the `dl`-th components of the tuples are the first components of the tuples of the levels
    found at depth `dl`, in order -/
theorem col_layerN : ∀ (dl d : Nat) (ts : List (Level α)), (∀ t ∈ ts, WF d t) → dl < d →
    col dl (ts.flatMap tuples) = col 0 ((layerN dl ts).flatMap tuples) ∧ ∀ t ∈ layerN dl ts, WF (d - dl) t
  | 0, d, ts, h, hd => by simpa [layerN] using h
  | dl + 1, d, ts, h, hd => by
    have hch : ∀ c ∈ ts.flatMap children, WF (d - 1) c := by
      intro c hc
      simp only [List.mem_flatMap] at hc
      obtain ⟨t, ht, hc⟩ := hc
      have := h t ht
      have hd' : d = (d - 1) + 1 := by omega
      rw [hd'] at this
      exact children_WF this c hc
    obtain ⟨r1, r2⟩ := col_layerN dl (d - 1) (ts.flatMap children) hch (by omega)
    simp only [layerN]
    refine ⟨?_, by intro t ht; have := r2 t ht; rwa [show d - 1 - dl = d - (dl + 1) by omega] at this⟩
    rw [← r1]
    clear r1 r2 hch
    induction ts with
    | nil => simp [col]
    | cons t ts ih =>
      simp only [List.flatMap_cons, col_append, List.flatMap_append]
      rw [ih (fun x hx => h x (by simp [hx]))]
      congr 1
      exact tuples_col_succ (h t (by simp)) (by omega) dl

theorem sequence_map_ok {ε β γ : Type} (g : γ → Except ε β) (hf : γ → β) : ∀ (l : List γ),
    (∀ x ∈ l, g x = .ok (hf x)) → sequence (l.map g) = .ok (l.map hf)
  | [], _ => rfl
  | x :: l, h => by
    simp only [List.map_cons, sequence, h x (by simp)]
    rw [sequence_map_ok g hf l (fun y hy => h y (by simp [hy]))]

theorem getWidths_spec {t : Level α} {d : Nat} (h : WF d t) (hd : 2 ≤ d) :
    ∃ ws, getWidths t = .ok ws ∧ (ws.flatMap (fun lw => List.replicate lw.2 lw.1)).map some = col 0 t.tuples := by
  cases t with
  | leaf ls o => simp only [WF] at h; omega
  | node ls cs o =>
    simp only [WF] at h
    refine ⟨zipLW ls cs, ?_, ?_⟩
    · simp only [getWidths]; exact widthsAux_spec ls cs (d - 1) 0 h.2.2.2 h.2.2.1
    · simp only [tuples]; exact (tuplesZip_col_zero ls cs (d - 1) 0 h.2.2.2 h.2.2.1).symm

/-- `values_at_depth(dl)` is the column of `dl`-th components of the tuples. -/
theorem valuesAtDepth_spec {t : Level α} {d : Nat} (h : WF d t) {dl : Nat} (hdl : dl < d) :
    ∃ c, t.valuesAtDepth d dl = .ok c ∧ c.map some = col dl t.tuples := by
  unfold valuesAtDepth
  by_cases hz : t.len = 0
  · rw [if_pos hz]
    have : t.tuples = [] := List.eq_nil_of_length_eq_zero (by rw [tuples_length t d h]; exact hz)
    exact ⟨[], rfl, by simp [this, col]⟩
  · rw [if_neg hz]
    obtain ⟨c1, c2⟩ := col_layerN dl d [t] (by simpa using h) hdl
    simp only [List.flatMap_cons, List.flatMap_nil, List.append_nil] at c1
    by_cases hlast : dl + 1 = d
    · rw [if_pos hlast, atDepth_eq]
      refine ⟨_, rfl, ?_⟩
      rw [c1]
      have hleaf : ∀ x ∈ layerN dl [t], col 0 x.tuples = x.labels.map some := by
        intro x hx
        have := c2 x hx
        rw [show d - dl = 1 by omega] at this
        cases x with
        | leaf ls o => simp [tuples, labels, col]
        | node ls cs o => simp only [WF] at this; omega
      generalize layerN dl [t] = L at hleaf
      induction L with
      | nil => simp [col]
      | cons x L ih =>
        simp only [List.map_cons, List.flatten_cons, List.map_append, List.flatMap_cons, col_append]
        rw [ih (fun y hy => hleaf y (by simp [hy])), hleaf x (by simp)]
    · rw [if_neg hlast, atDepth_eq]
      have hnode : ∀ x ∈ layerN dl [t], ∃ ws, getWidths x = .ok ws ∧
          (ws.flatMap (fun lw => List.replicate lw.2 lw.1)).map some = col 0 x.tuples :=
        fun x hx => getWidths_spec (c2 x hx) (by omega)
      rw [c1]
      generalize layerN dl [t] = L at hnode
      have : ∃ wss, sequence (L.map getWidths) = .ok wss ∧
          (wss.flatten.flatMap (fun lw => List.replicate lw.2 lw.1)).map some = col 0 (L.flatMap tuples) := by
        induction L with
        | nil => exact ⟨[], rfl, by simp [col]⟩
        | cons x L ih =>
          obtain ⟨wss, i1, i2⟩ := ih (fun y hy => hnode y (by simp [hy]))
          obtain ⟨ws, w1, w2⟩ := hnode x (by simp)
          refine ⟨ws :: wss, by simp [sequence, w1, i1], ?_⟩
          simp only [List.flatten_cons, List.flatMap_append, List.map_append, List.flatMap_cons, col_append]
          rw [w2, i2]
      obtain ⟨wss, s1, s2⟩ := this
      simp only [s1]
      exact ⟨_, rfl, s2⟩

end Level
end SF
