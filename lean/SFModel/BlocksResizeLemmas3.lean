/- Helper lemmas for SFModel.BlocksResize, part 3: every branch of the block model yields blocks whose
   typed columns are the layout-free specification. -/
import SFModel.BlocksResizeLemmas2

namespace SF
open SetOps (IC gather scatter dstToSrc mapMExcept)

variable {α : Type}

/-! ### typed columns of block lists -/

theorem colsDT_rows (tb : TB α) (hwf : tb.WF) : ∀ x ∈ colsDT tb.blocks, x.2.length = tb.rows := by
  intro x hx
  simp only [colsDT, List.mem_flatMap, Block.colsDT, List.mem_map] at hx
  obtain ⟨b, hb, c, hc, rfl⟩ := hx
  exact hwf.2 b hb c hc

theorem colsDT_ncols (tb : TB α) : (colsDT tb.blocks).length = tb.ncols := colsDT_length tb.blocks

theorem colsDT_map_blocks (bs : List (Block α)) (f : Block α → Block α) (g : DT × List α → DT × List α)
    (h : ∀ b ∈ bs, (f b).colsDT = b.colsDT.map g) : colsDT (bs.map f) = (colsDT bs).map g := by
  induction bs with
  | nil => rfl
  | cons b bs ih =>
    simp only [List.map_cons, colsDT_cons, List.map_append, h b (by simp),
      ih (fun x hx => h x (by simp [hx]))]

theorem colsDT_map_toD1 (L : List (DT × List α)) : colsDT (L.map toD1) = L := by
  induction L with
  | nil => rfl
  | cons x xs ih => simp [colsDT_cons, ih, toD1, Block.colsDT, Block.colsOf, Block.dt]

/-- `unified` with at least one column: exactly one block -/
theorem unified_single (tb : TB α) (hlen : tb.blocks.length ≤ 1) (hpos : 0 < tb.ncols) :
    ∃ b, tb.blocks = [b] := by
  cases hb : tb.blocks with
  | nil => simp [TB.ncols, hb] at hpos
  | cons b rest =>
    cases rest with
    | nil => exact ⟨b, rfl⟩
    | cons _ _ => simp [hb] at hlen

theorem ncols_pos_of_common {cc : IC} {n : Nat} (hcc : cc.WF n) (hc : cc.hasCommon = true) : 0 < n := by
  obtain ⟨_, hsrc, _, _, _, hcom, _⟩ := hcc
  have hne := hcom.mp hc
  obtain ⟨i, hi⟩ := List.exists_mem_of_ne_nil _ hne
  have := hsrc i hi
  omega

section env
variable (resolve : DT → DT → DT) (conv : DT → DT → α → α)

/-! ### branch (2): one block through the row correspondence -/

theorem rowsLane_ok {ic : IC} {n : Nat} (hic : ic.WF n) (fill : α) (fillDT : DT) (t : DT) (c : List α)
    (hc : c.length = n) :
    rowsLane resolve conv ic t fill fillDT c = .ok (colT resolve conv (some ic) fill fillDT (t, c)).2 ∧
      rowsDT resolve ic t fillDT = (colT resolve conv (some ic) fill fillDT (t, c)).1 := by
  have h1 := (resizeColDT_eq_colT resolve conv (iic := some ic) hic fill fillDT (t, c) hc).1
  rw [← rowsCol_eq] at h1
  unfold rowsCol at h1
  simp only at h1
  cases hl : rowsLane resolve conv ic t fill fillDT c with
  | error e => rw [hl] at h1; cases h1
  | ok r =>
    rw [hl] at h1
    simp only [Except.map, Except.ok.injEq] at h1
    rw [← h1]
    exact ⟨rfl, rfl⟩

/-- the block `Block.resizeRows` yields -/
def blockT (ic : IC) (fill : α) (fillDT : DT) : Block α → Block α
  | .d1 t c => .d1 (rowsDT resolve ic t fillDT) (colT resolve conv (some ic) fill fillDT (t, c)).2
  | .d2 t cs => .d2 (rowsDT resolve ic t fillDT)
      (cs.map fun c => (colT resolve conv (some ic) fill fillDT (t, c)).2)

theorem Block.resizeRows_ok {ic : IC} {n : Nat} (hic : ic.WF n) (fill : α) (fillDT : DT) (b : Block α)
    (hb : b.RowsOk n) :
    Block.resizeRows resolve conv ic fill fillDT b = .ok (blockT resolve conv ic fill fillDT b) ∧
      (blockT resolve conv ic fill fillDT b).colsDT =
        b.colsDT.map (colT resolve conv (some ic) fill fillDT) := by
  cases b with
  | d1 t c =>
    have hc : c.length = n := hb c (by simp [Block.colsOf])
    obtain ⟨h1, h2⟩ := rowsLane_ok resolve conv hic fill fillDT t c hc
    refine ⟨by simp [Block.resizeRows, h1, blockT, Except.map], ?_⟩
    simp only [blockT, Block.colsDT, Block.colsOf, Block.dt, List.map_cons, List.map_nil, h2]
  | d2 t cs =>
    have hcs : ∀ c ∈ cs, c.length = n := fun c hc => hb c (by simpa [Block.colsOf] using hc)
    have hall : ∀ c ∈ cs, rowsLane resolve conv ic t fill fillDT c =
        .ok ((fun c => (colT resolve conv (some ic) fill fillDT (t, c)).2) c) :=
      fun c hc => (rowsLane_ok resolve conv hic fill fillDT t c (hcs c hc)).1
    refine ⟨by simp [Block.resizeRows, SetOps.mapMExcept_ok hall, blockT, Except.map], ?_⟩
    simp only [blockT, Block.colsDT, Block.colsOf, Block.dt, List.map_map]
    apply List.map_congr_left
    intro c hc
    simp only [Function.comp, (rowsLane_ok resolve conv hic fill fillDT t c (hcs c hc)).2]

/-- a subset selection of rows: `b[iloc_src]` and nothing else -/
theorem colT_subset {ic : IC} {n : Nat} (hic : ic.WF n) (hs : ic.isSubset = true) (fill : α) (fillDT : DT)
    (t : DT) (c : List α) (hc : c.length = n) :
    gatherE c ic.ilocSrc = .ok (colT resolve conv (some ic) fill fillDT (t, c)).2 ∧
      (colT resolve conv (some ic) fill fillDT (t, c)).1 = t := by
  obtain ⟨h1, h2⟩ := rowsLane_ok resolve conv hic fill fillDT t c hc
  simp only [rowsLane, hs, if_true] at h1
  simp only [rowsDT, hs, if_true] at h2
  exact ⟨h1, h2.symm⟩

/-! ### the unified fast paths -/

theorem unified_d1_slots {cc : IC} (hcc : cc.WF 1) (hs : cc.isSubset = true)
    (x : DT × List α) (G' : DT × List α → DT × List α) (fc : DT × List α) :
    (List.range cc.size).map (slot cc [x] G' fc) = [G' x] := by
  rw [slots_subset hcc hs]
  have hcom := (hcc.2.2.2.2.2.2 hs).1
  have h0 : cc.ilocSrc = [0] :=
    nodup_lt_one hcc.2.2.2.1 hcc.2.1 (hcc.2.2.2.2.2.1.mp hcom)
  simp [h0]

theorem unified_d2_slots {cc : IC} (t : DT) (cs : List (List α)) (hcc : cc.WF cs.length)
    (hs : cc.isSubset = true) (G' : DT × List α → DT × List α) (fc : DT × List α) :
    ∃ g, gatherE cs cc.ilocSrc = .ok g ∧ (∀ c ∈ g, c ∈ cs) ∧
      (List.range cc.size).map (slot cc (cs.map (fun c => (t, c))) G' fc) = g.map (fun c => G' (t, c)) := by
  obtain ⟨g, hg, _, hgl, hgk⟩ := gatherE_ok (l := cs) (is := cc.ilocSrc) hcc.2.1
  refine ⟨g, hg, ?_, ?_⟩
  · intro c hc
    obtain ⟨k, hk, rfl⟩ := List.mem_iff_getElem.mp hc
    have := hgk k (hgl ▸ hk)
    rw [List.getElem?_eq_getElem hk] at this
    exact List.mem_of_getElem? this.symm
  · rw [slots_subset hcc hs]
    apply List.ext_getElem
    · simp [hgl]
    · intro k h1 h2
      have hk : k < cc.ilocSrc.length := by simpa using h1
      have hlt : cc.ilocSrc[k] < cs.length := hcc.2.1 _ (List.getElem_mem hk)
      have := hgk k hk
      rw [List.getElem?_eq_getElem (hgl ▸ hk), List.getElem?_eq_getElem hlt] at this
      simp only [Option.some.injEq] at this
      simp only [List.getElem_map, List.getElem?_map, List.getElem?_eq_getElem hlt, Option.map_some, this]

end env

end SF
