/-
  Helper lemmas for SFModel.LevelDrop (`IndexHierarchy.level_drop`).
-/
import SFModel.LevelDrop
import SFModel.LevelGOLemmas
set_option linter.unusedSectionVars false
set_option linter.unusedVariables false

namespace SF

/-! ### a list in blocks: consecutive non-empty runs with a common image -/

/-- `xs` is the concatenation of non-empty blocks, the i-th block being sent to `ps[i]` by `g` -/
inductive Blocks {β γ : Type} (g : β → γ) : List β → List γ → Prop
  | nil : Blocks g [] []
  | cons {b xs : List β} {p : γ} {ps : List γ} :
      b ≠ [] → (∀ x ∈ b, g x = p) → Blocks g xs ps → Blocks g (b ++ xs) (p :: ps)

namespace Blocks
variable {β γ : Type} {g : β → γ}

theorem mem {xs : List β} {ps : List γ} (h : Blocks g xs ps) : ∀ x ∈ xs, g x ∈ ps := by
  induction h with
  | nil => intro x hx; cases hx
  | cons hb hg _ ih =>
    intro x hx
    rcases List.mem_append.mp hx with hx | hx
    · rw [hg x hx]; exact List.mem_cons_self
    · exact List.mem_cons_of_mem _ (ih x hx)

theorem append {xs ys : List β} {ps qs : List γ} (h1 : Blocks g xs ps) (h2 : Blocks g ys qs) :
    Blocks g (xs ++ ys) (ps ++ qs) := by
  induction h1 with
  | nil => simpa using h2
  | cons hb hg _ ih =>
    rw [List.append_assoc, List.cons_append]
    exact Blocks.cons hb hg ih

theorem map {δ ε : Type} {g' : δ → ε} (f : β → δ) (f' : γ → ε) (hc : ∀ x, g' (f x) = f' (g x))
    {xs : List β} {ps : List γ} (h : Blocks g xs ps) : Blocks g' (xs.map f) (ps.map f') := by
  induction h with
  | nil => exact Blocks.nil
  | cons hb hg _ ih =>
    rw [List.map_append, List.map_cons]
    refine Blocks.cons (by simpa using hb) ?_ ih
    intro y hy
    obtain ⟨x, hx, rfl⟩ := List.mem_map.mp hy
    rw [hc, hg x hx]

/-- every element is its own block -/
theorem singletons : ∀ (xs : List β), Blocks g xs (xs.map g)
  | [] => Blocks.nil
  | x :: xs => by
    have := Blocks.cons (g := g) (b := [x]) (p := g x) (by simp) (by simp) (singletons xs)
    simpa using this

/-- the images in order of first occurrence are the block images -/
theorem eraseDups [BEq γ] [LawfulBEq γ] {xs : List β} {ps : List γ} (h : Blocks g xs ps) (hn : ps.Nodup) :
    (xs.map g).eraseDups = ps := by
  induction h with
  | nil => simp
  | @cons b xs p ps hb hg hrest ih =>
    cases b with
    | nil => exact absurd rfl hb
    | cons x0 b' =>
      have hn' := List.nodup_cons.mp hn
      simp only [List.cons_append, List.map_cons, List.map_append]
      rw [hg x0 (by simp), List.eraseDups_cons, List.filter_append]
      have h1 : List.filter (fun b => !b == p) (b'.map g) = [] := by
        rw [List.filter_eq_nil_iff]
        intro a ha
        obtain ⟨x, hx, rfl⟩ := List.mem_map.mp ha
        simp [hg x (by simp [hx])]
      have h2 : List.filter (fun b => !b == p) (xs.map g) = xs.map g := by
        rw [List.filter_eq_self]
        intro a ha
        obtain ⟨x, hx, rfl⟩ := List.mem_map.mp ha
        have : g x ∈ ps := hrest.mem x hx
        have hne : g x ≠ p := fun e => hn'.1 (e ▸ this)
        simp [hne]
      rw [h1, h2, List.nil_append, ih hn'.2]

end Blocks

namespace Level
variable {α : Type} [DecidableEq α] [IntLabel α]

/-! ### trees up to offsets -/

mutual
/-- `WF` without the offsets: uniform depth, distinct labels per node, one target per label -/
def Shape : Nat → Level α → Prop
  | d, .leaf ls _ => d = 1 ∧ ls.Nodup
  | d, .node ls cs _ => 2 ≤ d ∧ ls.Nodup ∧ ls.length = cs.length ∧ ShapeList (d - 1) cs
def ShapeList : Nat → List (Level α) → Prop
  | _, [] => True
  | d, c :: cs => Shape d c ∧ ShapeList d cs
end

mutual
theorem WF.shape : ∀ (t : Level α) (d : Nat), WF d t → Shape d t
  | .leaf ls o, d, h => by simpa [WF, Shape] using h
  | .node ls cs o, d, h => by
    simp only [WF] at h
    simp only [Shape]
    exact ⟨h.1, h.2.1, h.2.2.1, WFList.shape cs (d - 1) 0 h.2.2.2⟩
theorem WFList.shape : ∀ (cs : List (Level α)) (d acc : Nat), WFList d acc cs → ShapeList d cs
  | [], d, acc, h => by simp [ShapeList]
  | c :: cs, d, acc, h => by
    simp only [WFList] at h
    simp only [ShapeList]
    exact ⟨WF.shape c d h.2.1, WFList.shape cs d _ h.2.2⟩
end

@[simp] theorem isLeaf_setOffset (t : Level α) (o : Nat) : (t.setOffset o).isLeaf = t.isLeaf := by
  cases t <;> rfl

@[simp] theorem labels_setOffset (t : Level α) (o : Nat) : (t.setOffset o).labels = t.labels := by
  cases t <;> rfl

@[simp] theorem children_setOffset (t : Level α) (o : Nat) : (t.setOffset o).children = t.children := by
  cases t <;> rfl

theorem populated_setOffset (t : Level α) (o : Nat) : Populated (t.setOffset o) ↔ Populated t := by
  cases t <;> simp [setOffset, Populated]

mutual
theorem rebase_len : ∀ (t : Level α), (rebase t).len = t.len
  | .leaf ls o => rfl
  | .node ls cs o => by simp only [rebase, len]; exact rebaseList_len cs 0
theorem rebaseList_len : ∀ (cs : List (Level α)) (acc : Nat), lenList (rebaseList cs acc) = lenList cs
  | [], acc => rfl
  | c :: cs, acc => by
    simp only [rebaseList, lenList, len_setOffset, rebase_len c, rebaseList_len cs]
end

theorem rebaseList_length : ∀ (cs : List (Level α)) (acc : Nat), (rebaseList cs acc).length = cs.length
  | [], acc => rfl
  | c :: cs, acc => by simp [rebaseList, rebaseList_length cs]

mutual
theorem rebase_tuples : ∀ (t : Level α), (rebase t).tuples = t.tuples
  | .leaf ls o => rfl
  | .node ls cs o => by simp only [rebase, tuples]; exact rebaseList_tuples cs 0 ls
theorem rebaseList_tuples : ∀ (cs : List (Level α)) (acc : Nat) (ls : List α),
    tuplesZip ls (rebaseList cs acc) = tuplesZip ls cs
  | [], acc, ls => rfl
  | c :: cs, acc, [] => by simp [rebaseList, tuplesZip]
  | c :: cs, acc, l :: ls => by
    simp only [rebaseList, tuplesZip, tuples_setOffset, rebase_tuples c, rebaseList_tuples cs]
end

mutual
theorem rebase_populated : ∀ (t : Level α), Populated t → Populated (rebase t)
  | .leaf ls o, h => h
  | .node ls cs o, h => by
    simp only [Populated] at h
    simp only [rebase, Populated]
    exact ⟨h.1, rebaseList_populated cs 0 h.2⟩
theorem rebaseList_populated : ∀ (cs : List (Level α)) (acc : Nat), PopulatedList cs →
    PopulatedList (rebaseList cs acc)
  | [], acc, h => by simp [rebaseList, PopulatedList]
  | c :: cs, acc, h => by
    simp only [PopulatedList] at h
    simp only [rebaseList, PopulatedList, populated_setOffset]
    exact ⟨rebase_populated c h.1, rebaseList_populated cs _ h.2⟩
end

theorem rebase_isLeaf (t : Level α) : (rebase t).isLeaf = t.isLeaf := by
  cases t <;> rfl

mutual
/-- the re-basing walk makes the offsets the running leaf counts -/
theorem rebase_WF : ∀ (t : Level α) (d : Nat), Shape d t → WF d (rebase t)
  | .leaf ls o, d, h => by simpa [rebase, WF, Shape] using h
  | .node ls cs o, d, h => by
    simp only [Shape] at h
    simp only [rebase, WF, rebaseList_length]
    exact ⟨h.1, h.2.1, h.2.2.1, rebaseList_WF cs (d - 1) 0 h.2.2.2⟩
theorem rebaseList_WF : ∀ (cs : List (Level α)) (d acc : Nat), ShapeList d cs →
    WFList d acc (rebaseList cs acc)
  | [], d, acc, h => by simp [rebaseList, WFList]
  | c :: cs, d, acc, h => by
    simp only [ShapeList] at h
    simp only [rebaseList, WFList, offset_setOffset, WF_setOffset, len_setOffset, rebase_len]
    exact ⟨trivial, rebase_WF c d h.1, rebaseList_WF cs d _ h.2⟩
end

/-! ### the inner drop -/

@[simp] theorem truncate_one (t : Level α) : truncate 1 t = .leaf t.labels t.offset := by
  cases t <;> rfl

theorem truncateList_length : ∀ (m : Nat) (cs : List (Level α)), (truncateList m cs).length = cs.length
  | m, [] => rfl
  | m, c :: cs => by simp [truncateList, truncateList_length m cs]

theorem truncate_labels : ∀ (m : Nat) (t : Level α), 1 ≤ m → (truncate m t).labels = t.labels
  | 0, t, h => by omega
  | 1, t, h => by simp [labels]
  | m + 2, .leaf ls o, h => rfl
  | m + 2, .node ls cs o, h => rfl

theorem truncate_offset : ∀ (m : Nat) (t : Level α), 1 ≤ m → (truncate m t).offset = t.offset
  | 0, t, h => by omega
  | 1, t, h => by simp [offset]
  | m + 2, .leaf ls o, h => rfl
  | m + 2, .node ls cs o, h => rfl

mutual
theorem truncate_self : ∀ (t : Level α) (d : Nat), Shape d t → truncate d t = t
  | .leaf ls o, d, h => by
    simp only [Shape] at h
    rw [h.1]; rfl
  | .node ls cs o, d, h => by
    simp only [Shape] at h
    obtain ⟨m, rfl⟩ : ∃ m, d = m + 2 := ⟨d - 2, by omega⟩
    simp only [truncate]
    rw [truncateList_self cs (m + 1) h.2.2.2]
theorem truncateList_self : ∀ (cs : List (Level α)) (d : Nat), ShapeList d cs → truncateList d cs = cs
  | [], d, h => rfl
  | c :: cs, d, h => by
    simp only [ShapeList] at h
    simp only [truncateList, truncate_self c d h.1, truncateList_self cs d h.2]
end

mutual
theorem truncate_truncate : ∀ (t : Level α) (m n : Nat), 1 ≤ m → m ≤ n →
    truncate m (truncate n t) = truncate m t
  | t, 0, n, h1, h2 => by omega
  | t, 1, n, h1, h2 => by
    simp only [truncate_one, truncate_labels n t h2, truncate_offset n t h2]
  | t, m + 2, 0, h1, h2 => by omega
  | t, m + 2, 1, h1, h2 => by omega
  | .leaf ls o, m + 2, n + 2, h1, h2 => rfl
  | .node ls cs o, m + 2, n + 2, h1, h2 => by
    simp only [truncate]
    rw [truncateList_truncateList cs (m + 1) (n + 1) (by omega) (by omega)]
theorem truncateList_truncateList : ∀ (cs : List (Level α)) (m n : Nat), 1 ≤ m → m ≤ n →
    truncateList m (truncateList n cs) = truncateList m cs
  | [], m, n, h1, h2 => rfl
  | c :: cs, m, n, h1, h2 => by
    simp only [truncateList, truncate_truncate c m n h1 h2, truncateList_truncateList cs m n h1 h2]
end

mutual
theorem truncate_shape : ∀ (t : Level α) (d m : Nat), Shape d t → 1 ≤ m → m ≤ d → Shape m (truncate m t)
  | t, d, 0, h, h1, h2 => by omega
  | .leaf ls o, d, 1, h, h1, h2 => by simp only [Shape] at h; simp [Shape, labels, h.2]
  | .node ls cs o, d, 1, h, h1, h2 => by simp only [Shape] at h; simp [Shape, labels, h.2.1]
  | .leaf ls o, d, m + 2, h, h1, h2 => by simp only [Shape] at h; omega
  | .node ls cs o, d, m + 2, h, h1, h2 => by
    simp only [Shape] at h
    simp only [truncate, Shape, truncateList_length]
    refine ⟨by omega, h.2.1, h.2.2.1, ?_⟩
    exact truncateList_shape cs (d - 1) (m + 1) h.2.2.2 (by omega) (by omega)
theorem truncateList_shape : ∀ (cs : List (Level α)) (d m : Nat), ShapeList d cs → 1 ≤ m → m ≤ d →
    ShapeList m (truncateList m cs)
  | [], d, m, h, h1, h2 => by simp [truncateList, ShapeList]
  | c :: cs, d, m, h, h1, h2 => by
    simp only [ShapeList] at h
    simp only [truncateList, ShapeList]
    exact ⟨truncate_shape c d m h.1 h1 h2, truncateList_shape cs d m h.2 h1 h2⟩
end

theorem populated_labels : ∀ (t : Level α), Populated t → t.labels ≠ []
  | .leaf ls o, h => h
  | .node ls cs o, h => h.1

mutual
theorem truncate_populated : ∀ (t : Level α) (m : Nat), Populated t → 1 ≤ m → Populated (truncate m t)
  | t, 0, h, h1 => by omega
  | t, 1, h, h1 => by simp only [truncate_one, Populated]; exact populated_labels t h
  | .leaf ls o, m + 2, h, h1 => h
  | .node ls cs o, m + 2, h, h1 => by
    simp only [Populated] at h
    simp only [truncate, Populated]
    exact ⟨h.1, truncateList_populated cs (m + 1) h.2 (by omega)⟩
theorem truncateList_populated : ∀ (cs : List (Level α)) (m : Nat), PopulatedList cs → 1 ≤ m →
    PopulatedList (truncateList m cs)
  | [], m, h, h1 => by simp [truncateList, PopulatedList]
  | c :: cs, m, h, h1 => by
    simp only [PopulatedList] at h
    simp only [truncateList, PopulatedList]
    exact ⟨truncate_populated c m h.1 h1, truncateList_populated cs m h.2 h1⟩
end

theorem truncate_isLeaf : ∀ (t : Level α) (d m : Nat), Shape d t → 1 ≤ m → m ≤ d →
    ((truncate m t).isLeaf = true ↔ m = 1)
  | t, d, 0, h, h1, h2 => by omega
  | t, d, 1, h, h1, h2 => by simp [isLeaf]
  | .leaf ls o, d, m + 2, h, h1, h2 => by simp only [Shape] at h; omega
  | .node ls cs o, d, m + 2, h, h1, h2 => by simp [truncate, isLeaf]

/-- a populated tree holds at least one tuple -/
theorem tuples_ne_nil : ∀ (t : Level α) (d : Nat), Shape d t → Populated t → t.tuples ≠ []
  | .leaf ls o, d, h, hp => by simpa [tuples, Populated] using hp
  | .node [] cs o, d, h, hp => by simp [Populated] at hp
  | .node (l :: ls) [] o, d, h, hp => by simp [Shape] at h
  | .node (l :: ls) (c :: cs) o, d, h, hp => by
    simp only [Shape, ShapeList] at h
    simp only [Populated, PopulatedList] at hp
    have := tuples_ne_nil c (d - 1) h.2.2.2.1 hp.2.1
    simp [tuples, tuplesZip, this]

/-- cutting to the outer level: one block per label of the node -/
theorem tuplesZip_blocks_one : ∀ (ls : List α) (cs : List (Level α)) (d : Nat), ls.length = cs.length →
    ShapeList d cs → PopulatedList cs →
    Blocks (List.take 1) (tuplesZip ls cs) (ls.map ([·]))
  | [], [], d, hl, h, hp => Blocks.nil
  | [], _ :: _, d, hl, h, hp => by simp at hl
  | _ :: _, [], d, hl, h, hp => by simp at hl
  | l :: ls, c :: cs, d, hl, h, hp => by
    simp only [ShapeList] at h
    simp only [PopulatedList] at hp
    simp only [tuplesZip, List.map_cons]
    refine Blocks.cons ?_ ?_ (tuplesZip_blocks_one ls cs d (by simpa using hl) h.2 hp.2)
    · simpa using tuples_ne_nil c d h.1 hp.1
    · intro x hx
      obtain ⟨r, _, rfl⟩ := List.mem_map.mp hx
      simp

mutual
/-- the tuples of a tree are, block by block, the extensions of the tuples of the tree cut to
    its `m` outer levels -/
theorem truncate_blocks : ∀ (t : Level α) (d m : Nat), Shape d t → Populated t → 1 ≤ m → m ≤ d →
    Blocks (List.take m) t.tuples (truncate m t).tuples
  | t, d, 0, h, hp, h1, h2 => by omega
  | .leaf ls o, d, 1, h, hp, h1, h2 => by
    simp only [truncate_one, labels, tuples]
    have := Blocks.singletons (g := List.take 1) (ls.map ([·]))
    simpa [Function.comp_def] using this
  | .node ls cs o, d, 1, h, hp, h1, h2 => by
    simp only [Shape] at h
    simp only [Populated] at hp
    simp only [truncate_one, labels, tuples]
    exact tuplesZip_blocks_one ls cs (d - 1) h.2.2.1 h.2.2.2 hp.2
  | .leaf ls o, d, m + 2, h, hp, h1, h2 => by simp only [Shape] at h; omega
  | .node ls cs o, d, m + 2, h, hp, h1, h2 => by
    simp only [Shape] at h
    simp only [Populated] at hp
    simp only [truncate, tuples]
    exact truncateList_blocks ls cs (d - 1) (m + 1) h.2.2.2 hp.2 (by omega) (by omega)
theorem truncateList_blocks : ∀ (ls : List α) (cs : List (Level α)) (d m : Nat), ShapeList d cs →
    PopulatedList cs → 1 ≤ m → m ≤ d →
    Blocks (List.take (m + 1)) (tuplesZip ls cs) (tuplesZip ls (truncateList m cs))
  | [], cs, d, m, h, hp, h1, h2 => by simp only [tuplesZip]; exact Blocks.nil
  | l :: ls, [], d, m, h, hp, h1, h2 => by simp only [tuplesZip, truncateList]; exact Blocks.nil
  | l :: ls, c :: cs, d, m, h, hp, h1, h2 => by
    simp only [ShapeList] at h
    simp only [PopulatedList] at hp
    simp only [truncateList, tuplesZip]
    refine Blocks.append ?_ (truncateList_blocks ls cs d m h.2 hp.2 h1 h2)
    exact Blocks.map (l :: ·) (l :: ·) (fun x => by simp) (truncate_blocks c d m h.1 hp.1 h1 h2)
end

mutual
/-- one pass of the stack walk removes exactly the innermost level -/
theorem cutLeaves_eq : ∀ (t : Level α) (d : Nat), Shape d t → Populated t → 2 ≤ d →
    cutLeaves t = .ok (truncate (d - 1) t)
  | .leaf ls o, d, h, hp, hd => by simp only [Shape] at h; omega
  | .node ls [] o, d, h, hp, hd => by
    simp only [Shape] at h; simp only [Populated] at hp
    exact absurd (List.length_eq_zero_iff.mp h.2.2.1) hp.1
  | .node ls (c :: cs) o, d, h, hp, hd => by
    simp only [Shape, ShapeList] at h
    simp only [Populated, PopulatedList] at hp
    unfold cutLeaves
    simp only []
    by_cases hd2 : d = 2
    · subst hd2
      have hc : c.isLeaf = true := by
        cases c with
        | leaf => rfl
        | node => have := h.2.2.2.1; simp [Shape] at this
      simp [hc, labels, offset]
    · have hc : c.isLeaf = false := by
        cases c with
        | leaf => have := h.2.2.2.1; simp only [Shape] at this; omega
        | node => rfl
      obtain ⟨m, rfl⟩ : ∃ m, d = m + 3 := ⟨d - 3, by omega⟩
      have := cutLeavesList_eq (c :: cs) (m + 2) (by simp only [ShapeList]; exact h.2.2.2)
        (by simp only [PopulatedList]; exact hp.2) (by omega)
      simp only [hc, Bool.false_eq_true, if_false, this]
      rfl
theorem cutLeavesList_eq : ∀ (cs : List (Level α)) (d : Nat), ShapeList d cs → PopulatedList cs → 2 ≤ d →
    cutLeavesList cs = .ok (truncateList (d - 1) cs)
  | [], d, h, hp, hd => rfl
  | c :: cs, d, h, hp, hd => by
    simp only [ShapeList] at h
    simp only [PopulatedList] at hp
    simp only [cutLeavesList, cutLeaves_eq c d h.1 hp.1 hd, cutLeavesList_eq cs d h.2 hp.2 hd, truncateList]
end

/-- the passes: `k` innermost levels are removed -/
theorem cutLeavesN_eq : ∀ (k : Nat) (t : Level α) (d : Nat), Shape d t → Populated t → k < d →
    cutLeavesN k t = .ok (truncate (d - k) t)
  | 0, t, d, h, hp, hk => by simp [cutLeavesN, truncate_self t d h]
  | k + 1, t, d, h, hp, hk => by
    have h1 := cutLeaves_eq t d h hp (by omega)
    have hs := truncate_shape t d (d - 1) h (by omega) (by omega)
    have hpp := truncate_populated t (d - 1) hp (by omega)
    simp only [cutLeavesN, h1]
    by_cases hl : (truncate (d - 1) t).isLeaf = true
    · have := (truncate_isLeaf t d (d - 1) h (by omega) (by omega)).mp hl
      simp only [hl, if_true]
      have e : d - 1 = d - (k + 1) := by omega
      rw [e]
    · simp only [hl]
      rw [cutLeavesN_eq k _ (d - 1) hs hpp (by omega),
        truncate_truncate t (d - 1 - k) (d - 1) (by omega) (by omega)]
      have e : d - 1 - k = d - (k + 1) := by omega
      rw [e]
      simp

/-- `level_drop(-k)` on a well-formed, populated tree of depth `d > k` -/
theorem levelDropInner_spec {t : Level α} {d k : Nat} (h : WF d t) (hp : Populated t) (hk0 : 0 < k) (hk : k < d) :
    ∃ r, levelDropInner k t = .ok r ∧ WF (d - k) r ∧ Populated r ∧
      r.tuples = (t.tuples.map (·.take (d - k))).eraseDups ∧ (r.isLeaf = true ↔ d - k = 1) := by
  have hs := WF.shape t d h
  have hs' := truncate_shape t d (d - k) hs (by omega) (by omega)
  have hw := rebase_WF _ _ hs'
  refine ⟨rebase (truncate (d - k) t), ?_, hw, rebase_populated _ (truncate_populated t _ hp (by omega)), ?_, ?_⟩
  · simp only [levelDropInner, cutLeavesN_eq k t d hs hp hk]
    simp [Nat.ne_of_gt hk0]
  · have hb := truncate_blocks t d (d - k) hs hp (by omega) (by omega)
    rw [rebase_tuples]
    have hn : (truncate (d - k) t).tuples.Nodup := by
      have := tuples_nodup _ _ hw
      rwa [rebase_tuples] at this
    exact (hb.eraseDups hn).symm
  · rw [rebase_isLeaf]
    exact truncate_isLeaf t d (d - k) hs (by omega) (by omega)

/-! ### the outer drop -/

theorem offset_node (ls : List α) (cs : List (Level α)) (o : Nat) : (Level.node ls cs o).offset = o := rfl

theorem labelsAt_zero (t : Level α) : labelsAt 0 t = t.labels := by
  cases t <;> rfl

theorem labelsAt_succ (j : Nat) (t : Level α) : labelsAt (j + 1) t = labelsAtList j t.children := by
  cases t <;> rfl

theorem labelsAt_setOffset (j : Nat) (t : Level α) (o : Nat) : labelsAt j (t.setOffset o) = labelsAt j t := by
  cases j <;> cases t <;> rfl

theorem labelsAtList_append (j : Nat) : ∀ (a b : List (Level α)),
    labelsAtList j (a ++ b) = labelsAtList j a ++ labelsAtList j b
  | [], b => by simp [labelsAtList]
  | c :: a, b => by simp [labelsAtList, labelsAtList_append j a b]

theorem labelsAtList_map_setOffset (j : Nat) (f : Level α → Nat) : ∀ (cs : List (Level α)),
    labelsAtList j (cs.map (fun s => s.setOffset (f s))) = labelsAtList j cs
  | [] => rfl
  | c :: cs => by simp [labelsAtList, labelsAt_setOffset, labelsAtList_map_setOffset j f cs]

theorem promote_fst : ∀ (cs : List (Level α)), (promote cs).1 = labelsAtList 0 cs
  | [] => rfl
  | c :: cs => by simp [promote, labelsAtList, labelsAt_zero, promote_fst cs]

theorem promote_snd_labelsAt (j : Nat) : ∀ (cs : List (Level α)),
    labelsAtList j (promote cs).2 = labelsAtList (j + 1) cs
  | [] => rfl
  | c :: cs => by
    simp only [promote, labelsAtList, labelsAtList_append, labelsAt_succ, promote_snd_labelsAt j cs]
    rw [labelsAtList_map_setOffset j (fun s => s.offset + c.offset)]

theorem WFList_append (d : Nat) : ∀ (xs : List (Level α)) (a : Nat) (ys : List (Level α)),
    WFList d a xs → WFList d (a + lenList xs) ys → WFList d a (xs ++ ys)
  | [], a, ys, h1, h2 => by simpa [lenList] using h2
  | x :: xs, a, ys, h1, h2 => by
    simp only [WFList] at h1
    simp only [List.cons_append, WFList]
    refine ⟨h1.1, h1.2.1, WFList_append d xs _ ys h1.2.2 ?_⟩
    simp only [lenList] at h2
    rwa [Nat.add_assoc]

theorem lenList_map_setOffset (f : Level α → Nat) : ∀ (cs : List (Level α)),
    lenList (cs.map (fun s => s.setOffset (f s))) = lenList cs
  | [] => rfl
  | c :: cs => by simp [lenList, lenList_map_setOffset f cs]

/-- adding the offset of the dropped parent to the offsets of its targets -/
theorem WFList_shift (d a : Nat) : ∀ (gcs : List (Level α)) (b : Nat), WFList d b gcs →
    WFList d (b + a) (gcs.map (fun s => s.setOffset (s.offset + a)))
  | [], b, h => by simp [WFList]
  | c :: gcs, b, h => by
    simp only [WFList] at h
    simp only [List.map_cons, WFList, offset_setOffset, WF_setOffset, len_setOffset]
    refine ⟨by omega, h.2.1, ?_⟩
    have := WFList_shift d a gcs (b + c.len) h.2.2
    rwa [Nat.add_right_comm] at this

theorem tuplesZip_map_setOffset (f : Level α → Nat) : ∀ (ls : List α) (cs : List (Level α)),
    tuplesZip ls (cs.map (fun s => s.setOffset (f s))) = tuplesZip ls cs
  | [], cs => by simp [tuplesZip]
  | l :: ls, [] => by simp [tuplesZip]
  | l :: ls, c :: cs => by simp [tuplesZip, tuplesZip_map_setOffset f ls cs]

theorem populatedList_append : ∀ (a b : List (Level α)), PopulatedList (a ++ b) ↔ PopulatedList a ∧ PopulatedList b
  | [], b => by simp [PopulatedList]
  | c :: a, b => by simp [PopulatedList, populatedList_append a b, and_assoc]

theorem populatedList_map_setOffset (f : Level α → Nat) : ∀ (cs : List (Level α)),
    PopulatedList (cs.map (fun s => s.setOffset (f s))) ↔ PopulatedList cs
  | [] => by simp [PopulatedList]
  | c :: cs => by simp [PopulatedList, populated_setOffset, populatedList_map_setOffset f cs]

theorem populated_children : ∀ (t : Level α), Populated t → PopulatedList t.children
  | .leaf ls o, h => by simp [children, PopulatedList]
  | .node ls cs o, h => h.2

theorem promote_populated : ∀ (cs : List (Level α)), PopulatedList cs → PopulatedList (promote cs).2
  | [], h => by simp [promote, PopulatedList]
  | c :: cs, h => by
    simp only [PopulatedList] at h
    simp only [promote, populatedList_append]
    exact ⟨(populatedList_map_setOffset _ _).mpr (populated_children c h.1), promote_populated cs h.2⟩

/-- promoting the targets of well-formed nodes of depth `d ≥ 2`: the offsets of the promoted
    targets are the running leaf counts again -/
theorem promote_WF : ∀ (cs : List (Level α)) (d acc : Nat), 2 ≤ d → WFList d acc cs →
    WFList (d - 1) acc (promote cs).2 ∧ lenList (promote cs).2 = lenList cs ∧
      (promote cs).1.length = (promote cs).2.length
  | [], d, acc, hd, h => by simp [promote, WFList, lenList]
  | .leaf ls o :: cs, d, acc, hd, h => by
    simp only [WFList, WF] at h; omega
  | .node ls gcs o :: cs, d, acc, hd, h => by
    simp only [WFList, WF, offset, len] at h
    obtain ⟨ho, ⟨_, _, hlen, hg⟩, hrest⟩ := h
    obtain ⟨i1, i2, i3⟩ := promote_WF cs d (acc + lenList gcs) hd hrest
    simp only [promote, labels, children, offset_node, lenList, len, lenList_append, lenList_map_setOffset,
      List.length_append, List.length_map]
    refine ⟨?_, by omega, by omega⟩
    apply WFList_append
    · have := WFList_shift (d - 1) o gcs 0 hg
      rw [ho] at this ⊢
      simpa using this
    · rw [lenList_map_setOffset]; exact i1

theorem promote_tuples : ∀ (ls : List α) (cs : List (Level α)) (d acc : Nat), 2 ≤ d → WFList d acc cs →
    ls.length = cs.length →
    tuplesZip (promote cs).1 (promote cs).2 = (tuplesZip ls cs).map (List.drop 1)
  | [], [], d, acc, hd, h, hl => by simp [promote, tuplesZip]
  | [], _ :: _, d, acc, hd, h, hl => by simp at hl
  | _ :: _, [], d, acc, hd, h, hl => by simp at hl
  | l :: ls, .leaf ls' o :: cs, d, acc, hd, h, hl => by
    simp only [WFList, WF] at h; omega
  | l :: ls, .node ls' gcs o :: cs, d, acc, hd, h, hl => by
    simp only [WFList, WF, offset, len] at h
    obtain ⟨ho, ⟨_, _, hlen, hg⟩, hrest⟩ := h
    simp only [promote, labels, children, offset]
    rw [tuplesZip_append _ _ _ _ (by simpa using hlen), tuplesZip_map_setOffset,
      promote_tuples ls cs d _ hd hrest (by simpa using hl)]
    simp [tuplesZip, tuples, Function.comp_def]

/-- the targets of the root are leaves: nothing is promoted, the labels are the suffixes -/
theorem promote_leaves : ∀ (ls : List α) (cs : List (Level α)) (acc : Nat), WFList 1 acc cs →
    ls.length = cs.length →
    (promote cs).2 = [] ∧ (promote cs).1.map ([·]) = (tuplesZip ls cs).map (List.drop 1)
  | [], [], acc, h, hl => by simp [promote, tuplesZip]
  | [], _ :: _, acc, h, hl => by simp at hl
  | _ :: _, [], acc, h, hl => by simp at hl
  | l :: ls, .node ls' gcs o :: cs, acc, h, hl => by
    simp only [WFList, WF] at h; omega
  | l :: ls, .leaf ls' o :: cs, acc, h, hl => by
    simp only [WFList] at h
    obtain ⟨i1, i2⟩ := promote_leaves ls cs _ h.2.2 (by simpa using hl)
    simp only [promote, labels, children, List.map_nil, List.nil_append, i1, List.map_append, i2,
      tuplesZip, tuples, List.map_map, true_and]
    simp [Function.comp_def]

theorem WF_isLeaf : ∀ (t : Level α) (d : Nat), WF d t → (t.isLeaf = true ↔ d = 1)
  | .leaf ls o, d, h => by simp only [WF] at h; simp [isLeaf, h.1]
  | .node ls cs o, d, h => by simp only [WF] at h; simp [isLeaf]; omega

/-- one round of the outer drop -/
theorem dropOuterStep_spec {t : Level α} {d : Nat} (h : WF d t) (hp : Populated t) (hd : 2 ≤ d) :
    ((labelsAt 1 t).Nodup → ∃ r, dropOuterStep promote t = .ok r ∧ WF (d - 1) r ∧ Populated r ∧
        r.tuples = t.tuples.map (List.drop 1) ∧ (∀ j, labelsAt j r = labelsAt (j + 1) t)) ∧
    (¬ (labelsAt 1 t).Nodup → dropOuterStep promote t = .error .nonUnique) := by
  cases t with
  | leaf ls o => simp only [WF] at h; omega
  | node ls cs o =>
    simp only [WF] at h
    simp only [Populated] at hp
    obtain ⟨_, hn, hlen, hcs⟩ := h
    have hl1 : labelsAt 1 (.node ls cs o) = (promote cs).1 := by
      rw [labelsAt_succ, children, promote_fst]
    have hlj : ∀ (r : Level α), r.labels = (promote cs).1 → r.children = (promote cs).2 →
        ∀ j, labelsAt j r = labelsAt (j + 1) (.node ls cs o) := by
      intro r hr1 hr2 j
      cases j with
      | zero => rw [labelsAt_zero, hr1, hl1]
      | succ j => rw [labelsAt_succ, hr2, promote_snd_labelsAt, labelsAt_succ, children]
    have hne : (promote cs).1 ≠ [] := by
      cases cs with
      | nil => simp at hlen; exact absurd hlen hp.1
      | cons c cs =>
        simp only [PopulatedList] at hp
        simp only [promote]
        intro e
        exact populated_labels c hp.2.1 (List.append_eq_nil_iff.mp e).1
    simp only [dropOuterStep, Index.mk?_eq, hl1]
    constructor
    · intro hnd
      simp only [hnd, if_true]
      by_cases hd2 : d = 2
      · subst hd2
        obtain ⟨i1, i2⟩ := promote_leaves ls cs 0 hcs hlen
        refine ⟨.leaf (promote cs).1 0, by simp [i1], by simp [WF, hnd], hne, ?_, hlj _ rfl (by simp [children, i1])⟩
        simp only [tuples, i2]
      · obtain ⟨i1, i2, i3⟩ := promote_WF cs (d - 1) 0 (by omega) hcs
        have hne2 : (promote cs).2 ≠ [] := by
          intro e; rw [e] at i3; simp at i3; exact hne i3
        refine ⟨.node (promote cs).1 (promote cs).2 0, ?_, ?_, ⟨hne, promote_populated cs hp.2⟩, ?_, hlj _ rfl rfl⟩
        · simp [hne2]
        · simp only [WF]
          exact ⟨by omega, hnd, i3, i1⟩
        · simp only [tuples]
          exact promote_tuples ls cs (d - 1) 0 (by omega) hcs hlen
    · intro hnd
      simp [hnd]

theorem outerDroppable_succ {t r : Level α} {k : Nat} (hr : ∀ j, labelsAt j r = labelsAt (j + 1) t) :
    OuterDroppable (k + 1) t ↔ (labelsAt 1 t).Nodup ∧ OuterDroppable k r := by
  unfold OuterDroppable
  constructor
  · intro h
    refine ⟨h 1 (by omega) (by omega), fun j h1 h2 => ?_⟩
    rw [hr]; exact h (j + 1) (by omega) (by omega)
  · rintro ⟨h0, h⟩ j h1 h2
    by_cases hj : j = 1
    · subst hj; exact h0
    · obtain ⟨i, rfl⟩ : ∃ i, j = i + 1 := ⟨j - 1, by omega⟩
      rw [← hr]; exact h i (by omega) (by omega)

/-- the rounds of the outer drop -/
theorem dropOuterN_spec : ∀ (k : Nat) (t : Level α) (d : Nat), WF d t → Populated t → k < d →
    (OuterDroppable k t → ∃ r, dropOuterN promote k t = .ok r ∧ WF (d - k) r ∧ Populated r ∧
        r.tuples = t.tuples.map (List.drop k)) ∧
    (¬ OuterDroppable k t → dropOuterN promote k t = .error .nonUnique)
  | 0, t, d, h, hp, hk => by
    have hid : ∀ l : List (List α), l.map (List.drop 0) = l := fun l => by
      induction l with
      | nil => rfl
      | cons a l ih => simp [ih]
    exact ⟨fun _ => ⟨t, rfl, h, hp, (hid _).symm⟩, fun hn => absurd (fun j h1 h2 => by omega) hn⟩
  | k + 1, t, d, h, hp, hk => by
    obtain ⟨s1, s2⟩ := dropOuterStep_spec h hp (by omega)
    by_cases hn : (labelsAt 1 t).Nodup
    · obtain ⟨r1, e1, w1, p1, t1, l1⟩ := s1 hn
      have hrec : dropOuterN promote (k + 1) t = dropOuterN promote k r1 := by
        simp only [dropOuterN, e1]
        by_cases hl : r1.isLeaf = true
        · have := (WF_isLeaf r1 _ w1).mp hl
          have hk0 : k = 0 := by omega
          subst hk0
          simp [hl, dropOuterN]
        · simp [hl]
      obtain ⟨q1, q2⟩ := dropOuterN_spec k r1 (d - 1) w1 p1 (by omega)
      rw [hrec, outerDroppable_succ l1]
      constructor
      · rintro ⟨_, hdr⟩
        obtain ⟨r, e, w, p, tt⟩ := q1 hdr
        refine ⟨r, e, ?_, p, ?_⟩
        · have e' : d - (k + 1) = d - 1 - k := by omega
          rw [e']; exact w
        · rw [tt, t1, List.map_map]
          congr 1
          funext x
          simp
      · intro hnd
        exact q2 (fun hdr => hnd ⟨hn, hdr⟩)
    · constructor
      · intro hdr
        exact absurd (hdr 1 (by omega) (by omega)) hn
      · intro _
        simp only [dropOuterN, s2 hn]

/-- `level_drop(k)`, `k > 0`, on a well-formed, populated tree of depth `d > k` -/
theorem levelDropOuter_spec {t : Level α} {d k : Nat} (h : WF d t) (hp : Populated t) (hk0 : 0 < k) (hk : k < d) :
    (OuterDroppable k t → ∃ r, levelDropOuter k t = .ok r ∧ WF (d - k) r ∧ Populated r ∧
        r.tuples = t.tuples.map (List.drop k)) ∧
    (¬ OuterDroppable k t → levelDropOuter k t = .error .nonUnique) := by
  have := dropOuterN_spec k t d h hp hk
  simpa [levelDropOuter, Nat.ne_of_gt hk0] using this

end Level

/-! ### trees built by `from_labels` are populated -/

namespace BTree
variable {α : Type} [DecidableEq α]

mutual
/-- no empty dict, no empty leaf list -/
def BPop : BTree α → Prop
  | .leaves ls => ls ≠ []
  | .dict items => items ≠ [] ∧ BPopItems items
def BPopItems : List (α × BTree α) → Prop
  | [] => True
  | (_, b) :: items => BPop b ∧ BPopItems items
end

/-- the same below the root (the root is empty before the first label) -/
def BPopW : BTree α → Prop
  | .leaves _ => True
  | .dict items => BPopItems items

theorem BPop.weak : ∀ (b : BTree α), BPop b → BPopW b
  | .leaves ls, h => trivial
  | .dict items, h => h.2

theorem BPopItems_append : ∀ (a b : List (α × BTree α)), BPopItems (a ++ b) ↔ BPopItems a ∧ BPopItems b
  | [], b => by simp [BPopItems]
  | (k, x) :: a, b => by simp [BPopItems, BPopItems_append a b, and_assoc]

theorem BPopItems_find : ∀ (items : List (α × BTree α)) (v : α) (sub : BTree α),
    BPopItems items → find? items v = some sub → BPop sub
  | [], v, sub, h, hf => by simp [find?] at hf
  | (k, b) :: items, v, sub, h, hf => by
    simp only [BPopItems] at h
    simp only [find?] at hf
    by_cases hk : k = v
    · rw [if_pos hk] at hf; cases hf; exact h.1
    · rw [if_neg hk] at hf; exact BPopItems_find items v sub h.2 hf

theorem BPopItems_replace : ∀ (items : List (α × BTree α)) (v : α) (sub : BTree α),
    BPopItems items → BPop sub → BPopItems (replace items v sub)
  | [], v, sub, h, hs => by simp [replace, BPopItems]
  | (k, b) :: items, v, sub, h, hs => by
    simp only [BPopItems] at h
    simp only [replace]
    by_cases hk : k = v
    · rw [if_pos hk]; exact ⟨hs, h.2⟩
    · rw [if_neg hk]; exact ⟨h.1, BPopItems_replace items v sub h.2 hs⟩

theorem replace_ne_nil : ∀ (items : List (α × BTree α)) (v : α) (sub : BTree α),
    items ≠ [] → replace items v sub ≠ []
  | [], v, sub, h => absurd rfl h
  | (k, b) :: items, v, sub, h => by
    simp only [replace]; split <;> simp

theorem insert_pop : ∀ (label : List α) (b : BTree α) (obs : List (Option α))
    (b' : BTree α) (obs' : List (Option α)), BPopW b → insert b label obs = .ok (b', obs') → BPop b'
  | [], b, obs, b', obs', hw, h => by
    cases b <;> simp [insert] at h
  | [v], .leaves ls, obs, b', obs', hw, h => by
    simp only [insert, Except.ok.injEq, Prod.mk.injEq] at h
    obtain ⟨rfl, rfl⟩ := h
    simp [BPop]
  | [v], .dict items, obs, b', obs', hw, h => by
    simp [insert] at h
  | v :: w :: rest, .leaves ls, obs, b', obs', hw, h => by
    simp [insert] at h
  | v :: w :: rest, .dict items, [], b', obs', hw, h => by
    simp [insert] at h
  | v :: w :: rest, .dict items, o :: obs, b', obs', hw, h => by
    simp only [BPopW] at hw
    simp only [insert] at h
    cases hf : find? items v with
    | none =>
      rw [hf] at h
      simp only at h
      have hbw : BPopW (if rest.isEmpty then BTree.leaves [] else BTree.dict ([] : List (α × BTree α))) := by
        split <;> simp [BPopW, BPopItems]
      cases hi : insert (if rest.isEmpty then BTree.leaves [] else BTree.dict []) (w :: rest) obs with
      | error e => rw [hi] at h; cases h
      | ok r =>
        obtain ⟨sub, obs''⟩ := r
        rw [hi] at h
        simp only [Except.ok.injEq, Prod.mk.injEq] at h
        obtain ⟨rfl, rfl⟩ := h
        have := insert_pop (w :: rest) _ obs sub obs'' hbw hi
        simp only [BPop, BPopItems_append, BPopItems]
        exact ⟨by simp, hw, this, trivial⟩
    | some sub0 =>
      rw [hf] at h
      simp only at h
      by_cases ho : o = some v
      · subst ho
        rw [if_neg (by simp)] at h
        cases hi : insert sub0 (w :: rest) obs with
        | error e => rw [hi] at h; cases h
        | ok r =>
          obtain ⟨sub, obs''⟩ := r
          rw [hi] at h
          simp only [Except.ok.injEq, Prod.mk.injEq] at h
          obtain ⟨rfl, rfl⟩ := h
          have hs0 := BPopItems_find items v sub0 hw hf
          have := insert_pop (w :: rest) sub0 obs sub obs'' hs0.weak hi
          have hne : items ≠ [] := by
            intro e; subst e; simp [find?] at hf
          exact ⟨replace_ne_nil items v sub hne, BPopItems_replace items v sub hw this⟩
      · rw [if_pos ho] at h; cases h

theorem insertAll_pop (d : Nat) : ∀ (ls : List (List α)) (t : BTree α) (obs : List (Option α)) (t' : BTree α),
    BPopW t → insertAll d t obs ls = .ok t' → (ls ≠ [] ∨ BPop t) → BPop t'
  | [], t, obs, t', hw, h, hne => by
    simp only [insertAll, Except.ok.injEq] at h
    subst h
    rcases hne with hne | hne
    · exact absurd rfl hne
    · exact hne
  | l :: ls, t, obs, t', hw, h, hne => by
    simp only [insertAll] at h
    by_cases hlen : l.length = d
    · rw [if_neg (by simpa using hlen)] at h
      cases hi : insert t l obs with
      | error e => rw [hi] at h; cases h
      | ok r =>
        obtain ⟨t1, obs1⟩ := r
        rw [hi] at h
        simp only at h
        have h1 := insert_pop l t obs t1 obs1 hw hi
        exact insertAll_pop d ls t1 obs1 t' h1.weak h (Or.inr h1)
    · rw [if_pos (by simpa using hlen)] at h; cases h

variable [IntLabel α]

mutual
theorem toLevel_pop : ∀ (b : BTree α) (off : Nat) (t : Level α), BPop b → toLevel b off = .ok t →
    Level.Populated t
  | .leaves ls, off, t, hp, h => by
    simp only [toLevel] at h
    cases hm : Index.mk? ls with
    | error e => rw [hm] at h; cases h
    | ok ix =>
      rw [hm] at h
      simp only [Except.ok.injEq] at h
      subst h
      obtain ⟨h1, _⟩ := mk?_ok hm
      simp only [BPop] at hp
      simp only [Level.Populated, h1]
      exact hp
  | .dict items, off, t, hp, h => by
    simp only [toLevel] at h
    simp only [BPop] at hp
    cases hc : toLevels items 0 with
    | error e => rw [hc] at h; cases h
    | ok cs =>
      rw [hc] at h
      simp only at h
      cases hm : Index.mk? (items.map (·.1)) with
      | error e => rw [hm] at h; cases h
      | ok ix =>
        rw [hm] at h
        simp only [Except.ok.injEq] at h
        subst h
        obtain ⟨h1, _⟩ := mk?_ok hm
        simp only [Level.Populated, h1]
        exact ⟨by simpa using hp.1, toLevels_pop items 0 cs hp.2 hc⟩
theorem toLevels_pop : ∀ (items : List (α × BTree α)) (acc : Nat) (cs : List (Level α)),
    BPopItems items → toLevels items acc = .ok cs → Level.PopulatedList cs
  | [], acc, cs, hp, h => by
    simp only [toLevels, Except.ok.injEq] at h
    subst h
    simp [Level.PopulatedList]
  | (k, b) :: items, acc, cs, hp, h => by
    simp only [toLevels] at h
    simp only [BPopItems] at hp
    cases hb : toLevel b acc with
    | error e => rw [hb] at h; cases h
    | ok c =>
      rw [hb] at h
      simp only at h
      cases hr : toLevels items (acc + c.len) with
      | error e => rw [hr] at h; cases h
      | ok cs' =>
        rw [hr] at h
        simp only [Except.ok.injEq] at h
        subst h
        simp only [Level.PopulatedList]
        exact ⟨toLevel_pop b acc c hp.1 hb, toLevels_pop items _ cs' hp.2 hr⟩
end

end BTree

namespace Level
variable {α : Type} [DecidableEq α] [IntLabel α]

/-- a non-empty `from_labels` result has no empty IndexLevel -/
theorem fromLabels_populated {ts : List (List α)} {t : Level α} (h : fromLabels ts = .ok t) (hne : ts ≠ []) :
    Populated t := by
  unfold fromLabels at h
  cases ts with
  | nil => exact absurd rfl hne
  | cons first rest =>
    simp only at h
    by_cases hlt : first.length < 2
    · rw [if_pos hlt] at h; cases h
    · rw [if_neg hlt] at h
      cases hi : BTree.insertAll first.length (.dict []) (List.replicate first.length none) (first :: rest) with
      | error e => rw [hi] at h; cases h
      | ok tree =>
        rw [hi] at h
        simp only at h
        have := BTree.insertAll_pop first.length (first :: rest) (.dict []) _ tree
          (by simp [BTree.BPopW, BTree.BPopItems]) hi (Or.inl (by simp))
        exact BTree.toLevel_pop tree 0 t this h

end Level

end SF
