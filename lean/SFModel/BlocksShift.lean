/-
  SFModel.BlocksShift — model of `util.array_shift` (with `roll_1d` / `roll_2d`) and of
  `TypeBlocks._shift_blocks` (static_frame/core/type_blocks.py), the generator behind
  `Frame.roll` / `Frame.shift`; `Series.roll` / `Series.shift` call `array_shift` directly.

  The code is mirrored step by step: Python's floor modulo (`%`, ZeroDivisionError on a zero-sized
  axis), the two early `yield from self._blocks` exits, the lookup `self._index[index_start_pos]`
  with a NEGATIVE position, the head / tail split of the start block, the replacement of head or
  tail by the fill block of width `min(ncols, |column_shift|)` when not wrapping (the other part is
  dropped when every column is shifted out: /repo commit ad4f5b0; the code before it is kept as
  `TB.shiftBlocksPinned` for the counterexample theorems), and the per-block `array_shift(axis=0)`.

  Parameters of the model (NumPy / dtype machinery that is not modelled here):
    * `resolve : DT → DT → DT`      `util.resolve_dtype` (what `full_for_fill(array.dtype, …)` uses)
    * `conv : DT → DT → α → α`      NumPy's conversion of a cell stored with dtype `s` when it is
                                    assigned into an array of dtype `d` (`result[shift:] = array[:-shift]`);
                                    the fill value as stored in an array of dtype `d` is
                                    `conv fillDT d fill` (`np.full(shape, fill_value, dtype=d)`), where
                                    `fillDT = dtype_from_element(fill_value)`.
-/
import SFModel.Blocks

namespace SF

/-- Python's `a % b` on ints (floor modulo: the sign of the result follows the divisor);
    `b = 0` raises ZeroDivisionError (an ArithmeticError: category `other` of the harness). -/
def pyMod (a b : Int) : Except Err Int :=
  if b = 0 then .error .other else .ok (Int.fmod a b)

/-- one bound of a step-1 slice on a sequence of length `n` (`PySlice_AdjustIndices`) -/
def clampBound (i : Int) (n : Nat) : Nat :=
  if i < 0 then (i + n).toNat else min i.toNat n

/-- `l[start:stop]` (step 1), for Python lists and for one axis of a NumPy array -/
def sliceList {β : Type} (l : List β) (start stop : Option Int) : List β :=
  let a := match start with | none => 0 | some i => clampBound i l.length
  let b := match stop with | none => l.length | some i => clampBound i l.length
  (l.drop a).take (b - a)

/-- `res[start:stop] = vals` on one axis of a NumPy array: the lengths have to agree
    (ValueError "could not broadcast" otherwise; NumPy would also accept a single lane and
    broadcast it — never the case here, `Props/C03Shift.lean` shows the lengths always agree). -/
def setSlice {β : Type} (res : List β) (start stop : Option Int) (vals : List β) : Except Err (List β) :=
  let a := match start with | none => 0 | some i => clampBound i res.length
  let b := match stop with | none => res.length | some i => clampBound i res.length
  if vals.length = b - a then .ok (res.take a ++ vals ++ res.drop (a + vals.length)) else .error .value

/-- `util.roll_1d(array, shift)`, and `roll_2d` along one axis (`size = array.shape[axis]`, the
    lanes along the axis are the elements of `a`). -/
def roll1d {β : Type} (size : Nat) (a : List β) (shift : Int) : List β :=
  if size ≤ 1 then a else           -- `return array.copy()`
  let shift := Int.fmod shift size  -- "result will be positive"
  if shift = 0 then a else
  -- `post[0:shift] = array[-shift:]; post[shift:] = array[0:-shift]`
  sliceList a (some (-shift)) none ++ sliceList a (some 0) (some (-shift))

/-- the head of `array_shift`: `shift_mod` ("do negative modulo to force negative value") -/
def shiftMod (shift : Int) (size : Nat) : Except Err Int :=
  if shift > 0 then pyMod shift size
  else if shift < 0 then pyMod shift (-(size : Int))
  else .ok 0

/-- `array_shift` once `shift_mod` is known, along ONE axis of length `size`; the elements of `a`
    are the lanes along that axis (cells of a 1-D array, rows or columns of a 2-D array).
    `fillStored` is one lane of `full_for_fill(array.dtype, array.shape, fill_value)`, `cv` the
    conversion NumPy applies to a lane assigned into that array. -/
def shiftLane {β : Type} (size : Nat) (a : List β) (shift shiftMod : Int) (wrap : Bool)
    (fillStored : β) (cv : β → β) : Except Err (List β) :=
  if (!wrap && shift == 0) || (wrap && shiftMod == 0) then .ok a      -- `return array.copy()`
  else if wrap then .ok (roll1d size a shiftMod)
  else
    let result := List.replicate size fillStored
    if shift > 0 then
      setSlice result (some shift) none ((sliceList a none (some (-shift))).map cv)    -- result[shift:] = array[:-shift]
    else if shift < 0 then
      setSlice result none (some shift) ((sliceList a (some (-shift)) none).map cv)    -- result[:shift] = array[-shift:]
    else .ok result

/-- `array_shift(array=a, shift=…, axis=0, wrap=…, fill_value=…)` on a 1-D array (generic in the cell
    type, so that it also describes axis 1 of a 2-D array held as a list of columns). -/
def arrayShift {β : Type} (a : List β) (shift : Int) (wrap : Bool) (fillStored : β) (cv : β → β) :
    Except Err (List β) :=
  match shiftMod shift a.length with
  | .error e => .error e
  | .ok m => shiftLane a.length a shift m wrap fillStored cv

section env
variable {α : Type} (resolve : DT → DT → DT) (conv : DT → DT → α → α)

/-- dtype of the result of `array_shift`: a copy / a roll keeps the dtype, a fill goes through
    `full_for_fill(array.dtype, …)`, i.e. `resolve_dtype(array.dtype, dtype_from_element(fill))`. -/
def shiftDT (t : DT) (shift : Int) (wrap : Bool) (fillDT : DT) : DT :=
  if wrap || shift == 0 then t else resolve t fillDT

/-- `array_shift(array=b, shift, axis, wrap, fill_value)` for a 1-D or 2-D array `b`;
    `rows = b.shape[0]` of a 2-D array (needed when it has no column, and for the fill column).
    An axis the array does not have: `array.shape[axis]` is an IndexError — but only evaluated for
    a non-zero shift. -/
def Block.arrayShift (b : Block α) (rows : Nat) (shift : Int) (axis : Nat) (wrap : Bool)
    (fill : α) (fillDT : DT) : Except Err (Block α) :=
  let t' := shiftDT resolve b.dt shift wrap fillDT
  let fillStored : α := conv fillDT t' fill
  match b, axis with
  | .d1 t c, 0 =>
    match shiftMod shift c.length with
    | .error e => .error e
    | .ok m => (shiftLane c.length c shift m wrap fillStored (conv t t')).map (.d1 t')
  | .d2 t cs, 0 =>
    match shiftMod shift rows with
    | .error e => .error e
    | .ok m => (cs.mapM fun c => shiftLane rows c shift m wrap fillStored (conv t t')).map (.d2 t')
  | .d2 t cs, 1 =>
    match shiftMod shift cs.length with
    | .error e => .error e
    | .ok m =>
      (shiftLane cs.length cs shift m wrap (List.replicate rows fillStored) (List.map (conv t t'))).map (.d2 t')
  | _, _ => if shift = 0 then .ok b else .error .lookup

/-- `b[:, start:stop]`: needs a 2-D array (IndexError "too many indices" on a 1-D one) -/
def Block.colSlice (b : Block α) (start stop : Option Int) : Except Err (Block α) :=
  match b with
  | .d1 _ _ => .error .lookup
  | .d2 t cs => .ok (.d2 t (sliceList cs start stop))

namespace TB

/-- `index_start_pos, row_start_pos` ("new start index is the opposite of the shift");
    the column modulo is evaluated first, both raise ZeroDivisionError on a zero-sized axis. -/
def shiftStarts (tb : TB α) (rowShift colShift : Int) : Except Err (Int × Int) :=
  match pyMod colShift tb.ncols with
  | .error e => .error e
  | .ok mc =>
    match pyMod rowShift tb.rows with
    | .error e => .error e
    | .ok mr => .ok (-mc, -mr)

/-- the `else` branch up to `block_head_iter` / `block_tail_iter`:
    `block_start_idx, block_start_column = self._index[index_start_pos]` with a position ≤ 0. -/
def shiftHeadTail (tb : TB α) (indexStartPos : Int) : Except Err (List (Block α) × List (Block α)) :=
  match normPos indexStartPos tb.index.length with
  | .error e => .error e
  | .ok p =>
    match tb.index[p]? with
    | none => .error .lookup
    | some (bsi, bsc) =>
      match tb.blocks[bsi]? with
      | none => .error .lookup
      | some blockStart =>
        let after := sliceList tb.blocks (some ((bsi : Int) + 1)) none     -- self._blocks[block_start_idx + 1:]
        let before := sliceList tb.blocks none (some (bsi : Int))          -- self._blocks[:block_start_idx]
        if bsc = 0 then
          -- "we are starting at the block, no tail, always yield; captures all 1 dim block cases"
          .ok (blockStart :: after, before)
        else
          match blockStart.colSlice (some (bsc : Int)) none, blockStart.colSlice none (some (bsc : Int)) with
          | .ok h, .ok t => .ok (h :: after, before ++ [t])
          | .error e, _ => .error e
          | _, .error e => .error e

/-- `if not wrap:` — head or tail is replaced by
    `empty = full_for_fill(None, (rows, min(ncols, abs(column_shift))), fill_value)`; when every
    column is shifted out (`|column_shift| >= column_count`) the other part is dropped as well
    (`block_tail_iter = ()` / `block_head_iter = ()`, /repo commit ad4f5b0).
    `repaired = false` is the code before that commit (the other part was always kept): it is
    kept as the `…Pinned` variant for the counterexample theorems only. -/
def shiftFillPartGen (repaired : Bool) (tb : TB α) (colShift : Int) (wrap : Bool) (fill : α) (fillDT : DT)
    (ht : List (Block α) × List (Block α)) : List (Block α) × List (Block α) :=
  if wrap = false then
    let empty : Block α :=
      .d2 fillDT (List.replicate (min tb.ncols colShift.natAbs) (List.replicate tb.rows (conv fillDT fillDT fill)))
    if colShift > 0 then
      ([empty], if repaired = true ∧ colShift ≥ (tb.ncols : Int) then [] else ht.2)
    else if colShift < 0 then
      (if repaired = true ∧ -colShift ≥ (tb.ncols : Int) then [] else ht.1, [empty])
    else ht
  else ht

/-- `_shift_blocks` with the fill part of the current (`repaired = true`) or the pinned code -/
def shiftBlocksGen (repaired : Bool) (tb : TB α) (rowShift colShift : Int) (wrap : Bool) (fill : α) (fillDT : DT) :
    Except Err (List (Block α)) :=
  match tb.shiftStarts rowShift colShift with
  | .error e => .error e
  | .ok (indexStartPos, rowStartPos) =>
    if wrap = true ∧ indexStartPos = 0 ∧ rowStartPos = 0 then .ok tb.blocks
    else if wrap = false ∧ colShift = 0 ∧ rowShift = 0 then .ok tb.blocks
    else
      match tb.shiftHeadTail indexStartPos with
      | .error e => .error e
      | .ok ht =>
        let ht := tb.shiftFillPartGen conv repaired colShift wrap fill fillDT ht
        (ht.1 ++ ht.2).mapM fun b =>
          if (wrap = true ∧ rowStartPos = 0) ∨ (wrap = false ∧ rowShift = 0) then .ok b
          else b.arrayShift resolve conv tb.rows rowShift 0 wrap fill fillDT

/-- what `Frame.roll` / `Frame.shift` do with the generator: `TypeBlocks.from_blocks(...)`, then
    `Frame.__init__` with the labels of the source frame, which checks the shape
    (ErrorInitFrame "Columns has incorrect size" / "Index has incorrect size"). -/
def frameShiftGen (repaired : Bool) (tb : TB α) (rowShift colShift : Int) (wrap : Bool) (fill : α) (fillDT : DT) :
    Except Err (TB α) :=
  match tb.shiftBlocksGen resolve conv repaired rowShift colShift wrap fill fillDT with
  | .error e => .error e
  | .ok bs =>
    match fromBlocks bs none with
    | .error e => .error e
    | .ok res =>
      if res.ncols ≠ tb.ncols ∨ res.rows ≠ tb.rows then .error .init else .ok res

/-- `TypeBlocks._shift_blocks(row_shift, column_shift, wrap, fill_value)` as it is in /repo today:
    the blocks it yields. -/
def shiftBlocks (tb : TB α) (rowShift colShift : Int) (wrap : Bool) (fill : α) (fillDT : DT) :
    Except Err (List (Block α)) :=
  tb.shiftBlocksGen resolve conv true rowShift colShift wrap fill fillDT

/-- `Frame.roll` / `Frame.shift` as they are today -/
def frameShift (tb : TB α) (rowShift colShift : Int) (wrap : Bool) (fill : α) (fillDT : DT) :
    Except Err (TB α) :=
  tb.frameShiftGen resolve conv true rowShift colShift wrap fill fillDT

/-- `_shift_blocks` BEFORE /repo commit ad4f5b0 (the pinned tree): head or tail replaced by the fill
    block, the other part always kept — too many columns for `|column_shift| >= column_count` unless
    the shift is `column_count` itself or a positive multiple of it. -/
def shiftBlocksPinned (tb : TB α) (rowShift colShift : Int) (wrap : Bool) (fill : α) (fillDT : DT) :
    Except Err (List (Block α)) :=
  tb.shiftBlocksGen resolve conv false rowShift colShift wrap fill fillDT

def frameShiftPinned (tb : TB α) (rowShift colShift : Int) (wrap : Bool) (fill : α) (fillDT : DT) :
    Except Err (TB α) :=
  tb.frameShiftGen resolve conv false rowShift colShift wrap fill fillDT

end TB

/-- `Series.roll(shift)`: the guard `if shift % len(self.values)` is evaluated first
    (ZeroDivisionError on an empty Series, whatever the shift). Returns dtype and values. -/
def seriesRoll (t : DT) (vals : List α) (shift : Int) (fill : α) (fillDT : DT) : Except Err (Block α) :=
  match pyMod shift vals.length with
  | .error e => .error e
  | .ok m =>
    if m ≠ 0 then (Block.d1 t vals).arrayShift resolve conv vals.length shift 0 true fill fillDT
    else .ok (.d1 t vals)

/-- `Series.shift(shift, fill_value)`: `if shift:` -/
def seriesShift (t : DT) (vals : List α) (shift : Int) (fill : α) (fillDT : DT) : Except Err (Block α) :=
  if shift ≠ 0 then (Block.d1 t vals).arrayShift resolve conv vals.length shift 0 false fill fillDT
  else .ok (.d1 t vals)

/-! ### specification on plain lists -/

/-- rolling: cell `j` of the result is cell `(j - k) mod n` of the input (`rollSpec_getElem?`) -/
def rollSpec {β : Type} (l : List β) (k : Int) : List β := l.rotateRight (k % (l.length : Int)).toNat

/-- shifting: cell `j` of the result is cell `j - k` of the input where that exists, else the fill
    (`shiftSpec_getElem?`) -/
def shiftSpec {β : Type} (l : List β) (k : Int) (fill : β) : List β :=
  if 0 ≤ k then List.replicate (min k.toNat l.length) fill ++ l.take (l.length - k.toNat)
  else l.drop k.natAbs ++ List.replicate (min k.natAbs l.length) fill

/-- one column with its dtype after the row shift: a roll keeps the dtype; a shift by `r ≠ 0`
    resolves the dtype with the fill's and converts the cells; a shift by 0 rows leaves the column
    alone (the code does not touch the blocks then). -/
def shiftColSpec (r : Int) (wrap : Bool) (fill : α) (fillDT : DT) (x : DT × List α) : DT × List α :=
  if wrap then (x.1, rollSpec x.2 r)
  else if r = 0 then x
  else
    let t' := resolve x.1 fillDT
    (t', shiftSpec (x.2.map (conv x.1 t')) r (conv fillDT t' fill))

/-- THE SPECIFICATION on the list of `(dtype, column)`: rotate the column list by `c` and every
    column by `r`; shifting = the same with vacated positions holding the fill value (vacated
    columns are whole fill columns of dtype `fillDT`, which then take part in the row shift). -/
def shiftColsSpec (rows : Nat) (cols : List (DT × List α)) (r c : Int) (wrap : Bool) (fill : α) (fillDT : DT) :
    List (DT × List α) :=
  let moved :=
    if wrap then rollSpec cols c
    else shiftSpec cols c (fillDT, List.replicate rows (conv fillDT fillDT fill))
  moved.map (shiftColSpec resolve conv r wrap fill fillDT)

end env

/-- the column shifts for which the PINNED `_shift_blocks(wrap=False)` (before /repo commit ad4f5b0)
    yielded the right number of columns: `-n < c ≤ n`, or a positive multiple of `n` (then the start
    position is 0 again and the whole head is replaced). Everything else yielded MORE than `n`
    columns (`Props/C03Shift.lean`, `shiftPinned_*`). -/
def ColShiftOk (n : Nat) (c : Int) : Prop := (-(n : Int) < c ∧ c ≤ n) ∨ (0 < c ∧ c % (n : Int) = 0)

instance (n : Nat) (c : Int) : Decidable (ColShiftOk n c) := by unfold ColShiftOk; infer_instance

end SF
