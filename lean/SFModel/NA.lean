/-
  SFModel.NA — missing-value operations (property C14).

  Cells are an arbitrary type `α` with `isna : α → Bool` (NaN / None / NaT).  The model mirrors

    util.py         binary_transition, slices_from_targets (limit trimming)
    series.py       isna / notna / dropna / fillna / _fillna_directional / _fillna_sided / count
    type_blocks.py  isna / notna / dropna_to_keep_locations / fillna (by unit, with value_valid) /
                    fillna_by_values / _fillna_sided_axis_0 / _fillna_sided_axis_1 /
                    _fillna_directional_axis_0 / _fillna_directional_axis_1

  Axis-1 algorithms are modelled for ONE row: the row is a list of blocks (`RBlock`), a block is the
  list of that block's cells in the row.  Everything the real code keeps per row (bridging value,
  bridging isna, bridging count, isna_exit_previous) is per-row state here.  The only cross-row
  information the real code uses are block-level shortcuts ("no NA anywhere in this block: yield
  the block unchanged"); it enters the row model as the flag `others` ("some other row of this
  block takes the general branch"), and every theorem holds for every value of these flags.
  Axis-0 algorithms are modelled for one column of one block, with the same kind of flag.

  dtype resolution (`resolve_dtype`, `astype`) is not modelled: cells are abstract values and
  the harness compares with `==` where the library legitimately widens.

  No Mathlib import: the driver must start fast.
-/
import SFModel.Basic

namespace SF.NA

variable {α : Type}

/-! ## Specification: four short structural recursions on a plain line -/

/-- What a missing cell `x` becomes when the last seen value is `last` and `cnt` missing cells
    precede it in its run. -/
def fillOne (limit : Nat) (last : Option α) (cnt : Nat) (x : α) : α :=
  match last with
  | some v => if limit = 0 ∨ cnt < limit then v else x
  | none => x

/-- Forward fill with state (`last` seen non-missing value, `cnt` = length of the missing run so
    far).  `limit = 0` means unlimited (series.py: "A value of 0 is equivalent to no limit"). -/
def ffill (isna : α → Bool) (limit : Nat) : List α → Option α → Nat → List α
  | [], _, _ => []
  | x :: xs, last, cnt =>
    if isna x then fillOne limit last cnt x :: ffill isna limit xs last (cnt + 1)
    else x :: ffill isna limit xs (some x) 0

/-- The state of `ffill` after consuming a list. -/
def ffillState (isna : α → Bool) : List α → Option α → Nat → Option α × Nat
  | [], last, cnt => (last, cnt)
  | x :: xs, last, cnt =>
    if isna x then ffillState isna xs last (cnt + 1) else ffillState isna xs (some x) 0

def ffillSpec (isna : α → Bool) (limit : Nat) (l : List α) : List α := ffill isna limit l none 0

/-- Backward fill = forward fill of the reversed line. -/
def bfillSpec (isna : α → Bool) (limit : Nat) (l : List α) : List α :=
  (ffill isna limit l.reverse none 0).reverse

/-- Replace the leading run of missing cells by `v`; stop at the first non-missing cell. -/
def fillLeading (isna : α → Bool) (v : α) : List α → List α
  | [] => []
  | x :: xs => if isna x then v :: fillLeading isna v xs else x :: xs

def fillTrailing (isna : α → Bool) (v : α) (l : List α) : List α :=
  (fillLeading isna v l.reverse).reverse

/-- `fillna` per cell. -/
def fillCell (isna : α → Bool) (x : α) (o : Option α) : α :=
  if isna x then (match o with | some v => v | none => x) else x

/-- number of non-missing cells -/
def countSpec (isna : α → Bool) (l : List α) : Nat := (l.filter fun x => !isna x).length

/-! ## Array primitives -/

/-- `assigned[s:e] = v` (for `s ≤ e`; positions beyond the end do not exist). -/
def assignSlice (a : List α) (s e : Nat) (v : α) : List α :=
  a.mapIdx fun i x => if s ≤ i ∧ i < e then v else x

/-- `np.nonzero(mask)[0]` -/
def nonzero (m : List Bool) : List Nat := (List.range m.length).filter fun i => m[i]? = some true

/-- `binary_transition` (1-D; also each row / column of the 2-D variant): positions of non-missing
    cells whose right neighbour is missing (`array ^ roll(array,-1) & ~array`, wrap-around at the last
    position invalid) or whose left neighbour is missing (`roll(array, 1)`, position 0 invalid). -/
def isTransition (sel : List Bool) (i : Nat) : Bool :=
  sel[i]? = some false && (sel[i + 1]? = some true || (0 < i && sel[i - 1]? = some true))

def binaryTransition (sel : List Bool) : List Nat :=
  (List.range sel.length).filter (isTransition sel)

/-- A slice to assign: `assigned[start:stop] = a[target]`. -/
structure Sl where
  start : Nat
  stop : Nat
  target : Nat
deriving Repr, DecidableEq

/-- forward: `slice(start+1, stop) for start, stop in zip_longest(target_index, target_index[1:], fillvalue=length)` -/
def rawSlicesFwd (ts : List Nat) (length : Nat) : List Sl :=
  (ts.zip (ts.tail ++ [length])).map fun (t, stop) => ⟨t + 1, stop, t⟩

/-- backward: `slice(start+1 if start is not None else 0, stop) for start, stop in
    zip(chain((None,), target_index[:-1]), target_index)`; the value is the one at `stop`. -/
def rawSlicesBwd (ts : List Nat) : List Sl :=
  ((0 :: ts.dropLast.map (· + 1)).zip ts).map fun (s, t) => ⟨s, t, t⟩

/-- the limit trimming of `slices_from_targets` (`shift = len(range(slice)) - limit; if shift > 0`) -/
def trimSlice (fwd : Bool) (limit : Nat) (s : Sl) : Sl :=
  if limit > 0 then
    let shift := (s.stop - s.start) - limit
    if shift > 0 then
      (if fwd then { s with stop := s.stop - shift } else { s with start := s.start + shift })
    else s
  else s

/-- `slices_from_targets`: skip empty slices, (forward) slices starting beyond the end, slices whose
    first cell is not missing (`slice_condition`); trim by `limit`. -/
def slicesFromTargets (fwd : Bool) (limit : Nat) (sel : List Bool) (length : Nat) (ts : List Nat) : List Sl :=
  (if fwd then rawSlicesFwd ts length else rawSlicesBwd ts).filterMap fun s =>
    if s.start = s.stop then none
    else if fwd ∧ s.start ≥ length then none
    else if sel[s.start]? = some true then some (trimSlice fwd limit s)
    else none

/-- `for target_slice, value in …: assigned[target_slice] = value` with `value = b[target]` read from
    the ORIGINAL array `b`. -/
def applyOne (b : List α) (acc : List α) (s : Sl) : List α :=
  match b[s.target]? with
  | some v => assignSlice acc s.start s.stop v
  | none => acc

def applySlices (b : List α) (sls : List Sl) (assigned : List α) : List α :=
  sls.foldl (applyOne b) assigned

/-- The common core of `Series._fillna_directional` and of one column / row in
    `TypeBlocks._fillna_directional_axis_0/1`. -/
def fillDir1D (isna : α → Bool) (fwd : Bool) (limit : Nat) (a : List α) : List α :=
  let sel := a.map isna
  applySlices a (slicesFromTargets fwd limit sel a.length (binaryTransition sel)) a

/-- The slice of the leading (trailing) run of missing cells: `targets = np.nonzero(~sel)`,
    `slice(0, targets[0])` / `slice(targets[-1]+1, length)` / everything when all are missing. -/
def sidedSlice (leading : Bool) (sel : List Bool) : Nat × Nat :=
  let targets := nonzero (sel.map not)
  if leading then
    match targets.head? with
    | some t => (0, t)
    | none => (0, sel.length)
  else
    match targets.getLast? with
    | some t => (t + 1, sel.length)
    | none => (0, sel.length)

/-! ## Series -/

def seriesIsna (isna : α → Bool) (a : List α) : List Bool := a.map isna
def seriesNotna (isna : α → Bool) (a : List α) : List Bool := (a.map isna).map not

/-- `Series.dropna`: positions kept (`sel = ~isna`; all dropped → the empty Series). -/
def seriesDropna (isna : α → Bool) (a : List α) : List Nat :=
  let sel := (a.map isna).map not
  if !sel.any id then [] else nonzero sel

/-- `Series.fillna(element)` -/
def seriesFillnaElement (isna : α → Bool) (v : α) (a : List α) : List α :=
  let sel := a.map isna
  if !sel.any id then a
  else (a.zip sel).map fun (x, s) => if s then v else x

/-- `Series.fillna(Series)`: `other[i] = some v` when the label of position `i` exists in the
    argument (value `v` after reindexing), `none` otherwise (`sel = index.isin(labels_common)`). -/
def seriesFillnaSeries (isna : α → Bool) (other : List (Option α)) (a : List α) : List α :=
  let sel := a.map isna
  if !sel.any id then a
  else
    let sel2 := (sel.zip other).map fun (s, o) => s && o.isSome
    if !sel2.any id then a
    else ((a.zip sel2).zip other).map fun ((x, s), o) =>
      if s then (match o with | some v => v | none => x) else x

/-- `Series._fillna_directional` -/
def seriesFillDirectional (isna : α → Bool) (fwd : Bool) (limit : Nat) (a : List α) : List α :=
  if !(a.map isna).any id then a else fillDir1D isna fwd limit a

/-- `Series._fillna_sided` -/
def seriesFillSided (isna : α → Bool) (leading : Bool) (v : α) (a : List α) : List α :=
  let sel := a.map isna
  if !sel.any id then a
  else
    let sided := if leading then sel.head? else sel.getLast?
    if sided ≠ some true then a
    else
      let (s, e) := sidedSlice leading sel
      assignSlice a s e v

/-- `Series.count` : `len(values) - isna_array(values).sum()` -/
def seriesCount (isna : α → Bool) (a : List α) : Nat := a.length - ((a.map isna).filter id).length

/-! ## TypeBlocks, axis 1: one row across the block list -/

/-- The cells of one row inside one block.  `hd :: tl` is never empty (TypeBlocks never stores a
    zero-width block); a 1-D block has `oneD = true` and `tl = []`.  `others`: some other row of the
    same block sends the block into the general (non-shortcut) branch. -/
structure RBlock (α : Type) where
  oneD : Bool
  others : Bool
  hd : α
  tl : List α
deriving Repr

def RBlock.cells (b : RBlock α) : List α := b.hd :: b.tl

/-- per-row bridging state of `_fillna_directional_axis_1`:
    `bridging_values[i]`, `bridging_isna[i]`, `bridging_count[i]` -/
structure Bridge (α : Type) where
  val : α
  na : Bool
  count : Nat
deriving Repr

/-- `a[-1]` (forward: `bridge_src_index = -1`) or `a[0]`; `dflt` is never used because every
    array handled here has the length of a non-empty block row. -/
def edgeCell (last : Bool) (a : List α) (dflt : α) : α :=
  if last then a.getLastD dflt else a.headD dflt

/-- The bridging part of the 2-D branch: fill the run of missing cells at the entry edge of the block
    row from the carried value, trimmed so that `bridging_count + run ≤ limit`.
    Returns `(assigned, bridging_count[idx])`. -/
def bridgeFill (isna : α → Bool) (fwd : Bool) (limit : Nat) (st : Option (Bridge α))
    (cells : List α) (dflt : α) : List α × Nat :=
  match st with
  | none => (cells, 0)      -- `bridging_values is None`: assigned = b.copy(); bridging_count = 0
  | some ⟨bv, bna, bc⟩ =>
    -- isna_entry = sel[:, bridge_dst_index] & ~bridging_isna
    if isna (edgeCell (!fwd) cells dflt) && !bna then
      let (s, e) := sidedSlice fwd (cells.map isna)
      let sidedLen := e - s
      if limit ≠ 0 ∧ bc ≥ limit then (cells, bc + sidedLen)   -- already at limit: do not assign
      else if limit ≠ 0 ∧ bc + sidedLen ≥ limit then
        let shift := bc + sidedLen - limit
        let (s', e') := if fwd then (s, e - shift) else (s + shift, e)
        (assignSlice cells s' e' bv, bc + sidedLen)
      else (assignSlice cells s e bv, bc + sidedLen)
    else (cells, bc)

/-- The inner part of the 2-D branch: the 1-D algorithm on the row of the ORIGINAL block, written into
    `assigned1`; `bridging_count[i]` is overwritten by the length of `target_slice_edge`, the yielded
    slice next to the edge shared with the next block: slices are yielded left to right, so this is the
    LAST yielded slice going forward and the FIRST one going backward
    (`if directional_forward or target_slice_edge is None: target_slice_edge = target_slice`). -/
def innerFill (isna : α → Bool) (fwd : Bool) (limit : Nat)
    (cells assigned1 : List α) (count1 : Nat) : List α × Nat :=
  let sel := cells.map isna
  let ts := binaryTransition sel
  if ts = [] then (assigned1, count1)   -- `target_index is None: continue`
  else
    let sls := slicesFromTargets fwd limit sel cells.length ts
    let edgeSl := if fwd then sls.getLast? else sls.head?
    (applySlices cells sls assigned1,
     match edgeSl with
     | some s => s.stop - s.start   -- len(range(*target_slice_edge.indices(length)))
     | none => count1)

/-- The 1-D branch: "a single array has either NaN or non-NaN values; will only fill in NaN if we
    have a carried value from the previous block". -/
def stepOneD (isna : α → Bool) (limit : Nat) (st : Option (Bridge α)) (x : α) :
    List α × Option (Bridge α) :=
  match st with
  | some ⟨bv, bna, bc⟩ =>
    -- sel_sided = sel & ~bridging_isna; if limit: sel_sided[bridging_count >= limit] = False
    let selSided := isna x && !bna && !(decide (limit ≠ 0) && decide (bc ≥ limit))
    let y := if selSided then bv else x
    -- bridging_count[sel & ~bridging_isna] += 1; others = 0
    let c := if isna x && !bna then bc + 1 else 0
    ([y], some ⟨y, isna y, c⟩)
  | none => ([x], some ⟨x, isna x, 0⟩)   -- bridging_count = 0; bridging_values = assigned

/-- One block of `_fillna_directional_axis_1` for one row. -/
def stepDir (isna : α → Bool) (fwd : Bool) (limit : Nat)
    (st : Option (Bridge α)) (b : RBlock α) : List α × Option (Bridge α) :=
  let cells := b.cells
  let sel := cells.map isna
  if !(b.others || sel.any id) then
    -- `not np.any(sel)`: bridging_values = b[:, src]; bridging_isna = sel[:, src]; count = 0; yield b
    let x := edgeCell fwd cells b.hd
    (cells, some ⟨x, isna x, 0⟩)
  else if b.oneD ∧ b.tl = [] then stepOneD isna limit st b.hd
  else
    -- bridging_count_reset = ~sel[:, bridge_src_index]
    let reset0 := !isna (edgeCell fwd cells b.hd)
    let r1 := bridgeFill isna fwd limit st cells b.hd
    let r2 := innerFill isna fwd limit cells r1.1 r1.2
    let bv' := edgeCell fwd r2.1 b.hd
    let na' := isna bv'
    -- bridging_count_reset |= bridging_isna; bridging_count[reset] = 0
    let count3 := if reset0 || na' then 0 else r2.2
    (r2.1, some ⟨bv', na', count3⟩)

/-- run the blocks in the given order, threading the state; outputs in the same order -/
def runDir (isna : α → Bool) (fwd : Bool) (limit : Nat) :
    Option (Bridge α) → List (RBlock α) → List (List α)
  | _, [] => []
  | st, b :: bs =>
    let (out, st') := stepDir isna fwd limit st b
    out :: runDir isna fwd limit st' bs

/-- `fillna_forward(axis=1)` / `fillna_backward(axis=1)` for one row: backward iterates
    `reversed(blocks)` and the caller re-reverses the yielded blocks. -/
def rowDirAxis1 (isna : α → Bool) (fwd : Bool) (limit : Nat)
    (blocks : List (RBlock α)) : List (List α) :=
  if fwd then runDir isna true limit none blocks
  else (runDir isna false limit none blocks.reverse).reverse

/-- One block of `_fillna_sided_axis_1` for one row; `prev` = `isna_exit_previous[i]`
    (modelled as all True before the first block). -/
def stepSided (isna : α → Bool) (leading : Bool) (v : α) (prev : Bool) (b : RBlock α) :
    List α × Bool :=
  let cells := b.cells
  let sel := cells.map isna
  let oneD := b.oneD ∧ b.tl = []
  -- isna_entry = sel (1-D) / sel[:, sided_index]  & isna_exit_previous
  let entry := isna (edgeCell (!leading) cells b.hd) && prev
  let out :=
    if !(b.others || entry) then cells            -- `if not isna_entry.any(): yield b`
    else if oneD then (if entry then [v] else cells)   -- assigned[isna_entry] = value
    else if entry then                            -- candidates: rows with isna_entry
      let (s, e) := sidedSlice leading sel
      assignSlice cells s e v
    else cells
  -- isna_exit_previous = isna_entry (1-D) / sel.all(axis=1) & isna_exit_previous
  let exit := if oneD then entry else sel.all id && prev
  (out, exit)

def runSided (isna : α → Bool) (leading : Bool) (v : α) : Bool → List (RBlock α) → List (List α)
  | _, [] => []
  | prev, b :: bs =>
    let (out, prev') := stepSided isna leading v prev b
    out :: runSided isna leading v prev' bs

def rowSidedAxis1 (isna : α → Bool) (leading : Bool) (v : α) (blocks : List (RBlock α)) : List (List α) :=
  if leading then runSided isna true v true blocks
  else (runSided isna false v true blocks.reverse).reverse

/-! ## TypeBlocks, axis 0: one column of one block -/

/-- `_fillna_directional_axis_0` for one column of a block; `others`: some other column of the block
    holds a missing cell (otherwise the whole block is yielded unchanged). -/
def colDirAxis0 (isna : α → Bool) (fwd : Bool) (limit : Nat) (others : Bool) (col : List α) : List α :=
  let sel := col.map isna
  if !(others || sel.any id) then col
  else
    let ts := binaryTransition sel
    if ts = [] then col   -- `if not len(target_index): continue`
    else applySlices col (slicesFromTargets fwd limit sel col.length ts) col

/-- `_fillna_sided_axis_0` for one column of a block.  A block without rows is yielded unchanged
    (`if len(sel) == 0: yield b`). -/
def colSidedAxis0 (isna : α → Bool) (leading : Bool) (v : α) (oneD others : Bool) (col : List α) :
    List α :=
  let sel := col.map isna
  match (if leading then sel.head? else sel.getLast?) with
  | none => col                                     -- no rows, nothing to fill
  | some edgeNA =>
    if oneD then
      if !edgeNA then col
      else let (s, e) := sidedSlice leading sel; assignSlice col s e v
    else if !(others || edgeNA) then col            -- `~sel[sided_index].any()`
    else if edgeNA then                             -- only columns with a sided NaN
      let (s, e) := sidedSlice leading sel; assignSlice col s e v
    else col

/-! ## isna / dropna / fillna / count on blocks -/

/-- A block as stored: 1-D (one cell per row) or 2-D (a row of cells per row). -/
structure Block (α : Type) where
  oneD : Bool
  rows : List (List α)
deriving Repr

def blockIsna (isna : α → Bool) (b : Block α) : Block Bool := ⟨b.oneD, b.rows.map (·.map isna)⟩
def blockNotna (isna : α → Bool) (b : Block α) : Block Bool := ⟨b.oneD, b.rows.map (·.map fun x => !isna x)⟩

/-- `zip` the rows of several 2-D masks side by side (`consolidate_blocks` of Boolean blocks). -/
def hcat : List (List (List Bool)) → List (List Bool)
  | [] => []
  | [m] => m
  | m :: ms => (m.zip (hcat ms)).map fun (a, b) => a ++ b

/-- columns of a 2-D mask with `w` columns -/
def columnsOf (w : Nat) (m : List (List Bool)) : List (List Bool) :=
  (List.range w).map fun j => m.filterMap (·[j]?)

/-- `dropna_to_keep_locations`: `(row_key, column_key)`.  The unified mask is made 2-D
    (`column_2d_filter`: a single 1-D block is one column) and the condition is applied along the
    requested axis. `condAll`: `np.all` (else `np.any`). -/
def dropnaKeep (axis1 condAll : Bool) (masks : List (Block Bool)) :
    Except Err (Option (List Bool) × Option (List Bool)) :=
  let cond : List Bool → Bool := fun l => if condAll then l.all id else l.any id
  match masks with
  | [] => .error .other           -- next() of an empty generator: StopIteration
  | ms =>
    let unified := hcat (ms.map (·.rows))
    let width := (ms.map fun m => if m.oneD then 1 else (m.rows.head?.map List.length).getD 0).sum
    let toDrop := if axis1 then (columnsOf width unified).map cond else unified.map cond
    let toKeep := toDrop.map not
    .ok (if axis1 then (none, some toKeep) else (some toKeep, none))

/-- `Frame.dropna` (class Frame): kept row positions and kept column positions, or the IndexError
    of `_extract` when a Boolean key has the wrong length. -/
def frameDropna (axis1 condAll : Bool) (nrows ncols : Nat) (masks : List (Block Bool)) :
    Except Err (List Nat × List Nat) :=
  match dropnaKeep axis1 condAll masks with
  | .error e => .error e
  | .ok (rk, ck) =>
    let allRows := List.range nrows
    let allCols := List.range ncols
    match rk, ck with
    | some k, none =>
      if k.all id then .ok (allRows, allCols)          -- `return self`
      else if k.length ≠ nrows then .error .lookup
      else .ok (nonzero k, allCols)
    | none, some k =>
      if k.all id then .ok (allRows, allCols)
      else if k.length ≠ ncols then .error .lookup
      else .ok (allRows, nonzero k)
    | _, _ => .error .other

/-- `TypeBlocks.fillna(value, value_valid)` on one block (`_assign_from_boolean_blocks_by_unit`):
    `fill = none` an element `v`; `fill = some grid` the aligned array restricted to the block, a cell
    `some w` where `value_valid` is True. -/
def blockFillna (isna : α → Bool) (v : α) (fill : Option (List (List (Option α)))) (b : Block α) : Block α :=
  match fill with
  | none =>
    if !(b.rows.any fun r => r.any isna) then b
    else ⟨b.oneD, b.rows.map fun r => r.map fun x => if isna x then v else x⟩
  | some grid =>
    -- target &= value_valid_part
    let target := (b.rows.zip grid).map fun (r, g) => (r.zip g).map fun ((x, o) : α × Option α) => isna x && o.isSome
    if !(target.any fun r => r.any id) then b
    else ⟨b.oneD, (b.rows.zip grid).map fun (r, g) => (r.zip g).map fun ((x, o) : α × Option α) =>
            fillCell isna x o⟩     -- assigned[target] = value_part

/-- `fillna_by_values` for one column of a block (`_assign_from_boolean_blocks_by_blocks`);
    `others`: another column of the block has a missing cell. -/
def colFillnaByValues (isna : α → Bool) (others : Bool) (vals col : List α) : List α :=
  let target := col.map isna
  if !(others || target.any id) then col
  else if !target.any id then col
  else if target.all id then vals            -- `yield values_to_assign`
  else (col.zip vals).map fun (x, w) => if isna x then w else x

/-- `Frame.count(axis)` per line -/
def lineCount (isna : α → Bool) (l : List α) : Nat := l.length - ((l.map isna).filter id).length

/-! ## Pinned-tree behaviour (historical)

  The three definitions below mirror the code of the pinned tree where it deviated from the property;
  they are kept only for the proved counterexamples in Props/C14.lean.

  * `innerFillPinned` / `rowDirAxis1Pinned` — pinned-tree behaviour, repaired in /repo commit 5a58a46:
    `bridging_count[i]` was read from the LAST yielded slice in both directions.
  * `dropnaKeepPinned` / `frameDropnaPinned` — pinned-tree behaviour, repaired in /repo commit 53925e1:
    the unified mask of a single 1-D block stayed 1-D and was used as `to_drop` whatever the axis.
  * `colSidedAxis0Pinned` — pinned-tree behaviour, repaired in /repo commit c25795d:
    `sel[sided_index]` on a block without rows raised IndexError.
-/

def innerFillPinned (isna : α → Bool) (fwd : Bool) (limit : Nat)
    (cells assigned1 : List α) (count1 : Nat) : List α × Nat :=
  let sel := cells.map isna
  let ts := binaryTransition sel
  if ts = [] then (assigned1, count1)
  else
    let sls := slicesFromTargets fwd limit sel cells.length ts
    (applySlices cells sls assigned1,
     match sls.getLast? with       -- `target_slice` after the loop: the last yielded slice
     | some s => s.stop - s.start
     | none => count1)

def stepDirPinned (isna : α → Bool) (fwd : Bool) (limit : Nat)
    (st : Option (Bridge α)) (b : RBlock α) : List α × Option (Bridge α) :=
  let cells := b.cells
  let sel := cells.map isna
  if !(b.others || sel.any id) then
    let x := edgeCell fwd cells b.hd
    (cells, some ⟨x, isna x, 0⟩)
  else if b.oneD ∧ b.tl = [] then stepOneD isna limit st b.hd
  else
    let reset0 := !isna (edgeCell fwd cells b.hd)
    let r1 := bridgeFill isna fwd limit st cells b.hd
    let r2 := innerFillPinned isna fwd limit cells r1.1 r1.2
    let bv' := edgeCell fwd r2.1 b.hd
    let na' := isna bv'
    let count3 := if reset0 || na' then 0 else r2.2
    (r2.1, some ⟨bv', na', count3⟩)

def runDirPinned (isna : α → Bool) (fwd : Bool) (limit : Nat) :
    Option (Bridge α) → List (RBlock α) → List (List α)
  | _, [] => []
  | st, b :: bs =>
    let (out, st') := stepDirPinned isna fwd limit st b
    out :: runDirPinned isna fwd limit st' bs

def rowDirAxis1Pinned (isna : α → Bool) (fwd : Bool) (limit : Nat)
    (blocks : List (RBlock α)) : List (List α) :=
  if fwd then runDirPinned isna true limit none blocks
  else (runDirPinned isna false limit none blocks.reverse).reverse

def dropnaKeepPinned (axis1 condAll : Bool) (masks : List (Block Bool)) :
    Except Err (Option (List Bool) × Option (List Bool)) :=
  match masks with
  | [⟨true, rows⟩] =>
    let toKeep := (rows.map fun r => r.all id).map not      -- `else: to_drop = unified`
    .ok (if axis1 then (none, some toKeep) else (some toKeep, none))
  | ms => dropnaKeep axis1 condAll ms

def frameDropnaPinned (axis1 condAll : Bool) (nrows ncols : Nat) (masks : List (Block Bool)) :
    Except Err (List Nat × List Nat) :=
  match dropnaKeepPinned axis1 condAll masks with
  | .error e => .error e
  | .ok (rk, ck) =>
    let allRows := List.range nrows
    let allCols := List.range ncols
    match rk, ck with
    | some k, none =>
      if k.all id then .ok (allRows, allCols)
      else if k.length ≠ nrows then .error .lookup
      else .ok (nonzero k, allCols)
    | none, some k =>
      if k.all id then .ok (allRows, allCols)
      else if k.length ≠ ncols then .error .lookup
      else .ok (allRows, nonzero k)
    | _, _ => .error .other

def colSidedAxis0Pinned (isna : α → Bool) (leading : Bool) (v : α) (oneD others : Bool) (col : List α) :
    Except Err (List α) :=
  match (if leading then (col.map isna).head? else (col.map isna).getLast?) with
  | none => .error .lookup        -- IndexError: index 0 is out of bounds for axis 0 with size 0
  | some _ => .ok (colSidedAxis0 isna leading v oneD others col)

end SF.NA
