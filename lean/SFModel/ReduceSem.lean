/-
  SFModel.ReduceSem — vocabulary and (trusted) semantics of the reduction skeletons that
  tools/py2lean_reduce.py translates from the current source into SFModel/Gen/Reduce.lean:

    * util.ufunc_axis_skipna          → `ARoute`  (which of ufunc / ufunc_skipna is applied to which
                                                   preparation `AExp` of the array, or the early NaN)
    * util._ufunc_logical_skipna      → `LRoute`  (exception / constant / ufunc applied to an `LExp`)
    * util._argminmax_1d / _2d        → `ARoute` / `G2Route`
    * the function objects named in the source (np.sum, np.nansum, ufunc_all …) → `UF`

  The translator emits *terms* of these types; everything here is hand-written and small: what a
  preparation does to the cells of one vector (`AExp.eval`, `LExp.eval`, `MExp.eval`), and how a
  route is run given the two NumPy kernels as abstract parameters (`ARoute.eval`, `LRoute.eval`,
  `G2Route.eval`).  The bridge lemmas (SFModel/BridgeReduce.lean) are stated through these
  evaluators against the hand-mirrored definitions of SFModel/Reduce.lean.

  Cells: `Cell α` separates the two missing values an object array can hold (`nan`: NaN / NaT,
  `pyNone`: None) because `ufunc_axis_skipna` does (it removes None, not NaN); `Cell.opt` forgets
  the difference (the cells of Reduce.lean).  A 2-D call reduces every line of the array: the
  element-wise preparations act line by line, so the evaluators are stated for one line.
-/
import SFModel.DType
import SFModel.Reduce

namespace SF.ReduceSem
open SF SF.Reduce

/-! ### function objects -/

/-- the callables the translated source names (`np.sum` ↦ `np_sum`, `util.ufunc_all` ↦ `ufunc_all`);
    `other`: any other callable (used by the driver grid only) -/
inductive UF
  | np_all | np_any
  | np_sum | np_nansum | np_prod | np_nanprod | np_min | np_nanmin | np_max | np_nanmax
  | np_mean | np_nanmean | np_median | np_nanmedian | np_std | np_nanstd | np_var | np_nanvar
  | np_cumsum | np_nancumsum | np_cumprod | np_nancumprod
  | np_argmin | np_nanargmin | np_argmax | np_nanargmax
  | ufunc_all | ufunc_any | ufunc_nanall | ufunc_nanany
  | other
deriving DecidableEq, Repr, Inhabited

/-- exception classes raised by the translated functions -/
inductive Exc
  | typeError | notImplementedError | valueError | runtimeError
deriving DecidableEq, Repr

/-- the project's error categories (Basic.lean): TypeError / ValueError are `value` -/
def Exc.toErr : Exc → Err
  | .typeError => .value
  | .valueError => .value
  | .runtimeError => .shape
  | .notImplementedError => .other

/-! ### cells, masks, preparations -/

inductive Cell (α : Type)
  | val (a : α)
  | nan        -- NaN / NaT
  | pyNone     -- None (object arrays only)
deriving DecidableEq, Repr

/-- the cell of Reduce.lean: missing or a value -/
def Cell.opt : Cell α → Option α
  | .val a => some a
  | _ => none

/-- `isna_array`: NaN, NaT and (object arrays) None -/
def Cell.isna : Cell α → Bool
  | .val _ => false
  | _ => true

/-- `np.not_equal(x, None)` -/
def Cell.notNone : Cell α → Bool
  | .pyNone => false
  | _ => true

/-- Boolean masks over the *argument* array -/
inductive MExp
  | notEqNone          -- np.not_equal(array, None)
  | isna               -- isna_array(array)
  | inv (m : MExp)     -- ~m
deriving DecidableEq, Repr

def MExp.eval : MExp → List (Cell α) → List Bool
  | .notEqNone, xs => xs.map Cell.notNone
  | .isna, xs => xs.map Cell.isna
  | .inv m, xs => (m.eval xs).map (!·)

/-- `mask.any()` / `mask.all()` -/
def MExp.any (m : MExp) (xs : List (Cell α)) : Bool := (m.eval xs).any id
def MExp.all (m : MExp) (xs : List (Cell α)) : Bool := (m.eval xs).all id

/-- what `ufunc_axis_skipna` / `_argminmax_*` hand to the kernel -/
inductive AExp
  | array                             -- the argument
  | copy (a : AExp)                   -- a.copy()
  | astypeObj (a : AExp)              -- a.astype(object)
  | index (a : AExp) (m : MExp)       -- a[m]  (Boolean selection, 1-D)
  | setNan (a : AExp) (m : MExp)      -- a[m] = np.nan
deriving DecidableEq, Repr

def AExp.eval : AExp → List (Cell α) → List (Cell α)
  | .array, xs => xs
  | .copy a, xs => a.eval xs
  | .astypeObj a, xs => a.eval xs
  | .index a m, xs => ((a.eval xs).zip (m.eval xs)).filterMap (fun p => if p.2 then some p.1 else none)
  | .setNan a m, xs => ((a.eval xs).zip (m.eval xs)).map (fun p => if p.2 then Cell.nan else p.1)

/-- fill values written by `_ufunc_logical_skipna`: 0.0, 1.0, False, True -/
inductive Fill
  | f0 | f1 | bFalse | bTrue
deriving DecidableEq, Repr

def Fill.ofBool : Bool → Fill
  | true => .bTrue
  | false => .bFalse

def Fill.truth : Fill → Bool
  | .f0 | .bFalse => false
  | .f1 | .bTrue => true

/-- what `_ufunc_logical_skipna` hands to `np.all` / `np.any`; the cells are truth values
    (`val b`: an element whose truthiness is `b`) -/
inductive LExp
  | array
  | copy (a : LExp)
  | astypeBool (a : LExp)                     -- a.astype(bool): NaN is True, None is False
  | neStr (a : LExp)                          -- a != ''   (the truthiness of a string)
  | setWhere (a : LExp) (m : MExp) (f : Fill) -- a[m] = fill
deriving DecidableEq, Repr

/-- `astype(bool)` of one element: NaN is True, None is False -/
def Cell.asBool : Cell Bool → Cell Bool
  | .val b => .val b
  | .nan => .val true
  | .pyNone => .val false

/-- `x != ''` of one element of an array of dtype kind `k`: for a str array the truthiness of the string; NumPy compares
    a bytes element (or a number) with the str `''` as unequal whatever it holds, so there every present element is True -/
def Cell.neStr (k : Kind) : Cell Bool → Cell Bool
  | .val b => if k = .U then .val b else .val true
  | c => c

def LExp.eval (k : Kind) : LExp → List (Cell Bool) → List (Cell Bool)
  | .array, xs => xs
  | .copy a, xs => a.eval k xs
  | .astypeBool a, xs => (a.eval k xs).map Cell.asBool
  | .neStr a, xs => (a.eval k xs).map (Cell.neStr k)
  | .setWhere a m f, xs => ((a.eval k xs).zip (m.eval xs)).map (fun p => if p.2 then Cell.val f.truth else p.1)

/-! ### routes -/

inductive Which
  | ufunc | ufuncSkipna
deriving DecidableEq, Repr

/-- `ufunc_axis_skipna`, `_argminmax_1d`: the early `return np.nan`, or one kernel on one preparation -/
inductive ARoute
  | retNan
  | call (w : Which) (v : AExp)
deriving DecidableEq, Repr

/-- `_ufunc_logical_skipna` -/
inductive LRoute
  | raise (e : Exc)
  | retBool (b : Bool)                 -- return <bool>  (scalar)
  | call (v : LExp)                    -- return ufunc(v, axis=axis, out=out)
  | retFull (dim : Nat) (b : Bool)     -- return np.full(array.shape[dim], fill_value=b, dtype=bool)
deriving DecidableEq, Repr

/-- masks over the remaining axis -/
inductive XExp
  | anyAxis (m : MExp)                 -- m.any(axis=axis)
deriving DecidableEq, Repr

/-- results of `_argminmax_2d` -/
inductive PExp
  | call (w : Which) (v : AExp)        -- ufunc(v, axis=axis)
  | astypeFloat (p : PExp)             -- p.astype(DTYPE_FLOAT_DEFAULT)
  | setNan (p : PExp) (x : XExp)       -- p[x] = np.nan
deriving DecidableEq, Repr

inductive G2Route
  | retFullNan (x : XExp)              -- np.full(x.shape, np.nan, dtype=float)
  | ret (p : PExp)
deriving DecidableEq, Repr

/-! ### running a route: the kernels are parameters -/

/-- a kernel on one vector (the cells of Reduce.lean) -/
abbrev Kernel (α β : Type) := List (Option α) → Except Err β

def pick (u us : Kernel α β) : Which → Kernel α β
  | .ufunc => u
  | .ufuncSkipna => us

@[simp] theorem pick_ufunc (u us : Kernel α β) : pick u us .ufunc = u := rfl
@[simp] theorem pick_ufuncSkipna (u us : Kernel α β) : pick u us .ufuncSkipna = us := rfl

/-- `ufunc_axis_skipna` / `_argminmax_1d` on one vector: `none` = NaN -/
def ARoute.eval (u us : Kernel α (Option β)) : ARoute → List (Cell α) → Except Err (Option β)
  | .retNan, _ => .ok none
  | .call w v, xs => pick u us w ((v.eval xs).map Cell.opt)

/-- the two NumPy functions of a `Red`: `np.sum` (a missing cell propagates or is rejected) and
    `np.nansum` (missing cells are ignored) -/
def redUfunc (r : Red α) : Kernel α (Option α) := fun xs =>
  if xs.any Option.isNone then (if r.reject then .error .value else .ok none)
  else r.fin xs.length (osum r.op xs)

def redUfuncSkipna (r : Red α) : Kernel α (Option α) := fun xs => r.fin xs.length (osum r.op xs)

/-- the hand-mirrored `Red.apply` is the dispatch on `skipna` over these two -/
theorem apply_eq_pick (r : Red α) (skipna : Bool) (xs : List (Option α)) :
    r.apply skipna xs = (if skipna then redUfuncSkipna r else redUfunc r) xs := by
  cases skipna <;> simp [Red.apply, redUfunc, redUfuncSkipna]

/-- `np.all` / `np.any` on truth-value cells: NaN is truthy, None is not -/
def Cell.truthy : Cell Bool → Bool
  | .val b => b
  | .nan => true
  | .pyNone => false

def npLogical (isAll : Bool) (xs : List (Cell Bool)) : Bool :=
  xs.foldl (fun acc c => if isAll then acc && c.truthy else acc || c.truthy) isAll

/-- `_ufunc_logical_skipna` on one vector of an array of dtype kind `k`; `ufunc` is `np.all` or `np.any` (anything else
    is rejected by the function itself; a `call` route with another function is not a Python outcome) -/
def LRoute.eval (ufunc : UF) (k : Kind) : LRoute → List (Cell Bool) → Except Err Bool
  | .raise e, _ => .error e.toErr
  | .retBool b, _ => .ok b
  | .retFull _ b, _ => .ok b
  | .call v, xs =>
    if ufunc = .np_all then .ok (npLogical true (v.eval k xs))
    else if ufunc = .np_any then .ok (npLogical false (v.eval k xs))
    else .error .other

/-- position of the first missing cell -/
def firstMissing : List (Option α) → Option Nat
  | [] => none
  | none :: _ => some 0
  | some _ :: xs => (firstMissing xs).map (· + 1)

/-- what `np.argmin` / `np.argmax` answer on a non-empty vector: the first NaN wins -/
def npArgVal (better : α → α → Bool) (xs : List (Option α)) : Option Nat :=
  match firstMissing xs with
  | some i => some i
  | none => argBest better (xs.filterMap id)

/-- `np.argmin` / `np.argmax` on one vector: an empty vector is a ValueError -/
def npArg (better : α → α → Bool) : Kernel α (Option Nat) := fun xs =>
  if xs = [] then .error .value else .ok (npArgVal better xs)

/-- `np.nanargmin` / `np.nanargmax`: ValueError "All-NaN slice encountered" (also for an empty one) -/
def npNanArg (better : α → α → Bool) : Kernel α (Option Nat) := fun xs =>
  if xs.all Option.isNone then .error .value else .ok (nanArgBest better xs)

def XExp.eval : XExp → List (List (Cell α)) → List Bool
  | .anyAxis m, lines => lines.map (fun l => m.any l)

def XExp.any (x : XExp) (lines : List (List (Cell α))) : Bool := (x.eval lines).any id
def XExp.all (x : XExp) (lines : List (List (Cell α))) : Bool := (x.eval lines).all id

/-- `_argminmax_2d` on the lines of the array -/
def PExp.eval (u us : Kernel α (Option Nat)) : PExp → List (List (Cell α)) → Except Err (List (Option Nat))
  | .call w v, lines => lines.mapM (fun l => pick u us w ((v.eval l).map Cell.opt))
  | .astypeFloat p, lines => p.eval u us lines
  | .setNan p x, lines =>
    (p.eval u us lines).map (fun post => (post.zip (x.eval lines)).map (fun q => if q.2 then none else q.1))

def G2Route.eval (u us : Kernel α (Option Nat)) : G2Route → List (List (Cell α)) → Except Err (List (Option Nat))
  | .retFullNan x, lines => .ok ((x.eval lines).map (fun _ => none))
  | .ret p, lines => p.eval u us lines

/-! ### the oracles of the skeletons, computed from the cells -/

def len0A (xs : List (Cell α)) : AExp → Bool := fun e => (e.eval xs).length == 0
def len0L (k : Kind) (xs : List (Cell Bool)) : LExp → Bool := fun e => (e.eval k xs).length == 0
def anyMOf (xs : List (Cell α)) : MExp → Bool := fun m => m.any xs
def allMOf (xs : List (Cell α)) : MExp → Bool := fun m => m.all xs
def anyXOf (lines : List (List (Cell α))) : XExp → Bool := fun x => x.any lines
def allXOf (lines : List (List (Cell α))) : XExp → Bool := fun x => x.all lines

/-! ### dtype kinds of the hand mirror -/

/-- the kind classes `logicalSkipna` of Reduce.lean branches on -/
def lkindOf : Kind → LKind
  | .b => .b
  | .i | .u => .int
  | .U | .S => .str
  | .f | .c => .inexact
  | .M | .m => .nat
  | .O => .obj

/-- arrays of these kinds hold no missing value -/
def Kind.noNA : Kind → Bool
  | .b | .i | .u | .U | .S => true
  | _ => false

/-- the vector is one an array of this dtype kind can hold: no missing value in bool / int / str
    arrays, `None` in object arrays only -/
def WellTyped (k : Kind) (xs : List (Cell α)) : Prop :=
  (Kind.noNA k = true → ∀ c ∈ xs, c.isna = false) ∧ (k ≠ .O → ∀ c ∈ xs, c.notNone = true)

end SF.ReduceSem
