/-
  SFModel.LevelDrop — `IndexHierarchy.level_drop(count)` on the IndexLevel tree.

  Mirrors static_frame/core/index_hierarchy.py `level_drop` (as repaired by commits c60a76d, 8dba1fb):
    * `count < 0` (drop INNER levels): `abs(count)` passes of the stack walk that turns every node
      whose first target is a leaf into a leaf holding its own index (`cutLeaves`, `cutLeavesN`
      with the `break` at a leaf root), then the re-basing walk that sets the offset of every
      remaining target to the length of its preceding siblings (`rebase`); a leaf root is the flat
      `Index` of the root labels                                      → `Level.levelDropInner`
    * `count > 0` (drop OUTER levels): `count` rounds of promoting the targets of the root's targets
      (`promote`: labels concatenated, offsets of the promoted targets re-based by the offset of the
      dropped parent), a new root `Index(labels)` (non-unique labels are refused by the constructor),
      the flat `Index` when nothing is left to promote              → `Level.levelDropOuter`
    * `count == 0`: NotImplementedError                               → `.error .other`
  The pinned-tree variants (no re-basing) are kept as `levelDropInnerPinned` / `levelDropOuterPinned`.
-/
import SFModel.Level

namespace SF
namespace Level
variable {α : Type}

mutual
/-- every IndexLevel of the tree holds at least one label (true of every non-empty
    IndexHierarchy: `targets[0]` of the walks below is an IndexError otherwise) -/
def Populated : Level α → Prop
  | .leaf ls _ => ls ≠ []
  | .node ls cs _ => ls ≠ [] ∧ PopulatedList cs
def PopulatedList : List (Level α) → Prop
  | [] => True
  | c :: cs => Populated c ∧ PopulatedList cs
end

mutual
/-- the labels of all nodes at depth `j` (root = 0), left to right -/
def labelsAt : Nat → Level α → List α
  | 0, t => t.labels
  | _ + 1, .leaf _ _ => []
  | j + 1, .node _ cs _ => labelsAtList j cs
def labelsAtList : Nat → List (Level α) → List α
  | _, [] => []
  | j, c :: cs => labelsAt j c ++ labelsAtList j cs
end

/-! #### inner levels -/

mutual
/-- one pass of `for _ in range(abs(count))`: the stack walk
    `if level.targets[0].targets is None: level.targets = None else: levels_stack.extend(level.targets)`.
    (`level.targets[0]` of a leaf is a TypeError, of a node without targets an IndexError.) -/
def cutLeaves : Level α → Except Err (Level α)
  | .leaf _ _ => .error .value
  | .node ls cs o =>
    match cs with
    | [] => .error .lookup
    | c :: _ =>
      if c.isLeaf then .ok (.leaf ls o)
      else match cutLeavesList cs with
        | .error e => .error e
        | .ok cs' => .ok (.node ls cs' o)
def cutLeavesList : List (Level α) → Except Err (List (Level α))
  | [] => .ok []
  | c :: cs => match cutLeaves c with
    | .error e => .error e
    | .ok c' => match cutLeavesList cs with
      | .error e => .error e
      | .ok cs' => .ok (c' :: cs')
end

/-- the passes, with `if levels.targets is None: break` -/
def cutLeavesN : Nat → Level α → Except Err (Level α)
  | 0, t => .ok t
  | k + 1, t => match cutLeaves t with
    | .error e => .error e
    | .ok t' => if t'.isLeaf then .ok t' else cutLeavesN k t'

mutual
/-- the re-basing walk: `offset = 0; for target in level.targets: target.offset = offset;
    offset += target.__len__()` at every remaining node -/
def rebase : Level α → Level α
  | .leaf ls o => .leaf ls o
  | .node ls cs o => .node ls (rebaseList cs 0) o
def rebaseList : List (Level α) → Nat → List (Level α)
  | [], _ => []
  | c :: cs, acc => (rebase c).setOffset acc :: rebaseList cs (acc + c.len)
end

/-- `level_drop(-k)`: a `.leaf` answer is the flat `Index` of the root labels. -/
def levelDropInner (k : Nat) (t : Level α) : Except Err (Level α) :=
  if k = 0 then .error .other
  else match cutLeavesN k t with
    | .error e => .error e
    | .ok t' => .ok (rebase t')

/-- PINNED-TREE BEHAVIOUR (repaired in commit 8dba1fb): the remaining targets kept the offsets they
    had when the leaves were still counted. -/
def levelDropInnerPinned (k : Nat) (t : Level α) : Except Err (Level α) :=
  if k = 0 then .error .other else cutLeavesN k t

mutual
/-- specification of the inner drop as a tree: keep the `m` outer levels (offsets untouched) -/
def truncate : Nat → Level α → Level α
  | 0, t => t
  | 1, t => .leaf t.labels t.offset
  | _ + 2, .leaf ls o => .leaf ls o
  | m + 2, .node ls cs o => .node ls (truncateList (m + 1) cs) o
def truncateList : Nat → List (Level α) → List (Level α)
  | _, [] => []
  | m, c :: cs => truncate m c :: truncateList m cs
end

/-! #### outer levels -/

/-- `for target in levels.targets: labels.extend(target.index); for sub_target in target.targets:
    sub_target.offset += target.offset; targets.append(sub_target)` -/
def promote : List (Level α) → List α × List (Level α)
  | [] => ([], [])
  | c :: cs =>
    ((c.labels ++ (promote cs).1),
     (c.children.map (fun s => s.setOffset (s.offset + c.offset)) ++ (promote cs).2))

/-- PINNED-TREE BEHAVIOUR (repaired in commit c60a76d): `targets.extend(target.targets)` -/
def promotePinned : List (Level α) → List α × List (Level α)
  | [] => ([], [])
  | c :: cs => ((c.labels ++ (promotePinned cs).1), (c.children ++ (promotePinned cs).2))

variable [DecidableEq α] [IntLabel α]

/-- one round of `for _ in range(count)`: the new root is `Index(labels)` (ErrorInitIndexNonUnique
    when a label occurs under two dropped parents), offset 0; nothing promoted = the flat Index. -/
def dropOuterStep (prom : List (Level α) → List α × List (Level α)) : Level α → Except Err (Level α)
  | .leaf _ _ => .error .value                       -- `for target in None`
  | .node _ cs _ =>
    match Index.mk? (prom cs).1 with
    | .error e => .error e
    | .ok ix => if (prom cs).2.isEmpty then .ok (.leaf ix.labels 0) else .ok (.node ix.labels (prom cs).2 0)

/-- the rounds, with `if not targets: return index` -/
def dropOuterN (prom : List (Level α) → List α × List (Level α)) : Nat → Level α → Except Err (Level α)
  | 0, t => .ok t
  | k + 1, t => match dropOuterStep prom t with
    | .error e => .error e
    | .ok t' => if t'.isLeaf then .ok t' else dropOuterN prom k t'

/-- `level_drop(k)`, `k > 0`: a `.leaf` answer is the flat `Index`. -/
def levelDropOuter (k : Nat) (t : Level α) : Except Err (Level α) :=
  if k = 0 then .error .other else dropOuterN promote k t

def levelDropOuterPinned (k : Nat) (t : Level α) : Except Err (Level α) :=
  if k = 0 then .error .other else dropOuterN promotePinned k t

/-- the condition under which the outer drop is accepted: at every depth that becomes the outer
    one during the rounds, the labels of all nodes together are pairwise distinct -/
def OuterDroppable (k : Nat) (t : Level α) : Prop :=
  ∀ j, 1 ≤ j → j ≤ k → (labelsAt j t).Nodup

end Level
end SF
