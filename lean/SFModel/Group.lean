/-
  SFModel.Group — grouping: the two algorithms of `Frame.iter_group*` and the shared
  `array_to_groups_and_locations`, and the labelling done by `IterNodeDelegate.apply`.

  Mirrors:
    * static_frame/core/util.py `array_to_groups_and_locations` (`np.unique(array,
      return_inverse=True)`: sorted distinct keys + for each position the index of its key);
    * the generic path `TypeBlocks.group` / `Frame._axis_group_iloc_items` /
      `Series._axis_group_items` / `_axis_group_labels_items`: for every group index a Boolean mask
      `locations == idx` selects the rows (ascending positions);
    * the fast path `Frame._axis_group_sort_items`: `frame_sorted = self.sort_values(key)`
      (stable), `group_values` of the sorted frame, `transitions =
      np.flatnonzero(group_values != np.roll(group_values, 1))[1:]`, then slices
      `[start, t)` … and a final `[start, None)`;
    * node_iter.py `apply` (`Series.from_items` over `(group key, func(group))`: the keys become
      an index, which must be unique).

  Rows are identified by their original position; a group is `(key, positions)`.
  Core Lean only.
-/
import SFModel.Order

namespace SF.Group
open SF SF.Order

variable {α : Type} [DecidableEq α]

/-! ### np.unique -/

/-- drop adjacent repeats of a sorted array (`mask[1:] = aux[1:] != aux[:-1]` in `np.unique`) -/
def dedupAdj : List α → List α
  | [] => []
  | [a] => [a]
  | a :: b :: t => if a = b then dedupAdj (b :: t) else a :: dedupAdj (b :: t)

/-- `array_to_groups_and_locations`: `(groups, locations)` with `groups` the sorted distinct keys
    and `locations[i]` the index in `groups` of `keys[i]`.  `locations` is one flat list: the code
    returns `locations.reshape(-1)` (NumPy 2 hands the inverse back in the input's shape, which
    matters for the one-row key array of `iter_group([label], axis=1)`; repaired in 60e8b9c).
    The key values may be scalars or tuples (several key columns / rows, `unique_axis` 0 or 1:
    the model is the same, the groups are the distinct key tuples).  The string fallback for
    object keys NumPy cannot sort is not modelled (findings F52 / F59; its axis-1 repair 2295c49
    is covered by the harness oracle). -/
def groupsAndLocations (le : α → α → Bool) (keys : List α) : List α × List Nat :=
  let groups := dedupAdj (keys.mergeSort le)
  (groups, keys.map (fun k => groups.idxOf k))

/-! ### generic path -/

/-- rows selected by the Boolean mask `locations == idx` (ascending positions) -/
def maskSelect (locations : List Nat) (idx : Nat) : List Nat :=
  (locations.zipIdx.filter (fun p => p.1 == idx)).map (·.2)

/-- `TypeBlocks.group` / `Series._axis_group_items`: one `(group, rows)` per distinct key, in the
    order of `groups`; nothing is yielded for a zero-sized container. -/
def groupGeneric (le : α → α → Bool) (keys : List α) : List (α × List Nat) :=
  if keys = [] then [] else
  let gl := groupsAndLocations le keys
  gl.1.zipIdx.map (fun p => (p.1, maskSelect gl.2 p.2))

/-! ### fast path -/

/-- `np.roll(a, 1)` -/
def roll1 : List α → List α
  | [] => []
  | a :: t => (a :: t).getLast (by simp) :: (a :: t).dropLast

/-- `np.flatnonzero` with the position of the first entry given -/
def flatnonzeroFrom (off : Nat) (bs : List Bool) : List Nat :=
  ((bs.zipIdx off).filter (·.1)).map (·.2)

/-- `np.flatnonzero(group_values != np.roll(group_values, 1))[1:]` -/
def transitions (gv : List α) : List Nat :=
  (flatnonzeroFrom 0 (List.zipWith (fun a b => a != b) gv (roll1 gv))).drop 1

/-- the `for t in transitions` loop and the final `yield`; `gv[start]` is an IndexError
    (`Err.lookup`) when out of range -/
def cutLoop (gv : List α) (index : List Nat) : Nat → List Nat → Except Err (List (α × List Nat))
  | start, [] =>
    match gv[start]? with
    | none => .error .lookup
    | some g => .ok [(g, index.drop start)]
  | start, t :: ts =>
    match gv[start]? with
    | none => .error .lookup
    | some g =>
      match cutLoop gv index t ts with
      | .error e => .error e
      | .ok rest => .ok ((g, (index.take t).drop start) :: rest)

/-- `Frame._axis_group_sort_items`: `sorted` is the sorted frame as (key cell, original row)
    pairs; `group_values` and the sorted index are read from it. -/
def groupSort (le : α → α → Bool) (keys : List α) : Except Err (List (α × List Nat)) :=
  if keys = [] then .ok [] else
  let sorted := pick keys.zipIdx (argsortStable le keys)
  let gv := sorted.map (·.1)
  cutLoop gv (sorted.map (·.2)) 0 (transitions gv)

/-- `Frame._axis_group_loc_items`: the sort-and-slice path is taken only for flat axes, a
    single (non-list) key and a non-object key dtype; everything else takes the generic path. -/
def useFastPath (columnsDepth indexDepth : Nat) (keyMultiple hasObject : Bool) : Bool :=
  columnsDepth == 1 && indexDepth == 1 && !keyMultiple && !hasObject

def groupLoc (le : α → α → Bool) (fast : Bool) (keys : List α) : Except Err (List (α × List Nat)) :=
  if fast then groupSort le keys else .ok (groupGeneric le keys)

/-! ### specification -/

/-- ascending positions holding the key `g` -/
def positionsOf (keys : List α) (g : α) : List Nat :=
  (keys.zipIdx.filter (fun p => p.1 = g)).map (·.2)

/-- one group per distinct key (ascending keys), holding the positions of that key in input order -/
def groupSpec (le : α → α → Bool) (keys : List α) : List (α × List Nat) :=
  (dedupAdj (keys.mergeSort le)).map (fun g => (g, positionsOf keys g))

/-! ### apply -/

/-- `Series.from_items(pairs)`: the labels become an index and must be unique
    (`ErrorInitIndexNonUnique` otherwise). -/
def seriesFromItems {β : Type} (items : List (α × β)) : Except Err (List (α × β)) :=
  if (items.map (·.1)).Nodup then .ok items else .error .nonUnique

/-- `iter_group(...).apply(func)`: `(key, func(group))` per group, collected into a Series. -/
def applyGroups {β : Type} (func : List Nat → β) (groups : List (α × List Nat)) :
    Except Err (List (α × β)) :=
  seriesFromItems (groups.map (fun g => (g.1, func g.2)))

end SF.Group
