/-
  SFModel.BusSem — the meaning `tools/py2lean_bus.py` gives to the data structures the generated
  translation of `Bus._update_series_cache_iloc` (Gen/Bus.lean) works on.  Trusted: these definitions
  ARE the translator's semantics of the Python / NumPy / dict constructs named in their doc comments;
  each is cross-checked against the real construct on a grid by the C17 harness
  (harness/sfv/props/c17_busgen.py, case kind `bsem`).  Core Lean only.

  * labels are natural numbers (unique ids); `index` is the list of the labels of `self._series.index`
    in index order;
  * a NumPy array (Boolean `_loaded`, object `_series.values` / `array`, the label array of the
    index) is a list; an integer position outside `0 … len-1` is an IndexError (`.error .lookup`):
    keys reach the function already normalised to the positions they address (`IKey`);
  * `self._last_accessed` (a plain dict used as an ordered dict - no `move_to_end`, no `popitem(last=…)`; all values are None) is the list of its
    keys in iteration order = insertion order.  A list is such a dict iff it has no duplicates; the
    functions below are the dict operations on duplicate-free lists;
  * a generator of frames (`store_reader`) is the list of labels whose frames it still has to yield
    plus how a frame is obtained; the store itself is abstract (`Env.store_read`, `Env.reader_next`:
    a frame or an exception, per label).
-/
import SFModel.Basic

namespace SF.BusSem
open SF

/-! ### the object and its context -/

/-- what the function only reads -/
structure Env (φ : Type) where
  /-- the labels of `self._series.index` (= `self._series._index`), in order -/
  index : List Nat
  /-- `self._max_persist` -/
  max_persist : Option Nat
  /-- `self._store is not None` -/
  store_defined : Bool
  /-- `self._store.read(label, config=self._config[label])`: the frame, or the exception raised -/
  store_read : Nat → Except Err φ
  /-- what the generator `Bus._store_reader(store=self._store, config=self._config, labels=…,
      max_persist=self._max_persist)` yields (or raises) when it comes to `label` -/
  reader_next : Nat → Except Err φ

/-- the attributes of the Bus the function writes -/
structure Obj (φ : Type) where
  /-- `self._loaded` (NumPy Boolean array, mutated in place) -/
  loaded : List Bool
  /-- `self._loaded_all` -/
  loaded_all : Bool
  /-- keys of `self._last_accessed` in iteration order (mutated in place) -/
  last_accessed : List Nat
  /-- `self._series.values`; `none` = the class FrameDeferred (the attribute `_series` is re-bound, never mutated) -/
  series : List (Option φ)
deriving Repr, DecidableEq

/-- the iloc key after NumPy's normalisation: an integer (`element p`, `0 ≤ p`) or anything else —
    list, slice, Boolean mask, array — as the positions it addresses in key order (`array ps`) -/
inductive IKey
  | element (p : Nat)
  | array (ps : List Nat)
deriving Repr, DecidableEq

/-- positions addressed -/
def IKey.positions : IKey → List Nat
  | .element p => [p]
  | .array ps => ps

/-- `isinstance(key, INT_TYPES)`; also: `self._series.iloc[key]` is not a Series -/
def IKey.isElement : IKey → Bool
  | .element _ => true
  | .array _ => false

/-! ### NumPy arrays -/

/-- `a[i]` for an integer position -/
def arrGet {α : Type} (a : List α) (i : Nat) : Except Err α :=
  match a[i]? with
  | some v => .ok v
  | none => .error .lookup                         -- IndexError

/-- `a[i] = v` for an integer position (in place: the caller re-binds the name) -/
def arrSet {α : Type} (a : List α) (i : Nat) (v : α) : Except Err (List α) :=
  if i < a.length then .ok (a.set i v) else .error .lookup    -- IndexError

/-- `a[key]` for a key addressing the positions `ps` (in key order) -/
def arrTake {α : Type} (a : List α) : List Nat → Except Err (List α)
  | [] => .ok []
  | p :: ps =>
    match arrGet a p with
    | .error e => .error e
    | .ok v =>
      match arrTake a ps with
      | .error e => .error e
      | .ok vs => .ok (v :: vs)

/-- `a.all()` of a Boolean array (also of the NumPy Boolean `a[i]`) -/
def boolAll (a : List Bool) : Bool := a.all id

/-- `a.sum()` of a Boolean array -/
def boolSum (a : List Bool) : Int := (a.count true : Nat)

/-! ### Index / Series -/

/-- `index._loc_to_iloc(label)` for a single label: its position; KeyError when absent -/
def locToIloc (index : List Nat) (label : Nat) : Except Err Nat :=
  match index.idxOf? label with
  | some i => .ok i
  | none => .error .lookup

/-- `series.iloc[key].items()` for an array key addressing `ps`: (label, value) pairs in key order -/
def seriesTake {φ : Type} (index : List Nat) (cells : List (Option φ)) : List Nat → Except Err (List (Nat × Option φ))
  | [] => .ok []
  | p :: ps =>
    match arrGet index p with
    | .error e => .error e
    | .ok l =>
      match arrGet cells p with
      | .error e => .error e
      | .ok c =>
        match seriesTake index cells ps with
        | .error e => .error e
        | .ok rest => .ok ((l, c) :: rest)

/-! ### dict used as an ordered dict (keys only; duplicate-free lists) -/

/-- `d.pop(k, None)`: the key is removed when present, the order of the others is kept -/
def odPop (d : List Nat) (k : Nat) : List Nat := d.erase k

/-- `d[k] = None`: a key already present keeps its place, a new key goes to the end -/
def odSet (d : List Nat) (k : Nat) : List Nat := if k ∈ d then d else d ++ [k]

/-- `del d[k]` / `d.pop(k)`: KeyError when absent -/
def odDel (d : List Nat) (k : Nat) : Except Err (List Nat) :=
  if k ∈ d then .ok (d.erase k) else .error .lookup

/-- `next(iter(d))`: the first key; StopIteration on an empty dict -/
def odFirst (d : List Nat) : Except Err Nat :=
  match d with
  | [] => .error .other
  | k :: _ => .ok k

/-- `next(reversed(d))`: the last key; StopIteration on an empty dict -/
def odLast (d : List Nat) : Except Err Nat :=
  match d.getLast? with
  | none => .error .other
  | some k => .ok k

/-- `d.popitem()`: (the last key, removed; the rest); KeyError on an empty dict -/
def odPopLast (d : List Nat) : Except Err (Nat × List Nat) :=
  match d.getLast? with
  | none => .error .lookup
  | some k => .ok (k, d.dropLast)

/-- `k in d` -/
def odContains (d : List Nat) (k : Nat) : Bool := decide (k ∈ d)

/-- `len(d)` -/
def odLen (d : List Nat) : Int := (d.length : Nat)

/-! ### generators of frames -/

/-- a generator object yielding frames lazily: `pending` are the labels whose frames are still to come;
    `viaStoreReader = false`: each is `self._store.read(label, config=self._config[label])`
    (`Env.store_read`), `true`: the generator is `Bus._store_reader(…)` (`Env.reader_next`) -/
structure Reader where
  pending : List Nat
  viaStoreReader : Bool
deriving Repr, DecidableEq

/-- `next(reader)`: StopIteration when exhausted, otherwise the frame (or the exception of the store)
    and the advanced generator -/
def Reader.next {φ : Type} (env : Env φ) (r : Reader) : Except Err (φ × Reader) :=
  match r.pending with
  | [] => .error .other
  | l :: rest =>
    match (if r.viaStoreReader then env.reader_next l else env.store_read l) with
    | .error e => .error e
    | .ok f => .ok (f, { r with pending := rest })

end SF.BusSem
