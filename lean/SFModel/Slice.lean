/-
  SFModel.Slice — Python `slice` semantics and the key kinds of positional selection.

  Mirrors:
    * CPython `PySlice_Unpack` / `PySlice_AdjustIndices`  (what `slice.indices(n)`, `list[s]`
      and NumPy basic slicing all use)
    * CPython `range(start, stop, step)` length and elements
    * static_frame/core/util.py  `slice_to_ascending_slice`, `slice_to_inclusive_slice`
      (reference definitions here; the translator regenerates `Gen.Slice` from the source and
       `SFModel/Bridge.lean` proves the two equal)
-/
import SFModel.Basic

namespace SF

structure PySlice where
  start : Option Int
  stop  : Option Int
  step  : Option Int
deriving Repr, DecidableEq, Inhabited

namespace PySlice

/-- `slice.indices(n)`: `(start, stop, step)` after clamping; `step = 0` is a ValueError. -/
def indices (s : PySlice) (n : Nat) : Except Err (Int × Int × Int) :=
  let step : Int := s.step.getD 1
  if step = 0 then .error .value else
  let len : Int := n
  let lower : Int := if step < 0 then -1 else 0
  let upper : Int := if step < 0 then len - 1 else len
  let adj (v : Int) : Int := if v < 0 then max (v + len) lower else min v upper
  let start := match s.start with
    | none => if step < 0 then upper else lower
    | some v => adj v
  let stop := match s.stop with
    | none => if step < 0 then lower else upper
    | some v => adj v
  .ok (start, stop, step)

end PySlice

/-- `len(range(start, stop, step))` (step ≠ 0). -/
def rangeLen (start stop step : Int) : Nat :=
  if step > 0 then
    if start < stop then ((stop - start - 1) / step + 1).toNat else 0
  else if step < 0 then
    if stop < start then ((start - stop - 1) / (-step) + 1).toNat else 0
  else 0

/-- `list(range(start, stop, step))`. -/
def rangeList (start stop step : Int) : List Int :=
  (List.range (rangeLen start stop step)).map (fun (k : Nat) => start + (k : Int) * step)

/-- The positions a slice addresses in a sequence of length `n`, in key order. -/
def PySlice.positions (s : PySlice) (n : Nat) : Except Err (List Nat) :=
  match s.indices n with
  | .error e => .error e
  | .ok (a, b, c) => .ok ((rangeList a b c).map Int.toNat)

/-! ### key kinds -/

inductive Key
  | all
  | int (i : Int)
  | slice (s : PySlice)
  | list (is : List Int)
  | mask (bs : List Bool)
deriving Repr, DecidableEq, Inhabited

/-- Normalise a possibly negative position the way Python / NumPy do; out of range is IndexError. -/
def normPos (i : Int) (n : Nat) : Except Err Nat :=
  if 0 ≤ i ∧ i < n then .ok i.toNat
  else if i < 0 ∧ -(n : Int) ≤ i then .ok (i + n).toNat
  else .error .lookup

/-- positions where a Boolean mask is true -/
def maskPositions (bs : List Bool) : List Nat :=
  (List.range bs.length).filter (fun i => bs.getD i false)

/-- Positions addressed by a key on an axis of length `n`, in key order (spec of NumPy indexing). -/
def Key.positions (k : Key) (n : Nat) : Except Err (List Nat) :=
  match k with
  | .all => .ok (List.range n)
  | .int i => (normPos i n).map ([·])
  | .slice s => s.positions n
  | .list is => is.mapM (normPos · n)
  | .mask bs => if bs.length = n then .ok (maskPositions bs) else .error .lookup

/-- KEY_MULTIPLE_TYPES: everything but an integer keeps the dimension. -/
def Key.isMulti : Key → Bool
  | .int _ => false
  | _ => true

/-! ### reference definitions of the two util.py slice functions -/

/-- normalisation of a negative start at the top of `slice_to_ascending_slice`
    (outer `none` = the early `return EMPTY_SLICE`: descending from before the first position) -/
def normStart (a : Option Int) (size : Int) : Option (Option Int) :=
  match a with
  | none => some none
  | some a => if a < 0 then (if a + size < 0 then none else some (some (a + size))) else some (some a)

/-- normalisation of a negative stop (a stop before the first position is the same as no stop) -/
def normStop (b : Option Int) (size : Int) : Option Int :=
  match b with
  | none => none
  | some b => if b < 0 then (if b + size ≥ 0 then some (b + size) else none) else some b

/-- `util.slice_to_ascending_slice(key, size)`: a slice with a positive step covering the same
    positions; `none` = ZeroDivisionError (step 0). -/
def sliceToAscending (key : PySlice) (size : Int) : Option PySlice :=
  match key.step with
  | none => some key
  | some st =>
    if st > 0 then some key else
    match normStart key.start size with
    | none => some ⟨some 0, some 0, none⟩       -- EMPTY_SLICE
    | some kstart =>
      let kstop := normStop key.stop size
      let stop := kstart.map (· + 1)
      if st = -1 then some ⟨kstop.map (· + 1), stop, some 1⟩
      else if st = 0 then none
      else
        let step : Int := st.natAbs
        let start0 : Int := match kstart with
          | none => size - 1
          | some v => min (size - 1) v
        let start : Int := match kstop with
          | none => start0 - step * (Int.fdiv start0 step)
          | some ks => start0 - step * (Int.fdiv (start0 - ks - 1) step)
        some ⟨some start, stop, some step⟩

/-- `util.slice_to_inclusive_slice(key, offset)` -/
def inclusiveStop (stop offset : Int) (step : Option Int) : Option Int :=
  match step with
  | some st =>
    if st < 0 then (if stop - 1 + offset < 0 then none else some (stop - 1 + offset))
    else some (stop + 1 + offset)
  | none => some (stop + 1 + offset)

/-- `util.slice_to_inclusive_slice(key, offset)` (as repaired: the stop moves one further in the direction of the step) -/
def sliceToInclusive (key : PySlice) (offset : Int) : PySlice :=
  ⟨key.start.map (· + offset), key.stop.bind (inclusiveStop · offset key.step), key.step⟩

/-- the pinned code: the stop always moved up -/
def sliceToInclusiveOld (key : PySlice) (offset : Int) : PySlice :=
  ⟨key.start.map (· + offset), key.stop.map (· + 1 + offset), key.step⟩

end SF

namespace SF

/-- `TypeBlocks._cols_to_slice(indices)`; `none` = IndexError on an empty list. -/
def colsToSlice : List Int → Option PySlice
  | [] => none
  | [a] => some ⟨some a, some (a + 1), none⟩
  | a :: b :: rest =>
    let z := (b :: rest).getLast (by simp)
    if z > a then some ⟨some a, some (z + 1), none⟩
    else if z = 0 then some ⟨some a, none, some (-1)⟩
    else some ⟨some a, some (z - 1), some (-1)⟩

end SF

namespace SF

/-- `TypeBlocks._indices_to_contiguous_pairs(indices)` over Python ints, with its loop state
    `(last, bundle)`: the reference the translated source is bridged to (`Bridge.contiguous_ref_bridge`).
    The block model's `contiguousPairs` (Blocks.lean) is this function on naturals
    (`Bridge.contiguousPairsInt_cast`).  `none` = `_cols_to_slice` raised (only on an empty bundle,
    which the loop never produces). -/
def contiguousPairsInt : List (Int × Int) → Option (Int × Int) → List Int → Option (List (Int × PySlice))
  | [], none, _ => some []
  | [], some (lb, _), bundle =>
      if bundle.isEmpty then some [] else
      (colsToSlice bundle).map fun s => [(lb, s)]
  | (b, c) :: rest, none, _ => contiguousPairsInt rest (some (b, c)) [c]
  | (b, c) :: rest, some (lb, lc), bundle =>
      if lb = b ∧ (c - lc).natAbs = 1 then
        contiguousPairsInt rest (some (b, c)) (bundle ++ [c])
      else
        match colsToSlice bundle, contiguousPairsInt rest (some (b, c)) [c] with
        | some s, some tl => some ((lb, s) :: tl)
        | _, _ => none

end SF
