/-
  SFModel.NALemmas2 — helper lemmas for C14, part 2: structural facts about the spec `ffill`
  (append, closed states, runs) used by the block-wise refinement proofs.
-/
import SFModel.NALemmas

namespace SF.NA

variable {α : Type} {isna : α → Bool}

theorem ffillState_cons_na (x : α) (xs : List α) (last : Option α) (cnt : Nat) (h : isna x = true) :
    ffillState isna (x :: xs) last cnt = ffillState isna xs last (cnt + 1) := by
  simp [ffillState, h]

theorem ffillState_cons_notna (x : α) (xs : List α) (last : Option α) (cnt : Nat) (h : isna x = false) :
    ffillState isna (x :: xs) last cnt = ffillState isna xs (some x) 0 := by
  simp [ffillState, h]

theorem ffill_append (limit : Nat) (xs ys : List α) (last : Option α) (cnt : Nat) :
    ffill isna limit (xs ++ ys) last cnt =
      ffill isna limit xs last cnt ++
        ffill isna limit ys (ffillState isna xs last cnt).1 (ffillState isna xs last cnt).2 := by
  induction xs generalizing last cnt with
  | nil => simp [ffill, ffillState]
  | cons x xs ih =>
    cases h : isna x with
    | true => rw [List.cons_append, ffill_cons_na _ _ _ _ _ h, ffill_cons_na _ _ _ _ _ h,
                ffillState_cons_na _ _ _ _ h, ih]; simp
    | false => rw [List.cons_append, ffill_cons_notna _ _ _ _ _ h, ffill_cons_notna _ _ _ _ _ h,
                ffillState_cons_notna _ _ _ _ h, ih]; simp

theorem ffillState_append (xs ys : List α) (last : Option α) (cnt : Nat) :
    ffillState isna (xs ++ ys) last cnt =
      ffillState isna ys (ffillState isna xs last cnt).1 (ffillState isna xs last cnt).2 := by
  induction xs generalizing last cnt with
  | nil => simp [ffillState]
  | cons x xs ih =>
    cases h : isna x with
    | true => rw [List.cons_append, ffillState_cons_na _ _ _ _ h, ffillState_cons_na _ _ _ _ h, ih]
    | false => rw [List.cons_append, ffillState_cons_notna _ _ _ _ h, ffillState_cons_notna _ _ _ _ h, ih]

/-- a state from which nothing is filled until the next non-missing cell -/
def Closed (limit : Nat) (last : Option α) (cnt : Nat) : Prop := last = none ∨ (limit ≠ 0 ∧ limit ≤ cnt)

theorem fillOne_closed (limit : Nat) (last : Option α) (cnt : Nat) (x : α) (h : Closed limit last cnt) :
    fillOne limit last cnt x = x := by
  rcases h with rfl | ⟨h1, h2⟩
  · rfl
  · cases last with
    | none => rfl
    | some v =>
      simp only [fillOne]
      rw [if_neg (by omega)]

theorem closed_succ (limit : Nat) (last : Option α) (cnt : Nat) (h : Closed limit last cnt) :
    Closed limit last (cnt + 1) := by
  rcases h with h | ⟨h1, h2⟩
  · exact Or.inl h
  · exact Or.inr ⟨h1, by omega⟩

theorem ffill_closed (limit : Nat) (l : List α) (last last' : Option α) (cnt cnt' : Nat)
    (h : Closed limit last cnt) (h' : Closed limit last' cnt') :
    ffill isna limit l last cnt = ffill isna limit l last' cnt' := by
  induction l generalizing cnt cnt' with
  | nil => simp [ffill]
  | cons x xs ih =>
    cases hx : isna x with
    | true =>
      rw [ffill_cons_na _ _ _ _ _ hx, ffill_cons_na _ _ _ _ _ hx, fillOne_closed _ _ _ _ h,
        fillOne_closed _ _ _ _ h', ih _ _ (closed_succ _ _ _ h) (closed_succ _ _ _ h')]
    | false => rw [ffill_cons_notna _ _ _ _ _ hx, ffill_cons_notna _ _ _ _ _ hx]

/-- a line starting with a non-missing cell (or empty) forgets the incoming state -/
theorem ffill_head_notna (limit : Nat) (l : List α) (last : Option α) (cnt : Nat)
    (h : ∀ x, l.head? = some x → isna x = false) :
    ffill isna limit l last cnt = ffill isna limit l none 0 := by
  cases l with
  | nil => simp [ffill]
  | cons x xs =>
    have hx := h x (by simp)
    rw [ffill_cons_notna _ _ _ _ _ hx, ffill_cons_notna _ _ _ _ _ hx]

theorem ffillState_head_notna (l : List α) (last : Option α) (cnt : Nat) (x : α)
    (h : l.head? = some x) (hx : isna x = false) :
    ffillState isna l last cnt = ffillState isna l none 0 := by
  cases l with
  | nil => simp at h
  | cons y ys =>
    simp at h; subst h
    rw [ffillState_cons_notna _ _ _ _ hx, ffillState_cons_notna _ _ _ _ hx]

/-- no missing cell: nothing changes -/
theorem ffill_noNA (limit : Nat) (l : List α) (last : Option α) (cnt : Nat)
    (h : ∀ x ∈ l, isna x = false) : ffill isna limit l last cnt = l := by
  induction l generalizing last cnt with
  | nil => simp [ffill]
  | cons x xs ih =>
    rw [ffill_cons_notna _ _ _ _ _ (h x (by simp)), ih _ _ (fun y hy => h y (by simp [hy]))]

theorem ffillState_noNA (l : List α) (last : Option α) (cnt : Nat) (z : α)
    (h : ∀ x ∈ l, isna x = false) (hz : l.getLast? = some z) :
    ffillState isna l last cnt = (some z, 0) := by
  induction l generalizing last cnt with
  | nil => simp at hz
  | cons x xs ih =>
    rw [ffillState_cons_notna _ _ _ _ (h x (by simp))]
    cases xs with
    | nil => simp at hz; subst hz; simp [ffillState]
    | cons y ys =>
      exact ih _ _ (fun w hw => h w (by simp [hw])) (by simpa [List.getLast?_cons_cons] using hz)

/-- only missing cells: the state advances by the length, cell `i` is `fillOne … (cnt + i)` -/
theorem ffillState_allNA (l : List α) (last : Option α) (cnt : Nat) (h : ∀ x ∈ l, isna x = true) :
    ffillState isna l last cnt = (last, cnt + l.length) := by
  induction l generalizing cnt with
  | nil => simp [ffillState]
  | cons x xs ih =>
    rw [ffillState_cons_na _ _ _ _ (h x (by simp)), ih _ (fun y hy => h y (by simp [hy]))]
    simp; omega

theorem ffill_allNA_none (limit : Nat) (l : List α) (cnt : Nat) (h : ∀ x ∈ l, isna x = true) :
    ffill isna limit l none cnt = l := by
  induction l generalizing cnt with
  | nil => simp [ffill]
  | cons x xs ih =>
    rw [ffill_cons_na _ _ _ _ _ (h x (by simp)), ih _ (fun y hy => h y (by simp [hy]))]
    simp [fillOne]

/-- filling an all-missing run from a carried value = one slice assignment `[0, e)` when `e` is the
    number of cells still allowed by the limit -/
theorem ffill_allNA_some (limit : Nat) (l : List α) (bv : α) (cnt e : Nat) (h : ∀ x ∈ l, isna x = true)
    (he : ∀ i, i < l.length → ((limit = 0 ∨ cnt + i < limit) ↔ i < e)) :
    ffill isna limit l (some bv) cnt = assignSlice l 0 e bv := by
  apply List.ext_getElem?
  intro p
  by_cases hp' : l.length ≤ p
  · rw [List.getElem?_eq_none (by simp; omega), List.getElem?_eq_none (by simp; omega)]
  have hp : p < l.length := by omega
  have hx : l[p]? = some l[p] := List.getElem?_eq_getElem hp
  have hall : ∀ r, r < p → NaAt isna l r := by
    intro r hr
    have hr' : r < l.length := by omega
    unfold NaAt
    rw [List.getElem?_eq_getElem hr']
    simp [h l[r] (List.getElem_mem hr')]
  rw [ffill_get_lead limit l (some bv) cnt p l[p] hx (h _ (List.getElem_mem hp)) hall, assignSlice_get, hx]
  simp only [fillOne, Nat.zero_le, true_and, Option.map_some]
  by_cases c : p < e
  · rw [if_pos c, if_pos ((he p hp).mpr c)]
  · rw [if_neg c, if_neg (fun hh => c ((he p hp).mp hh))]

/-- last cell separately -/
theorem ffill_snoc (limit : Nat) (l : List α) (z : α) (last : Option α) (cnt : Nat) :
    ffill isna limit (l ++ [z]) last cnt =
      ffill isna limit l last cnt ++
        [if isna z then fillOne limit (ffillState isna l last cnt).1 (ffillState isna l last cnt).2 z else z] := by
  rw [ffill_append]
  cases h : isna z <;> simp [ffill, h]

theorem ffillState_snoc (l : List α) (z : α) (last : Option α) (cnt : Nat) :
    ffillState isna (l ++ [z]) last cnt =
      if isna z then ((ffillState isna l last cnt).1, (ffillState isna l last cnt).2 + 1) else (some z, 0) := by
  rw [ffillState_append]
  cases h : isna z <;> simp [ffillState, h]

/-- if the last non-missing cell is at index `j`, the final state is that value and the number of
    missing cells after it -/
theorem ffillState_lastNonNA (l : List α) (last : Option α) (cnt j : Nat) (y : α)
    (hy : l[j]? = some y) (hyn : isna y = false) (hafter : ∀ r, j < r → r < l.length → NaAt isna l r) :
    ffillState isna l last cnt = (some y, l.length - 1 - j) := by
  induction l generalizing last cnt j with
  | nil => simp at hy
  | cons x xs ih =>
    cases j with
    | zero =>
      simp at hy; subst hy
      rw [ffillState_cons_notna _ _ _ _ hyn, ffillState_allNA]
      · simp
      · intro w hw
        obtain ⟨i, hi, rfl⟩ := List.getElem_of_mem hw
        have := hafter (i + 1) (by omega) (by simp; omega)
        rw [naAt_cons_succ] at this
        unfold NaAt at this
        rw [List.getElem?_eq_getElem hi] at this
        simpa using this
    | succ j =>
      simp at hy
      have hafter' : ∀ r, j < r → r < xs.length → NaAt isna xs r := by
        intro r h1 h2
        exact (naAt_cons_succ x xs r).mp (hafter (r + 1) (by omega) (by simp; omega))
      have hj : j < xs.length := (List.getElem?_eq_some_iff.mp hy).1
      cases hx : isna x with
      | true => rw [ffillState_cons_na _ _ _ _ hx, ih _ _ j hy hafter']; simp; omega
      | false => rw [ffillState_cons_notna _ _ _ _ hx, ih _ _ j hy hafter']; simp; omega

end SF.NA
