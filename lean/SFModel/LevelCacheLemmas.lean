/-
  Helper lemmas for SFModel.Level, part 4: `to_type_blocks`, and the cache state machine of
  IndexHierarchyGO.
-/
import SFModel.LevelViewLemmas
set_option linter.unusedSectionVars false
set_option linter.unusedVariables false

namespace SF
namespace Level
variable {α : Type} [DecidableEq α] [IntLabel α]

theorem sequence_length {ε β : Type} : ∀ (l : List (Except ε β)) (r : List β), sequence l = .ok r → r.length = l.length
  | [], r, h => by simp [sequence] at h; subst h; rfl
  | .error e :: l, r, h => by simp [sequence] at h
  | .ok b :: l, r, h => by
    simp only [sequence] at h
    cases hs : sequence l with
    | error e => rw [hs] at h; cases h
    | ok r' =>
      rw [hs] at h
      simp only [Except.ok.injEq] at h
      subst h
      simp [sequence_length l r' hs]

/-- `to_type_blocks()` of a well-formed tree: one column per depth, column `dl` holds the `dl`-th
    components of the tuples. -/
theorem toTypeBlocks_spec {t : Level α} {d : Nat} (h : WF d t) :
    ∃ cols, t.toTypeBlocks d = .ok cols ∧ cols.length = d ∧
      ∀ dl, dl < d → ∃ c, cols[dl]? = some c ∧ c.map some = col dl t.tuples := by
  let hf : Nat → List α := fun dl => match t.valuesAtDepth d dl with
    | .ok c => c
    | .error _ => []
  have hg : ∀ dl ∈ List.range d, t.valuesAtDepth d dl = .ok (hf dl) := by
    intro dl hdl
    obtain ⟨c, hc, _⟩ := valuesAtDepth_spec h (List.mem_range.mp hdl)
    simp only [hf, hc]
  refine ⟨(List.range d).map hf, ?_, by simp, ?_⟩
  · unfold toTypeBlocks
    exact sequence_map_ok _ hf _ hg
  · intro dl hdl
    obtain ⟨c, hc, hcc⟩ := valuesAtDepth_spec h hdl
    refine ⟨hf dl, by simp [List.getElem?_map, List.getElem?_range hdl], ?_⟩
    simp only [hf, hc]; exact hcc

/-- every successful append keeps the tree well formed -/
theorem append_WF {t : Level α} {d : Nat} {key : List α} {t' : Level α} (hd : 1 ≤ d)
    (hw : WF d t) (h : t.append d key = .ok t') : WF d t' :=
  (append_spec hd hw h).2.1

end Level

namespace HState
variable {α : Type} [DecidableEq α] [IntLabel α]
open Level

theorem blocksLen_of {s : HState α} {cols : List (List α)} {ts : List (List α)} {d : Nat}
    (hb : s.blocks = some cols) (hd : 1 ≤ d)
    (hcols : ∀ dl, dl < d → ∃ c, cols[dl]? = some c ∧ c.map some = col dl ts) :
    s.blocksLen = ts.length := by
  obtain ⟨c, h1, h2⟩ := hcols 0 (by omega)
  cases cols with
  | nil => simp at h1
  | cons c0 cols =>
    simp only [List.getElem?_cons_zero, Option.some.injEq] at h1
    subst h1
    have := congrArg List.length h2
    simp only [blocksLen, hb]
    simpa [col] using this

/-- the rows of the blocks are the tuples -/
theorem rowsOf_spec {cols : List (List α)} {ts : List (List α)} {d : Nat}
    (hlen : cols.length = d) (hts : ∀ x ∈ ts, x.length = d)
    (hcols : ∀ dl, dl < d → ∃ c, cols[dl]? = some c ∧ c.map some = col dl ts) :
    rowsOf ts.length cols = ts := by
  unfold rowsOf
  apply List.ext_getElem
  · simp
  · intro i h1 h2
    simp only [List.getElem_map, List.getElem_range]
    have hi : i < ts.length := h2
    have key : cols.map (·[i]?) = (ts[i]).map some := by
      apply List.ext_getElem
      · simp [hlen, hts ts[i] (List.getElem_mem hi)]
      · intro dl g1 g2
        simp only [List.length_map] at g1 g2
        obtain ⟨c, hc1, hc2⟩ := hcols dl (by omega)
        have hc : cols[dl] = c := by
          have := List.getElem?_eq_getElem g1
          rw [this] at hc1; exact Option.some.inj hc1
        simp only [List.getElem_map, hc]
        have := congrArg (·[i]?) hc2
        simp only [col, List.getElem?_map, List.getElem?_eq_getElem hi, Option.map_some] at this
        rw [List.getElem?_eq_getElem g2] at this
        cases hci : c[i]? with
        | none => rw [hci] at this; simp at this
        | some v => rw [hci] at this; simp at this; simp [this]
    have : cols.filterMap (·[i]?) = (cols.map (·[i]?)).filterMap id := by
      simp [List.filterMap_map]
    rw [this, key]
    simp [List.filterMap_map]

theorem step_spec {s : HState α} (hc : s.Coherent) (op : HOp α) (ha : s.admissible op) :
    (s.step op).1.Coherent ∧ (s.step op).1.depth = s.depth ∧
      agrees s.levels.tuples s.depth op (s.step op).2 := by
  obtain ⟨hd, hw, hb⟩ := hc
  -- the state after `if self._recache: self._update_array_cache()`
  have hrec : ∃ s', (if s.recache then s.updateArrayCache else .ok s) = .ok s' ∧ s'.Coherent ∧
      s'.levels = s.levels ∧ s'.depth = s.depth ∧
      ∃ b, s'.blocks = some b ∧ s.levels.toTypeBlocks s.depth = .ok b := by
    by_cases hr : s.recache = true
    · obtain ⟨cols, hcols, _⟩ := toTypeBlocks_spec hw
      rw [if_pos hr]
      refine ⟨{ s with blocks := some cols, recache := false }, by simp [updateArrayCache, hcols], ?_, rfl, rfl,
        cols, rfl, hcols⟩
      exact ⟨hd, hw, fun _ => ⟨cols, rfl, hcols⟩⟩
    · rw [if_neg hr]
      obtain ⟨b, h1, h2⟩ := hb (by simpa using hr)
      exact ⟨s, rfl, ⟨hd, hw, hb⟩, rfl, rfl, b, h1, h2⟩
  cases op with
  | append key =>
    simp only [step]
    cases happ : s.levels.append s.depth key with
    | error e => exact ⟨⟨hd, hw, hb⟩, by simp, trivial⟩
    | ok t =>
      refine ⟨⟨hd, append_WF (by omega : 1 ≤ s.depth) hw happ, ?_⟩, by simp, trivial⟩
      intro h; simp at h
  | extend other =>
    simp only [admissible] at ha
    simp only [step]
    cases hr : (s.levels.extend other).2 with
    | some e =>
      have hun := extend_rejected_unchanged hw hd other e hr
      have : s.levels.extend other = (s.levels, some e) := Prod.ext hun hr
      simp only [this]
      exact ⟨⟨hd, hw, hb⟩, by simp, trivial⟩
    | none =>
      have hdis := extend_none_disjoint hr
      obtain ⟨t', h1, h2, _⟩ := extend_spec hw ha.1 hd ha.2 hdis
      simp only [h1]
      refine ⟨⟨hd, h2, ?_⟩, by simp, trivial⟩
      intro h; simp at h
  | readIter =>
    simp only [step, iter_eq_tuples hw]
    exact ⟨⟨hd, hw, hb⟩, by simp, by simp [agrees]⟩
  | readLen =>
    simp only [step]
    refine ⟨⟨hd, hw, hb⟩, by simp, ?_⟩
    simp only [agrees]
    by_cases hr : s.recache = true
    · rw [if_pos hr]; exact (tuples_length _ _ hw).symm
    · rw [if_neg hr]
      obtain ⟨b, h1, h2⟩ := hb (by simpa using hr)
      obtain ⟨cols, hcols, _, hspec⟩ := toTypeBlocks_spec hw
      rw [hcols] at h2; cases h2
      exact blocksLen_of h1 (by omega : 1 ≤ s.depth) hspec
  | readContains key =>
    simp only [step]
    refine ⟨⟨hd, hw, hb⟩, by simp, ?_⟩
    simp only [agrees]
    exact containsKey_spec hw key
  | readValues =>
    obtain ⟨s', e1, e2, e3, e4, b, e5, e6⟩ := hrec
    simp only [step, e1]
    refine ⟨e2, e4, ?_⟩
    simp only [agrees]
    obtain ⟨cols, hcols, hlen, hspec⟩ := toTypeBlocks_spec hw
    rw [hcols] at e6; cases e6
    have hbl : s'.blocksLen = s.levels.tuples.length :=
      blocksLen_of e5 (by omega : 1 ≤ s.depth) hspec
    rw [hbl, e5]
    exact rowsOf_spec hlen (tuples_depth _ _ hw) hspec
  | readValuesAtDepth dl =>
    obtain ⟨s', e1, e2, e3, e4, b, e5, e6⟩ := hrec
    simp only [step, e1]
    obtain ⟨cols, hcols, hlen, hspec⟩ := toTypeBlocks_spec hw
    rw [hcols] at e6; cases e6
    simp only [e5, Option.getD_some]
    by_cases hdl : dl < s.depth
    · obtain ⟨c, h1, h2⟩ := hspec dl hdl
      simp only [h1]
      exact ⟨e2, e4, hdl, h2⟩
    · have hnone : ∀ (l : List (List α)), l.length = s.depth → l[dl]? = none :=
        fun l hl => List.getElem?_eq_none (by omega)
      simp only [hnone _ hlen]
      exact ⟨e2, e4, by simp only [agrees]; omega⟩

theorem run_spec : ∀ (ops : List (HOp α)) (s : HState α), s.Coherent → s.Admissible ops →
    (s.run ops).1.Coherent ∧ s.AllAgree ops (s.run ops).2
  | [], s, hc, _ => by simp [run, AllAgree, hc]
  | op :: ops, s, hc, ha => by
    simp only [Admissible] at ha
    obtain ⟨h1, h2, h3⟩ := step_spec hc op ha.1
    obtain ⟨h4, h5⟩ := run_spec ops (s.step op).1 h1 ha.2
    simp only [run, AllAgree]
    exact ⟨h4, h3, h5⟩

end HState
end SF
