/-
  Helper lemmas for SFModel.Level, part 5: HLoc resolution (`Level.locToIloc`) for the selectors
  label / all / list.
-/
import SFModel.LevelCacheLemmas
import SFModel.SliceLemmas
set_option linter.unusedSectionVars false
set_option linter.unusedVariables false

namespace SF

/-! ### positions addressed by the iloc parts -/

theorem slice_positions_range (a b N : Nat) (h1 : a ≤ b) (h2 : b ≤ N) :
    (PySlice.mk (some (a : Int)) (some (b : Int)) none).positions N = .ok ((List.range (b - a)).map (a + ·)) := by
  have hi : (PySlice.mk (some (a : Int)) (some (b : Int)) none).indices N = .ok ((a : Int), (b : Int), 1) := by
    simp only [PySlice.indices, Option.getD_none]
    rw [if_neg (by decide)]
    simp only [show ¬ ((1 : Int) < 0) by decide, if_false]
    have ha : ¬ ((a : Int) < 0) := by omega
    have hb : ¬ ((b : Int) < 0) := by omega
    simp only [ha, hb, if_false]
    congr 2
    · congr 1; omega
    · congr 1; omega
  simp only [PySlice.positions, hi]
  congr 1
  apply List.ext_getElem
  · simp only [List.length_map, rangeList_length, List.length_range]
    unfold rangeLen
    simp only [show (1 : Int) > 0 by decide, if_true]
    split
    · rename_i hlt
      rw [Int.ediv_one]; omega
    · omega
  · intro i g1 g2
    simp only [List.length_map] at g1
    simp only [List.getElem_map, rangeList_getElem, List.getElem_range]
    omega

theorem normPos_lt {p N : Nat} (h : p < N) : normPos (p : Int) N = .ok p := by
  unfold normPos
  rw [if_pos (by omega)]; simp

theorem list_positions_of_lt : ∀ (l : List Nat) (N : Nat), (∀ p ∈ l, p < N) →
    (Key.list (l.map Int.ofNat)).positions N = .ok l
  | [], N, _ => by simp [Key.positions, List.mapM_nil, pure, Except.pure]
  | p :: l, N, h => by
    have ih := list_positions_of_lt l N (fun q hq => h q (by simp [hq]))
    simp only [Key.positions] at ih ⊢
    simp only [List.map_cons, List.mapM_cons, Int.ofNat_eq_natCast, normPos_lt (h p (by simp)), bind, Except.bind]
    rw [ih]; rfl

theorem slice_positions_all (N : Nat) : (PySlice.mk none none none).positions N = .ok (List.range N) := by
  have := slice_positions_range 0 N N (by omega) (by omega)
  have hi : (PySlice.mk none none none).indices N = (PySlice.mk (some ((0 : Nat) : Int)) (some (N : Int)) none).indices N := by
    simp only [PySlice.indices, Option.getD_none]
    rw [if_neg (by decide), if_neg (by decide)]
    simp only [show ¬ ((1 : Int) < 0) by decide, if_false]
    have h0 : ¬ (((0 : Nat) : Int) < 0) := by omega
    have hN : ¬ ((N : Int) < 0) := by omega
    simp only [h0, hN, if_false]
    congr 2
    · congr 1; omega
  simp only [PySlice.positions] at this ⊢
  rw [hi, this]
  simp

namespace Level
variable {α : Type} [DecidableEq α] [IntLabel α]

theorem pos?_lt {ls : List α} {a : α} {p : Nat} (h : pos? ls a = some p) : p < ls.length := by
  unfold pos? at h
  obtain ⟨i, hi, hl⟩ := AMap.get?_zipIdx_inv 0 h
  have := (List.getElem?_eq_some_iff.mp hl).1
  omega

theorem mapList_partial (ls : List α) (off : Nat) : ∀ (as : List α),
    Index.mapList (ls.zipIdx 0) off true as = .ok ((as.filterMap (pos? ls)).map (fun (p : Nat) => (p : Int) + (off : Int)))
  | [] => by simp [Index.mapList]
  | a :: as => by
    simp only [Index.mapList, List.filterMap_cons]
    have ih := mapList_partial ls off as
    cases h : AMap.get? (ls.zipIdx 0) a with
    | none =>
      have : pos? ls a = none := h
      simp only [this, if_true, ih]
    | some p =>
      have : pos? ls a = some p := h
      simp only [this, ih, List.map_cons]

theorem idxs_lt {ls : List α} {sel : Sel α} : ∀ p ∈ sel.idxs ls, p < ls.length := by
  intro p hp
  cases sel with
  | all => simpa [Sel.idxs] using hp
  | label a =>
    simp only [Sel.idxs, Option.mem_toList] at hp
    exact pos?_lt hp
  | list as =>
    simp only [Sel.idxs, List.mem_filterMap] at hp
    obtain ⟨a, _, ha⟩ := hp
    exact pos?_lt ha
  | slice a b c => simp [Sel.idxs] at hp
  | mask bs => simp [Sel.idxs] at hp

/-- a node visited with a simple selector yields nothing and enqueues the selected targets, in
    selector order, with the running offset -/
theorem hlocVisit_node (key : List (Sel α)) (ls : List α) (cs : List (Level α)) (o dep off : Nat)
    (hs : (key.getD dep .all).simple = true) (hl : ls.length = cs.length) :
    hlocVisit key (.node ls cs o) (dep, off) =
      ([], (((key.getD dep .all).idxs ls).filterMap (cs[·]?)).map (·, (dep + 1, off + o))) := by
  unfold hlocVisit
  simp only [offset]
  cases hk : key.getD dep Sel.all with
  | all =>
    simp only [Sel.toLKey, nodeIndex, Index.locToIlocP, Index.locMap, Option.isSome_none, Bool.false_eq_true,
      false_and, if_false, Index.mapSliceArgs, Index.mapSliceArg, Index.mapSliceStop, Except.map, IKey.positions,
      slice_positions_all, Sel.idxs, hl]
  | label a =>
    simp only [Sel.toLKey, nodeIndex, Index.locToIlocP, Index.locMap, Sel.idxs]
    cases hp : AMap.get? (ls.zipIdx 0) a with
    | none =>
      have : pos? ls a = none := hp
      simp [this]
    | some p =>
      have hp' : pos? ls a = some p := hp
      have hlt : p < cs.length := hl ▸ pos?_lt hp'
      have hn : normPos ((p : Nat) : Int) cs.length = .ok p := normPos_lt hlt
      simp only [hp', Option.toList_some, IKey.positions, Key.positions, Option.getD_none,
        Int.natCast_zero, Int.add_zero, hn, Except.map]
  | list as =>
    simp only [Sel.toLKey, nodeIndex, Index.locToIlocP, Index.locMap, Sel.idxs, Option.getD_none,
      mapList_partial, Except.map, IKey.positions]
    have hlt : ∀ p ∈ as.filterMap (pos? ls), p < cs.length := by
      intro p hp
      simp only [List.mem_filterMap] at hp
      obtain ⟨a, _, ha⟩ := hp
      exact hl ▸ pos?_lt ha
    have := list_positions_of_lt _ _ hlt
    simp only [Int.natCast_zero, Int.add_zero]
    have e : (fun (p : Nat) => (p : Int)) = Int.ofNat := by funext p; rfl
    rw [e, this]
  | slice a b c => rw [hk] at hs; simp [Sel.simple] at hs
  | mask bs => rw [hk] at hs; simp [Sel.simple] at hs

/-- what a leaf yields for a simple selector (`st` = running offset + own offset) -/
def leafItems (ls : List α) (st : Nat) : Sel α → List IKey
  | .all => [.slice ⟨some (st : Int), some ((ls.length : Int) + st), none⟩]
  | .label a => match pos? ls a with
    | none => []
    | some p => [.int ((p : Int) + st)]
  | .list as => [.list ((as.filterMap (pos? ls)).map (fun (p : Nat) => (p : Int) + (st : Int)))]
  | _ => []

theorem hlocVisit_leaf (key : List (Sel α)) (ls : List α) (o dep off : Nat)
    (hs : (key.getD dep .all).simple = true) :
    hlocVisit key (.leaf ls o) (dep, off) = ((leafItems ls (off + o) (key.getD dep .all)).map .ok, []) := by
  unfold hlocVisit
  simp only [offset]
  cases hk : key.getD dep Sel.all with
  | all =>
    simp [Sel.toLKey, nodeIndex, Index.locToIlocP, Index.locMap, leafItems, Index.len]
  | label a =>
    simp only [Sel.toLKey, nodeIndex, Index.locToIlocP, Index.locMap, leafItems]
    cases hp : AMap.get? (ls.zipIdx 0) a with
    | none =>
      have : pos? ls a = none := hp
      simp [this]
    | some p =>
      have hp' : pos? ls a = some p := hp
      simp [hp']
  | list as =>
    simp [Sel.toLKey, nodeIndex, Index.locToIlocP, Index.locMap, leafItems, mapList_partial, Except.map]
  | slice a b c => rw [hk] at hs; simp [Sel.simple] at hs
  | mask bs => rw [hk] at hs; simp [Sel.simple] at hs

theorem flattenParts_append (N : Nat) : ∀ (p1 p2 : List IKey) (a b : List Int),
    flattenParts N p1 = .ok a → flattenParts N p2 = .ok b → flattenParts N (p1 ++ p2) = .ok (a ++ b)
  | [], p2, a, b, h1, h2 => by
    simp only [flattenParts, Except.ok.injEq] at h1; subst h1; simpa using h2
  | part :: p1, p2, a, b, h1, h2 => by
    simp only [List.cons_append, flattenParts] at h1 ⊢
    split at h1
    · cases h1
    · rename_i here hh
      cases hr : flattenParts N p1 with
      | error e => rw [hr] at h1; cases h1
      | ok r =>
        rw [hr] at h1
        simp only [Except.ok.injEq] at h1
        subst h1
        rw [flattenParts_append N p1 p2 r b hr h2]
        simp

/-- the positions a leaf contributes -/
theorem leafItems_flatten (ls : List α) (st N : Nat) (sel : Sel α) (hb : st + ls.length ≤ N) :
    flattenParts N (leafItems ls st sel) = .ok (((sel.idxs ls).map (st + ·)).map Int.ofNat) := by
  cases sel with
  | all =>
    have := slice_positions_range st (ls.length + st) N (by omega) (by omega)
    simp only [leafItems, flattenParts, Sel.idxs]
    have e : ((ls.length : Int) + (st : Int)) = ((ls.length + st : Nat) : Int) := by omega
    rw [e, this]
    simp [Except.map]
  | label a =>
    simp only [leafItems, Sel.idxs]
    cases hp : pos? ls a with
    | none => simp [flattenParts]
    | some p => simp [flattenParts]; omega
  | list as =>
    simp only [leafItems, flattenParts, Sel.idxs, List.append_nil, List.map_map]
    congr 1
    apply List.map_congr_left
    intro p _
    simp only [Function.comp, Int.ofNat_eq_natCast]; omega
  | slice a b c => simp [leafItems, flattenParts, Sel.idxs]
  | mask bs => simp [leafItems, flattenParts, Sel.idxs]

/-! ### selected targets: sizes and positions -/

def shiftIdx (is : List Nat) : List Nat := (is.filter (· ≠ 0)).map (· - 1)

theorem mem_shiftIdx {is : List Nat} {j : Nat} : j ∈ shiftIdx is ↔ j + 1 ∈ is := by
  simp only [shiftIdx, List.mem_map, List.mem_filter]
  constructor
  · rintro ⟨k, ⟨hk, hk0⟩, rfl⟩
    have : k ≠ 0 := by simpa using hk0
    have : k - 1 + 1 = k := by omega
    rwa [this]
  · intro h; exact ⟨j + 1, ⟨h, by simp⟩, by simp⟩

theorem sumSel_cons {β : Type} (f : β → Nat) (c : β) (cs : List β) : ∀ (is : List Nat), is.Nodup →
    ((is.filterMap ((c :: cs)[·]?)).map f).sum ≤
      (if 0 ∈ is then f c else 0) + (((shiftIdx is).filterMap (cs[·]?)).map f).sum ∧ (shiftIdx is).Nodup
  | [], _ => by simp [shiftIdx]
  | i :: is, hn => by
    rw [List.nodup_cons] at hn
    obtain ⟨ih1, ih2⟩ := sumSel_cons f c cs is hn.2
    cases i with
    | zero =>
      have h0 : (0 : Nat) ∉ is := hn.1
      simp only [h0, if_false, Nat.zero_add] at ih1
      have hs : shiftIdx (0 :: is) = shiftIdx is := by simp [shiftIdx]
      rw [hs]
      simp only [List.filterMap_cons, List.getElem?_cons_zero, List.map_cons, List.sum_cons, List.mem_cons,
        true_or, if_true]
      exact ⟨by omega, ih2⟩
    | succ j =>
      have hs : shiftIdx ((j + 1) :: is) = j :: shiftIdx is := by simp [shiftIdx]
      rw [hs]
      have hj : j ∉ shiftIdx is := fun h => hn.1 (mem_shiftIdx.mp h)
      have hmem : ((0 : Nat) ∈ (j + 1) :: is) ↔ (0 : Nat) ∈ is := by simp
      simp only [List.filterMap_cons, List.getElem?_cons_succ, hmem]
      refine ⟨?_, List.nodup_cons.mpr ⟨hj, ih2⟩⟩
      cases cs[j]? with
      | none => simpa using ih1
      | some x => simp only [List.map_cons, List.sum_cons]; omega

theorem sumSel_le {β : Type} (f : β → Nat) : ∀ (cs : List β) (is : List Nat), is.Nodup →
    ((is.filterMap (cs[·]?)).map f).sum ≤ (cs.map f).sum
  | [], is, _ => by
    have : ∀ (l : List Nat), l.filterMap (fun _ => (none : Option β)) = [] := by
      intro l; induction l with
      | nil => rfl
      | cons i is ih => simp [ih]
    simp [this]
  | c :: cs, is, hn => by
    obtain ⟨h1, h2⟩ := sumSel_cons f c cs is hn
    have := sumSel_le f cs (shiftIdx is) h2
    simp only [List.map_cons, List.sum_cons]
    split at h1 <;> omega

theorem idxs_nodup {ls : List α} (hls : ls.Nodup) {sel : Sel α} (hsel : ∀ as, sel = .list as → as.Nodup) :
    (sel.idxs ls).Nodup := by
  cases sel with
  | all => exact List.nodup_range
  | label a =>
    simp only [Sel.idxs]
    cases pos? ls a <;> simp
  | list as =>
    have hn := hsel as rfl
    simp only [Sel.idxs]
    clear hsel
    induction as with
    | nil => simp
    | cons a as ih =>
      rw [List.nodup_cons] at hn
      simp only [List.filterMap_cons]
      cases hp : pos? ls a with
      | none => exact ih hn.2
      | some p =>
        simp only
        refine List.nodup_cons.mpr ⟨?_, ih hn.2⟩
        intro hm
        simp only [List.mem_filterMap] at hm
        obtain ⟨b, hb, hpb⟩ := hm
        have e1 := (pos?_eq_some_iff hls).mp hp
        have e2 := (pos?_eq_some_iff hls).mp hpb
        rw [e1] at e2
        exact hn.1 ((Option.some.inj e2) ▸ hb)
  | slice a b c => simp [Sel.idxs]
  | mask bs => simp [Sel.idxs]

/-- offsets of the targets of a well-formed node are running sums -/
theorem WFList_getElem {d : Nat} : ∀ (cs : List (Level α)) (acc i : Nat) (c : Level α), WFList d acc cs →
    cs[i]? = some c → WF d c ∧ acc ≤ c.offset ∧ c.offset + c.len ≤ acc + lenList cs
  | [], acc, i, c, _, h => by simp at h
  | c0 :: cs, acc, 0, c, hw, h => by
    simp only [WFList] at hw
    simp only [List.getElem?_cons_zero, Option.some.injEq] at h
    subst h
    simp only [lenList]
    exact ⟨hw.2.1, by omega, by omega⟩
  | c0 :: cs, acc, i + 1, c, hw, h => by
    simp only [WFList] at hw
    simp only [List.getElem?_cons_succ] at h
    obtain ⟨h1, h2, h3⟩ := WFList_getElem cs (acc + c0.len) i c hw.2.2 h
    simp only [lenList]
    exact ⟨h1, by omega, by omega⟩

theorem specPosIdx_eq (key : List (Sel α)) {d : Nat} : ∀ (cs : List (Level α)) (acc i dep start : Nat),
    WFList d acc cs →
    specPosIdx key cs i dep start = match cs[i]? with
      | some c => specPos key c dep (start + c.offset - acc)
      | none => []
  | [], acc, i, dep, start, _ => by simp [specPosIdx]
  | c0 :: cs, acc, 0, dep, start, hw => by
    simp only [WFList] at hw
    simp only [specPosIdx, List.getElem?_cons_zero]
    rw [hw.1]; congr 1; omega
  | c0 :: cs, acc, i + 1, dep, start, hw => by
    simp only [WFList] at hw
    simp only [specPosIdx, List.getElem?_cons_succ]
    rw [specPosIdx_eq key cs (acc + c0.len) i dep (start + c0.len) hw.2.2]
    cases hc : cs[i]? with
    | none => rfl
    | some c =>
      simp only
      have := (WFList_getElem cs (acc + c0.len) i c hw.2.2 hc).2.1
      congr 1; omega

/-! ### the HLoc loop, layer by layer -/

/-- global position of the first leaf of a queue entry -/
def est (x : Level α × (Nat × Nat)) : Nat := x.2.2 + x.1.offset

def specE (key : List (Sel α)) (dep : Nat) (x : Level α × (Nat × Nat)) : List Nat := specPos key x.1 dep (est x)

def EntryOK (k dep N : Nat) (x : Level α × (Nat × Nat)) : Prop :=
  WF k x.1 ∧ x.2.1 = dep ∧ est x + x.1.len ≤ N

theorem flatMap_congr' {β γ : Type} {f g : β → List γ} : ∀ (l : List β), (∀ x ∈ l, f x = g x) →
    l.flatMap f = l.flatMap g
  | [], _ => rfl
  | x :: l, h => by
    simp only [List.flatMap_cons, h x (by simp), flatMap_congr' l (fun y hy => h y (by simp [hy]))]

theorem filterMap_flatMap {β γ : Type} (cs : List β) (g : β → List γ) : ∀ (is : List Nat),
    (is.filterMap (cs[·]?)).flatMap g = is.flatMap (fun i => match cs[i]? with | some c => g c | none => [])
  | [] => rfl
  | i :: is => by
    simp only [List.filterMap_cons, List.flatMap_cons]
    cases cs[i]? with
    | none => simpa using filterMap_flatMap cs g is
    | some c => simp [filterMap_flatMap cs g is]

theorem hloc_pass (key : List (Sel α)) (hs : ∀ dep, (key.getD dep .all).simple = true)
    (hnd : ∀ dep as, key.getD dep .all = .list as → as.Nodup) (N k dep : Nat) :
    ∀ (q : List (Level α × (Nat × Nat))), (∀ x ∈ q, EntryOK (k + 1) dep N x) →
      (∀ x ∈ bfsExpand (hlocVisit key) q, EntryOK k (dep + 1) N x) ∧
      q.length + nodesSum (bfsExpand (hlocVisit key) q) ≤ nodesSum q ∧
      (k = 0 → bfsExpand (hlocVisit key) q = [] ∧ ∃ parts, bfsEmit (hlocVisit key) q = parts.map .ok ∧
          flattenParts N parts = .ok ((q.flatMap (specE key dep)).map Int.ofNat) ∧
          ((∃ a, key.getD dep .all = .label a) → ∀ part ∈ parts, ∃ i, part = IKey.int i)) ∧
      (1 ≤ k → bfsEmit (hlocVisit key) q = [] ∧
          (bfsExpand (hlocVisit key) q).flatMap (specE key (dep + 1)) = q.flatMap (specE key dep))
  | [], _ => by
    refine ⟨by simp, by simp [nodesSum], fun _ => ⟨rfl, [], rfl, rfl, by simp⟩, fun _ => ⟨rfl, rfl⟩⟩
  | x :: q, h => by
    obtain ⟨i1, i2, i3, i4⟩ := hloc_pass key hs hnd N k dep q (fun y hy => h y (by simp [hy]))
    obtain ⟨hw, hdep, hbound⟩ := h x (by simp)
    obtain ⟨t, dep', off⟩ := x
    simp only at hdep
    subst hdep
    rw [bfsExpand_cons, bfsEmit_cons]
    cases t with
    | leaf ls o =>
      simp only [WF] at hw
      have hk : k = 0 := by omega
      rw [hlocVisit_leaf key ls o dep' off (hs dep')]
      simp only [List.nil_append, List.length_cons, List.flatMap_cons]
      refine ⟨i1, ?_, ?_, fun h1 => by omega⟩
      · simp only [nodesSum, List.map_cons, List.sum_cons, nodes] at i2 ⊢; omega
      · intro _
        obtain ⟨e1, parts, e2, e3, e4⟩ := i3 hk
        refine ⟨e1, leafItems ls (off + o) (key.getD dep' .all) ++ parts, by simp [e2], ?_, ?_⟩
        · have hb : off + o + ls.length ≤ N := by simpa [est, offset, len] using hbound
          rw [flattenParts_append N _ _ _ _ (leafItems_flatten ls (off + o) N _ hb) e3]
          simp [specE, specPos, est, offset]
        · rintro ⟨a, ha⟩ part hp
          simp only [List.mem_append] at hp
          rcases hp with hp | hp
          · rw [ha] at hp
            simp only [leafItems] at hp
            cases hpa : pos? ls a with
            | none => rw [hpa] at hp; simp at hp
            | some i => rw [hpa] at hp; simp at hp; exact ⟨_, hp⟩
          · exact e4 ⟨a, ha⟩ part hp
    | node ls cs o =>
      simp only [WF] at hw
      have hk : 1 ≤ k := by omega
      have hd : k + 1 - 1 = k := by omega
      rw [hd] at hw
      rw [hlocVisit_node key ls cs o dep' off (hs dep') hw.2.2.1]
      simp only [List.nil_append, List.length_cons, List.flatMap_append, List.mem_append]
      have hbound' : off + o + lenList cs ≤ N := by simpa [est, offset, len] using hbound
      refine ⟨?_, ?_, fun h0 => by omega, fun _ => ⟨(i4 hk).1, ?_⟩⟩
      · rintro y (hy | hy)
        · simp only [List.mem_map, List.mem_filterMap] at hy
          obtain ⟨c, ⟨i, _, hc⟩, rfl⟩ := hy
          obtain ⟨w1, w2, w3⟩ := WFList_getElem cs 0 i c hw.2.2.2 hc
          exact ⟨w1, rfl, by simp only [est]; omega⟩
        · exact i1 y hy
      · rw [nodesSum_append]
        have hsum : nodesSum (((key.getD dep' .all).idxs ls).filterMap (cs[·]?) |>.map (·, (dep' + 1, off + o)))
            ≤ nodesList cs := by
          have := sumSel_le nodes cs _ (idxs_nodup hw.2.1 (sel := key.getD dep' .all) (fun as e => hnd dep' as e))
          rw [nodesList_eq]
          simpa [nodesSum, nodesL, List.map_map, Function.comp_def] using this
        simp only [nodesSum, List.map_cons, List.sum_cons, nodes] at i2 hsum ⊢; omega
      · rw [(i4 hk).2]
        congr 1
        have ho : (Level.node ls cs o).offset = o := rfl
        simp only [specE, specPos, est, ho, List.flatMap_map]
        rw [filterMap_flatMap]
        apply flatMap_congr'
        intro i _
        rw [specPosIdx_eq key cs 0 i (dep' + 1) (off + o) hw.2.2.2]
        cases cs[i]? with
        | none => rfl
        | some c => simp

theorem hloc_layers (key : List (Sel α)) (hs : ∀ dep, (key.getD dep .all).simple = true)
    (hnd : ∀ dep as, key.getD dep .all = .list as → as.Nodup) (N : Nat) :
    ∀ (k dep : Nat) (q : List (Level α × (Nat × Nat))), (∀ x ∈ q, EntryOK k dep N x) →
      bfsLayers (hlocVisit key) k q = [] ∧ bfsVisited (hlocVisit key) k q ≤ nodesSum q ∧
      ∃ parts, bfsSpec (hlocVisit key) k q = parts.map .ok ∧
        flattenParts N parts = .ok ((q.flatMap (specE key dep)).map Int.ofNat) ∧
        ((∃ a, key.getD (dep + k - 1) .all = .label a) → ∀ part ∈ parts, ∃ i, part = IKey.int i)
  | 0, dep, q, h => by
    have : q = [] := by
      cases q with
      | nil => rfl
      | cons x q =>
        have := (h x (by simp)).1
        cases hx : x.1 <;> simp [hx, WF] at this
    subst this
    exact ⟨rfl, by simp [bfsVisited], [], rfl, rfl, by simp⟩
  | k + 1, dep, q, h => by
    obtain ⟨p1, p2, p3, p4⟩ := hloc_pass key hs hnd N k dep q h
    obtain ⟨r1, r2, parts, r3, r4, r5⟩ := hloc_layers key hs hnd N k (dep + 1) _ p1
    simp only [bfsLayers, bfsVisited, bfsSpec]
    refine ⟨r1, by omega, ?_⟩
    by_cases hk : k = 0
    · obtain ⟨e1, parts0, e2, e3, e4⟩ := p3 hk
      subst hk
      refine ⟨parts0, ?_, e3, ?_⟩
      · simp [e2, bfsSpec]
      · simpa using e4
    · obtain ⟨e1, e2⟩ := p4 (by omega)
      refine ⟨parts, by simp [e1, r3], ?_, ?_⟩
      · rw [r4, e2]
      · have : dep + 1 + k - 1 = dep + (k + 1) - 1 := by omega
        rw [this] at r5; exact r5

/-! ### result of `locToIloc` -/

theorem specPos_bounds (key : List (Sel α)) : ∀ (d : Nat) (t : Level α) (dep start : Nat), WF d t →
    ∀ p ∈ specPos key t dep start, start ≤ p ∧ p < start + t.len
  | 0, t, dep, start, hw, p, hp => by cases t <;> simp [WF] at hw
  | d + 1, .leaf ls o, dep, start, hw, p, hp => by
    simp only [specPos, List.mem_map] at hp
    obtain ⟨i, hi, rfl⟩ := hp
    have := idxs_lt i hi
    simp only [len]; omega
  | d + 1, .node ls cs o, dep, start, hw, p, hp => by
    simp only [WF] at hw
    have hd : d + 1 - 1 = d := by omega
    rw [hd] at hw
    simp only [specPos, List.mem_flatMap] at hp
    obtain ⟨i, _, hp⟩ := hp
    rw [specPosIdx_eq key cs 0 i (dep + 1) start hw.2.2.2] at hp
    cases hc : cs[i]? with
    | none => rw [hc] at hp; simp at hp
    | some c =>
      rw [hc] at hp
      simp only at hp
      obtain ⟨w1, w2, w3⟩ := WFList_getElem cs 0 i c hw.2.2.2 hc
      have := specPos_bounds key d c (dep + 1) (start + c.offset - 0) w1 p hp
      simp only [len]; omega

theorem map_ofNat_injective {a b : List Nat} (h : a.map Int.ofNat = b.map Int.ofNat) : a = b := by
  induction a generalizing b with
  | nil => cases b <;> simp_all
  | cons x a ih =>
    cases b with
    | nil => simp at h
    | cons y b =>
      simp only [List.map_cons, List.cons.injEq, Int.ofNat_eq_natCast, Int.natCast_inj] at h
      rw [h.1, ih (by simpa using h.2)]

/-- a single part addresses the positions it flattens to -/
theorem part_positions {N : Nat} {one : IKey} {spec : List Nat} (hb : ∀ p ∈ spec, p < N)
    (h : flattenParts N [one] = .ok (spec.map Int.ofNat)) : one.positions N = .ok spec := by
  simp only [flattenParts, List.append_nil] at h
  cases one with
  | int i =>
    simp only [Except.ok.injEq] at h
    cases spec with
    | nil => simp at h
    | cons p rest =>
      cases rest with
      | cons q r => simp at h
      | nil =>
        simp only [List.map_cons, List.map_nil, List.cons.injEq, and_true] at h
        subst h
        simp only [IKey.positions, Key.positions, Int.ofNat_eq_natCast, normPos_lt (hb p (by simp))]
        rfl
  | list is =>
    simp only [Except.ok.injEq] at h
    subst h
    exact list_positions_of_lt spec N hb
  | slice s =>
    simp only [IKey.positions]
    cases hs : s.positions N with
    | error e => simp [hs, Except.map] at h
    | ok ps =>
      simp only [hs, Except.map, Except.ok.injEq] at h
      rw [map_ofNat_injective h]
  | arr ps =>
    simp only [Except.ok.injEq] at h
    have := map_ofNat_injective h
    subst this
    simp only [IKey.positions]
    rw [if_pos]
    simpa using hb

/-- `locToIloc` with label / all / list selectors: the loop terminates within its fuel, the parts are
    all well formed, and what they address is `specPos`. -/
theorem locToIloc_simple {t : Level α} {d : Nat} (hw : WF d t) (ho : t.offset = 0) (key : List (Sel α))
    (hs : ∀ dep, (key.getD dep .all).simple = true)
    (hnd : ∀ dep as, key.getD dep .all = .list as → as.Nodup) :
    ∃ parts, bfs (hlocVisit key) t.nodes [(t, (0, 0))] = some (parts.map .ok) ∧
      flattenParts t.len parts = .ok ((specPos key t 0 0).map Int.ofNat) ∧
      ((∃ a, key.getD (d - 1) .all = .label a) → ∀ part ∈ parts, ∃ i, part = IKey.int i) := by
  have hq : ∀ x ∈ [(t, ((0 : Nat), (0 : Nat)))], EntryOK d 0 t.len x := by
    intro x hx
    simp only [List.mem_singleton] at hx
    subst hx
    exact ⟨hw, rfl, by simp [est, ho]⟩
  obtain ⟨h1, h2, parts, h3, h4, h5⟩ := hloc_layers key hs hnd t.len d 0 _ hq
  refine ⟨parts, ?_, ?_, ?_⟩
  · rw [bfs_eq_spec _ d _ _ h1 (by simpa [nodesSum] using h2), h3]
  · simpa [specE, est, ho] using h4
  · simpa using h5

theorem sequence_ok {ε β : Type} : ∀ (l : List β), sequence (l.map (Except.ok (ε := ε))) = .ok l
  | [] => rfl
  | x :: l => by simp [sequence, sequence_ok l]

theorem locToIloc_simple_result {t : Level α} {d : Nat} (hw : WF d t) (ho : t.offset = 0) (key : List (Sel α))
    (hs : ∀ dep, (key.getD dep .all).simple = true)
    (hnd : ∀ dep as, key.getD dep .all = .list as → as.Nodup) :
    (t.locToIloc key = .error .lookup ∧ specPos key t 0 0 = []) ∨
    ∃ r, t.locToIloc key = .ok r ∧ r.positions t.len = .ok (specPos key t 0 0) := by
  obtain ⟨parts, h1, h2, _⟩ := locToIloc_simple hw ho key hs hnd
  have hb : ∀ p ∈ specPos key t 0 0, p < t.len := by
    intro p hp; have := specPos_bounds key d t 0 0 hw p hp; omega
  unfold locToIloc
  simp only [h1, sequence_ok]
  match parts, h2 with
  | [], h2 =>
    left
    simp only [flattenParts, Except.ok.injEq] at h2
    refine ⟨rfl, ?_⟩
    cases hsp : specPos key t 0 0 with
    | nil => rfl
    | cons a b => rw [hsp] at h2; simp at h2
  | [one], h2 =>
    right
    simp only
    by_cases hm : key.any Sel.isMultiple = true
    · rw [if_pos hm, h2]
      exact ⟨_, rfl, list_positions_of_lt _ _ hb⟩
    · rw [if_neg hm]
      exact ⟨one, rfl, part_positions hb h2⟩
  | p1 :: p2 :: rest, h2 =>
    right
    simp only [h2]
    exact ⟨_, rfl, list_positions_of_lt _ _ hb⟩

/-! ### what `specPos` selects -/

theorem leafLocAt_eq : ∀ (cs : List (Level α)) (i : Nat) (rest : List α) (pos : Nat),
    leafLocAt cs i rest pos = match cs[i]? with
      | some c => c.leafLoc rest (pos + c.offset)
      | none => .error .lookup
  | [], i, rest, pos => by simp [leafLocAt]
  | c :: cs, 0, rest, pos => by simp [leafLocAt]
  | c :: cs, i + 1, rest, pos => by simp [leafLocAt, leafLocAt_eq cs i rest pos]

theorem mem_idxs {ls : List α} (hls : ls.Nodup) {sel : Sel α} (hs : sel.simple = true) (i : Nat) :
    i ∈ sel.idxs ls ↔ ∃ a, ls[i]? = some a ∧ sel.matches a = true := by
  cases sel with
  | all =>
    simp only [Sel.idxs, List.mem_range, Sel.matches, and_true]
    constructor
    · intro h; exact ⟨ls[i], by simp [h]⟩
    · rintro ⟨a, ha⟩; exact (List.getElem?_eq_some_iff.mp ha).1
  | label b =>
    simp only [Sel.idxs, Option.mem_toList, Sel.matches, decide_eq_true_eq]
    rw [pos?_eq_some_iff hls]
    constructor
    · intro h; exact ⟨b, h, rfl⟩
    · rintro ⟨a, ha, rfl⟩; exact ha
  | list as =>
    simp only [Sel.idxs, List.mem_filterMap, Sel.matches, List.contains_eq_mem, decide_eq_true_eq]
    constructor
    · rintro ⟨a, ha, hp⟩; exact ⟨a, (pos?_eq_some_iff hls).mp hp, ha⟩
    · rintro ⟨a, ha, hm⟩; exact ⟨a, hm, (pos?_eq_some_iff hls).mpr ha⟩
  | slice a b c => simp [Sel.simple] at hs
  | mask bs => simp [Sel.simple] at hs

theorem mem_specPos (key : List (Sel α)) (hs : ∀ dep, (key.getD dep .all).simple = true) :
    ∀ (d : Nat) (t : Level α) (dep start p : Nat), WF d t →
    (p ∈ specPos key t dep start ↔ ∃ tup, matchFrom key dep tup = true ∧ t.leafLoc tup start = .ok p)
  | 0, t, dep, start, p, hw => by cases t <;> simp [WF] at hw
  | d + 1, .leaf ls o, dep, start, p, hw => by
    simp only [WF] at hw
    simp only [specPos, List.mem_map]
    constructor
    · rintro ⟨i, hi, rfl⟩
      obtain ⟨a, ha, hm⟩ := (mem_idxs hw.2 (hs dep) i).mp hi
      refine ⟨[a], by simp only [matchFrom, hm, Bool.and_self], ?_⟩
      simp [leafLoc, (pos?_eq_some_iff hw.2).mpr ha]
    · rintro ⟨tup, hm, hl⟩
      match tup, hm, hl with
      | [], _, hl => simp [leafLoc] at hl
      | _ :: _ :: _, _, hl => simp [leafLoc] at hl
      | [a], hm, hl =>
        simp only [leafLoc] at hl
        cases hp : pos? ls a with
        | none => rw [hp] at hl; cases hl
        | some i =>
          rw [hp] at hl
          simp only [Except.ok.injEq] at hl
          refine ⟨i, (mem_idxs hw.2 (hs dep) i).mpr ⟨a, (pos?_eq_some_iff hw.2).mp hp, ?_⟩, hl⟩
          simp only [matchFrom, Bool.and_true] at hm
          exact hm
  | d + 1, .node ls cs o, dep, start, p, hw => by
    simp only [WF] at hw
    have hd : d + 1 - 1 = d := by omega
    rw [hd] at hw
    simp only [specPos, List.mem_flatMap]
    constructor
    · rintro ⟨i, hi, hp⟩
      obtain ⟨a, ha, hm⟩ := (mem_idxs hw.2.1 (hs dep) i).mp hi
      rw [specPosIdx_eq key cs 0 i (dep + 1) start hw.2.2.2] at hp
      cases hc : cs[i]? with
      | none => rw [hc] at hp; simp at hp
      | some c =>
        rw [hc] at hp
        simp only [Nat.sub_zero] at hp
        obtain ⟨w1, _, _⟩ := WFList_getElem cs 0 i c hw.2.2.2 hc
        obtain ⟨tup, t1, t2⟩ := (mem_specPos key hs d c (dep + 1) (start + c.offset) p w1).mp hp
        refine ⟨a :: tup, by simp only [matchFrom, hm, t1, Bool.and_self], ?_⟩
        simp only [leafLoc, (pos?_eq_some_iff hw.2.1).mpr ha, leafLocAt_eq, hc, t2]
    · rintro ⟨tup, hm, hl⟩
      match tup, hm, hl with
      | [], _, hl => simp [leafLoc] at hl
      | a :: rest, hm, hl =>
        simp only [leafLoc] at hl
        cases hp : pos? ls a with
        | none => rw [hp] at hl; cases hl
        | some i =>
          rw [hp] at hl
          simp only at hl
          rw [leafLocAt_eq] at hl
          simp only [matchFrom, Bool.and_eq_true] at hm
          have ha := (pos?_eq_some_iff hw.2.1).mp hp
          refine ⟨i, (mem_idxs hw.2.1 (hs dep) i).mpr ⟨a, ha, hm.1⟩, ?_⟩
          rw [specPosIdx_eq key cs 0 i (dep + 1) start hw.2.2.2]
          cases hc : cs[i]? with
          | none => rw [hc] at hl; cases hl
          | some c =>
            rw [hc] at hl
            simp only [Nat.sub_zero] at hl ⊢
            obtain ⟨w1, _, _⟩ := WFList_getElem cs 0 i c hw.2.2.2 hc
            exact (mem_specPos key hs d c (dep + 1) (start + c.offset) p w1).mpr ⟨rest, hm.2, hl⟩

/-- `specPos` is exactly the set of positions whose tuple matches every selector -/
theorem specPos_mem_iff {t : Level α} {d : Nat} (hw : WF d t) (key : List (Sel α))
    (hs : ∀ dep, (key.getD dep .all).simple = true) (p : Nat) :
    p ∈ specPos key t 0 0 ↔ ∃ tup, t.tuples[p]? = some tup ∧ matchFrom key 0 tup = true := by
  rw [mem_specPos key hs d t 0 0 p hw]
  constructor
  · rintro ⟨tup, hm, hl⟩
    obtain ⟨i, hi, ht⟩ := (leafLoc_spec t d hw tup 0 p).mp hl
    simp only [Nat.zero_add] at hi; subst hi
    exact ⟨tup, ht, hm⟩
  · rintro ⟨tup, ht, hm⟩
    exact ⟨tup, hm, (leafLoc_spec t d hw tup 0 p).mpr ⟨p, by simp, ht⟩⟩

/-! ### a full tuple of labels -/

theorem specPos_labels_length (key : List (Sel α)) : ∀ (d : Nat) (t : Level α) (dep start : Nat), WF d t →
    (∀ j, j < d → ∃ a, key.getD (dep + j) .all = .label a) → (specPos key t dep start).length ≤ 1
  | 0, t, dep, start, hw, _ => by cases t <;> simp [WF] at hw
  | d + 1, .leaf ls o, dep, start, hw, hl => by
    obtain ⟨a, ha⟩ := hl 0 (by omega)
    simp only [Nat.add_zero] at ha
    simp only [specPos, ha, Sel.idxs, List.length_map]
    cases pos? ls a <;> simp
  | d + 1, .node ls cs o, dep, start, hw, hl => by
    simp only [WF] at hw
    have hd : d + 1 - 1 = d := by omega
    rw [hd] at hw
    obtain ⟨a, ha⟩ := hl 0 (by omega)
    simp only [Nat.add_zero] at ha
    simp only [specPos, ha, Sel.idxs]
    cases pos? ls a with
    | none => simp
    | some i =>
      simp only [Option.toList_some, List.flatMap_cons, List.flatMap_nil, List.append_nil]
      rw [specPosIdx_eq key cs 0 i (dep + 1) start hw.2.2.2]
      cases hc : cs[i]? with
      | none => simp
      | some c =>
        simp only
        obtain ⟨w1, _, _⟩ := WFList_getElem cs 0 i c hw.2.2.2 hc
        apply specPos_labels_length key d c (dep + 1) _ w1
        intro j hj
        have := hl (j + 1) (by omega)
        rwa [show dep + (j + 1) = dep + 1 + j by omega] at this

theorem matchFrom_labels : ∀ (labs tup : List α) (pre : List (Sel α)), tup.length = labs.length →
    (matchFrom (pre ++ labs.map Sel.label) pre.length tup = true ↔ tup = labs)
  | [], [], pre, _ => by simp [matchFrom]
  | [], _ :: _, pre, h => by simp at h
  | _ :: _, [], pre, h => by simp at h
  | b :: labs, a :: tup, pre, h => by
    have ih := matchFrom_labels labs tup (pre ++ [Sel.label b]) (by simpa using h)
    simp only [List.append_assoc, List.singleton_append, List.length_append, List.length_cons,
      List.length_nil, Nat.zero_add] at ih
    have hg : (pre ++ Sel.label b :: labs.map Sel.label).getD pre.length Sel.all = Sel.label b := by
      simp [List.getD_eq_getElem?_getD]
    simp only [matchFrom, List.map_cons, hg, Sel.matches, Bool.and_eq_true, decide_eq_true_eq, ih,
      List.cons.injEq]

/-- a full tuple of labels selects its single position (as an integer), or nothing -/
theorem locToIloc_full_tuple {t : Level α} {d : Nat} (hw : WF d t) (ho : t.offset = 0) (labs : List α)
    (hl : labs.length = d) :
    (t.locToIloc (labs.map .label) = .error .lookup ∧ labs ∉ t.tuples) ∨
    ∃ p : Nat, t.locToIloc (labs.map .label) = .ok (.int p) ∧ t.tuples[p]? = some labs := by
  have hd1 : 1 ≤ d := by cases t <;> simp only [WF] at hw <;> omega
  have hget : ∀ dep (hdd : dep < d), (labs.map Sel.label).getD dep Sel.all = Sel.label (labs[dep]'(by omega)) := by
    intro dep hdep
    simp [List.getD_eq_getElem?_getD, List.getElem?_map, List.getElem?_eq_getElem (show dep < labs.length by omega)]
  have hs : ∀ dep, ((labs.map Sel.label).getD dep .all).simple = true := by
    intro dep
    by_cases h : dep < d
    · rw [hget dep h]; rfl
    · have : (labs.map Sel.label).getD dep Sel.all = Sel.all := by
        simp [List.getD_eq_getElem?_getD, List.getElem?_eq_none (show (labs.map Sel.label).length ≤ dep by simp; omega)]
      rw [this]; rfl
  have hnd : ∀ dep as, (labs.map Sel.label).getD dep .all = .list as → as.Nodup := by
    intro dep as h
    by_cases h' : dep < d
    · rw [hget dep h'] at h; cases h
    · have : (labs.map Sel.label).getD dep Sel.all = Sel.all := by
        simp [List.getD_eq_getElem?_getD, List.getElem?_eq_none (show (labs.map Sel.label).length ≤ dep by simp; omega)]
      rw [this] at h; cases h
  obtain ⟨parts, h1, h2, h3⟩ := locToIloc_simple hw ho (labs.map .label) hs hnd
  have hint := h3 ⟨_, hget (d - 1) (by omega)⟩
  have hlen := specPos_labels_length (labs.map .label) d t 0 0 hw
    (fun j hj => ⟨_, by simpa using hget j hj⟩)
  have hmem : ∀ p, p ∈ specPos (labs.map Sel.label) t 0 0 ↔ t.tuples[p]? = some labs := by
    intro p
    rw [specPos_mem_iff hw _ hs p]
    constructor
    · rintro ⟨tup, ht, hm⟩
      have hlt := tuples_depth t d hw tup (List.mem_of_getElem? ht)
      have := (matchFrom_labels labs tup [] (by omega)).mp (by simpa using hm)
      rw [← this]; exact ht
    · intro ht
      exact ⟨labs, ht, by simpa using (matchFrom_labels labs labs [] rfl).mpr rfl⟩
  have hnm : (labs.map Sel.label).any Sel.isMultiple = false := by
    simp [List.any_map, Sel.isMultiple, Function.comp_def]
  unfold locToIloc
  simp only [h1, sequence_ok]
  match parts, h2, hint with
  | [], h2, _ =>
    left
    simp only [flattenParts, Except.ok.injEq] at h2
    refine ⟨rfl, ?_⟩
    intro hm
    obtain ⟨p, hp⟩ := List.mem_iff_getElem?.mp hm
    have := (hmem p).mpr hp
    cases hsp : specPos (labs.map Sel.label) t 0 0 with
    | nil => rw [hsp] at this; simp at this
    | cons a b => rw [hsp] at h2; simp at h2
  | [one], h2, hint =>
    right
    obtain ⟨i, rfl⟩ := hint one (by simp)
    simp only [flattenParts, List.append_nil, Except.ok.injEq] at h2
    cases hsp : specPos (labs.map Sel.label) t 0 0 with
    | nil => rw [hsp] at h2; simp at h2
    | cons p rest =>
      rw [hsp] at h2 hlen
      have : rest = [] := by
        cases rest with
        | nil => rfl
        | cons _ _ => simp at hlen
      subst this
      simp only [List.map_cons, List.map_nil, List.cons.injEq, and_true] at h2
      subst h2
      refine ⟨p, by simp [hnm], (hmem p).mp (by simp [hsp])⟩
  | p1 :: p2 :: rest, h2, hint =>
    exfalso
    obtain ⟨i1, rfl⟩ := hint p1 (by simp)
    obtain ⟨i2, rfl⟩ := hint p2 (by simp)
    simp only [flattenParts, List.singleton_append] at h2
    cases hr : flattenParts t.len rest with
    | error e => simp [hr] at h2
    | ok r =>
      simp only [hr, Except.ok.injEq] at h2
      have := congrArg List.length h2
      simp at this
      omega

end Level
end SF
