/-
  Lemmas for SFModel.BlocksAssignBlocks: `get_block_match` hands out the value columns in order,
  whatever the layout of the value blocks, and the assignment generator `_assign_from_iloc_by_blocks`
  refines `assignBlocksSpec` on the `(dtype, column)` view of the blocks.
-/
import SFModel.BlocksAssignBlocks
import SFModel.BlocksAssignLemmas

namespace SF
open TB
variable {α : Type}

/-! ### `get_block_match` -/

/-- no array without columns on the stack (a TypeBlocks stores none) -/
def PosW (src : List (Block α)) : Prop := ∀ v ∈ src, 0 < v.width

theorem pieceDts_zero (src : List (Block α)) (s : Nat) : pieceDts src s 0 = [] := by
  cases src <;> simp [pieceDts]

theorem pieceDts_cons_ge (v : Block α) (vs : List (Block α)) (s n : Nat) (h : v.width ≤ s) :
    pieceDts (v :: vs) s n = pieceDts vs (s - v.width) n := by
  by_cases hn : n = 0
  · subst hn; simp [pieceDts_zero]
  · simp only [pieceDts, if_neg hn, if_pos h]

theorem pieceDts_cons_lt (v : Block α) (vs : List (Block α)) (s n : Nat) (h : s < v.width) (hn : n ≠ 0) :
    pieceDts (v :: vs) s n = v.dt :: pieceDts vs 0 (n - (v.width - s)) := by
  simp only [pieceDts, if_neg hn, if_neg (show ¬ v.width ≤ s by omega)]

theorem Block.colsDT_length (b : Block α) : b.colsDT.length = b.width := by
  simp [Block.colsDT]

/-- what one call of `get_block_match` for `need` columns does to a stack that holds enough -/
structure MatchOk (src : List (Block α)) (need : Nat) (pieces src' : List (Block α)) : Prop where
  taken : colsDT pieces = (colsDT src).take need
  left : colsDT src' = (colsDT src).drop need
  dts : pieces.map Block.dt = pieceDts src 0 need
  shift : ∀ s n, pieceDts src' s n = pieceDts src (need + s) n
  posLeft : PosW src'
  posTaken : PosW pieces
  nonempty : 0 < need → pieces ≠ []

theorem MatchOk.cons_whole (v : Block α) (rest : List (Block α)) (k : Nat) (ys src' : List (Block α))
    (hvw : 0 < v.width) (hwk : v.width ≤ k + 1) (hok : MatchOk rest (k + 1 - v.width) ys src') :
    MatchOk (v :: rest) (k + 1) (v :: ys) src' := by
  have hcl := Block.colsDT_length v
  refine ⟨?_, ?_, ?_, ?_, hok.posLeft, ?_, by intro _; simp⟩
  · rw [colsDT_cons, colsDT_cons, hok.taken, List.take_append, hcl,
      List.take_of_length_le (l := v.colsDT) (by rw [hcl]; exact hwk)]
  · rw [colsDT_cons, hok.left, List.drop_append, hcl,
      List.drop_of_length_le (l := v.colsDT) (by rw [hcl]; exact hwk), List.nil_append]
  · rw [List.map_cons, hok.dts, pieceDts_cons_lt v rest 0 (k + 1) hvw (by omega), Nat.sub_zero]
  · intro s n
    rw [hok.shift, pieceDts_cons_ge v rest (k + 1 + s) n (by omega)]
    congr 1; omega
  · intro x hx
    rw [List.mem_cons] at hx
    rcases hx with rfl | hx
    · exact hvw
    · exact hok.posTaken x hx

/-- a 2-D array wider than what is needed: split, the rest pushed back -/
theorem MatchOk.split (t : DT) (cs : List (List α)) (rest : List (Block α)) (k : Nat)
    (hposr : PosW rest) (hgt : k + 1 < cs.length) (y : Block α)
    (hy : y.colsDT = (cs.take (k + 1)).map (fun c => (t, c))) (hyd : y.dt = t) (hyw : 0 < y.width) :
    MatchOk (.d2 t cs :: rest) (k + 1) [y] (.d2 t (cs.drop (k + 1)) :: rest) := by
  have hcl : (Block.d2 t cs).colsDT.length = cs.length := Block.colsDT_length _
  have hw : (Block.d2 t cs).width = cs.length := rfl
  refine ⟨?_, ?_, ?_, ?_, ?_, ?_, by intro _; simp⟩
  · rw [colsDT_cons, colsDT_cons, colsDT_nil, List.append_nil, hy,
      List.take_append_of_le_length (by rw [hcl]; omega)]
    simp [Block.colsDT, Block.colsOf, Block.dt, List.map_take]
  · rw [colsDT_cons, colsDT_cons, List.drop_append_of_le_length (by rw [hcl]; omega)]
    simp [Block.colsDT, Block.colsOf, Block.dt, List.map_drop]
  · rw [pieceDts_cons_lt (.d2 t cs) rest 0 (k + 1) (by rw [hw]; omega) (by omega), hw]
    have : k + 1 - (cs.length - 0) = 0 := by omega
    rw [this, pieceDts_zero]
    simp only [List.map_cons, List.map_nil, hyd]
    rfl
  · intro s n
    have hw' : (Block.d2 t (cs.drop (k + 1))).width = cs.length - (k + 1) := by simp [Block.width]
    by_cases hn : n = 0
    · subst hn; simp [pieceDts_zero]
    · by_cases hs : cs.length - (k + 1) ≤ s
      · rw [pieceDts_cons_ge (.d2 t (cs.drop (k + 1))) rest s n (by rw [hw']; exact hs),
          pieceDts_cons_ge (.d2 t cs) rest (k + 1 + s) n (by rw [hw]; omega)]
        congr 1; have := hw; have := hw'; omega
      · rw [pieceDts_cons_lt (.d2 t (cs.drop (k + 1))) rest s n (by rw [hw']; omega) hn,
          pieceDts_cons_lt (.d2 t cs) rest (k + 1 + s) n (by rw [hw]; omega) hn]
        refine congrArg (List.cons t) (congrArg (pieceDts rest 0) ?_)
        have := hw; have := hw'; omega
  · intro x hx
    rw [List.mem_cons] at hx
    rcases hx with rfl | hx
    · simp only [Block.width, List.length_drop]; omega
    · exact hposr x hx
  · intro x hx
    simp only [List.mem_singleton] at hx
    subst hx; exact hyw

theorem blockMatchLoop_spec (width : Int) (src : List (Block α)) (found : Int) (need : Nat)
    (hneed : width - found = (need : Int)) (hpos : PosW src) (hle : need ≤ (colsDT src).length) :
    ∃ pieces src', blockMatchLoop width src found = .ok (pieces, src') ∧ MatchOk src need pieces src' := by
  induction src generalizing found need with
  | nil =>
    have h0 : need = 0 := by simpa using hle
    subst h0
    have : ¬ found < width := by omega
    refine ⟨[], [], by simp [blockMatchLoop, this], ?_⟩
    exact ⟨rfl, rfl, rfl, fun _ _ => rfl, hpos, (by intro v hv; cases hv), (by omega)⟩
  | cons v rest ih =>
    have hposr : PosW rest := fun x hx => hpos x (List.mem_cons_of_mem _ hx)
    have hvw : 0 < v.width := hpos v List.mem_cons_self
    cases need with
    | zero =>
      have : ¬ found < width := by omega
      refine ⟨[], v :: rest, by simp [blockMatchLoop, this], ?_⟩
      refine ⟨rfl, rfl, ?_, ?_, hpos, (by intro x hx; cases hx), (by omega)⟩
      · simp [pieceDts_zero]
      · intro s n; simp
    | succ k =>
      have hlt : found < width := by omega
      have hlen : (colsDT (v :: rest)).length = v.width + (colsDT rest).length := by
        rw [colsDT_cons, List.length_append, Block.colsDT_length]
      cases v with
      | d1 t c =>
        have hw : (Block.d1 t c).width = 1 := rfl
        obtain ⟨ys, src', hrun, hok⟩ := ih (found + 1) (k + 1 - (Block.d1 t c).width) (by rw [hw]; omega) hposr
          (by rw [hw]; omega)
        refine ⟨.d1 t c :: ys, src', ?_, MatchOk.cons_whole _ rest k ys src' hvw (by rw [hw]; omega) hok⟩
        simp only [blockMatchLoop, if_pos hlt, hrun]
      | d2 t cs =>
        have hw : (Block.d2 t cs).width = cs.length := rfl
        by_cases hfit : (cs.length : Int) ≤ width - found
        · obtain ⟨ys, src', hrun, hok⟩ := ih (found + (cs.length : Int)) (k + 1 - (Block.d2 t cs).width)
            (by rw [hw]; omega) hposr (by rw [hw]; omega)
          refine ⟨.d2 t cs :: ys, src', ?_, MatchOk.cons_whole _ rest k ys src' hvw (by rw [hw]; omega) hok⟩
          simp only [blockMatchLoop, if_pos hlt, if_pos hfit, hrun]
        · have hgt : k + 1 < cs.length := by omega
          have htn : (width - found).toNat = k + 1 := by omega
          refine ⟨[.d2 t (cs.take (k + 1))], .d2 t (cs.drop (k + 1)) :: rest, ?_,
            MatchOk.split t cs rest k hposr hgt _ rfl rfl (by simp only [Block.width, List.length_take]; omega)⟩
          simp only [blockMatchLoop, if_pos hlt, if_neg hfit, htn]

theorem getBlockMatch_spec (src : List (Block α)) (need : Nat) (hneed : 0 < need) (hpos : PosW src)
    (hle : need ≤ (colsDT src).length) :
    ∃ pieces src', getBlockMatch (need : Int) src = .ok (pieces, src') ∧ MatchOk src need pieces src' := by
  by_cases h1 : need = 1
  · subst h1
    cases src with
    | nil => simp at hle
    | cons v rest =>
      have hposr : PosW rest := fun x hx => hpos x (List.mem_cons_of_mem _ hx)
      have hvw : 0 < v.width := hpos v List.mem_cons_self
      have hnil : MatchOk rest 0 [] rest :=
        ⟨rfl, rfl, by simp [pieceDts_zero], by intro s n; simp, hposr, (by intro x hx; cases hx), (by omega)⟩
      cases v with
      | d1 t c =>
        exact ⟨[.d1 t c], rest, by simp [getBlockMatch],
          MatchOk.cons_whole _ rest 0 [] rest hvw (Nat.le_refl _) hnil⟩
      | d2 t cs =>
        cases cs with
        | nil => simp [Block.width] at hvw
        | cons c cs' =>
          by_cases hmore : (c :: cs').length > 1
          · have hne : cs' ≠ [] := by intro h; subst h; simp at hmore
            refine ⟨[.d1 t c], .d2 t cs' :: rest, by simp [getBlockMatch, hne], ?_⟩
            exact MatchOk.split t (c :: cs') rest 0 hposr (by simp only [List.length_cons] at hmore ⊢; omega) (.d1 t c)
              (by simp [Block.colsDT, Block.colsOf, Block.dt]) rfl (by simp [Block.width])
          · have hnil' : cs' = [] := by
              cases cs' with
              | nil => rfl
              | cons _ _ => simp at hmore
            subst hnil'
            refine ⟨[.d1 t c], rest, by simp [getBlockMatch], ?_⟩
            -- the yielded 1-D array has the same columns and dtype as the popped `(n, 1)` array
            have h := MatchOk.cons_whole (.d2 t [c]) rest 0 [] rest hvw (Nat.le_refl _) hnil
            exact ⟨by simp [Block.colsDT, Block.colsOf, Block.dt], h.left,
              by simpa [Block.dt] using h.dts, h.shift, h.posLeft, (by intro x hx; simp at hx; subst hx; simp [Block.width]),
              (by intro _; simp)⟩
  · have hne : ¬ ((need : Int) = 1) := by omega
    simp only [getBlockMatch, if_neg hne]
    exact blockMatchLoop_spec (need : Int) src 0 need (by omega) hpos hle

/-! ### the stack while the generator runs -/

/-- the stack after `k` value columns have been drawn from `values` -/
structure SrcAt (values : List (Block α)) (k : Nat) (src : List (Block α)) : Prop where
  cols : colsDT src = (colsDT values).drop k
  shift : ∀ s n, pieceDts src s n = pieceDts values (k + s) n
  pos : PosW src

theorem SrcAt.init (values : List (Block α)) (h : PosW values) : SrcAt values 0 values :=
  ⟨by simp, by intro s n; simp, h⟩

theorem SrcAt.step {values src pieces src' : List (Block α)} {k need : Nat} (h : SrcAt values k src)
    (hm : MatchOk src need pieces src') : SrcAt values (k + need) src' := by
  refine ⟨?_, ?_, hm.posLeft⟩
  · rw [hm.left, h.cols, List.drop_drop]
  · intro s n
    rw [hm.shift, h.shift]
    congr 1; omega

/-! ### one target -/

theorem tgtRange_spec (isSl : Bool) (p : ATgt) (hsel : SelOK isSl p) :
    tgtRange p.sel = .ok (p.a, p.hi, ((p.len + 1 : Nat) : Int)) := by
  cases isSl with
  | true =>
    have hs : p.sel = .sl ⟨some (p.a : Int), some (p.hi : Int), none⟩ := hsel
    rw [hs]
    have hneg : ¬ ((p.a : Int) < 0 ∨ (p.hi : Int) < 0) := by omega
    simp only [tgtRange, if_neg hneg, Int.toNat_natCast]
    have e : (p.hi : Int) - (p.a : Int) = ((p.len + 1 : Nat) : Int) := by simp only [ATgt.hi]; omega
    rw [e]
  | false =>
    obtain ⟨hs, hl⟩ : p.sel = .col p.a ∧ p.len = 0 := hsel
    rw [hs]
    simp [tgtRange, ATgt.hi, hl]

theorem gapBefore_spec (b : Block α) (ps a : Nat) (hpa : ps ≤ a) (ha : a < b.width) :
    ∃ gap, gapBefore b ps a = .ok gap ∧
      colsDT gap = (List.range' ps (a - ps)).map (fun c => (b.dt, b.colsOf.getD c [])) := by
  by_cases h0 : a = 0
  · subst h0
    exact ⟨[], by simp [gapBefore], by simp⟩
  · cases b with
    | d1 t c => simp only [Block.width] at ha; omega
    | d2 t cs =>
      simp only [Block.width] at ha
      refine ⟨[.d2 t (subCols cs ps a)], by simp only [gapBefore, ne_eq, h0, not_false_eq_true, if_true], ?_⟩
      simp only [colsDT_cons, colsDT_nil, List.append_nil, colsDT_d2_subCols t cs ps a (by omega)]
      rfl

theorem sameLen_of_all (cols : List (List α)) (n : Nat) (h : ∀ c ∈ cols, c.length = n) : sameLen cols = true := by
  cases cols with
  | nil => rfl
  | cons c cs =>
    simp only [sameLen, List.all_eq_true, beq_iff_eq]
    intro x hx
    rw [h x (List.mem_cons_of_mem _ hx), h c List.mem_cons_self]

theorem bcastMat_ok (vcols : List (List α)) (w n : Nat) (hw : vcols.length = w) (h : ∀ c ∈ vcols, c.length = n) :
    bcastMat vcols w n = .ok vcols := by
  simp only [bcastMat, bcastE_self vcols w hw, mapM_bcast_ok vcols n h]

/-- default of the total list access below (never met: the value columns suffice) -/
def dfltCol : DT × List α := ("", [])

/-- the new `(dtype, column)` of the `m`-th addressed column: the `m`-th value column written into the
    addressed rows; the value column's dtype with a null row key, else the dtype of the target
    (`tinfo m` = first value column and length of the target the `m`-th addressed column belongs to) -/
def asgColB (resolve : DT → DT → DT) (nullRow : Bool) (rps : List Nat) (values : List (Block α))
    (tinfo : Nat → Nat × Nat) (m : Nat) (x : DT × List α) : DT × List α :=
  (if nullRow then ((colsDT values).getD m dfltCol).1
     else targetDtype resolve (pieceDts values (tinfo m).1 (tinfo m).2) x.1,
   writeCol x.2 rps ((colsDT values).getD m dfltCol).2)

theorem take_drop_eq_map_range {β} (l : List β) (k n : Nat) (d : β) (h : k + n ≤ l.length) :
    (l.drop k).take n = (List.range n).map (fun i => l.getD (k + i) d) := by
  apply List.ext_getElem
  · simp; omega
  · intro i h1 h2
    simp only [List.length_map, List.length_range] at h2
    simp [List.getD_eq_getElem?_getD, List.getElem?_eq_getElem (show k + i < l.length by omega)]

theorem assignBlocksStep_spec (resolve : DT → DT → DT) (nullRow scalarRow : Bool) (rps : List Nat) (rows : Nat)
    (hnull : nullRow = true → rps = List.range rows)
    (b : Block α) (hb : b.RowsOk rows) (hw : 0 < b.width) (hsc : scalarRow = true → b.is1d = false)
    (isSl : Bool) (values : List (Block α)) (tinfo : Nat → Nat × Nat) (p : ATgt)
    (hsel : SelOK isSl p) (hhi : p.hi ≤ b.width) (ps : Nat) (hps : ps ≤ p.a) (k : Nat)
    (src : List (Block α)) (hsrc : SrcAt values k src)
    (hfit : k + p.len + 1 ≤ (colsDT values).length)
    (hvr : ∀ x ∈ colsDT values, x.2.length = rps.length)
    (hinfo : ∀ i, i ≤ p.len → tinfo (k + i) = (k, p.len + 1)) :
    ∃ ys src', assignBlocksStep resolve nullRow scalarRow (.ok rps) b p.sel ps src = .ok (ys, p.hi, src') ∧
      SrcAt values (k + p.len + 1) src' ∧
      colsDT ys = (List.range' ps (p.a - ps)).map (fun c => (b.dt, b.colsOf.getD c [])) ++
        (List.range (p.len + 1)).map (fun i =>
          asgColB resolve nullRow rps values tinfo (k + i) (b.dt, b.colsOf.getD (p.a + i) [])) := by
  have hhi' : p.a + p.len + 1 ≤ b.width := hhi
  obtain ⟨gap, hgap, hgapDT⟩ := gapBefore_spec b ps p.a hps (by omega)
  have hle : p.len + 1 ≤ (colsDT src).length := by rw [hsrc.cols, List.length_drop]; omega
  obtain ⟨pieces, src', hmatch, hok⟩ := getBlockMatch_spec src (p.len + 1) (by omega) hsrc.pos hle
  have hsrc' : SrcAt values (k + p.len + 1) src' := by
    have := hsrc.step hok
    rwa [← Nat.add_assoc] at this
  -- the value columns handed out for this target
  generalize hd : (dfltCol : DT × List α) = d
  have hpieces : colsDT pieces = (List.range (p.len + 1)).map (fun i => (colsDT values).getD (k + i) d) := by
    rw [hok.taken, hsrc.cols]
    exact take_drop_eq_map_range _ k (p.len + 1) d (by omega)
  have hvlen : ∀ i, i ≤ p.len → ((colsDT values).getD (k + i) d).2.length = rps.length := by
    intro i hi
    have hlt : k + i < (colsDT values).length := by omega
    rw [List.getD_eq_getElem?_getD, List.getElem?_eq_getElem hlt]
    exact hvr _ (List.getElem_mem hlt)
  have hcollen : ∀ i, i ≤ p.len → (b.colsOf.getD (p.a + i) []).length = rows := by
    intro i hi
    have hlt : p.a + i < b.colsOf.length := by rw [Block.colsOf_length]; omega
    rw [List.getD_eq_getElem?_getD, List.getElem?_eq_getElem hlt]
    exact hb _ (List.getElem_mem hlt)
  have hdts : pieces.map Block.dt = pieceDts values k (p.len + 1) := by
    rw [hok.dts, hsrc.shift]; simp
  have hrange := tgtRange_spec isSl p hsel
  cases nullRow with
  | true =>
    have hr := hnull rfl
    refine ⟨gap ++ pieces, src', ?_, hsrc', ?_⟩
    · simp only [assignBlocksStep, hrange, hgap, hmatch, if_true]
    · rw [colsDT_append, hgapDT, hpieces]
      congr 1
      apply List.map_congr_left
      intro i hi
      rw [List.mem_range] at hi
      have hwc := writeCol_all (b.colsOf.getD (p.a + i) []) ((colsDT values).getD (k + i) d).2 rps rows hr
        (hcollen i (by omega)) (hvlen i (by omega))
      simp only [asgColB, if_true, hd, hwc]
  | false =>
    -- the assigned array
    have hadt : targetDtype resolve (pieces.map Block.dt) b.dt
        = targetDtype resolve (pieceDts values k (p.len + 1)) b.dt := by rw [hdts]
    have hblk : ∃ blk, assignedBlock resolve scalarRow (.ok rps) b p.a p.hi pieces = .ok blk ∧
        blk.colsDT = (List.range (p.len + 1)).map (fun i =>
          (targetDtype resolve (pieceDts values k (p.len + 1)) b.dt,
           writeCol (b.colsOf.getD (p.a + i) []) rps ((colsDT values).getD (k + i) d).2)) := by
      have hvcols : pieces.flatMap Block.colsOf
          = (List.range (p.len + 1)).map (fun i => ((colsDT values).getD (k + i) d).2) := by
        rw [← colsDT_snd, hpieces, List.map_map]; rfl
      cases b with
      | d2 t cs =>
        simp only [Block.width] at hhi'
        have hne : pieces.isEmpty = false := by
          cases hp : pieces with
          | nil => exact absurd hp (hok.nonempty (by omega))
          | cons _ _ => rfl
        have hall : ∀ c ∈ pieces.flatMap Block.colsOf, c.length = rps.length := by
          intro c hc
          rw [hvcols, List.mem_map] at hc
          obtain ⟨i, hi, rfl⟩ := hc
          rw [List.mem_range] at hi
          exact hvlen i (by omega)
        have htc : subCols cs p.a p.hi = (List.range (p.len + 1)).map (fun i => cs.getD (p.a + i) []) := by
          rw [subCols_eq_map cs p.a p.hi (by simp only [ATgt.hi]; omega)]
          have : p.hi - p.a = p.len + 1 := by simp only [ATgt.hi]; omega
          rw [this, List.range'_eq_map_range, List.map_map]
          rfl
        have hbm := bcastMat_ok (pieces.flatMap Block.colsOf) (subCols cs p.a p.hi).length rps.length
          (by rw [hvcols, htc]; simp) hall
        refine ⟨_, by simp only [assignedBlock, hne, Bool.false_eq_true, if_false, sameLen_of_all _ _ hall,
          not_true_eq_false, hbm]; rfl, ?_⟩
        have hadt' : targetDtype resolve (pieces.map Block.dt) t
            = targetDtype resolve (pieceDts values k (p.len + 1)) t := hadt
        simp only [Block.colsDT, Block.colsOf, Block.dt, hadt', hvcols, htc]
        apply List.ext_getElem
        · simp
        · intro i h1 h2
          simp
      | d1 t c =>
        simp only [Block.width] at hhi'
        have hl : p.len = 0 := by omega
        have ha : p.a = 0 := by omega
        have hs1 : scalarRow = false := by
          cases hsr : scalarRow with
          | false => rfl
          | true => have := hsc hsr; simp [Block.is1d] at this
        -- exactly one value column was drawn: the first piece is that column
        cases hp : pieces with
        | nil => exact absurd hp (hok.nonempty (by omega))
        | cons p1 pr =>
          have hp1w : 0 < p1.width := hok.posTaken p1 (by rw [hp]; exact List.mem_cons_self)
          have hone : p1.colsOf = [((colsDT values).getD k d).2] := by
            have h1 := hvcols
            rw [hp, hl] at h1
            simp only [List.flatMap_cons, Nat.zero_add, List.range_one, List.map_cons, List.map_nil,
              Nat.add_zero] at h1
            have hlen : p1.colsOf.length + (pr.flatMap Block.colsOf).length = 1 := by
              rw [← List.length_append, h1]; rfl
            rw [Block.colsOf_length] at hlen
            have hprn : pr.flatMap Block.colsOf = [] := List.eq_nil_of_length_eq_zero (by omega)
            rw [hprn, List.append_nil] at h1
            exact h1
          have hvl : ((colsDT values).getD k d).2.length = rps.length := by
            have := hvlen 0 (by omega); simpa using this
          refine ⟨_, by
            simp only [assignedBlock, hone, hs1, Bool.false_eq_true, false_and, if_false,
              bcastE_self _ _ hvl]; rfl, ?_⟩
          have hadt' : targetDtype resolve ((p1 :: pr).map Block.dt) (Block.d1 t c).dt
              = targetDtype resolve (pieceDts values k (p.len + 1)) t := by rw [← hp]; exact hadt
          rw [hadt', hl, ha]
          simp [Block.colsDT, Block.colsOf, Block.dt]
    obtain ⟨blk, hblk, hblkDT⟩ := hblk
    refine ⟨gap ++ [blk], src', ?_, hsrc', ?_⟩
    · simp only [assignBlocksStep, hrange, hgap, hmatch, Bool.false_eq_true, if_false, hblk]
    · rw [colsDT_append, hgapDT, colsDT_cons, colsDT_nil, List.append_nil, hblkDT]
      congr 1
      apply List.map_congr_left
      intro i hi
      rw [List.mem_range] at hi
      simp only [asgColB, Bool.false_eq_true, if_false, hinfo i (by omega), hd]

/-! ### the walk over the targets of one block -/

/-- `tinfo` tells, for every addressed column (by its number in key order), the first value column
    and the length of the target it belongs to -/
def InfoOk (tinfo : Nat → Nat × Nat) : List ATgt → Nat → Prop
  | [], _ => True
  | p :: rest, k => (∀ i, i ≤ p.len → tinfo (k + i) = (k, p.len + 1)) ∧ InfoOk tinfo rest (k + p.len + 1)

theorem InfoOk_append (tinfo : Nat → Nat × Nat) (xs ys : List ATgt) (k : Nat) :
    InfoOk tinfo (xs ++ ys) k ↔ InfoOk tinfo xs k ∧ InfoOk tinfo ys (k + tgtsWidth xs) := by
  induction xs generalizing k with
  | nil => simp [InfoOk]
  | cons p xs ih =>
    simp only [List.cons_append, InfoOk, ih, tgtsWidth_cons]
    have : k + p.len + 1 + tgtsWidth xs = k + (p.len + 1 + tgtsWidth xs) := by omega
    rw [this]
    exact and_assoc.symm

theorem assignBlocksWalk_spec (resolve : DT → DT → DT) (nullRow scalarRow : Bool) (rps : List Nat) (rows : Nat)
    (hnull : nullRow = true → rps = List.range rows)
    (b : Block α) (hb : b.RowsOk rows) (hw : 0 < b.width) (hsc : scalarRow = true → b.is1d = false)
    (isSl : Bool) (values : List (Block α)) (tinfo : Nat → Nat × Nat)
    (hvr : ∀ x ∈ colsDT values, x.2.length = rps.length)
    (bi : Nat) (cov : Nat → Bool) (ord : Nat × Nat → Nat) (pre post : List ATgt) (ps : Nat)
    (parts : List (Block α)) (k : Nat) (src : List (Block α)) (hsrc : SrcAt values k src)
    (hpre : ∀ p ∈ pre, p.blk = bi ∧ SelOK isSl p ∧ p.hi ≤ b.width)
    (hsorted : pre.Pairwise ALt) (hps : ∀ p ∈ pre, ps ≤ p.a) (hpsl : ps ≤ b.width)
    (hpost : ∀ q, post.head? = some q → q.blk ≠ bi)
    (hcov : ∀ c, ps ≤ c → (cov c = true ↔ ∃ p ∈ pre, p.a ≤ c ∧ c < p.hi))
    (hord : OrdOk ord pre k) (hinfo : InfoOk tinfo pre k)
    (hfit : k + tgtsWidth pre ≤ (colsDT values).length) :
    ∃ parts' ps' src', assignBlocksWalk resolve nullRow scalarRow (.ok rps) b bi ((pre ++ post).map ATgt.pair)
          ps parts src
        = .ok (parts ++ parts', ps', post.map ATgt.pair, src') ∧
      SrcAt values (k + tgtsWidth pre) src' ∧
      ps ≤ ps' ∧ ps' ≤ b.width ∧ (∀ p ∈ pre, p.hi ≤ ps') ∧ (pre = [] → ps' = ps) ∧
      colsDT parts' = (List.range' ps (ps' - ps)).map (fun c =>
        if cov c then asgColB resolve nullRow rps values tinfo (ord (bi, c)) (b.dt, b.colsOf.getD c [])
        else (b.dt, b.colsOf.getD c [])) := by
  induction pre generalizing ps parts k src with
  | nil =>
    refine ⟨[], ps, src, ?_, by simpa using hsrc, Nat.le_refl _, hpsl, by simp, fun _ => rfl, by simp⟩
    cases post with
    | nil => simp [assignBlocksWalk]
    | cons q post' =>
      have hq := hpost q rfl
      simp only [List.nil_append, List.map_cons, assignBlocksWalk, ATgt.pair, ne_eq, hq, not_false_eq_true,
        if_true, List.append_nil]
  | cons p pre' ih =>
    obtain ⟨hblk, hselp, hhi⟩ := hpre p List.mem_cons_self
    have hpa := hps p List.mem_cons_self
    rw [List.pairwise_cons] at hsorted
    obtain ⟨hp_lt, hsorted'⟩ := hsorted
    have hahi : p.a < p.hi := by simp [ATgt.hi]; omega
    have hnext : ∀ p' ∈ pre', p.hi < p'.a := by
      intro p' hp'
      have hb' := (hpre p' (List.mem_cons_of_mem _ hp')).1
      rcases hp_lt p' hp' with h | ⟨_, h⟩
      · omega
      · exact h
    obtain ⟨hord1, hord'⟩ := hord
    obtain ⟨hinfo1, hinfo'⟩ := hinfo
    simp only [tgtsWidth_cons] at hfit
    obtain ⟨ys, src1, hstep, hsrc1, hysDT⟩ := assignBlocksStep_spec resolve nullRow scalarRow rps rows hnull b hb hw
      hsc isSl values tinfo p hselp hhi ps hpa k src hsrc (by omega) hvr hinfo1
    obtain ⟨parts'', ps', src', hwk, hsrc', h1, h2, h3, _, h4⟩ := ih p.hi (parts ++ ys) (k + p.len + 1) src1 hsrc1
      (fun q hq => hpre q (List.mem_cons_of_mem _ hq)) hsorted'
      (fun q hq => Nat.le_of_lt (hnext q hq)) hhi
      (by
        intro c hc
        rw [hcov c (by omega)]
        constructor
        · rintro ⟨q, hq, hq1, hq2⟩
          rw [List.mem_cons] at hq
          rcases hq with rfl | hq
          · omega
          · exact ⟨q, hq, hq1, hq2⟩
        · rintro ⟨q, hq, hq1, hq2⟩
          exact ⟨q, List.mem_cons_of_mem _ hq, hq1, hq2⟩)
      hord' hinfo' (by omega)
    have hgapcov : ∀ c, ps ≤ c → c < p.a → cov c = false := by
      intro c hc1 hc2
      cases hcv : cov c with
      | false => rfl
      | true =>
        obtain ⟨q, hq, hq1, hq2⟩ := (hcov c hc1).mp hcv
        rw [List.mem_cons] at hq
        rcases hq with rfl | hq
        · omega
        · have := hnext q hq; omega
    have htcov : ∀ c, p.a ≤ c → c < p.hi → cov c = true := by
      intro c hc1 hc2
      exact (hcov c (by omega)).mpr ⟨p, List.mem_cons_self, hc1, hc2⟩
    have e : k + p.len + 1 + tgtsWidth pre' = k + (p.len + 1 + tgtsWidth pre') := by omega
    refine ⟨ys ++ parts'', ps', src', ?_, ?_, by omega, h2, ?_, by simp, ?_⟩
    · simp only [List.cons_append, List.map_cons, assignBlocksWalk, ATgt.pair, hblk, ne_eq, not_true_eq_false,
        if_false, hstep]
      rw [hwk]
      simp only [List.append_assoc]
    · simp only [tgtsWidth_cons]
      rw [← e]; exact hsrc'
    · intro q hq
      rw [List.mem_cons] at hq
      rcases hq with rfl | hq
      · exact h1
      · exact h3 q hq
    · rw [colsDT_append, h4, hysDT, range'_split3 ps p.a p.hi ps' hpa (Nat.le_of_lt hahi) h1,
        List.map_append, List.map_append, List.append_assoc]
      congr 1
      · apply List.map_congr_left
        intro c hc
        rw [List.mem_range'_1] at hc
        rw [hgapcov c hc.1 (by omega)]; rfl
      · congr 1
        have hlen : p.hi - p.a = p.len + 1 := by simp [ATgt.hi]; omega
        rw [hlen, List.range'_eq_map_range, List.map_map]
        apply List.map_congr_left
        intro i hi
        rw [List.mem_range] at hi
        simp only [Function.comp]
        rw [htcov (p.a + i) (by omega) (by simp [ATgt.hi]; omega), if_pos rfl, ← hblk,
          hord1 i (by omega)]

/-! ### the loop over the blocks -/

theorem assignBlocksGo_spec (resolve : DT → DT → DT) (nullRow scalarRow : Bool) (rps : List Nat) (rows : Nat)
    (hnull : nullRow = true → rps = List.range rows) (isSl : Bool) (values : List (Block α))
    (tinfo : Nat → Nat × Nat) (hvr : ∀ x ∈ colsDT values, x.2.length = rps.length)
    (cov : Nat × Nat → Bool) (ord : Nat × Nat → Nat) (bi : Nat) (bs : List (Block α)) (tgts : List ATgt)
    (k : Nat) (src : List (Block α)) (hsrc : SrcAt values k src)
    (hbs : ∀ b ∈ bs, b.RowsOk rows ∧ 0 < b.width)
    (hok : ∀ t ∈ tgts, bi ≤ t.blk ∧ SelOK isSl t ∧
      ∃ b, bs[t.blk - bi]? = some b ∧ t.hi ≤ b.width ∧ (scalarRow = true → b.is1d = false))
    (hsorted : tgts.Pairwise ALt)
    (hcov : ∀ p : Nat × Nat, bi ≤ p.1 →
      (cov p = true ↔ ∃ t ∈ tgts, t.blk = p.1 ∧ t.a ≤ p.2 ∧ p.2 < t.hi))
    (hord : OrdOk ord tgts k) (hinfo : InfoOk tinfo tgts k)
    (hfit : k + tgtsWidth tgts ≤ (colsDT values).length) :
    ∃ out, assignBlocksGo resolve nullRow scalarRow (.ok rps) bi bs (tgts.map ATgt.pair) src = .ok out ∧
      colsDT out = asgSpec cov ord (asgColB resolve nullRow rps values tinfo) bi bs := by
  induction bs generalizing bi tgts k src with
  | nil => exact ⟨[], by simp [assignBlocksGo], rfl⟩
  | cons b rest ih =>
    obtain ⟨pre, post, rfl, hpre, hpost⟩ := split_targets bi tgts (fun t ht => (hok t ht).1) hsorted
    rw [List.pairwise_append] at hsorted
    obtain ⟨hspre, hspost, hcross⟩ := hsorted
    rw [OrdOk_append] at hord
    obtain ⟨hordpre, hordpost⟩ := hord
    rw [InfoOk_append] at hinfo
    obtain ⟨hinfopre, hinfopost⟩ := hinfo
    rw [tgtsWidth_append] at hfit
    obtain ⟨hbrows, hbw⟩ := hbs b List.mem_cons_self
    have hcovb : ∀ c, cov (bi, c) = true ↔ ∃ p ∈ pre, p.a ≤ c ∧ c < p.hi := by
      intro c
      rw [hcov (bi, c) (Nat.le_refl _)]
      constructor
      · rintro ⟨t, ht, h1, h2⟩
        rw [List.mem_append] at ht
        rcases ht with ht | ht
        · exact ⟨t, ht, h2⟩
        · have := hpost t ht; simp only at h1; omega
      · rintro ⟨t, ht, h2⟩
        exact ⟨t, List.mem_append_left _ ht, hpre t ht, h2⟩
    have hwidth : ∀ p ∈ pre, p.hi ≤ b.width ∧ (scalarRow = true → b.is1d = false) := by
      intro p hp
      obtain ⟨_, _, b', h3, h4, h5⟩ := hok p (List.mem_append_left _ hp)
      rw [hpre p hp, Nat.sub_self, List.getElem?_cons_zero] at h3
      cases h3; exact ⟨h4, h5⟩
    -- an integer row key on a block that no target addresses does no harm: the flag is only read for targets
    have hsc : pre ≠ [] → (scalarRow = true → b.is1d = false) := by
      intro hne
      cases hp : pre with
      | nil => exact absurd hp hne
      | cons p _ => exact (hwidth p (by rw [hp]; exact List.mem_cons_self)).2
    have hwalk : ∃ parts' ps' src', assignBlocksWalk resolve nullRow scalarRow (.ok rps) b bi
          ((pre ++ post).map ATgt.pair) 0 [] src = .ok ([] ++ parts', ps', post.map ATgt.pair, src') ∧
        SrcAt values (k + tgtsWidth pre) src' ∧ 0 ≤ ps' ∧ ps' ≤ b.width ∧ (∀ p ∈ pre, p.hi ≤ ps') ∧
        (pre = [] → ps' = 0) ∧
        colsDT parts' = (List.range' 0 (ps' - 0)).map (fun c =>
          if cov (bi, c) then asgColB resolve nullRow rps values tinfo (ord (bi, c)) (b.dt, b.colsOf.getD c [])
          else (b.dt, b.colsOf.getD c [])) := by
      by_cases hne : pre = []
      · subst hne
        refine ⟨[], 0, src, ?_, by simpa using hsrc, Nat.le_refl _, Nat.zero_le _, by simp, fun _ => rfl, by simp⟩
        cases post with
        | nil => simp [assignBlocksWalk]
        | cons q post' =>
          have hq : q.blk ≠ bi := by have := hpost q List.mem_cons_self; omega
          simp only [List.nil_append, List.map_cons, assignBlocksWalk, ATgt.pair, ne_eq, hq, not_false_eq_true,
            if_true]
      · exact assignBlocksWalk_spec resolve nullRow scalarRow rps rows hnull b hbrows hbw (hsc hne) isSl values
          tinfo hvr bi (fun c => cov (bi, c)) ord pre post 0 [] k src hsrc
          (fun p hp => ⟨hpre p hp, (hok p (List.mem_append_left _ hp)).2.1, (hwidth p hp).1⟩)
          hspre (fun _ _ => Nat.zero_le _) (Nat.zero_le _)
          (by
            intro q hq
            have := hpost q (List.mem_of_mem_head? hq)
            omega)
          (fun c _ => hcovb c) hordpre hinfopre (by omega)
    obtain ⟨parts', ps', src', hwk, hsrc', _, hps'l, hhi, hnil, hparts⟩ := hwalk
    simp only [List.nil_append] at hwk
    obtain ⟨out', hout', hspec'⟩ := ih (bi + 1) post (k + tgtsWidth pre) src' hsrc'
      (fun x hx => hbs x (List.mem_cons_of_mem _ hx))
      (by
        intro t ht
        obtain ⟨h1, h2, b', h3, h4⟩ := hok t (List.mem_append_right _ ht)
        have := hpost t ht
        refine ⟨by omega, h2, b', ?_, h4⟩
        have e : t.blk - bi = (t.blk - (bi + 1)) + 1 := by omega
        rw [e, List.getElem?_cons_succ] at h3
        exact h3)
      hspost
      (by
        intro p hp
        rw [hcov p (by omega)]
        constructor
        · rintro ⟨t, ht, h1, h2⟩
          rw [List.mem_append] at ht
          rcases ht with ht | ht
          · have := hpre t ht; omega
          · exact ⟨t, ht, h1, h2⟩
        · rintro ⟨t, ht, h1, h2⟩
          exact ⟨t, List.mem_append_right _ ht, h1, h2⟩)
      hordpost hinfopost (by omega)
    have hbeyond : ∀ c, ps' ≤ c → cov (bi, c) = false := by
      intro c hc
      cases h : cov (bi, c) with
      | false => rfl
      | true =>
        obtain ⟨p, hp, _, hp2⟩ := (hcovb c).mp h
        have := hhi p hp; omega
    refine ⟨parts' ++ tailPart b ps' ++ out', ?_, ?_⟩
    · simp only [assignBlocksGo, hwk, hout']
    · rw [colsDT_append, colsDT_append, hspec', hparts, tailPart_colsDT b ps' hps'l]
      simp only [asgSpec]
      congr 1
      have hsplit : List.range b.width = List.range' 0 (ps' - 0) ++ List.range' ps' (b.width - ps') := by
        rw [List.range_eq_range']
        have : b.width = (ps' - 0) + (b.width - ps') := by omega
        conv => lhs; rw [this]
        rw [← List.range'_append_1]; simp
      rw [hsplit, List.map_append]
      congr 1
      apply List.map_congr_left
      intro c hc
      rw [List.mem_range'_1] at hc
      rw [hbeyond c hc.1]; rfl

/-! ### the targets of an ascending key are the maximal runs of addressed cells -/

theorem runLens_cons (p : Nat × Nat) (rest : List (Nat × Nat)) :
    runLens (p :: rest) = match rest, runLens rest with
      | q :: _, n :: ns => if q = (p.1, p.2 + 1) then (n + 1) :: ns else 1 :: n :: ns
      | _, _ => [1] := by
  conv => lhs; unfold runLens
  rfl

theorem runLens_ne_nil (q : Nat × Nat) (r : List (Nat × Nat)) : runLens (q :: r) ≠ [] := by
  rw [runLens_cons]
  split
  · split <;> simp
  · simp

theorem runLens_cons_cons (p q : Nat × Nat) (r : List (Nat × Nat)) :
    runLens (p :: q :: r) = match runLens (q :: r) with
      | n :: ns => if q = (p.1, p.2 + 1) then (n + 1) :: ns else 1 :: n :: ns
      | [] => [1] := by
  rw [runLens_cons p (q :: r)]
  cases h : runLens (q :: r) with
  | nil => exact absurd h (runLens_ne_nil q r)
  | cons n ns => rfl

/-- the cells of one target followed by cells that do not continue it: one run -/
theorem runLens_run (blk a len : Nat) (R : List (Nat × Nat))
    (hR : ∀ q, R.head? = some q → q ≠ (blk, a + len + 1)) :
    runLens ((List.range' a (len + 1)).map (fun c => (blk, c)) ++ R) = (len + 1) :: runLens R := by
  induction len generalizing a with
  | zero =>
    simp only [Nat.zero_add, List.range'_one, List.map_cons, List.map_nil, List.cons_append, List.nil_append]
    cases R with
    | nil => simp [runLens]
    | cons q r =>
      have hq := hR q rfl
      rw [runLens_cons_cons]
      cases h : runLens (q :: r) with
      | nil => exact absurd h (runLens_ne_nil q r)
      | cons n ns =>
        simp only
        rw [if_neg (by simpa using hq)]
  | succ len ih =>
    have hstep : (List.range' a (len + 1 + 1)).map (fun c => (blk, c)) ++ R
        = (blk, a) :: ((List.range' (a + 1) (len + 1)).map (fun c => (blk, c)) ++ R) := by
      rw [List.range'_succ]; rfl
    have hih := ih (a + 1) (by
      intro q hq
      have := hR q hq
      intro e; apply this; rw [e]; congr 1; omega)
    rw [hstep]
    have hhead : (List.range' (a + 1) (len + 1)).map (fun c => (blk, c)) ++ R
        = (blk, a + 1) :: ((List.range' (a + 1 + 1) len).map (fun c => (blk, c)) ++ R) := by
      rw [List.range'_succ]; rfl
    rw [hhead] at hih ⊢
    rw [runLens_cons_cons, hih]
    simp

theorem runLens_atgts (ts : List ATgt) (hs : ts.Pairwise ALt) :
    runLens (ts.flatMap ATgt.cells) = ts.map (fun t => t.len + 1) := by
  induction ts with
  | nil => rfl
  | cons p ts ih =>
    rw [List.pairwise_cons] at hs
    obtain ⟨hp, hs'⟩ := hs
    rw [List.flatMap_cons, List.map_cons, ← ih hs']
    apply runLens_run
    intro q hq
    cases ts with
    | nil => simp at hq
    | cons t ts' =>
      have hlt := hp t List.mem_cons_self
      have hq' : q = (t.blk, t.a) := by
        simp only [List.flatMap_cons, ATgt.cells, List.range'_succ, List.map_cons, List.cons_append,
          List.head?_cons, Option.some.injEq] at hq
        exact hq.symm
      rw [hq']
      intro e
      simp only [Prod.mk.injEq] at e
      rcases hlt with h | ⟨_, h⟩
      · omega
      · simp only [ATgt.hi] at h; omega

theorem runInfo_length (k : Nat) (lens : List Nat) : (runInfo k lens).length = lens.sum := by
  induction lens generalizing k with
  | nil => rfl
  | cons n ns ih => simp [runInfo, ih]

theorem infoOk_runInfo (ts : List ATgt) (pre : List (Nat × Nat)) (k : Nat) (hk : pre.length = k) :
    InfoOk (fun m => (pre ++ runInfo k (ts.map (fun t => t.len + 1))).getD m (0, 0)) ts k := by
  induction ts generalizing pre k with
  | nil => trivial
  | cons p ts ih =>
    refine ⟨?_, ?_⟩
    · intro i hi
      simp only [List.map_cons, runInfo, List.getD_eq_getElem?_getD]
      rw [List.getElem?_append_right (by omega), hk, Nat.add_sub_cancel_left,
        List.getElem?_append_left (by simp; omega)]
      simp [show i < p.len + 1 by omega]
    · have := ih (pre ++ List.replicate (p.len + 1) (k, p.len + 1)) (k + p.len + 1) (by simp [hk]; omega)
      simpa only [List.map_cons, runInfo, List.append_assoc, Nat.add_assoc] using this

/-! ### assembly -/

/-- An integer row key addresses a scalar slot of a 1-D target block and NumPy refuses the 1-D value
    there ("setting an array element with a sequence"; for dtype object the array itself becomes
    the cell): with an integer row key every addressed column has to lie in a 2-D block. -/
def IntRowOk (tb : TB α) (rk : Key) (cps : List Nat) : Prop :=
  rk.isMulti = false → ∀ j ∈ cps, ∀ p, tb.index[j]? = some p → ∀ b, tb.blocks[p.1]? = some b → b.is1d = false

theorem colsDT_filter_pos (bs : List (Block α)) :
    colsDT (bs.filter (fun b => decide (0 < b.width))) = colsDT bs := by
  induction bs with
  | nil => rfl
  | cons b rest ih =>
    by_cases hb : 0 < b.width
    · simp only [List.filter_cons, hb, decide_true, if_true, colsDT_cons, ih]
    · have h0 : b.colsDT = [] := List.eq_nil_of_length_eq_zero (by rw [Block.colsDT_length]; omega)
      simp only [List.filter_cons, hb, decide_false, Bool.false_eq_true, if_false, colsDT_cons, ih, h0,
        List.nil_append]

theorem tgtsWidth_eq_sum (ts : List ATgt) : tgtsWidth ts = (ts.map (fun t => t.len + 1)).sum := rfl

/-- `_assign_from_iloc_by_blocks` on the `(dtype, column)` view: exactly the addressed columns are
    rebuilt as the specification says, in place; everything else is carried over. -/
theorem TB.assignBlocks_refines (tb : TB α) (hwf : tb.WF) (hne : tb.blocks ≠ []) (rk ck : Key)
    (rps cps : List Nat) (values : List (Block α)) (resolve : DT → DT → DT)
    (hrk : rk.positions tb.rows = .ok rps) (hck : ck.positions tb.ncols = .ok cps)
    (hs : cps.Pairwise (· < ·)) (hpos : PosW values)
    (hwidth : cps.length ≤ (colsDT values).length)
    (hvr : ∀ v ∈ values, v.RowsOk rps.length) (hint : IntRowOk tb rk cps) :
    ∃ r, tb.assignBlocks rk ck values resolve = .ok r ∧ r.WF ∧ r.rows = tb.rows ∧
      colsDT r.blocks = assignBlocksSpec resolve (rowIsNull rk) rps cps (pick tb.index cps) values
        (colsDT tb.blocks) := by
  obtain ⟨atgts, hk, hok, hsorted, hcells⟩ := tb.assign_atgts hwf ck cps hck hs
  have hcpslt := C04.key_positions_in_range hck
  have hnd : cps.Nodup := hs.imp (fun h => Nat.ne_of_lt h)
  have hpnd := tb.pick_index_nodup hnd
  have hwid : tgtsWidth atgts = cps.length := by
    rw [tgtsWidth_eq_cells, hcells, pick_length]
    intro p hp; rw [index_length]; exact hcpslt p hp
  have hcover : ∀ p : Nat × Nat,
      (∃ t ∈ atgts, t.blk = p.1 ∧ t.a ≤ p.2 ∧ p.2 < t.hi) ↔ ∃ j ∈ cps, tb.index[j]? = some p :=
    fun p => atgts_cover tb atgts cps cps hcells (fun _ => Iff.rfl) p
  have hvr' : ∀ x ∈ colsDT values, x.2.length = rps.length := by
    intro x hx
    simp only [colsDT, List.mem_flatMap, Block.colsDT, List.mem_map] at hx
    obtain ⟨v, hv, c, hc, rfl⟩ := hx
    exact hvr v hv c hc
  let lens := atgts.map (fun t => t.len + 1)
  let tinfo : Nat → Nat × Nat := fun m => (runInfo 0 lens).getD m (0, 0)
  have hinfo : InfoOk tinfo atgts 0 := by
    exact infoOk_runInfo atgts [] 0 rfl
  obtain ⟨out, hout, hspec⟩ := assignBlocksGo_spec resolve (rowIsNull rk) (!rk.isMulti) rps tb.rows
    (fun hn => rowIsNull_positions hn hrk) ck.isMulti values tinfo hvr' (tb.covOf cps)
    (fun p => (pick tb.index cps).idxOf p) 0 tb.blocks atgts 0 values (SrcAt.init values hpos)
    (fun b hb => ⟨hwf.2 b hb, hwf.1 b hb⟩)
    (fun t ht => by
      obtain ⟨h1, b, h2, h3⟩ := hok t ht
      refine ⟨Nat.zero_le _, h1, b, by simpa using h2, h3, ?_⟩
      intro hsr
      have hm : rk.isMulti = false := by simpa using hsr
      -- the first cell of the target is an addressed column of block `b`
      obtain ⟨j, hj, hjp⟩ := (hcover (t.blk, t.a)).mp ⟨t, ht, rfl, Nat.le_refl _, by simp [ATgt.hi]; omega⟩
      exact hint hm j hj (t.blk, t.a) hjp b h2)
    hsorted
    (fun p _ => by rw [tb.covOf_iff, hcover p])
    (by
      have := ordOk_idxOf (pick tb.index cps) hpnd [] atgts (by simp [hcells])
      simpa using this)
    hinfo (by omega)
  rw [tb.asgSpec_eq_mapIdx cps hs hcpslt] at hspec
  rw [← hrk] at hout
  -- the specification, column by column
  have hlens : runLens (pick tb.index cps) = lens := by rw [← hcells]; exact runLens_atgts atgts hsorted
  have hrunlen : (runInfo 0 lens).length = cps.length := by
    rw [runInfo_length, ← hwid]; rfl
  have hspec' : colsDT out = assignBlocksSpec resolve (rowIsNull rk) rps cps (pick tb.index cps) values
      (colsDT tb.blocks) := by
    rw [hspec]
    unfold assignBlocksSpec
    rw [hlens]
    apply List.ext_getElem?
    intro j
    simp only [List.getElem?_mapIdx]
    cases hx : (colsDT tb.blocks)[j]? with
    | none => rfl
    | some x =>
      simp only [Option.map_some]
      by_cases hj : j ∈ cps
      · have hm : cps.idxOf j < cps.length := List.idxOf_lt_length_of_mem hj
        have hv : (values.flatMap (fun v => v.colsOf.map (fun c => (v.dt, c))))[cps.idxOf j]?
            = some ((colsDT values).getD (cps.idxOf j) dfltCol) := by
          show (colsDT values)[cps.idxOf j]? = _
          rw [List.getD_eq_getElem?_getD, List.getElem?_eq_getElem (show cps.idxOf j < (colsDT values).length by omega)]
          rfl
        have hr : (runInfo 0 lens)[cps.idxOf j]? = some (tinfo (cps.idxOf j)) := by
          simp only [tinfo, List.getD_eq_getElem?_getD]
          rw [List.getElem?_eq_getElem (by rw [hrunlen]; exact hm)]
          rfl
        rw [if_pos hj, if_pos hj, hv, hr]
        rfl
      · rw [if_neg hj, if_neg hj]
  -- every yielded column has the row count of the original
  have hcollen : ∀ x ∈ colsDT tb.blocks, x.2.length = tb.rows := by
    intro x hx
    simp only [colsDT, List.mem_flatMap, Block.colsDT, List.mem_map] at hx
    obtain ⟨b, hb, c, hc, rfl⟩ := hx
    exact hwf.2 b hb c hc
  have hrows : ∀ b ∈ out, b.RowsOk tb.rows := by
    intro b hb c hc
    have hmem : (b.dt, c) ∈ colsDT out := by
      simp only [colsDT, List.mem_flatMap]
      exact ⟨b, hb, List.mem_map.mpr ⟨c, hc, rfl⟩⟩
    rw [hspec] at hmem
    obtain ⟨j, hj, hje⟩ := List.getElem_of_mem hmem
    simp only [List.getElem_mapIdx] at hje
    have hx := hcollen _ (List.getElem_mem (l := colsDT tb.blocks) (by simpa using hj))
    split at hje
    · have := congrArg Prod.snd hje
      simp only [asgColB] at this
      rw [← this, writeCol_length]; exact hx
    · have := congrArg Prod.snd hje
      simp only at this
      rw [← this]; exact hx
  have hncols : 0 < (colsDT out).length := by
    rw [hspec, List.length_mapIdx, colsDT_length]
    cases hb : tb.blocks with
    | nil => exact absurd hb hne
    | cons b rest =>
      have := hwf.1 b (by rw [hb]; exact List.mem_cons_self)
      simp; omega
  obtain ⟨rc', acc, hgo⟩ := fromBlocks_go_ok out tb.rows none [] (Or.inl rfl) hrows
  obtain ⟨hrc, _, _, hnone⟩ := fromBlocks_go_spec out none [] rc' acc hgo
  have hemp : tb.blocks.isEmpty = false := by cases hb : tb.blocks <;> simp_all
  cases rc' with
  | none =>
    exfalso
    have h1 := (flatMap_filter_width out).1
    rw [hnone rfl] at h1
    have h2 : (colsDT out).length = 0 := by
      have := congrArg List.length (colsDT_snd out)
      rw [List.length_map, ← h1] at this
      simpa using this
    omega
  | some r' =>
    have hfb : fromBlocks out none = .ok ⟨r', acc⟩ := by
      unfold fromBlocks; rw [hgo]
    obtain ⟨hwf', hcols, hdts⟩ := TB.fromBlocks_spec _ _ _ hfb
    have hcd : colsDT acc = colsDT out := by
      -- `from_blocks` only leaves out arrays without columns
      rw [hrc]; exact colsDT_filter_pos out
    refine ⟨⟨r', acc⟩, ?_, hwf', ?_, ?_⟩
    · simp only [assignBlocks, hemp, Bool.false_eq_true, if_false, hk, hout, hfb]
    · -- the row count `from_blocks` derives is the one of the first stored column
      have h0 : 0 < (colsDT acc).length := by rw [hcd]; exact hncols
      have hmem := List.getElem_mem h0
      have hmem' : (colsDT acc)[0] ∈ colsDT out := by rw [← hcd]; exact hmem
      simp only [colsDT, List.mem_flatMap, Block.colsDT, List.mem_map] at hmem hmem'
      obtain ⟨b, hb, c, hc, he⟩ := hmem
      obtain ⟨b', hb', c', hc', he'⟩ := hmem'
      have hl1 : c.length = r' := hwf'.2 b hb c hc
      have hl2 : c'.length = tb.rows := hrows b' hb' c' hc'
      have : c = c' := by
        have := he.trans he'.symm
        exact (Prod.mk.inj this).2
      show r' = tb.rows
      rw [← hl1, this, hl2]
    · show colsDT acc = _
      rw [hcd, hspec']

/-! ### reading the specification -/

theorem colsDT_eq_zip (bs : List (Block α)) :
    colsDT bs = (bs.flatMap (fun b => List.replicate b.width b.dt)).zip (bs.flatMap Block.colsOf) :=
  List.zip_of_prod (colsDT_fst bs) (colsDT_snd bs)

theorem TB.colsDT_eq_zip (tb : TB α) : colsDT tb.blocks = tb.dtypes.zip tb.cols := SF.colsDT_eq_zip tb.blocks

theorem assignBlocksSpec_length (resolve : DT → DT → DT) (nullRow : Bool) (rps cps : List Nat)
    (cells : List (Nat × Nat)) (values : List (Block α)) (orig : List (DT × List α)) :
    (assignBlocksSpec resolve nullRow rps cps cells values orig).length = orig.length := by
  simp [assignBlocksSpec]

/-- a column that is not addressed is the original one, dtype included -/
theorem assignBlocksSpec_not_mem (resolve : DT → DT → DT) (nullRow : Bool) (rps cps : List Nat)
    (cells : List (Nat × Nat)) (values : List (Block α)) (orig : List (DT × List α)) (j : Nat) (hj : j ∉ cps) :
    (assignBlocksSpec resolve nullRow rps cps cells values orig)[j]? = orig[j]? := by
  simp only [assignBlocksSpec, List.getElem?_mapIdx]
  cases orig[j]? with
  | none => rfl
  | some x => simp [hj]

/-- the cells of the specification: the `m`-th addressed column receives the `m`-th value column in
    the addressed rows — block layouts and dtypes do not enter -/
theorem assignBlocksSpec_snd (resolve : DT → DT → DT) (nullRow : Bool) (rps cps : List Nat)
    (cells : List (Nat × Nat)) (values : List (Block α)) (orig : List (DT × List α)) :
    (assignBlocksSpec resolve nullRow rps cps cells values orig).map Prod.snd
      = (orig.map Prod.snd).mapIdx (fun j c =>
          if j ∈ cps then
            match (values.flatMap Block.colsOf)[cps.idxOf j]? with
            | some vc => writeCol c rps vc
            | none => c
          else c) := by
  apply List.ext_getElem?
  intro j
  simp only [assignBlocksSpec, List.getElem?_map, List.getElem?_mapIdx]
  cases orig[j]? with
  | none => rfl
  | some x =>
    simp only [Option.map_some]
    by_cases hj : j ∈ cps
    · rw [if_pos hj, if_pos hj]
      have hv : (values.flatMap Block.colsOf)[cps.idxOf j]?
          = ((values.flatMap (fun v => v.colsOf.map (fun c => (v.dt, c))))[cps.idxOf j]?).map Prod.snd := by
        rw [← List.getElem?_map]
        congr 1
        exact (colsDT_snd values).symm
      rw [hv]
      cases (values.flatMap (fun v => v.colsOf.map (fun c => (v.dt, c))))[cps.idxOf j]? with
      | none => rfl
      | some vc => rfl
    · rw [if_neg hj, if_neg hj]

end SF
