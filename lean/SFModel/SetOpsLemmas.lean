/- Helper lemmas for SFModel.SetOps (set functions, positions, gather / scatter, correspondence). -/
import SFModel.SetOps

namespace SF
namespace SetOps

section
variable {α : Type} [DecidableEq α]

/-! ### dedup / sortDedup -/

theorem mem_dedup {x : α} {l : List α} : x ∈ dedup l ↔ x ∈ l := by
  induction l with
  | nil => simp [dedup]
  | cons y ys ih =>
    unfold dedup
    split
    · rename_i hy
      rw [ih]
      constructor
      · intro h; exact List.mem_cons_of_mem _ h
      · intro h
        rcases List.mem_cons.mp h with rfl | h
        · exact hy
        · exact h
    · simp [ih]

theorem nodup_dedup (l : List α) : (dedup l).Nodup := by
  induction l with
  | nil => simp [dedup]
  | cons y ys ih =>
    unfold dedup
    split
    · exact ih
    · rename_i hy
      refine List.nodup_cons.mpr ⟨?_, ih⟩
      rw [mem_dedup]; exact hy

theorem dedup_of_nodup {l : List α} (h : l.Nodup) : dedup l = l := by
  induction l with
  | nil => rfl
  | cons y ys ih =>
    have := List.nodup_cons.mp h
    unfold dedup
    rw [if_neg this.1, ih this.2]

omit [DecidableEq α] in
theorem insertBy_perm (le : α → α → Bool) (x : α) (l : List α) : (insertBy le x l).Perm (x :: l) := by
  induction l with
  | nil => exact List.Perm.refl _
  | cons y ys ih =>
    unfold insertBy
    split
    · exact List.Perm.refl _
    · exact ((List.Perm.cons y ih).trans (List.Perm.swap x y ys))

omit [DecidableEq α] in
theorem sortBy_perm (le : α → α → Bool) (l : List α) : (sortBy le l).Perm l := by
  induction l with
  | nil => exact List.Perm.refl _
  | cons x xs ih => exact (insertBy_perm le x _).trans (List.Perm.cons x ih)

omit [DecidableEq α] in
theorem insertBy_sorted (le : α → α → Bool) (htot : ∀ a b, le a b = true ∨ le b a = true)
    (htrans : ∀ a b c, le a b = true → le b c = true → le a c = true) (x : α) (l : List α)
    (h : l.Pairwise (fun a b => le a b = true)) : (insertBy le x l).Pairwise (fun a b => le a b = true) := by
  induction l with
  | nil => simp [insertBy]
  | cons y ys ih =>
    have hy := List.pairwise_cons.mp h
    unfold insertBy
    split
    · rename_i hxy
      refine List.pairwise_cons.mpr ⟨?_, h⟩
      intro z hz
      rcases List.mem_cons.mp hz with rfl | hz
      · exact hxy
      · exact htrans _ _ _ hxy (hy.1 z hz)
    · rename_i hxy
      refine List.pairwise_cons.mpr ⟨?_, ih hy.2⟩
      intro z hz
      have := (insertBy_perm le x ys).mem_iff.mp hz
      rcases List.mem_cons.mp this with rfl | hz'
      · rcases htot z y with h1 | h1
        · exact absurd h1 hxy
        · exact h1
      · exact hy.1 z hz'

omit [DecidableEq α] in
theorem sortBy_sorted (le : α → α → Bool) (htot : ∀ a b, le a b = true ∨ le b a = true)
    (htrans : ∀ a b c, le a b = true → le b c = true → le a c = true) (l : List α) :
    (sortBy le l).Pairwise (fun a b => le a b = true) := by
  induction l with
  | nil => simp [sortBy]
  | cons x xs ih => exact insertBy_sorted le htot htrans x _ ih

theorem mem_sortDedup {o : PyOrd α} {x : α} {l : List α} : x ∈ sortDedup o l ↔ x ∈ l := by
  unfold sortDedup
  rw [(sortBy_perm _ _).mem_iff, mem_dedup]

theorem nodup_sortDedup (o : PyOrd α) (l : List α) : (sortDedup o l).Nodup := by
  unfold sortDedup
  rw [(sortBy_perm _ _).nodup_iff]
  exact nodup_dedup l

/-! ### arraysEqual -/

theorem arraysEqual_iff {a b : List α} (h : a.length = b.length) : arraysEqual a b = true ↔ a = b := by
  induction a generalizing b with
  | nil =>
    cases b with
    | nil => simp [arraysEqual]
    | cons _ _ => simp at h
  | cons x xs ih =>
    cases b with
    | nil => simp at h
    | cons y ys =>
      have h' : xs.length = ys.length := by simpa using h
      have := ih h'
      simp only [arraysEqual, List.zipWith_cons_cons, List.all_cons, id, Bool.and_eq_true,
        decide_eq_true_eq, List.cons.injEq] at this ⊢
      rw [this]

theorem arraysEqual_self (a : List α) : arraysEqual a a = true := (arraysEqual_iff rfl).mpr rfl

/-! ### NumPy set functions and the frozenset path -/

theorem mem_npUnion {o : PyOrd α} {x : α} {a b : List α} : x ∈ npUnion o a b ↔ x ∈ a ∨ x ∈ b := by
  simp [npUnion, mem_sortDedup]

theorem mem_npIntersect {o : PyOrd α} {x : α} {a b : List α} :
    x ∈ npIntersect o a b ↔ x ∈ a ∧ x ∈ b := by
  simp [npIntersect, mem_sortDedup, List.mem_filter]

theorem mem_npSetdiff {o : PyOrd α} {x : α} {a b : List α} {au : Bool} :
    x ∈ npSetdiff o a b au ↔ x ∈ a ∧ x ∉ b := by
  cases au <;> simp [npSetdiff, mem_sortDedup, List.mem_filter]

theorem nodup_npSetdiff {o : PyOrd α} {a b : List α} {au : Bool} (ha : a.Nodup) :
    (npSetdiff o a b au).Nodup := by
  unfold npSetdiff
  cases au
  · exact List.Pairwise.filter _ (nodup_sortDedup o a)
  · exact List.Pairwise.filter _ ha

theorem mem_pySetOp {op : SetOp} {x : α} {a b : List α} :
    x ∈ pySetOp op a b ↔
      match op with
      | .union => x ∈ a ∨ x ∈ b
      | .inter => x ∈ a ∧ x ∈ b
      | .diff => x ∈ a ∧ x ∉ b := by
  cases op <;> simp [pySetOp, mem_dedup, List.mem_filter]

theorem nodup_pySetOp (op : SetOp) (a b : List α) : (pySetOp op a b).Nodup := by
  cases op <;> exact nodup_dedup _

omit [DecidableEq α] in
theorem trySorted_perm (o : PyOrd α) (l : List α) : (trySorted o l).Perm l := by
  unfold trySorted
  split
  · exact sortBy_perm _ _
  · exact List.Perm.refl _

theorem pySetPath_perm {o : PyOrd α} (ho : o.Lawful) (op : SetOp) (a b : List α) :
    (pySetPath o op a b).Perm (pySetOp op a b) :=
  (trySorted_perm o _).trans (ho _)

/-- the set-algebra predicate of an operation -/
def SetOp.holds (op : SetOp) (x : α) (a b : List α) : Prop :=
  match op with
  | .union => x ∈ a ∨ x ∈ b
  | .inter => x ∈ a ∧ x ∈ b
  | .diff => x ∈ a ∧ x ∉ b

theorem mem_pySetPath {o : PyOrd α} (ho : o.Lawful) {op : SetOp} {x : α} {a b : List α} :
    x ∈ pySetPath o op a b ↔ op.holds x a b := by
  rw [(pySetPath_perm ho op a b).mem_iff, mem_pySetOp]
  cases op <;> rfl

theorem nodup_pySetPath {o : PyOrd α} (ho : o.Lawful) (op : SetOp) (a b : List α) :
    (pySetPath o op a b).Nodup := by
  rw [(pySetPath_perm ho op a b).nodup_iff]
  exact nodup_pySetOp op a b

/-! ### the general (non-shortcut) tail of `_ufunc_set_1d` -/

/-- what `_ufunc_set_1d` / `_ufunc_set_2d` do once no shortcut applies -/
def setTail (o : PyOrd α) (op : SetOp) (usePySet : Bool) (a b : List α) (au : Bool) : List α :=
  if usePySet then pySetPath o op a b
  else
    match op with
    | .union => npUnion o a b
    | .inter => npIntersect o a b
    | .diff => npSetdiff o a b au

theorem mem_setTail {o : PyOrd α} (ho : o.Lawful) {op : SetOp} {p : Bool} {x : α} {a b : List α} {au : Bool} :
    x ∈ setTail o op p a b au ↔ op.holds x a b := by
  unfold setTail
  split
  · exact mem_pySetPath ho
  · cases op
    · exact mem_npUnion
    · exact mem_npIntersect
    · exact mem_npSetdiff

theorem nodup_setTail {o : PyOrd α} (ho : o.Lawful) {op : SetOp} {p : Bool} {a b : List α} {au : Bool}
    (ha : a.Nodup) : (setTail o op p a b au).Nodup := by
  unfold setTail
  split
  · exact nodup_pySetPath ho op a b
  · cases op
    · exact nodup_sortDedup _ _
    · exact nodup_sortDedup _ _
    · exact nodup_npSetdiff ha

/-- the shared shortcut tree of `_ufunc_set_1d` and `_ufunc_set_2d` -/
def setCore (o : PyOrd α) (op : SetOp) (usePySet : Bool) (a b : List α) (au : Bool) : List α :=
  if op = .inter ∧ (a.length = 0 ∨ b.length = 0) then []
  else if op = .diff ∧ a.length = 0 then []
  else
    let short : Option (List α) :=
      if au then
        if op = .union ∧ a.length = 0 then some b
        else if op = .union ∧ b.length = 0 then some a
        else if op = .diff ∧ b.length = 0 then some a
        else if a.length = b.length ∧ arraysEqual a b = true then
          some (if op = .diff then [] else a)
        else none
      else none
    match short with
    | some r => r
    | none => setTail o op usePySet a b au

theorem ufuncSet1d_eq_core (o : PyOrd α) (op : SetOp) (ka kb : Kind) (a b : List α) (au : Bool) :
    ufuncSet1d o op ka kb a b au =
      setCore o op (((ka == .str) != (kb == .str)) || decide (resolveKind ka kb = .obj)) a b au := by
  unfold ufuncSet1d setCore setTail
  simp only [Bool.or_eq_true, decide_eq_true_eq]
  rfl

theorem ufuncSet2d_eq_core (o : PyOrd (List α)) (op : SetOp) (ka kb : Kind) (a b : List (List α))
    (au : Bool) :
    ufuncSet2d o op ka kb a b au = setCore o op (decide (resolveKind ka kb = .obj)) a b au := by
  by_cases h : resolveKind ka kb = .obj
  · simp only [ufuncSet2d, setCore, setTail, h, decide_true, if_true]
    delta ufuncSet2d.match_1 setCore.match_1
    rfl
  · simp only [ufuncSet2d, setCore, setTail, h, decide_false, if_false]
    delta ufuncSet2d.match_1 setCore.match_1
    rfl

omit [DecidableEq α] in
theorem length_zero_iff {l : List α} : l.length = 0 ↔ l = [] := List.length_eq_zero_iff

/-- Membership and uniqueness for every branch of the shortcut tree. -/
theorem setCore_spec {o : PyOrd α} (ho : o.Lawful) (op : SetOp) (p : Bool) {a b : List α} {au : Bool}
    (ha : a.Nodup) (hb : au = true → b.Nodup) :
    (∀ x, x ∈ setCore o op p a b au ↔ op.holds x a b) ∧ (setCore o op p a b au).Nodup := by
  unfold setCore
  split
  · rename_i h
    obtain ⟨rfl, h⟩ := h
    refine ⟨fun x => ?_, List.nodup_nil⟩
    simp only [SetOp.holds]
    rcases h with h | h <;> simp [length_zero_iff.mp h]
  · split
    · rename_i h
      obtain ⟨rfl, h⟩ := h
      refine ⟨fun x => ?_, List.nodup_nil⟩
      simp [SetOp.holds, length_zero_iff.mp h]
    · cases au with
      | false =>
        simp only [Bool.false_eq_true, if_false]
        exact ⟨fun x => mem_setTail ho, nodup_setTail ho ha⟩
      | true =>
        have hb' := hb rfl
        simp only [if_true]
        split
        · rename_i r hr
          split at hr
          · rename_i h
            obtain ⟨rfl, h⟩ := h
            cases hr
            refine ⟨fun x => ?_, hb'⟩
            simp [SetOp.holds, length_zero_iff.mp h]
          · split at hr
            · rename_i h
              obtain ⟨rfl, h⟩ := h
              cases hr
              refine ⟨fun x => ?_, ha⟩
              simp [SetOp.holds, length_zero_iff.mp h]
            · split at hr
              · rename_i h
                obtain ⟨rfl, h⟩ := h
                cases hr
                refine ⟨fun x => ?_, ha⟩
                simp [SetOp.holds, length_zero_iff.mp h]
              · split at hr
                · rename_i h
                  have hab : a = b := (arraysEqual_iff h.1).mp h.2
                  subst hab
                  cases hr
                  cases op
                  · exact ⟨fun x => by simp [SetOp.holds], ha⟩
                  · exact ⟨fun x => by simp [SetOp.holds], ha⟩
                  · exact ⟨fun x => by simp [SetOp.holds], List.nodup_nil⟩
                · cases hr
        · exact ⟨fun x => mem_setTail ho, nodup_setTail ho ha⟩

/-- Identical operands (assumed unique) come back unchanged, in their order. -/
theorem setCore_self {o : PyOrd α} (op : SetOp) (p : Bool) (a : List α) :
    setCore o op p a a true = if op = .diff then [] else a := by
  unfold setCore
  cases a with
  | nil => cases op <;> simp
  | cons x xs => cases op <;> simp [arraysEqual_self]

/-! ### positions -/

theorem posOf_eq_some {ls : List α} {x : α} {i : Nat} :
    posOf ls x = some i ↔ x ∈ ls ∧ i = ls.idxOf x := by
  unfold posOf
  split <;> simp_all [eq_comm]

theorem posOf_eq_none {ls : List α} {x : α} : posOf ls x = none ↔ x ∉ ls := by
  unfold posOf
  split <;> simp_all

theorem posOf_of_mem {ls : List α} {x : α} (h : x ∈ ls) : posOf ls x = some (ls.idxOf x) := by
  simp [posOf, h]

theorem idxOf_inj {ls : List α} {x y : α} (hx : x ∈ ls) (h : ls.idxOf x = ls.idxOf y) : x = y := by
  have hlt : ls.idxOf x < ls.length := List.idxOf_lt_length_iff.mpr hx
  have h1 := List.getElem_idxOf hlt
  have hlt' : ls.idxOf y < ls.length := h ▸ hlt
  have h2 := List.getElem_idxOf hlt'
  rw [← h1, ← h2]
  congr 1

theorem locsOf_of_subset {ls ks : List α} (h : ∀ k ∈ ks, k ∈ ls) :
    locsOf ls ks = some (ks.map (ls.idxOf ·)) := by
  induction ks with
  | nil => rfl
  | cons k ks ih =>
    have hk : k ∈ ls := h k (by simp)
    simp [locsOf, posOf_of_mem hk, ih (fun k' hk' => h k' (by simp [hk']))]

end

section
variable {α β : Type} [DecidableEq α]

/-! ### lookup / gather / scatter -/

theorem lookup_of_mem {ls : List α} {vs : List β} {l : α} (h : l ∈ ls) :
    lookup ls vs l = vs[ls.idxOf l]? := by
  simp [lookup, posOf_of_mem h]

theorem lookup_of_not_mem {ls : List α} {vs : List β} {l : α} (h : l ∉ ls) :
    lookup ls vs l = none := by
  simp [lookup, posOf_eq_none.mpr h]

theorem lookup_isSome {ls : List α} {vs : List β} {l : α} (h : l ∈ ls) (hl : vs.length = ls.length) :
    ∃ v, lookup ls vs l = some v := by
  rw [lookup_of_mem h]
  have : ls.idxOf l < vs.length := hl ▸ List.idxOf_lt_length_iff.mpr h
  exact ⟨vs[ls.idxOf l], List.getElem?_eq_getElem this⟩

theorem lookup_cons {a l : α} {as : List α} {v : β} {vs : List β} :
    lookup (a :: as) (v :: vs) l = if a = l then some v else lookup as vs l := by
  by_cases hal : a = l
  · subst hal
    simp [lookup, posOf]
  · by_cases hl : l ∈ as
    · have hl' : l ∈ a :: as := List.mem_cons_of_mem _ hl
      rw [lookup_of_mem hl', lookup_of_mem hl, if_neg hal]
      rw [List.idxOf_cons]
      have : (a == l) = false := by simpa using hal
      simp [this]
    · have hl' : l ∉ a :: as := by
        intro h; rcases List.mem_cons.mp h with h | h
        · exact hal h.symm
        · exact hl h
      rw [lookup_of_not_mem hl', lookup_of_not_mem hl, if_neg hal]

theorem gather_eq_some_length {vs : List β} {is : List Nat} {g : List β} (h : gather vs is = some g) :
    g.length = is.length := by
  induction is generalizing g with
  | nil => simp [gather] at h; subst h; rfl
  | cons i is ih =>
    unfold gather at h
    split at h
    · rename_i v r hv hr
      cases h
      simp [ih hr]
    · cases h

theorem gather_getElem? {vs : List β} {is : List Nat} {g : List β} (h : gather vs is = some g)
    (k : Nat) (hk : k < is.length) : g[k]? = vs[is[k]]? ∧ (vs[is[k]]?).isSome := by
  induction is generalizing g k with
  | nil => simp at hk
  | cons i is ih =>
    unfold gather at h
    split at h
    · rename_i v r hv hr
      cases h
      cases k with
      | zero => simp [hv]
      | succ k =>
        have := ih hr k (by simpa using hk)
        simpa using this
    · cases h

theorem gather_isSome {vs : List β} {is : List Nat} (h : ∀ i ∈ is, i < vs.length) :
    ∃ g, gather vs is = some g := by
  induction is with
  | nil => exact ⟨[], rfl⟩
  | cons i is ih =>
    obtain ⟨g, hg⟩ := ih (fun j hj => h j (by simp [hj]))
    have hi : i < vs.length := h i (by simp)
    exact ⟨vs[i] :: g, by simp [gather, hg, List.getElem?_eq_getElem hi]⟩

/-- Gathering the positions of labels = looking the labels up. -/
theorem gather_locs {ls : List α} {vs : List β} (hl : vs.length = ls.length) {ks : List α}
    (hk : ∀ k ∈ ks, k ∈ ls) :
    ∃ g, gather vs (ks.map (ls.idxOf ·)) = some g ∧ g.length = ks.length ∧
      ∀ (j : Nat) (hj : j < ks.length), g[j]? = lookup ls vs ks[j] := by
  have hr : ∀ i ∈ ks.map (ls.idxOf ·), i < vs.length := by
    intro i hi
    obtain ⟨k, hk', rfl⟩ := List.mem_map.mp hi
    exact hl ▸ List.idxOf_lt_length_iff.mpr (hk k hk')
  obtain ⟨g, hg⟩ := gather_isSome hr
  refine ⟨g, hg, by simpa using gather_eq_some_length hg, ?_⟩
  intro j hj
  have := (gather_getElem? hg j (by simpa using hj)).1
  rw [this, lookup_of_mem (hk _ (List.getElem_mem hj))]
  simp

theorem scatter_length {base : List β} {is : List Nat} {vs out : List β}
    (h : scatter base is vs = some out) : out.length = base.length := by
  induction is generalizing base vs with
  | nil =>
    cases vs with
    | nil => simp [scatter] at h; subst h; rfl
    | cons _ _ => simp [scatter] at h
  | cons i is ih =>
    cases vs with
    | nil => simp [scatter] at h
    | cons v vs =>
      unfold scatter at h
      split at h
      · have := ih h
        simpa using this
      · cases h

theorem scatter_isSome {base : List β} {is : List Nat} {vs : List β}
    (hlen : is.length = vs.length) (hr : ∀ i ∈ is, i < base.length) :
    ∃ out, scatter base is vs = some out := by
  induction is generalizing base vs with
  | nil =>
    cases vs with
    | nil => exact ⟨base, rfl⟩
    | cons _ _ => simp at hlen
  | cons i is ih =>
    cases vs with
    | nil => simp at hlen
    | cons v vs =>
      have hi : i < base.length := hr i (by simp)
      unfold scatter
      rw [if_pos hi]
      apply ih (by simpa using hlen)
      intro j hj
      simpa using hr j (by simp [hj])

/-- Positions not written keep the base value. -/
theorem scatter_getElem?_not_mem {base : List β} {is : List Nat} {vs out : List β}
    (h : scatter base is vs = some out) {j : Nat} (hj : j ∉ is) : out[j]? = base[j]? := by
  induction is generalizing base vs with
  | nil =>
    cases vs with
    | nil => simp [scatter] at h; subst h; rfl
    | cons _ _ => simp [scatter] at h
  | cons i is ih =>
    cases vs with
    | nil => simp [scatter] at h
    | cons v vs =>
      unfold scatter at h
      split at h
      · have hji : j ∉ is := fun hh => hj (by simp [hh])
        rw [ih h hji, List.getElem?_set]
        have : i ≠ j := fun hh => hj (by simp [hh])
        simp [this]
      · cases h

/-- A written position (positions distinct) holds the value written there. -/
theorem scatter_getElem?_mem {base : List β} {is : List Nat} {vs out : List β}
    (h : scatter base is vs = some out) (hnd : is.Nodup) (k : Nat) (hk : k < is.length) :
    out[is[k]]? = vs[k]? := by
  induction is generalizing base vs k with
  | nil => simp at hk
  | cons i is ih =>
    cases vs with
    | nil => simp [scatter] at h
    | cons v vs =>
      unfold scatter at h
      split at h
      · rename_i hi
        have hnd' := List.nodup_cons.mp hnd
        cases k with
        | zero =>
          simp only [List.getElem_cons_zero, List.getElem?_cons_zero]
          rw [scatter_getElem?_not_mem h hnd'.1, List.getElem?_set]
          simp [hi]
        | succ k =>
          have := ih h hnd'.2 k (by simpa using hk)
          simpa using this
      · cases h

end


section
variable {α β : Type} [DecidableEq α]

/-! ### pigeonhole, distinct positions -/

theorem subset_of_nodup_length_ge {c d : List α} (hc : c.Nodup) (hsub : ∀ x ∈ c, x ∈ d)
    (hlen : d.length ≤ c.length) : ∀ x ∈ d, x ∈ c := by
  induction c generalizing d with
  | nil =>
    have : d = [] := List.length_eq_zero_iff.mp (by simpa using hlen)
    subst this; simp
  | cons x c ih =>
    have hnd := List.nodup_cons.mp hc
    have hxd : x ∈ d := hsub x (by simp)
    have hsub' : ∀ y ∈ c, y ∈ d.erase x := by
      intro y hy
      have hne : y ≠ x := fun h => hnd.1 (h ▸ hy)
      exact (List.mem_erase_of_ne hne).mpr (hsub y (by simp [hy]))
    have hlen' : (d.erase x).length ≤ c.length := by
      rw [List.length_erase_of_mem hxd]
      simp at hlen; omega
    intro z hz
    by_cases hzx : z = x
    · simp [hzx]
    · have := ih hnd.2 hsub' hlen' z ((List.mem_erase_of_ne hzx).mpr hz)
      simp [this]

theorem nodup_map_idxOf {ls ks : List α} (hk : ks.Nodup) (hsub : ∀ k ∈ ks, k ∈ ls) :
    (ks.map (ls.idxOf ·)).Nodup := by
  rw [List.nodup_iff_pairwise_ne, List.pairwise_map]
  refine List.Pairwise.imp_of_mem ?_ (List.nodup_iff_pairwise_ne.mp hk)
  intro a b ha _ hab h
  exact hab (idxOf_inj (hsub a ha) h)

theorem lookup_getElem_of_nodup {ls : List α} {vs : List β} (hn : ls.Nodup) (i : Nat) (hi : i < ls.length) :
    lookup ls vs ls[i] = vs[i]? := by
  rw [lookup_of_mem (List.getElem_mem hi), hn.idxOf_getElem i hi]

/-- `lookup` through positions: reading `out` at the position of a label. -/
theorem lookup_eq_getElem? {ls : List α} {vs : List β} {l : α} (h : l ∈ ls) :
    lookup ls vs l = vs[ls.idxOf l]? := lookup_of_mem h

/-! ### correspondence + reindex of one array -/

theorem common_spec {o : PyOrd α} (ho : o.Lawful) (src dst : Idx α) (hs : src.labels.Nodup)
    (hd : dst.labels.Nodup) :
    let common := ufuncSet1d o .inter src.kind dst.kind src.labels dst.labels true
    (∀ x, x ∈ common ↔ x ∈ src.labels ∧ x ∈ dst.labels) ∧ common.Nodup := by
  intro common
  have := setCore_spec ho .inter
    (((src.kind == .str) != (dst.kind == .str)) || decide (resolveKind src.kind dst.kind = .obj))
    (a := src.labels) (b := dst.labels) (au := true) hs (fun _ => hd)
  rw [← ufuncSet1d_eq_core] at this
  exact this

/-- Every branch of `from_correspondence` + the array part of `reindex`: no error, and each
    label of the new index holds the old value when the label existed, else the fill value. -/
theorem reindexValues_spec {o : PyOrd α} (ho : o.Lawful) (src dst : Idx α) (vs : List β) (fill : β)
    (hs : src.labels.Nodup) (hd : dst.labels.Nodup) (hl : vs.length = src.labels.length) :
    ∃ ic out, fromCorrespondence o src dst = some ic ∧ ic.size = dst.labels.length ∧
      reindexValues ic fill vs = some out ∧
      out.length = dst.labels.length ∧
      ∀ l ∈ dst.labels, lookup dst.labels out l = some ((lookup src.labels vs l).getD fill) := by
  obtain ⟨hmem, hnd⟩ := common_spec ho src dst hs hd
  unfold fromCorrespondence
  generalize ufuncSet1d o .inter src.kind dst.kind src.labels dst.labels true = common at hmem hnd
  simp only []
  have hcs : ∀ k ∈ common, k ∈ src.labels := fun k hk => ((hmem k).mp hk).1
  have hcd : ∀ k ∈ common, k ∈ dst.labels := fun k hk => ((hmem k).mp hk).2
  by_cases hc : common.length > 0
  · rw [if_pos (by simpa using hc)]
    by_cases hfull : common.length = dst.labels.length
    · -- the new index is a reordering / subset of the old one
      rw [if_pos hfull]
      have hds : ∀ k ∈ dst.labels, k ∈ src.labels := by
        intro k hk
        exact hcs k (subset_of_nodup_length_ge hnd hcd (by omega) k hk)
      rw [locsOf_of_subset hds]
      obtain ⟨g, hg, hgl, hgj⟩ := gather_locs hl hds
      refine ⟨_, g, rfl, rfl, ?_, hgl, ?_⟩
      · simp [reindexValues, hg]
      · intro l hl'
        have hi : dst.labels.idxOf l < dst.labels.length := List.idxOf_lt_length_iff.mpr hl'
        rw [lookup_of_mem hl', hgj _ hi, List.getElem_idxOf hi]
        obtain ⟨v, hv⟩ := lookup_isSome (hds l hl') hl
        simp [hv]
    · rw [if_neg hfull, locsOf_of_subset hcs, locsOf_of_subset hcd]
      obtain ⟨g, hg, hgl, hgj⟩ := gather_locs hl hcs
      have hpos : ∀ i ∈ common.map (dst.labels.idxOf ·), i < (List.replicate dst.labels.length fill).length := by
        intro i hi
        obtain ⟨k, hk, rfl⟩ := List.mem_map.mp hi
        simpa using List.idxOf_lt_length_iff.mpr (hcd k hk)
      obtain ⟨out, hout⟩ := scatter_isSome (base := List.replicate dst.labels.length fill)
        (is := common.map (dst.labels.idxOf ·)) (vs := g) (by simp [hgl]) hpos
      have hol : out.length = dst.labels.length := by simpa using scatter_length hout
      refine ⟨_, out, rfl, rfl, ?_, hol, ?_⟩
      · simp [reindexValues, hg, hout]
      · intro l hl'
        rw [lookup_of_mem hl']
        by_cases hlc : l ∈ common
        · have hk : common.idxOf l < common.length := List.idxOf_lt_length_iff.mpr hlc
          have hk' : common.idxOf l < (common.map (dst.labels.idxOf ·)).length := by simpa using hk
          have h1 := scatter_getElem?_mem hout (nodup_map_idxOf hnd hcd) (common.idxOf l) hk'
          simp only [List.getElem_map, List.getElem_idxOf hk] at h1
          rw [h1, hgj _ hk, List.getElem_idxOf hk]
          obtain ⟨v, hv⟩ := lookup_isSome (hcs l hlc) hl
          simp [hv]
        · have hls : l ∉ src.labels := fun h => hlc ((hmem l).mpr ⟨h, hl'⟩)
          have hni : dst.labels.idxOf l ∉ common.map (dst.labels.idxOf ·) := by
            intro h
            obtain ⟨k, hk, hkk⟩ := List.mem_map.mp h
            exact hlc (idxOf_inj (hcd k hk) hkk ▸ hk)
          rw [scatter_getElem?_not_mem hout hni, lookup_of_not_mem hls]
          have hi : dst.labels.idxOf l < dst.labels.length := List.idxOf_lt_length_iff.mpr hl'
          simp [hi]
  · rw [if_neg (by simpa using hc)]
    refine ⟨_, List.replicate dst.labels.length fill, rfl, rfl, by simp [reindexValues], by simp, ?_⟩
    intro l hl'
    have hce : common = [] := List.length_eq_zero_iff.mp (by omega)
    have hls : l ∉ src.labels := fun h => by
      have := (hmem l).mpr ⟨h, hl'⟩
      simp [hce] at this
    have hi : dst.labels.idxOf l < dst.labels.length := List.idxOf_lt_length_iff.mpr hl'
    rw [lookup_of_mem hl', lookup_of_not_mem hls]
    simp [hi]

end

end SetOps
end SF
