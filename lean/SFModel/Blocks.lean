/-
  SFModel.Blocks — model of `TypeBlocks` (static_frame/core/type_blocks.py): a list of typed
  blocks, each 1-D (one column) or 2-D (width ≥ 1, column-major here), with the derived directory
  `_index : column position ↦ (block, column in block)`.

  Abstraction function: `TB.cols` (the plain list of columns).  Every operation is mirrored as the
  code performs it (per-block generators consuming an ascending iterator of `(block, slice|int)`
  targets) and proved equal, on `cols`, to the obvious list operation — so the block layout is
  unobservable (C03) and functional updates touch only what they address (C08).

  NumPy indexing of ONE block (`b[rows, cols]`) is a parameter of the model: it is list selection.
-/
import SFModel.Slice

namespace SF

/-- dtype is an opaque token here (the DType model lives in DType.lean). -/
abbrev DT := String

inductive Block (α : Type) where
  | d1 (dt : DT) (col : List α)
  | d2 (dt : DT) (cols : List (List α))
deriving Repr, DecidableEq, Inhabited

namespace Block
variable {α : Type}

def width : Block α → Nat
  | d1 _ _ => 1
  | d2 _ cs => cs.length

def colsOf : Block α → List (List α)
  | d1 _ c => [c]
  | d2 _ cs => cs

def dt : Block α → DT
  | d1 t _ => t
  | d2 t _ => t

def is1d : Block α → Bool
  | d1 _ _ => true
  | d2 _ _ => false

/-- number of rows of a block; a 2-D block of width 0 has no columns to measure, so `none`. -/
def rows? : Block α → Option Nat
  | d1 _ c => some c.length
  | d2 _ [] => none
  | d2 _ (c :: _) => some c.length

/-- all columns have `n` rows -/
def RowsOk (n : Nat) (b : Block α) : Prop := ∀ c ∈ b.colsOf, c.length = n

end Block

structure TB (α : Type) where
  rows : Nat
  blocks : List (Block α)
deriving Repr, DecidableEq, Inhabited

namespace TB
variable {α : Type}

/-- abstraction: the columns, left to right -/
def cols (tb : TB α) : List (List α) := tb.blocks.flatMap Block.colsOf

/-- `_dtypes`: one dtype per column -/
def dtypes (tb : TB α) : List DT := tb.blocks.flatMap (fun b => List.replicate b.width b.dt)

def ncols (tb : TB α) : Nat := (tb.blocks.map Block.width).sum

/-- `_index`: column position ↦ (block index, column within block) -/
def indexFrom : Nat → List (Block α) → List (Nat × Nat)
  | _, [] => []
  | bi, b :: rest => (List.range b.width).map (fun c => (bi, c)) ++ indexFrom (bi + 1) rest

def index (tb : TB α) : List (Nat × Nat) := indexFrom 0 tb.blocks

/-- well-formed: no zero-width block is stored and every column has `rows` cells -/
def WF (tb : TB α) : Prop :=
  (∀ b ∈ tb.blocks, 0 < b.width) ∧ (∀ b ∈ tb.blocks, b.RowsOk tb.rows)

/-- `TypeBlocks.from_blocks(iterable, shape_reference)`: drops zero-width blocks, checks the row
    counts agree, takes the row count from the reference when there is no block at all. -/
def fromBlocks (bs : List (Block α)) (shapeRef : Option Nat) : Except Err (TB α) :=
  let rec go : List (Block α) → Option Nat → List (Block α) → Except Err (Option Nat × List (Block α))
    | [], rc, acc => .ok (rc, acc.reverse)
    | b :: rest, rc, acc =>
      -- shape_filter: a 1-D array of length r is (r, 1); a 2-D array reports its own rows
      match b with
      | .d1 _ c =>
        (match rc with
         | some r => if c.length ≠ r then .error .init else go rest (some r) (b :: acc)
         | none => go rest (some c.length) (b :: acc))
      | .d2 _ [] => go rest rc acc      -- zero-width: skipped (row count of a 0-width 2-D array is not modelled)
      | .d2 _ (c :: cs) =>
        if ¬ (∀ x ∈ cs, x.length = c.length) then .error .init else
        (match rc with
         | some r => if c.length ≠ r then .error .init else go rest (some r) (b :: acc)
         | none => go rest (some c.length) (b :: acc))
  match go bs none [] with
  | .error e => .error e
  | .ok (some r, acc) => .ok ⟨r, acc⟩
  | .ok (none, acc) =>
    match shapeRef with
    | some r => .ok ⟨r, acc⟩
    | none => .error .init

/-! ### column key → per-block selections (`_key_to_block_slices`) -/

inductive BSel where
  | col (c : Nat)            -- an integer column of the block
  | sl (s : PySlice)         -- a slice of the block's columns
deriving Repr, DecidableEq, Inhabited

def UNIT_SLICE : PySlice := ⟨some 0, some 1, none⟩

/-- `_all_block_slices` -/
def allBlockSlices (tb : TB α) : List (Nat × BSel) :=
  tb.blocks.zipIdx.map fun (b, i) =>
    match b with
    | .d1 _ _ => (i, .sl UNIT_SLICE)
    | .d2 _ cs => (i, .sl ⟨some 0, some (cs.length : Int), none⟩)

/-- `_indices_to_contiguous_pairs` with its loop state `(last, bundle)`.
    `colsToSlice` (Slice.lean, bridged to the translated source) may fail only on an empty bundle,
    which the loop never produces; a failure is propagated as `none`. -/
def contiguousPairs : List (Nat × Nat) → Option (Nat × Nat) → List Nat → Option (List (Nat × BSel))
  | [], none, _ => some []
  | [], some (lb, _), bundle =>
      if bundle.isEmpty then some [] else
      (colsToSlice (bundle.map Int.ofNat)).map fun s => [(lb, .sl s)]
  | (b, c) :: rest, none, _ => contiguousPairs rest (some (b, c)) [c]
  | (b, c) :: rest, some (lb, lc), bundle =>
      if lb = b ∧ (c = lc + 1 ∨ lc = c + 1) then
        contiguousPairs rest (some (b, c)) (bundle ++ [c])
      else
        match colsToSlice (bundle.map Int.ofNat), contiguousPairs rest (some (b, c)) [c] with
        | some s, some tl => some ((lb, .sl s) :: tl)
        | _, _ => none

/-- Python list slicing `l[s]` -/
def pyListSlice {β} (l : List β) (s : PySlice) : Except Err (List β) :=
  match s.positions l.length with
  | .error e => .error e
  | .ok ps => .ok (pick l ps)

def sortNat (l : List Nat) : List Nat := l.mergeSort (· ≤ ·)

/-- `_key_to_block_slices(key, retain_key_order)` -/
def keyToBlockSlices (tb : TB α) (k : Key) (retainOrder : Bool) : Except Err (List (Nat × BSel)) :=
  let idx := tb.index
  let fin (o : Option (List (Nat × BSel))) : Except Err (List (Nat × BSel)) :=
    match o with | some r => .ok r | none => .error .other
  match k with
  | .all => .ok (allBlockSlices tb)
  | .int i =>
      match normPos i idx.length with
      | .error e => .error e
      | .ok p => match idx[p]? with
        | some (b, c) => .ok [(b, .col c)]
        | none => .error .lookup
  | .slice s =>
      match (if retainOrder then some s else sliceToAscending s (tb.ncols : Int)) with
      | none => .error .value
      | some s' =>
        match pyListSlice idx s' with
        | .error e => .error e
        | .ok sel => fin (contiguousPairs sel none [])
  | .mask bs =>
      -- `(self._index[idx] for idx, v in enumerate(key) if v)`: IndexError if the mask is longer
      if bs.length > idx.length ∧ (bs.drop idx.length).any id then .error .lookup else
      fin (contiguousPairs (pick idx (maskPositions bs)) none [])
  | .list is =>
      match is.mapM (normPos · idx.length) with
      | .error e => .error e
      | .ok ps =>
        -- `sorted(set(self._index[x] for x in key))`: unique pairs, sorted lexicographically = by column position
        let ps' := if retainOrder then ps else (sortNat ps).eraseDups
        fin (contiguousPairs (pick idx ps') none [])

/-! ### `_slice_blocks` / `_extract` -/

/-- positions a block-level selection addresses inside a block of width `w` -/
def BSel.positions (sel : BSel) (w : Nat) : Except Err (List Nat) :=
  match sel with
  | .col c => if c < w then .ok [c] else .error .lookup
  | .sl s => s.positions w

/-- one block sliced by rows `rps` (`none` = all rows) and a block-level column selection -/
def sliceBlock (b : Block α) (rps : Option (List Nat)) (sel : BSel) : Except Err (Block α) :=
  let rowsel (c : List α) : List α := match rps with | none => c | some ps => pick c ps
  match b with
  | .d1 t c => .ok (.d1 t (rowsel c))            -- "given 1D array, our row key is all we need"
  | .d2 t cs =>
    match sel with
    | .col c => match cs[c]? with
      | some col => .ok (.d1 t (rowsel col))
      | none => .error .lookup
    | .sl s => match s.positions cs.length with
      | .error e => .error e
      | .ok ps => .ok (.d2 t ((pick cs ps).map rowsel))

def sliceBlocks (tb : TB α) (rps : Option (List Nat)) (pairs : List (Nat × BSel)) : Except Err (List (Block α)) :=
  pairs.mapM fun (bi, sel) =>
    match tb.blocks[bi]? with
    | some b => sliceBlock b rps sel
    | none => .error .lookup

/-- row positions of a row key (`none` = all rows, the null-slice fast path) -/
def rowPositions (tb : TB α) (rk : Key) : Except Err (Option (List Nat)) :=
  match rk with
  | .all => .ok none
  | k => (k.positions tb.rows).map some

/-- `TypeBlocks._extract(row_key, column_key)` restricted to results that stay TypeBlocks
    (the reduction to an element / Series is the Frame-level decision table, Select.lean). -/
def extract (tb : TB α) (rk ck : Key) : Except Err (TB α) := do
  let rps ← rowPositions tb rk
  let pairs ← keyToBlockSlices tb ck true
  let bs ← sliceBlocks tb rps pairs
  let newRows := match rps with | none => tb.rows | some ps => ps.length
  -- from_blocks(..., shape_reference=self._shape); with no block left the row key is applied to the
  -- row count explicitly (repaired: was the old row count)
  match fromBlocks bs (some tb.rows) with
  | .error e => .error e
  | .ok r => .ok { r with rows := newRows }

/-! ### the shared "walk the blocks with an ascending iterator of targets" generators -/

/-- column range `[start, stop)` of a target inside its block (the code reads `.start/.stop` of the
    slice and asserts they are not None) -/
def BSel.range : BSel → Option (Nat × Nat)
  | .col c => some (c, c + 1)
  | .sl ⟨some a, some b, _⟩ => if 0 ≤ a ∧ 0 ≤ b then some (a.toNat, b.toNat) else none
  | .sl _ => none

def subCols (cs : List (List α)) (a b : Nat) : List (List α) := (cs.drop a).take (b - a)

/-- `_drop_blocks`, the part for ONE 2-D block of width > 1: consumes the targets that belong to
    block `bi`; returns (parts kept, drop_block, part_start_last, remaining targets). -/
def dropWalk (t : DT) (cs : List (List α)) (bi : Nat) :
    List (Nat × BSel) → Nat → List (Block α) → Bool → Option (List (Block α) × Bool × Nat × List (Nat × BSel))
  | [], ps, parts, dropAll => some (parts, dropAll, ps, [])
  | (tbi, sel) :: rest, ps, parts, dropAll =>
    if tbi ≠ bi then some (parts, dropAll, ps, (tbi, sel) :: rest) else
    match sel.range with
    | none => none
    | some (a, b) =>
      if a = 0 ∧ b = cs.length then dropWalk t cs bi rest b parts true
      else if a > ps then dropWalk t cs bi rest b (parts ++ [.d2 t (subCols cs ps a)]) dropAll
      else dropWalk t cs bi rest b parts dropAll

/-- delete rows (np.delete) from a block -/
def rowDelete (rdel : Option (List Nat)) (b : Block α) : Block α :=
  let del (c : List α) : List α := match rdel with
    | none => c
    | some ps => (c.zipIdx.filter (fun (_, i) => ¬ ps.contains i)).map (·.1)
  match b with
  | .d1 t c => .d1 t (del c)
  | .d2 t cs => .d2 t (cs.map del)

/-- `_drop_blocks(row_key, column_key)` over all blocks -/
def dropBlocksGo (rdel : Option (List Nat)) : Nat → List (Block α) → List (Nat × BSel) → Option (List (Block α))
  | _, [], _ => some []
  | bi, b :: bs, targets =>
    -- 1-D block or 2-D of width 1: a target for this block drops it entirely
    let narrow : Bool := match b with | .d1 _ _ => true | .d2 _ cs => cs.length == 1
    match targets with
    | (tbi, _) :: trest =>
      if tbi = bi ∧ narrow = true then dropBlocksGo rdel (bi + 1) bs trest
      else if tbi ≠ bi then (dropBlocksGo rdel (bi + 1) bs targets).map (rowDelete rdel b :: ·)
      else
        match b with
        | .d1 _ _ => none   -- unreachable (narrow)
        | .d2 t cs =>
          match dropWalk t cs bi targets 0 [] false with
          | none => none
          | some (parts, dropAll, ps, remaining) =>
            let parts := if 0 < ps ∧ ps < cs.length then parts ++ [.d2 t (subCols cs ps cs.length)] else parts
            let out : List (Block α) :=
              if ¬ dropAll ∧ parts.isEmpty then [rowDelete rdel b]
              else parts.map (rowDelete rdel)
            (dropBlocksGo rdel (bi + 1) bs remaining).map (out ++ ·)
    | [] => (dropBlocksGo rdel (bi + 1) bs []).map (rowDelete rdel b :: ·)

/-- `TypeBlocks.drop((row_key, column_key))` -/
def drop (tb : TB α) (rk : Option Key) (ck : Option Key) : Except Err (TB α) := do
  let targets ← match ck with
    | none => pure []
    | some k => if tb.blocks.isEmpty then .error .lookup else keyToBlockSlices tb k false
  let rdel ← match rk with
    | none => pure none
    | some k => (k.positions tb.rows).map some
  match dropBlocksGo rdel 0 tb.blocks targets with
  | none => .error .other
  | some bs =>
    let newRows := match rdel with
      | none => tb.rows
      | some ps => tb.rows - (ps.eraseDups).length
    match fromBlocks bs (some newRows) with
    | .error e => .error e
    | .ok r => .ok { r with rows := newRows }

/-- `_ufunc_blocks(column_key, func)` / `_astype_blocks(column_key, dtype)` for ONE 2-D block:
    `f` acts on a sub-block (and may retype it); `skip b` mirrors `if dtype == b.dtype: continue`. -/
def mapWalk (f : Block α → Block α) (t : DT) (cs : List (List α)) (bi : Nat) :
    List (Nat × BSel) → Nat → List (Block α) → Option (List (Block α) × Nat × List (Nat × BSel))
  | [], ps, parts => some (parts, ps, [])
  | (tbi, sel) :: rest, ps, parts =>
    if tbi ≠ bi then some (parts, ps, (tbi, sel) :: rest) else
    match sel.range with
    | none => none
    | some (a, b) =>
      let parts := if a > ps then parts ++ [.d2 t (subCols cs ps a)] else parts
      let target : Block α := match sel with
        | .col c => .d1 t (cs.getD c [])         -- `b[:, int]` is 1-D
        | .sl _ => .d2 t (subCols cs a b)
      mapWalk f t cs bi rest b (parts ++ [f target])

def mapBlocksGo (f : Block α → Block α) (skip : Block α → Bool) :
    Nat → List (Block α) → List (Nat × BSel) → Option (List (Block α))
  | _, [], _ => some []
  | bi, b :: bs, targets =>
    match targets with
    | [] => (mapBlocksGo f skip (bi + 1) bs []).map (b :: ·)
    | (tbi, _) :: _ =>
      if tbi ≠ bi then (mapBlocksGo f skip (bi + 1) bs targets).map (b :: ·)
      else if skip b then
        -- every target of this block is consumed without effect
        (mapBlocksGo f skip (bi + 1) bs (targets.dropWhile (·.1 = bi))).map (b :: ·)
      else
        match b with
        | .d1 _ _ => (mapBlocksGo f skip (bi + 1) bs targets.tail).map (f b :: ·)
        | .d2 t cs =>
          match mapWalk f t cs bi targets 0 [] with
          | none => none
          | some (parts, ps, remaining) =>
            let parts := if ps < cs.length then parts ++ [.d2 t (subCols cs ps cs.length)] else parts
            (mapBlocksGo f skip (bi + 1) bs remaining).map (parts ++ ·)

/-- `TypeBlocks._ufunc_blocks` (shape-preserving column-wise function `g`) -/
def ufuncBlocks (tb : TB α) (ck : Key) (g : List α → List α) : Except Err (TB α) := do
  let targets ← keyToBlockSlices tb ck false
  let f : Block α → Block α
    | .d1 t c => .d1 t (g c)
    | .d2 t cs => .d2 t (cs.map g)
  match mapBlocksGo f (fun _ => false) 0 tb.blocks targets with
  | none => .error .other
  | some bs => .ok ⟨tb.rows, bs⟩

/-- `TypeBlocks._astype_blocks(column_key, dtype)`; `cast` is NumPy's `astype` on one column -/
def astypeBlocks (tb : TB α) (ck : Key) (dtype : DT) (cast : List α → List α) : Except Err (TB α) := do
  let targets ← keyToBlockSlices tb ck false
  let f : Block α → Block α
    | .d1 _ c => .d1 dtype (cast c)
    | .d2 _ cs => .d2 dtype (cs.map cast)
  match mapBlocksGo f (fun b => b.dt = dtype) 0 tb.blocks targets with
  | none => .error .other
  | some bs => .ok ⟨tb.rows, bs⟩

/-! ### grow-only mutation (`append`, `extend`) and consolidation -/

/-- `TypeBlocks.append(block)`: row count must match; a zero-width block only has to match rows. -/
def append (tb : TB α) (b : Block α) : Except Err (TB α) :=
  match b with
  | .d1 _ c => if c.length ≠ tb.rows then .error .shape else .ok { tb with blocks := tb.blocks ++ [b] }
  | .d2 _ [] => .ok tb
  | .d2 _ (c :: cs) =>
    if c.length ≠ tb.rows ∨ ¬ (∀ x ∈ cs, x.length = c.length) then .error .shape
    else .ok { tb with blocks := tb.blocks ++ [b] }

/-- `TypeBlocks.extend(other)` : all-or-nothing in the code as well (shape check first) -/
def extend (tb : TB α) (other : TB α) : Except Err (TB α) :=
  if other.rows ≠ tb.rows then .error .shape
  else .ok { tb with blocks := tb.blocks ++ other.blocks }

/-- `consolidate_blocks`: adjacent blocks of equal dtype are merged into one 2-D block -/
def consolidate : List (Block α) → List (Block α)
  | [] => []
  | b :: rest =>
    match consolidate rest with
    | [] => [b]
    | r :: rs =>
      if b.dt = r.dt then .d2 b.dt (b.colsOf ++ r.colsOf) :: rs
      else b :: r :: rs

end TB

/-! ### the incrementally maintained caches of a growing TypeBlocks

`TypeBlocks` keeps `_shape`, `_index`, `_dtypes` and `_row_dtype` next to `_blocks`; `from_blocks` /
`__init__` compute them once, `append` / `extend` update them in place (FrameGO grows this way).
`Caches` is that bookkeeping, `Grown` the whole mutable object; the theorems (Props/C03.lean) say the
incrementally kept values equal the values recomputed from the final block list, and state what the
kept row dtype is.  dtype resolution (`util.resolve_dtype`, modelled in DType.lean) is a PARAMETER
`resolve` here: the two routes use it differently (`__init__` folds it over the blocks, `append`
does not use it at all). -/

/-- token of `DTYPE_OBJECT` (the harness's `dtype_tok(np.dtype(object))`) -/
def objectDT : DT := "O8"

structure Caches where
  shape : Nat × Nat              -- `_shape`
  index : List (Nat × Nat)       -- `_index`
  dtypes : List DT               -- `_dtypes`
  rowDtype : Option DT           -- `_row_dtype` (`None` while no block is stored)
deriving Repr, DecidableEq, Inhabited

namespace Caches
variable {α : Type}

/-- `util.resolve_dtype_iter`: pairwise resolution from the left, returning at the first `object`. -/
def resolveIter (resolve : DT → DT → DT) : DT → List DT → DT
  | acc, [] => acc
  | acc, d :: ds =>
    let r := resolve acc d
    if r = objectDT then r else resolveIter resolve r ds

/-- `__init__`: `resolve_dtype_iter(b.dtype for b in self._blocks)` when a block is stored, else `None`. -/
def initRowDtype (resolve : DT → DT → DT) : List (Block α) → Option DT
  | [] => none
  | b :: bs => some (resolveIter resolve b.dt (bs.map Block.dt))

/-- the statements shared by `from_blocks` and `append` for one STORED block with number `blockIdx`:
    `for i in range(c): index.append((blockIdx, i)); dtypes.append(block.dtype)` and the column count. -/
def push (c : Caches) (blockIdx : Nat) (b : Block α) : Caches :=
  { c with
    shape := (c.shape.1, c.shape.2 + b.width)
    index := c.index ++ (List.range b.width).map (fun i => (blockIdx, i))
    dtypes := c.dtypes ++ List.replicate b.width b.dt }

/-- the loop of `from_blocks` over the raw blocks (`if c == 0: continue`; `block_count += 1`). -/
def ofBlocksGo : List (Block α) → Nat → Caches → Caches
  | [], _, c => c
  | b :: rest, blockCount, c =>
    if b.width = 0 then ofBlocksGo rest blockCount c
    else ofBlocksGo rest (blockCount + 1) (c.push blockCount b)

/-- what `from_blocks(raw_blocks)` + `__init__` set, given the row count `from_blocks` determined
    (`TB.fromBlocks` models the row-count checks). -/
def ofBlocks (resolve : DT → DT → DT) (rows : Nat) (bs : List (Block α)) : Caches :=
  { ofBlocksGo bs 0 ⟨(rows, 0), [], [], none⟩ with
    rowDtype := initRowDtype resolve (bs.filter (fun b => 0 < b.width)) }

/-- the `_row_dtype` rule of `append`: set on the first stored block; `object` as soon as a block
    of a DIFFERENT dtype arrives ("we do not use resolve_dtype here as we want to preserve types"). -/
def appendRowDtype (rd : Option DT) (d : DT) : Option DT :=
  match rd with
  | none => some d
  | some r => if d ≠ r then some objectDT else some r

/-- `TypeBlocks.append(block)` on the caches; `nblocks = len(self._blocks)` before the call.
    (A 2-D block of width 0 has no modelled row count, as in `TB.append`: it is not appended.) -/
def append (c : Caches) (nblocks : Nat) (b : Block α) : Except Err Caches :=
  let stored : Caches := { c.push nblocks b with rowDtype := appendRowDtype c.rowDtype b.dt }
  match b with
  | .d1 _ col => if col.length ≠ c.shape.1 then .error .shape else .ok stored
  | .d2 _ [] => .ok c
  | .d2 _ (col :: cs) =>
    if col.length ≠ c.shape.1 ∨ ¬ (∀ x ∈ cs, x.length = col.length) then .error .shape
    else .ok stored

end Caches

/-- the mutable object: blocks with their caches -/
structure Grown (α : Type) where
  tb : TB α
  caches : Caches
deriving Repr, DecidableEq, Inhabited

/-- one growth call -/
inductive CacheOp (α : Type) where
  | append (b : Block α)                  -- `tb.append(array)`
  | extendIter (bs : List (Block α))      -- `tb.extend(iterable of arrays)`
  | extend (o : TB α)                     -- `tb.extend(other TypeBlocks)`
deriving Repr

namespace Grown
variable {α : Type}

/-- `TypeBlocks.from_blocks(raw_blocks, shape_reference)` with its caches -/
def ofBlocks (resolve : DT → DT → DT) (bs : List (Block α)) (shapeRef : Option Nat) : Except Err (Grown α) :=
  match TB.fromBlocks bs shapeRef with
  | .error e => .error e
  | .ok tb => .ok ⟨tb, Caches.ofBlocks resolve tb.rows bs⟩

/-- `TypeBlocks.from_zero_size_shape((rows, 0))` / `cls(blocks=[], dtypes=[], index=[], shape=...)`:
    what an empty `FrameGO(index=...)` starts from -/
def empty (rows : Nat) : Grown α := ⟨⟨rows, []⟩, ⟨(rows, 0), [], [], none⟩⟩

/-- `append`: the check reads `_shape`; the block is stored unless it is a zero-width 2-D block -/
def append (g : Grown α) (b : Block α) : Except Err (Grown α) :=
  match g.caches.append g.tb.blocks.length b with
  | .error e => .error e
  | .ok c => .ok ⟨{ g.tb with blocks := if b.width = 0 then g.tb.blocks else g.tb.blocks ++ [b] }, c⟩

/-- `extend(iterable)`: `for block in blocks: self.append(block)` — NOT atomic: an exception leaves
    the blocks appended before it -/
def extendIter : Grown α → List (Block α) → Grown α × Option Err
  | g, [] => (g, none)
  | g, b :: bs =>
    match g.append b with
    | .error e => (g, some e)
    | .ok g' => extendIter g' bs

/-- `extend(other: TypeBlocks)`: the up-front check is skipped when `self` has no rows -/
def extend (g : Grown α) (o : TB α) : Grown α × Option Err :=
  if g.caches.shape.1 ≠ 0 ∧ g.caches.shape.1 ≠ o.rows then (g, some .shape)
  else g.extendIter o.blocks

def step (g : Grown α) : CacheOp α → Grown α × Option Err
  | .append b => match g.append b with | .error e => (g, some e) | .ok g' => (g', none)
  | .extendIter bs => g.extendIter bs
  | .extend o => g.extend o

/-- a history of growth calls; a raising call leaves what it had already done and the caller goes on -/
def run (g : Grown α) (ops : List (CacheOp α)) : Grown α := ops.foldl (fun g op => (g.step op).1) g

/-- the outcomes of the calls of a history (for the correspondence) -/
def runErrs : Grown α → List (CacheOp α) → List (Option Err)
  | _, [] => []
  | g, op :: ops => (g.step op).2 :: runErrs (g.step op).1 ops

/-- the caches describe the blocks: what a recomputation from `_blocks` would give -/
def Coherent (g : Grown α) : Prop :=
  g.caches.shape = (g.tb.rows, g.tb.ncols) ∧ g.caches.index = g.tb.index ∧ g.caches.dtypes = g.tb.dtypes

end Grown

end SF
