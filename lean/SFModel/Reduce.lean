/-
  SFModel.Reduce — axis reductions of a Frame (C15).

  Mirrors:
    * static_frame/core/container.py  `ContainerOperand.{all,any,sum,min,max,mean,median,std,var,prod,
      cumsum,cumprod}`: the descriptor table (ufunc pair, `composable`, `dtypes`, `size_one_unity`)
      → `Fn`, `desc`
    * static_frame/core/type_blocks.py `TypeBlocks.ufunc_axis_skipna`: unified block / axis 0 per
      block (with the `size_one_unity` shortcut) / axis 1 composable two-stage / axis 1 consolidated
      → `ufuncAxisSkipna`
    * static_frame/core/util.py `ufunc_axis_skipna` + the NumPy ufunc pair (`np.sum`/`np.nansum` …)
      and `_ufunc_logical_skipna` → `Red.apply` (skipna: missing cells ignored; otherwise a missing
      cell propagates, or is rejected by the logical reductions)
    * `_argminmax_1d` / `_argminmax_2d` → `argBest1d`, `argBest2dLine`
    * `Frame._ufunc_shape_skipna` (cumsum / cumprod on the consolidated values) → `cumApply`

  Cells are `Option α` (`none` = NaN / None / NaT); arithmetic is exact (`α` with an abstract
  associative operation; the driver instantiates `Int`).
-/
import SFModel.Basic

namespace SF.Reduce
open SF

/-! ### the descriptor table of container.py -/

inductive Fn
  | all | any | sum | min | max | mean | median | std | var | prod | cumsum | cumprod
deriving DecidableEq, Repr, Inhabited

/-- the `dtypes` argument -/
inductive OutDTypes
  | rowDtype      -- EMPTY_TUPLE: "float or int, row type will match"
  | bool          -- DTYPES_BOOL
  | inexact       -- DTYPES_INEXACT
  | float         -- (DTYPE_FLOAT_DEFAULT,)
deriving DecidableEq, Repr

structure Desc where
  composable : Bool
  sizeOneUnity : Bool
  dtypes : OutDTypes
deriving DecidableEq, Repr

/-- `ContainerOperand`: what each method passes to `_ufunc_axis_skipna`. -/
def desc : Fn → Desc
  | .all => ⟨true, false, .bool⟩
  | .any => ⟨true, false, .bool⟩
  | .sum => ⟨false, true, .rowDtype⟩
  | .min => ⟨true, true, .rowDtype⟩
  | .max => ⟨true, true, .rowDtype⟩
  | .mean => ⟨false, true, .inexact⟩
  | .median => ⟨false, true, .inexact⟩
  | .std => ⟨false, false, .float⟩
  | .var => ⟨false, false, .float⟩
  | .prod => ⟨false, true, .rowDtype⟩
  | .cumsum => ⟨false, true, .rowDtype⟩
  | .cumprod => ⟨false, true, .rowDtype⟩

/-- logical reductions write into a Boolean output (`out.dtype == DTYPE_BOOL`) -/
def Desc.logical (d : Desc) : Bool := d.dtypes == .bool

/-! ### one vector: the ufunc pair -/

/-- A reduction over an associative operation.  `unit`: the identity the NumPy ufunc starts from
    (sum 0, prod 1, all True, any False; none for min / max).  `reject`: without skipna a missing
    cell raises (logical reductions) instead of propagating. -/
structure Red (α : Type) where
  op : α → α → α
  unit : Option α
  reject : Bool

/-- `op` lifted to cells: a missing cell is ignored -/
def olift (op : α → α → α) : Option α → Option α → Option α
  | none, y => y
  | x, none => x
  | some x, some y => some (op x y)

/-- combine all non-missing cells, left to right -/
def osum (op : α → α → α) (xs : List (Option α)) : Option α := xs.foldl (olift op) none

/-- what the ufunc answers when no value was combined: its identity; without identity a zero-size
    input is a ValueError and an all-missing one is missing (NaN, with a warning) -/
def Red.fin (r : Red α) (n : Nat) : Option α → Except Err (Option α)
  | some v => .ok (some v)
  | none =>
    match r.unit with
    | some e => .ok (some e)
    | none => if n = 0 then .error .value else .ok none

/-- `ufunc_axis_skipna(array, skipna, ufunc, ufunc_skipna)` on one vector. -/
def Red.apply (r : Red α) (skipna : Bool) (xs : List (Option α)) : Except Err (Option α) :=
  if skipna then r.fin xs.length (osum r.op xs)
  else if xs.any Option.isNone then (if r.reject then .error .value else .ok none)
  else r.fin xs.length (osum r.op xs)

/-! ### `util._ufunc_logical_skipna` on one vector -/

/-- what the helper branches on: `array.dtype.kind` -/
inductive LKind
  | b | int | str | inexact | nat | obj
deriving DecidableEq, Repr

/-- `all` / `any` over the truth values of the cells (`none` = NaN / NaT / None; the kinds b, int, str
    have no missing value) -/
def logicalFold (isAll : Bool) (xs : List (Option Bool)) : Bool :=
  xs.foldl (fun acc x => if isAll then acc && x.getD true else acc || x.getD false) isAll

/-- `util._ufunc_logical_skipna(array, ufunc, skipna)` for a 1-D array: `.error .value` = TypeError
    "cannot propagate NaN without expanding to object array result". -/
def logicalSkipna (isAll : Bool) (kind : LKind) (skipna : Bool) (xs : List (Option Bool)) : Except Err Bool :=
  if xs = [] then .ok isAll                       -- `len(array) == 0`: `ufunc == np.all`
  else
    let hasna := xs.any Option.isNone
    match kind with
    | .b | .int | .str => .ok (logicalFold isAll xs)        -- "types that cannot have NA"
    | .inexact | .obj =>
      if hasna ∧ skipna then .ok (logicalFold isAll xs)    -- NaN filled with the identity of the ufunc
      else if hasna then .error .value
      else .ok (logicalFold isAll xs)
    | .nat =>
      if hasna ∧ ¬ skipna then .error .value
      else .ok true                                        -- "all dates are truthy"

/-- the logical reductions as `Red`: and / or with their identities, rejecting missing cells -/
def redLogical (isAll : Bool) : Red Bool :=
  if isAll then ⟨(· && ·), some true, true⟩ else ⟨(· || ·), some false, true⟩

/-! ### blocks -/

/-- a block, column-major; `isBool`: `b.dtype == DTYPE_BOOL` -/
inductive RBlock (α : Type)
  | d1 (isBool : Bool) (col : List (Option α))
  | d2 (isBool : Bool) (cols : List (List (Option α)))
deriving Repr

def RBlock.cols : RBlock α → List (List (Option α))
  | .d1 _ c => [c]
  | .d2 _ cs => cs

def RBlock.isBool : RBlock α → Bool
  | .d1 b _ => b
  | .d2 b _ => b

structure RTB (α : Type) where
  rows : Nat
  blocks : List (RBlock α)
deriving Repr

/-- abstraction: the columns, whatever the layout -/
def RTB.cols (tb : RTB α) : List (List (Option α)) := tb.blocks.flatMap RBlock.cols

/-- row `i` of a list of columns -/
def rowOf (cols : List (List (Option α))) (i : Nat) : List (Option α) := cols.filterMap (·[i]?)

def RTB.rowList (tb : RTB α) : List (List (Option α)) := (List.range tb.rows).map (rowOf tb.cols)

/-- every column has `rows` cells, a 2-D block has at least one column -/
def RTB.WF (tb : RTB α) : Prop :=
  (∀ c ∈ tb.cols, c.length = tb.rows) ∧ (∀ b ∈ tb.blocks, b.cols ≠ [])

/-- `b.size` -/
def RBlock.size (b : RBlock α) (rows : Nat) : Nat := rows * b.cols.length

/-! ### `TypeBlocks.ufunc_axis_skipna` -/

/-- the per-vector function `func = partial(ufunc_axis_skipna, skipna, ufunc, ufunc_skipna)` -/
abbrev VecFn (α : Type) := Bool → List (Option α) → Except Err (Option α)

/-- the single cell of a size-one block: the `size_one_unity` shortcut `out[pos] = b.reshape(-1)[0]`
    (since fix 790a40a the element is stored; the pinned tree assigned the block array itself, which
    NumPy 2 rejects for numeric outputs and stores as an object element otherwise — former finding F16) -/
def RBlock.onlyCell? (b : RBlock α) : Option (Option α) :=
  match b.cols with
  | [[c]] => some c
  | _ => none

/-- axis 0, one block: reduce all rows, one result per column of the block -/
def axis0Block (f : VecFn α) (d : Desc) (skipna : Bool) (rows : Nat) (b : RBlock α) :
    Except Err (List (Option α)) :=
  if b.size rows = 1 ∧ d.sizeOneUnity ∧ ¬ skipna then
    -- "No function call is necessary"
    match b.onlyCell? with
    | some c => .ok [c]
    | none => .error .shape
  else b.cols.mapM (f skipna)

/-- axis 1, composable, stage one for block `b` and row `i`: the partial result written to
    `out[i, idx]` -/
def axis1Partial (f : VecFn α) (d : Desc) (skipna : Bool) (rows : Nat) (b : RBlock α) (i : Nat) :
    Except Err (Option α) :=
  if b.size rows = 1 ∧ d.sizeOneUnity ∧ ¬ skipna then
    match b.onlyCell? with
    | some c => .ok c
    | none => .error .shape
  else
    match b with
    | .d1 isBool col =>
      if d.logical ∧ ¬ isBool then
        -- func(array=column_2d_filter(b), axis=1): element-wise application
        f skipna (rowOf [col] i)
      else
        -- "otherwise, keep as is"
        match col[i]? with
        | some c => .ok c
        | none => .error .shape
    | .d2 _ cs => f skipna (rowOf cs i)

/-- `TypeBlocks.ufunc_axis_skipna(skipna, axis, ufunc, ufunc_skipna, composable, dtypes,
    size_one_unity)`; `axis = 0` reduces the rows (one result per column), `axis = 1` the columns. -/
def ufuncAxisSkipna (f : VecFn α) (d : Desc) (skipna : Bool) (axis : Nat) (tb : RTB α) :
    Except Err (List (Option α)) :=
  if axis > 1 then .error .value
  else
    match tb.blocks with
    | [] => .error .lookup      -- `self.unified` holds for zero blocks too: `self._blocks[0]` is an IndexError
    | [b] =>
      -- self.unified: one call on the (2-D view of the) single block
      if axis = 0 then b.cols.mapM (f skipna)
      else (List.range tb.rows).mapM (fun i => f skipna (rowOf b.cols i))
    | blocks =>
      if axis = 0 then
        (blocks.mapM (axis0Block f d skipna tb.rows)).map List.flatten
      else if d.composable then
        -- two stages: per block, then over the per-block results
        (List.range tb.rows).mapM (fun i => do
          let ps ← blocks.mapM (fun b => axis1Partial f d skipna tb.rows b i)
          f skipna ps)
      else
        -- not block composable: consolidate (`_blocks_to_array`) and reduce each row
        (List.range tb.rows).mapM (fun i => f skipna (rowOf (blocks.flatMap RBlock.cols) i))

/-- the reference: `f` applied independently to every column / every row -/
def perColumn (f : VecFn α) (skipna : Bool) (tb : RTB α) : Except Err (List (Option α)) :=
  tb.cols.mapM (f skipna)

def perRow (f : VecFn α) (skipna : Bool) (tb : RTB α) : Except Err (List (Option α)) :=
  (List.range tb.rows).mapM (fun i => f skipna (rowOf tb.cols i))

/-! ### arg-min / arg-max -/

/-- position of the first best element (`np.argmin` / `np.argmax` with `better a b` = "a beats b") -/
def argBestGo (better : α → α → Bool) : Nat → Nat → α → List α → Nat
  | _, best, _, [] => best
  | k, best, bv, x :: xs =>
    if better x bv then argBestGo better (k + 1) k x xs else argBestGo better (k + 1) best bv xs

def argBest (better : α → α → Bool) : List α → Option Nat
  | [] => none
  | x :: xs => some (argBestGo better 1 0 x xs)

/-- `np.nanargmin`: missing cells are skipped, positions refer to the original vector;
    `none` when every cell is missing -/
def nanArgBestGo (better : α → α → Bool) : Nat → Option (Nat × α) → List (Option α) → Option (Nat × α)
  | _, acc, [] => acc
  | k, acc, none :: xs => nanArgBestGo better (k + 1) acc xs
  | k, none, some x :: xs => nanArgBestGo better (k + 1) (some (k, x)) xs
  | k, some (b, bv), some x :: xs =>
    if better x bv then nanArgBestGo better (k + 1) (some (k, x)) xs
    else nanArgBestGo better (k + 1) (some (b, bv)) xs

def nanArgBest (better : α → α → Bool) (xs : List (Option α)) : Option Nat :=
  (nanArgBestGo better 0 none xs).map (·.1)

/-- `util._argminmax_1d` (Series): `none` = NaN -/
def argBest1d (better : α → α → Bool) (skipna : Bool) (xs : List (Option α)) : Except Err (Option Nat) :=
  if xs.all Option.isNone then .ok none        -- isna.all(): NaN (also for an empty vector)
  else if xs.any Option.isNone then
    if ¬ skipna then .ok none else .ok (nanArgBest better xs)
  else .ok (nanArgBest better xs)

/-- `util._argminmax_2d` (Frame) for the lines (columns for axis 0, rows for axis 1) of the
    consolidated values: note the All-NaN line raises with skipna. -/
def argBest2d (better : α → α → Bool) (skipna : Bool) (lines : List (List (Option α))) :
    Except Err (List (Option Nat)) :=
  let isnaAxis := lines.map (fun l => l.any Option.isNone)
  if lines.any (· = []) then .error .value
  else if isnaAxis.all id ∧ ¬ skipna ∧ lines ≠ [] then .ok (lines.map fun _ => none)
  else if isnaAxis.any id then
    -- post = ufunc_skipna(array, axis): ValueError "All-NaN slice encountered"
    if lines.any (fun l => l.all Option.isNone) then .error .value
    else .ok (lines.map fun l => if l.any Option.isNone ∧ ¬ skipna then none else nanArgBest better l)
  else .ok (lines.map (nanArgBest better))

/-! ### cumulative operations (`np.cumsum` / `np.nancumsum` along one line) -/

/-- running combination; with skipna a missing cell counts as the identity, without it every cell
    from the first missing one on is missing -/
def cumGo (op : α → α → α) (e : α) (skipna : Bool) : Option α → List (Option α) → List (Option α)
  | _, [] => []
  | none, _ :: xs => none :: cumGo op e skipna none xs
  | some acc, none :: xs =>
    if skipna then some acc :: cumGo op e skipna (some acc) xs
    else none :: cumGo op e skipna none xs
  | some acc, some x :: xs => some (op acc x) :: cumGo op e skipna (some (op acc x)) xs

def cumApply (op : α → α → α) (e : α) (skipna : Bool) (xs : List (Option α)) : List (Option α) :=
  cumGo op e skipna (some e) xs

/-- `Frame._ufunc_shape_skipna`: on the consolidated values, along `axis`; answers the columns of
    the result -/
def cumFrame (op : α → α → α) (e : α) (skipna : Bool) (axis : Nat) (tb : RTB α) : List (List (Option α)) :=
  if axis = 0 then tb.cols.map (cumApply op e skipna)
  else
    let rows := tb.rowList.map (cumApply op e skipna)
    (List.range tb.cols.length).map (fun j => rowOf rows j)

end SF.Reduce
