/-
  SFModel.Quilt — Quilt (a Frame-like view over the Frames of a Bus) and Batch (a lazy sequence of
  (label, Frame) pairs), mirrored from static_frame/core/quilt.py and static_frame/core/batch.py.

  A Frame is seen *along the Quilt axis*: a list of labelled lines (rows for axis 0, columns for
  axis 1), each line holding one cell per label of the opposite axis.  Axis 1 is the same model
  after transposition (the harness transposes).

  Mirrors:
    * `AxisMap.from_bus`             -> `fromBusGo`   (tree of (bus label, inner label) + opposite check)
    * `Quilt._update_axis_labels`    -> `Quilt.init`, `Quilt.labels`
    * `Quilt._extract`               -> `Quilt.extract` (`sel` mask, `axis_map.iloc[key]`, `duplicate_filter`,
                                        `sel_component`, per member `.iloc`, `relabel_level_add`, reduction
                                        of an integer key, `from_concat`)
    * `Quilt._axis_array`, `to_frame`-> `Quilt.axisLines`, `Quilt.toFrame`
    * `Batch._derive`                -> `Batch.derive` (lazy: a derived Batch wraps the previous generator)
    * `Batch._apply_attr` / `apply` / `apply_except` / `_apply_pool` / `_apply_pool_except`
                                     -> `strictGo`, `exceptGo`, `poolStage`, `runStage`; `Batch.stream` runs the
                                        nested generators to their end, `Batch.items` is what the consumer gets
    * `Batch.to_frame` / `to_bus`    -> `toFrameGo`, `toFrameOf`, `Batch.toFrame`, `Batch.toBus`
  Spec: `concatSpec` (the concatenated Frame) and `specExtract` (positional selection in key order, C04).
-/
import SFModel.Slice

namespace SF.Quilt
open SF

/-- A label on the Quilt axis: the inner label alone, or (bus label, inner label) when labels are retained. -/
inductive QLabel (L : Type)
  | flat (l : L)
  | pair (b l : L)
deriving DecidableEq, Repr

/-- A Frame seen along one axis. -/
structure MFrame (A L α : Type) where
  labels : List A            -- labels along the axis
  opp    : List L            -- labels of the opposite axis
  lines  : List (List α)     -- one line per label, one cell per opposite label
deriving DecidableEq, Repr

def MFrame.wf {A L α} (f : MFrame A L α) : Prop :=
  f.lines.length = f.labels.length ∧ ∀ ln ∈ f.lines, ln.length = f.opp.length

abbrev Bus (L α : Type) := List (L × MFrame L L α)

/-! ### small list primitives (the NumPy operations the code relies on) -/

/-- `sel = np.full(n, False); sel[key] = True` -/
def maskOf (n : Nat) (ps : List Nat) : List Bool := (List.range n).map (fun i => ps.contains i)

/-- `array[bool_mask]` -/
def maskSelect {β} : List β → List Bool → List β
  | x :: xs, b :: bs => if b then x :: maskSelect xs bs else maskSelect xs bs
  | _, _ => []

/-- `util.duplicate_filter`: yields a value when it differs from its predecessor. -/
def dupFilterGo {β} [DecidableEq β] (last : β) : List β → List β
  | [] => []
  | v :: rest => if v ≠ last then v :: dupFilterGo v rest else dupFilterGo v rest

def dupFilter {β} [DecidableEq β] : List β → List β
  | [] => []
  | v :: rest => v :: dupFilterGo v rest

/-- The row loop of `IndexHierarchy._from_type_blocks` at depth 2 on the outer labels:
    `seen` = keys of `tree`, `last` = `observed_last[0]`; `false` = ErrorInitIndex "invalid tree-form". -/
def treeForm {β} [DecidableEq β] : List β → List β → Option β → Bool
  | [], _, _ => true
  | v :: rest, seen, last =>
    if v ∉ seen then treeForm rest (v :: seen) (some v)
    else if some v ≠ last then false
    else treeForm rest seen (some v)

/-! ### AxisMap.from_bus -/

/-- The loop of `AxisMap.from_bus`: `tree[label] = f.index`; the first Frame defines `opposite`, every
    later Frame must have an equal opposite index (ErrorInitQuilt).  An empty Bus cannot build the
    hierarchy (`IndexHierarchy.from_tree({})` raises). -/
def fromBusGo {L α} [DecidableEq L] :
    Bus L α → List (L × L) → Option (List L) → Except Err (List (L × L) × List L)
  | [], _, none => .error .init
  | [], tree, some o => .ok (tree, o)
  | (b, f) :: rest, tree, none => fromBusGo rest (tree ++ f.labels.map (fun l => (b, l))) (some f.opp)
  | (b, f) :: rest, tree, some o =>
    if o = f.opp then fromBusGo rest (tree ++ f.labels.map (fun l => (b, l))) (some o)
    else .error .init

structure Quilt (L α : Type) where
  bus : Bus L α
  retain : Bool
  axisMap : List (L × L)
  opp : List L
deriving DecidableEq, Repr

/-- `Quilt.__init__` + `_update_axis_labels`: without retained labels the index is
    `axis_map.index.level_drop(1)`, a flat Index that must be unique. -/
def Quilt.init {L α} [DecidableEq L] (bus : Bus L α) (retain : Bool) : Except Err (Quilt L α) :=
  match fromBusGo bus [] none with
  | .error e => .error e
  | .ok (am, o) =>
    if !retain && !decide ((am.map (·.2)).Nodup) then .error .nonUnique
    else .ok ⟨bus, retain, am, o⟩

def relabel {L} (retain : Bool) (b : L) (l : L) : QLabel L := if retain then .pair b l else .flat l

/-- `quilt.index` (axis 0) / `quilt.columns` (axis 1). -/
def Quilt.labels {L α} (q : Quilt L α) : List (QLabel L) := q.axisMap.map (fun p => relabel q.retain p.1 p.2)

def Quilt.shape {L α} (q : Quilt L α) : Nat × Nat := (q.axisMap.length, q.opp.length)

/-! ### selection results -/

/-- A selection result: a Frame (no flag), a Series (one flag: the reduced axis keeps its single label
    as the Series name) or an element (both flags). -/
structure Sel (L α : Type) where
  labels : List (QLabel L)
  opp : List L
  lines : List (List α)
  selReduced : Bool
  oppReduced : Bool
deriving DecidableEq, Repr

/-- `component.iloc[0]` (axis 0) / `component.iloc[:, 0]` (axis 1): keep the first line, drop the dimension. -/
def Sel.reduce0 {L α} (s : Sel L α) : Except Err (Sel L α) :=
  match s.labels, s.lines with
  | lab :: _, ln :: _ => .ok { s with labels := [lab], lines := [ln], selReduced := true }
  | _, _ => .error .lookup

/-- positions addressed by the key on the opposite axis; a position addressed twice would repeat a label
    (ErrorInitIndexNonUnique when the result's Index is built). -/
def oppPositions (ok : Key) (m : Nat) : Except Err (List Nat) :=
  match ok.positions m with
  | .error e => .error e
  | .ok os => if decide os.Nodup then .ok os else .error .nonUnique

/-- `key == NULL_SLICE` (`Key.all` is `slice(None, None, None)`; the driver maps that slice to `.all`). -/
def isNullSlice : Key → Bool
  | .all => true
  | _ => false

/-- `sel[self._axis_map.index._loc_to_iloc(HLoc[key])]`: the entries of `sel` under bus label `b`. -/
def selComponent {L} [DecidableEq L] : List (L × L) → List Bool → L → List Bool
  | p :: ps, s :: ss, b => if p.1 = b then s :: selComponent ps ss b else selComponent ps ss b
  | _, _, _ => []

def Quilt.lookup {L α} [DecidableEq L] (q : Quilt L α) (b : L) : Except Err (MFrame L L α) :=
  match q.bus.find? (fun p => p.1 = b) with
  | some p => .ok p.2
  | none => .error .lookup

/-- One turn of the loop over `bus_keys` in `_extract`:
    `component = bus.loc[key].iloc[sel_component, opposite_key]`, `relabel_level_add(key)` when labels are
    retained, `.iloc[0]` when the selection key is an integer. -/
def memberPart {L α} (retain : Bool) (b : L) (f : MFrame L L α) (selComp : List Bool) (ok : Key)
    (selReduces : Bool) : Except Err (Sel L α) :=
  if selComp.length ≠ f.labels.length then .error .lookup else
  match oppPositions ok f.opp.length with
  | .error e => .error e
  | .ok os =>
    let comp : Sel L α :=
      { labels := (maskSelect f.labels selComp).map (relabel retain b)
        opp := pick f.opp os
        lines := (maskSelect f.lines selComp).map (fun ln => pick ln os)
        selReduced := false
        oppReduced := !ok.isMulti }
    if selReduces then comp.reduce0 else .ok comp

/-- `Series.from_concat(parts)` / `Frame.from_concat(parts, axis=self._axis)` -/
def concatParts {L α} (p : Sel L α) (rest : List (Sel L α)) : Sel L α :=
  { p with labels := p.labels ++ rest.flatMap (·.labels), lines := p.lines ++ rest.flatMap (·.lines) }

/-- the end of `_extract`: no part -> UnboundLocalError (`component_is_series` was never assigned);
    one part is returned as it is; several are concatenated. -/
def combine {L α} : List (Sel L α) → Except Err (Sel L α)
  | [] => .error .other
  | [p] => .ok p
  | p :: rest => .ok (concatParts p rest)

/-- `axis_map.iloc[sel_key]` and the ordered distinct bus labels of it. -/
def busKeys {L} [DecidableEq L] (axisMap : List (L × L)) (sk : Key) (ps : List Nat) : Except Err (List L) :=
  match sk with
  | .int _ =>
    match ps with
    | [p] => match axisMap[p]? with
      | some pr => .ok [pr.1]
      | none => .error .lookup
    | _ => .error .lookup
  | _ =>
    let sub := pick axisMap ps
    if !treeForm (sub.map (·.1)) [] none then .error .indexInit
    else if !decide sub.Nodup then .error .nonUnique
    else .ok (dupFilter (sub.map (·.1)))

/-- the body of the loop over `bus_keys`: `self._bus.loc[key]` then `memberPart`. -/
def Quilt.partFor {L α} [DecidableEq L] (q : Quilt L α) (sel : List Bool) (sk ok : Key) (b : L) :
    Except Err (Sel L α) :=
  match q.lookup b with
  | .error e => .error e
  | .ok f => memberPart q.retain b f (selComponent q.axisMap sel b) ok (!sk.isMulti)

/-- `Quilt._extract(row_key, column_key)` with `sk` the key on the Quilt axis and `ok` the key on the
    opposite axis. -/
def Quilt.extract {L α} [DecidableEq L] (q : Quilt L α) (sk ok : Key) : Except Err (Sel L α) :=
  if isNullSlice sk && isNullSlice ok then
    .ok { labels := q.bus.flatMap (fun p => p.2.labels.map (relabel q.retain p.1))
          opp := q.opp
          lines := q.bus.flatMap (fun p => p.2.lines)
          selReduced := false, oppReduced := false }
  else
    let n := q.axisMap.length
    match sk.positions n with
    | .error e => .error e
    | .ok ps =>
      let sel := maskOf n ps
      match busKeys q.axisMap sk ps with
      | .error e => .error e
      | .ok keys =>
        match keys.mapM (q.partFor sel sk ok) with
        | .error e => .error e
        | .ok parts => combine parts

/-- `Quilt._axis_array(axis)` for the supported direction: the lines of every member in Bus order. -/
def Quilt.axisLines {L α} (q : Quilt L α) : List (List α) := q.bus.flatMap (fun p => p.2.lines)

/-- `Quilt._axis_array_items`: `zip(keys, _axis_array)` -/
def Quilt.axisItems {L α} (q : Quilt L α) : List (QLabel L × List α) := q.labels.zip q.axisLines

def Quilt.toFrame {L α} [DecidableEq L] (q : Quilt L α) : Except Err (Sel L α) := q.extract .all .all

/-! ### specification: the concatenated Frame -/

/-- `Frame.from_concat(frames, axis)` / `Frame.from_concat_items(items, axis)` of the Bus's Frames. -/
def concatSpec {L α} (retain : Bool) (bus : Bus L α) : MFrame (QLabel L) L α :=
  { labels := bus.flatMap (fun p => p.2.labels.map (relabel retain p.1))
    opp := match bus with | [] => [] | p :: _ => p.2.opp
    lines := bus.flatMap (fun p => p.2.lines) }

/-- Positional selection on one Frame, in key order (the C04 semantics), both axes. -/
def specExtract {L α} (f : MFrame (QLabel L) L α) (sk ok : Key) : Except Err (Sel L α) :=
  match sk.positions f.labels.length with
  | .error e => .error e
  | .ok ps =>
    match oppPositions ok f.opp.length with
    | .error e => .error e
    | .ok os =>
      let r : Sel L α :=
        { labels := pick f.labels ps, opp := pick f.opp os
          lines := (pick f.lines ps).map (fun ln => pick ln os)
          selReduced := false, oppReduced := !ok.isMulti }
      if !sk.isMulti then r.reduce0 else .ok r

/-! ### Batch -/

/-- What a Batch holds: Frames or (after a reduction) Series. -/
inductive Item (L α : Type)
  | frame (f : MFrame L L α)
  | series (index : List L) (values : List α)
deriving DecidableEq, Repr

/-- One derived Batch: which wrapper produced it. -/
inductive Stage (L α : Type)
  | strict (op : Item L α → Except Err (Item L α))   -- `_apply_attr` / `apply` / `apply_items`, `max_workers is None`
  | except (op : Item L α → Except Err (Item L α))   -- `apply_except` / `apply_items_except`
  | pool (op : Item L α → Except Err (Item L α))     -- `_apply_pool` (`max_workers` given)
  | poolExcept (op : Item L α → Except Err (Item L α))   -- `_apply_pool_except`

/-- A Batch is lazy: `_derive` wraps the previous generator and evaluates nothing. -/
structure Batch (L α : Type) where
  src : List (L × Item L α)
  stages : List (Stage L α)

def Batch.ofItems {L α} (items : List (L × Item L α)) : Batch L α := ⟨items, []⟩

/-- `_derive(gen)` -/
def Batch.derive {L α} (b : Batch L α) (st : Stage L α) : Batch L α := { b with stages := b.stages ++ [st] }

def Batch.apply {L α} (b : Batch L α) (op : Item L α → Except Err (Item L α)) : Batch L α := b.derive (.strict op)
def Batch.applyExcept {L α} (b : Batch L α) (op : Item L α → Except Err (Item L α)) : Batch L α := b.derive (.except op)
def Batch.applyPool {L α} (b : Batch L α) (op : Item L α → Except Err (Item L α)) : Batch L α := b.derive (.pool op)

/-- What a generator produces when it is run to its end: the items it yields and the exception that
    ends it (if any). -/
abbrev Stream (L α : Type) := List (L × Item L α) × Option Err

/-- `for label, frame in self._items: yield label, call_attr((frame, attr, args, kwargs))`:
    `acc` = what has been yielded; an exception of the operation ends the generator; when the upstream
    generator is exhausted its own ending (`up`) is this generator's ending. -/
def strictGo {L α} (op : Item L α → Except Err (Item L α)) :
    List (L × Item L α) → List (L × Item L α) → Option Err → Stream L α
  | [], acc, up => (acc, up)
  | (l, f) :: rest, acc, up =>
    match op f with
    | .error e => (acc, some e)
    | .ok r => strictGo op rest (acc ++ [(l, r)]) up

/-- `apply_except`: `try: yield label, call_func(...) except exception: pass` -/
def exceptGo {L α} (op : Item L α → Except Err (Item L α)) :
    List (L × Item L α) → List (L × Item L α) → Option Err → Stream L α
  | [], acc, up => (acc, up)
  | (l, f) :: rest, acc, up =>
    match op f with
    | .error _ => exceptGo op rest acc up
    | .ok r => exceptGo op rest (acc ++ [(l, r)]) up

/-- `arg_gen` of the pool path: appends each label to `labels` while it hands the Frame to the executor. -/
def poolArgGen {L α} : List (L × Item L α) → List L → List (Item L α) → List L × List (Item L α)
  | [], labels, args => (labels, args)
  | (l, f) :: rest, labels, args => poolArgGen rest (labels ++ [l]) (args ++ [f])

/-- results of `executor.map` in submission order, up to the first task that raised -/
def poolResults {L α} (op : Item L α → Except Err (Item L α)) :
    List (Item L α) → List (Item L α) → List (Item L α) × Option Err
  | [], acc => (acc, none)
  | f :: rest, acc =>
    match op f with
    | .error e => (acc, some e)
    | .ok r => poolResults op rest (acc ++ [r])

/-- `_apply_pool`: `Executor.map` consumes `arg_gen` completely before the first result (so an exception
    of the upstream generator surfaces first and nothing is yielded); then `zip(labels, results)`. -/
def poolStage {L α} (op : Item L α → Except Err (Item L α)) (s : Stream L α) : Stream L α :=
  match s.2 with
  | some e => ([], some e)
  | none =>
    let (labels, args) := poolArgGen s.1 [] []
    let (results, e) := poolResults op args []
    (labels.zip results, e)

def runStage {L α} (st : Stage L α) (s : Stream L α) : Stream L α :=
  match st with
  | .strict op => strictGo op s.1 [] s.2
  | .except op => exceptGo op s.1 [] s.2
  | .pool op => poolStage op s
  | .poolExcept op =>
    -- every task is submitted first (the upstream generator is consumed), then failed futures are skipped
    match s.2 with
    | some e => ([], some e)
    | none => exceptGo op s.1 [] none

/-- running the nested generators to their end -/
def Batch.stream {L α} (b : Batch L α) : Stream L α := b.stages.foldl (fun s st => runStage st s) (b.src, none)

/-- what the consumer of a generator gets: the yielded values, or the exception that ended it -/
def itemsOf {β : Type} (s : List β × Option Err) : Except Err (List β) :=
  match s.2 with
  | none => .ok s.1
  | some e => .error e

/-- `list(batch.items())` -/
def Batch.items {L α} (b : Batch L α) : Except Err (List (L × Item L α)) := itemsOf b.stream

/-- `batch.op1(..).op2(..)...` -/
def Batch.chain {L α} (b : Batch L α) (ops : List (Item L α → Except Err (Item L α))) : Batch L α :=
  ops.foldl Batch.apply b

def Item.isSeries {L α} : Item L α → Bool
  | .series _ _ => true
  | .frame _ => false

/-- the labels of the axis along which containers are aligned by `to_frame(axis=0)` -/
def Item.oppOf {L α} : Item L α → List L
  | .series ix _ => ix
  | .frame f => f.opp

/-- The collecting loop of `Batch.to_frame`: labels, containers, `ndim1d &= container.ndim == 1`. -/
def toFrameGo {L α} : List (L × Item L α) → List L → List (Item L α) → Bool → List L × List (Item L α) × Bool
  | [], ls, cs, d => (ls, cs, d)
  | (l, c) :: rest, ls, cs, d => toFrameGo rest (ls ++ [l]) (cs ++ [c]) (d && c.isSeries)

/-- `Batch.to_frame(axis=0)` for aligned containers:
    all Series -> `Frame.from_concat(series, index=labels)`: one line per label;
    otherwise `Frame.from_concat_items(zip(labels, containers))`: lines appended under (label, inner label).
    Containers whose opposite labels differ are outside the model (`shape`): the library reindexes them. -/
def toFrameOf {L α} [DecidableEq L] (items : List (L × Item L α)) : Except Err (MFrame (QLabel L) L α) :=
  match toFrameGo items [] [] true with
  | (ls, cs, d) =>
    match cs with
    | [] => .ok { labels := [], opp := [], lines := [] }      -- `Frame.from_concat(())`: the empty Frame
    | c0 :: _ =>
      if !cs.all (fun c => decide (c.oppOf = c0.oppOf)) then .error .shape
      else if d then
        .ok { labels := ls.map .flat, opp := c0.oppOf
              lines := cs.map (fun c => match c with | .series _ vs => vs | .frame _ => []) }
      else if cs.any Item.isSeries then
        .error .shape          -- a mix of Series and Frames is outside the model
      else
        .ok { labels := (ls.zip cs).flatMap (fun p => match p.2 with
                          | .series _ _ => [QLabel.flat p.1]
                          | .frame f => f.labels.map (QLabel.pair p.1))
              opp := c0.oppOf
              lines := (ls.zip cs).flatMap (fun p => match p.2 with
                          | .series _ vs => [vs]
                          | .frame f => f.lines) }

def Batch.toFrame {L α} [DecidableEq L] (b : Batch L α) : Except Err (MFrame (QLabel L) L α) :=
  match b.items with
  | .error e => .error e
  | .ok items => toFrameOf items

/-- `Batch.to_bus`: `Series.from_items(self.items())` needs unique labels; a Bus holds Frames only. -/
def Batch.toBus {L α} [DecidableEq L] (b : Batch L α) : Except Err (List (L × Item L α)) :=
  match b.items with
  | .error e => .error e
  | .ok items =>
    if !decide ((items.map (·.1)).Nodup) then .error .nonUnique
    else if items.any (fun p => p.2.isSeries) then .error .init
    else .ok items

end SF.Quilt
