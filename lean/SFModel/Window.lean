/-
  SFModel.Window — `container_util.axis_window_items`: the `while True` loop that yields
  (label, window) pairs.

  Mirrors container_util.py:404-511: argument validation (`size <= 0`, `step < 0` → RuntimeError),
  `count_window_max`, `idx_left_max`, the loop body (`idx_right`, the two floored bounds, the
  slice `key`, the label index with its `IndexError` branches, `window_sized`, `window_valid`),
  the state update (`idx_left += step; size += size_increment; count += 1`) and the exit test.
  The loop gets a fuel argument; `SF.C13.window_fuel` shows that `count_window_max + 1` suffices.

  A window is reported as `(label position, first position, number of positions)`.
  Core Lean only.
-/
import SFModel.Basic

namespace SF.Window

structure WinParams where
  size : Int
  step : Int
  windowSized : Bool
  labelShift : Int
  startShift : Int
  sizeIncrement : Int
deriving Repr, DecidableEq

/-- the three loop variables -/
structure WinSt where
  idxLeft : Int
  size : Int
  count : Nat
deriving Repr, DecidableEq

/-- (label position, first position of the window, number of positions in the window) -/
abbrev Win := Nat × Nat × Nat

/-- `count_window_max` -/
def countWindowMax (p : WinParams) (n : Nat) : Nat :=
  if p.startShift ≥ 0 then n else n + p.startShift.natAbs

/-- One pass through the loop body on an axis of `n` entries; `valid lo len` stands for the user's
    `window_valid(window)` evaluated on the window at positions `[lo, lo+len)`.
    Returns what is yielded (if anything) and the next state. -/
def winBody (p : WinParams) (n : Nat) (valid : Nat → Nat → Bool) (s : WinSt) : Option Win × WinSt :=
  let idxRight : Int := s.idxLeft + s.size - 1
  let leftFloored : Int := if s.idxLeft > 0 then s.idxLeft else 0
  let rightFloored : Int := if idxRight > -1 then idxRight else -1
  -- key = slice(leftFloored, rightFloored + 1): both bounds are ≥ 0, Python clamps them to n
  let lo : Nat := min leftFloored.toNat n
  let hi : Nat := min (rightFloored + 1).toNat n
  let len : Nat := hi - lo
  let idxLabel : Int := idxRight + p.labelShift
  let ok : Bool :=
    decide (0 ≤ idxLabel ∧ idxLabel < n)                     -- label lookup does not raise IndexError
      && (!p.windowSized || decide ((len : Int) = s.size))   -- window.shape[axis] == size
      && valid lo len                                        -- window_valid(window)
  (if ok then some (idxLabel.toNat, lo, len) else none,
   ⟨s.idxLeft + p.step, s.size + p.sizeIncrement, s.count + 1⟩)

/-- `count > count_window_max or idx_left > idx_left_max or size < 0` -/
def winExit (p : WinParams) (n : Nat) (s : WinSt) : Bool :=
  decide (s.count > countWindowMax p n) || decide (s.idxLeft > (countWindowMax p n : Int) - 1)
    || decide (s.size < 0)

/-- The `while True` loop with fuel; `none` = the fuel ran out before the exit test fired. -/
def winLoop (p : WinParams) (n : Nat) (valid : Nat → Nat → Bool) : Nat → WinSt → Option (List Win)
  | 0, _ => none
  | fuel + 1, s =>
    let r := winBody p n valid s
    if winExit p n r.2 then some r.1.toList
    else (winLoop p n valid fuel r.2).map (fun rest => r.1.toList ++ rest)

/-- `axis_window_items` on an axis of `n` entries. -/
def windows (p : WinParams) (n : Nat) (valid : Nat → Nat → Bool) : Except Err (List Win) :=
  if p.size ≤ 0 then .error .shape
  else if p.step < 0 then .error .shape
  else
    match winLoop p n valid (countWindowMax p n + 1) ⟨p.startShift, p.size, 0⟩ with
    | none => .error .other
    | some ws => .ok ws

/-! ### reference enumeration -/

/-- The window anchored at `left` spanning `sz` positions (clipped to the axis), labelled by the
    entry `label_shift` away from its right-most position; dropped when that label does not exist,
    when `window_sized` and it was clipped, or when `window_valid` rejects it. -/
def windowOf (p : WinParams) (n : Nat) (valid : Nat → Nat → Bool) (left sz : Int) : Option Win :=
  let right : Int := left + sz - 1
  let label : Int := right + p.labelShift
  let lo : Nat := min left.toNat n
  let len : Nat := min (right + 1).toNat n - lo
  if label < 0 ∨ label ≥ n then none
  else if p.windowSized ∧ (len : Int) ≠ sz then none
  else if valid lo len then some (label.toNat, lo, len) else none

/-- The `k`-th candidate window from the documented meaning of the arguments: it starts at
    `start_shift + k*step` and spans `size + k*size_increment` positions. -/
def windowAt (p : WinParams) (n : Nat) (valid : Nat → Nat → Bool) (k : Nat) : Option Win :=
  windowOf p n valid (p.startShift + k * p.step) (p.size + k * p.sizeIncrement)

/-- candidate `k ≥ 1` is not reached once the exit test holds after `k` passes -/
def exitAt (p : WinParams) (n : Nat) (k : Nat) : Bool :=
  decide (k > countWindowMax p n)
    || decide (p.startShift + k * p.step > (countWindowMax p n : Int) - 1)
    || decide (p.size + k * p.sizeIncrement < 0)

/-- the candidates visited: 0, then 1, 2, … up to (excluding) the first `k` with `exitAt k` -/
def visited (p : WinParams) (n : Nat) : List Nat :=
  0 :: (List.range' 1 (countWindowMax p n)).takeWhile (fun k => !exitAt p n k)

def windowsSpec (p : WinParams) (n : Nat) (valid : Nat → Nat → Bool) : List Win :=
  (visited p n).filterMap (windowAt p n valid)

end SF.Window
