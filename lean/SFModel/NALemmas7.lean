/-
  SFModel.NALemmas7 — helper lemmas for C14, part 7: non-missing cells are never altered
  (proved directly on the mirrored algorithm, for every state, both directions).
-/
import SFModel.NALemmas6

namespace SF.NA

variable {α : Type} {isna : α → Bool}

/-- `out` has the shape of `l` and agrees with it on every non-missing cell -/
def Keeps (isna : α → Bool) (l out : List α) : Prop :=
  out.length = l.length ∧ ∀ (p : Nat) (x : α), l[p]? = some x → isna x = false → out[p]? = some x

theorem Keeps.refl (l : List α) : Keeps isna l l := ⟨rfl, fun _ _ h _ => h⟩

theorem Keeps.append {l1 o1 l2 o2 : List α} (h1 : Keeps isna l1 o1) (h2 : Keeps isna l2 o2) :
    Keeps isna (l1 ++ l2) (o1 ++ o2) := by
  refine ⟨by simp [h1.1, h2.1], ?_⟩
  intro p x hx hn
  by_cases c : p < l1.length
  · rw [List.getElem?_append_left c] at hx
    rw [List.getElem?_append_left (by rw [h1.1]; exact c)]
    exact h1.2 p x hx hn
  · rw [List.getElem?_append_right (by omega)] at hx
    rw [List.getElem?_append_right (by rw [h1.1]; omega), h1.1]
    exact h2.2 _ x hx hn

theorem Keeps.reverse {l o : List α} (h : Keeps isna l o) : Keeps isna l.reverse o.reverse := by
  refine ⟨by simp [h.1], ?_⟩
  intro p x hx hn
  have hp : p < l.length := by
    have := (List.getElem?_eq_some_iff.mp hx).1; simpa using this
  rw [List.getElem?_reverse hp] at hx
  rw [List.getElem?_reverse (by rw [h.1]; exact hp), h.1]
  exact h.2 _ x hx hn

theorem Keeps.trans {l m o : List α} (h1 : Keeps isna l m) (h2 : Keeps isna m o) : Keeps isna l o := by
  refine ⟨h2.1.trans h1.1, ?_⟩
  intro p x hx hn
  exact h2.2 p x (h1.2 p x hx hn) hn

/-- assigning a slice that only covers missing cells keeps the non-missing ones -/
theorem keeps_assignSlice (l : List α) (s e : Nat) (v : α)
    (h : ∀ p, s ≤ p → p < e → p < l.length → (l.map isna)[p]? = some true) :
    Keeps isna l (assignSlice l s e v) := by
  refine ⟨by simp, ?_⟩
  intro p x hx hn
  rw [assignSlice_get]
  by_cases c : s ≤ p ∧ p < e
  · exfalso
    have hp : p < l.length := (List.getElem?_eq_some_iff.mp hx).1
    have := h p c.1 c.2 hp
    rw [List.getElem?_map, hx] at this
    simp [hn] at this
  · rw [if_neg c]; exact hx

/-- the inner fills of either direction keep the non-missing cells of whatever they are written into -/
theorem keeps_applySlices (fwd : Bool) (limit : Nat) (cells acc : List α) (hlen : acc.length = cells.length) :
    ∀ (p : Nat) (x : α), cells[p]? = some x → isna x = false →
      (applySlices cells (slicesFromTargets fwd limit (cells.map isna) cells.length
        (binaryTransition (cells.map isna))) acc)[p]? = acc[p]? := by
  intro p x hx hn
  have hp : p < cells.length := (List.getElem?_eq_some_iff.mp hx).1
  have hsl : (cells.map isna).length = cells.length := by simp
  have hselp : (cells.map isna)[p]? = some false := by rw [List.getElem?_map, hx]; simp [hn]
  have htl : ∀ s ∈ slicesFromTargets fwd limit (cells.map isna) cells.length (binaryTransition (cells.map isna)),
      s.target < cells.length := by
    intro s hs
    rw [← hsl] at hs ⊢
    cases fwd with
    | true => exact fwd_target_lt limit _ s hs
    | false => exact bwd_target_lt limit _ s hs
  rcases applySlices_get cells _ acc p (by omega) htl with ⟨h1, _⟩ | ⟨s, hs, hc, _⟩
  · exact h1
  · exfalso
    rw [← hsl] at hs
    cases fwd with
    | true =>
      have f := fwd_cover_facts limit _ s p hs hc
      have := f.2.2.1 p f.1 (Nat.le_refl p)
      rw [hselp] at this; cases this
    | false =>
      have f := bwd_cover_facts limit _ s p hs hc
      have := f.2.2.1 p (Nat.le_refl p) f.1
      rw [hselp] at this; cases this

theorem bridgeFill_keeps (fwd : Bool) (limit : Nat) (st : Option (Bridge α)) (cells : List α) (d : α) :
    Keeps isna cells (bridgeFill isna fwd limit st cells d).1 := by
  cases st with
  | none => rw [bridgeFill_none]; exact Keeps.refl _
  | some b =>
    obtain ⟨bv, bna, bc⟩ := b
    cases hentry : (isna (edgeCell (!fwd) cells d) && !bna) with
    | false => rw [bridgeFill_noentry _ _ _ _ _ _ _ hentry]; exact Keeps.refl _
    | true =>
      cases fwd with
      | true =>
        obtain ⟨k, hk, hkn, hlead, hend⟩ := sidedSlice_leading (cells.map isna)
        rw [bridgeFill_fwd_entry limit bv bna bc cells d k hentry hk]
        apply keeps_assignSlice
        intro p _ h2 _
        have := bridgeEnd_le limit bc k
        exact hlead p (by omega)
      | false =>
        obtain ⟨s, hs, hsn, htrail, hbeg⟩ := sidedSlice_trailing (cells.map isna)
        have hlen : (cells.map isna).length = cells.length := by simp
        rw [hlen] at hs hsn htrail
        rw [bridgeFill_bwd_entry limit bv bna bc cells d s hentry hs hsn]
        apply keeps_assignSlice
        intro p h1 _ h3
        have := bridgeEnd_le limit bc (cells.length - s)
        exact htrail p (by omega) h3

theorem stepDir_keeps (fwd : Bool) (limit : Nat) (st : Option (Bridge α)) (b : RBlock α) :
    Keeps isna b.cells (stepDir isna fwd limit st b).1 := by
  cases h : (b.others || (b.cells.map isna).any id) with
  | false => rw [stepDir_shortcut fwd limit st b h]; exact Keeps.refl _
  | true =>
    by_cases h1 : b.oneD = true ∧ b.tl = []
    · rw [stepDir_oneD fwd limit st b h h1]
      have hc : b.cells = [b.hd] := by simp [RBlock.cells, h1.2]
      rw [hc]
      unfold stepOneD
      cases st with
      | none => exact Keeps.refl _
      | some s =>
        obtain ⟨bv, bna, bc⟩ := s
        refine ⟨rfl, ?_⟩
        intro p x hx hn
        cases p with
        | zero =>
          simp at hx; subst hx
          simp [hn]
        | succ p => simp at hx
    · rw [stepDir_twoD fwd limit st b h h1]
      simp only
      rw [innerFill_fst]
      have hb := bridgeFill_keeps (isna := isna) fwd limit st b.cells b.hd
      refine ⟨by simp [hb.1], ?_⟩
      intro p x hx hn
      rw [keeps_applySlices fwd limit b.cells _ hb.1 p x hx hn]
      exact hb.2 p x hx hn

theorem orient_keeps (fwd : Bool) {l o : List α} (h : Keeps isna l o) :
    Keeps isna (orient fwd l) (orient fwd o) := by
  cases fwd with
  | true => simpa [orient] using h
  | false => simpa [orient] using h.reverse

theorem runDir_keeps (fwd : Bool) (limit : Nat) (st : Option (Bridge α))
    (blocks : List (RBlock α)) :
    Keeps isna (blocks.map fun b => orient fwd b.cells).flatten
      ((runDir isna fwd limit st blocks).map (orient fwd)).flatten := by
  induction blocks generalizing st with
  | nil => exact Keeps.refl _
  | cons b bs ih =>
    simp only [runDir, List.map_cons, List.flatten_cons]
    exact Keeps.append (orient_keeps fwd (stepDir_keeps fwd limit st b)) (ih _)

/-- `fillna_forward / fillna_backward (axis=1)`, the code as it is or repaired, any limit, any layout:
    every non-missing cell of the row is returned unchanged -/
theorem rowDir_keeps (fwd : Bool) (limit : Nat) (blocks : List (RBlock α)) :
    Keeps isna (blocks.map RBlock.cells).flatten (rowDirAxis1 isna fwd limit blocks).flatten := by
  cases fwd with
  | true =>
    have := runDir_keeps (isna := isna) true limit none blocks
    have e : (orient true : List α → List α) = id := by funext l; simp [orient]
    rw [e] at this
    simpa [rowDirAxis1] using this
  | false =>
    have := (runDir_keeps (isna := isna) false limit none blocks.reverse).reverse
    have e : (orient false : List α → List α) = List.reverse := by funext l; simp [orient]
    rw [e] at this
    simp only [rowDirAxis1, Bool.false_eq_true, if_false]
    rw [flatten_reverse_map_reverse]
    have e2 : (List.map (fun b : RBlock α => b.cells.reverse) blocks.reverse).flatten.reverse =
        (blocks.map RBlock.cells).flatten := by
      rw [List.reverse_flatten, List.map_map]
      simp [List.map_reverse, Function.comp_def]
    rw [e2] at this
    exact this

end SF.NA
