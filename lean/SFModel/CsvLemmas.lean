/-
  Helper lemmas for SFModel.Csv (used by Props/C16.lean).
-/
import SFModel.Csv

namespace SF.Csv

/-- The dialect side conditions: delimiter ≠ quotechar, neither is CR or LF. -/
structure Dialect (d q : Char) : Prop where
  dq : d ≠ q
  dnl : isNl d = false
  qnl : isNl q = false

/-- A field without CR / LF. -/
def Clean (f : Field) : Prop := ∀ c ∈ f, isNl c = false

instance (f : Field) : Decidable (Clean f) := by unfold Clean; infer_instance

theorem isNl_lf : isNl '\n' = true := by decide

theorem ne_lf_of_not_nl {c : Char} (h : isNl c = false) : c ≠ '\n' := by
  intro hc; subst hc; simp [isNl] at h

/-! ### feeding -/

theorem feed_append (d q : Char) (a b : List Char) :
    ∀ s : PS, feed d q s (a ++ b) =
      match feed d q s a with
      | .error e => .error e
      | .ok s' => feed d q s' b := by
  induction a with
  | nil => intro s; rfl
  | cons c a ih =>
    intro s
    simp only [List.cons_append, feed]
    cases step d q s (some c) with
    | error e => rfl
    | ok s' => exact ih s'

theorem feed_append_ok {d q : Char} {a b : List Char} {s s' : PS} (h : feed d q s a = .ok s') :
    feed d q s (a ++ b) = feed d q s' b := by
  rw [feed_append, h]

/-- Characters that are neither delimiter nor CR/LF are appended while IN_FIELD. -/
theorem feed_inField (d q : Char) (body : List Char) (hb : ∀ c ∈ body, c ≠ d ∧ isNl c = false) :
    ∀ (cur : Field) (acc : List Field),
      feed d q ⟨.inField, cur, acc⟩ body = .ok ⟨.inField, cur ++ body, acc⟩ := by
  induction body with
  | nil => intro cur acc; simp [feed]
  | cons c body ih =>
    intro cur acc
    obtain ⟨h1, h2⟩ := hb c (by simp)
    have ih' := ih (fun x hx => hb x (by simp [hx])) (cur ++ [c]) acc
    simp only [feed, step, h2, h1, addChar, beq_iff_eq, if_false, Bool.false_eq_true]
    rw [ih']
    simp

/-- The doubled-quote encoding of any text is read back verbatim while IN_QUOTED_FIELD. -/
theorem feed_inQuoted (d q : Char) (body : List Char) :
    ∀ (cur : Field) (acc : List Field),
      feed d q ⟨.inQuoted, cur, acc⟩ (escapeField q body) = .ok ⟨.inQuoted, cur ++ body, acc⟩ := by
  induction body with
  | nil => intro cur acc; simp [feed, escapeField]
  | cons c body ih =>
    intro cur acc
    by_cases hc : c = q
    · subst hc
      simp only [escapeField, beq_self_eq_true, if_true, feed, step, addChar]
      rw [ih (cur ++ [c]) acc]
      simp
    · simp only [escapeField, beq_iff_eq, hc, if_false, feed, step, addChar]
      rw [ih (cur ++ [c]) acc]
      simp

theorem not_needsQuote {d q : Char} {f : Field} (h : needsQuote d q f = false) :
    ∀ c ∈ f, c ≠ d ∧ c ≠ q ∧ c ≠ '\n' := by
  intro c hc
  unfold needsQuote at h
  have := (List.any_eq_false.mp h) c hc
  simp only [Bool.or_eq_true, beq_iff_eq, not_or] at this
  exact ⟨this.1.1, this.1.2, this.2⟩

/-- A written field followed by the delimiter: the parser saves exactly the field, back in START_FIELD. -/
theorem feed_field_delim {d q : Char} (hd : Dialect d q) {f : Field} (hf : Clean f) (acc : List Field) :
    feed d q ⟨.startField, [], acc⟩ (writeField d q f ++ [d]) = .ok ⟨.startField, [], acc ++ [f]⟩ := by
  have hdq : d ≠ q := hd.dq
  have hqd : q ≠ d := fun h => hd.dq h.symm
  have hdn := hd.dnl
  have hqn := hd.qnl
  unfold writeField
  by_cases hq : needsQuote d q f = true
  · simp only [hq, if_true, List.cons_append, List.append_assoc, feed, step, stepStartField, hqn,
      beq_self_eq_true, Bool.false_eq_true, if_false]
    rw [feed_append_ok (feed_inQuoted d q f [] acc)]
    simp [feed, step, saveField, hdq]
  · have hq' : needsQuote d q f = false := by simpa using hq
    have hall := not_needsQuote hq'
    simp only [hq', Bool.false_eq_true, if_false]
    cases f with
    | nil => simp [feed, step, stepStartField, saveField, hdn, hdq]
    | cons b bs =>
      obtain ⟨b1, b2, _⟩ := hall b (by simp)
      have bn : isNl b = false := hf b (by simp)
      have hbs : ∀ c ∈ bs, c ≠ d ∧ isNl c = false := fun c hc =>
        ⟨(hall c (by simp [hc])).1, hf c (by simp [hc])⟩
      simp only [List.cons_append, feed, step, stepStartField, bn, b1, b2, beq_iff_eq, addChar,
        Bool.false_eq_true, if_false, List.nil_append]
      rw [feed_append_ok (feed_inField d q bs hbs [b] acc)]
      simp [feed, step, saveField, hdn]

/-- A written field followed by the line terminator: the field is saved and the parser eats the newline. -/
theorem feed_field_nl {d q : Char} (hd : Dialect d q) {f : Field} (hf : Clean f) (acc : List Field) :
    feed d q ⟨.startField, [], acc⟩ (writeField d q f ++ ['\n']) = .ok ⟨.eatCrnl, [], acc ++ [f]⟩ := by
  have hdq : d ≠ q := hd.dq
  have hdn := hd.dnl
  have hqn := hd.qnl
  have hnq : ('\n' : Char) ≠ q := fun h => (ne_lf_of_not_nl hqn) h.symm
  have hnd : ('\n' : Char) ≠ d := fun h => (ne_lf_of_not_nl hdn) h.symm
  unfold writeField
  by_cases hq : needsQuote d q f = true
  · simp only [hq, if_true, List.cons_append, List.append_assoc, feed, step, stepStartField, hqn,
      beq_self_eq_true, Bool.false_eq_true, if_false]
    rw [feed_append_ok (feed_inQuoted d q f [] acc)]
    simp [feed, step, saveField, hnq, hnd, isNl_lf]
  · have hq' : needsQuote d q f = false := by simpa using hq
    have hall := not_needsQuote hq'
    simp only [hq', Bool.false_eq_true, if_false]
    cases f with
    | nil => simp [feed, step, stepStartField, saveField, isNl_lf]
    | cons b bs =>
      obtain ⟨b1, b2, _⟩ := hall b (by simp)
      have bn : isNl b = false := hf b (by simp)
      have hbs : ∀ c ∈ bs, c ≠ d ∧ isNl c = false := fun c hc =>
        ⟨(hall c (by simp [hc])).1, hf c (by simp [hc])⟩
      simp only [List.cons_append, feed, step, stepStartField, bn, b1, b2, beq_iff_eq, addChar,
        Bool.false_eq_true, if_false, List.nil_append]
      rw [feed_append_ok (feed_inField d q bs hbs [b] acc)]
      simp [feed, step, saveField, isNl_lf]

/-! ### the written row -/

/-- The written row, field by field: separators between fields, the terminator after the last. -/
def encRow (d q : Char) : List Field → List Char
  | [] => []
  | [f] => writeField d q f ++ ['\n']
  | f :: g :: r => writeField d q f ++ d :: encRow d q (g :: r)

theorem joinFields_foldl (d q : Char) (rest : List Field) (buf : List Char) (n : Nat) (hn : 0 < n) :
    rest.foldl (fun acc f => (acc.1 ++ (if acc.2 > 0 then [d] else []) ++ writeField d q f, acc.2 + 1)) (buf, n)
      = (buf ++ rest.flatMap (fun g => d :: writeField d q g), n + rest.length) := by
  induction rest generalizing buf n with
  | nil => simp
  | cons g rest ih =>
    simp only [List.foldl_cons]
    have : (if n > 0 then [d] else []) = [d] := by simp [hn]
    rw [this, ih _ _ (by omega)]
    simp [List.flatMap_cons, Nat.add_comm, Nat.add_left_comm]

theorem joinFields_cons (d q : Char) (f : Field) (rest : List Field) :
    joinFields d q (f :: rest) = (writeField d q f ++ rest.flatMap (fun g => d :: writeField d q g), rest.length + 1) := by
  unfold joinFields
  simp only [List.foldl_cons, Nat.lt_irrefl, if_false, List.append_nil, List.nil_append, gt_iff_lt]
  rw [joinFields_foldl d q rest _ 1 (by omega)]
  simp [Nat.add_comm]

theorem writeField_eq_nil {d q : Char} {f : Field} : writeField d q f = [] ↔ f = [] := by
  unfold writeField
  constructor
  · intro h
    split at h
    · simp at h
    · exact h
  · intro h; subst h; simp [needsQuote]

theorem joined_encRow (d q : Char) (f : Field) (rest : List Field) :
    (writeField d q f ++ rest.flatMap (fun g => d :: writeField d q g)) ++ ['\n'] = encRow d q (f :: rest) := by
  induction rest generalizing f with
  | nil => simp [encRow]
  | cons g rest ih =>
    simp only [List.flatMap_cons, encRow]
    rw [← ih g]
    simp

/-- Any row other than `[]` and the lone empty field is written as its fields with separators. -/
theorem csvWriteRow_eq_encRow (d q : Char) {fs : List Field} (h0 : fs ≠ []) (h1 : fs ≠ [[]]) :
    csvWriteRow d q fs = encRow d q fs := by
  cases fs with
  | nil => exact absurd rfl h0
  | cons f rest =>
    unfold csvWriteRow
    simp only [joinFields_cons]
    have hne : (writeField d q f ++ rest.flatMap (fun g => d :: writeField d q g)).isEmpty = false := by
      cases rest with
      | nil =>
        have : f ≠ [] := fun h => h1 (by simp [h])
        have : writeField d q f ≠ [] := fun h => this (writeField_eq_nil.mp h)
        simpa using this
      | cons g r => simp
    simp only [hne, Bool.and_false, Bool.false_eq_true, if_false]
    exact joined_encRow d q f rest

theorem feed_encRow {d q : Char} (hd : Dialect d q) :
    ∀ (fs : List Field), fs ≠ [] → (∀ f ∈ fs, Clean f) → ∀ acc : List Field,
      feed d q ⟨.startField, [], acc⟩ (encRow d q fs) = .ok ⟨.eatCrnl, [], acc ++ fs⟩
  | [], h, _, _ => absurd rfl h
  | [f], _, hc, acc => by
    simp only [encRow]
    exact feed_field_nl hd (hc f (by simp)) acc
  | f :: g :: r, _, hc, acc => by
    simp only [encRow]
    have e : writeField d q f ++ d :: encRow d q (g :: r) = (writeField d q f ++ [d]) ++ encRow d q (g :: r) := by simp
    rw [e, feed_append_ok (feed_field_delim hd (hc f (by simp)) acc)]
    rw [feed_encRow hd (g :: r) (by simp) (fun x hx => hc x (by simp [hx])) (acc ++ [f])]
    simp

/-- The first character of a written row (other than the two special rows) is not CR / LF. -/
theorem encRow_head {d q : Char} (hd : Dialect d q) {fs : List Field} (h0 : fs ≠ []) (h1 : fs ≠ [[]])
    (hc : ∀ f ∈ fs, Clean f) : ∃ ch, (encRow d q fs).head? = some ch ∧ isNl ch = false := by
  cases fs with
  | nil => exact absurd rfl h0
  | cons f rest =>
    by_cases hq : needsQuote d q f = true
    · cases rest with
      | nil => exact ⟨q, by simp [encRow, writeField, hq], hd.qnl⟩
      | cons g r => exact ⟨q, by simp [encRow, writeField, hq], hd.qnl⟩
    · have hq' : needsQuote d q f = false := by simpa using hq
      cases f with
      | nil =>
        cases rest with
        | nil => exact absurd rfl h1
        | cons g r => exact ⟨d, by simp [encRow, writeField, needsQuote], hd.dnl⟩
      | cons b bs =>
        have bn : isNl b = false := hc (b :: bs) (by simp) b (by simp)
        cases rest with
        | nil => exact ⟨b, by simp [encRow, writeField, hq'], bn⟩
        | cons g r => exact ⟨b, by simp [encRow, writeField, hq'], bn⟩

/-- START_RECORD falls through to START_FIELD on a character that is not CR / LF. -/
theorem feed_startRecord {d q : Char} {ch : Char} (hn : isNl ch = false) (tl : List Char) (acc : List Field) :
    feed d q ⟨.startRecord, [], acc⟩ (ch :: tl) = feed d q ⟨.startField, [], acc⟩ (ch :: tl) := by
  simp [feed, step, hn]

/-! ### tab join / split -/

theorem splitOnChar_ne_nil (t : Char) (l : List Char) : splitOnChar t l ≠ [] := by
  induction l with
  | nil => simp [splitOnChar]
  | cons c cs ih =>
    simp only [splitOnChar]
    split
    · simp
    · split <;> simp

/-- Splitting a separator-free text gives the text itself. -/
theorem splitOnChar_free {t : Char} {f : List Char} (h : ∀ c ∈ f, c ≠ t) : splitOnChar t f = [f] := by
  induction f with
  | nil => rfl
  | cons c cs ih =>
    have hc : c ≠ t := h c (by simp)
    have := ih (fun x hx => h x (by simp [hx]))
    simp [splitOnChar, hc, this]

theorem splitOnChar_append_sep {t : Char} {f : List Char} (h : ∀ c ∈ f, c ≠ t) (rest : List Char) :
    splitOnChar t (f ++ t :: rest) = f :: splitOnChar t rest := by
  induction f with
  | nil => simp [splitOnChar]
  | cons c cs ih =>
    have hc : c ≠ t := h c (by simp)
    have := ih (fun x hx => h x (by simp [hx]))
    simp [splitOnChar, hc, this]

/-- `'\t'.join(fs).split('\t') = fs` for a non-empty row of tab-free fields. -/
theorem splitOnChar_tabJoin : ∀ (fs : List Field), fs ≠ [] → (∀ f ∈ fs, ∀ c ∈ f, c ≠ '\t') →
    splitOnChar '\t' (tabJoin fs) = fs
  | [], h, _ => absurd rfl h
  | [f], _, hf => by simp [tabJoin, splitOnChar_free (hf f (by simp))]
  | f :: g :: r, _, hf => by
    simp only [tabJoin]
    rw [splitOnChar_append_sep (hf f (by simp))]
    rw [splitOnChar_tabJoin (g :: r) (by simp) (fun x hx => hf x (by simp [hx]))]

theorem dropWhile_head {p : Char → Bool} {l : List Char} (h : ∀ c, l.head? = some c → p c = false) :
    l.dropWhile p = l := by
  cases l with
  | nil => rfl
  | cons c cs => simp [List.dropWhile, h c (by simp)]

/-- `strip` leaves a text alone when its first and last characters are not strippable. -/
theorem strip_id {l : List Char} (hh : ∀ c, l.head? = some c → isStrip c = false)
    (hl : ∀ c, l.getLast? = some c → isStrip c = false) : strip l = l := by
  unfold strip
  rw [dropWhile_head hh]
  rw [dropWhile_head (l := l.reverse) (by
    intro c hc
    apply hl c
    simpa [List.head?_reverse] using hc)]
  simp

theorem strip_append_nl {l : List Char} (hne : l ≠ []) (hh : ∀ c, l.head? = some c → isStrip c = false)
    (hl : ∀ c, l.getLast? = some c → isStrip c = false) : strip (l ++ ['\n']) = l := by
  unfold strip
  have h1 : (l ++ ['\n']).dropWhile isStrip = l ++ ['\n'] := by
    apply dropWhile_head
    intro c hc
    cases l with
    | nil => exact absurd rfl hne
    | cons x xs => exact hh c (by simpa using hc)
  rw [h1]
  simp only [List.reverse_append, List.reverse_cons, List.reverse_nil, List.nil_append, List.singleton_append]
  have h2 : ('\n' :: l.reverse).dropWhile isStrip = l.reverse.dropWhile isStrip := by
    simp [List.dropWhile, isStrip]
  rw [h2, dropWhile_head (l := l.reverse) (by
    intro c hc
    apply hl c
    simpa [List.head?_reverse] using hc)]
  simp

/-- No cell starts or ends with a space. -/
def NoEdgeSpace (f : Field) : Prop := f.head? ≠ some ' ' ∧ f.getLast? ≠ some ' '

instance (f : Field) : Decidable (NoEdgeSpace f) := by unfold NoEdgeSpace; infer_instance

theorem tabJoin_ne_nil : ∀ {fs : List Field}, fs ≠ [] → fs ≠ [[]] → tabJoin fs ≠ []
  | [], h, _ => absurd rfl h
  | [f], _, h1 => by
    simp only [tabJoin]
    intro h; exact h1 (by simp [h])
  | f :: g :: r, _, _ => by simp [tabJoin]

theorem isStrip_of {c : Char} (h1 : c ≠ ' ') (h2 : isNl c = false) : isStrip c = false := by
  simp only [isNl, Bool.or_eq_false_iff, beq_eq_false_iff_ne] at h2
  simp [isStrip, h1, h2.1, h2.2]

theorem tabJoin_head : ∀ {fs : List Field}, (∀ f ∈ fs, Clean f ∧ NoEdgeSpace f) →
    ∀ c, (tabJoin fs).head? = some c → isStrip c = false
  | [], _, c, h => by simp [tabJoin] at h
  | [f], hf, c, h => by
    simp only [tabJoin] at h
    obtain ⟨hcl, hes⟩ := hf f (by simp)
    cases f with
    | nil => simp at h
    | cons b bs =>
      simp at h; subst h
      exact isStrip_of (by intro hb; exact hes.1 (by simp [hb])) (hcl b (by simp))
  | f :: g :: r, hf, c, h => by
    simp only [tabJoin] at h
    obtain ⟨hcl, hes⟩ := hf f (by simp)
    cases f with
    | nil => simp at h; subst h; decide
    | cons b bs =>
      simp at h; subst h
      exact isStrip_of (by intro hb; exact hes.1 (by simp [hb])) (hcl b (by simp))

theorem tabJoin_getLast : ∀ {fs : List Field}, (∀ f ∈ fs, Clean f ∧ NoEdgeSpace f) →
    ∀ c, (tabJoin fs).getLast? = some c → isStrip c = false
  | [], _, c, h => by simp [tabJoin] at h
  | [f], hf, c, h => by
    simp only [tabJoin] at h
    obtain ⟨hcl, hes⟩ := hf f (by simp)
    have hm : c ∈ f := List.mem_of_getLast? h
    exact isStrip_of (by intro hb; subst hb; exact hes.2 h) (hcl c hm)
  | f :: g :: r, hf, c, h => by
    simp only [tabJoin] at h
    have ih := tabJoin_getLast (fs := g :: r) (fun x hx => hf x (by simp [hx])) c
    rw [List.getLast?_append] at h
    cases hr : (tabJoin (g :: r)) with
    | nil =>
      simp [hr] at h
      subst h; decide
    | cons x xs =>
      have : ('\t' :: tabJoin (g :: r)).getLast? = (tabJoin (g :: r)).getLast? := by
        rw [hr]; simp [List.getLast?_cons_cons]
      rw [this] at h
      have hsome : (tabJoin (g :: r)).getLast?.isSome := by rw [hr]; simp
      obtain ⟨y, hy⟩ := Option.isSome_iff_exists.mp hsome
      rw [hy] at h
      simp at h
      subst h
      exact ih hy

end SF.Csv
