/- Lemmas for SFModel.FrameSel (selection at the Frame level); property theorems in Props/C04Frame.lean. -/
import SFModel.FrameSel
import SFModel.Props.C03
import SFModel.Props.C02
set_option linter.unusedSectionVars false
set_option linter.unusedVariables false

namespace SF

/-! ### list selection -/

theorem pick_cons {γ} (l : List γ) (p : Nat) (ps : List Nat) (hp : p < l.length) :
    pick l (p :: ps) = l[p] :: pick l ps := by
  simp [pick, List.getElem?_eq_getElem hp]

/-- the selected values are the values at the positions, in key order -/
theorem pick_map_some {γ} (l : List γ) (ps : List Nat) (h : ∀ p ∈ ps, p < l.length) :
    (pick l ps).map some = ps.map (l[·]?) := by
  induction ps with
  | nil => rfl
  | cons p ps ih =>
    have hp : p < l.length := h p (by simp)
    rw [pick_cons l p ps hp, List.map_cons, List.map_cons, ih (fun q hq => h q (by simp [hq])),
      List.getElem?_eq_getElem hp]

theorem pick_getElem? {γ} (l : List γ) (ps : List Nat) (h : ∀ p ∈ ps, p < l.length) (i : Nat) :
    (pick l ps)[i]? = (ps[i]?).bind (l[·]?) := by
  have := congrArg (·[i]?) (pick_map_some l ps h)
  simp only [List.getElem?_map] at this
  cases hps : ps[i]? with
  | none =>
    rw [hps] at this
    simp only [Option.map_none, Option.map_eq_none_iff] at this
    simp [this]
  | some p =>
    rw [hps] at this
    simp only [Option.map_some] at this
    have hp : p < l.length := h p (List.mem_of_getElem? hps)
    simp only [Option.bind_some, List.getElem?_eq_getElem hp] at this ⊢
    cases hq : (pick l ps)[i]? with
    | none => rw [hq] at this; simp at this
    | some x => rw [hq] at this; simpa using this

theorem pick_nodup {γ} (l : List γ) (ps : List Nat) (hl : l.Nodup) (hps : ps.Nodup) : (pick l ps).Nodup := by
  unfold pick
  apply List.Pairwise.filterMap _ _ hps
  intro a a' hne b hb b' hb' e
  subst e
  obtain ⟨ha1, _⟩ := List.getElem?_eq_some_iff.mp hb
  exact hne ((List.getElem?_inj ha1 hl).mp (hb.trans hb'.symm))

theorem nodup_of_pick_nodup {γ} (l : List γ) (ps : List Nat) (h : ∀ p ∈ ps, p < l.length)
    (hn : (pick l ps).Nodup) : ps.Nodup := by
  induction ps with
  | nil => exact List.nodup_nil
  | cons p ps ih =>
    have hp : p < l.length := h p (by simp)
    rw [pick_cons l p ps hp, List.nodup_cons] at hn
    rw [List.nodup_cons]
    refine ⟨fun hmem => hn.1 ?_, ih (fun q hq => h q (by simp [hq])) hn.2⟩
    unfold pick
    rw [List.mem_filterMap]
    exact ⟨p, hmem, List.getElem?_eq_getElem hp⟩

end SF

namespace SF

/-! ### keys -/

theorem nullSlice_positions (n : Nat) : (PySlice.mk none none none).positions n = .ok (List.range n) := by
  have hi : (PySlice.mk none none none).indices n = .ok (0, (n : Int), 1) := by
    simp [PySlice.indices]
  simp only [PySlice.positions, hi, Except.ok.injEq]
  apply List.ext_getElem
  · simp [rangeList_length, rangeLen]
    omega
  · intro i h1 h2
    simp only [List.getElem_map, rangeList_getElem, List.getElem_range]
    omega

theorem Key.isNull_positions {k : Key} (h : k.isNull = true) (n : Nat) : k.positions n = .ok (List.range n) := by
  cases k with
  | all => rfl
  | slice s =>
    obtain ⟨a, b, c⟩ := s
    cases a <;> cases b <;> cases c <;> simp [Key.isNull] at h
    exact nullSlice_positions n
  | int i => simp [Key.isNull] at h
  | list is => simp [Key.isNull] at h
  | mask bs => simp [Key.isNull] at h

theorem Key.int?_of_multi {k : Key} (h : k.isMulti = true) : k.int? = none := by
  cases k <;> simp [Key.isMulti] at h <;> rfl

theorem Key.int?_int (i : Int) : (Key.int i).int? = some i := rfl

theorem Key.isNull_multi {k : Key} (h : k.isNull = true) : k.isMulti = true := by
  cases k <;> simp [Key.isNull] at h <;> rfl

/-- an integer array handed on by `_loc_to_iloc` addresses the positions it lists -/
theorem IKey.toKey_positions (k : IKey) (n : Nat) : k.toKey.positions n = k.positions n := by
  cases k with
  | int i => rfl
  | list is => rfl
  | slice s => rfl
  | arr ps =>
    simp only [IKey.toKey, IKey.positions, Key.positions]
    induction ps with
    | nil => rfl
    | cons p ps ih =>
      simp only [List.map_cons, List.mapM_cons, List.all_cons, Bool.and_eq_true, decide_eq_true_eq]
      by_cases hp : p < n
      · have h1 : normPos (Int.ofNat p) n = .ok p := by
          simp only [normPos, Int.ofNat_eq_natCast]
          rw [if_pos (by omega)]; simp
        rw [h1]
        by_cases hall : ps.all (· < n) = true
        · rw [if_pos hall] at ih
          simp [ih, hp, hall, bind, Except.bind, pure, Except.pure]
        · rw [if_neg hall] at ih
          simp [ih, hp, hall, bind, Except.bind]
      · have h1 : normPos (Int.ofNat p) n = .error .lookup := by
          simp only [normPos, Int.ofNat_eq_natCast]
          rw [if_neg (by omega), if_neg (by omega)]
        rw [h1]
        simp [hp, bind, Except.bind]

end SF

namespace SF

/-! ### the index of one axis of the result -/

namespace Index
variable {β : Type} [DecidableEq β] [IntLabel β]

theorem mk?_ok_wf {ls : List β} (hn : ls.Nodup) :
    ∃ ix : Index β, mk? ls = .ok ix ∧ ix.WF ∧ ix.labels = ls ∧ ix.map.isSome = true := by
  refine ⟨⟨ls, some (ls.zipIdx 0)⟩, by rw [mk?_eq, if_pos hn], ⟨hn, ?_⟩, rfl, rfl⟩
  exact AMap.build_some_iff.mpr ⟨hn, rfl⟩

theorem extractIloc_ok {ix : Index β} (hw : ix.WF) {k : Key} {ps : List Nat}
    (hk : k.positions ix.labels.length = .ok ps) (hn : ps.Nodup) :
    ∃ ix', ix.extractIloc k = .ok ix' ∧ ix'.WF ∧ ix'.labels = pick ix.labels ps := by
  obtain ⟨ix', h1, h2, h3, _⟩ := mk?_ok_wf (pick_nodup ix.labels ps hw.1 hn)
  exact ⟨ix', by simp only [extractIloc, hk, h1], h2, h3⟩

theorem extractIloc_dup {ix : Index β} {k : Key} {ps : List Nat}
    (hk : k.positions ix.labels.length = .ok ps) (hn : ¬ ps.Nodup) :
    ix.extractIloc k = .error .nonUnique := by
  have hlt := C04.key_positions_in_range hk
  have : ¬ (pick ix.labels ps).Nodup := fun h => hn (nodup_of_pick_nodup _ _ hlt h)
  simp only [extractIloc, hk, mk?_eq, if_neg this]

theorem axisIndex_ok {ix : Index β} (hw : ix.WF) {k : Key} {ps : List Nat}
    (hk : k.positions ix.labels.length = .ok ps) (hn : ps.Nodup) :
    ∃ ix', ix.axisIndex k = .ok ix' ∧ ix'.WF ∧ ix'.labels = pick ix.labels ps := by
  by_cases hnull : k.isNull = true
  · rw [Key.isNull_positions hnull] at hk
    simp only [Except.ok.injEq] at hk
    subst hk
    exact ⟨ix, by simp [axisIndex, hnull], hw, (pick_range _).symm⟩
  · obtain ⟨ix', h1, h2, h3⟩ := extractIloc_ok hw hk hn
    exact ⟨ix', by simp only [axisIndex, hnull, h1]; rfl, h2, h3⟩

theorem axisIndex_dup {ix : Index β} {k : Key} {ps : List Nat}
    (hk : k.positions ix.labels.length = .ok ps) (hn : ¬ ps.Nodup) :
    ix.axisIndex k = .error .nonUnique := by
  have hnull : ¬ k.isNull = true := by
    intro h
    rw [Key.isNull_positions h] at hk
    simp only [Except.ok.injEq] at hk
    subst hk
    exact hn List.nodup_range
  simp only [axisIndex, hnull, extractIloc_dup hk hn]; rfl

theorem axisIndex_err {ix : Index β} {k : Key} {e : Err}
    (hk : k.positions ix.labels.length = .error e) : ix.axisIndex k = .error e := by
  have hnull : ¬ k.isNull = true := by
    intro h
    rw [Key.isNull_positions h] at hk
    cases hk
  simp only [axisIndex, hnull, extractIloc, hk]; rfl

theorem labelAt_ok {ix : Index β} {i : Int} {p : Nat} (hp : normPos i ix.labels.length = .ok p) :
    ∃ a, ix.labelAt i = .ok a ∧ ix.labels[p]? = some a := by
  have hlt : p < ix.labels.length := by
    have := C04.key_positions_in_range (k := .int i) (n := ix.labels.length) (ps := [p])
      (by simp [Key.positions, hp, Except.map])
    exact this p (by simp)
  exact ⟨ix.labels[p], by simp [labelAt, hp, List.getElem?_eq_getElem hlt], List.getElem?_eq_getElem hlt⟩

theorem labelAt_err {ix : Index β} {i : Int} {e : Err} (hp : normPos i ix.labels.length = .error e) :
    ix.labelAt i = .error e := by
  simp [labelAt, hp]

end Index

end SF

namespace SF

/-! ### the blocks of the result -/

namespace TB
variable {α : Type}

theorem extract_blocks_pos {tb : TB α} {rk ck : Key} {r : TB α} (h : tb.extract rk ck = .ok r) :
    ∀ b ∈ r.blocks, 0 < b.width := by
  simp only [extract, bind, Except.bind] at h
  split at h
  · cases h
  · split at h
    · cases h
    · split at h
      · cases h
      · split at h
        · cases h
        · rename_i r0 hr0
          simp only [Except.ok.injEq] at h
          subst h
          exact (TB.fromBlocks_spec _ _ _ hr0).1.1

theorem extract_row_err {tb : TB α} {rk : Key} (ck : Key) {e : Err} (hrk : rk.positions tb.rows = .error e) :
    tb.extract rk ck = .error e := by
  have : rowPositions tb rk = .error e := by
    cases rk with
    | all => simp [Key.positions] at hrk
    | _ => simp only [rowPositions, hrk]; rfl
  simp only [extract, this, bind, Except.bind]

theorem extract_intcol_err {tb : TB α} (rk : Key) {j : Int} {e : Err} (hj : normPos j tb.ncols = .error e) :
    ∃ e', tb.extract rk (.int j) = .error e' := by
  simp only [extract, bind, Except.bind]
  split
  · exact ⟨_, rfl⟩
  · simp only [keyToBlockSlices, index_length, hj]
    exact ⟨_, rfl⟩

/-- `extract_refines` with the well-formedness of the answer -/
theorem extract_wf (tb : TB α) (h : tb.WF) (rk ck : Key) (rps cps : List Nat)
    (hck : ck.positions tb.ncols = .ok cps) (hnd : cps.Nodup) (hrk : rk.positions tb.rows = .ok rps) :
    ∃ r, tb.extract rk ck = .ok r ∧ r.WF ∧
      r.cols = cps.map (fun j => pick (tb.cols.getD j []) rps) ∧
      r.dtypes = cps.map (fun j => tb.dtypes.getD j "") ∧ r.rows = rps.length ∧ r.ncols = cps.length := by
  obtain ⟨r, h1, h2, h3, h4⟩ := C03.extract_refines tb h rk ck rps cps hck hnd hrk
  have hcl := C04.key_positions_in_range hck
  have hrl := C04.key_positions_in_range hrk
  obtain ⟨hc1, hc2, _, _⟩ := C03.cols_wf tb h
  refine ⟨r, h1, ⟨extract_blocks_pos h1, ?_⟩, h2, h3, h4, ?_⟩
  · intro b hb c hc
    have hmem : c ∈ r.cols := by
      simp only [cols, List.mem_flatMap]; exact ⟨b, hb, hc⟩
    rw [h2, List.mem_map] at hmem
    obtain ⟨j, hj, rfl⟩ := hmem
    have hjl : j < tb.cols.length := by rw [hc1]; exact hcl j hj
    rw [h4, pick_length]
    intro p hp
    rw [List.getD_eq_getElem?_getD, List.getElem?_eq_getElem hjl, Option.getD_some,
      hc2 _ (List.getElem_mem hjl)]
    exact hrl p hp
  · rw [← cols_length, h2, List.length_map]

/-- cell `(i', j')` of the answer is cell `(rps[i'], cps[j'])` of the source, and it exists -/
theorem cell_of_cols (tb r : TB α) (h : tb.WF) (rps cps : List Nat)
    (hcl : ∀ j ∈ cps, j < tb.ncols) (hrl : ∀ i ∈ rps, i < tb.rows)
    (hc : r.cols = cps.map (fun j => pick (tb.cols.getD j []) rps))
    (i' j' : Nat) (hi : i' < rps.length) (hj : j' < cps.length) :
    r.cell i' j' = tb.cell rps[i'] cps[j'] ∧ (r.cell i' j').isSome = true := by
  obtain ⟨hc1, hc2, _, _⟩ := C03.cols_wf tb h
  have hjl : cps[j'] < tb.cols.length := by rw [hc1]; exact hcl _ (List.getElem_mem hj)
  have hlen : (tb.cols[cps[j']]).length = tb.rows := hc2 _ (List.getElem_mem hjl)
  have hil : rps[i'] < (tb.cols[cps[j']]).length := by rw [hlen]; exact hrl _ (List.getElem_mem hi)
  have hr : r.cell i' j' = some (tb.cols[cps[j']])[rps[i']] := by
    simp only [cell, hc, List.getElem?_map, List.getElem?_eq_getElem hj, Option.map_some, Option.bind_some,
      List.getD_eq_getElem?_getD, List.getElem?_eq_getElem hjl, Option.getD_some]
    rw [pick_getElem? _ _ (by intro p hp; rw [hlen]; exact hrl p hp), List.getElem?_eq_getElem hi,
      Option.bind_some, List.getElem?_eq_getElem hil]
  have ht : tb.cell rps[i'] cps[j'] = some (tb.cols[cps[j']])[rps[i']] := by
    simp only [cell, List.getElem?_eq_getElem hjl, Option.bind_some, List.getElem?_eq_getElem hil]
  exact ⟨hr.trans ht.symm, by rw [hr]; rfl⟩

end TB

/-- `blocks.values[0]` of columns that all hold a cell -/
theorem row0_ok {α : Type} (cs : List (List α)) (h : ∀ c ∈ cs, c ≠ []) :
    ∃ vs, row0 cs = .ok vs ∧ vs.map some = cs.map (·[0]?) ∧ vs.length = cs.length := by
  induction cs with
  | nil => exact ⟨[], rfl, rfl, rfl⟩
  | cons c cs ih =>
    obtain ⟨vs, h1, h2, h3⟩ := ih (fun x hx => h x (List.mem_cons_of_mem _ hx))
    cases c with
    | nil => exact absurd rfl (h [] (by simp))
    | cons v c' =>
      refine ⟨v :: vs, ?_, by simp [h2], by simp [h3]⟩
      simp only [row0] at h1 ⊢
      simp [List.mapM_cons, h1, bind, Except.bind, pure, Except.pure]

end SF

namespace SF

/-! ### `Frame._extract` -/

namespace Fr
variable {α β : Type} [DecidableEq β] [IntLabel β]

/-- both keys keep the dimension, no position repeated: a well-formed Frame with exactly the
    addressed labels and cells, in key order -/
theorem iloc_frame_spec (f : Fr α β) (h : f.WF) (rk ck : Key) (rps cps : List Nat)
    (hrk : rk.positions f.tb.rows = .ok rps) (hck : ck.positions f.tb.ncols = .ok cps)
    (hrm : rk.isMulti = true) (hcm : ck.isMulti = true) (hrn : rps.Nodup) (hcn : cps.Nodup) :
    ∃ g, f.iloc rk ck = .ok (.frame g) ∧ g.WF ∧
      g.index.labels.map some = rps.map (f.index.labels[·]?) ∧
      g.columns.labels.map some = cps.map (f.columns.labels[·]?) ∧
      g.tb.rows = rps.length ∧ g.tb.ncols = cps.length ∧
      g.tb.dtypes = cps.map (fun j => f.tb.dtypes.getD j "") ∧
      ∀ i' j' (hi : i' < rps.length) (hj : j' < cps.length),
        g.cell i' j' = f.cell rps[i'] cps[j'] ∧ (g.cell i' j').isSome = true := by
  obtain ⟨hiw, hcw, htw, hil, hcl⟩ := h
  obtain ⟨r, e1, rwf, rc, rd, rr, rn⟩ := TB.extract_wf f.tb htw rk ck rps cps hck hcn hrk
  have hrl := C04.key_positions_in_range hrk
  have hcl' := C04.key_positions_in_range hck
  obtain ⟨ix', a1, a2, a3⟩ := Index.axisIndex_ok hiw (k := rk) (ps := rps) (by rw [hil]; exact hrk) hrn
  obtain ⟨cx', b1, b2, b3⟩ := Index.axisIndex_ok hcw (k := ck) (ps := cps) (by rw [hcl]; exact hck) hcn
  have hl1 : ix'.labels.length = r.rows := by
    rw [a3, pick_length _ _ (by intro p hp; rw [hil]; exact hrl p hp), rr]
  have hl2 : cx'.labels.length = r.ncols := by
    rw [b3, pick_length _ _ (by intro p hp; rw [hcl]; exact hcl' p hp), rn]
  refine ⟨⟨ix', cx', r⟩, ?_, ⟨a2, b2, rwf, hl1, hl2⟩, ?_, ?_, rr, rn, rd, ?_⟩
  · simp only [iloc, e1, Key.int?_of_multi hrm, Key.int?_of_multi hcm, a1, b1, bind, Except.bind, mk?,
      hl1, hl2, and_self, if_true, Except.map]
  · show ix'.labels.map some = _
    rw [a3]; exact pick_map_some _ _ (by intro p hp; rw [hil]; exact hrl p hp)
  · show cx'.labels.map some = _
    rw [b3]; exact pick_map_some _ _ (by intro p hp; rw [hcl]; exact hcl' p hp)
  · intro i' j' hi hj
    exact TB.cell_of_cols f.tb r htw rps cps hcl' hrl rc i' j' hi hj

/-- a position repeated on the rows (columns fine): the index constructor refuses the labels -/
theorem iloc_frame_dup_rows (f : Fr α β) (h : f.WF) (rk ck : Key) (rps cps : List Nat)
    (hrk : rk.positions f.tb.rows = .ok rps) (hck : ck.positions f.tb.ncols = .ok cps)
    (hrm : rk.isMulti = true) (hrn : ¬ rps.Nodup) (hcn : cps.Nodup) :
    f.iloc rk ck = .error .nonUnique := by
  obtain ⟨hiw, hcw, htw, hil, hcl⟩ := h
  obtain ⟨r, e1, _⟩ := TB.extract_wf f.tb htw rk ck rps cps hck hcn hrk
  have a1 := Index.axisIndex_dup (ix := f.index) (k := rk) (ps := rps) (by rw [hil]; exact hrk) hrn
  simp only [iloc, e1, Key.int?_of_multi hrm, bind, Except.bind]
  cases ck.int? <;> simp only [a1]

/-- the columns of the result cannot be built (repeated labels, invalid key): the call is an error -/
theorem iloc_err_of_columns (f : Fr α β) (rk ck : Key) (hcm : ck.isMulti = true) {e0 : Err}
    (hc : f.columns.axisIndex ck = .error e0) : ∃ e, f.iloc rk ck = .error e := by
  simp only [iloc, Key.int?_of_multi hcm, bind, Except.bind]
  cases f.tb.extract rk ck with
  | error e => exact ⟨e, rfl⟩
  | ok r =>
    simp only
    cases rk.int? with
    | some i =>
      simp only
      cases f.index.labelAt i with
      | error e => exact ⟨e, rfl⟩
      | ok a => simp only [hc]; exact ⟨_, rfl⟩
    | none =>
      simp only
      cases f.index.axisIndex rk with
      | error e => exact ⟨e, rfl⟩
      | ok a => simp only [hc]; exact ⟨_, rfl⟩

theorem iloc_dup_cols (f : Fr α β) (h : f.WF) (rk ck : Key) (cps : List Nat)
    (hck : ck.positions f.tb.ncols = .ok cps) (hcm : ck.isMulti = true) (hcn : ¬ cps.Nodup) :
    ∃ e, f.iloc rk ck = .error e :=
  iloc_err_of_columns f rk ck hcm
    (Index.axisIndex_dup (ix := f.columns) (k := ck) (ps := cps) (by rw [h.2.2.2.2]; exact hck) hcn)

/-- an invalid row key is the error of the call -/
theorem iloc_row_err (f : Fr α β) (rk ck : Key) {e : Err} (hrk : rk.positions f.tb.rows = .error e) :
    f.iloc rk ck = .error e := by
  simp only [iloc, TB.extract_row_err ck hrk, bind, Except.bind]

/-- an invalid column key is an error of the call -/
theorem iloc_col_err (f : Fr α β) (h : f.WF) (rk ck : Key) {e : Err}
    (hck : ck.positions f.tb.ncols = .error e) : ∃ e', f.iloc rk ck = .error e' := by
  by_cases hcm : ck.isMulti = true
  · exact iloc_err_of_columns f rk ck hcm
      (Index.axisIndex_err (ix := f.columns) (k := ck) (by rw [h.2.2.2.2]; exact hck))
  · cases ck with
    | int j =>
      have hj : normPos j f.tb.ncols = .error e := by
        simp only [Key.positions] at hck
        cases hn : normPos j f.tb.ncols with
        | error e' => rw [hn] at hck; simp only [Except.map] at hck; cases hck; rfl
        | ok p => rw [hn] at hck; simp [Except.map] at hck
      obtain ⟨e', he'⟩ := TB.extract_intcol_err (tb := f.tb) rk hj
      exact ⟨e', by simp only [iloc, he', bind, Except.bind]⟩
    | _ => simp [Key.isMulti] at hcm

theorem TB.getD_cols {α : Type} (tb : TB α) (j : Nat) (hj : j < tb.cols.length) : tb.cols.getD j [] = tb.cols[j] := by
  rw [List.getD_eq_getElem?_getD, List.getElem?_eq_getElem hj, Option.getD_some]

theorem TB.pick1_cell {α : Type} (tb : TB α) (h : tb.WF) (p j : Nat) (hp : p < tb.rows) (hj : j < tb.ncols) :
    (pick (tb.cols.getD j []) [p])[0]? = tb.cell p j ∧ pick (tb.cols.getD j []) [p] ≠ [] := by
  obtain ⟨hc1, hc2, _, _⟩ := C03.cols_wf tb h
  have hjl : j < tb.cols.length := by rw [hc1]; exact hj
  have hlen : (tb.cols[j]).length = tb.rows := hc2 _ (List.getElem_mem hjl)
  have hpl : p < (tb.cols[j]).length := by rw [hlen]; exact hp
  rw [TB.getD_cols tb j hjl, pick_cons _ _ _ hpl]
  refine ⟨?_, by simp⟩
  simp [TB.cell, List.getElem?_eq_getElem hjl, List.getElem?_eq_getElem hpl]

theorem int_positions {i : Int} {n p : Nat} (hp : normPos i n = .ok p) : (Key.int i).positions n = .ok [p] := by
  simp [Key.positions, hp, Except.map]

theorem normPos_lt {i : Int} {n p : Nat} (hp : normPos i n = .ok p) : p < n :=
  C04.key_positions_in_range (int_positions hp) p (by simp)

/-- both keys integers: the element -/
theorem iloc_elem_spec (f : Fr α β) (h : f.WF) (i j : Int) (p q : Nat)
    (hp : normPos i f.tb.rows = .ok p) (hq : normPos j f.tb.ncols = .ok q) :
    ∃ v, f.iloc (.int i) (.int j) = .ok (.elem v) ∧ f.cell p q = some v := by
  obtain ⟨hiw, hcw, htw, hil, hcl⟩ := h
  obtain ⟨r, e1, _, rc, _⟩ := TB.extract_wf f.tb htw (.int i) (.int j) [p] [q] (int_positions hq)
    (by simp) (int_positions hp)
  obtain ⟨hc1, hc2, _, _⟩ := C03.cols_wf f.tb htw
  have hjl : q < f.tb.cols.length := by rw [hc1]; exact normPos_lt hq
  have hlen : (f.tb.cols[q]).length = f.tb.rows := hc2 _ (List.getElem_mem hjl)
  have hpl : p < (f.tb.cols[q]).length := by rw [hlen]; exact normPos_lt hp
  have hcols : r.cols = [[(f.tb.cols[q])[p]]] := by
    rw [rc, List.map_cons, List.map_nil, TB.getD_cols _ _ hjl, pick_cons _ _ _ hpl]; rfl
  refine ⟨(f.tb.cols[q])[p], ?_, ?_⟩
  · simp only [iloc, e1, Key.int?_int, bind, Except.bind, hcols]
  · simp [cell, TB.cell, List.getElem?_eq_getElem hjl, List.getElem?_eq_getElem hpl]

/-- the row key an integer: the Series of that row over the addressed columns, named by the row label -/
theorem iloc_row_spec (f : Fr α β) (h : f.WF) (i : Int) (p : Nat) (ck : Key) (cps : List Nat)
    (hp : normPos i f.tb.rows = .ok p) (hck : ck.positions f.tb.ncols = .ok cps)
    (hcm : ck.isMulti = true) (hcn : cps.Nodup) :
    ∃ vs lab name, f.iloc (.int i) ck = .ok (.line vs lab name) ∧ f.index.labels[p]? = some name ∧
      lab.WF ∧ lab.labels.map some = cps.map (f.columns.labels[·]?) ∧
      vs.map some = cps.map (fun j => f.cell p j) := by
  obtain ⟨hiw, hcw, htw, hil, hcl⟩ := h
  obtain ⟨r, e1, _, rc, _, _, rn⟩ := TB.extract_wf f.tb htw (.int i) ck [p] cps hck hcn (int_positions hp)
  have hcl' := C04.key_positions_in_range hck
  have hpl := normPos_lt hp
  obtain ⟨name, n1, n2⟩ := Index.labelAt_ok (ix := f.index) (i := i) (p := p) (by rw [hil]; exact hp)
  obtain ⟨cx', b1, b2, b3⟩ := Index.axisIndex_ok hcw (k := ck) (ps := cps) (by rw [hcl]; exact hck) hcn
  obtain ⟨vs, v1, v2, v3⟩ := row0_ok r.cols (by
    intro c hc
    rw [rc, List.mem_map] at hc
    obtain ⟨j, hj, rfl⟩ := hc
    exact (TB.pick1_cell f.tb htw p j hpl (hcl' j hj)).2)
  have hlen : vs.length = cx'.labels.length := by
    rw [v3, b3, pick_length _ _ (by intro q hq; rw [hcl]; exact hcl' q hq), TB.cols_length, rn]
  refine ⟨vs, cx', name, ?_, n2, b2, ?_, ?_⟩
  · simp only [iloc, e1, Key.int?_int, Key.int?_of_multi hcm, n1, b1, v1, bind, Except.bind, mkLine, hlen, if_true]
  · rw [b3]; exact pick_map_some _ _ (by intro q hq; rw [hcl]; exact hcl' q hq)
  · rw [v2, rc, List.map_map]
    apply List.map_congr_left
    intro j hj
    exact (TB.pick1_cell f.tb htw p j hpl (hcl' j hj)).1

/-- the column key an integer: the Series of that column over the addressed rows, named by the column label -/
theorem iloc_col_spec (f : Fr α β) (h : f.WF) (rk : Key) (j : Int) (q : Nat) (rps : List Nat)
    (hrk : rk.positions f.tb.rows = .ok rps) (hq : normPos j f.tb.ncols = .ok q)
    (hrm : rk.isMulti = true) (hrn : rps.Nodup) :
    ∃ vs lab name, f.iloc rk (.int j) = .ok (.line vs lab name) ∧ f.columns.labels[q]? = some name ∧
      lab.WF ∧ lab.labels.map some = rps.map (f.index.labels[·]?) ∧
      vs.map some = rps.map (fun i => f.cell i q) := by
  obtain ⟨hiw, hcw, htw, hil, hcl⟩ := h
  obtain ⟨r, e1, _, rc, _⟩ := TB.extract_wf f.tb htw rk (.int j) rps [q] (int_positions hq) (by simp) hrk
  have hrl := C04.key_positions_in_range hrk
  obtain ⟨hc1, hc2, _, _⟩ := C03.cols_wf f.tb htw
  have hjl : q < f.tb.cols.length := by rw [hc1]; exact normPos_lt hq
  have hlen : (f.tb.cols[q]).length = f.tb.rows := hc2 _ (List.getElem_mem hjl)
  obtain ⟨name, n1, n2⟩ := Index.labelAt_ok (ix := f.columns) (i := j) (p := q) (by rw [hcl]; exact hq)
  obtain ⟨ix', a1, a2, a3⟩ := Index.axisIndex_ok hiw (k := rk) (ps := rps) (by rw [hil]; exact hrk) hrn
  have hcols : r.cols = [pick (f.tb.cols[q]) rps] := by
    rw [rc, List.map_cons, List.map_nil, TB.getD_cols _ _ hjl]
  have hin : ∀ i ∈ rps, i < (f.tb.cols[q]).length := by intro i hi; rw [hlen]; exact hrl i hi
  have hl : (pick (f.tb.cols[q]) rps).length = ix'.labels.length := by
    rw [pick_length _ _ hin, a3, pick_length _ _ (by intro i hi; rw [hil]; exact hrl i hi)]
  refine ⟨pick (f.tb.cols[q]) rps, ix', name, ?_, n2, a2, ?_, ?_⟩
  · simp only [iloc, e1, Key.int?_int, Key.int?_of_multi hrm, n1, a1, bind, Except.bind, hcols, mkLine, hl, if_true]
  · rw [a3]; exact pick_map_some _ _ (by intro i hi; rw [hil]; exact hrl i hi)
  · rw [pick_map_some _ _ hin]
    apply List.map_congr_left
    intro i _
    simp [cell, TB.cell, List.getElem?_eq_getElem hjl]

/-- the column key an integer, a row position repeated: refused -/
theorem iloc_col_dup (f : Fr α β) (h : f.WF) (rk : Key) (j : Int) (q : Nat) (rps : List Nat)
    (hrk : rk.positions f.tb.rows = .ok rps) (hq : normPos j f.tb.ncols = .ok q)
    (hrm : rk.isMulti = true) (hrn : ¬ rps.Nodup) :
    f.iloc rk (.int j) = .error .nonUnique := by
  obtain ⟨hiw, hcw, htw, hil, hcl⟩ := h
  obtain ⟨r, e1, _⟩ := TB.extract_wf f.tb htw rk (.int j) rps [q] (int_positions hq) (by simp) hrk
  have a1 := Index.axisIndex_dup (ix := f.index) (k := rk) (ps := rps) (by rw [hil]; exact hrk) hrn
  simp only [iloc, e1, Key.int?_int, Key.int?_of_multi hrm, bind, Except.bind, a1]

/-! ### `Frame._extract_loc` -/

/-- label selection IS positional selection at what `_loc_to_iloc` answers on each axis -/
theorem loc_positional (f : Fr α β) (lrk lck : LKey β) (irk ick : IKey)
    (hc : f.columns.locToIlocP lck none false = .ok ick) (hr : f.index.locToIlocP lrk none false = .ok irk) :
    f.loc lrk lck = f.iloc irk.toKey ick.toKey := by
  simp only [loc, hc, hr, bind, Except.bind]

theorem loc_col_err (f : Fr α β) (lrk lck : LKey β) {e : Err}
    (hc : f.columns.locToIlocP lck none false = .error e) : f.loc lrk lck = .error e := by
  simp only [loc, hc, bind, Except.bind]

theorem loc_row_err (f : Fr α β) (lrk lck : LKey β) {e : Err} {ick : IKey}
    (hc : f.columns.locToIlocP lck none false = .ok ick)
    (hr : f.index.locToIlocP lrk none false = .error e) : f.loc lrk lck = .error e := by
  simp only [loc, hc, hr, bind, Except.bind]

end Fr

/-! ### the label → position map of `Index(labels)`, read off `SF.C02.bijection` -/

namespace Index
variable {β : Type} [DecidableEq β] [IntLabel β]

theorem mk?_map {ls : List β} {ix : Index β} (h : mk? ls = .ok ix) : ∃ m, ix.map = some m ∧ ix.labels = ls := by
  unfold mk? at h
  split at h
  · cases h
  · rename_i m _
    simp only [Except.ok.injEq] at h
    subst h
    exact ⟨m, rfl, rfl⟩

/-- what `SF.C02.bijection` says about the map of `Index(labels)`: label i ↦ i, nothing else held -/
theorem get?_of_bijection {ls : List β} {ix : Index β} (h : mk? ls = .ok ix) {m : AMap β} (hm : ix.map = some m) :
    (∀ i a, ls[i]? = some a → m.get? a = some i) ∧ (∀ a, a ∉ ls → m.get? a = none) := by
  obtain ⟨b1, _, b3, _⟩ := C02.bijection h
  constructor
  · intro i a hi
    obtain ⟨hlt, rfl⟩ := List.getElem?_eq_some_iff.mp hi
    have := b1 i hlt
    simp only [locToIloc, hm, locToIlocP, locMap] at this
    cases hg : m.get? ls[i] with
    | none => rw [hg] at this; cases this
    | some p =>
      rw [hg] at this
      simp only [Option.getD_none, Except.ok.injEq, IKey.int.injEq] at this
      congr 1; omega
  · intro a ha
    have := b3 a ha
    simp only [locToIloc, hm, locToIlocP, locMap] at this
    cases hg : m.get? a with
    | none => rfl
    | some p => rw [hg] at this; cases this

theorem mapList_held {ls : List β} {m : AMap β} (hg : ∀ i a, ls[i]? = some a → m.get? a = some i)
    (as : List β) (ps : List Nat) (h : as.map some = ps.map (ls[·]?)) :
    mapList m 0 false as = .ok (ps.map Int.ofNat) := by
  induction as generalizing ps with
  | nil =>
    cases ps with
    | nil => rfl
    | cons p ps => simp at h
  | cons a as ih =>
    cases ps with
    | nil => simp at h
    | cons p ps =>
      simp only [List.map_cons, List.cons.injEq] at h
      simp only [mapList, hg p a h.1.symm, ih ps h.2, List.map_cons]
      simp

theorem mapList_absent {ls : List β} {m : AMap β} (hg : ∀ i a, ls[i]? = some a → m.get? a = some i)
    (hn : ∀ a, a ∉ ls → m.get? a = none) (as : List β) (h : ∃ a ∈ as, a ∉ ls) :
    mapList m 0 false as = .error .lookup := by
  induction as with
  | nil => obtain ⟨a, ha, _⟩ := h; cases ha
  | cons a as ih =>
    by_cases ha : a ∈ ls
    · obtain ⟨i, hi⟩ := List.mem_iff_getElem?.mp ha
      have hrest : ∃ b ∈ as, b ∉ ls := by
        obtain ⟨b, hb, hbl⟩ := h
        rcases List.mem_cons.mp hb with rfl | hb
        · exact absurd ha hbl
        · exact ⟨b, hb, hbl⟩
      simp only [mapList, hg i a hi, ih hrest]
    · simp only [mapList, hn a ha]
      rfl

theorem exists_positions {ls : List β} (as : List β) (h : ∀ a ∈ as, a ∈ ls) :
    ∃ ps : List Nat, as.map some = ps.map (ls[·]?) := by
  induction as with
  | nil => exact ⟨[], rfl⟩
  | cons a as ih =>
    obtain ⟨ps, hps⟩ := ih (fun b hb => h b (List.mem_cons_of_mem _ hb))
    obtain ⟨i, hi⟩ := List.mem_iff_getElem?.mp (h a List.mem_cons_self)
    exact ⟨i :: ps, by simp [hps, hi]⟩

theorem positions_lt {ls : List β} {as : List β} {ps : List Nat} (h : as.map some = ps.map (ls[·]?)) :
    ∀ p ∈ ps, p < ls.length := by
  intro p hp
  have : ls[p]? ∈ ps.map (ls[·]?) := List.mem_map.mpr ⟨p, hp, rfl⟩
  rw [← h, List.mem_map] at this
  obtain ⟨a, _, ha⟩ := this
  exact (List.getElem?_eq_some_iff.mp ha.symm).1

theorem positions_nodup {ls : List β} {as : List β} {ps : List Nat}
    (h : as.map some = ps.map (ls[·]?)) (hn : as.Nodup) : ps.Nodup := by
  have h1 : (as.map some).Nodup := List.Pairwise.map _ (fun a b hab e => hab (Option.some.inj e)) hn
  rw [h] at h1
  exact List.Pairwise.of_map _ (fun a b hab e => hab (e ▸ rfl)) h1

theorem labels_eq_pick {ls : List β} {as : List β} {ps : List Nat}
    (h : as.map some = ps.map (ls[·]?)) : as = pick ls ps := by
  have := pick_map_some ls ps (positions_lt h)
  induction as generalizing ps with
  | nil => cases ps <;> simp_all [pick]
  | cons a as ih =>
    cases ps with
    | nil => simp at h
    | cons p ps =>
      have hp : p < ls.length := positions_lt h p (by simp)
      simp only [List.map_cons, List.cons.injEq] at h
      rw [pick_cons ls p ps hp]
      have ha : a = ls[p] := by
        have := h.1; rw [List.getElem?_eq_getElem hp] at this; exact Option.some.inj this
      rw [ha, ih h.2 (pick_map_some ls ps (positions_lt h.2))]

theorem labels_nodup {ls : List β} (hl : ls.Nodup) {as : List β} {ps : List Nat}
    (h : as.map some = ps.map (ls[·]?)) (hn : ps.Nodup) : as.Nodup := by
  rw [labels_eq_pick h]; exact pick_nodup ls ps hl hn

end Index

theorem map_some_inj {γ} {l l' : List γ} (h : l.map some = l'.map some) : l = l' := by
  induction l generalizing l' with
  | nil => cases l' <;> simp_all
  | cons a l ih =>
    cases l' with
    | nil => simp at h
    | cons b l' =>
      simp only [List.map_cons, List.cons.injEq, Option.some.injEq] at h
      rw [h.1, ih h.2]

theorem list_ofNat_positions (ps : List Nat) (n : Nat) (h : ∀ p ∈ ps, p < n) :
    (Key.list (ps.map Int.ofNat)).positions n = .ok ps := by
  have := IKey.toKey_positions (.arr ps) n
  simp only [IKey.toKey, IKey.positions] at this
  rw [this, if_pos]
  simpa using h

namespace Index
variable {β : Type} [DecidableEq β] [IntLabel β]

theorem locToIlocP_list {ix : Index β} {m : AMap β} (hm : ix.map = some m) (as : List β) :
    ix.locToIlocP (.list as) none false = (mapList m 0 false as).map .list := by
  simp [locToIlocP, hm, locMap]

theorem locToIlocP_label {ix : Index β} {m : AMap β} (hm : ix.map = some m) (a : β) :
    ix.locToIlocP (.label a) none false =
      match m.get? a with
      | none => .error .lookup
      | some p => .ok (.int (p : Int)) := by
  simp only [locToIlocP, hm, locMap]
  cases m.get? a <;> simp

end Index

namespace Fr
variable {α β : Type} [DecidableEq β] [IntLabel β]

/-- a duplicate-free list of held labels on each axis: exactly those labels, in key order, with their cells -/
theorem loc_list_spec (f : Fr α β) (h : f.WF) {rls cls : List β}
    (hr : Index.mk? rls = .ok f.index) (hc : Index.mk? cls = .ok f.columns)
    (ras cas : List β) (rps cps : List Nat)
    (hras : ras.map some = rps.map (rls[·]?)) (hcas : cas.map some = cps.map (cls[·]?))
    (hrn : ras.Nodup) (hcn : cas.Nodup) :
    ∃ g, f.loc (.list ras) (.list cas) = .ok (.frame g) ∧ g.WF ∧
      g.index.labels = ras ∧ g.columns.labels = cas ∧ g.tb.rows = ras.length ∧ g.tb.ncols = cas.length ∧
      ∀ i' j' (hi : i' < rps.length) (hj : j' < cps.length),
        g.cell i' j' = f.cell rps[i'] cps[j'] ∧ (g.cell i' j').isSome = true := by
  obtain ⟨mr, hmr, hlr⟩ := Index.mk?_map hr
  obtain ⟨mc, hmc, hlc⟩ := Index.mk?_map hc
  obtain ⟨gr, _⟩ := Index.get?_of_bijection hr hmr
  obtain ⟨gc, _⟩ := Index.get?_of_bijection hc hmc
  have k1 : f.index.locToIlocP (.list ras) none false = .ok (.list (rps.map Int.ofNat)) := by
    rw [Index.locToIlocP_list hmr, Index.mapList_held gr ras rps hras]; rfl
  have k2 : f.columns.locToIlocP (.list cas) none false = .ok (.list (cps.map Int.ofNat)) := by
    rw [Index.locToIlocP_list hmc, Index.mapList_held gc cas cps hcas]; rfl
  rw [loc_positional f _ _ _ _ k2 k1]
  simp only [IKey.toKey]
  have hrl : ∀ p ∈ rps, p < f.tb.rows := by
    intro p hp; rw [← h.2.2.2.1, hlr]; exact Index.positions_lt hras p hp
  have hcl : ∀ p ∈ cps, p < f.tb.ncols := by
    intro p hp; rw [← h.2.2.2.2, hlc]; exact Index.positions_lt hcas p hp
  obtain ⟨g, g1, g2, g3, g4, g5, g6, _, g8⟩ := iloc_frame_spec f h (.list (rps.map Int.ofNat)) (.list (cps.map Int.ofNat))
    rps cps (list_ofNat_positions rps _ hrl) (list_ofNat_positions cps _ hcl) rfl rfl
    (Index.positions_nodup hras hrn) (Index.positions_nodup hcas hcn)
  have hlen1 : rps.length = ras.length := by
    have := congrArg List.length hras; simpa using this.symm
  have hlen2 : cps.length = cas.length := by
    have := congrArg List.length hcas; simpa using this.symm
  refine ⟨g, g1, g2, ?_, ?_, by rw [g5, hlen1], by rw [g6, hlen2], g8⟩
  · apply map_some_inj; rw [g3, hlr, hras]
  · apply map_some_inj; rw [g4, hlc, hcas]

/-- a label that is not held, on either axis: a lookup error, never data -/
theorem loc_list_absent (f : Fr α β) {rls cls : List β}
    (hr : Index.mk? rls = .ok f.index) (hc : Index.mk? cls = .ok f.columns) (ras cas : List β)
    (h : (∃ a ∈ ras, a ∉ rls) ∨ (∃ a ∈ cas, a ∉ cls)) :
    f.loc (.list ras) (.list cas) = .error .lookup := by
  obtain ⟨mr, hmr, hlr⟩ := Index.mk?_map hr
  obtain ⟨mc, hmc, hlc⟩ := Index.mk?_map hc
  obtain ⟨gr, nr⟩ := Index.get?_of_bijection hr hmr
  obtain ⟨gc, nc⟩ := Index.get?_of_bijection hc hmc
  by_cases hca : ∃ a ∈ cas, a ∉ cls
  · apply loc_col_err
    rw [Index.locToIlocP_list hmc, Index.mapList_absent gc nc cas hca]; rfl
  · have hra : ∃ a ∈ ras, a ∉ rls := by
      rcases h with h | h
      · exact h
      · exact absurd h hca
    have hheld : ∀ a ∈ cas, a ∈ cls := by
      intro a ha
      by_cases hm : a ∈ cls
      · exact hm
      · exact absurd ⟨a, ha, hm⟩ hca
    obtain ⟨cps, hcps⟩ := Index.exists_positions (ls := cls) cas hheld
    apply loc_row_err (ick := .list (cps.map Int.ofNat))
    · rw [Index.locToIlocP_list hmc, Index.mapList_held gc cas cps hcps]; rfl
    · rw [Index.locToIlocP_list hmr, Index.mapList_absent gr nr ras hra]; rfl

/-- a held label repeated in the row list: the index of the result is refused -/
theorem loc_list_dup_rows (f : Fr α β) (h : f.WF) {rls cls : List β}
    (hr : Index.mk? rls = .ok f.index) (hc : Index.mk? cls = .ok f.columns)
    (ras cas : List β) (hrh : ∀ a ∈ ras, a ∈ rls) (hch : ∀ a ∈ cas, a ∈ cls)
    (hrn : ¬ ras.Nodup) (hcn : cas.Nodup) :
    f.loc (.list ras) (.list cas) = .error .nonUnique := by
  obtain ⟨mr, hmr, hlr⟩ := Index.mk?_map hr
  obtain ⟨mc, hmc, hlc⟩ := Index.mk?_map hc
  obtain ⟨gr, _⟩ := Index.get?_of_bijection hr hmr
  obtain ⟨gc, _⟩ := Index.get?_of_bijection hc hmc
  obtain ⟨rps, hras⟩ := Index.exists_positions (ls := rls) ras hrh
  obtain ⟨cps, hcas⟩ := Index.exists_positions (ls := cls) cas hch
  have k1 : f.index.locToIlocP (.list ras) none false = .ok (.list (rps.map Int.ofNat)) := by
    rw [Index.locToIlocP_list hmr, Index.mapList_held gr ras rps hras]; rfl
  have k2 : f.columns.locToIlocP (.list cas) none false = .ok (.list (cps.map Int.ofNat)) := by
    rw [Index.locToIlocP_list hmc, Index.mapList_held gc cas cps hcas]; rfl
  rw [loc_positional f _ _ _ _ k2 k1]
  simp only [IKey.toKey]
  have hrl : ∀ p ∈ rps, p < f.tb.rows := by
    intro p hp; rw [← h.2.2.2.1, hlr]; exact Index.positions_lt hras p hp
  have hcl : ∀ p ∈ cps, p < f.tb.ncols := by
    intro p hp; rw [← h.2.2.2.2, hlc]; exact Index.positions_lt hcas p hp
  have hln : rls.Nodup := by rw [← hlr]; exact h.1.1
  exact iloc_frame_dup_rows f h _ _ rps cps (list_ofNat_positions rps _ hrl) (list_ofNat_positions cps _ hcl) rfl
    (fun hn => hrn (Index.labels_nodup hln hras hn)) (Index.positions_nodup hcas hcn)

/-- one held label on each axis: the element at their positions; a label not held: a lookup error -/
theorem loc_elem_spec (f : Fr α β) (h : f.WF) {rls cls : List β}
    (hr : Index.mk? rls = .ok f.index) (hc : Index.mk? cls = .ok f.columns) (a b : β) :
    (∀ i j, rls[i]? = some a → cls[j]? = some b →
        ∃ v, f.loc (.label a) (.label b) = .ok (.elem v) ∧ f.cell i j = some v) ∧
    (a ∉ rls ∨ b ∉ cls → f.loc (.label a) (.label b) = .error .lookup) := by
  obtain ⟨mr, hmr, hlr⟩ := Index.mk?_map hr
  obtain ⟨mc, hmc, hlc⟩ := Index.mk?_map hc
  obtain ⟨gr, nr⟩ := Index.get?_of_bijection hr hmr
  obtain ⟨gc, nc⟩ := Index.get?_of_bijection hc hmc
  constructor
  · intro i j hi hj
    have k1 : f.index.locToIlocP (.label a) none false = .ok (.int (i : Int)) := by
      rw [Index.locToIlocP_label hmr, gr i a hi]
    have k2 : f.columns.locToIlocP (.label b) none false = .ok (.int (j : Int)) := by
      rw [Index.locToIlocP_label hmc, gc j b hj]
    rw [loc_positional f _ _ _ _ k2 k1]
    simp only [IKey.toKey]
    have hil : i < f.tb.rows := by
      rw [← h.2.2.2.1, hlr]; exact (List.getElem?_eq_some_iff.mp hi).1
    have hjl : j < f.tb.ncols := by
      rw [← h.2.2.2.2, hlc]; exact (List.getElem?_eq_some_iff.mp hj).1
    have n1 : normPos (i : Int) f.tb.rows = .ok i := by
      simp only [normPos]; rw [if_pos (by omega)]; simp
    have n2 : normPos (j : Int) f.tb.ncols = .ok j := by
      simp only [normPos]; rw [if_pos (by omega)]; simp
    exact iloc_elem_spec f h _ _ i j n1 n2
  · intro hab
    by_cases hb : b ∈ cls
    · have ha : a ∉ rls := by
        rcases hab with h | h
        · exact h
        · exact absurd hb h
      obtain ⟨j, hj⟩ := List.mem_iff_getElem?.mp hb
      apply loc_row_err (ick := .int (j : Int))
      · rw [Index.locToIlocP_label hmc, gc j b hj]
      · rw [Index.locToIlocP_label hmr, nr a ha]
    · apply loc_col_err
      rw [Index.locToIlocP_label hmc, nc b hb]

end Fr

end SF
