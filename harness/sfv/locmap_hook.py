"""Regeneration hook of tools/py2lean_locmap.py (lean/SFModel/Gen/LocMap.lean) for the properties that import it
(C02, C04, C05).

harness/check.py calls `sfv.lean.regen(REPO)` before every build; that function lists the translators it runs.  To
keep the shared file untouched this module wraps it: after the other translators it runs py2lean_locmap.py against
the same tree and adds its TRANSLATION-ERROR lines, which check.py turns into broken obligations (followed by the
failing-input search), exactly as for py2lean.py / py2lean_dtype.py.

When `py2lean_locmap.py` is added to the tuple in sfv/lean.py::regen (a one-line change) this hook does nothing.
"""
from __future__ import annotations

import inspect
import os
import subprocess
import sys

from sfv import lean

TOOL = 'py2lean_locmap.py'
TARGET = 'SFModel.BridgeLocMap'
TARGETS = [TARGET, 'SFModel.Props.C02LocMap']
# the bridge lemmas (lean/SFModel/BridgeLocMap.lean): audited with #print axioms like every property theorem
BRIDGE_THEOREMS = [
    # generic layer (any lookup, any datetime arm, any integer offset): generated = hand-written specification
    'SF.BridgeLocMap.map_slice_args_start_spec', 'SF.BridgeLocMap.map_slice_args_stop_spec',
    'SF.BridgeLocMap.map_slice_args_step_spec', 'SF.BridgeLocMap.map_slice_args_spec', 'SF.BridgeLocMap.loc_to_iloc_slice_spec',
    'SF.BridgeLocMap.loc_to_iloc_list_spec', 'SF.BridgeLocMap.loc_to_iloc_element_spec',
    # model layer: generated = the hand-mirrored definitions of SFModel/Index.lean
    'SF.BridgeLocMap.map_slice_args_start_bridge', 'SF.BridgeLocMap.map_slice_args_stop_bridge',
    'SF.BridgeLocMap.map_slice_args_step_bridge', 'SF.BridgeLocMap.map_slice_args_bridge',
    'SF.BridgeLocMap.map_slice_args_error', 'SF.BridgeLocMap.loc_to_iloc_slice_bridge',
    'SF.BridgeLocMap.loc_to_iloc_slice_error', 'SF.BridgeLocMap.locToIlocP_slice_bridge',
    'SF.BridgeLocMap.loc_to_iloc_list_bridge', 'SF.BridgeLocMap.loc_to_iloc_list_locMap', 'SF.BridgeLocMap.loc_to_iloc_element_bridge',
]
# the label-slice theorems of C02 / C05 restated for the translated source (lean/SFModel/Props/C02LocMap.lean)
GEN_THEOREMS = [
    'SF.C02LocMap.gen_slice_inclusive', 'SF.C02LocMap.gen_slice_inclusive_descending', 'SF.C02LocMap.gen_slice_absent',
    'SF.C02LocMap.gen_leaf_open_slice_bounded', 'SF.C02LocMap.gen_element_bijection', 'SF.C02LocMap.gen_list_positions',
    # finding F90 (repaired in /repo b8dc316): the pinned variant, its counterexample, and what the repair left unchanged
    'SF.C02LocMap.genPinned_numpy_step_counterexample', 'SF.C02LocMap.genPinned_agrees_on_python_ints',
]
TRUSTED = ('tools/py2lean_locmap.py (translator of the non-datetime arm of LocMap.map_slice_args and of the slice, list and element '
           'branches of LocMap.loc_to_iloc; its typing assumptions: a slice step is None or has an integer value, of whatever integer class '
           '(a test of the class of the step is rejected), labels are not np.datetime64, '
           'a key is a slice, a Python list of labels or a label - ndarray keys are outside); '
           'cross-checked against the real LocMap.loc_to_iloc / map_slice_args on a grid on every C02 run')


def install():
    if getattr(lean.regen, '_locmap', False):
        return
    if any(t[0] == TOOL for t in getattr(lean, 'TRANSLATORS', ())):
        return    # listed in sfv/lean.py::TRANSLATORS (serving C02, C04, C05): nothing to wrap
    try:
        if TOOL in inspect.getsource(lean.regen):
            return
    except (OSError, TypeError):
        pass
    orig = lean.regen

    def regen(repo='/repo'):
        errs = orig(repo)
        path = os.path.join(lean.VERIF, 'tools', TOOL)
        p = subprocess.run([sys.executable, path, '--repo', repo], capture_output=True, text=True)
        errs += [l for l in p.stdout.splitlines() if 'TRANSLATION-ERROR' in l]
        if p.returncode not in (0, 1):
            errs.append(f'py2lean_locmap: TRANSLATION-ERROR the translator crashed: {p.stderr.strip()[-300:]}')
        return errs

    regen._locmap = True
    lean.regen = regen


install()
