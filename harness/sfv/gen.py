"""Generators of structured inputs (JSON-able specs) and builders that turn a spec into real
static-frame containers.  Every random choice comes from the `random.Random` handed in."""
from __future__ import annotations

import itertools

import numpy as np

from sfv.canon import tok, untok

# ------------------------------------------------------------------ values per dtype
STR_POOL = ['', 'a', 'b', 'ab', 'abc', 'xyz', 'a b', 'Z', 'q1', 'abcdef']
DTYPES_BASIC = ['int64', 'float64', 'bool', 'str', 'object']
DTYPES_ALL = ['int64', 'int8', 'uint8', 'uint64', 'float64', 'float32', 'bool', 'str', 'bytes',
              'complex128', 'datetime64[D]', 'datetime64[s]', 'timedelta64[D]', 'object']


def rand_value(rng, dt, na=0.15):
    """A token for dtype name `dt`."""
    if dt == 'int64':
        return f'i:{rng.choice([0, 1, -1, 2, 3, 5, 7, 10, -4, 100, 2**53 + 1, -2**40])}' if rng.random() < 0.3 else f'i:{rng.randint(-9, 9)}'
    if dt == 'int8':
        return f'i:{rng.choice([0, 1, -1, 127, -128, rng.randint(-20, 20)])}'
    if dt == 'uint8':
        return f'i:{rng.choice([0, 1, 255, rng.randint(0, 40)])}'
    if dt == 'uint64':
        return f'i:{rng.choice([0, 1, 2**63 + 5, rng.randint(0, 40)])}'
    if dt == 'float64':
        if rng.random() < na:
            return 'nan'
        return tok(rng.choice([0.0, 1.0, -1.0, 0.5, 2.5, -3.25, 1e10, 100.0, float(rng.randint(-9, 9))]))
    if dt == 'float32':
        if rng.random() < na:
            return 'nan'
        return tok(rng.choice([0.0, 1.0, -1.0, 0.5, 2.5, -3.25, 64.0]))
    if dt == 'bool':
        return f'b:{rng.randint(0, 1)}'
    if dt == 'str':
        return tok(rng.choice(STR_POOL))
    if dt == 'bytes':
        return tok(rng.choice([b'', b'a', b'xy', b'abc']))
    if dt == 'complex128':
        if rng.random() < na:
            return 'nan'
        return tok(complex(rng.randint(-3, 3), rng.randint(-3, 3)))
    if dt.startswith('datetime64'):
        if rng.random() < na:
            return 'nat'
        unit = dt[dt.index('[') + 1:-1]
        base = np.datetime64('2020-01-01', 'D') + np.timedelta64(rng.randint(-400, 400), 'D')
        return tok(base.astype(f'datetime64[{unit}]'))
    if dt.startswith('timedelta64'):
        if rng.random() < na:
            return 'nat'
        unit = dt[dt.index('[') + 1:-1]
        return tok(np.timedelta64(rng.randint(-50, 50), unit))
    if dt == 'object':
        r = rng.random()
        if r < na / 2:
            return 'N'
        if r < na:
            return 'nan'
        return rng.choice([tok(rng.randint(-5, 5)), tok(rng.choice(STR_POOL)), tok(rng.choice([0.5, 2.0])), tok(bool(rng.randint(0, 1))), f'i:{2**70}'])
    raise ValueError(dt)


def col_array(dt, toks, n=None):
    """Build the 1-D array for a column spec."""
    vals = [untok(t) for t in toks]
    if dt == 'object':
        a = np.empty(len(vals), dtype=object)
        for i, v in enumerate(vals):
            a[i] = v
        return a
    if dt == 'str':
        return np.array(vals, dtype=str) if vals else np.array([], dtype='<U1')
    if dt == 'bytes':
        return np.array(vals, dtype=bytes) if vals else np.array([], dtype='S1')
    if dt.startswith('datetime64') or dt.startswith('timedelta64'):
        kind = 'datetime64' if dt.startswith('datetime64') else 'timedelta64'
        return np.array([getattr(np, kind)('NaT') if (isinstance(v, np.datetime64) and np.isnat(v)) else v for v in vals], dtype=dt)
    return np.array(vals, dtype=dt)


# ------------------------------------------------------------------ layouts
def layouts_for(dts, limit=None, rng=None):
    """All block layouts compatible with per-column dtype names `dts` (adjacent equal dtypes may share a
    2-D block; a width-1 block may be 1-D or 2-D).  A layout is a list of [width, is2d]."""
    runs = []
    for dt, grp in itertools.groupby(dts):
        runs.append(len(list(grp)))

    def compositions(n):
        if n == 0:
            yield []
            return
        for first in range(1, n + 1):
            for rest in compositions(n - first):
                yield [first] + rest

    per_run = []
    for r in runs:
        opts = []
        for comp in compositions(r):
            choices = [[(w, True)] if w > 1 else [(1, False), (1, True)] for w in comp]
            for pick in itertools.product(*choices):
                opts.append([list(p) for p in pick])
        per_run.append(opts)
    out = []
    for combo in itertools.product(*per_run):
        out.append([b for part in combo for b in part])
        if limit and len(out) >= limit and rng is None:
            break
    if limit and rng is not None and len(out) > limit:
        out = rng.sample(out, limit)
    return out


def rand_layout(rng, dts):
    """One random layout compatible with dtypes."""
    out = []
    i = 0
    n = len(dts)
    while i < n:
        j = i + 1
        while j < n and dts[j] == dts[i] and rng.random() < 0.6:
            j += 1
        w = j - i
        out.append([w, True if w > 1 else rng.random() < 0.4])
        i = j
    return out


def canonical_layout(dts):
    return [[1, False] for _ in dts]


def consolidated_layout(dts):
    out = []
    for dt, grp in itertools.groupby(dts):
        w = len(list(grp))
        out.append([w, True])
    return out


# ------------------------------------------------------------------ labels
def rand_labels(rng, n, kind):
    """Unique label tokens of a kind: int | str | mixed | date | auto | tuple."""
    if kind == 'auto':
        return [f'i:{i}' for i in range(n)]
    if kind == 'int':
        pool = list(range(-5, 30))
        return [f'i:{v}' for v in rng.sample(pool, n)]
    if kind == 'str':
        pool = ['a', 'b', 'c', 'd', 'e', 'f', 'g', 'h', 'zz', 'y', 'x', 'w', 'ab', 'ba', 'A', 'B', 'p', 'q']
        return [tok(v) for v in rng.sample(pool, n)]
    if kind == 'mixed':
        pool = [tok(v) for v in ['a', 'b', 'c', 1, 2, 3, 2.5, None, 'zz', 10, -1, 'x']]
        return rng.sample(pool, n)
    if kind == 'date':
        days = rng.sample(range(0, 120), n)
        return [tok(np.datetime64('2021-01-01', 'D') + np.timedelta64(d, 'D')) for d in days]
    if kind == 'date_sorted':
        days = sorted(rng.sample(range(0, 120), n))
        return [tok(np.datetime64('2021-01-01', 'D') + np.timedelta64(d, 'D')) for d in days]
    raise ValueError(kind)


def rand_tree_labels(rng, n, depth=2):
    """n unique tuples forming a tree in order (each prefix group contiguous), ragged, inner labels repeated
    under different parents."""
    outer_pool = [['a', 'b', 'c', 'd'], [1, 2, 3, 4], ['x', 'y', 'z', 'w'], [10, 20, 30, 40]]

    def build(d, count):
        if count == 0:
            return []
        pool = list(outer_pool[d % len(outer_pool)])
        rng.shuffle(pool)
        if d == depth - 1:
            count = min(count, len(pool))
            return [(v,) for v in pool[:count]]
        out = []
        remaining = count
        for lab in pool:
            if remaining <= 0:
                break
            take = remaining if lab == pool[-1] else rng.randint(1, max(1, remaining))
            sub = build(d + 1, take)
            out.extend([(lab,) + s for s in sub])
            remaining -= len(sub)
        return out
    res = build(0, n)
    return [tok(t) for t in res]


def build_index(spec, go=False):
    """spec: {'kind': auto|flat|date|ih, 'labels': [tok], 'name': tok?}"""
    import static_frame as sf
    kind = spec['kind']
    labels = [untok(t) for t in spec['labels']]
    name = untok(spec['name']) if spec.get('name') else None
    if kind == 'auto':
        return None
    if kind == 'flat':
        cls = sf.IndexGO if go else sf.Index
        return cls(labels, name=name)
    if kind == 'date':
        cls = sf.IndexDateGO if go else sf.IndexDate
        return cls(labels, name=name)
    if kind == 'ih':
        cls = sf.IndexHierarchyGO if go else sf.IndexHierarchy
        return cls.from_labels(labels, name=name)
    raise ValueError(kind)


def rand_index_spec(rng, n, kinds=('auto', 'int', 'str', 'mixed', 'date', 'ih')):
    k = rng.choice(kinds)
    if k == 'ih' and n >= 1:
        labs = rand_tree_labels(rng, n, depth=rng.choice([2, 2, 3]))
        if len(labs) == n:
            return {'kind': 'ih', 'labels': labs}
        k = 'str'
    if k == 'ih':
        k = 'str'
    if k == 'auto':
        return {'kind': 'auto', 'labels': rand_labels(rng, n, 'auto')}
    if k == 'date':
        return {'kind': 'date', 'labels': rand_labels(rng, n, 'date')}
    return {'kind': 'flat', 'labels': rand_labels(rng, n, k)}


# ------------------------------------------------------------------ frames
def rand_frame_spec(rng, max_rows=5, max_cols=5, dtypes=DTYPES_BASIC, index_kinds=('auto', 'int', 'str'),
                    column_kinds=('auto', 'int', 'str'), min_rows=0, min_cols=0, na=0.15, run_bias=0.5):
    n = rng.randint(min_rows, max_rows)
    m = rng.randint(min_cols, max_cols)
    dts = []
    for j in range(m):
        if dts and rng.random() < run_bias:
            dts.append(dts[-1])
        else:
            dts.append(rng.choice(dtypes))
    cols = [{'dt': dt, 'v': [rand_value(rng, dt, na) for _ in range(n)]} for dt in dts]
    return {
        'index': rand_index_spec(rng, n, index_kinds),
        'columns': rand_index_spec(rng, m, column_kinds),
        'cols': cols,
        'layout': rand_layout(rng, dts),
        'rows': n,
    }


def build_blocks(spec, layout=None):
    """List of arrays per layout (each made immutable by TypeBlocks.from_blocks)."""
    layout = layout if layout is not None else spec['layout']
    n = spec['rows']
    arrays = [col_array(c['dt'], c['v']) for c in spec['cols']]
    blocks = []
    j = 0
    for w, is2d in layout:
        part = arrays[j:j + w]
        j += w
        if w == 1 and not is2d:
            blocks.append(part[0])
        else:
            dt = part[0].dtype
            if any(p.dtype != dt for p in part):
                # same dtype name but different widths (str / bytes): unify to the widest
                dt = np.result_type(*[p.dtype for p in part])
            b = np.empty((n, w), dtype=dt)
            for k, p in enumerate(part):
                b[:, k] = p
            blocks.append(b)
    assert j == len(arrays)
    return blocks


def build_frame(spec, layout=None, cls=None):
    import static_frame as sf
    cls = cls or sf.Frame
    n = spec['rows']
    m = len(spec['cols'])
    blocks = build_blocks(spec, layout)
    if m == 0:
        tb = sf.TypeBlocks.from_zero_size_shape((n, 0))
    else:
        tb = sf.TypeBlocks.from_blocks(blocks)
    index = build_index(spec['index'])
    columns = build_index(spec['columns'], go=issubclass(cls, sf.FrameGO))
    return cls(tb, index=index, columns=columns, own_data=True, name=untok(spec['name']) if spec.get('name') else None)


def spec_cols_tokens(spec):
    """Reference cell tokens per column, as the arrays will actually hold them (after dtype conversion)."""
    out = []
    for c in spec['cols']:
        a = col_array(c['dt'], c['v'])
        out.append([tok(x) for x in (a if a.dtype.kind in 'mM' else a.tolist())])
    return out


def spec_dtypes(spec, layout=None):
    """Per-column dtype tokens as built (2-D str blocks unify widths, so depends on layout)."""
    from sfv.canon import dtype_tok
    out = []
    for b in build_blocks(spec, layout):
        if b.ndim == 1:
            out.append(dtype_tok(b.dtype))
        else:
            out.extend([dtype_tok(b.dtype)] * b.shape[1])
    return out


# ------------------------------------------------------------------ keys
def rand_slice(rng, n):
    def ep():
        r = rng.random()
        if r < 0.3:
            return None
        return rng.randint(-n - 2, n + 2)
    step = rng.choice([None, None, 1, -1, 2, -2, 3, -3])
    return ['sl', ep(), ep(), step]


def rand_key(rng, n, kinds=('int', 'sl', 'list', 'mask', 'all'), unique_list=False, allow_oob=0.05):
    k = rng.choice(kinds)
    if k == 'int':
        if n == 0 or rng.random() < allow_oob:
            return ['int', rng.choice([n, -n - 1, n + 3])]
        return ['int', rng.randint(-n, n - 1)]
    if k == 'sl':
        return rand_slice(rng, n)
    if k == 'list':
        if n == 0:
            return ['list']
        ln = rng.randint(0, min(n, 5) if unique_list else 5)
        if n >= 3 and rng.random() < 0.25:
            # a run of consecutive positions in another order (what a label-list lookup often produces): code that
            # recognises runs by their ends and length alone mistakes it for the ascending run
            k = rng.randint(3, min(n, 5))
            a = rng.randint(0, n - k)
            run = list(range(a, a + k))
            out = run
            for _ in range(8):
                if k >= 4 and rng.random() < 0.5:
                    mid = run[1:-1]
                    rng.shuffle(mid)
                    out = [run[0]] + mid + [run[-1]]
                else:
                    out = rng.sample(run, k)
                if out != run:
                    break
            return ['list'] + out
        if unique_list:
            ps = rng.sample(range(n), ln)
            return ['list'] + [p if rng.random() < 0.7 else p - n for p in ps]
        return ['list'] + [rng.randint(-n, n - 1) for _ in range(ln)]
    if k == 'mask':
        return ['mask'] + [rng.randint(0, 1) for _ in range(n)]
    return ['all']


def key_to_py(key):
    """JSON key -> Python positional key for iloc."""
    k = key[0]
    if k == 'int':
        return key[1]
    if k == 'sl':
        return slice(key[1], key[2], key[3])
    if k == 'list':
        return list(key[1:])
    if k == 'mask':
        return np.array([bool(b) for b in key[1:]], dtype=bool)
    if k == 'all':
        return slice(None)
    raise ValueError(key)


def key_to_wire(key):
    k = key[0]
    f = lambda v: 'N' if v is None else str(v)
    if k == 'int':
        return f'(int {key[1]})'
    if k == 'sl':
        return f'(sl {f(key[1])} {f(key[2])} {f(key[3])})'
    if k == 'list':
        return '(list ' + ' '.join(str(v) for v in key[1:]) + ')'
    if k == 'mask':
        return '(mask ' + ' '.join(str(int(v)) for v in key[1:]) + ')'
    return '(all)'


def all_slices(n, steps=(None, 1, -1, 2, -2, 3, -3)):
    eps = [None] + list(range(-n - 2, n + 3))
    for a in eps:
        for b in eps:
            for c in steps:
                yield ['sl', a, b, c]


def parse_ok_list(ans):
    """'ok (1 2 3)' -> [1,2,3]; 'err x' -> ('err','x')"""
    if ans.startswith('ok '):
        body = ans[3:].strip()
        assert body.startswith('(') and body.endswith(')'), ans
        return [int(x) for x in body[1:-1].split()]
    if ans.startswith('err '):
        return ('err', ans[4:].strip())
    raise ValueError(f'driver answered {ans!r}')
