"""Helpers shared by the C12 (sorting) and C13 (grouping / windows) property modules:
model tokens for key values, a Python-side sort key, s-expression parsing of driver answers,
small container builders and snapshots."""
from __future__ import annotations

import json
import math

import numpy as np

from sfv.canon import tok, untok, dtype_tok
from sfv import gen


# ------------------------------------------------------------------ model tokens
def mtok(v):
    """Atom for the Lean driver (see lean/SFModel/Drv/Order.lean): i:<int> b:<0|1> q:<4*float>
    s:"text" nan, anything else opaque (o:"...")."""
    if isinstance(v, (np.datetime64, np.timedelta64)):
        if np.isnat(v):
            return 'nan'
        return f'i:{int(v.astype("int64"))}'
    if isinstance(v, (bool, np.bool_)):
        return 'b:1' if v else 'b:0'
    if isinstance(v, (int, np.integer)):
        return f'i:{int(v)}'
    if isinstance(v, (float, np.floating)):
        fv = float(v)
        if math.isnan(fv):
            return 'nan'
        if math.isfinite(fv) and fv * 4 == int(fv * 4) and abs(fv) < 2 ** 40:
            return f'q:{int(fv * 4)}'
        return 'o:' + json.dumps('f:' + repr(fv))
    if isinstance(v, (str, np.str_)):
        s = str(v)
        if s.isascii() and '"' not in s and '\\' not in s and all(32 <= ord(ch) < 127 for ch in s):
            return 's:"' + s + '"'
        return 'o:' + json.dumps('s:' + s)
    return 'o:' + json.dumps(tok(v))


def mtok_orderable(t):
    return not t.startswith('o:')


def pyval(v):
    """Plain Python value of a cell (np scalars -> python)."""
    if isinstance(v, np.generic) and not isinstance(v, (np.datetime64, np.timedelta64)):
        return v.item()
    return v


def pykey(v):
    """Total-order key for Python's stable `sorted`: NaN / NaT last, numbers by value, strings by
    code point (the order NumPy gives one array of that kind)."""
    if isinstance(v, (np.datetime64, np.timedelta64)):
        if np.isnat(v):
            return (1, 0)
        return (0, int(v.astype('int64')))
    v = pyval(v)
    if isinstance(v, float) and math.isnan(v):
        return (1, 0)
    if isinstance(v, bool):
        return (0, int(v))
    return (0, v)


# ------------------------------------------------------------------ s-expressions
def parse_sexp(text):
    """Parse one s-expression (atoms may hold quoted parts) into nested lists / strings."""
    toks = []
    cur = ''
    inq = esc = False
    for ch in text:
        if inq:
            cur += ch
            if esc:
                esc = False
            elif ch == '\\':
                esc = True
            elif ch == '"':
                inq = False
        elif ch == '"':
            cur += ch
            inq = True
        elif ch in '()':
            if cur:
                toks.append(cur)
                cur = ''
            toks.append(ch)
        elif ch in ' \t\r\n':
            if cur:
                toks.append(cur)
                cur = ''
        else:
            cur += ch
    if cur:
        toks.append(cur)
    stack = [[]]
    for t in toks:
        if t == '(':
            stack.append([])
        elif t == ')':
            top = stack.pop()
            stack[-1].append(top)
        else:
            stack[-1].append(t)
    assert len(stack) == 1, text
    return stack[0]


def parse_answer(ans):
    """'ok <sexp>' -> ('ok', parsed) ; 'err x' -> ('err', 'x')."""
    if ans.startswith('ok '):
        p = parse_sexp(ans[3:])
        return ('ok', p[0] if p else [])
    if ans.startswith('err '):
        return ('err', ans[4:].strip())
    return ('bad', ans)


def wire_list(items):
    return '(' + ' '.join(items) + ')'


# ------------------------------------------------------------------ arrays from tokens
def typed_array(dt, toks):
    """1-D array of dtype name `dt` from canonical tokens (see sfv.gen.col_array)."""
    return gen.col_array(dt, toks)


# ------------------------------------------------------------------ snapshots
def label_toks(index):
    return [tok(x) for x in index]


def series_rows(s):
    """[(label token, value token)]"""
    vals = s.values
    vt = [tok(x) for x in (vals if vals.dtype.kind in 'mM' else vals.tolist())]
    return list(zip(label_toks(s.index), vt))


def frame_cols(f):
    """per column list of cell tokens (layout independent)"""
    out = []
    for j in range(f.shape[1]):
        a = f._blocks._extract_array(column_key=j)
        out.append([tok(x) for x in (a if a.dtype.kind in 'mM' else a.tolist())])
    return out


def frame_dtypes(f):
    return [dtype_tok(d) for d in f._blocks.dtypes] if f.shape[1] else []


def frame_rows(f):
    """[(row label token, tuple of cell tokens)]"""
    cols = frame_cols(f)
    labs = label_toks(f.index)
    return [(labs[i], tuple(c[i] for c in cols)) for i in range(f.shape[0])]
