"""Source pins: which files of static_frame differ from the state the hand-written models were last
validated against.

The hand-mirrored Lean models are tied to the code by the correspondence run of every check.  That run is
sampling; how deep it has to go depends on whether the code it samples is the code it sampled last time.
`harness/pins.json` records, per source file of `static_frame/`, a digest of the file's abstract syntax
(comments, blank lines, docstrings and formatting do not count).  On every run the digests are recomputed from
the working tree that is being checked:

  * nothing differs  -> the registered budgets apply;
  * a file differs   -> the source under the model has moved since the correspondence was last established, so
                        the quick tier of every property whose anchors (properties.jsonl) name that file - or of every
                        property, when no property's anchors name it - ESCALATES: after its registered pass it runs further
                        passes of its case streams under fresh seeds (a change-directed search), bounded by
                        `ESCALATION_BUDGET_S`.

A differing digest is never a verdict: it only decides how much of the input space the run explores.  A
violation is still only ever reported for a failing input, a broken proof obligation / bridge lemma, or a
disagreement between model and code.

`tools/update_pins.py` rewrites pins.json (run after every `fix:` commit in /repo, together with the evidence).
"""
import ast
import hashlib
import json
import os

VERIF = os.path.dirname(os.path.dirname(os.path.dirname(os.path.abspath(__file__))))
PINS = os.path.join(VERIF, 'harness', 'pins.json')
ESCALATION_BUDGET_S = {'quick': 300, 'thorough': 0}
ESCALATION_SEEDS = (101, 202, 303, 404, 505, 606)


def _strip(node):
    """drop docstrings so that a documentation edit is not a source change"""
    for n in ast.walk(node):
        body = getattr(n, 'body', None)
        if isinstance(n, (ast.FunctionDef, ast.AsyncFunctionDef, ast.ClassDef, ast.Module)) and body:
            first = body[0]
            if isinstance(first, ast.Expr) and isinstance(first.value, ast.Constant) and isinstance(first.value.value, str):
                n.body = body[1:] or [ast.Pass()]
    return node


def file_digest(path):
    try:
        src = open(path, encoding='utf-8').read()
    except OSError:
        return 'missing'
    try:
        tree = _strip(ast.parse(src))
        text = ast.dump(tree, annotate_fields=False, include_attributes=False)
    except SyntaxError:
        text = src
    return hashlib.sha256(text.encode()).hexdigest()[:24]


def source_files(repo):
    out = []
    base = os.path.join(repo, 'static_frame')
    for root, dirs, files in os.walk(base):
        dirs[:] = sorted(d for d in dirs if d not in ('test', '__pycache__', 'performance'))
        for f in sorted(files):
            if f.endswith('.py'):
                out.append(os.path.relpath(os.path.join(root, f), repo))
    return out


def current(repo):
    return {f: file_digest(os.path.join(repo, f)) for f in source_files(repo)}


def changed_files(repo):
    """files of the working tree whose syntax differs from the pinned state (sorted); [] when pins are absent"""
    try:
        pinned = json.load(open(PINS))['files']
    except (OSError, ValueError, KeyError):
        return []
    cur = current(repo)
    return sorted(f for f in set(cur) | set(pinned) if cur.get(f) != pinned.get(f))


def anchor_files():
    """property id -> source files its anchors name (properties.jsonl: anchors.files and the `where` of mechanisms / state)"""
    import re
    out = {}
    try:
        for line in open(os.path.join(VERIF, 'properties.jsonl')):
            d = json.loads(line)
            files = set(d['anchors'].get('files', []))
            for m in d['anchors'].get('mechanism', []) + d['anchors'].get('state', []):
                for f in re.findall(r'([a-z_0-9]+\.py)', m.get('where', '')):
                    files.add('static_frame/core/' + f)
            out[d['id']] = files
    except (OSError, ValueError, KeyError):
        pass
    return out


def relevant_changed(repo, prop):
    """the changed files that concern `prop`: those its anchors name, and those NO property's anchors name (a file nobody
    claims is everybody's concern).  A change confined to the anchored files of other properties does not make this one escalate."""
    changed = changed_files(repo)
    if not changed:
        return []
    anchors = anchor_files()
    mine = anchors.get(prop)
    if not mine:
        return changed
    claimed = set().union(*anchors.values())
    return [f for f in changed if f in mine or f not in claimed]


def write(repo):
    data = {'note': 'digests of the syntax trees of static_frame/*.py the models were last validated against; '
                    'see harness/sfv/pins.py; regenerate with tools/update_pins.py after a fix: commit',
            'files': current(repo)}
    with open(PINS, 'w') as f:
        json.dump(data, f, indent=1, sort_keys=True)
    return data
