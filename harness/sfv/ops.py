"""Catalogue of single-Frame public operations with JSON-able arguments, used by the two-layout
oracle of C03 (and reused by C01/C08/C09).  `run(name, frame, args)` returns a canonical, hashable
result: ('ok', canon) or ('err', exception class name)."""
from __future__ import annotations


class _IB(type):
    def __instancecheck__(cls, o):
        from static_frame.core.index_base import IndexBase as B
        return isinstance(o, B)


class IndexBase(metaclass=_IB):
    pass

import io

import numpy as np

from sfv import gen
from sfv.canon import tok, untok, dtype_tok, array_toks


def canon(o, depth=0):
    import static_frame as sf
    if isinstance(o, sf.Frame):
        cols = []
        for j in range(o.shape[1]):
            arr = o._blocks._extract_array(column_key=j)
            cols.append((dtype_tok(arr.dtype), tuple(array_toks(arr))))
        return ('Frame', type(o).__name__, tuple(tok(x) for x in o.index), tuple(tok(x) for x in o.columns), tuple(cols),
                tok(o.name), tok(o.index.name), tok(o.columns.name), tuple(o.shape),
                type(o.index).__name__, type(o.columns).__name__)
    if isinstance(o, sf.Series):
        return ('Series', tuple(tok(x) for x in o.index), tuple(array_toks(o.values)), dtype_tok(o.dtype), tok(o.name), type(o.index).__name__)
    if isinstance(o, IndexBase):
        return ('Index', type(o).__name__, tuple(tok(x) for x in o), tok(o.name))
    if isinstance(o, sf.TypeBlocks):
        return ('TB', tuple((dtype_tok(o._extract_array(column_key=j).dtype), tuple(array_toks(o._extract_array(column_key=j)))) for j in range(o.shape[1])), tuple(o.shape))
    if isinstance(o, np.ndarray):
        if o.ndim == 2:
            return ('array2', dtype_tok(o.dtype), tuple(tuple(r) for r in array_toks(o)), tuple(o.shape))
        return ('array', dtype_tok(o.dtype), tuple(array_toks(o)), tuple(o.shape))
    if isinstance(o, np.dtype):
        return ('dtype', dtype_tok(o))
    if isinstance(o, dict):
        return ('dict', tuple((canon(k), canon(v)) for k, v in o.items()))
    if isinstance(o, (list, tuple)) and depth < 6 and not (isinstance(o, tuple) and all(not isinstance(x, (sf.Frame, sf.Series, np.ndarray, tuple, list)) for x in o) and False):
        if isinstance(o, tuple) and all(isinstance(x, (str, int, float, bool, type(None), np.generic)) for x in o):
            return tok(o)
        return (type(o).__name__, tuple(canon(x, depth + 1) for x in o))
    if hasattr(o, '__next__') or type(o).__name__ in ('generator', 'zip', 'map'):
        return ('iter', tuple(canon(x, depth + 1) for x in o))
    return tok(o)


# ------------------------------------------------------------------ catalogue
def _lab(index, pos_key):
    """positions -> labels for loc-style args"""
    labels = list(index)
    k = pos_key[0]
    if k == 'int':
        return labels[pos_key[1]]
    if k == 'list':
        return [labels[i] for i in pos_key[1:]]
    if k == 'all':
        return slice(None)
    raise KeyError


def _key(k):
    return None if k is None else gen.key_to_py(k)


def _fill(t):
    return untok(t)


CATALOGUE = {}


def op(name, argf):
    def deco(fn):
        CATALOGUE[name] = (argf, fn)
        return fn
    return deco


def _nm(spec):
    return spec['rows'], len(spec['cols'])


def _rk(rng, spec, **kw):
    return gen.rand_key(rng, spec['rows'], **kw)


def _ck(rng, spec, **kw):
    return gen.rand_key(rng, len(spec['cols']), unique_list=True, **kw)


FILLS = ['i:0', 'i:7', 'f:1.5', 's:"zz"', 'N', 'b:1', 'nan']


@op('iloc', lambda rng, s: [_rk(rng, s), _ck(rng, s)])
def _(f, a):
    return f.iloc[_key(a[0]), _key(a[1])]


@op('getitem', lambda rng, s: [_ck(rng, s, kinds=('sl', 'list', 'mask', 'all'))])
def _(f, a):
    k = a[0]
    if k[0] in ('list',):
        return f[[list(f.columns)[i] for i in k[1:]]]
    return f[_key(k)] if k[0] in ('mask',) else f.iloc[:, _key(k)]


@op('drop_iloc', lambda rng, s: [rng.choice([None, _rk(rng, s, kinds=('int', 'sl', 'list', 'mask'))]), rng.choice([None, _ck(rng, s, kinds=('int', 'sl', 'list', 'mask'))])])
def _(f, a):
    return f.drop.iloc[_key(a[0]) if a[0] is not None else slice(0, 0), _key(a[1]) if a[1] is not None else slice(0, 0)] if a[1] is not None else f.drop.iloc[_key(a[0]) if a[0] is not None else slice(0, 0)]


@op('mask_iloc', lambda rng, s: [_rk(rng, s), _ck(rng, s)])
def _(f, a):
    return f.mask.iloc[_key(a[0]), _key(a[1])]


@op('masked_array_iloc', lambda rng, s: [_rk(rng, s), _ck(rng, s)])
def _(f, a):
    ma = f.masked_array.iloc[_key(a[0]), _key(a[1])]
    return (np.asarray(ma.mask), np.asarray(ma.data))


@op('assign_iloc_elem', lambda rng, s: [_rk(rng, s), _ck(rng, s), rng.choice(FILLS)])
def _(f, a):
    return f.assign.iloc[_key(a[0]), _key(a[1])](_fill(a[2]))


@op('assign_iloc_row_elem', lambda rng, s: [_rk(rng, s), rng.choice(FILLS)])
def _(f, a):
    return f.assign.iloc[_key(a[0])](_fill(a[1]))


@op('assign_iloc_array', lambda rng, s: [_rk(rng, s, kinds=('int', 'sl', 'all', 'list')), _ck(rng, s, kinds=('sl', 'all', 'list', 'int')), rng.choice(['fit', 'fit', 'fit', 'row2d', 'short'])])
def _(f, a):
    # an unlabelled array value: shaped like the selection ('fit'), a 2-D single row for an integer row key ('row2d'),
    # or one element too short ('short') - an ill-shaped value must be refused (or accepted) whatever the block layout
    sel = f.iloc[_key(a[0]), _key(a[1])]
    shape = getattr(sel, 'shape', ())
    size = int(np.prod(shape)) if shape else 1
    base = np.arange(100, 100 + size)
    if a[2] == 'fit' or not shape:
        val = base.reshape(shape) if shape else 100
    elif a[2] == 'row2d':
        val = base.reshape((1,) + tuple(shape)) if len(shape) == 1 else base.reshape(shape)
    else:
        val = base[: max(size - 1, 0)]
    return f.assign.iloc[_key(a[0]), _key(a[1])](val)


@op('assign_getitem_series', lambda rng, s: [_ck(rng, s, kinds=('int',)), rng.randint(0, 3)])
def _(f, a):
    import static_frame as sf
    n = f.shape[0]
    labels = list(f.index)
    rot = labels[a[1] % max(n, 1):] + labels[:a[1] % max(n, 1)]
    val = sf.Series(range(100, 100 + len(rot)), index=rot[:max(0, n - 1)] if n else ()) if n else sf.Series((), index=())
    val = sf.Series(list(range(100, 100 + max(0, n - 1))), index=rot[:max(0, n - 1)])
    col = list(f.columns)[a[0][1]]
    return f.assign[col](val)


@op('assign_iloc_frame', lambda rng, s: [rng.randint(0, 3)])
def _(f, a):
    # assign a labelled sub-frame with reordered labels back into place
    sub = f.iloc[::-1, ::-1]
    if a[0] % 2:
        sub = sub.iloc[:max(0, sub.shape[0] - 1)]
    return f.assign.iloc[:, :](sub * 1 if False else sub)


def _key_frame(f, bits, layout=None):
    """a Boolean Frame with f's labels (cell pattern from `bits`), stored under its OWN block layout when one is given"""
    import static_frame as sf
    n, m = f.shape
    arr = np.array([[(bits >> ((i * m + j) % 20)) & 1 for j in range(m)] for i in range(n)], dtype=bool).reshape(f.shape)
    if not layout or m == 0:
        return sf.Frame(arr, index=f.index, columns=f.columns)
    blocks, j = [], 0
    for w, is2d in layout:
        blk = arr[:, j:j + w].copy() if (is2d or w > 1) else arr[:, j].copy()
        blk.flags.writeable = False
        blocks.append(blk)
        j += w
    return sf.Frame(sf.TypeBlocks.from_blocks(blocks), index=f.index, columns=f.columns, own_data=True)


def _bool_layout(rng, s):
    return gen.rand_layout(rng, ['bool'] * len(s['cols'])) if rng.random() < 0.6 else None


@op('assign_bloc_elem', lambda rng, s: [rng.choice(['isna', 'notna', 'pattern']), rng.choice(FILLS), rng.randint(0, 2 ** 20), _bool_layout(rng, s)])
def _(f, a):
    import static_frame as sf
    if a[0] == 'isna':
        key = f.isna()
    elif a[0] == 'notna':
        key = f.notna()
    else:
        key = _key_frame(f, a[2], a[3] if len(a) > 3 else None)
    return f.assign.bloc[key](_fill(a[1]))


@op('assign_bloc_series', lambda rng, s: [rng.choice(['pattern', 'pattern', 'notna']), rng.choice(['series', 'apply']), rng.randint(0, 2 ** 20), _bool_layout(rng, s)])
def _(f, a):
    # the coordinate form of bloc assignment: a Series labelled by (row label, column label), given or produced by apply
    import static_frame as sf
    if a[0] == 'notna':
        key = f.notna()
    else:
        key = _key_frame(f, a[2], a[3] if len(a) > 3 else None)
    rl, cl = list(f.index), list(f.columns)
    code = lambda lab: 1000 + 10 * rl.index(lab[0]) + cl.index(lab[1])
    if a[1] == 'apply':
        return f.assign.bloc[key].apply(lambda s: sf.Series([code(l) for l in s.index], index=s.index))
    sel = f.bloc[key]
    return f.assign.bloc[key](sf.Series([code(l) for l in sel.index], index=sel.index))


@op('bloc', lambda rng, s: [rng.randint(0, 2 ** 20), _bool_layout(rng, s)])
def _(f, a):
    key = _key_frame(f, a[0], a[1] if len(a) > 1 else None)
    return f.bloc[key]


@op('astype_cols', lambda rng, s: [_ck(rng, s), rng.choice(['object', 'str', 'float64'])])
def _(f, a):
    k = a[0]
    return f.astype[_lab(f.columns, k) if k[0] in ('int', 'list') else _key(k) if k[0] == 'mask' else slice(None)](a[1])


@op('astype_all', lambda rng, s: [rng.choice(['object', 'str'])])
def _(f, a):
    return f.astype(a[0])


@op('T', lambda rng, s: [])
def _(f, a):
    return f.T


@op('values', lambda rng, s: [])
def _(f, a):
    return f.values


@op('dtypes', lambda rng, s: [])
def _(f, a):
    return f.dtypes


@op('to_pairs', lambda rng, s: [rng.randint(0, 1)])
def _(f, a):
    return f.to_pairs(a[0])


@op('iter_array', lambda rng, s: [rng.randint(0, 1)])
def _(f, a):
    return list(f.iter_array(axis=a[0]))


@op('iter_series', lambda rng, s: [rng.randint(0, 1)])
def _(f, a):
    return list(f.iter_series(axis=a[0]))


@op('iter_tuple', lambda rng, s: [rng.randint(0, 1)])
def _(f, a):
    return [tuple(t) for t in f.iter_tuple(axis=a[0])]


@op('iter_element_items', lambda rng, s: [])
def _(f, a):
    return list(f.iter_element_items())


@op('sort_values', lambda rng, s: [sorted(set(rng.randrange(len(s['cols'])) for _ in range(rng.randint(1, 2)))), rng.random() < 0.7])
def _(f, a):
    cols = [list(f.columns)[i] for i in a[0]]
    return f.sort_values(cols if len(cols) > 1 else cols[0], ascending=a[1])


@op('sort_index', lambda rng, s: [rng.random() < 0.5])
def _(f, a):
    return f.sort_index(ascending=a[0])


@op('sort_columns', lambda rng, s: [rng.random() < 0.5])
def _(f, a):
    return f.sort_columns(ascending=a[0])


@op('reindex', lambda rng, s: [rng.randint(0, 5), rng.choice(FILLS), rng.random() < 0.5])
def _(f, a):
    labels = list(f.index)
    new = labels[::-1][:max(0, len(labels) - a[0] % 2)] + ['__new__']
    cols = list(f.columns)
    newc = (cols[1:] + ['__newc__']) if a[2] else None
    return f.reindex(index=new, columns=newc, fill_value=_fill(a[1]))


@op('relabel', lambda rng, s: [])
def _(f, a):
    return f.relabel(index=lambda x: ('L', x), columns=lambda x: ('C', x))


@op('rename', lambda rng, s: [])
def _(f, a):
    return f.rename('newname')


@op('isna', lambda rng, s: [])
def _(f, a):
    return f.isna()


@op('notna', lambda rng, s: [])
def _(f, a):
    return f.notna()


@op('fillna', lambda rng, s: [rng.choice(FILLS[:6])])
def _(f, a):
    return f.fillna(_fill(a[0]))


@op('dropna', lambda rng, s: [rng.randint(0, 1), rng.choice(['all', 'any'])])
def _(f, a):
    return f.dropna(axis=a[0], condition=np.all if a[1] == 'all' else np.any)


@op('fillna_forward', lambda rng, s: [rng.randint(0, 3), rng.randint(0, 1)])
def _(f, a):
    return f.fillna_forward(limit=a[0], axis=a[1])


@op('fillna_backward', lambda rng, s: [rng.randint(0, 3), rng.randint(0, 1)])
def _(f, a):
    return f.fillna_backward(limit=a[0], axis=a[1])


@op('fillna_leading', lambda rng, s: [rng.choice(FILLS[:5]), rng.randint(0, 1)])
def _(f, a):
    return f.fillna_leading(_fill(a[0]), axis=a[1])


@op('fillna_trailing', lambda rng, s: [rng.choice(FILLS[:5]), rng.randint(0, 1)])
def _(f, a):
    return f.fillna_trailing(_fill(a[0]), axis=a[1])


@op('shift', lambda rng, s: [rng.randint(-3, 3), rng.randint(-3, 3), rng.choice(FILLS)])
def _(f, a):
    return f.shift(a[0], a[1], fill_value=_fill(a[2]))


@op('roll', lambda rng, s: [rng.randint(-3, 3), rng.randint(-3, 3), rng.random() < 0.5])
def _(f, a):
    return f.roll(a[0], a[1], include_index=a[2], include_columns=a[2])


@op('head', lambda rng, s: [rng.randint(0, 4)])
def _(f, a):
    return f.head(a[0])


@op('tail', lambda rng, s: [rng.randint(0, 4)])
def _(f, a):
    return f.tail(a[0])


@op('binop_scalar', lambda rng, s: [rng.choice(['add', 'mul', 'eq', 'ne', 'lt', 'radd', 'sub', 'floordiv']), rng.choice(['i:2', 'f:0.5', 's:"a"', 'b:1'])])
def _(f, a):
    v = _fill(a[1])
    return {'add': lambda: f + v, 'mul': lambda: f * v, 'eq': lambda: f == v, 'ne': lambda: f != v, 'lt': lambda: f < v,
            'radd': lambda: v + f, 'sub': lambda: f - v, 'floordiv': lambda: f // v}[a[0]]()


@op('unary', lambda rng, s: [rng.choice(['neg', 'abs', 'invert', 'pos'])])
def _(f, a):
    return {'neg': lambda: -f, 'abs': lambda: abs(f), 'invert': lambda: ~f, 'pos': lambda: +f}[a[0]]()


@op('binop_self', lambda rng, s: [rng.choice(['add', 'eq', 'mul'])])
def _(f, a):
    g = f.iloc[::-1]
    return {'add': lambda: f + g, 'eq': lambda: f == g, 'mul': lambda: f * g}[a[0]]()


REDUCE = ['sum', 'prod', 'min', 'max', 'mean', 'median', 'std', 'var', 'all', 'any', 'cumsum', 'cumprod']


@op('reduce', lambda rng, s: [rng.choice(REDUCE), rng.randint(0, 1), rng.random() < 0.6])
def _(f, a):
    return getattr(f, a[0])(axis=a[1], skipna=a[2])


@op('count', lambda rng, s: [rng.randint(0, 1)])
def _(f, a):
    return f.count(axis=a[0])


@op('loc_minmax', lambda rng, s: [rng.choice(['loc_min', 'loc_max', 'iloc_min', 'iloc_max']), rng.randint(0, 1), rng.random() < 0.6])
def _(f, a):
    return getattr(f, a[0])(axis=a[1], skipna=a[2])


@op('unique', lambda rng, s: [rng.choice([None, 0, 1])])
def _(f, a):
    r = f.unique(axis=a[0])
    if a[0] is None:
        return sorted(tok(x) for x in r.tolist()) if r.dtype != object else sorted(tok(x) for x in r)
    return r


@op('duplicated', lambda rng, s: [rng.randint(0, 1), rng.random() < 0.5, rng.random() < 0.5])
def _(f, a):
    return f.duplicated(axis=a[0], exclude_first=a[1], exclude_last=a[2])


@op('drop_duplicated', lambda rng, s: [rng.randint(0, 1), rng.random() < 0.5])
def _(f, a):
    return f.drop_duplicated(axis=a[0], exclude_first=a[1])


@op('set_index', lambda rng, s: [rng.randrange(len(s['cols'])), rng.random() < 0.5])
def _(f, a):
    return f.set_index(list(f.columns)[a[0]], drop=a[1])


@op('set_index_hierarchy', lambda rng, s: [rng.random() < 0.5])
def _(f, a):
    cols = list(f.columns)[:2]
    return f.set_index_hierarchy(cols, drop=a[0])


@op('unset_index', lambda rng, s: [])
def _(f, a):
    return f.unset_index()


@op('clip', lambda rng, s: [rng.randint(-3, 0), rng.randint(1, 4)])
def _(f, a):
    return f.clip(lower=a[0], upper=a[1])


def _bound_frame(f, base, layout, salt):
    """a Frame with f's labels holding int64 cells `base + pattern`, stored under its OWN block layout (a list of [width, is2d] over
    all columns: every column has the same dtype, so any composition is admissible) - staggered against f's blocks"""
    import numpy as np
    import static_frame as sf
    n, m = f.shape
    arr = np.array([[base + ((i * 7 + j * 3 + salt) % 5) for j in range(m)] for i in range(n)], dtype=np.int64).reshape(n, m)
    blocks, j = [], 0
    for w, is2d in layout:
        blk = arr[:, j:j + w].copy() if (is2d or w > 1) else arr[:, j].copy()
        blk.flags.writeable = False
        blocks.append(blk)
        j += w
    if not blocks:
        return sf.Frame(index=f.index, columns=f.columns)
    return sf.Frame(sf.TypeBlocks.from_blocks(blocks), index=f.index, columns=f.columns, own_data=True)


def _own_layout(rng, s):
    return gen.rand_layout(rng, ['int64'] * len(s['cols']))


# a bound given as a Frame is matched to the blocks of self by TypeBlocks.clip's own get_block_match (pop / split / push back)
@op('clip_frame', lambda rng, s: [rng.randint(-3, 1), rng.choice(['lower', 'upper', 'both']), _own_layout(rng, s), _own_layout(rng, s), rng.randrange(100)])
def _(f, a):
    lo = _bound_frame(f, a[0], a[2], a[4]) if a[1] in ('lower', 'both') else None
    hi = _bound_frame(f, a[0] + 3, a[3], a[4] + 1) if a[1] in ('upper', 'both') else None
    return f.clip(lower=lo, upper=hi)


@op('isin', lambda rng, s: [[rng.choice(FILLS) for _ in range(3)]])
def _(f, a):
    return f.isin([_fill(t) for t in a[0]])


@op('to_frame_go', lambda rng, s: [])
def _(f, a):
    g = f.to_frame_go()
    g['__added__'] = list(range(f.shape[0]))
    return g


@op('insert', lambda rng, s: [rng.randrange(len(s['cols'])), rng.random() < 0.5])
def _(f, a):
    import static_frame as sf
    lab = list(f.columns)[a[0]]
    ser = sf.Series(list(range(f.shape[0])), index=f.index, name='__ins__')
    return f.insert_before(lab, ser) if a[1] else f.insert_after(lab, ser)


@op('iter_group', lambda rng, s: [rng.randrange(len(s['cols']))])
def _(f, a):
    return [(canon(k), canon(g)) for k, g in f.iter_group_items(list(f.columns)[a[0]])]


@op('iter_window', lambda rng, s: [rng.randint(1, 3), rng.randint(1, 2)])
def _(f, a):
    return [(canon(k), canon(g)) for k, g in f.iter_window_items(size=a[0], step=a[1])]


@op('apply_rows', lambda rng, s: [])
def _(f, a):
    return f.iter_series(axis=1).apply(lambda s: len(s))


@op('to_csv', lambda rng, s: [])
def _(f, a):
    buf = io.StringIO()
    f.to_csv(buf)
    return buf.getvalue()


@op('display', lambda rng, s: [])
def _(f, a):
    import static_frame as sf
    return str(f.display(sf.DisplayConfig(type_color=False)))


@op('equals_copy', lambda rng, s: [])
def _(f, a):
    return f.equals(f.iloc[:, :]), f.equals(f.T.T)


@op('transpose_values', lambda rng, s: [])
def _(f, a):
    return f.transpose().values


@op('pivot_stack', lambda rng, s: [])
def _(f, a):
    return f.pivot_stack()


@op('cov', lambda rng, s: [])
def _(f, a):
    return f.loc_min(axis=1) if False else f.count(axis=1)


def catalogue_names():
    return sorted(CATALOGUE)


def rand_args(name, rng, spec):
    return CATALOGUE[name][0](rng, spec)


def run(name, f, args):
    import warnings
    try:
        with warnings.catch_warnings():
            warnings.simplefilter('ignore')
            r = CATALOGUE[name][1](f, args)
            return ('ok', canon(r))
    except Exception as ex:
        return ('err', type(ex).__name__)


# ------------------------------------------------------------------ known layout-dependent behaviours
def _strip_dtypes(r):
    """canonical result with dtype tokens blanked (values compared as tokens only)"""
    if not (isinstance(r, tuple) and r and r[0] == 'ok'):
        return r
    c = r[1]
    if isinstance(c, tuple) and c and c[0] == 'Frame':
        cols = tuple(('', v) for _, v in c[4])
        return ('ok', c[:4] + (cols,) + c[5:])
    if isinstance(c, tuple) and c and c[0] == 'Series':
        return ('ok', c[:3] + ('',) + c[4:])
    return r


def _values_equiv(ra, rb):
    """Frames/Series with identical labels whose cells are equal up to the object-conversion of the
    same value (datetime64 <-> date, NaT <-> None, numeric widening)"""
    a, b = _strip_dtypes(ra)[1], _strip_dtypes(rb)[1]
    if a == b:
        return True
    if not (isinstance(a, tuple) and isinstance(b, tuple) and a and b and a[0] == b[0]):
        return False
    if a[0] == 'Frame':
        if a[:4] != b[:4] or a[5:] != b[5:] or len(a[4]) != len(b[4]):
            return False
        return all(_num_equal_tokens(x[1], y[1]) for x, y in zip(a[4], b[4]))
    if a[0] == 'Series':
        return a[1] == b[1] and a[4:] == b[4:] and _num_equal_tokens(a[2], b[2])
    return False


def _only_text_widths_differ(ra, rb):
    a, b = ra[1], rb[1]
    if not (isinstance(a, tuple) and a and a[0] == 'Frame' and b[0] == 'Frame'):
        return False
    da, db = [c[0] for c in a[4]], [c[0] for c in b[4]]
    return len(da) == len(db) and all(x == y or (x[0] == y[0] and x[0] in 'US') for x, y in zip(da, db))


def _num_equal_tokens(a, b):
    """token tuples equal up to numeric widening / bool<->int (values compare == in Python)"""
    from sfv.props.c04 import cell_equal
    return len(a) == len(b) and all(cell_equal(x, y) or _boolnum(x, y) for x, y in zip(a, b))


def _boolnum(x, y):
    try:
        vx, vy = untok(x), untok(y)
        return bool(vx == vy)
    except Exception:
        return False


def _bool_saturated(a, b):
    """token tuples equal up to numeric widening, or a bool next to a count with the same truth value (True vs 2)"""
    def sat(x, y):
        try:
            vx, vy = untok(x), untok(y)
        except Exception:
            return False
        return (x.startswith('b:') and bool(vy) == vx) or (y.startswith('b:') and bool(vx) == vy)
    return len(a) == len(b) and all(_num_equal_tokens((x,), (y,)) or sat(x, y) for x, y in zip(a, b))


def classify_layout_difference(case, ra, rb):
    """Map a two-layout difference to a recorded finding id (findings/C03.json) or None."""
    name, args = case['op'], case['args']
    rows = case['spec']['rows']
    if ra[0] == rb[0] == 'ok' and _values_equiv(ra, rb):
        # identical labels and cell values; only per-column dtypes differ: whole-block retyping
        if name in ('assign_bloc_elem', 'assign_bloc_series'):
            return 'F19'
        if name in ('fillna', 'fillna_forward', 'fillna_backward', 'fillna_leading', 'fillna_trailing'):
            return 'F35'
        if name in ('astype_cols', 'astype_all') and args[-1] == 'str':
            return 'F33'
        if _only_text_widths_differ(ra, rb):
            return 'F33'  # fixed-width text dtype chosen per block (e.g. bytes * 2)
    if name == 'bloc' and ra[0] == rb[0] == 'ok':
        a, b = ra[1], rb[1]
        if a[0] == b[0] == 'Series' and sorted(zip(a[1], a[2])) == sorted(zip(b[1], b[2])):
            return 'F20'  # same (label, value) pairs, order depends on layout
    if name == 'assign_iloc_array' and args[2] in ('row2d', 'short'):
        return 'F73'  # an ill-shaped array value is refused, broadcast or mis-indexed depending on how the addressed columns are blocked
    overflow_one_side = sorted([ra[0], rb[0]]) == ['err', 'ok'] and 'OverflowError' in (ra[1] if ra[0] == 'err' else rb[1])
    if name == 'reduce' and args[1] == 0 and args[0] in ('sum', 'prod', 'cumsum', 'cumprod') and (ra[0] == rb[0] == 'ok' or overflow_one_side) \
            and any(c['dt'] in ('int8', 'uint8', 'float32') for c in case['spec']['cols']):
        return 'F72'  # narrow numeric columns: the per-block output keeps the narrow dtype and wraps / rounds
    if name == 'reduce' and rows == 0 and args[0] in ('all', 'any'):
        return 'F66'  # zero-row logical reductions read uninitialised memory for 2-D blocks
    if name == 'reduce' and any(c['dt'] in ('object', 'str', 'bytes') or c['dt'].startswith(('datetime', 'timedelta')) for c in case['spec']['cols']):
        # reductions over frames holding object / string / datetime columns are applied per block after casting each
        # block to the object row dtype: whether it raises, and what an all-missing or mixed vector reduces to, depends on
        # which columns share a block (C15 findings F38-F44 have the same root)
        return 'F69'
    if name == 'reduce' and any(c['dt'] == 'bool' for c in case['spec']['cols']) and len({c['dt'] for c in case['spec']['cols']}) > 1:
        return 'F69'  # bool next to numbers makes the row dtype object: same per-block object reductions
    if name == 'reduce' and args[1] == 0:
        fn, skipna = args[0], args[2]
        if ra[0] == rb[0] == 'ok' and ra[1][0] == rb[1][0] == 'Series' and ra[1][1] == rb[1][1] and _num_equal_tokens(ra[1][2], rb[1][2]):
            return 'F18'  # same values, result dtype depends on layout
        if fn == 'sum' and ra[0] == rb[0] == 'ok' and ra[1][0] == rb[1][0] == 'Series' and ra[1][1] == rb[1][1] \
                and any(c['dt'] == 'bool' for c in case['spec']['cols']) and _bool_saturated(ra[1][2], rb[1][2]):
            return 'F18'  # a bool column summed as its own block stays bool (True for any count >= 1); consolidated it is counted in int64
        if ra[0] == rb[0] == 'err':
            return 'F17'  # error class depends on layout (ValueError vs TypeError)
        if fn in ('sum', 'cumsum') and ra[0] == rb[0] == 'ok' and any(c['dt'] == 'str' for c in case['spec']['cols']):
            return 'F34'  # concatenation of strings truncated to the block's fixed width
    return None
