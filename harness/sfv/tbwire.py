"""Wire encoding of TypeBlocks for the Lean driver and decoding of its answers."""
from __future__ import annotations

import numpy as np

from sfv import gen
from sfv.canon import tok, dtype_tok, array_toks


def q(t):
    """A cell token as one driver atom: whitespace/parens inside would break tokenisation, so intern."""
    return t


class Interner:
    """Maps arbitrary cell tokens to safe atoms (x0, x1, ...) and back; '~' prefix survives."""
    def __init__(self):
        self.fwd, self.back = {}, []

    def atom(self, t):
        if t not in self.fwd:
            self.fwd[t] = f'x{len(self.back)}'
            self.back.append(t)
        return self.fwd[t]

    def token(self, a):
        pre = ''
        while a.startswith('~'):
            pre += '~'
            a = a[1:]
        return pre + self.back[int(a[1:])]


def tb_wire_from_blocks(blocks, rows, it):
    parts = []
    for b in blocks:
        dt = dtype_tok(b.dtype)
        if b.ndim == 1:
            parts.append(f'(d1 {dt} ' + ' '.join(it.atom(t) for t in array_toks(b)) + ')')
        else:
            cols = ['(' + ' '.join(it.atom(t) for t in array_toks(b[:, j])) + ')' for j in range(b.shape[1])]
            parts.append(f'(d2 {dt} ' + ' '.join(cols) + ')')
    return f'(tb {rows} ' + ' '.join(parts) + ')'


def parse_sexp(s):
    """Minimal s-expression reader for driver answers (atoms never contain spaces/parens here)."""
    toks = s.replace('(', ' ( ').replace(')', ' ) ').split()
    pos = 0

    def rd():
        nonlocal pos
        t = toks[pos]
        pos += 1
        if t == '(':
            out = []
            while toks[pos] != ')':
                out.append(rd())
            pos += 1
            return out
        return t
    res = rd()
    return res


def answer_tb(ans, it):
    """'ok (tb r (d1 dt a b) (d2 dt (a b) (c d)))' -> dict(rows, cols=[[tok]], dtypes=[dt], layout=[(w,is2d)]) or ('err', cat)"""
    if ans.startswith('err '):
        return ('err', ans[4:].strip())
    assert ans.startswith('ok '), ans
    e = parse_sexp(ans[3:])
    assert e[0] == 'tb'
    rows = int(e[1])
    cols, dts, layout = [], [], []
    for b in e[2:]:
        if b[0] == 'd1':
            cols.append([it.token(a) for a in b[2:]])
            dts.append(b[1])
            layout.append((1, False))
        else:
            for c in b[2:]:
                cols.append([it.token(a) for a in c])
                dts.append(b[1])
            layout.append((len(b) - 2, True))
    return {'rows': rows, 'cols': cols, 'dtypes': dts, 'layout': layout}


def real_tb_view(tb):
    """Same view of a real TypeBlocks."""
    cols, dts, layout = [], [], []
    for b in tb._blocks:
        if b.ndim == 1:
            cols.append(array_toks(b))
            dts.append(dtype_tok(b.dtype))
            layout.append((1, False))
        else:
            for j in range(b.shape[1]):
                cols.append(array_toks(b[:, j]))
                dts.append(dtype_tok(b.dtype))
            layout.append((b.shape[1], True))
    return {'rows': tb._shape[0], 'cols': cols, 'dtypes': dts, 'layout': layout}
