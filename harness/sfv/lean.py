"""Lean side of a check run: regenerate Gen/, build, audit axioms, run the driver."""
from __future__ import annotations

import fcntl
import os
import re
import subprocess
import sys
import time

VERIF = os.path.dirname(os.path.dirname(os.path.dirname(os.path.abspath(__file__))))
LEAN_DIR = os.path.join(VERIF, 'lean')
LOCK = os.path.join(LEAN_DIR, '.build.lock')
ALLOWED_AXIOMS = {'propext', 'Classical.choice', 'Quot.sound'}
FORBIDDEN = re.compile(r'\bsorry\b|\badmit\b|native_decide|bv_decide|^\s*axiom\s|implemented_by|\bunsafe\s|maxHeartbeats\s+0', re.M)


class Locked:
    def __enter__(self):
        self.f = open(LOCK, 'w')
        fcntl.flock(self.f, fcntl.LOCK_EX)
        return self

    def __exit__(self, *a):
        fcntl.flock(self.f, fcntl.LOCK_UN)
        self.f.close()


# translators run before every build: (tool, properties whose check treats its TRANSLATION-ERRORs as broken obligations;
# None = every property).  Every tool runs on every check run, so that lean/SFModel/Gen is always that of the current source.
TRANSLATORS = (('py2lean.py', None), ('py2lean_dtype.py', None), ('py2lean_window.py', ('C13',)),
               ('py2lean_targets.py', ('C14',)), ('py2lean_locmap.py', ('C02', 'C04', 'C05')),
               ('py2lean_reduce.py', ('C15',)), ('py2lean_bus.py', ('C17',)))


def regen(repo='/repo', prop=None):
    """Regenerate lean/SFModel/Gen from the current source. Returns list of translation errors (of the translators that
    serve `prop`; all of them when `prop` is None)."""
    errs = []
    for tool, props in TRANSLATORS:
        path = os.path.join(VERIF, 'tools', tool)
        if os.path.exists(path):
            p = subprocess.run([sys.executable, path, '--repo', repo], capture_output=True, text=True)
            if props is None or prop is None or prop in props:
                errs += [l for l in p.stdout.splitlines() if 'TRANSLATION-ERROR' in l]
    return errs


def build(targets, timeout=3000):
    """lake build the given module targets (plus the driver's imports). Returns (ok, log)."""
    p = subprocess.run(['lake', 'build'] + list(targets), cwd=LEAN_DIR, capture_output=True, text=True, timeout=timeout)
    return p.returncode == 0, (p.stdout + p.stderr)


def broken_decls(log):
    """Names of modules / theorems that failed in a lake build log (best effort)."""
    out = []
    for m in re.finditer(r'error: (\S+\.lean):(\d+):(\d+): (.*)', log):
        out.append(f'{m.group(1)}:{m.group(2)}: {m.group(4)[:120]}')
    return out


def strip_comments(src):
    src = re.sub(r'/-.*?-/', '', src, flags=re.S)
    return re.sub(r'--.*', '', src)


def grep_forbidden(modules):
    """Scan the sources of the given modules (and everything under SFModel they import) for forbidden constructs."""
    hits = []
    seen = set()
    todo = list(modules)
    while todo:
        m = todo.pop()
        if m in seen:
            continue
        seen.add(m)
        path = os.path.join(LEAN_DIR, *m.split('.')) + '.lean'
        if not os.path.exists(path):
            continue
        raw = open(path).read()
        for imp in re.findall(r'^import\s+(SFModel\.\S+)', raw, re.M):
            todo.append(imp)
        body = strip_comments(raw)
        for mm in FORBIDDEN.finditer(body):
            hits.append(f'{m}: {mm.group(0).strip()}')
    return hits, sorted(seen)


def recheck(modules, timeout=2400):
    """Replay the compiled .olean files of the given modules (proof terms included) through `leanchecker`, the
    toolchain's independent re-checker of the kernel.  Returns (ok, log tail)."""
    p = subprocess.run(['lake', 'env', 'leanchecker'] + list(modules), cwd=LEAN_DIR, capture_output=True, text=True, timeout=timeout)
    return p.returncode == 0, (p.stdout + p.stderr)[-600:]


def audit(theorems, modules):
    """#print axioms for every named theorem. Returns dict name -> list of axioms, or None when missing."""
    if not theorems:
        return {}
    src = '\n'.join(f'import {m}' for m in modules) + '\n' + '\n'.join(f'#print axioms {t}' for t in theorems) + '\n'
    path = os.path.join(LEAN_DIR, f'.audit_{os.getpid()}.lean')
    with open(path, 'w') as f:
        f.write(src)
    try:
        p = subprocess.run(['lake', 'env', 'lean', path], cwd=LEAN_DIR, capture_output=True, text=True, timeout=1200)
    finally:
        os.unlink(path)
    text = p.stdout + p.stderr
    res = {}
    for t in theorems:
        short = t
        m = re.search(r"'" + re.escape(short) + r"' depends on axioms: \[(.*?)\]", text, re.S)
        if m:
            res[t] = [a.strip() for a in m.group(1).replace('\n', ' ').split(',') if a.strip()]
        elif re.search(r"'" + re.escape(short) + r"' does not depend on any axioms", text):
            res[t] = []
        else:
            res[t] = None
    return res


def run_driver(lines, timeout=1800):
    """Pipe lines to the Lean driver, return list of answers (same length) or raise RuntimeError."""
    if not lines:
        return []
    data = '\n'.join(lines) + '\n'
    for l in lines:
        if '\n' in l:
            raise ValueError('newline inside a driver line')
    p = subprocess.run(['lake', 'env', 'lean', '--run', 'Driver.lean'], cwd=LEAN_DIR, input=data,
                       capture_output=True, text=True, timeout=timeout)
    outs = p.stdout.split('\n')
    if outs and outs[-1] == '':
        outs.pop()
    if p.returncode != 0 or len(outs) != len(lines):
        raise RuntimeError(f'driver failed rc={p.returncode} got {len(outs)} answers for {len(lines)} lines: {p.stderr[-2000:]}')
    return outs
