"""C11 - concatenation and overlay keep every input cell exactly once, aligned by label.

Case kinds
  idxcat   container_util.index_many_concat / index_many_set on lists of Index
  vstack   TypeBlocks.vstack_blocks_to_blocks with every valid flag combination (three strategies)
  fcat     Frame.from_concat (Frames and Series members, both axes, union / intersection, explicit /
           auto / derived index and columns, list or generator input, fill values)
  fitems   Frame.from_concat_items (both axes)
  scat     Series.from_concat / from_concat_items
  sover    Series.from_overlay
  fover    Frame.from_overlay

Cells travel as canonical tokens (sfv.canon.tok); labels reach the model as integer ranks.
"""
from __future__ import annotations

import itertools
import math

import numpy as np

from check import Failure
from sfv import gen
from sfv.canon import tok, untok, err_cat, hash_class
from sfv.props.c06 import (Universe, parse_answer, wl, kind_of_dtype, build_idx, idx_labels, frame_from_spec,
                           index_spec, arr_list, IH_POOLS)

TARGETS = ['SFModel.Props.C11']
THEOREMS = [
    'SF.C11.vstack_strategies_agree', 'SF.C11.flags_justified', 'SF.C11.vstack_columns_in_order', 'SF.C11.aligned_labels',
    'SF.C11.concat_cells_exact', 'SF.C11.concat_cells_exact_axis1', 'SF.C11.concat_nonunique_rejected',
    'SF.C11.series_concat_nonunique_rejected', 'SF.C11.items_two_level', 'SF.C11.overlay_cells',
    'SF.C11.overlay_first_nonmissing', 'SF.C11.frame_overlay_cells', 'SF.C11.frame_overlay_first_nonmissing',
    'SF.C11.concat_empty_intersection_counterexample', 'SF.C11.items_empty_member_counterexample',
]
PARTIAL = []
CORR_ONLY = [
    'explicit index= / columns= initializers and IndexAutoFactory in from_concat (model ops + dictionary reference; the theorems cover derived labels and the two-level labels of from_concat_items on axis 0)',
    'from_concat_items on axis 1, Series.from_concat / from_concat_items, Series members of Frame.from_concat (to_frame), generator inputs',
    'resolved dtypes of stacked blocks are proved equal across strategies at kind granularity; the real dtypes are NumPy / resolve_dtype (cells compared by value)',
    'consolidate groups on the dtype kind in the model, on the exact dtype in the code (only selects a vstack strategy; strategies proved equal)',
]
RULE = ('seeded random sequences of 0..5 Frames / Series over small label pools (identical, permuted, overlapping, disjoint labels on the '
        'aligned axis; unique or clashing labels along the concatenation axis), dtypes int/float/bool/str/object/date, random, consolidated '
        'and per-column block layouts (forcing each vstack strategy), both axes, union / intersection, explicit / auto / derived labels, '
        'list or generator input; thorough adds all pairs of 2x2 frames over 3 labels per axis x all layouts; non-trivial = at least one '
        'member; distinct = distinct canonical case JSON')
TRUSTED = ['NumPy concatenation of arrays of one dtype and `resolve_dtype` are parameters of the model (cells are compared, dtypes are not)',
           'the harness maps labels to integer ranks before calling the model']
ASSUMPTIONS = ['labels are not NaN / NaT; integers stay below 2**53 (int64 + float64 resolves to float64 by design)']
BUDGET = {'quick': 60, 'thorough': 750}

AUTO_BASE = 1000000
PAIR_BASE = 10000000
MISSING_TOKS = ('nan', 'N', 'nat')

# two datetime units: members holding one column at different units (coarser first) must keep the finer cells exactly
DTYPES = ['int64', 'float64', 'bool', 'str', 'object', 'datetime64[D]', 'datetime64[s]']
POOLS = {
    'int': ['i:0', 'i:1', 'i:2', 'i:3', 'i:5', 'i:7', 'i:10', 'i:-4'],
    'str': ['s:"a"', 's:"b"', 's:"c"', 's:"d"', 's:"e"', 's:"zz"', 's:"ab"', 's:"B"'],
    'mixed': ['s:"a"', 's:"b"', 'i:1', 'i:2', 'f:2.5', 's:"zz"', 'i:-1', 's:"q"'],
}
FILLS = [('nan', 'float'), ('nan', 'float'), ('N', 'obj'), ('i:0', 'int'), ('s:"x"', 'str')]


# ------------------------------------------------------------------ values
def rand_cell(rng, dt, na=0.2):
    if dt == 'int64':
        return f'i:{rng.randint(-9, 99)}'
    if dt == 'float64':
        if rng.random() < na:
            return 'nan'
        return tok(rng.choice([0.5, 1.5, -2.25, 3.0, 10.0, float(rng.randint(-5, 5))]))
    if dt == 'bool':
        return f'b:{rng.randint(0, 1)}'
    if dt == 'str':
        return tok(rng.choice(['', 'a', 'bc', 'xyz', 'Q']))
    if dt == 'datetime64[D]':
        if rng.random() < na:
            return 'nat'
        return tok(np.datetime64('2021-01-01', 'D') + np.timedelta64(rng.randint(0, 60), 'D'))
    if dt == 'datetime64[s]':
        if rng.random() < na:
            return 'nat'
        return tok(np.datetime64('2021-01-01T00:00:00', 's') + np.timedelta64(rng.randint(0, 60) * 86400 + rng.choice([0, 0, 1, 3600, 45296]), 's'))
    r = rng.random()
    if r < na / 2:
        return 'N'
    if r < na:
        return 'nan'
    return rng.choice([tok(rng.randint(-5, 5)), tok(rng.choice(['a', 'bc'])), tok(2.5), tok(bool(rng.randint(0, 1)))])


def cell_key(v):
    """equality class of a real cell: numbers compare by value; the missing markers None / NaN / NaT are one
    class (resolving datetime64 with another dtype stores NaT as None in the object array)"""
    if v is None:
        return 'missing'
    if isinstance(v, (float, np.floating)) and math.isnan(float(v)):
        return 'missing'
    if isinstance(v, (np.datetime64, np.timedelta64)) and np.isnat(v):
        return 'missing'
    import datetime
    if isinstance(v, datetime.datetime) and v.tzinfo is None:
        v = np.datetime64(v)        # what a second-resolution datetime64 becomes inside an object array
    if isinstance(v, np.datetime64):
        if v == v.astype('datetime64[D]'):
            return 'd:' + str(v.astype('datetime64[D]'))
        if v == v.astype('datetime64[s]'):
            return 'dt:' + str(v.astype('datetime64[s]'))
        return tok(v)
    if isinstance(v, datetime.date) and not isinstance(v, datetime.datetime):
        return 'd:' + v.isoformat()
    return hash_class(v)


def tok_key(t):
    if t in MISSING_TOKS:
        return 'missing'
    return cell_key(untok(t))


def is_missing_key(k):
    return k == 'missing'


# ------------------------------------------------------------------ members
def rand_frame(rng, rpool, cpool, rl, cl, dtypes=DTYPES, layout_mode=None):
    n, m = len(rl), len(cl)
    dts = []
    for j in range(m):
        if dts and rng.random() < 0.55:
            dts.append(dts[-1])
        else:
            dts.append(rng.choice(dtypes))
    cols = [{'dt': dt, 'v': [rand_cell(rng, dt) for _ in range(n)]} for dt in dts]
    mode = layout_mode or rng.choice(['rand', 'rand', 'canon', 'consol'])
    layout = {'rand': gen.rand_layout, 'canon': lambda r, d: gen.canonical_layout(d),
              'consol': lambda r, d: gen.consolidated_layout(d)}[mode](rng, dts)
    return {'t': 'frame', 'spec': {'index': index_spec(rpool, rl), 'columns': index_spec(cpool, cl), 'cols': cols,
                                   'layout': layout, 'rows': n}}


def rand_series_member(rng, pool, labels, name):
    dt = rng.choice(DTYPES)
    return {'t': 'series', 'index': index_spec(pool, labels), 'dt': dt, 'v': [rand_cell(rng, dt) for _ in labels], 'name': name}


def build_member(m):
    import static_frame as sf
    if m['t'] == 'frame':
        return frame_from_spec(m['spec'])
    arr = gen.col_array(m['dt'], m['v'])
    return sf.Series(arr, index=build_idx(m['index']), name=untok(m['name']) if m.get('name') else None)


def member_as_frame_dict(m, axis):
    """(row labels, column labels, {(r, c): token key}, per-column tokens) with labels as hash classes; a Series
    becomes a row (axis 0) or a column (axis 1) named by its name."""
    if m['t'] == 'frame':
        f = frame_from_spec(m['spec'])
    else:
        f = build_member(m).to_frame(axis)
    rl = [hash_class(x) for x in idx_labels(f.index)]
    cl = [hash_class(x) for x in idx_labels(f.columns)]
    cells = {}
    for j, c in enumerate(cl):
        arr = f._blocks._extract_array(column_key=j)
        for r, v in zip(rl, arr_list(arr)):
            cells[(r, c)] = cell_key(v)
    return rl, cl, cells, f


def member_labels(m):
    if m['t'] == 'frame':
        return m['spec']['index']['labels'] + m['spec']['columns']['labels']
    return m['index']['labels'] + ([m['name']] if m.get('name') else ['N'])


def w_blocks(f):
    """blocks of a real Frame as the model wants them: ((kind (col) (col)) ...) with token cells"""
    out = []
    for b in f._blocks._blocks:
        k = kind_of_dtype(b.dtype)
        if b.ndim == 1:
            cols = [[tok(x) for x in arr_list(b)]]
        else:
            cols = [[tok(x) for x in arr_list(b[:, j])] for j in range(b.shape[1])]
        out.append(f"({k} " + ' '.join('(' + ' '.join(c) + ')' for c in cols) + ')')
    return '(' + ' '.join(out) + ')'


def w_bframe(u, f):
    return (f"(bf {kind_of_dtype(f.index.values.dtype)} {wl(u.r(x) for x in idx_labels(f.index))} "
            f"{kind_of_dtype(f.columns.values.dtype)} {wl(u.r(x) for x in idx_labels(f.columns))} {w_blocks(f)})")


def w_series(u, s):
    return (f"(sr {kind_of_dtype(s.index.values.dtype)} {wl(u.r(x) for x in idx_labels(s.index))} "
            f"({' '.join(tok(x) for x in arr_list(s.values))}))")


def w_index_arg(u, a):
    if a is None:
        return 'N'
    if a == 'auto':
        return 'A'
    from static_frame.core.util import iterable_to_array_1d
    arr = iterable_to_array_1d([untok(t) for t in a])[0]
    return f"({kind_of_dtype(arr.dtype) if len(a) else 'float'} {wl(u.rt(t) for t in a)})"


def real_index_arg(a):
    import static_frame as sf
    if a is None:
        return None
    if a == 'auto':
        return sf.IndexAutoFactory
    return [untok(t) for t in a]


# ------------------------------------------------------------------ generation helpers
def split_pool(rng, pool, k):
    """k disjoint label lists (possibly empty) drawn from one pool"""
    p = list(POOLS[pool])
    rng.shuffle(p)
    out = []
    for _ in range(k):
        n = rng.randint(0, min(3, len(p)))
        out.append(p[:n])
        p = p[n:]
    return out


def aligned_labels(rng, pool, k, minlen=1):
    """k label lists for the aligned axis with a chosen relation"""
    p = POOLS[pool]
    rel = rng.choice(['same', 'same', 'perm', 'overlap', 'overlap', 'disjoint', 'subset'])
    base = rng.sample(p, rng.randint(minlen, 4))
    out = []
    for i in range(k):
        if rel == 'same':
            out.append(list(base))
        elif rel == 'perm':
            b = list(base)
            rng.shuffle(b)
            out.append(b)
        elif rel == 'overlap':
            out.append(rng.sample(p, rng.randint(minlen, 4)))
        elif rel == 'subset':
            out.append(rng.sample(base, rng.randint(minlen, len(base))) if i else list(base))
        else:
            rest = [x for x in p if all(x not in o for o in out)]
            n = rng.randint(minlen, 3)
            out.append(rest[:n] if len(rest) >= n else rng.sample(p, n))
    return out, rel


def nontrivial(c):
    return c.get('n', 1) > 0


def cases(ctx):
    rng = ctx.rng('main')
    quick = ctx.tier == 'quick'
    # the known oddity, replayed on every run: intersection of disjoint columns
    yield {'k': 'fcat', 'axis': 0, 'union': False, 'index': None, 'columns': None, 'fill': ['nan', 'float'], 'gen': False, 'n': 2,
           'members': [{'t': 'frame', 'spec': {'index': index_spec('str', ['s:"r"']), 'columns': index_spec('str', ['s:"a"', 's:"b"']),
                                              'cols': [{'dt': 'int64', 'v': ['i:1']}, {'dt': 'int64', 'v': ['i:2']}],
                                              'layout': [[1, False], [1, False]], 'rows': 1}},
                       {'t': 'frame', 'spec': {'index': index_spec('str', ['s:"s"']), 'columns': index_spec('str', ['s:"c"', 's:"d"']),
                                              'cols': [{'dt': 'int64', 'v': ['i:1']}, {'dt': 'int64', 'v': ['i:2']}],
                                              'layout': [[1, False], [1, False]], 'rows': 1}}]}

    for _ in range(500 if quick else 3000):
        pool = rng.choice(['int', 'str', 'mixed'])
        k = rng.randint(0, 5)
        if rng.random() < 0.5:
            lists, rel = aligned_labels(rng, pool, k, minlen=0)
        else:
            lists, rel = split_pool(rng, pool, k), 'split'
        yield {'k': 'idxcat', 'pool': pool, 'lists': lists, 'rel': rel, 'n': k}

    for _ in range(800 if quick else 6000):
        yield rand_vstack_case(rng)

    for _ in range(3000 if quick else 16000):
        yield rand_fcat_case(rng)

    for _ in range(500 if quick else 3000):
        c = rand_fcat_case(rng, items=True)
        yield c

    for _ in range(600 if quick else 4000):
        yield rand_scat_case(rng)

    for _ in range(800 if quick else 5000):
        yield rand_sover_case(rng)

    for _ in range(900 if quick else 6000):
        yield rand_fover_case(rng)

    if not quick:
        yield from exhaustive_pairs(ctx)


def rand_vstack_case(rng):
    k = rng.randint(1, 4)
    m = rng.randint(1, 4)
    mode = rng.choice(['block', 'reblock', 'columns', 'rand'])
    base_dts = []
    for j in range(m):
        base_dts.append(base_dts[-1] if base_dts and rng.random() < 0.6 else rng.choice(DTYPES))
    members = []
    base_layout = gen.rand_layout(rng, base_dts)
    for i in range(k):
        n = rng.randint(0, 3)
        if mode == 'block':
            dts = list(base_dts) if rng.random() < 0.7 else [rng.choice(DTYPES)] * m
            layout = base_layout if dts == base_dts else None
        elif mode == 'reblock':
            dts = list(base_dts)
            layout = gen.rand_layout(rng, dts)
        elif mode == 'columns':
            dts = [rng.choice(DTYPES) for _ in range(m)]
            layout = gen.rand_layout(rng, dts)
        else:
            dts = list(base_dts) if rng.random() < 0.5 else [rng.choice(DTYPES) for _ in range(m)]
            layout = gen.rand_layout(rng, dts)
        if layout is None:
            # same widths as the base layout, single dtype
            layout = base_layout
        cols = [{'dt': dt, 'v': [rand_cell(rng, dt) for _ in range(n)]} for dt in dts]
        members.append({'cols': cols, 'layout': layout, 'rows': n})
    return {'k': 'vstack', 'members': members, 'mode': mode, 'n': k * m}


def rand_fcat_case(rng, items=False):
    axis = rng.randint(0, 1)
    union = rng.random() < 0.65
    k = rng.choice([0, 1, 2, 2, 3, 3, 4, 5])
    apool = rng.choice(['int', 'str', 'mixed'])     # aligned axis
    cpool = rng.choice(['int', 'str', 'mixed'])     # concatenation axis
    aligned, rel = aligned_labels(rng, apool, k)
    if rng.random() < 0.12 and k >= 2:
        along = [rng.sample(POOLS[cpool], rng.randint(1, 3)) for _ in range(k)]   # may clash
        arel = 'free'
    else:
        along = split_pool(rng, cpool, k)
        arel = 'split'
    members = []
    layout_mode = rng.choice([None, None, 'canon', 'consol'])
    same_dtypes = rng.random() < 0.4
    dts_choice = [rng.choice(DTYPES)] if same_dtypes else DTYPES
    for i in range(k):
        if not items and rng.random() < 0.15 and aligned[i]:
            nm = along[i][0] if along[i] else rng.choice(POOLS[cpool])
            along[i] = [nm]
            members.append(rand_series_member(rng, apool, aligned[i], nm))
        else:
            rl, cl = (along[i], aligned[i]) if axis == 0 else (aligned[i], along[i])
            if not cl:
                cl = [rng.choice(POOLS[cpool if axis == 1 else apool])]
                if axis == 1:
                    along[i] = cl
            members.append(rand_frame(rng, cpool if axis == 0 else apool, apool if axis == 0 else cpool, rl, cl,
                                      dtypes=dts_choice, layout_mode=layout_mode))
    total = sum(len(a) for a in along)
    c = {'k': 'fitems' if items else 'fcat', 'axis': axis, 'union': union, 'members': members, 'rel': rel, 'arel': arel,
         'fill': list(rng.choice(FILLS)), 'gen': rng.random() < 0.3, 'n': k}
    if items:
        keys = rng.sample(['s:"k1"', 's:"k2"', 's:"k3"', 'i:100', 'i:200', 's:"k6"'], k)
        if k >= 2 and rng.random() < 0.08:
            keys[1] = keys[0]
        c['keys'] = keys
        return c
    # explicit / auto / derived labels
    r = rng.random()
    if r < 0.6:
        c['along'] = None
    elif r < 0.8:
        c['along'] = 'auto'
    else:
        ln = total if rng.random() < 0.8 else total + 1
        labs = [f'i:{1000 + i}' for i in range(ln)]
        if ln >= 2 and rng.random() < 0.1:
            labs[1] = labs[0]
        c['along'] = labs
    r = rng.random()
    if r < 0.75:
        c['other'] = None
    elif r < 0.8:
        c['other'] = 'auto'
    else:
        c['other'] = rng.sample(POOLS[apool], rng.randint(1, 4))
    return c


def rand_scat_case(rng):
    k = rng.choice([0, 1, 2, 3, 4])
    pool = rng.choice(['int', 'str', 'mixed'])
    if rng.random() < 0.15 and k >= 2:
        along = [rng.sample(POOLS[pool], rng.randint(1, 3)) for _ in range(k)]
    else:
        along = split_pool(rng, pool, k)
    members = [rand_series_member(rng, pool, a, None) for a in along]
    total = sum(len(a) for a in along)
    c = {'k': 'scat', 'members': members, 'n': k, 'gen': rng.random() < 0.3}
    r = rng.random()
    if r < 0.35:
        c['mode'] = 'items'
        keys = rng.sample(['s:"k1"', 's:"k2"', 's:"k3"', 'i:100', 'i:200'], k)
        if k >= 2 and rng.random() < 0.1:
            keys[1] = keys[0]
        c['keys'] = keys
    else:
        c['mode'] = 'concat'
        r = rng.random()
        if r < 0.6:
            c['index'] = None
        elif r < 0.8:
            c['index'] = 'auto'
        else:
            ln = total if rng.random() < 0.8 else total + 1
            c['index'] = [f'i:{1000 + i}' for i in range(ln)]
    return c


def rand_sover_case(rng):
    k = rng.choice([1, 2, 2, 3, 3, 4, 5, 0])
    pool = rng.choice(['int', 'str', 'mixed'])
    lists, rel = aligned_labels(rng, pool, k)
    dt = rng.choice(['float64', 'float64', 'object', 'datetime64[D]'])
    members = []
    for l in lists:
        d = dt if rng.random() < 0.8 else rng.choice(['float64', 'object', 'int64'])
        members.append({'t': 'series', 'index': index_spec(pool, l), 'dt': d,
                        'v': [rand_cell(rng, d, na=0.5) for _ in l], 'name': None})
    c = {'k': 'sover', 'members': members, 'union': rng.random() < 0.7, 'rel': rel, 'n': k, 'gen': rng.random() < 0.3}
    c['index'] = rng.sample(POOLS[pool], rng.randint(1, 4)) if rng.random() < 0.2 else None
    return c


def rand_fover_case(rng):
    k = rng.choice([1, 2, 2, 3, 3, 4, 0])
    rpool = rng.choice(['int', 'str', 'mixed'])
    cpool = rng.choice(['int', 'str', 'mixed'])
    rls, rrel = aligned_labels(rng, rpool, k)
    cls, crel = aligned_labels(rng, cpool, k)
    members = []
    for rl, cl in zip(rls, cls):
        n = len(rl)
        dts = [rng.choice(['float64', 'float64', 'object', 'int64', 'datetime64[D]']) for _ in cl]
        # per column: no missing cell at all (a clean block next to one with holes) or many
        nas = [rng.choice([0.0, 0.0, 0.5, 0.8]) for _ in dts]
        if rng.random() < 0.4 and len(dts) >= 2:
            dts = [dts[0]] * len(dts)       # one dtype: the columns can share 2-D blocks
        cols = [{'dt': dt, 'v': [rand_cell(rng, dt, na=na) for _ in range(n)]} for dt, na in zip(dts, nas)]
        members.append({'t': 'frame', 'spec': {'index': index_spec(rpool, rl), 'columns': index_spec(cpool, cl), 'cols': cols,
                                               'layout': gen.rand_layout(rng, dts), 'rows': n}})
    if k >= 2 and rng.random() < 0.3:
        # block-structured members over the same labels: a clean block of several columns placed before (or after) blocks
        # that hold missing cells - the fill of a later block must come from the same labels of the later members
        rl = rng.sample(POOLS[rpool], rng.randint(2, 4))
        cl = rng.sample(POOLS[cpool], min(len(POOLS[cpool]), rng.randint(3, 5)))
        members = []
        for i in range(k):
            w = rng.randint(2, len(cl) - 1)
            clean_dt = rng.choice(['int64', 'float64', 'object'])
            holes_dt = [rng.choice(['float64', 'object', 'datetime64[D]']) for _ in range(len(cl) - w)]
            dts = [clean_dt] * w + holes_dt
            nas = [0.0] * w + [0.6] * (len(cl) - w)
            layout = [[w, True]] + [[1, rng.random() < 0.3] for _ in holes_dt]
            if rng.random() < 0.3:
                dts, nas, layout = dts[::-1], nas[::-1], layout[::-1]
            cols = [{'dt': dt, 'v': [rand_cell(rng, dt, na=na) for _ in rl]} for dt, na in zip(dts, nas)]
            members.append({'t': 'frame', 'spec': {'index': index_spec(rpool, rl), 'columns': index_spec(cpool, cl), 'cols': cols,
                                                   'layout': layout, 'rows': len(rl)}})
        rrel = crel = 'same-structured'
    c = {'k': 'fover', 'members': members, 'union': rng.random() < 0.7, 'n': k, 'gen': rng.random() < 0.3, 'rel': rrel + '/' + crel}
    c['index'] = rng.sample(POOLS[rpool], rng.randint(1, 4)) if rng.random() < 0.2 else None
    c['columns'] = rng.sample(POOLS[cpool], rng.randint(1, 4)) if rng.random() < 0.2 else None
    return c


def exhaustive_pairs(ctx):
    """all pairs of 2x2 frames over 3 labels per axis x all block layouts (left frame: fixed labels on the
    concatenation axis), both axes, union and intersection"""
    labs = ['i:1', 'i:2', 'i:3']
    along_b = ['i:7', 'i:8']
    pairs = list(itertools.permutations(labs, 2))
    layouts = gen.layouts_for(['int64', 'int64'])
    lay_mixed = gen.layouts_for(['int64', 'float64'])

    def frame(axis, along, aligned, layout, base, dts):
        rl, cl = (along, aligned) if axis == 0 else (aligned, along)
        vals = [[base + 10 * j + i for i in range(2)] for j in range(2)]
        cols = [{'dt': dt, 'v': [tok(float(v)) if dt == 'float64' else f'i:{v}' for v in vals[j]]} for j, dt in enumerate(dts)]
        return {'t': 'frame', 'spec': {'index': index_spec('int', list(rl)), 'columns': index_spec('int', list(cl)), 'cols': cols,
                                       'layout': layout, 'rows': 2}}
    for axis in (0, 1):
        for union in (True, False):
            for ca in pairs:
                for la in layouts:
                    for cb in pairs:
                        for lb in layouts + lay_mixed:
                            if ctx.out_of_time():
                                return
                            dtb = ['int64', 'float64'] if lb in lay_mixed and lb not in layouts else ['int64', 'int64']
                            if lb in lay_mixed and lb in layouts:
                                dtb = ['int64', 'int64']
                            for along2 in (along_b, ['i:7', 'i:5']):
                                yield {'k': 'fcat', 'axis': axis, 'union': union, 'along': None, 'other': None, 'fill': ['nan', 'float'],
                                       'gen': False, 'n': 2, 'rel': 'all', 'arel': 'all',
                                       'members': [frame(axis, ['i:5', 'i:6'], ca, la, 100, ['int64', 'int64']),
                                                   frame(axis, along2, cb, lb, 200, dtb)]}


# ------------------------------------------------------------------ model lines
def case_universe(c):
    toks = []
    k = c['k']
    if k == 'idxcat':
        for l in c['lists']:
            toks.extend(l)
    elif k == 'vstack':
        pass
    else:
        for m in c['members']:
            toks.extend(member_labels(m))
        for key in ('along', 'other', 'index', 'columns', 'keys'):
            v = c.get(key)
            if isinstance(v, list):
                toks.extend(v)
        toks.append('N')
    return Universe(toks)


def vstack_tbs(c):
    import static_frame as sf
    tbs = []
    for m in c['members']:
        spec = {'cols': m['cols'], 'layout': m['layout'], 'rows': m['rows']}
        tbs.append(sf.TypeBlocks.from_blocks(gen.build_blocks(spec)))
    return tbs


def w_tb(tb):
    out = []
    for b in tb._blocks:
        k = kind_of_dtype(b.dtype)
        if b.ndim == 1:
            cols = [[tok(x) for x in arr_list(b)]]
        else:
            cols = [[tok(x) for x in arr_list(b[:, j])] for j in range(b.shape[1])]
        out.append(f"({k} " + ' '.join('(' + ' '.join(col) + ')' for col in cols) + ')')
    return '(' + ' '.join(out) + ')'


def real_flags(tbs):
    bc = rc = True
    for prev, tb in zip(tbs, tbs[1:]):
        bc = bc and tb.block_compatible(prev, axis=1)
        rc = rc and tb.reblock_compatible(prev)
    return bc, rc


def vstack_flag_sets(tbs):
    bc, rc = real_flags(tbs)
    sets = [(False, False), (bc, rc)]
    if rc:
        sets.append((False, True))
    if bc:
        sets.append((True, False))
        sets.append((True, True))
    out = []
    for s in sets:
        if s not in out:
            out.append(s)
    return out


def fcat_args(c):
    """(index argument, columns argument) in terms of along / other and the axis"""
    if c['k'] == 'fitems':
        return None, None
    along, other = c.get('along'), c.get('other')
    return (along, other) if c['axis'] == 0 else (other, along)


def model_lines(c):
    k = c['k']
    u = case_universe(c)
    cl = u.wire_classes()
    if k == 'idxcat':
        idxs = [build_idx(index_spec(c['pool'], l)) for l in c['lists']]
        w = '(' + ' '.join(f"({kind_of_dtype(ix.values.dtype)} {wl(u.r(x) for x in idx_labels(ix))})" for ix in idxs) + ')'
        return [f'cat.index_concat {w}', f'cat.index_set 1 {w} {cl}', f'cat.index_set 0 {w} {cl}']
    if k == 'vstack':
        tbs = vstack_tbs(c)
        w = '(' + ' '.join(w_tb(tb) for tb in tbs) + ')'
        return [f'cat.flags {w}'] + [f'cat.vstack {w} {int(bc)} {int(rc)}' for bc, rc in vstack_flag_sets(tbs)]
    members = [build_member(m) for m in c['members']]
    import static_frame as sf
    if k in ('fcat', 'fitems'):
        axis = c['axis']
        frames = [m if isinstance(m, sf.Frame) else m.to_frame(axis) for m in members]
        fill, fk = c['fill']
        if k == 'fcat':
            ia, ca = fcat_args(c)
            w = '(' + ' '.join(w_bframe(u, f) for f in frames) + ')'
            return [f"cat.concat {axis} {int(c['union'])} {w_index_arg(u, ia)} {w_index_arg(u, ca)} {fill} {fk} {w} {cl}"]
        w = '(' + ' '.join(f"({u.rt(key)} {w_bframe(u, f)})" for key, f in zip(c['keys'], frames)) + ')'
        return [f"cat.items {axis} {int(c['union'])} {fill} {fk} {w} {cl}"]
    if k == 'scat':
        if c['mode'] == 'items':
            w = '(' + ' '.join(f"({u.rt(key)} {w_series(u, s)})" for key, s in zip(c['keys'], members)) + ')'
            return [f'cat.sitems {w}']
        w = '(' + ' '.join(w_series(u, s) for s in members) + ')'
        return [f"cat.sconcat {w_index_arg(u, c['index'])} {w}"]
    if k == 'sover':
        w = '(' + ' '.join(w_series(u, s) for s in members) + ')'
        idx = 'N' if c['index'] is None else w_index_arg(u, c['index'])
        return [f"cat.soverlay {idx} {int(c['union'])} nan {w} {cl}"]
    if k == 'fover':
        w = '(' + ' '.join(w_bframe(u, f) for f in members) + ')'
        idx = 'N' if c['index'] is None else w_index_arg(u, c['index'])
        col = 'N' if c['columns'] is None else w_index_arg(u, c['columns'])
        return [f"cat.foverlay {idx} {col} {int(c['union'])} nan {w} {cl}"]
    return []


# ------------------------------------------------------------------ evaluation
def evaluate(ctx, c, outs):
    with np.errstate(all='ignore'):
        return {'idxcat': eval_idxcat, 'vstack': eval_vstack, 'fcat': eval_fcat, 'fitems': eval_fcat, 'scat': eval_scat,
                'sover': eval_sover, 'fover': eval_fover}[c['k']](ctx, c, outs)


def decode_label(u, r):
    """rank -> hash class; auto positions and pairs are decoded"""
    r = int(r)
    if r >= PAIR_BASE:
        k, l = divmod(r - PAIR_BASE, 1000)
        return ('pair', hash_class(u.values[k]), hash_class(u.values[l]))
    if r >= AUTO_BASE:
        return ('auto', r - AUTO_BASE)
    return hash_class(u.values[r])


def real_label(x):
    if isinstance(x, tuple) and len(x) == 2:
        return ('pair', hash_class(x[0]), hash_class(x[1]))
    return hash_class(x)


def eval_idxcat(ctx, c, outs):
    from static_frame.core.container_util import index_many_concat, index_many_set
    import static_frame as sf
    fails = []
    u = case_universe(c)
    lists = [[hash_class(untok(t)) for t in l] for l in c['lists']]
    mk = lambda: [build_idx(index_spec(c['pool'], l)) for l in c['lists']]
    ctx.count(f"idxcat_{c['rel']}")
    # concat
    flat = [x for l in lists for x in l]
    try:
        r = index_many_concat(mk(), sf.Index)
        got = ('ok', [hash_class(x) for x in idx_labels(r)])
    except Exception as ex:
        got = ('err', err_cat(ex))
    exp = ('err', 'nonUnique') if len(set(flat)) != len(flat) else ('ok', flat)
    if got != exp:
        fails.append(Failure('oracle', f"index_many_concat {c['lists']}: {got} != {exp}", c))
    if outs:
        st, body = parse_answer(outs[0])
        m = ('ok', [decode_label(u, x) for x in body[1]]) if st == 'ok' else ('err', body)
        if m != got:
            fails.append(Failure('corr', f"index_many_concat {c['lists']}: model {m} real {got}", c))
    for i, union in ((1, True), (2, False)):
        if lists:
            exp_set = set(lists[0])
            for l in lists[1:]:
                exp_set = exp_set | set(l) if union else exp_set & set(l)
        else:
            exp_set = set()
        try:
            r = index_many_set((ix for ix in mk()), sf.Index, union=union)
            got_l = [hash_class(x) for x in idx_labels(r)]
        except Exception as ex:
            fails.append(Failure('oracle', f"index_many_set union={union} {c['lists']} raised {type(ex).__name__}: {str(ex)[:60]}", c))
            continue
        if set(got_l) != exp_set or len(got_l) != len(exp_set):
            fails.append(Failure('oracle', f"index_many_set union={union} {c['lists']}: {got_l} is not the set {sorted(exp_set)}", c))
        elif lists and all(l == lists[0] for l in lists) and got_l != lists[0]:
            fails.append(Failure('oracle', f"index_many_set union={union} of identical indices {lists[0]} changed the order: {got_l}", c))
        if outs:
            st, body = parse_answer(outs[i])
            ml = [decode_label(u, x) for x in body[1]]
            if ml != got_l:
                if sorted(map(str, ml)) == sorted(map(str, got_l)) and u.multi_class([u.rank[x] for x in got_l]):
                    ctx.count('unordered_object_result')
                else:
                    fails.append(Failure('corr', f"index_many_set union={union} {c['lists']}: model {ml} real {got_l}", c))
    return fails


def eval_vstack(ctx, c, outs):
    import static_frame as sf
    fails = []
    tbs = vstack_tbs(c)
    m = len(c['members'][0]['cols'])
    # reference: column j = the members' columns j one after the other
    ref = []
    for j in range(m):
        col = []
        for tb in tbs:
            col.extend(cell_key(x) for x in arr_list(tb._extract_array(column_key=j)))
        ref.append(col)
    bc, rc = real_flags(tbs)
    ctx.count(f'vstack_strategy_{"block" if bc else "reblock" if rc else "columns"}')
    flag_sets = vstack_flag_sets(tbs)
    if outs:
        st, body = parse_answer(outs[0])
        mflags = (body[0] == '1', body[1] == '1')
        # the model decides compatibility on the dtype kind, the code on the exact dtype: texts of different widths and
        # datetimes of different units share a kind (every strategy is run below, and they are proved equal)
        has_str = any(col['dt'] in ('str',) for mm in c['members'] for col in mm['cols'])
        has_str = has_str or len({col['dt'] for mm in c['members'] for col in mm['cols'] if col['dt'].startswith('datetime64')}) > 1
        if mflags != (bc, rc) and not has_str:
            fails.append(Failure('corr', f'vstack flags: model {mflags} real {(bc, rc)}', c))
    for i, (fb, fr) in enumerate(flag_sets):
        try:
            arrays = list(sf.TypeBlocks.vstack_blocks_to_blocks(tbs, block_compatible=fb, reblock_compatible=fr))
        except Exception as ex:
            fails.append(Failure('oracle', f'vstack flags {(fb, fr)} (real flags {(bc, rc)}) raised {type(ex).__name__}: {str(ex)[:60]}', c))
            continue
        got = []
        for a in arrays:
            if a.ndim == 1:
                got.append([cell_key(x) for x in arr_list(a)])
            else:
                for j in range(a.shape[1]):
                    got.append([cell_key(x) for x in arr_list(a[:, j])])
        if got != ref:
            fails.append(Failure('oracle', f'vstack flags {(fb, fr)}: columns {got} != reference {ref}', c))
        if outs:
            st, body = parse_answer(outs[1 + i])
            if st != 'ok':
                if not (mflags != (bc, rc)):
                    fails.append(Failure('corr', f'vstack flags {(fb, fr)}: model {outs[1 + i]}', c))
                continue
            mcols = [[tok_key(t) for t in col[1]] for col in body]
            if mcols != got:
                fails.append(Failure('corr', f'vstack flags {(fb, fr)}: model {mcols} real {got}', c))
    return fails


def expected_concat(c, dicts):
    """dictionary reference of from_concat / from_concat_items.
    returns ('err', cats) or ('ok', along_labels, other_set, other_exact_or_None, cells{(pos, other)}, fill_key)"""
    axis = c['axis']
    fill_key = tok_key(c['fill'][0])
    along_arg, other_arg = (c.get('along'), c.get('other')) if c['k'] == 'fcat' else (None, None)
    if not dicts:
        if c['k'] == 'fitems':
            return 'empty', None
        if isinstance(along_arg, list) and along_arg and isinstance(other_arg, list) and other_arg:
            return 'err', ('shape',)
        return 'empty', None
    along_lists = [d[0] if axis == 0 else d[1] for d in dicts]
    other_lists = [d[1] if axis == 0 else d[0] for d in dicts]
    along = [x for l in along_lists for x in l]
    if c['k'] == 'fitems':
        keys = [hash_class(untok(t)) for t in c['keys']]
        if len(set(keys)) != len(keys):
            return 'err', ('nonUnique',)
        along_labels = [('pair', kk, x) for kk, l in zip(keys, along_lists) for x in l]
    elif along_arg is None:
        if len(set(along)) != len(along):
            return 'err', ('init',)
        along_labels = along
    elif along_arg == 'auto':
        along_labels = [('auto', i) for i in range(len(along))]
    else:
        labs = [hash_class(untok(t)) for t in along_arg]
        if len(set(labs)) != len(labs):
            return 'err', ('nonUnique', 'init')
        if len(labs) != len(along):
            return 'err', ('init',)
        along_labels = labs
    if other_arg == 'auto':
        return 'err', ('init',)
    if other_arg is None:
        s = set(other_lists[0])
        for l in other_lists[1:]:
            s = s | set(l) if c['union'] else s & set(l)
        exact = other_lists[0] if all(l == other_lists[0] for l in other_lists) else None
    else:
        labs = [hash_class(untok(t)) for t in other_arg]
        if len(set(labs)) != len(labs):
            return 'err', ('nonUnique',)
        s, exact = set(labs), labs
    cells = {}
    pos = 0
    for d, al in zip(dicts, along_lists):
        rl, cl, dc, _ = d
        own_other = set(cl if axis == 0 else rl)
        for a in al:
            for o in s:
                key = (a, o) if axis == 0 else (o, a)
                cells[(pos, o)] = dc[key] if o in own_other else fill_key
            pos += 1
    return 'ok', along_labels, s, exact, cells, fill_key


def f22_predicate(c, dicts):
    """F22: the aligned axis has no label common to all members (union=False, derived labels) or the explicit
    aligned labels are empty: the result has zero columns (axis 0) and TypeBlocks.from_blocks gets no block."""
    if not dicts or c['axis'] != 0:
        return False
    other_arg = c.get('other') if c['k'] == 'fcat' else None
    if other_arg is not None:
        return False
    if c['union']:
        return False
    s = set(dicts[0][1])
    for d in dicts[1:]:
        s &= set(d[1])
    return not s


def eval_fcat(ctx, c, outs):
    import static_frame as sf
    fails = []
    axis = c['axis']
    u = case_universe(c)
    members = [build_member(m) for m in c['members']]
    dicts = [member_as_frame_dict(m, axis) for m in c['members']]
    ctx.count(f"{c['k']}_axis{axis}_{'union' if c['union'] else 'inter'}")
    ctx.count(f"members_{len(members)}")
    if 'rel' in c:
        ctx.count(f"aligned_{c['rel']}")
    fill = untok(c['fill'][0])
    seq = (m for m in members) if c['gen'] else members
    try:
        if c['k'] == 'fcat':
            ia, ca = fcat_args(c)
            r = sf.Frame.from_concat(seq, axis=axis, union=c['union'], index=real_index_arg(ia), columns=real_index_arg(ca),
                                     fill_value=fill)
        else:
            items = zip([untok(t) for t in c['keys']], seq)
            r = sf.Frame.from_concat_items(items if c['gen'] else list(items), axis=axis, union=c['union'], fill_value=fill)
        real = ('ok', r)
    except Exception as ex:
        real = ('err', err_cat(ex), ex)
    exp = expected_concat(c, dicts)
    desc = (f"{'from_concat' if c['k'] == 'fcat' else 'from_concat_items'} axis={axis} union={c['union']} "
            f"along={c.get('along')} other={c.get('other')} members="
            f"{[(d[0], d[1]) for d in dicts]}")
    # which vstack strategy the real code takes for these members
    if axis == 0 and len(dicts) >= 2 and real[0] == 'ok':
        try:
            rcols = real[1].columns
            tbs = []
            for d in dicts:
                f = d[3]
                if len(f.columns) != len(rcols) or (f.columns.values != rcols.values).any():
                    f = f.reindex(columns=rcols, fill_value=fill)
                tbs.append(f._blocks)
            bc, rc = real_flags(tbs)
            ctx.count(f'fcat_strategy_{"block" if bc else "reblock" if rc else "columns"}')
        except Exception:
            ctx.count('fcat_strategy_unknown')
    empty_member = c['k'] == 'fitems' and any(not (d[0] if axis == 0 else d[1]) for d in dicts)
    if empty_member and real[0] == 'err' and type(real[2]).__name__ == 'ErrorInitIndexLevel':
        ctx.count('items_empty_member')
        fails.append(Failure('oracle', f'{desc}: raised {type(real[2]).__name__}: {str(real[2])[:70]}', c,
                             detail={'exc': 'ErrorInitIndexLevel', 'empty_member': True}))
    elif exp[0] == 'err':
        ctx.count('expected_error')
        if real[0] != 'err':
            fails.append(Failure('oracle', f'{desc}: expected an error {exp[1]}, got a Frame {real[1].shape}', c))
        elif real[1] not in exp[1]:
            fails.append(Failure('oracle', f'{desc}: expected error category {exp[1]}, got {real[1]} ({type(real[2]).__name__}: {str(real[2])[:60]})', c))
    elif exp[0] == 'empty':
        ia, ca = fcat_args(c)
        eil = [hash_class(untok(t)) for t in ia] if isinstance(ia, list) else []
        ecl = [hash_class(untok(t)) for t in ca] if isinstance(ca, list) else []
        if real[0] != 'ok':
            if not (c['k'] == 'fitems'):
                fails.append(Failure('oracle', f'{desc}: expected a Frame without cells, raised {type(real[2]).__name__}: {str(real[2])[:60]}', c))
        elif [hash_class(x) for x in idx_labels(real[1].index)] != eil or [hash_class(x) for x in idx_labels(real[1].columns)] != ecl:
            fails.append(Failure('oracle', f'{desc}: expected the Frame without cells labelled {eil} x {ecl}, got shape {real[1].shape}', c))
    elif real[0] == 'err':
        fails.append(Failure('oracle', f'{desc}: raised {type(real[2]).__name__}: {str(real[2])[:70]}', c,
                             detail={'exc': type(real[2]).__name__, 'f22': f22_predicate(c, dicts), 'empty_member': empty_member}))
    else:
        _, along_labels, oset, exact, cells, _ = exp
        r = real[1]
        ral = [real_label(x) for x in (idx_labels(r.index) if axis == 0 else idx_labels(r.columns))]
        rol = [real_label(x) for x in (idx_labels(r.columns) if axis == 0 else idx_labels(r.index))]
        al_cmp = [x if not (isinstance(x, tuple) and x[0] == 'auto') else x for x in along_labels]
        if along_labels and isinstance(along_labels[0], tuple) and along_labels[0][0] == 'auto' or (c.get('along') == 'auto'):
            ok_along = ral == [hash_class(i) for i in range(len(along_labels))]
        else:
            ok_along = ral == al_cmp
        what = None
        if not ok_along:
            what = f'labels along the axis {ral} != inputs in order {along_labels}'
        elif set(rol) != oset or len(rol) != len(oset):
            what = f'aligned labels {rol} are not the {"union" if c["union"] else "intersection"} {sorted(map(str, oset))}'
        elif exact is not None and rol != exact:
            what = f'aligned labels {rol}: identical / explicit labels {exact} changed order'
        else:
            got = {}
            for j, o in enumerate(rol):
                if axis == 0:
                    arr = arr_list(r._blocks._extract_array(column_key=j))
                    for p, v in enumerate(arr):
                        got[(p, o)] = cell_key(v)
                else:
                    for p in range(r.shape[1]):
                        got[(p, o)] = cell_key(arr_list(r._blocks._extract_array(column_key=p))[j])
            if got != cells:
                bad = [k for k in cells if got.get(k) != cells[k]][:3]
                what = f'cells differ at (position, aligned label) {bad}: {[got.get(k) for k in bad]} != {[cells[k] for k in bad]}'
        if what:
            fails.append(Failure('oracle', f'{desc}: {what}', c))
    # correspondence
    if outs:
        st, body = parse_answer(outs[0])
        if real[0] == 'err':
            if st != 'err':
                fails.append(Failure('corr', f'{desc}: real raised {type(real[2]).__name__}: {str(real[2])[:60]}; model ok', c))
            elif body != real[1] and not ({body, real[1]} <= {'nonUnique', 'init'}):
                fails.append(Failure('corr', f'{desc}: error category model {body} real {real[1]}', c))
        elif st != 'ok':
            fails.append(Failure('corr', f'{desc}: model {outs[0]}, real ok {real[1].shape}', c))
        else:
            r = real[1]
            mrl = [decode_label(u, x) for x in body[2]]
            mcl = [decode_label(u, x) for x in body[4]]
            mcols = [[tok_key(t) for t in col] for col in body[5]]
            rrl = [real_label(x) for x in idx_labels(r.index)]
            rcl = [real_label(x) for x in idx_labels(r.columns)]
            fix = lambda ls: [hash_class(x[1]) if isinstance(x, tuple) and x[0] == 'auto' else x for x in ls]
            mrl, mcl = fix(mrl), fix(mcl)
            mmap = {(a, b): mcols[j][i] for j, b in enumerate(mcl) for i, a in enumerate(mrl)}
            rmap = {}
            for j, b in enumerate(rcl):
                for i, v in enumerate(arr_list(r._blocks._extract_array(column_key=j))):
                    rmap[(rrl[i], b)] = cell_key(v)
            if mmap != rmap:
                fails.append(Failure('corr', f'{desc}: model cells differ from the real ones', c,
                                     detail={'model': str(sorted(map(str, mmap.items())))[:300], 'real': str(sorted(map(str, rmap.items())))[:300]}))
            else:
                for ml, rl_, nm in ((mrl, rrl, 'index'), (mcl, rcl, 'columns')):
                    if ml != rl_:
                        plain = [x for x in rl_ if not isinstance(x, tuple)]
                        if plain and u.multi_class([u.rank[x] for x in plain]):
                            ctx.count('unordered_object_result')
                        else:
                            fails.append(Failure('corr', f'{desc}: {nm} order model {ml} real {rl_}', c))
    return fails


def eval_scat(ctx, c, outs):
    import static_frame as sf
    fails = []
    u = case_universe(c)
    members = [build_member(m) for m in c['members']]
    ctx.count(f"scat_{c['mode']}")
    labels = [[hash_class(x) for x in idx_labels(s.index)] for s in members]
    values = [cell_key(v) for s in members for v in arr_list(s.values)]
    flat = [x for l in labels for x in l]
    seq = (s for s in members) if c['gen'] else members
    try:
        if c['mode'] == 'items':
            items = zip([untok(t) for t in c['keys']], seq)
            r = sf.Series.from_concat_items(items if c['gen'] else list(items))
        else:
            r = sf.Series.from_concat(seq, index=real_index_arg(c['index']))
        real = ('ok', r)
    except Exception as ex:
        real = ('err', err_cat(ex), ex)
    # reference
    if c['mode'] == 'items':
        keys = [hash_class(untok(t)) for t in c['keys']]
        if len(set(keys)) != len(keys):
            exp = ('err', ('nonUnique',))
        else:
            exp = ('ok', [('pair', k, x) for k, l in zip(keys, labels) for x in l])
    elif c['index'] is None:
        exp = ('err', ('nonUnique',)) if len(set(flat)) != len(flat) else ('ok', flat)
    elif c['index'] == 'auto':
        exp = ('ok', [hash_class(i) for i in range(len(flat))])
    else:
        labs = [hash_class(untok(t)) for t in c['index']]
        exp = ('err', ('init',)) if len(labs) != len(flat) else ('ok', labs)
    desc = f"Series.from_concat{'_items' if c['mode'] == 'items' else ''} members={labels} index={c.get('index')}"
    if c['mode'] == 'items' and any(not l for l in labels) and real[0] == 'err' and type(real[2]).__name__ == 'ErrorInitIndexLevel':
        fails.append(Failure('oracle', f'{desc}: raised ErrorInitIndexLevel: {str(real[2])[:60]}', c,
                             detail={'exc': 'ErrorInitIndexLevel', 'empty_member': True}))
    elif exp[0] == 'err':
        if real[0] != 'err' or real[1] not in exp[1]:
            fails.append(Failure('oracle', f'{desc}: expected error {exp[1]}, got {real[:2]}', c))
    elif real[0] == 'err':
        fails.append(Failure('oracle', f'{desc}: raised {type(real[2]).__name__}: {str(real[2])[:60]}', c,
                             detail={'exc': type(real[2]).__name__, 'empty_member': c['mode'] == 'items' and any(not l for l in labels)}))
    else:
        r = real[1]
        gl = [real_label(x) for x in idx_labels(r.index)]
        gv = [cell_key(v) for v in arr_list(r.values)]
        if gl != exp[1]:
            fails.append(Failure('oracle', f'{desc}: labels {gl} != {exp[1]}', c))
        elif gv != values:
            fails.append(Failure('oracle', f'{desc}: values {gv} != inputs in order {values}', c))
    if outs:
        st, body = parse_answer(outs[0])
        if real[0] == 'err':
            if st != 'err':
                fails.append(Failure('corr', f'{desc}: real raised {type(real[2]).__name__}; model ok', c))
        elif st != 'ok':
            fails.append(Failure('corr', f'{desc}: model {outs[0]} real ok', c))
        else:
            r = real[1]
            ml = [decode_label(u, x) for x in body[2]]
            ml = [hash_class(x[1]) if isinstance(x, tuple) and x[0] == 'auto' else x for x in ml]
            mv = [tok_key(t) for t in body[3]]
            if ml != [real_label(x) for x in idx_labels(r.index)] or mv != [cell_key(v) for v in arr_list(r.values)]:
                fails.append(Failure('corr', f'{desc}: model {ml}:{mv} differs from real', c))
    return fails


def overlay_ref(cell_lists):
    """first non-missing key in input order; 'missing' when every member is missing or absent"""
    for k in cell_lists:
        if k is not None and not is_missing_key(k):
            return k
    return 'missing'


def eval_sover(ctx, c, outs):
    import static_frame as sf
    fails = []
    u = case_universe(c)
    members = [build_member(m) for m in c['members']]
    maps = [{hash_class(l): cell_key(v) for l, v in zip(idx_labels(s.index), arr_list(s.values))} for s in members]
    ctx.count(f"sover_{'union' if c['union'] else 'inter'}")
    seq = (s for s in members) if c['gen'] else members
    try:
        r = sf.Series.from_overlay(seq, index=real_index_arg(c['index']), union=c['union'])
        real = ('ok', r)
    except Exception as ex:
        real = ('err', err_cat(ex), ex)
    desc = f"Series.from_overlay union={c['union']} index={c['index']} members={[list(m.items()) for m in maps]}"
    if not members:
        if real[0] != 'err':
            fails.append(Failure('oracle', f'{desc}: no container but a result', c))
    elif real[0] == 'err':
        fails.append(Failure('oracle', f'{desc}: raised {type(real[2]).__name__}: {str(real[2])[:60]}', c, detail={'exc': type(real[2]).__name__}))
    else:
        r = real[1]
        if c['index'] is not None:
            labs = [hash_class(untok(t)) for t in c['index']]
            lset, exact = set(labs), labs
        else:
            lset = set(maps[0])
            for m in maps[1:]:
                lset = lset | set(m) if c['union'] else lset & set(m)
            keys0 = [list(m) for m in maps]
            exact = keys0[0] if all(k == keys0[0] for k in keys0) else None
        gl = [hash_class(x) for x in idx_labels(r.index)]
        got = {l: cell_key(v) for l, v in zip(gl, arr_list(r.values))}
        exp = {l: overlay_ref([m.get(l) for m in maps]) for l in lset}
        gotn = {l: ('missing' if is_missing_key(v) else v) for l, v in got.items()}
        if set(gl) != lset or len(gl) != len(lset):
            fails.append(Failure('oracle', f'{desc}: labels {gl} != {sorted(map(str, lset))}', c))
        elif exact is not None and gl != exact:
            fails.append(Failure('oracle', f'{desc}: identical / explicit labels {exact} changed order: {gl}', c))
        elif gotn != exp:
            fails.append(Failure('oracle', f'{desc}: {gotn} != first non-missing {exp}', c))
    if outs:
        st, body = parse_answer(outs[0])
        if real[0] == 'err':
            if st != 'err':
                fails.append(Failure('corr', f'{desc}: real raised {type(real[2]).__name__}: {str(real[2])[:50]}; model ok', c))
        elif st != 'ok':
            fails.append(Failure('corr', f'{desc}: model {outs[0]} real ok', c))
        else:
            r = real[1]
            ml = [decode_label(u, x) for x in body[2]]
            mv = {l: tok_key(t) for l, t in zip(ml, body[3])}
            mv = {l: ('missing' if is_missing_key(v) else v) for l, v in mv.items()}
            rl = [hash_class(x) for x in idx_labels(r.index)]
            rv = {l: cell_key(v) for l, v in zip(rl, arr_list(r.values))}
            rv = {l: ('missing' if is_missing_key(v) else v) for l, v in rv.items()}
            if mv != rv:
                fails.append(Failure('corr', f'{desc}: model {mv} real {rv}', c))
            elif ml != rl:
                if u.multi_class([u.rank[x] for x in rl]):
                    ctx.count('unordered_object_result')
                else:
                    fails.append(Failure('corr', f'{desc}: order model {ml} real {rl}', c))
    return fails


def eval_fover(ctx, c, outs):
    import static_frame as sf
    fails = []
    u = case_universe(c)
    members = [build_member(m) for m in c['members']]
    dicts = [member_as_frame_dict(m, 0) for m in c['members']]
    ctx.count(f"fover_{'union' if c['union'] else 'inter'}")
    seq = (f for f in members) if c['gen'] else members
    try:
        r = sf.Frame.from_overlay(seq, index=real_index_arg(c['index']), columns=real_index_arg(c['columns']), union=c['union'])
        real = ('ok', r)
    except Exception as ex:
        real = ('err', err_cat(ex), ex)
    desc = (f"Frame.from_overlay union={c['union']} index={c['index']} columns={c['columns']} "
            f"members={[(d[0], d[1]) for d in dicts]}")

    def axis_labels(arg, lists):
        if arg is not None:
            labs = [hash_class(untok(t)) for t in arg]
            return set(labs), labs
        s = set(lists[0])
        for l in lists[1:]:
            s = s | set(l) if c['union'] else s & set(l)
        return s, (lists[0] if all(l == lists[0] for l in lists) else None)
    zero = False
    if members:
        rset, rexact = axis_labels(c['index'], [d[0] for d in dicts])
        cset, cexact = axis_labels(c['columns'], [d[1] for d in dicts])
        zero = not cset
    if not members:
        if real[0] != 'err':
            fails.append(Failure('oracle', f'{desc}: no container but a result', c))
    elif real[0] == 'err' and zero and type(real[2]).__name__ == 'ErrorInitTypeBlocks':
        # a result without columns cannot be built: the library-wide limitation on zero-column Frames (not recorded per method)
        ctx.count('zero_column_result_skipped')
    elif real[0] == 'err':
        fails.append(Failure('oracle', f'{desc}: raised {type(real[2]).__name__}: {str(real[2])[:60]}', c,
                             detail={'exc': type(real[2]).__name__, 'zero_cols': zero, 'zero_rows': not rset, 'members': len(members)}))
    else:
        r = real[1]
        grl = [hash_class(x) for x in idx_labels(r.index)]
        gcl = [hash_class(x) for x in idx_labels(r.columns)]
        got = {}
        for j, cc in enumerate(gcl):
            for rr, v in zip(grl, arr_list(r._blocks._extract_array(column_key=j))):
                k = cell_key(v)
                got[(rr, cc)] = 'missing' if is_missing_key(k) else k
        exp = {(rr, cc): overlay_ref([d[2].get((rr, cc)) for d in dicts]) for rr in rset for cc in cset}
        if set(grl) != rset or set(gcl) != cset or len(grl) != len(rset) or len(gcl) != len(cset):
            fails.append(Failure('oracle', f'{desc}: labels {grl} x {gcl} != {sorted(map(str, rset))} x {sorted(map(str, cset))}', c))
        elif (rexact is not None and grl != rexact) or (cexact is not None and gcl != cexact):
            fails.append(Failure('oracle', f'{desc}: identical / explicit labels changed order: {grl} x {gcl}', c))
        elif got != exp:
            bad = [k for k in exp if got.get(k) != exp[k]][:3]
            fails.append(Failure('oracle', f'{desc}: cells {bad}: {[got.get(k) for k in bad]} != first non-missing {[exp[k] for k in bad]}', c))
    if outs:
        st, body = parse_answer(outs[0])
        zero_rows_bug = bool(members) and not rset and type(real[2] if real[0] == 'err' else None).__name__ == 'AttributeError'
        if real[0] == 'err':
            if st != 'err' and not zero_rows_bug:
                fails.append(Failure('corr', f'{desc}: real raised {type(real[2]).__name__}: {str(real[2])[:50]}; model ok', c))
        elif st != 'ok':
            fails.append(Failure('corr', f'{desc}: model {outs[0]} real ok', c))
        else:
            r = real[1]
            mrl = [decode_label(u, x) for x in body[2]]
            mcl = [decode_label(u, x) for x in body[4]]
            mm = {}
            for j, cc in enumerate(mcl):
                for rr, t in zip(mrl, body[5][j]):
                    k = tok_key(t)
                    mm[(rr, cc)] = 'missing' if is_missing_key(k) else k
            rrl = [hash_class(x) for x in idx_labels(r.index)]
            rcl = [hash_class(x) for x in idx_labels(r.columns)]
            rm = {}
            for j, cc in enumerate(rcl):
                for rr, v in zip(rrl, arr_list(r._blocks._extract_array(column_key=j))):
                    k = cell_key(v)
                    rm[(rr, cc)] = 'missing' if is_missing_key(k) else k
            if mm != rm:
                fails.append(Failure('corr', f'{desc}: model cells {mm} real {rm}', c))
    return fails


def classify(f):
    c = f.case
    d = f.detail or {}
    if f.kind != 'oracle':
        return None
    if c.get('k') in ('fcat', 'fitems') and d.get('f22') and d.get('exc') == 'ErrorInitTypeBlocks':
        return 'F22-concat-empty-intersection'
    if c.get('k') == 'fover' and d.get('zero_rows') and d.get('members', 0) >= 2 and d.get('exc') == 'AttributeError':
        return 'F59-overlay-zero-rows'
    if c.get('k') in ('fitems', 'scat') and d.get('empty_member') and d.get('exc') == 'ErrorInitIndexLevel':
        return 'F58-items-empty-member'
    return None
