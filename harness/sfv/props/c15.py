"""C15 - axis reductions equal the independent per-column / per-row computation.

Layers (every run):
  (A) correspondence: the Lean model of TypeBlocks.ufunc_axis_skipna (`reduce.axis`: unified /
      per block with the size_one_unity shortcut / composable two-stage / consolidated) against the
      real Frame reductions for sum, prod, min, max, all, any on integer-valued data with missing
      cells, over block layouts, both axes, skipna on/off; the descriptor table (`reduce.desc`)
      against what container.py really passes; cumulative ops (`reduce.cum`) and the arg-min/max
      helpers (`reduce.arg2d`, `reduce.arg1d`).
  (B) oracle on the real code (Lean-independent): `frame.f(axis, skipna)` equals
      `{label: Series(column or row of the values).f(skipna)}` (values with ==, missing == missing,
      labels, exception parity), and is the same for every block layout of the same columns.
"""
from __future__ import annotations

import itertools
import math
import warnings

import numpy as np

from check import Failure
from sfv import gen
from sfv.canon import tok, untok
from sfv.props import c15_reduce_gen as rgen       # the decision skeletons translated from the source (py2lean_reduce)

TARGETS = ['SFModel.Props.C15'] + rgen.TARGETS
THEOREMS = [
    'SF.C15.unity_only_for_propagating', 'SF.C15.composable_table', 'SF.C15.axis0_per_column', 'SF.C15.axis0_one_row_unity', 'SF.C15.unity_claim',
    'SF.C15.axis1_per_row', 'SF.C15.axis1_per_row_consolidated', 'SF.C15.reduce_layout_invariant',
    'SF.C15.reduce_layout_invariant_noncomposable', 'SF.C15.composable_needs_reduction_counterexample',
    'SF.C15.skipna_ignores_missing', 'SF.C15.skipna_only_present', 'SF.C15.skipna_semantics',
    'SF.C15.skipna_irrelevant_without_missing', 'SF.C15.cumGo_length', 'SF.C15.cumulative_shape', 'SF.C15.cumGo_prefix',
    'SF.C15.cumulative_prefix', 'SF.C15.nanArgBestGo_spec', 'SF.C15.arg_best_present', 'SF.C15.arg_best_1d_missing',
    'SF.C15.sumInt_lawful', 'SF.C15.minInt_lawful', 'SF.C15.logical_skipna_is_reduction', 'SF.C15.logical_skipna_nat_kind',
] + rgen.THEOREMS
PARTIAL = ['SF.C15.axis1_per_row: the two-stage path equals the per-row reduction only for lawful reductions (associative operation, '
           'identity when the ufunc has one); the statement for an arbitrary per-vector function is false '
           '(composable_needs_reduction_counterexample) - which is why the table marks sum/prod/mean/... non-composable',
           'floating-point rounding, integer overflow and the output dtype chosen by NumPy are outside the model (exact arithmetic)'] + rgen.PARTIAL
CORR_ONLY = ['mean, median, std, var (ddof), loc_min/loc_max/iloc_min/iloc_max, cumsum, cumprod and every reduction on bool / object / '
             'string / datetime columns: oracle on the real code (per-column / per-row Series reference, layout invariance, exception parity)']
RULE = ('seeded frames of 0-4 rows x 0-4 columns (int / float with NaN; + bool; bool only; object with None/NaN + numbers; str only; datetime64 with NaT only; exactly representable values) '
        'x every block layout of the column dtypes (at most 24) x 16 functions x axis x skipna (x ddof); '
        'non-trivial = at least one cell; distinct = distinct case JSON; ' + rgen.RULE)
TRUSTED = ['NumPy ufunc pairs (np.sum/np.nansum ...) on one array are the parameter `Red.apply` of the model: identity, associativity, '
           'missing ignored / propagated (compared on every run through the per-vector reference)',
           'Series reductions are the reference of the oracle (a Series is a single 1-D array)'] + rgen.TRUSTED
ASSUMPTIONS = ['values are small integers / dyadic floats so that every sum and product is exact in float64 and int64',
               'mean / median / std / var are compared with relative tolerance 1e-12 (same NumPy kernel, possibly different summation shape)']
BUDGET = {'quick': 70, 'thorough': 800}

FNS_RED = ['sum', 'prod', 'min', 'max', 'all', 'any', 'mean', 'median', 'std', 'var']
FNS_MODEL = ('sum', 'prod', 'min', 'max', 'all', 'any')
FNS_ARG = ['loc_min', 'loc_max', 'iloc_min', 'iloc_max']
FNS_CUM = ['cumsum', 'cumprod']
TOL_FNS = ('mean', 'median', 'std', 'var')

DT_NUM = ['int64', 'float64']
# column mixes "where the function is defined": strings and datetimes are reduced in frames of their own kind (a row of
# numbers and dates has no min / sum), Booleans and objects (numbers, None, NaN) also next to numbers
DT_DOMAINS = [['int64', 'float64'], ['int64', 'float64', 'bool'], ['bool'], ['object', 'int64', 'float64'], ['object'],
              ['str'], ['datetime64[D]']]


# --------------------------------------------------------------------------- data
def rand_cell(rng, dt, na):
    if dt == 'int64':
        return f'i:{rng.randint(-3, 4)}'
    if dt == 'float64':
        if rng.random() < na:
            return 'nan'
        return tok(rng.choice([-2.0, -1.0, 0.0, 0.5, 1.0, 2.0, 3.0, 0.25, 4.0]))
    if dt == 'float32':
        # exactly representable in float32, but sums of them are not: 1e8 + 1 needs 27 bits
        if rng.random() < na:
            return 'nan'
        return tok(rng.choice([1e8, -1e8, 1.0, 2.0, 3.0, 0.5, -1.0, 16777216.0]))
    if dt == 'bool':
        return f'b:{rng.randint(0, 1)}'
    if dt == 'object':
        r = rng.random()
        if r < na / 2:
            return 'N'
        if r < na:
            return 'nan'
        return rng.choice([f'i:{rng.randint(-3, 4)}', tok(rng.choice([0.5, 2.0, -1.0])), f'b:{rng.randint(0, 1)}'])
    if dt == 'str':
        return tok(rng.choice(['', 'a', 'b', 'ab', 'abc', 'ba']))
    if dt == 'datetime64[D]':
        if rng.random() < na:
            return 'nat'
        return tok(np.datetime64('2020-01-01', 'D') + np.timedelta64(rng.randint(-5, 5), 'D'))
    raise ValueError(dt)


def rand_spec(rng, dtypes, max_rows=4, max_cols=4, min_rows=0, min_cols=0, na=0.25):
    n = rng.randint(min_rows, max_rows)
    m = rng.randint(min_cols, max_cols)
    dts = []
    for _ in range(m):
        if dts and rng.random() < 0.5:
            dts.append(dts[-1])
        else:
            dts.append(rng.choice(dtypes))
    cols = [{'dt': dt, 'v': [rand_cell(rng, dt, na) for _ in range(n)]} for dt in dts]
    return {'index': {'kind': 'flat', 'labels': [tok(x) for x in 'pqrs'[:n]]},
            'columns': {'kind': 'flat', 'labels': [tok(x) for x in 'ABCD'[:m]]},
            'cols': cols, 'layout': gen.rand_layout(rng, dts), 'rows': n}


def spec_dts(spec):
    return [c['dt'] for c in spec['cols']]


def nontrivial(c):
    if c['k'].startswith('rg_'):
        return rgen.nontrivial(c)
    if c['k'] == 'desc':
        return True
    if c['k'] == 'logical':
        return bool(c['cells'])
    return c['spec']['rows'] * len(c['spec']['cols']) > 0


def cases(ctx):
    rng = ctx.rng('main')
    quick = ctx.tier == 'quick'
    yield {'k': 'desc'}
    yield from rgen.cases(ctx)      # the translated decision skeletons vs the real util functions (grid, instrumented callables)
    # util._ufunc_logical_skipna on one vector of every dtype kind
    for _ in range(150 if quick else 1500):
        kind = rng.choice(['b', 'int', 'str', 'inexact', 'nat', 'obj'])
        n = rng.randint(0, 4)
        cells = []
        for _i in range(n):
            if kind in ('inexact', 'nat', 'obj') and rng.random() < 0.3:
                cells.append(None)
            else:
                cells.append(rng.randint(0, 1) if kind != 'nat' else 1)
        yield {'k': 'logical', 'kind': kind, 'cells': cells, 'which': rng.choice(['all', 'any']), 'skipna': rng.random() < 0.5}
    # boundary shapes first: 0/1-sized axes, one-row frames with several blocks (the size_one_unity shortcut)
    for dts in (['int64', 'float64'], ['int64', 'int64'], ['float64', 'float64', 'int64'], ['bool', 'bool'], ['object', 'int64'],
                ['str', 'str'], ['int64'], ['float64'], ['bool', 'int64'], ['datetime64[D]', 'datetime64[D]']):
        for n in (0, 1, 2):
            spec = {'index': {'kind': 'flat', 'labels': [tok(x) for x in 'pq'[:n]]},
                    'columns': {'kind': 'flat', 'labels': [tok(x) for x in 'ABC'[:len(dts)]]},
                    'cols': [{'dt': dt, 'v': [rand_cell(rng, dt, 0.3) for _ in range(n)]} for dt in dts],
                    'layout': gen.canonical_layout(dts), 'rows': n}
            for fn in FNS_RED + FNS_ARG + FNS_CUM:
                for axis in (0, 1):
                    for sk in (True, False):
                        yield mk_case(spec, fn, axis, sk, rng, all_layouts=True)
    # one-row frames whose row dtype is object while a column of its own holds nothing but a missing cell: the
    # size-one shortcut must still skip it under skipna
    for dts in (['float64', 'object', 'int64'], ['object', 'float64'], ['float64', 'object'], ['float64', 'float64', 'object'], ['object', 'object']):
        for miss in range(len(dts)):
            if dts[miss] not in ('float64', 'object'):
                continue
            vals = []
            for j, dt in enumerate(dts):
                if j == miss:
                    vals.append('nan' if dt == 'float64' else rng.choice(['N', 'nan']))
                else:
                    vals.append(rand_cell(rng, dt, 0.0))
            spec = {'index': {'kind': 'flat', 'labels': [tok('p')]},
                    'columns': {'kind': 'flat', 'labels': [tok(x) for x in 'ABC'[:len(dts)]]},
                    'cols': [{'dt': dt, 'v': [v]} for dt, v in zip(dts, vals)],
                    'layout': gen.canonical_layout(dts), 'rows': 1}
            for fn in FNS_RED + FNS_ARG + FNS_CUM:
                for axis in (0, 1):
                    for sk in (True, False):
                        yield mk_case(spec, fn, axis, sk, rng, all_layouts=True)
    for m in (0,):
        for n in (0, 2):
            spec = {'index': {'kind': 'flat', 'labels': [tok(x) for x in 'pq'[:n]]}, 'columns': {'kind': 'flat', 'labels': []},
                    'cols': [], 'layout': [], 'rows': n}
            for fn in FNS_RED + FNS_ARG + FNS_CUM:
                for axis in (0, 1):
                    yield mk_case(spec, fn, axis, True, rng, all_layouts=True)
    # numeric frames: every function, model correspondence for the six monoid reductions
    for i in range(2500 if quick else 8000):
        spec = rand_spec(rng, DT_NUM, min_rows=0 if rng.random() < 0.15 else 1, min_cols=1)
        fn = rng.choice(FNS_RED + FNS_ARG + FNS_CUM)
        yield mk_case(spec, fn, rng.randint(0, 1), rng.random() < 0.5, rng, all_layouts=True)
    # a narrow float column next to 64-bit columns: the row dtype is float64 and every block is reduced in it, so the answer is
    # the exact one whatever the layout (compared with the exact-arithmetic reference; a float32 Series on its own rounds)
    for i in range(400 if quick else 3000):
        spec = rand_spec(rng, ['float32', 'float64', 'int64', 'float32'], min_rows=1, min_cols=2)
        dts = spec_dts(spec)
        if 'float32' not in dts or not any(d in ('float64', 'int64') for d in dts):
            continue
        fn = rng.choice(['sum', 'sum', 'prod', 'mean', 'min', 'max', 'std', 'var'])
        yield mk_case(spec, fn, rng.randint(0, 1), rng.random() < 0.5, rng, all_layouts=True)
    # mixed dtype frames
    for i in range(2500 if quick else 8000):
        spec = rand_spec(rng, rng.choice(DT_DOMAINS), min_rows=0 if rng.random() < 0.1 else 1, min_cols=1)
        fn = rng.choice(FNS_RED + FNS_ARG + FNS_CUM)
        yield mk_case(spec, fn, rng.randint(0, 1), rng.random() < 0.5, rng, all_layouts=True)
    if not quick:
        # small scope, exhaustively: all layouts x all functions x axis x skipna on a fixed set of column mixes
        for dts in itertools.product(['int64', 'float64', 'bool'], repeat=3):
            for n in (1, 2, 3):
                spec = {'index': {'kind': 'flat', 'labels': [tok(x) for x in 'pqr'[:n]]},
                        'columns': {'kind': 'flat', 'labels': [tok(x) for x in 'ABC']},
                        'cols': [{'dt': dt, 'v': [rand_cell(rng, dt, 0.3) for _ in range(n)]} for dt in dts],
                        'layout': gen.canonical_layout(list(dts)), 'rows': n}
                for fn in FNS_RED + FNS_ARG + FNS_CUM:
                    for axis in (0, 1):
                        for sk in (True, False):
                            yield mk_case(spec, fn, axis, sk, rng, all_layouts=True)


def mk_case(spec, fn, axis, skipna, rng, all_layouts):
    c = {'k': 'red' if fn in FNS_RED else ('arg' if fn in FNS_ARG else 'cum'),
         'spec': spec, 'fn': fn, 'axis': axis, 'skipna': bool(skipna)}
    if fn in ('std', 'var'):
        c['ddof'] = rng.choice([0, 1, 2])
    dts = spec_dts(spec)
    lays = gen.layouts_for(dts) if dts else [[]]
    if not all_layouts and len(lays) > 3:
        lays = [gen.canonical_layout(dts), gen.consolidated_layout(dts), spec['layout']]
    seen, out = set(), []
    for l in [spec['layout']] + lays:
        key = repr(l)
        if key not in seen:
            seen.add(key)
            out.append(l)
    c['layouts'] = out[:24]
    return c


# --------------------------------------------------------------------------- model wire
def model_able(spec, fn):
    """integer-valued numeric data (int64 / float64 with NaN) and one of the six monoid reductions"""
    if not spec['cols']:
        return False
    for col in spec['cols']:
        if col['dt'] not in ('int64', 'float64', 'bool'):
            return False
        for t in col['v']:
            if t == 'nan':
                continue
            v = untok(t)
            if float(v) != int(v):
                return False
    return True


def cell_wire(t, logical):
    if t == 'nan':
        return 'N'
    v = untok(t)
    if logical:
        return '1' if v else '0'
    return str(int(v))


def tb_wire(spec, layout, logical):
    n = spec['rows']
    parts = []
    j = 0
    for w, is2d in layout:
        cols = spec['cols'][j:j + w]
        j += w
        isb = '1' if cols[0]['dt'] == 'bool' else '0'
        if w == 1 and not is2d:
            parts.append(f'(d1 {isb} ' + ' '.join(cell_wire(t, logical) for t in cols[0]['v']) + ')')
        else:
            parts.append(f'(d2 {isb} ' + ' '.join('(' + ' '.join(cell_wire(t, logical) for t in c['v']) + ')' for c in cols) + ')')
    return f'(tb {n} ' + ' '.join(parts) + ')'


def model_lines(c):
    if c['k'].startswith('rg_'):
        return rgen.model_lines(c)
    if c['k'] == 'desc':
        return [f'reduce.desc {fn}' for fn in FNS_RED + FNS_CUM]
    if c['k'] == 'logical':
        cells = ' '.join('N' if x is None else str(x) for x in c['cells'])
        return [f'reduce.logical {c["which"]} {c["kind"]} {int(c["skipna"])} ({cells})']
    spec = c['spec']
    if not model_able(spec, c['fn']):
        return []
    sk = int(c['skipna'])
    if c['k'] == 'red' and c['fn'] in FNS_MODEL:
        logical = c['fn'] in ('all', 'any')
        return [f'reduce.axis {c["fn"]} {sk} {c["axis"]} {tb_wire(spec, l, logical)}' for l in c['layouts']]
    if c['k'] == 'cum':
        return [f'reduce.cum {c["fn"]} {sk} {c["axis"]} {tb_wire(spec, c["layouts"][0], False)}']
    if c['k'] == 'arg':
        lines = line_cells(spec, c['axis'])
        which = 'min' if c['fn'].endswith('min') else 'max'
        w = '(' + ' '.join('(' + ' '.join(cell_wire(t, False) for t in l) + ')' for l in lines) + ')'
        out = [f'reduce.arg2d {which} {sk} {w}']
        for l in lines:
            out.append(f'reduce.arg1d {which} {sk} (' + ' '.join(cell_wire(t, False) for t in l) + ')')
        return out
    return []


def line_cells(spec, axis):
    if axis == 0:
        return [list(col['v']) for col in spec['cols']]
    return [[col['v'][i] for col in spec['cols']] for i in range(spec['rows'])]


# --------------------------------------------------------------------------- value comparison
def is_missing(v):
    if v is None:
        return True
    if isinstance(v, (float, np.floating)):
        return math.isnan(float(v))
    if isinstance(v, (complex, np.complexfloating)):
        return math.isnan(complex(v).real)
    if isinstance(v, (np.datetime64, np.timedelta64)):
        return bool(np.isnat(v))
    return False


def veq(a, b, tol=False):
    """`==` of the property, with missing == missing"""
    if isinstance(a, np.ndarray) or isinstance(b, np.ndarray):
        return False
    ma, mb = is_missing(a), is_missing(b)
    if ma or mb:
        return ma and mb
    try:
        if tol and isinstance(a, (int, float, np.number, bool, np.bool_)) and isinstance(b, (int, float, np.number, bool, np.bool_)):
            fa, fb = float(a), float(b)
            if math.isinf(fa) or math.isinf(fb):
                return fa == fb
            return math.isclose(fa, fb, rel_tol=1e-12, abs_tol=1e-12)
        r = a == b
        return bool(r)
    except Exception:
        return False


def show(v):
    if isinstance(v, np.ndarray):
        return f'ndarray{v.shape}:{v.tolist()!r}'
    return f'{type(v).__name__}:{v!r}'


def exc_name(ex):
    return type(ex).__name__


def call(obj, c, is_series=False):
    fn = c['fn']
    kw = {'skipna': c['skipna']}
    if not is_series:
        kw['axis'] = c['axis']
    if fn in ('std', 'var'):
        kw['ddof'] = c.get('ddof', 0)
    with warnings.catch_warnings():
        warnings.simplefilter('ignore')
        with np.errstate(all='ignore'):
            return getattr(obj, fn)(**kw)


def reference(c, f_canon):
    """[(label, ('ok', value) | ('err', exc name))] : the function applied to each column / row as its own Series"""
    import static_frame as sf
    spec = c['spec']
    out = []
    if c['axis'] == 0:
        labels = list(f_canon.columns)
        for j, lab in enumerate(labels):
            arr = gen.col_array(spec['cols'][j]['dt'], spec['cols'][j]['v'])
            out.append((lab, vec_call(sf.Series(arr, index=f_canon.index), c)))
    else:
        labels = list(f_canon.index)
        vals = f_canon.values
        for i, lab in enumerate(labels):
            out.append((lab, vec_call(sf.Series(vals[i], index=f_canon.columns), c)))
    return out


def vec_call(s, c):
    try:
        return ('ok', call(s, c, is_series=True))
    except Exception as ex:
        return ('err', exc_name(ex), str(ex)[:100])


# --------------------------------------------------------------------------- independent reference (exact arithmetic)
def pyref_domain(spec):
    """int64 / float64 columns (row dtype numeric), or Boolean columns only"""
    dts = spec_dts(spec)
    wide = any(d in ('int64', 'float64') for d in dts)
    return bool(dts) and (all(d in ('int64', 'float64') or (d == 'float32' and wide) for d in dts) or all(d == 'bool' for d in dts))


NAN = float('nan')


def pyref_line(fn, toks, skipna, ddof=0):
    """The property's semantics on one vector, in exact rational arithmetic, independent of the library:
    ('ok', value) | ('err', exception class name).  NaN stands for a missing result."""
    from fractions import Fraction
    cells = [None if t in MISSING_TOKS else untok(t) for t in toks]
    present = [Fraction(int(v)) if isinstance(v, (bool, np.bool_)) else Fraction(v) for v in cells if v is not None]
    missing = len(present) != len(cells)
    logical = fn in ('all', 'any')
    if logical:
        if missing and not skipna:
            return ('err', 'TypeError')
        truth = [v != 0 for v in present]
        return ('ok', all(truth) if fn == 'all' else any(truth))
    if missing and not skipna:
        return ('ok', NAN)
    if fn == 'sum':
        return ('ok', sum(present, Fraction(0)))
    if fn == 'prod':
        r = Fraction(1)
        for v in present:
            r *= v
        return ('ok', r)
    if fn in ('min', 'max'):
        if not cells:
            return ('err', 'ValueError')
        if not present:
            return ('ok', NAN)
        return ('ok', min(present) if fn == 'min' else max(present))
    if fn in ('mean', 'median', 'std', 'var'):
        n = len(present)
        if n == 0:
            return ('ok', NAN)
        if fn == 'mean':
            return ('ok', sum(present, Fraction(0)) / n)
        if fn == 'median':
            srt = sorted(present)
            return ('ok', srt[n // 2] if n % 2 else (srt[n // 2 - 1] + srt[n // 2]) / 2)
        mean = sum(present, Fraction(0)) / n
        var = sum(((v - mean) ** 2 for v in present), Fraction(0)) / (n - ddof)
        return ('ok', var if fn == 'var' else math.sqrt(float(var)))
    raise ValueError(fn)


def pyref_arg(fn, toks, skipna):
    """position (or NaN) of the first minimum / maximum among the present cells"""
    cells = [None if t in MISSING_TOKS else untok(t) for t in toks]
    present = [(float(v), i) for i, v in enumerate(cells) if v is not None]
    if not present or (len(present) != len(cells) and not skipna):
        return NAN
    best = min(v for v, _ in present) if fn.endswith('min') else max(v for v, _ in present)
    return next(i for v, i in present if v == best)


def pyref_cum(fn, toks, skipna):
    from fractions import Fraction
    acc = Fraction(0) if fn == 'cumsum' else Fraction(1)
    out, dead = [], False
    for t in toks:
        if t in MISSING_TOKS:
            if skipna:
                out.append(acc)
            else:
                dead = True
                out.append(NAN)
            continue
        v = untok(t)
        v = Fraction(int(v)) if isinstance(v, (bool, np.bool_)) else Fraction(v)
        acc = acc + v if fn == 'cumsum' else acc * v
        out.append(NAN if dead else acc)
    return out


def pyref_check(c, res, labels, d):
    """compare one real result with the independent reference; returns a message or None"""
    import static_frame as sf
    spec, fn, axis, sk = c['spec'], c['fn'], c['axis'], c['skipna']
    lines = line_cells(spec, axis)
    tol = fn in TOL_FNS
    if c['k'] == 'cum':
        exp_lines = [pyref_cum(fn, l, sk) for l in lines]
        if res[0] == 'err':
            d['exc'], d['kind'] = res[1], 'pyref_raises'
            return f'raised {res[1]}: {res[2]}; expected the cumulative values'
        r = res[1]
        n, m = spec['rows'], len(spec['cols'])
        if not isinstance(r, sf.Frame) or r.shape != (n, m):
            d['kind'] = 'pyref_shape'
            return f'shape {getattr(r, "shape", None)} != {(n, m)}'
        vals = r.values
        for k, el in enumerate(exp_lines):
            for q, e in enumerate(el):
                got = vals[q, k] if axis == 0 else vals[k, q]
                if not veq(got, float(e) if not isinstance(e, float) else e, False):
                    d['kind'] = 'pyref_value'
                    d['got'], d['exp'] = show(got), repr(e)
                    return f'line {k} position {q}: frame gives {show(got)}, expected {e}'
        return None
    if c['k'] == 'arg':
        exp = [pyref_arg(fn, l, sk) for l in lines]
        has_nan = any(isinstance(e, float) for e in exp)
        if fn.startswith('loc') and has_nan:
            if res[0] == 'err' and res[1] == 'RuntimeError':
                return None
            d['kind'] = 'pyref_loc_nan'
            d['exc'] = res[1] if res[0] == 'err' else None
            return f'a line has no position (NaN): expected RuntimeError, got {res[1] if res[0] == "err" else "a result"}'
        if res[0] == 'err':
            d['exc'], d['kind'] = res[1], 'pyref_raises'
            return f'raised {res[1]}: {res[2]}; expected positions {exp}'
        _, vals = series_items(res[1])
        other = list(spec['index']['labels']) if axis == 0 else list(spec['columns']['labels'])
        if fn.startswith('loc'):
            exp = [untok(other[e]) for e in exp]
        if len(vals) != len(exp) or not all(veq(v, e) for v, e in zip(vals, exp)):
            d['kind'] = 'pyref_value'
            d['got'], d['exp'] = repr(vals), repr(exp)
            return f'frame gives {vals}, expected {exp}'
        return None
    exp = [pyref_line(fn, l, sk, c.get('ddof', 0)) for l in lines]
    errs = [e[1] for e in exp if e[0] == 'err']
    if errs:
        if res[0] == 'err' and res[1] in errs:
            return None
        d['kind'] = 'pyref_expected_error'
        d['exc'] = res[1] if res[0] == 'err' else None
        return f'expected {sorted(set(errs))} (a missing cell is rejected / an empty vector has no minimum), got {res[1] if res[0] == "err" else "a result"}'
    if res[0] == 'err':
        d['exc'], d['msg'], d['kind'] = res[1], res[2], 'pyref_raises'
        return f'raised {res[1]}: {res[2]}; expected {[e[1] for e in exp]}'
    _, vals = series_items(res[1])
    if len(vals) != len(exp):
        d['kind'] = 'pyref_length'
        return f'{len(vals)} results for {len(exp)} vectors'
    for k, (v, e) in enumerate(zip(vals, exp)):
        ev = e[1]
        ok = veq(v, float(ev), True) if tol and not isinstance(ev, bool) else veq(v, ev if isinstance(ev, (bool, float)) else (int(ev) if ev.denominator == 1 else float(ev)))
        if not ok:
            d['kind'] = 'pyref_value'
            d['got'], d['exp'] = show(v), repr(ev)
            d['got_array'] = isinstance(v, np.ndarray)
            return f'vector {k}: frame gives {show(v)}, exact arithmetic gives {ev}'
    return None


# --------------------------------------------------------------------------- evaluation
def evaluate(ctx, c, outs):
    if c['k'].startswith('rg_'):
        return rgen.evaluate(ctx, c, outs)
    if c['k'] == 'desc':
        return eval_desc(ctx, c, outs)
    if c['k'] == 'logical':
        return eval_logical(ctx, c, outs)
    return eval_frame(ctx, c, outs)


def logical_array(kind, cells):
    if kind == 'b':
        return np.array([bool(x) for x in cells], dtype=bool)
    if kind == 'int':
        return np.array([int(x) for x in cells], dtype=np.int64)
    if kind == 'str':
        return np.array(['ab' if x else '' for x in cells], dtype='<U2')
    if kind == 'inexact':
        return np.array([np.nan if x is None else (2.5 if x else 0.0) for x in cells], dtype=np.float64)
    if kind == 'nat':
        return np.array(['NaT' if x is None else '2020-01-01' for x in cells], dtype='M8[D]')
    a = np.empty(len(cells), dtype=object)
    for i, x in enumerate(cells):
        a[i] = None if x is None else ('x' if x else 0)
    return a


def eval_logical(ctx, c, outs):
    from static_frame.core.util import _ufunc_logical_skipna
    ctx.count('logical_' + c['kind'])
    arr = logical_array(c['kind'], c['cells'])
    try:
        r = _ufunc_logical_skipna(arr, ufunc=np.all if c['which'] == 'all' else np.any, skipna=c['skipna'])
        real = f'ok {int(bool(r))}'
    except TypeError:
        real = 'err value'
    fails = []
    if outs and outs[0] != real:
        fails.append(Failure('corr', f'_ufunc_logical_skipna({c["which"]}, kind {c["kind"]}, skipna={c["skipna"]}) on {c["cells"]}: model {outs[0]} vs real {real}', c))
    # the property on one vector, independent of the model
    present = [bool(x) for x in c['cells'] if x is not None]
    missing = len(present) != len(c['cells'])
    exp = 'err value' if (missing and not c['skipna']) else f'ok {int(all(present) if c["which"] == "all" else any(present))}'
    if real != exp:
        fails.append(Failure('oracle', f'_ufunc_logical_skipna({c["which"]}, kind {c["kind"]}, skipna={c["skipna"]}) on {c["cells"]}: {real}, expected {exp}', c,
                             detail={'fn': c['which'], 'kind': 'logical_vector', 'lkind': c['kind']}))
    return fails


def eval_desc(ctx, c, outs):
    from static_frame.core.container import ContainerOperand
    fails = []

    class Probe(ContainerOperand):
        def _ufunc_axis_skipna(self, **kw):
            return kw

        def _ufunc_shape_skipna(self, **kw):
            return kw
    p = Probe()
    for i, fn in enumerate(FNS_RED + FNS_CUM):
        kw = getattr(p, fn)()
        dts = kw['dtypes']
        if dts == ():
            d = 'row'
        elif dts == (np.dtype(bool),):
            d = 'bool'
        elif dts == (np.dtype(float),):
            d = 'float'
        elif dts == (np.dtype(float), np.dtype(complex)):
            d = 'inexact'
        else:
            d = repr(dts)
        real = f'ok ({int(kw["composable"])} {int(kw["size_one_unity"])} {d})'
        if outs and outs[i] != real:
            fails.append(Failure('corr', f'descriptor of {fn}: model {outs[i]} vs container.py {real}', c))
        pair = {'sum': (np.sum, np.nansum), 'prod': (np.prod, np.nanprod), 'min': (np.min, np.nanmin), 'max': (np.max, np.nanmax),
                'mean': (np.mean, np.nanmean), 'median': (np.median, np.nanmedian), 'cumsum': (np.cumsum, np.nancumsum),
                'cumprod': (np.cumprod, np.nancumprod)}.get(fn)
        if pair and (kw['ufunc'] is not pair[0] or kw['ufunc_skipna'] is not pair[1]):
            fails.append(Failure('oracle', f'{fn} passes the ufunc pair ({kw["ufunc"]}, {kw["ufunc_skipna"]})', c, detail={'fn': fn, 'what': 'ufunc pair'}))
    return fails


def eval_frame(ctx, c, outs):
    import static_frame as sf
    fails = []
    spec = c['spec']
    fn, axis, sk = c['fn'], c['axis'], c['skipna']
    dts = spec_dts(spec)
    n, m = spec['rows'], len(dts)
    tol = fn in TOL_FNS
    ctx.count('fn_' + fn)
    ctx.count(f'axis{axis}_skipna{int(sk)}')
    ctx.count('shape_' + ('0rows' if n == 0 else '1row' if n == 1 else 'rows') + '_' + ('0cols' if m == 0 else '1col' if m == 1 else 'cols'))
    f_canon = gen.build_frame(spec, layout=gen.canonical_layout(dts) if dts else [])
    base = {'fn': fn, 'axis': axis, 'skipna': sk, 'rows': n, 'cols': m, 'dts': dts, 'ddof': c.get('ddof'),
            'row_kind': f_canon._blocks._row_dtype.kind if m else None}
    results = []
    for lay in c['layouts']:
        f = gen.build_frame(spec, layout=lay)
        nblocks = len(f._blocks._blocks)
        try:
            r = call(f, c)
            results.append((lay, nblocks, ('ok', r)))
        except Exception as ex:
            results.append((lay, nblocks, ('err', exc_name(ex), str(ex)[:100])))
    ctx.count('layouts_run', len(results))

    # ---- the claim: "where the function is defined"
    if not in_claim(c):
        ctx.count('outside_claim_dtype_mix')
        return fails
    # ---- reference: per column / per row
    if fn in ('std', 'var') and degenerate_ddof(c):
        ctx.count('outside_claim_ddof_not_below_count')
        return fails
    if c['k'] == 'cum':
        sub = check_cum(ctx, c, f_canon, results, base)
        if sub is None:
            ctx.count('outside_claim_function_undefined')
            return fails
        fails += sub
    elif 'float32' in dts:
        ctx.count('narrow_next_to_wide')     # no per-vector Series reference: a float32 Series accumulates in float32
    else:
        ref = reference(c, f_canon)
        ref_errs = [r[1] for _, r in ref if r[0] == 'err']
        if ref_errs:
            # the function is not defined on (one of) these vectors: outside the claim
            ctx.count('outside_claim_function_undefined')
            return fails
        for lay, nblocks, res in results:
            d = dict(base, layout=lay, nblocks=nblocks, unified=nblocks <= 1)
            what = compare_with_ref(c, res, ref, ref_errs, tol, d)
            if what:
                fails.append(Failure('oracle', f'{fn}(axis={axis}, skipna={sk}{", ddof=%s" % c["ddof"] if "ddof" in c else ""}) on dtypes {dts} rows {n} layout {lay}: {what}', c, detail=d))
    # ---- independent reference in exact arithmetic (numeric and Boolean frames)
    if pyref_domain(spec) and not (fn in ('std', 'var') and degenerate_ddof(c)):
        ctx.count('pyref_compared')
        for lay, nblocks, res in results:
            d = dict(base, layout=lay, nblocks=nblocks, unified=nblocks <= 1)
            what = pyref_check(c, res, None, d)
            if what:
                fails.append(Failure('oracle', f'{fn}(axis={axis}, skipna={sk}{", ddof=%s" % c["ddof"] if "ddof" in c else ""}) on dtypes {dts} rows {n} layout {lay}: {what}', c, detail=d))
    # ---- layout invariance
    first = results[0]
    for lay, nblocks, res in results[1:]:
        d = dict(base, layout=lay, nblocks=nblocks, layout0=first[0], nblocks0=first[1], invariance=True)
        what = compare_results(first[2], res, tol, d)
        if what:
            fails.append(Failure('oracle', f'{fn}(axis={axis}, skipna={sk}) on dtypes {dts} rows {n}: layout {first[0]} vs {lay}: {what}', c, detail=d))
    # ---- model correspondence
    if outs:
        fails += check_model(ctx, c, outs, results, f_canon, base)
    # keep one failure per distinct kind
    uniq, seen = [], set()
    for f in fails:
        f.finding = f.finding or classify(f)
        key = (f.kind, f.finding, (f.detail or {}).get('kind'))
        if key not in seen:
            seen.add(key)
            uniq.append(f)
    return uniq


NUMERIC = ('int64', 'float64', 'bool', 'float32')


def in_claim(c):
    """mean / median / std / var are defined for numeric and bool columns; an axis without any vector
    (no rows for axis 1, no columns for axis 0) has no per-vector reference: numeric columns only"""
    dts = spec_dts(c['spec'])
    fn = c['fn']
    if fn in TOL_FNS and any(d not in NUMERIC for d in dts):
        return False
    if fn in FNS_ARG and 'object' in dts:
        return False   # ordering None against numbers is not defined
    vacuous = (c['axis'] == 1 and c['spec']['rows'] == 0) or (c['axis'] == 0 and not dts)
    if vacuous and any(d not in NUMERIC for d in dts):
        return False
    return True


def degenerate_ddof(c):
    """std / var need more observations than ddof in every vector (else NumPy divides by zero: inf or nan by code path)"""
    ddof = c.get('ddof', 0)
    for l in line_cells(c['spec'], c['axis']):
        count = sum(1 for t in l if t not in ('nan', 'N', 'nat')) if c['skipna'] else len(l)
        if count - ddof <= 0:
            return True
    return False


def series_items(r):
    return list(r.index), [r.values[i] for i in range(len(r.values))]


def compare_with_ref(c, res, ref, ref_errs, tol, d):
    import static_frame as sf
    if res[0] == 'err':
        d['exc'] = res[1]
        d['msg'] = res[2]
        if not ref_errs:
            d['kind'] = 'frame_raises_ref_ok'
            return f'raised {res[1]}: {res[2]} but every per-{"column" if c["axis"] == 0 else "row"} Series call succeeds'
        if res[1] not in ref_errs:
            d['kind'] = 'exc_class'
            d['ref_exc'] = sorted(set(ref_errs))
            return f'raised {res[1]} but the per-vector calls raise {sorted(set(ref_errs))}'
        return None
    r = res[1]
    if ref_errs:
        d['kind'] = 'ref_raises_frame_ok'
        d['ref_exc'] = sorted(set(ref_errs))
        return f'returned a result although the per-vector Series call raises {sorted(set(ref_errs))}'
    if not isinstance(r, sf.Series):
        d['kind'] = 'not_series'
        return f'returned {type(r).__name__}'
    labels, vals = series_items(r)
    if [tok(x) for x in labels] != [tok(l) for l, _ in ref]:
        d['kind'] = 'labels'
        return f'labels {labels} != {[l for l, _ in ref]}'
    for (lab, rv), v in zip(ref, vals):
        if not veq(v, rv[1], tol):
            d['kind'] = 'value'
            d['got'] = show(v)
            d['exp'] = show(rv[1])
            d['got_array'] = isinstance(v, np.ndarray)
            d['res_dtype'] = str(r.dtype)
            return f'label {lab!r}: frame gives {show(v)}, Series gives {show(rv[1])}'
    return None


def compare_results(a, b, tol, d):
    if a[0] != b[0]:
        d['kind'] = 'layout_err_vs_ok'
        d['exc'] = a[1] if a[0] == 'err' else b[1]
        return f'{a[0]} ({a[1] if a[0] == "err" else ""}) vs {b[0]} ({b[1] if b[0] == "err" else ""})'
    if a[0] == 'err':
        if a[1] != b[1]:
            d['kind'] = 'layout_exc_class'
            d['excs'] = sorted([a[1], b[1]])
            return f'raises {a[1]} vs {b[1]}'
        return None
    ra, rb = a[1], b[1]
    if hasattr(ra, 'index') and hasattr(ra, 'columns'):
        # Frame (cumulative): compare cell-wise
        if ra.shape != rb.shape:
            d['kind'] = 'layout_shape'
            return f'shape {ra.shape} vs {rb.shape}'
        va, vb = ra.values, rb.values
        for i in range(va.shape[0]):
            for j in range(va.shape[1]):
                if not veq(va[i, j], vb[i, j], tol):
                    d['kind'] = 'layout_value'
                    return f'cell ({i},{j}): {show(va[i, j])} vs {show(vb[i, j])}'
        return None
    la, va = series_items(ra)
    lb, vb = series_items(rb)
    if [tok(x) for x in la] != [tok(x) for x in lb]:
        d['kind'] = 'layout_labels'
        return f'labels {la} vs {lb}'
    for lab, x, y in zip(la, va, vb):
        if not veq(x, y, tol):
            d['kind'] = 'layout_value'
            d['got'] = show(x)
            d['exp'] = show(y)
            d['got_array'] = isinstance(x, np.ndarray) or isinstance(y, np.ndarray)
            d['dtypes_res'] = [str(ra.dtype), str(rb.dtype)]
            return f'label {lab!r}: {show(x)} vs {show(y)}'
    return None


def check_cum(ctx, c, f_canon, results, base):
    """cumulative ops keep shape and labels; each column (axis 0) / row (axis 1) equals the Series computation"""
    import static_frame as sf
    fails = []
    spec = c['spec']
    n, m = spec['rows'], len(spec['cols'])
    fn, axis = c['fn'], c['axis']
    ref_cols = None
    ref_err = None
    try:
        if axis == 0:
            ref_cols = []
            for j in range(m):
                arr = gen.col_array(spec['cols'][j]['dt'], spec['cols'][j]['v'])
                ref_cols.append(call(sf.Series(arr), c, is_series=True).values)
        else:
            vals = f_canon.values
            rows = [call(sf.Series(vals[i]), c, is_series=True).values for i in range(n)]
            ref_cols = [[rows[i][j] for i in range(n)] for j in range(m)]
    except Exception as ex:
        ref_err = exc_name(ex)
    if ref_err is not None:
        return None
    for lay, nblocks, res in results:
        d = dict(base, layout=lay, nblocks=nblocks)
        what = None
        if res[0] == 'err':
            d['exc'] = res[1]
            d['msg'] = res[2]
            if ref_err is None:
                d['kind'] = 'frame_raises_ref_ok'
                what = f'raised {res[1]}: {res[2]} but the per-vector Series calls succeed'
            elif ref_err != res[1]:
                d['kind'] = 'exc_class'
                d['ref_exc'] = [ref_err]
                what = f'raised {res[1]}, the Series call raises {ref_err}'
        else:
            r = res[1]
            if ref_err is not None:
                d['kind'] = 'ref_raises_frame_ok'
                d['ref_exc'] = [ref_err]
                what = f'returned a Frame although the Series call raises {ref_err}'
            elif not isinstance(r, sf.Frame) or r.shape != (n, m):
                d['kind'] = 'shape'
                what = f'returned {type(r).__name__} of shape {getattr(r, "shape", None)}, expected ({n}, {m})'
            elif [tok(x) for x in r.index] != [tok(x) for x in f_canon.index] or [tok(x) for x in r.columns] != [tok(x) for x in f_canon.columns]:
                d['kind'] = 'labels'
                what = 'labels changed'
            else:
                for j in range(m):
                    got = r.iloc[:, j].values
                    for i in range(n):
                        if not veq(got[i], ref_cols[j][i]):
                            d['kind'] = 'value'
                            d['got'] = show(got[i])
                            d['exp'] = show(ref_cols[j][i])
                            what = f'cell ({i},{j}): frame {show(got[i])} vs Series {show(ref_cols[j][i])}'
                            break
                    if what:
                        break
        if what:
            fails.append(Failure('oracle', f'{fn}(axis={axis}, skipna={c["skipna"]}) on dtypes {base["dts"]} rows {n} layout {lay}: {what}', c, detail=d))
    return fails


def parse_cells(ans):
    """'ok (1 N 3)' -> [1, None, 3]"""
    body = ans[3:].strip()
    assert body.startswith('(') and body.endswith(')'), ans
    return [None if x == 'N' else int(x) for x in body[1:-1].split()]


def check_model(ctx, c, outs, results, f_canon, base):
    fails = []
    fn = c['fn']
    if c['k'] == 'red' and fn in FNS_MODEL:
        for (lay, nblocks, res), out in zip(results, outs):
            ctx.count('model_red_compared')
            d = dict(base, layout=lay, nblocks=nblocks, model=out)
            if out.startswith('err'):
                if res[0] != 'err':
                    fails.append(Failure('corr', f'{fn}(axis={c["axis"]}, skipna={c["skipna"]}) layout {lay}: model {out}, real returns {res[1].values.tolist()}', c, detail=d))
                continue
            exp = parse_cells(out)
            if res[0] == 'err':
                d['exc'] = res[1]
                d['kind'] = 'model_ok_real_raises'
                fails.append(Failure('corr', f'{fn}(axis={c["axis"]}, skipna={c["skipna"]}) layout {lay}: model {out}, real raises {res[1]}: {res[2]}', c, detail=d))
                continue
            _, vals = series_items(res[1])
            ok = len(vals) == len(exp) and all((e is None and is_missing(v)) or (e is not None and not is_missing(v) and not isinstance(v, np.ndarray) and v == e)
                                                for v, e in zip(vals, exp))
            if not ok:
                d['kind'] = 'model_value'
                d['got_array'] = any(isinstance(v, np.ndarray) for v in vals)
                fails.append(Failure('corr', f'{fn}(axis={c["axis"]}, skipna={c["skipna"]}) layout {lay}: model {out}, real {[show(v) for v in vals]}', c, detail=d))
    elif c['k'] == 'cum':
        res = results[0][2]
        ctx.count('model_cum_compared')
        if res[0] == 'ok':
            r = res[1]
            body = outs[0][3:].strip()
            cols = [parse_cells('ok ' + p if p.startswith('(') else 'ok (' + p) for p in split_lists(body)]
            got = [[r.iloc[i, j] for i in range(r.shape[0])] for j in range(r.shape[1])]
            ok = len(cols) == len(got) and all(len(a) == len(b) and all((e is None and is_missing(v)) or (e is not None and not is_missing(v) and v == e) for v, e in zip(b, a))
                                               for a, b in zip(cols, got))
            if not ok:
                fails.append(Failure('corr', f'{fn}(axis={c["axis"]}, skipna={c["skipna"]}): model {outs[0]}, real {got}', c, detail=dict(base, kind='model_cum')))
    elif c['k'] == 'arg' and fn.startswith('iloc'):
        res = results[0][2]
        ctx.count('model_arg_compared')
        out = outs[0]
        if out.startswith('err'):
            if res[0] != 'err':
                fails.append(Failure('corr', f'{fn}(axis={c["axis"]}, skipna={c["skipna"]}): model {out}, real returns {res[1].values.tolist()}', c, detail=dict(base, kind='model_arg')))
        elif res[0] == 'err':
            fails.append(Failure('corr', f'{fn}(axis={c["axis"]}, skipna={c["skipna"]}): model {out}, real raises {res[1]}', c, detail=dict(base, kind='model_arg', exc=res[1])))
        else:
            exp = parse_cells(out)
            _, vals = series_items(res[1])
            ok = len(vals) == len(exp) and all((e is None and is_missing(v)) or (e is not None and not is_missing(v) and v == e) for v, e in zip(vals, exp))
            if not ok:
                fails.append(Failure('corr', f'{fn}(axis={c["axis"]}, skipna={c["skipna"]}): model {out}, real {vals}', c, detail=dict(base, kind='model_arg')))
        # the 1-D helper against Series
        import static_frame as sf
        lines = line_cells(c['spec'], c['axis'])
        for l, o in zip(lines, outs[1:]):
            arr = np.array([np.nan if t == 'nan' else float(untok(t)) for t in l], dtype=float)
            try:
                with warnings.catch_warnings():
                    warnings.simplefilter('ignore')
                    rv = getattr(sf.Series(arr), fn)(skipna=c['skipna'])
                real = 'ok N' if is_missing(rv) else f'ok {int(rv)}'
            except Exception:
                real = 'err value'
            if o != real:
                fails.append(Failure('corr', f'Series.{fn}(skipna={c["skipna"]}) on {l}: model {o}, real {real}', c, detail=dict(base, kind='model_arg1d')))
    return fails


def split_lists(body):
    """'((1 2) (3 N))' -> ['(1 2)', '(3 N)']"""
    body = body.strip()
    assert body.startswith('(') and body.endswith(')')
    inner = body[1:-1].strip()
    out, depth, cur = [], 0, ''
    for ch in inner:
        if ch == '(':
            depth += 1
        if depth > 0:
            cur += ch
        if ch == ')':
            depth -= 1
            if depth == 0:
                out.append(cur)
                cur = ''
    return out


MISSING_TOKS = ('nan', 'N', 'nat')


def blocks_of(dts, layout):
    out, j = [], 0
    for w, is2d in layout:
        out.append((dts[j], w, bool(is2d) or w > 1))
        j += w
    return out


def classify(f):
    """Known findings of findings/C15.json; predicates on the call (function, axis, skipna), the shape, the dtype mix
    and the layout - never on the observed value alone."""
    d = f.detail or {}
    c = f.case or {}
    if str(c.get('k', '')).startswith('rg_'):
        return rgen.classify(f)
    if c.get('k') == 'logical' and d.get('kind') == 'logical_vector':
        # any() over datetimes that are all NaT, with skipna: "all dates are truthy" includes NaT
        if c['kind'] == 'nat' and c['which'] == 'any' and c['skipna'] and c['cells'] and all(x is None for x in c['cells']):
            return 'F44-c15-any-all-nat-truthy'
        return None
    if c.get('k') == 'desc' or 'fn' not in d or 'dts' not in d:
        return None
    fn, axis, sk, rows, cols, dts = d.get('fn'), d.get('axis'), d.get('skipna'), d.get('rows'), d.get('cols'), d.get('dts') or []
    kind, exc, row_kind = d.get('kind'), d.get('exc'), d.get('row_kind')
    kind = {'pyref_value': 'value', 'pyref_raises': 'frame_raises_ref_ok', 'pyref_loc_nan': 'value', 'pyref_expected_error': 'value',
            'pyref_shape': 'value', 'pyref_length': 'value'}.get(kind, kind)
    lays = [l for l in (d.get('layout'), d.get('layout0')) if l is not None]
    nbs = [n for n in (d.get('nblocks'), d.get('nblocks0')) if n is not None]
    multi = any(n >= 2 for n in nbs)
    lines = line_cells(c['spec'], axis) if 'spec' in c else []
    # R7 zero columns: TypeBlocks.unified is True for zero blocks and _blocks[0] is read
    if cols == 0:
        if exc in ('IndexError', 'ValueError') or kind in ('layout_err_vs_ok',):
            return 'F35-c15-zero-columns'
        return None
    # R5 / R10 zero rows: the logical helper answers a scalar; arg-min/max have nothing to point to
    if rows == 0 and fn in ('all', 'any'):
        return 'F33-c15-zero-rows-logical-and-arg'
    if rows == 0 and fn in FNS_ARG and exc in ('RuntimeError', 'ValueError'):
        return 'F33-c15-zero-rows-logical-and-arg'
    # R6 logical reductions with a 2-D datetime64 block next to other blocks: `out` is ignored
    if fn in ('all', 'any') and multi and kind in ('value', 'layout_value'):
        for lay in lays:
            if len(lay) >= 2 and any(dt.startswith('datetime64') and is2d for dt, w, is2d in blocks_of(dts, lay)):
                return 'F34-c15-logical-datetime-out-ignored'
    # R2 per-block results are written into an output of the row dtype: Boolean sums are clipped, string sums truncated
    if fn == 'sum' and axis == 0 and multi and kind in ('value', 'layout_value', 'model_value') and dts and \
            (all(x == 'bool' for x in dts) or all(x == 'str' for x in dts)):
        return 'F18-c15-sum-output-has-row-dtype'
    # R8 arg-min / arg-max of an all-missing vector
    if fn in FNS_ARG and any(l and all(t in MISSING_TOKS for t in l) for l in lines):
        if exc in ('ValueError',) or kind in ('value', 'layout_value', 'layout_err_vs_ok'):
            return 'F36-c15-argminmax-all-missing'
    # R9 Boolean next to numeric columns: the row dtype is object, and the consolidated object array breaks the float statistics
    if fn in TOL_FNS and axis == 1 and row_kind == 'O' and exc == 'TypeError':
        return 'F38-c15-bool-number-row-dtype-object'
    # R14 min / max with skipna of a 1-D object vector holding only NaN: np.nanmin / np.nanmax raise AttributeError
    if fn in ('min', 'max') and sk is True and row_kind == 'O' and any(l and all(t == 'nan' for t in l) for l in lines) and \
            (exc == 'AttributeError' or (kind == 'layout_err_vs_ok' and d.get('exc') == 'AttributeError')):
        return 'F45-c15-object-all-nan-minmax-attributeerror'
    # R4 an all-missing object vector: the 1-D object path answers NaN, the 2-D path the identity
    # (axis 0: the all-missing vector must be a column held as object - a float column of a one-row frame is reduced by the
    # float code and answers the identity on this tree)
    def _obj_line(j):
        return axis == 1 or (j < len(dts) and dts[j] == 'object') or rows != 1
    if sk is True and fn in ('sum', 'prod', 'min', 'max', 'all', 'any') and row_kind == 'O' and \
            any(l and all(t in MISSING_TOKS for t in l) and _obj_line(j) for j, l in enumerate(lines)) and kind in ('value', 'layout_value'):
        return 'F40-c15-object-all-missing-vector'
    if rows == 0 and 'object' in dts and fn in ('min', 'max', 'sum', 'prod') and (exc == 'ValueError' or kind in ('value', 'layout_value', 'layout_err_vs_ok')):
        return 'F40-c15-object-all-missing-vector'
    # R13 min / max of an object vector holding NaN without skipna: Python comparisons do not propagate NaN (order dependent)
    if fn in ('min', 'max') and sk is False and kind in ('value', 'layout_value', 'model_value') and \
            ((axis == 1 and row_kind == 'O') or (axis == 0 and 'object' in dts)) and \
            any('nan' in l and any(t not in MISSING_TOKS for t in l) for l in lines):
        return 'F43-c15-object-minmax-nan-order-dependent'
    # R3 axis 0, several blocks, object row dtype: every block is cast to object first and takes the object code path
    # (the documented faces of it: an empty column, min / max without skipna, a datetime column, a vector that is missing
    # throughout in a frame of two or more rows; a one-row frame reduces every cell by its own value on this tree)
    if axis == 0 and multi and row_kind == 'O' and fn in ('sum', 'prod', 'min', 'max') and any(x != 'object' for x in dts) and \
            (rows != 1 or (fn in ('min', 'max') and sk is False) or any(x.startswith(('datetime', 'timedelta')) for x in dts)):
        return 'F39-c15-blocks-precast-to-object-row-dtype'
    return None


def search(ctx):
    rng = ctx.rng('search')
    for i in range(4000):
        spec = rand_spec(rng, DT_NUM if i % 2 else rng.choice(DT_DOMAINS), min_rows=1, min_cols=1)
        fn = rng.choice(FNS_RED + FNS_ARG + FNS_CUM)
        yield mk_case(spec, fn, rng.randint(0, 1), rng.random() < 0.5, rng, all_layouts=True)
