"""C03 / C08 - Frame.roll / Frame.shift (TypeBlocks._shift_blocks) and util.array_shift (Series.roll / Series.shift).

Imported by c03.py (cases with 'k' == 'shift').  Sub-kinds ('sub'):
  blocks  : list(tb._shift_blocks(r, c, wrap, fill)) vs the Lean model SF.TB.shiftBlocks - block by block (ndim, width,
            dtype token exactly, cells up to NumPy's numeric widening), error category otherwise
  frame   : Frame.roll / Frame.shift vs SF.TB.frameShift (from_blocks + the shape check of the Frame constructor), plus
            the LEAN-INDEPENDENT reference: plain Python rotation / shift of the token columns of the spec, for ALL
            shifts (every column shifted out: the all-fill frame); on zero-sized axes: the empty frame
  layouts : THE PROPERTY on the real code over the whole shift range: two layouts, same outcome (values, dtypes, error class)
  array   : util.array_shift on 1-D and 2-D arrays, both axes, vs SF.Block.arrayShift
  series  : Series.roll / Series.shift vs SF.seriesRoll / SF.seriesShift and the plain Python reference

Frame.shift(columns=c) with |c| >= ncols (every column shifted out) raised ErrorInitFrame on the pinned tree (finding
F75-shift-columns-overshoot, repaired in /repo commit ad4f5b0; the model mirrors the repaired code, the pinned algorithm
is kept as SF.TB.shiftBlocksPinned for the counterexample theorems): these cases are inside the proved domain and under
the strict plain-Python reference (the all-fill frame).
Still open on the tree (finding F76-roll-shift-zero-axis, proved about the mirrored model: shift_zero_axis,
series_roll_empty, array_shift_empty): every roll / shift of a frame with no row or no column and Series.roll of an empty
Series raise ZeroDivisionError, as does Series.shift / array_shift of an empty axis by a non-zero shift; the reference
there is the unchanged empty container, the ZeroDivisionError is reported under that finding.
"""
from __future__ import annotations

import itertools

import numpy as np

from check import Failure
from sfv import gen
from sfv.canon import tok, untok, err_cat, dtype_tok, array_toks
from sfv.tbwire import Interner, tb_wire_from_blocks, answer_tb, real_tb_view, parse_sexp

THEOREMS = [
    'SF.C03.slice_list_is_python_slice', 'SF.C03.array_shift_refines', 'SF.C03.roll_pointwise', 'SF.C03.shift_pointwise',
    'SF.C03.array_shift_empty', 'SF.C03.block_array_shift_rows', 'SF.C03.block_array_shift_cols',
    'SF.C03.shift_refines', 'SF.C03.shift_wf_shape', 'SF.C03.shift_zero_axis', 'SF.C03.layout_unobservable_shift',
    'SF.C03.shiftPinned_overshoot', 'SF.C03.shiftPinned_ok_iff', 'SF.C03.shiftPinned_agrees',
    'SF.C03.shiftPinned_overshoot_counterexample', 'SF.C03.shiftPinned_overshoot_examples',
    'SF.C03.series_roll_refines', 'SF.C03.series_shift_refines', 'SF.C03.series_roll_empty',
]
TARGETS = ['SFModel.Props.C03Shift']
PARTIAL = ['SF.C03.shift_refines / shift_wf_shape / series_roll_refines / series_shift_refines hold for ALL shifts and both wrap modes but '
           'need at least one row and one column (one cell): on zero-sized axes the code raises ZeroDivisionError '
           '(shift_zero_axis, series_roll_empty, array_shift_empty; finding F76-roll-shift-zero-axis, not repaired)']
ZERO_AXIS = 'F76-roll-shift-zero-axis'

RULE = ('shift: layouts of 1-D / 2-D blocks of widths 1..4, 0..5 rows, row and column shifts in [-2n-1, 2n+1] (small layouts: every column '
        'shift exhaustively), wrap and fill, nine fill values; list(tb._shift_blocks) / Frame.roll / Frame.shift / array_shift (1-D, 2-D, '
        'both axes) / Series.roll / Series.shift vs the model, plain-Python reference for every shift, two layouts over the whole range')
TRUSTED = ['roll / shift: util.resolve_dtype and NumPy\'s cell conversion on assignment are model parameters (the driver gets the real '
           'resolve_dtype answers as a table; cells are compared up to numeric widening, dtypes exactly)']

DTYPES = ['int64', 'float64', 'bool', 'str', 'object', 'int8', 'float32', 'datetime64[D]']
FILLS = ['nan', 'i:0', 'i:7', 'f:1.5', 's:"zz"', 'N', 'b:1', 't:(i:1 i:2)', 'd:2020-01-01[D]']


# ------------------------------------------------------------------ generation
def rand_spec(rng, rows=None, widths=None):
    """frame spec with blocks of widths 1..4 (1-D and 2-D) and 0..5 rows"""
    n = rng.randint(0, 5) if rows is None else rows
    if widths is None:
        widths = [rng.randint(1, 4) for _ in range(rng.randint(1, 3))]
    dts, layout = [], []
    for w in widths:
        dt = rng.choice(DTYPES)
        dts += [dt] * w
        layout.append([w, True if w > 1 else rng.random() < 0.5])
    cols = [{'dt': dt, 'v': [gen.rand_value(rng, dt) for _ in range(n)]} for dt in dts]
    return {'index': gen.rand_index_spec(rng, n, ('auto', 'str')), 'columns': gen.rand_index_spec(rng, len(dts), ('auto', 'str')),
            'cols': cols, 'layout': layout, 'rows': n}


def shifts_for(n):
    """every shift in [-2n-1, 2n+1]"""
    return list(range(-2 * n - 1, 2 * n + 2))


def cases(ctx):
    rng = ctx.rng('shift')
    quick = ctx.tier == 'quick'
    # (a) exhaustive over the shift range of both axes for small structured layouts: every start position inside every
    #     block kind (1-D, 2-D width 1, 2-D width 2..4: head/tail split at every column), both wraps
    shapes = [[1], [2], [3], [4], [1, 1], [1, 2], [2, 1], [3, 1], [1, 3], [2, 2], [1, 4], [4, 2], [1, 2, 1], [2, 1, 3], [3, 3]]
    for widths in (shapes if not quick else rng.sample(shapes, 6) + [[2, 1, 3]]):
        spec = rand_spec(rng, rows=rng.choice([1, 2, 3]), widths=widths)
        m = sum(widths)
        for c in shifts_for(m):
            for wrap in (0, 1):
                r = rng.choice(shifts_for(spec['rows']))
                yield {'k': 'shift', 'sub': rng.choice(['blocks', 'frame']), 'spec': spec, 'r': r if rng.random() < 0.5 else 0,
                       'c': c, 'wrap': wrap, 'fill': rng.choice(FILLS)}
    # (b) exhaustive over the row shifts (array_shift inside the generator), incl. 1 row (roll returns a copy) and 0 rows
    for n in range(0, 6):
        spec = rand_spec(rng, rows=n, widths=rng.choice([[1, 2], [2, 1], [3], [1, 1, 2]]))
        for r in shifts_for(n):
            for wrap in (0, 1):
                yield {'k': 'shift', 'sub': rng.choice(['blocks', 'frame']), 'spec': spec, 'r': r,
                       'c': rng.choice([0, 0, 1, -1, 2]), 'wrap': wrap, 'fill': rng.choice(FILLS)}
    # (c) random
    for i in range(500 if quick else 12000):
        spec = rand_spec(rng)
        n, m = spec['rows'], len(spec['cols'])
        yield {'k': 'shift', 'sub': rng.choice(['blocks', 'frame', 'frame']), 'spec': spec, 'r': rng.choice(shifts_for(n)),
               'c': rng.choice(shifts_for(m)), 'wrap': rng.randint(0, 1), 'fill': rng.choice(FILLS)}
    # (d) zero columns (TypeBlocks.from_zero_size_shape)
    for n in (0, 2):
        for r, c, wrap in itertools.product((0, 1), (0, -1), (0, 1)):
            yield {'k': 'shift', 'sub': 'frame', 'spec': rand_spec(rng, rows=n, widths=[]), 'r': r, 'c': c, 'wrap': wrap, 'fill': 'nan'}
    # (e) two layouts, the whole shift range
    for i in range(120 if quick else 3000):
        spec = rand_spec(rng, rows=rng.randint(0, 3))
        dts = [c['dt'] for c in spec['cols']]
        lays = [l for l in gen.layouts_for(dts, limit=40, rng=rng) if gen.spec_dtypes(spec, l) == gen.spec_dtypes(spec, gen.canonical_layout(dts))]
        if len(lays) < 2:
            continue
        la, lb = rng.sample(lays, 2)
        n, m = spec['rows'], len(dts)
        yield {'k': 'shift', 'sub': 'layouts', 'spec': spec, 'la': la, 'lb': lb, 'r': rng.choice(shifts_for(n)),
               'c': rng.choice(shifts_for(m)), 'wrap': rng.randint(0, 1), 'fill': rng.choice(FILLS)}
    # (f) array_shift: 1-D and 2-D arrays, both axes (an axis the array does not have included), empty axes
    for i in range(400 if quick else 8000):
        n = rng.randint(0, 5)
        dt = rng.choice(DTYPES)
        if rng.random() < 0.4:
            w, axis = None, 0 if rng.random() < 0.9 else 1
        else:
            w, axis = rng.randint(0, 4), rng.randint(0, 1)
        size = n if axis == 0 else (w if w is not None else 0)
        yield {'k': 'shift', 'sub': 'array', 'dt': dt, 'rows': n, 'w': w,
               'v': [[gen.rand_value(rng, dt) for _ in range(n)] for _ in range(1 if w is None else w)],
               'shift': rng.choice(shifts_for(size)), 'axis': axis, 'wrap': rng.randint(0, 1), 'fill': rng.choice(FILLS)}
    # (g) Series.roll / Series.shift
    for i in range(300 if quick else 5000):
        n = rng.randint(0, 5)
        dt = rng.choice(DTYPES)
        yield {'k': 'shift', 'sub': 'series', 'dt': dt, 'v': [gen.rand_value(rng, dt) for _ in range(n)],
               'shift': rng.choice(shifts_for(n)), 'kind': rng.choice(['roll', 'shift']), 'fill': rng.choice(FILLS)}


def nontrivial(c):
    if c['sub'] in ('array', 'series'):
        return len(c['v']) >= 1 and c['shift'] != 0
    return len(c['spec']['cols']) >= 2 and (c['r'] != 0 or c['c'] != 0)


# ------------------------------------------------------------------ wire
def fill_of(c):
    from static_frame.core.util import dtype_from_element
    fill = untok(c['fill'])
    return fill, dtype_from_element(fill)


def resolve_wire(dts, fdt):
    """the answers of the real resolve_dtype(d, dtype_from_element(fill)) as the table of the driver; None on a token clash"""
    from static_frame.core.util import resolve_dtype
    by_tok, rows = {}, {}
    for d in list(dts) + [fdt]:
        for x in (d, resolve_dtype(d, fdt)):
            if by_tok.setdefault(dtype_tok(x), x) != x:
                return None
        rows[(dtype_tok(d), dtype_tok(fdt))] = dtype_tok(resolve_dtype(d, fdt))
    return '(' + ' '.join(f'({a} {b} {r})' for (a, b), r in sorted(rows.items())) + ')'


def block_wire(b, it):
    dt = dtype_tok(b.dtype)
    if b.ndim == 1:
        return f'(d1 {dt} ' + ' '.join(it.atom(t) for t in array_toks(b)) + ')'
    return f'(d2 {dt} ' + ' '.join('(' + ' '.join(it.atom(t) for t in array_toks(b[:, j])) + ')' for j in range(b.shape[1])) + ')'


def case_array(c):
    cols = [gen.col_array(c['dt'], v) for v in c['v']]
    if c['w'] is None:
        return cols[0]
    dt = np.result_type(*[p.dtype for p in cols]) if cols else gen.col_array(c['dt'], []).dtype
    a = np.empty((c['rows'], c['w']), dtype=dt)
    for j, p in enumerate(cols):
        a[:, j] = p
    return a


def model_lines(c):
    sub = c['sub']
    if sub == 'layouts':
        return []
    fill, fdt = fill_of(c)
    it = Interner()
    c['_it'] = it
    fa, ft = it.atom(c['fill']), dtype_tok(fdt)
    if sub in ('blocks', 'frame'):
        spec = c['spec']
        blocks = gen.build_blocks(spec)
        table = resolve_wire([b.dtype for b in blocks], fdt)
        if table is None:
            return []
        w = tb_wire_from_blocks(blocks, spec['rows'], it)
        return [f'tbshift.{sub} {w} {c["r"]} {c["c"]} {c["wrap"]} {fa} {ft} {table}']
    if sub == 'array':
        a = case_array(c)
        table = resolve_wire([a.dtype], fdt)
        if table is None:
            return []
        return [f'tbshift.array {block_wire(a, it)} {c["rows"]} {c["shift"]} {c["axis"]} {c["wrap"]} {fa} {ft} {table}']
    if sub == 'series':
        a = gen.col_array(c['dt'], c['v'])
        table = resolve_wire([a.dtype], fdt)
        if table is None:
            return []
        return [f'tbshift.series {c["kind"]} {dtype_tok(a.dtype)} (' + ' '.join(it.atom(t) for t in array_toks(a)) + f') {c["shift"]} {fa} {ft} {table}']
    raise ValueError(sub)


# ------------------------------------------------------------------ comparison
def cells_equal(a, b):
    from sfv.props.c04 import cell_equal
    return len(a) == len(b) and all(cell_equal(x, y) for x, y in zip(a, b))


def array_view(a):
    """(ndim, dtype token, columns of tokens)"""
    if a.ndim == 1:
        return (1, dtype_tok(a.dtype), [array_toks(a)])
    return (2, dtype_tok(a.dtype), [array_toks(a[:, j]) for j in range(a.shape[1])])


def model_block_view(e, it):
    if e[0] == 'd1':
        return (1, e[1], [[it.token(x) for x in e[2:]]])
    return (2, e[1], [[it.token(x) for x in col] for col in e[2:]])


def views_equal(m, r):
    return m[0] == r[0] and m[1] == r[1] and len(m[2]) == len(r[2]) and all(cells_equal(x, y) for x, y in zip(m[2], r[2]))


def py_roll(l, k):
    n = len(l)
    return [l[(j - k) % n] for j in range(n)]


def py_shift(l, k, fill):
    n = len(l)
    return [l[j - k] if 0 <= j - k < n else fill for j in range(n)]


def col_shift_ok(n, c):
    return (-n < c <= n) or (c > 0 and c % n == 0)


def reference(spec, r, c, wrap, fill_tok):
    """plain Python: rotate the column list by c and every column by r / shift with the fill token"""
    cols = gen.spec_cols_tokens(spec)
    n = spec['rows']
    if wrap:
        return [py_roll(col, r) for col in py_roll(cols, c)]
    return [py_shift(col, r, fill_tok) for col in py_shift(cols, c, [fill_tok] * n)]


def evaluate(ctx, c, outs):
    import static_frame as sf
    sub = c['sub']
    it = c.pop('_it', None)
    ctx.count(f'shift_{sub}')
    fails = []
    if sub == 'layouts':
        return eval_layouts(ctx, c)
    fill, fdt = fill_of(c)
    out = outs[0] if outs else None
    if out is None:
        ctx.count('shift_model_skipped_token_clash')
    if sub in ('blocks', 'frame'):
        spec = c['spec']
        n, m = spec['rows'], len(spec['cols'])
        r, cs, wrap = c['r'], c['c'], bool(c['wrap'])
        ctx.count('shift_wrap' if wrap else 'shift_fill')
        domain = n > 0 and m > 0
        if not domain:
            ctx.count('shift_zero_axis')
        elif not wrap and abs(cs) >= m:
            ctx.count('shift_every_column_out')   # the repaired branch (F75): head / tail dropped, the all-fill frame
            if not col_shift_ok(m, cs):
                ctx.count('shift_every_column_out_formerly_raising')
        if m and n:
            # where the walk starts: 1-D block / first column of a 2-D block / inside a 2-D block (head-tail split)
            p = (-(cs % m)) % m
            acc = 0
            for w, is2d in spec['layout']:
                if acc <= p < acc + w:
                    ctx.count('shift_start_' + ('1d' if not is2d else 'block_edge' if p == acc else 'inside_2d'))
                acc += w
            if r % n == 0 and r != 0:
                ctx.count('shift_rows_multiple_of_len')
            if abs(r) > n:
                ctx.count('shift_rows_beyond_len')
        if sub == 'blocks':
            tb = sf.TypeBlocks.from_blocks(gen.build_blocks(spec)) if m else sf.TypeBlocks.from_zero_size_shape((n, 0))
            try:
                real = [array_view(b) for b in tb._shift_blocks(r, cs, wrap, fill)]
            except Exception as ex:
                real = ('err', err_cat(ex), repr(ex)[:80])
            if isinstance(real, tuple):
                ctx.count(f'shift_blocks_raises_{real[1]}')
            elif sum(len(v[2]) for v in real) != m:
                ctx.count('shift_blocks_yields_wrong_width')
            if out is not None:
                if out.startswith('err '):
                    ok = isinstance(real, tuple) and real[1] == out[4:].strip()
                else:
                    e = parse_sexp(out[3:])
                    mod = [model_block_view(b, it) for b in e[1:]]
                    ok = not isinstance(real, tuple) and len(mod) == len(real) and all(views_equal(x, y) for x, y in zip(mod, real))
                if not ok:
                    fails.append(Failure('corr', f'_shift_blocks({r}, {cs}, wrap={wrap}, fill={c["fill"]}) layout={spec["layout"]} rows={n}: model {out[:200]} vs real {str(real)[:200]}', c))
            return fails
        f = gen.build_frame(spec)
        try:
            res = f.roll(r, cs) if wrap else f.shift(r, cs, fill_value=fill)
            real = real_tb_view(res._blocks)
            if res.shape != (n, m) or not res.index.equals(f.index) or not res.columns.equals(f.columns):
                fails.append(Failure('oracle', f'roll/shift({r}, {cs}) changes shape or labels: {res.shape}', c))
        except Exception as ex:
            real = ('err', err_cat(ex), repr(ex)[:80])
        if isinstance(real, tuple):
            ctx.count(f'shift_frame_raises_{real[1]}')
        # Lean-independent reference: ALL shifts of a frame with at least one row and one column
        if domain:
            ref = reference(spec, r, cs, wrap, c['fill'])
            if isinstance(real, tuple) or len(real['cols']) != len(ref) or not all(cells_equal(x, y) for x, y in zip(real['cols'], ref)):
                fails.append(Failure('oracle', f'Frame.{"roll" if wrap else "shift"}({r}, {cs}, fill={c["fill"]}) layout={spec["layout"]}: {str(real)[:200]} vs reference {str(ref)[:200]}', c))
            ctx.count('shift_reference_compared')
        else:
            # zero-sized axis: there is nothing to move, the reference is the empty frame of the same shape
            if isinstance(real, tuple):
                fails.append(Failure('oracle', f'Frame.{"roll" if wrap else "shift"}({r}, {cs}) of a frame of shape {(n, m)} raises {real[2]}', c,
                                     finding=ZERO_AXIS if 'ZeroDivisionError' in real[2] else None))
            elif real['rows'] != n or len(real['cols']) != m or any(col for col in real['cols']):
                fails.append(Failure('oracle', f'Frame.{"roll" if wrap else "shift"}({r}, {cs}) of a frame of shape {(n, m)} returns {str(real)[:200]}', c))
        if out is not None:
            mod = answer_tb(out, it)
            if isinstance(mod, tuple):
                ok = isinstance(real, tuple) and real[1] == mod[1]
            else:
                ok = (not isinstance(real, tuple) and mod['rows'] == real['rows'] and mod['dtypes'] == real['dtypes']
                      and mod['layout'] == real['layout'] and len(mod['cols']) == len(real['cols'])
                      and all(cells_equal(x, y) for x, y in zip(mod['cols'], real['cols'])))
            if not ok:
                fails.append(Failure('corr', f'Frame.{"roll" if wrap else "shift"}({r}, {cs}, fill={c["fill"]}) layout={spec["layout"]} rows={n}: model {out[:200]} vs real {str(real)[:200]}', c))
        return fails
    if sub == 'array':
        from static_frame.core.util import array_shift
        a = case_array(c)
        ctx.count(f'shift_array_{a.ndim}d_axis{c["axis"]}')
        if a.shape[c['axis']] == 0 if c['axis'] < a.ndim else False:
            ctx.count('shift_array_empty_axis')
        try:
            real = array_view(array_shift(array=a, shift=c['shift'], axis=c['axis'], wrap=bool(c['wrap']), fill_value=fill))
        except Exception as ex:
            real = ('err', err_cat(ex), repr(ex)[:80])
            ctx.count(f'shift_array_raises_{real[1]}')
        if out is not None:
            if out.startswith('err '):
                ok = real[0] == 'err' and real[1] == out[4:].strip()
            else:
                ok = real[0] != 'err' and views_equal(model_block_view(parse_sexp(out[3:]), it), real)
            if not ok:
                fails.append(Failure('corr', f'array_shift(shape={a.shape}, dtype={a.dtype}, shift={c["shift"]}, axis={c["axis"]}, wrap={c["wrap"]}, fill={c["fill"]}): model {out[:200]} vs real {str(real)[:200]}', c))
        return fails
    if sub == 'series':
        a = gen.col_array(c['dt'], c['v'])
        s = sf.Series(a)
        n = len(a)
        try:
            res = s.roll(c['shift']) if c['kind'] == 'roll' else s.shift(c['shift'], fill_value=fill)
            real = array_view(res.values)
            if not res.index.equals(s.index):
                fails.append(Failure('oracle', f'Series.{c["kind"]} changes the index', c))
        except Exception as ex:
            real = ('err', err_cat(ex), repr(ex)[:80])
            ctx.count(f'shift_series_raises_{real[1]}')
        toks = array_toks(a)
        ref = (py_roll(toks, c['shift']) if c['kind'] == 'roll' else py_shift(toks, c['shift'], c['fill'])) if n else []
        if n == 0:
            ctx.count('shift_series_empty')
        if real[0] == 'err':
            fails.append(Failure('oracle', f'Series.{c["kind"]}({c["shift"]}, fill={c["fill"]}) of {toks} raises {real[2]}', c,
                                 finding=ZERO_AXIS if n == 0 and 'ZeroDivisionError' in real[2] else None))
        elif not cells_equal(real[2][0], ref):
            fails.append(Failure('oracle', f'Series.{c["kind"]}({c["shift"]}, fill={c["fill"]}) of {toks}: {str(real)[:200]} vs reference {ref}', c))
        if out is not None:
            if out.startswith('err '):
                ok = real[0] == 'err' and real[1] == out[4:].strip()
            else:
                ok = real[0] != 'err' and views_equal(model_block_view(parse_sexp(out[3:]), it), real)
            if not ok:
                fails.append(Failure('corr', f'Series.{c["kind"]}({c["shift"]}, fill={c["fill"]}) dtype={a.dtype} n={n}: model {out[:200]} vs real {str(real)[:200]}', c))
        return fails
    raise ValueError(sub)


def eval_layouts(ctx, c):
    """THE PROPERTY: the block layout is unobservable through roll / shift - for the whole shift range (on
    empty axes both layouts have to raise the same exception class)"""
    spec = c['spec']
    fill = untok(c['fill'])
    res = []
    for lay in (c['la'], c['lb']):
        f = gen.build_frame(spec, lay)
        try:
            g = f.roll(c['r'], c['c']) if c['wrap'] else f.shift(c['r'], c['c'], fill_value=fill)
            cols = [g._blocks._extract_array(column_key=j) for j in range(g.shape[1])]
            res.append(('ok', g.shape, [(dtype_tok(a.dtype), array_toks(a)) for a in cols]))
        except Exception as ex:
            res.append(('err', err_cat(ex)))
    if res[0][0] == 'err':
        ctx.count('shift_layouts_both_raise')
    if res[0] != res[1]:
        return [Failure('oracle', f'roll/shift({c["r"]}, {c["c"]}, wrap={c["wrap"]}, fill={c["fill"]}) differs between layouts {c["la"]} and {c["lb"]}: {str(res[0])[:160]} vs {str(res[1])[:160]}', c)]
    return []
