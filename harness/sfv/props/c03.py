"""C03 - block manager transparency and structural coherence of Frame.

Three kinds of cases:
  tb      : TypeBlocks-level correspondence of the mirrored Lean model (extract / drop / key->block
            slices / astype / ufunc / from_blocks / consolidate / index directory) with the real class
  layout  : THE PROPERTY on the real code (oracle): one logical frame under two block layouts, one
            public single-frame operation -> equal canonical results (values, labels, per-column
            dtypes, exception class)
  coher   : shape vs labels; values[i,j] == iloc[i,j] == iter_array/iter_series/iter_element/to_pairs;
            the same blocks accumulated by a history of from_blocks / append / extend calls (some of them
            raising): the incrementally kept caches _shape / _index / _dtypes / _row_dtype against the Lean
            growth model (tb.caches) and against a recomputation from the final blocks
"""
from __future__ import annotations

import numpy as np

from check import Failure
from sfv import gen
from sfv.canon import tok, untok, err_cat, dtype_tok, array_toks, frame_snapshot, series_snapshot
from sfv.tbwire import Interner, tb_wire_from_blocks, answer_tb, real_tb_view
from sfv import ops
from sfv.props import c03_shift   # roll / shift: TypeBlocks._shift_blocks, util.array_shift (cases 'shift')
from sfv.props import c03_binop   # binary operators: operand splitting of TypeBlocks._ufunc_binary_operator (cases 'bo_*')
from sfv.props import c03_resize  # reindex / label alignment: TypeBlocks.resize_blocks at the block level (cases 'resize')

# sub-modules bringing their own model files, theorems, cases and evaluation; a case belongs to the first whose OWNS accepts its kind
SUBS = [(c03_shift, lambda k: k == 'shift'), (c03_binop, lambda k: k.startswith('bo_')), (c03_resize, lambda k: k == 'resize')]


def _sub(c):
    for m, owns in SUBS:
        if owns(c['k']):
            return m
    return None


TARGETS = ['SFModel.Props.C03'] + c03_shift.TARGETS + c03_binop.TARGETS + c03_resize.TARGETS
THEOREMS = [
    'SF.C03.cols_wf', 'SF.C03.fromBlocks_sound', 'SF.C03.index_spec', 'SF.C03.contiguous_pairs_expand',
    'SF.C03.contiguous_pairs_total', 'SF.C03.extract_refines', 'SF.C03.layout_unobservable_extract',
    'SF.C03.consolidate_cols', 'SF.C03.append_cols', 'SF.C03.extend_cols',
    'SF.C03.caches_ofBlocks_coherent', 'SF.C03.caches_append_coherent', 'SF.C03.caches_history_coherent',
    'SF.C03.caches_history_row_dtype', 'SF.C03.caches_grown_from_empty', 'SF.C03.row_dtype_history_differs',
    'SF.C03.row_dtype_history_agrees_of_preserving',
] + c03_shift.THEOREMS + c03_binop.THEOREMS + c03_resize.THEOREMS
PARTIAL = list(c03_shift.PARTIAL) + list(c03_binop.PARTIAL) + list(c03_resize.PARTIAL)
CORR_ONLY = ['every single-frame public operation of harness/sfv/ops.py not mirrored in Blocks.lean is covered by the two-layout oracle only'] + c03_binop.CORR_ONLY + c03_resize.CORR_ONLY
RULE = ('tb: random frames (<=4 rows, <=6 cols, dtype runs) x random layout x op x keys, model vs real TypeBlocks; '
        'layout: random frame x two different layouts with equal per-column dtypes x one operation of the catalogue '
        '(thorough: every layout of the frame); non-trivial = at least two columns and, for layout cases, two distinct layouts; '
        'distinct = distinct canonical case JSON; ' + c03_shift.RULE + '; ' + c03_binop.RULE + '; ' + c03_resize.RULE)
TRUSTED = ['NumPy indexing of one block is a model parameter (list selection), validated by the tb correspondence'] + c03_shift.TRUSTED + c03_binop.TRUSTED + c03_resize.TRUSTED
ASSUMPTIONS = ['the operation catalogue (harness/sfv/ops.py) samples the public single-frame interface; operations outside it are not exercised']
BUDGET = {'quick': 200, 'thorough': 1700}

TB_OPS = ['extract', 'drop_c', 'drop_r', 'drop_rc', 'slices0', 'slices1', 'astype', 'ufunc', 'index', 'consolidate']


def nontrivial(c):
    if _sub(c) is not None:
        return _sub(c).nontrivial(c)
    if c['k'] == 'tb':
        return len(c['spec']['cols']) >= 2
    if c['k'] == 'layout':
        return len(c['spec']['cols']) >= 2 and c['la'] != c['lb']
    return len(c['spec']['cols']) >= 1


def same_dtype_layouts(spec, rng, want=2, limit=40):
    """layouts whose built per-column dtypes equal those of the canonical (one 1-D block per column) layout"""
    dts = [c['dt'] for c in spec['cols']]
    base = gen.spec_dtypes(spec, gen.canonical_layout(dts))
    alls = gen.layouts_for(dts, limit=limit, rng=rng)
    ok = [l for l in alls if gen.spec_dtypes(spec, l) == base]
    return ok


def cases(ctx):
    # sub-modules first (own random streams: the streams below are unchanged), so that the budget never cuts them off
    yield from c03_shift.cases(ctx)
    yield from c03_binop.cases(ctx)
    yield from c03_resize.cases(ctx)
    rng = ctx.rng('main')
    quick = ctx.tier == 'quick'
    for i in range(5000 if quick else 40000):
        spec = gen.rand_frame_spec(rng, 6, 7, dtypes=['int64', 'float64', 'bool', 'str', 'object'], min_cols=1, run_bias=0.6)
        n, m = spec['rows'], len(spec['cols'])
        op = rng.choice(TB_OPS)
        yield {'k': 'tb', 'spec': spec, 'op': op,
               'rk': gen.rand_key(rng, n, kinds=('sl', 'list', 'mask', 'all', 'int')),
               # keys with repeated positions are legal for the order-insensitive generators (drop / astype / ufunc)
               'ck': gen.rand_key(rng, m, kinds=('int', 'sl', 'list', 'list', 'mask', 'all'),
                                  unique_list=not (op in ('drop_c', 'drop_rc', 'slices0', 'astype', 'ufunc') and rng.random() < 0.3)),
               # astype target: the dtype some column already has (exercises the `dtype == b.dtype` skip inside a
               # block with further targets) or object
               'ac': rng.choice([None] + list(range(m)))}
    # row keys that are a run of consecutive positions in another order, with the ends of the ascending run (what a block
    # manager recognising runs by their ends and length would mistake for a slice)
    for i in range(150 if quick else 2000):
        spec = gen.rand_frame_spec(rng, 7, 5, dtypes=['int64', 'float64', 'str'], min_cols=2, min_rows=4, run_bias=0.6)
        n, m = spec['rows'], len(spec['cols'])
        k = rng.randint(4, n)
        a = rng.randint(0, n - k)
        mid = list(range(a + 1, a + k - 1))
        rng.shuffle(mid)
        if mid == sorted(mid):
            mid.reverse()
        yield {'k': 'tb', 'spec': spec, 'op': 'extract', 'rk': ['list', a] + mid + [a + k - 1],
               'ck': gen.rand_key(rng, m, kinds=('sl', 'list', 'all'), unique_list=True), 'ac': None}
    names = ops.catalogue_names()
    for i in range(8000 if quick else 60000):
        spec = gen.rand_frame_spec(rng, 4, 5, dtypes=rng.choice([gen.DTYPES_BASIC, ['int64', 'float64'], ['float64', 'object', 'str'], gen.DTYPES_ALL]),
                                   index_kinds=('auto', 'int', 'str'), column_kinds=('auto', 'int', 'str'), min_cols=1, run_bias=0.7)
        lays = same_dtype_layouts(spec, rng)
        if len(lays) < 2:
            continue
        name = names[i % len(names)] if quick else rng.choice(names)
        args = ops.rand_args(name, rng, spec)
        if quick:
            la, lb = rng.sample(lays, 2)
            yield {'k': 'layout', 'spec': spec, 'la': la, 'lb': lb, 'op': name, 'args': args}
        else:
            la = lays[0]
            for lb in lays[1:12]:
                yield {'k': 'layout', 'spec': spec, 'la': la, 'lb': lb, 'op': name, 'args': args}
    # one dtype throughout, several columns: per-block partial results (2-D blocks next to 1-D ones) must combine to what the
    # consolidated frame answers - for Booleans and narrow integers the partial result of a block does not fit the block's dtype
    for i in range(300 if quick else 3000):
        dt = rng.choice(['bool', 'bool', 'int8', 'uint8', 'int64', 'float64'])
        spec = gen.rand_frame_spec(rng, 4, 5, dtypes=[dt], index_kinds=('auto', 'str'), column_kinds=('auto', 'str'), min_cols=3, min_rows=1)
        lays = same_dtype_layouts(spec, rng)
        if len(lays) < 2:
            continue
        la, lb = rng.sample(lays, 2)
        yield {'k': 'layout', 'spec': spec, 'la': la, 'lb': lb, 'op': 'reduce', 'args': [rng.choice(['sum', 'sum', 'prod', 'min', 'max', 'all', 'any']), 1, rng.random() < 0.5]}
    for i in range(400 if quick else 4000):
        # every third case draws from one family of dtypes (same kind, different widths): caches keyed on the kind alone show up
        fam = rng.choice([['int64', 'int8'], ['float64', 'float32'], ['str'], ['datetime64[D]', 'datetime64[s]'], ['uint8', 'uint64', 'int8']]) if i % 3 == 0 else gen.DTYPES_ALL
        spec = gen.rand_frame_spec(rng, 4, 5, dtypes=fam, index_kinds=('auto', 'int', 'str', 'ih'), column_kinds=('auto', 'str', 'ih'))
        yield {'k': 'coher', 'spec': spec, 'seed': i, 'hist': rand_history(rng, len(spec['layout']))}


def rand_history(rng, nb):
    """A growth history over blocks 0..nb-1 (in order): how the first k0 are constructed, then a list of calls:
    ['a', i] append; ['e', [i..]] extend(iterable); ['t', [i..]] extend(TypeBlocks); noise that must change nothing:
    ['z'] append a zero-width 2-D array, ['bad'] append an array one row too long (raises), ['tbad'] extend with an
    empty TypeBlocks of another row count (raises unless self has no rows); ['ebad', i] extend((block i, too-long
    array)): raises AFTER block i was appended."""
    k0 = min(nb, rng.choice([0, 1, 1, 2, 3, nb]))
    init = 'zero' if k0 == 0 else rng.choice(['single', 'iter']) if k0 == 1 else 'iter'
    calls = []
    i = k0
    while i < nb:
        r = rng.random()
        if r < 0.12:
            calls.append([rng.choice(['z', 'bad', 'tbad'])])
            continue
        if r < 0.2:
            calls.append(['ebad', i])
            i += 1
            continue
        kind = rng.choice(['a', 'a', 'e', 't'])
        if kind == 'a':
            calls.append(['a', i])
            i += 1
        else:
            w = min(nb - i, rng.randint(1, 3))
            calls.append([kind, list(range(i, i + w))])
            i += w
    if rng.random() < 0.3:
        calls.append([rng.choice(['z', 'bad', 'tbad'])])
    return {'k0': k0, 'init': init, 'calls': calls}


def default_history(c, nb):
    """the accumulation of cases recorded before histories existed: first block, then one call per block"""
    ext = c.get('seed', 0) % 2
    return {'k0': min(1, nb), 'init': 'single' if nb else 'zero',
            'calls': [['e', [i]] if ext else ['a', i] for i in range(1, nb)]}


def block_wire(b, it):
    dt = dtype_tok(b.dtype)
    if b.ndim == 1:
        return f'(d1 {dt} ' + ' '.join(it.atom(t) for t in array_toks(b)) + ')'
    cols = ['(' + ' '.join(it.atom(t) for t in array_toks(b[:, j])) + ')' for j in range(b.shape[1])]
    return f'(d2 {dt} ' + ' '.join(cols) + ')'


def resolve_table(dts):
    """answers of the real util.resolve_dtype for every pair the left fold over `dts` can meet, as dtype tokens;
    None if two distinct dtypes share a token (the token model cannot tell them apart)"""
    from static_frame.core.util import resolve_dtype
    by_tok = {}
    for d in dts:
        if by_tok.setdefault(dtype_tok(d), d) != d:
            return None
    table = {}
    seen = list(by_tok.values())
    todo = list(seen)
    while todo:
        a = todo.pop()
        for b in dts:
            r = resolve_dtype(a, b)
            if by_tok.setdefault(dtype_tok(r), r) != r:
                return None
            table[(dtype_tok(a), dtype_tok(b))] = dtype_tok(r)
            if r not in seen:
                seen.append(r)
                todo.append(r)
    return table


def history_wire(c):
    """driver line of the growth history of a coher case (None when it cannot be expressed)"""
    spec = c['spec']
    blocks = gen.build_blocks(spec)
    n = spec['rows']
    h = c.get('hist') or default_history(c, len(blocks))
    it = Interner()
    bw = lambda i: block_wire(blocks[i], it)
    table = resolve_table([blocks[i].dtype for i in range(h['k0'])])
    if table is None:
        return None
    too_long = '(d1 i8 ' + ' '.join(it.atom(f'i:{v}') for v in range(n + 1)) + ')'
    ops = []
    for call in h['calls']:
        k = call[0]
        if k == 'a':
            ops.append(f'(append {bw(call[1])})')
        elif k == 'e':
            ops.append('(extend ' + ' '.join(bw(i) for i in call[1]) + ')')
        elif k == 't':
            ops.append(f'(extendtb {n} ' + ' '.join(bw(i) for i in call[1]) + ')')
        elif k == 'z':
            ops.append('(append (d2 f8))')
        elif k == 'bad':
            ops.append(f'(append {too_long})')
        elif k == 'tbad':
            ops.append(f'(extendtb {n + 1})')
        elif k == 'ebad':
            ops.append(f'(extend {bw(call[1])} {too_long})')
        else:
            raise ValueError(k)
    ref = n if h['init'] == 'zero' else 'N'
    init = ' '.join(bw(i) for i in range(h['k0']))
    tab = ' '.join(f'({a} {b} {r})' for (a, b), r in sorted(table.items()))
    return f'tb.caches {ref} ({init}) ({tab}) ({" ".join(ops)})'


def model_lines(c):
    if _sub(c) is not None:
        return _sub(c).model_lines(c)
    if c['k'] == 'coher':
        w = history_wire(c)
        c['_clash'] = w is None
        return [w] if w else []
    if c['k'] != 'tb':
        return []
    import static_frame as sf
    spec = c['spec']
    blocks = gen.build_blocks(spec)
    it = Interner()
    w = tb_wire_from_blocks(blocks, spec['rows'], it)
    c['_it'] = it
    rk, ck = gen.key_to_wire(c['rk']), gen.key_to_wire(c['ck'])
    op = c['op']
    if op == 'extract':
        return [f'tb.extract {w} {rk} {ck}']
    if op == 'drop_c':
        return [f'tb.drop {w} N {ck}']
    if op == 'drop_r':
        return [f'tb.drop {w} {rk} N']
    if op == 'drop_rc':
        return [f'tb.drop {w} {rk} {ck}']
    if op == 'slices0':
        return [f'tb.slices {w} {ck} 0']
    if op == 'slices1':
        return [f'tb.slices {w} {ck} 1']
    if op == 'astype':
        ac = c.get('ac')
        dt = 'O8' if ac is None else gen.spec_dtypes(spec)[ac]
        return [f'tb.astype {w} {ck} {dt}']
    if op == 'ufunc':
        return [f'tb.ufunc {w} {ck}']
    if op == 'index':
        return [f'tb.index {w}']
    if op == 'consolidate':
        return [f'tb.consolidate {w}']
    raise ValueError(op)


def evaluate(ctx, c, outs):
    if _sub(c) is not None:
        return _sub(c).evaluate(ctx, c, outs)
    if c['k'] == 'tb':
        return eval_tb(ctx, c, outs)
    if c['k'] == 'layout':
        return eval_layout(ctx, c)
    return eval_coher(ctx, c, outs)


def eval_tb(ctx, c, outs):
    import static_frame as sf
    it = c.pop('_it', None)
    if not outs:
        return []
    out = outs[0]
    spec, op = c['spec'], c['op']
    n, m = spec['rows'], len(spec['cols'])
    tb = sf.TypeBlocks.from_blocks(gen.build_blocks(spec))
    prk, pck = gen.key_to_py(c['rk']), gen.key_to_py(c['ck'])
    ctx.count(f'tb_{op}')
    ctx.count(f'tb_ck_{c["ck"][0]}')
    fails = []
    try:
        if op == 'extract':
            r = tb._extract(prk, pck)
            real = real_tb_view(r) if isinstance(r, sf.TypeBlocks) else ('elem',)
        elif op.startswith('drop'):
            r = tb.drop((prk if 'r' in op[5:] else None, pck if 'c' in op[5:] else None))
            real = real_tb_view(r)
        elif op in ('slices0', 'slices1'):
            real = list(tb._key_to_block_slices(pck, retain_key_order=op == 'slices1'))
        elif op == 'astype':
            ac = c.get('ac')
            target = np.dtype(object) if ac is None else tb._extract_array(column_key=ac).dtype
            real = real_tb_view(sf.TypeBlocks.from_blocks(tb._astype_blocks(pck, target)))
        elif op == 'ufunc':
            real = real_tb_view(sf.TypeBlocks.from_blocks(tb._ufunc_blocks(pck, lambda a: a)))
        elif op == 'index':
            real = [list(p) for p in tb._index]
        elif op == 'consolidate':
            real = real_tb_view(tb.consolidate())
    except Exception as ex:
        real = ('err', err_cat(ex), repr(ex)[:100])
    ok = True
    if op in ('slices0', 'slices1'):
        if isinstance(real, tuple):
            ok = out.startswith('err')
        else:
            f = lambda v: 'N' if v is None else str(int(v))
            exp = 'ok (' + ' '.join(f'({b} ' + (f'(col {int(s)})' if isinstance(s, (int, np.integer)) else f'(sl {f(s.start)} {f(s.stop)} {f(s.step)})') + ')' for b, s in real) + ')'
            ok = out == exp
    elif op == 'index':
        exp = 'ok (' + ' '.join(f'({a} {b})' for a, b in real) + ')'
        ok = out == exp
    else:
        mod = answer_tb(out, it)
        if isinstance(real, tuple) and real[0] == 'err':
            # a failing NumPy conversion inside astype (e.g. 'xyz' -> float) is outside the structural model
            ok = isinstance(mod, tuple) or op == 'astype'
            ctx.count('tb_error_cases')
        elif real == ('elem',):
            ok = True
        elif isinstance(mod, tuple):
            # the real generator never applies the row key when no block is kept: an invalid row key goes unnoticed
            ok = (op.startswith('drop') or op == 'extract') and not real['cols'] and mod[1] == 'lookup'
        else:
            if op == 'ufunc':
                mod['cols'] = [[t.lstrip('~') for t in col] for col in mod['cols']]
            if op == 'astype':
                ok = mod['dtypes'] == real['dtypes']
            else:
                ok = mod['cols'] == real['cols'] and mod['dtypes'] == real['dtypes']
                ok = ok and mod['rows'] == real['rows']
            if op == 'consolidate' and ok:
                ok = mod['layout'] == real['layout']
    if not ok:
        fails.append(Failure('corr', f'TypeBlocks.{op} rk={c["rk"]} ck={c["ck"]} layout={spec["layout"]}: model {out[:160]} vs real {str(real)[:160]}', c))
    return fails


def eval_layout(ctx, c):
    fails = []
    spec = c['spec']
    fa = gen.build_frame(spec, c['la'])
    fb = gen.build_frame(spec, c['lb'])
    ctx.count(f'op_{c["op"]}')
    ra = ops.run(c['op'], fa, c['args'])
    rb = ops.run(c['op'], fb, c['args'])
    if ra[0] == 'err' or rb[0] == 'err':
        ctx.count('layout_error_results')
    if ra != rb:
        fails.append(Failure('oracle', f'{c["op"]}{c["args"]} differs between layouts {c["la"]} and {c["lb"]}: {short(ra)} vs {short(rb)}', c,
                             finding=ops.classify_layout_difference(c, ra, rb),
                             detail={'op': c['op'], 'a': short(ra, 400), 'b': short(rb, 400)}))
    return fails


def short(r, n=160):
    s = repr(r)
    return s if len(s) <= n else s[:n] + '...'


def coherence_of(f, spec):
    """first incoherence between the views of frame `f` and the column tokens of `spec`, or None"""
    n, m = spec['rows'], len(spec['cols'])
    what = None
    if f.shape != (len(f.index), len(f.columns)) or f.shape != (n, m):
        what = f'shape {f.shape} vs labels {(len(f.index), len(f.columns))}'
    elif len(f.dtypes) != m:
        what = 'dtypes length'
    else:
        from sfv.props.c04 import cell_equal
        colt = gen.spec_cols_tokens(spec)
        vals = f.values
        cols_by_iter = [array_toks(a) for a in f.iter_array(axis=0)] if m else []
        rows_by_iter = [array_toks(a) for a in f.iter_array(axis=1)] if n and m else []
        for j in range(m):
            if cols_by_iter[j] != colt[j]:
                what = f'iter_array(0) column {j}: {cols_by_iter[j]} != {colt[j]}'
            s = f.iloc[:, j]
            if array_toks(s.values) != colt[j] or dtype_tok(s.dtype) != dtype_tok(f.dtypes.values[j]):
                what = f'iloc[:, {j}] {array_toks(s.values)} dtype {s.dtype} vs {colt[j]} {f.dtypes.values[j]}'
            for i in range(n):
                e = tok(f.iloc[i, j])
                if e != colt[j][i]:
                    what = f'iloc[{i},{j}] {e} != {colt[j][i]}'
                if not cell_equal(tok(vals[i, j]), colt[j][i]):
                    what = f'values[{i},{j}] {tok(vals[i, j])} != {colt[j][i]}'
                if rows_by_iter and not cell_equal(rows_by_iter[i][j], colt[j][i]):
                    what = f'iter_array(1) row {i} cell {j} {rows_by_iter[i][j]} != {colt[j][i]}'
        if what is None and m and n:
            pairs = f.to_pairs(0)
            for j, (lab, col) in enumerate(pairs):
                got = [tok(v) for _, v in col]
                if got != colt[j]:
                    what = f'to_pairs column {j} {got} != {colt[j]}'
            items = list(f.iter_element_items())
            if len(items) != n * m:
                what = 'iter_element_items length'
            rows = list(f.iter_series(axis=1))
            if len(rows) != n:
                what = 'iter_series(1) length'
            for i, t in enumerate(f.iter_tuple(axis=1, constructor=tuple)):
                for j, v in enumerate(t):
                    if not cell_equal(tok(v), colt[j][i]):
                        what = f'iter_tuple(1) row {i} cell {j} {tok(v)} != {colt[j][i]}'
    return what


def grow(c, blocks):
    """run the growth history of a coher case on the real TypeBlocks; returns (tb, outcome per call)"""
    import static_frame as sf
    n = c['spec']['rows']
    h = c.get('hist') or default_history(c, len(blocks))
    if h['init'] == 'zero':
        tb = sf.TypeBlocks.from_zero_size_shape((n, 0))
    elif h['init'] == 'single':
        tb = sf.TypeBlocks.from_blocks(blocks[0])
    else:
        tb = sf.TypeBlocks.from_blocks(blocks[i] for i in range(h['k0']))
    too_long = np.arange(n + 1, dtype=np.int64)
    outcomes = []
    for call in h['calls']:
        k = call[0]
        try:
            if k == 'a':
                tb.append(blocks[call[1]])
            elif k == 'e':
                tb.extend(blocks[i] for i in call[1])
            elif k == 't':
                tb.extend(sf.TypeBlocks.from_blocks(blocks[i] for i in call[1]))
            elif k == 'z':
                tb.append(np.empty((n, 0)))
            elif k == 'bad':
                tb.append(too_long)
            elif k == 'tbad':
                tb.extend(sf.TypeBlocks.from_zero_size_shape((n + 1, 0)))
            elif k == 'ebad':
                tb.extend((blocks[call[1]], too_long))
            else:
                raise ValueError(k)
            outcomes.append('ok')
        except Exception as ex:
            outcomes.append(err_cat(ex))
    return tb, outcomes


def caches_view(tb, outcomes):
    """the caches of a real TypeBlocks in the form of the driver's answer to tb.caches"""
    rd = 'N' if tb._row_dtype is None else dtype_tok(tb._row_dtype)
    return ('ok ((' + ' '.join(str(int(x)) for x in tb._shape) + ') ('
            + ' '.join(f'({int(b)} {int(i)})' for b, i in tb._index) + ') ('
            + ' '.join(dtype_tok(d) for d in tb._dtypes) + ') ' + rd + ' (' + ' '.join(outcomes) + '))')


def eval_coher(ctx, c, outs=()):
    import static_frame as sf
    fails = []
    clash = c.pop('_clash', False)
    spec = c['spec']
    f = gen.build_frame(spec)
    ctx.count('coherence_cases')
    what = coherence_of(f, spec)
    if what:
        fails.append(Failure('oracle', f'coherence: {what}', c))
    # the same blocks accumulated by a history of growth calls (what FrameGO does): the caches that are maintained
    # incrementally (shape, index, dtypes, row dtype) must describe the same frame
    blocks = gen.build_blocks(spec)
    h = c.get('hist') or default_history(c, len(blocks))
    tb, outcomes = grow(c, blocks)
    ctx.count('caches_histories')
    ctx.count(f'caches_init_{h["init"]}')
    for call in h['calls']:
        ctx.count(f'caches_call_{call[0]}')
    for o in set(outcomes) - {'ok'}:
        ctx.count(f'caches_call_raises_{o}')
    # Lean-independent reference: a recomputation from the final block list (from_blocks) gives the same shape /
    # directory / dtypes.  The ROW dtype is allowed to differ: append keeps `object` where from_blocks resolves
    # (int64 + float64 -> float64) - history dependence proved as SF.C03.row_dtype_history_differs, counted here.
    ref = sf.TypeBlocks.from_blocks(tb._blocks, shape_reference=tb._shape)
    if (tuple(tb._shape), [tuple(p) for p in tb._index], list(tb._dtypes)) != (tuple(ref._shape), [tuple(p) for p in ref._index], list(ref._dtypes)):
        fails.append(Failure('oracle', f'caches after history {h} differ from a recomputation: {caches_view(tb, outcomes)} vs {caches_view(ref, outcomes)}', c))
    if len(tb._blocks) != sum(1 for b in blocks if b.ndim == 1 or b.shape[1]):
        fails.append(Failure('oracle', f'history {h}: {len(tb._blocks)} blocks stored', c))
    if tb._row_dtype != ref._row_dtype:
        ctx.count('caches_row_dtype_history_dependent')
        ctx.count(f'caches_row_dtype_grown_{dtype_tok(tb._row_dtype)}_vs_at_once_{dtype_tok(ref._row_dtype)}')
    if tb._row_dtype is not None and len({b.dtype for b in tb._blocks}) == 1:
        ctx.count('caches_row_dtype_uniform')
        if tb._row_dtype != tb._blocks[0].dtype:
            fails.append(Failure('oracle', f'history {h}: all blocks have dtype {tb._blocks[0].dtype}, row dtype {tb._row_dtype}', c))
    if outs:
        real = caches_view(tb, outcomes)
        ctx.count('caches_model_compared')
        if outs[0] != real:
            fails.append(Failure('corr', f'caches after history {h} layout={spec["layout"]}: model {outs[0][:200]} vs real {real[:200]}', c))
    elif clash:
        ctx.count('caches_model_skipped_token_clash')
    if blocks and spec['rows']:
        g = sf.Frame(tb, index=f.index, columns=f.columns, own_data=True)
        ctx.count('coherence_grown_cases')
        what = coherence_of(g, spec)
        if what:
            fails.append(Failure('oracle', f'coherence of blocks accumulated by history {h}: {what}', c))
    return fails


def classify(f):
    return f.finding


def search(ctx):
    rng = ctx.rng('search')
    names = ops.catalogue_names()
    for i in range(30000):
        spec = gen.rand_frame_spec(rng, 4, 5, dtypes=gen.DTYPES_BASIC, index_kinds=('auto', 'int', 'str'), column_kinds=('auto', 'int', 'str'), min_cols=2, run_bias=0.7)
        lays = same_dtype_layouts(spec, rng)
        if len(lays) < 2:
            continue
        name = rng.choice(names)
        la, lb = rng.sample(lays, 2)
        yield {'k': 'layout', 'spec': spec, 'la': la, 'lb': lb, 'op': name, 'args': ops.rand_args(name, rng, spec)}
