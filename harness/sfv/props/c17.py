"""C17 - Bus and multi-table stores: faithful, lazy, bounded, stale-file safe.

A case is one *history*: a set of 1..6 frames written with a real store format, a Bus opened on the
file with some max_persist, and a list of operations (accesses of every key kind on every route,
items()/values, non-loading observers, derivations, file events).  After every step the real objects
(`_loaded`, `_last_accessed`, `_loaded_all`, `_series.values`, `status`, `Store._last_modified`, the
batches handed to `Store.read_many`) of *every* Bus alive are compared with

 (a) the Lean model's prediction (driver op `bus.run`; kind 'corr'), and
 (b) a Lean-independent oracle (kind 'oracle'): frames returned / held equal the frames written
     (strict labels / values / dtype kind; exact dtypes and index classes for pickle), a textbook
     LRU (OrderedDict) predicts the loaded set and the order of `_last_accessed`, loaded count
     <= max_persist, labels and their order never change, nothing is read that was not asked for
     or is already loaded, and every store read on a stale file raises StoreFileMutation.

'store' cases drive a bare Store object (open / read / labels / write / touch / rewrite / delete).
"""
from __future__ import annotations

import collections
import hashlib
import importlib
import itertools
import json
import math
import os
import shutil
import tempfile
import time

import numpy as np

from check import Failure
from sfv import gen
from sfv.canon import tok, err_cat, dtype_tok, array_toks
from sfv.props import c17_busgen as bgen      # Bus._update_series_cache_iloc translated from the source (py2lean_bus)

TARGETS = ['SFModel.Props.C17'] + bgen.TARGETS
THEOREMS = [
    'SF.C17.bus_inv', 'SF.C17.bus_inv_reach', 'SF.C17.bus_lru', 'SF.C17.bus_lru_hit', 'SF.C17.bus_faithful',
    'SF.C17.bus_faithful_step', 'SF.C17.reader_reads_eager', 'SF.C17.bus_faithful_pinned_reader_counterexample', 'SF.C17.bus_element_is_frame', 'SF.C17.bus_values_frames',
    'SF.C17.bus_no_internal_error', 'SF.C17.bus_derive', 'SF.C17.bus_labels_fixed',
    'SF.C17.bus_bound_after_failed_read_pinned_counterexample', 'SF.C17.bus_sort_values_counterexample',
    'SF.C17.store_reader_batches_flatten', 'SF.C17.store_reader_batch_size',
    'SF.C17.store_stale', 'SF.C17.bus_stale_raises', 'SF.C17.store_stale_iff', 'SF.C17.store_write_current', 'SF.C17.store_open_current',
] + bgen.THEOREMS
PARTIAL = [
    'mtime granularity (a rewrite within one clock tick), concurrent writers and the serialisers of the formats are not modelled (the store is a function label -> frame)',
] + bgen.PARTIAL
CORR_ONLY = [
    'label -> position translation of loc / getitem keys (Index._loc_to_iloc) is done by the harness; the model takes the iloc key',
    'write/read faithfulness of zip-pickle, zip-csv, zip-tsv, sqlite (frames written vs frames read, every run)',
    'status / shapes / iteration / keys / len / contains do not change the state and report the loaded flags',
] + bgen.CORR_ONLY
RULE = ('seeded random histories: 1..6 frames (pickle: every dtype / index kind of sfv.gen; csv, tsv, sqlite: int/float/bool/str columns, '
        'auto / str / int / depth-2 hierarchical row index), formats zip_pickle, zip_csv, zip_tsv, sqlite (xlsx, hdf5, zip_parquet when importable, '
        'else counted as skipped), StoreConfig given as per-label map / single config / map with default, max_persist in {None, 1..n}, up to 12 ops '
        '(int / list / slice / mask / null-slice / label-slice keys through iloc, loc, getitem, head, tail; items(); values; get; iter_element; status etc.; '
        'drop, reindex, sort_index, sort_values; os.utime to a new or to the recorded mtime, rewrite, delete, write through the store, labels()); '
        'thorough adds every history of length 4 over 3 labels (single labels, ordered pairs, null slice) for max_persist None,1,2,3; '
        'non-trivial = at least one loading access on a non-empty Bus; distinct = distinct canonical case JSON')
TRUSTED = ['harness reference LRU (collections.OrderedDict) and the snapshot comparison of frames',
           'os.utime / os.stat report the mtime the library sees through os.path.getmtime'] + bgen.TRUSTED
ASSUMPTIONS = ['file events change the mtime to a different value (2 s apart); a rewrite that keeps the recorded mtime is indistinguishable by design',
               'single-threaded use: the file cannot change between two reads of one access']
BUDGET = {'quick': 60, 'thorough': 700}

F41 = 'F61-bus-sort-values-max-persist'
F42 = 'F62-bus-placeholder-from-get-iter-element'
F43 = 'F63-sqlite-integer-index-row-order'
TAGS = {'sortv': F41, 'placeholder': F42, 'sqlite_order': F43}

FMT_CORE = ['zip_pickle', 'zip_csv', 'zip_tsv', 'sqlite']
FMT_OPTIONAL = {'xlsx': ('openpyxl', 'xlsxwriter'), 'hdf5': ('tables',), 'zip_parquet': ('pyarrow',)}
EXT = {'zip_pickle': '.zip', 'zip_csv': '.zip', 'zip_tsv': '.zip', 'zip_parquet': '.zip', 'sqlite': '.sqlite', 'xlsx': '.xlsx', 'hdf5': '.hdf5'}
NAME_POOL = ['a', 'b', 'c', 'd', 'e', 'f', 'g', 'zz', 'ab', 'Hx', 'x1', 'Q',  # distinct ignoring case (SQLite table names)
             # labels holding the text of a contained-file extension (the zip stores append one to the label, finding F77)
             'x.csv.y', 'p.txt', '.pickle', 'w.pickle.v', 'n.csv', 't.txt.u']
BASE_NS = 1_500_000_000 * 10 ** 9

_STATE = {}


def optional_available():
    if 'opt' not in _STATE:
        out = {}
        for fmt, mods in FMT_OPTIONAL.items():
            ok = True
            for m in mods:
                try:
                    importlib.import_module(m)
                except Exception:
                    ok = False
            out[fmt] = ok
        _STATE['opt'] = out
    return _STATE['opt']


def tmpdir():
    if 'tmp' not in _STATE:
        _STATE['tmp'] = tempfile.TemporaryDirectory(prefix='sfv_c17_', dir=os.environ.get('TMPDIR') or None)
        _STATE['n'] = 0
    return _STATE['tmp'].name


def pinned_reader_variant():
    """Behavioural probe of Bus._store_reader (max_persist == 1): which StoreConfig does the store get?
    False = the label's (the code: `config[label]`); True = the map's default (historical reader of the pinned
    tree, `config[labels]`, repaired in /repo).  The model is run with the variant in force; with the historical
    reader the oracle reports the wrong frames as unlisted violations (F10 is no longer a known finding)."""
    if 'pinned' not in _STATE:
        import static_frame as sf
        from static_frame.core.store import StoreConfig, StoreConfigMap
        own, dflt = StoreConfig(index_depth=2), StoreConfig(index_depth=1)
        cm = StoreConfigMap({'a': own}, default=dflt)

        class Probe:
            def read(self, label, config=None, **kw):
                return config

            def read_many(self, labels, config=None, **kw):
                for l in labels:
                    yield config[l] if isinstance(config, StoreConfigMap) else config
        got = list(sf.Bus._store_reader(store=Probe(), config=cm, labels=iter(['a']), max_persist=1))
        _STATE['pinned'] = got[0] is not own
    return _STATE['pinned']


# ------------------------------------------------------------------ frames
def rand_safe_frame(rng, name, k, depth_kind, fmt):
    rows = rng.randint(1, 4)
    ncols = rng.randint(1, 3)  # a one-column CSV without index column does not import (Frame.from_csv IndexError: C16 territory)
    names = rng.sample(['ca', 'cb', 'cc', 'cd', 'ce'], ncols)
    cols = [['id', 'int64', [k * 100 + i for i in range(rows)]]]
    for nm in names:
        dt = rng.choice(['int64', 'float64', 'bool', 'str'])
        if dt == 'int64':
            v = [rng.choice([0, 1, -1, 7, 2 ** 40, -300, rng.randint(-50, 50)]) for _ in range(rows)]
        elif dt == 'float64':
            v = [rng.choice([0.5, -2.25, 1e10, 3.75, -0.125, 100.5, rng.randint(-9, 9) + 0.5]) for _ in range(rows)]
        elif dt == 'bool':
            v = [bool(rng.randint(0, 1)) for _ in range(rows)]
        else:
            v = [rng.choice(['ab', 'xyz', 'q', 'Hello', 'zz', 'abcdef']) for _ in range(rows)]
        cols.append([nm, dt, v])
    if depth_kind == 'auto':
        idx = ['auto']
    elif depth_kind == 'str':
        idx = ['str', rng.sample(['p', 'q', 'r', 's', 't', 'u', 'vv'], rows)]
    elif depth_kind == 'int':
        labs = rng.sample(range(-5, 40), rows)
        if rng.random() < 0.6:
            labs.sort()
        idx = ['int', labs]
    else:
        pairs = rng.sample([[a, b] for a in ('a', 'b', 'c') for b in (1, 2, 3)], rows)
        pairs.sort()
        idx = ['ih', pairs]
    return {'name': name, 'safe': 1, 'idx': idx, 'cols': cols}


def frame_depth(spec):
    if spec.get('safe'):
        return {'auto': 0, 'str': 1, 'int': 1, 'ih': 2}[spec['idx'][0]]
    return None


def build_frame(spec):
    import static_frame as sf
    if not spec.get('safe'):
        return gen.build_frame(spec['spec']).rename(spec['name'])
    kind = spec['idx'][0]
    if kind == 'auto':
        idx = None
    elif kind == 'ih':
        idx = sf.IndexHierarchy.from_labels([tuple(x) for x in spec['idx'][1]])
    else:
        idx = sf.Index(spec['idx'][1])
    items = []
    for nm, dt, v in spec['cols']:
        items.append((nm, np.array(v) if dt == 'str' else np.array(v, dtype=dt)))
    return sf.Frame.from_items(items, index=idx, name=spec['name'])


def snap(f, strict):
    cols = []
    for j in range(f.shape[1]):
        a = f._blocks._extract_array(column_key=j)
        cols.append((dtype_tok(a.dtype) if strict else a.dtype.kind, tuple(array_toks(a))))
    out = (tuple(tok(x) for x in f.index), tuple(tok(x) for x in f.columns), tuple(cols), tok(f.name), tuple(f.shape))
    if strict:
        out += (type(f.index).__name__, type(f.columns).__name__, tok(f.index.name), tok(f.columns.name), type(f).__name__)
    return out


def snap_rows_sorted(f):
    """rows re-ordered by ascending index label (to recognise the sqlite integer primary key ordering)"""
    order = np.argsort(np.array(list(f.index)), kind='stable')
    return snap(f.iloc[order.tolist()], False)


# ------------------------------------------------------------------ configs
def make_config(case):
    """Returns (config object handed to the library, {label: effective read index_depth}, default read index_depth)."""
    from static_frame.core.store import StoreConfig, StoreConfigMap
    cfg = case['cfg']
    mode = cfg['mode']
    if mode == 'none':
        return None, {}, 0

    def sc(d):
        return StoreConfig(index_depth=d, columns_depth=1, include_index=d > 0, include_columns=True)
    depth = {s['name']: frame_depth(s) for s in case['frames']}
    if mode == 'single':
        d = cfg['default_depth']
        return sc(d), {n: d for n in depth}, d
    if mode == 'map':
        m = {n: sc(d) for n, d in depth.items()}
        return (m if cfg.get('as_dict') else StoreConfigMap(m)), dict(depth), 0
    if mode == 'mapdef':
        d0 = cfg['default_depth']
        m = {n: sc(depth[n]) for n in cfg['in_map']}
        return StoreConfigMap(m, default=sc(d0)), {n: (depth[n] if n in cfg['in_map'] else d0) for n in depth}, d0
    raise ValueError(mode)


# ------------------------------------------------------------------ keys
def ref_positions(key, n):
    """Python reference for the positions of an iloc key: list or ('err', cat)."""
    k = key[0]
    if k == 'all':
        return list(range(n))
    if k == 'int':
        i = key[1]
        return [i % n] if (n and -n <= i < n) else ('err', 'lookup')
    if k == 'sl':
        if key[3] == 0:
            return ('err', 'value')
        return list(range(n))[slice(key[1], key[2], key[3])]
    if k == 'lsl':
        a, b, st = key[1], key[2], key[3]
        return list(range(n))[slice(a, None if b is None else b + 1, st)]
    if k == 'list':
        out = []
        for i in key[1:]:
            if not -n <= i < n:
                return ('err', 'lookup')
            out.append(i % n)
        if len(set(out)) != len(out):
            return ('err', 'nonUnique')
        return out
    if k == 'mask':
        if len(key) - 1 != n:
            return ('err', 'lookup')
        return [i for i, b in enumerate(key[1:]) if b]
    raise ValueError(key)


def iloc_form(key):
    if key[0] == 'lsl':
        return ['sl', key[1], None if key[2] is None else key[2] + 1, key[3]]
    return key


def is_multi(key):
    return key[0] != 'int'


def rand_acc_key(rng, n):
    r = rng.random()
    if r < 0.40:
        if n == 0 or rng.random() < 0.03:
            return ['int', rng.choice([n, -n - 1])]
        return ['int', rng.randint(-n, n - 1)]
    if r < 0.62:
        if n == 0:
            return ['list']
        ln = rng.randint(0, n)
        ps = rng.sample(range(n), ln)
        if ln and rng.random() < 0.04:
            ps.append(ps[0])  # repeated position: must be refused without changing anything
        return ['list'] + [p if rng.random() < 0.8 else p - n for p in ps]
    if r < 0.74:
        return gen.rand_slice(rng, n)
    if r < 0.84:
        if n == 0:
            return ['all']   # (NumPy accepts a zero-length Boolean key on any axis length)
        return ['mask'] + [rng.randint(0, 1) for _ in range(n)]
    if r < 0.90:
        return ['all']
    if n == 0:
        return ['all']
    a = rng.choice([None, rng.randrange(n)])
    b = rng.choice([None, rng.randrange(n)])
    return ['lsl', a, b, rng.choice([None, None, 1, 2])]


def label_key(key, labels):
    """label form of a key for loc / getitem, or None when the key has none on this Bus"""
    n = len(labels)
    k = key[0]
    if k == 'all':
        return slice(None)
    if k == 'int':
        return labels[key[1]] if (n and -n <= key[1] < n) else None
    if k == 'list':
        if all(-n <= i < n for i in key[1:]) and n:
            return [labels[i] for i in key[1:]]
        return None
    if k == 'mask':
        return np.array([bool(b) for b in key[1:]], dtype=bool)
    if k == 'lsl':
        a, b, st = key[1], key[2], key[3]
        if (a is not None and not 0 <= a < n) or (b is not None and not 0 <= b < n):
            return None
        return slice(None if a is None else labels[a], None if b is None else labels[b], st)
    return None


def key_wire(key):
    return gen.key_to_wire(iloc_form(key))


# ------------------------------------------------------------------ case generation
def rand_frames(rng, fmt, count):
    names = rng.sample(NAME_POOL, count)
    frames = []
    if fmt == 'zip_pickle':
        for nm in names:
            spec = gen.rand_frame_spec(rng, 4, 4, dtypes=gen.DTYPES_ALL if rng.random() < 0.5 else gen.DTYPES_BASIC,
                                       index_kinds=('auto', 'int', 'str', 'date', 'ih'), column_kinds=('auto', 'int', 'str', 'ih'))
            frames.append({'name': nm, 'spec': spec})
        return frames, {'mode': 'none'}
    mode = rng.choice(['map', 'map', 'single', 'mapdef'])
    kinds = ['auto', 'str', 'int', 'ih']
    if mode == 'single':
        kd = rng.choice(kinds)
        dk = [kd if kd != 'str' else rng.choice(['str', 'int']) for _ in names]
    else:
        dk = [rng.choice(kinds) for _ in names]
    for k, (nm, d) in enumerate(zip(names, dk)):
        frames.append(rand_safe_frame(rng, nm, k + 1, d, fmt))
    cfg = {'mode': mode}
    if mode == 'single':
        cfg['default_depth'] = frame_depth(frames[0])
    elif mode == 'map':
        cfg['as_dict'] = rng.random() < 0.3
    else:
        cfg['default_depth'] = frame_depth(rng.choice(frames))
        if cfg['default_depth'] == 1 and any(frame_depth(f) == 2 for f in frames):
            cfg['default_depth'] = 0   # a depth-2 index read with index_depth=1 has repeated labels: the read itself would raise
        cfg['in_map'] = [f['name'] for f in frames if frame_depth(f) != cfg['default_depth'] or rng.random() < 0.4]
    return frames, cfg


def rand_ops(rng, n, mp, length, p_event):
    sizes = [n]
    ops = []
    tnext = 2
    recorded = 1
    for _ in range(length):
        b = rng.randrange(len(sizes))
        m = sizes[b]
        r = rng.random()
        if r < p_event:
            e = rng.random()
            if e < 0.30:
                ops.append(['touch', tnext]); tnext += 1
            elif e < 0.50:
                ops.append(['touch', recorded])       # back to the recorded mtime
            elif e < 0.62:
                ops.append(['rewrite', tnext]); tnext += 1
            elif e < 0.72:
                ops.append(['rewrite', recorded])
            elif e < 0.84:
                ops.append(['delete'])
            elif e < 0.92:
                ops.append(['swrite', tnext]); recorded = tnext; tnext += 1
            else:
                ops.append(['slabels'])
            continue
        r = rng.random()
        if r < 0.55:
            key = rand_acc_key(rng, m)
            route = rng.choice(['iloc', 'iloc', 'loc', 'getitem'])
            if key[0] == 'sl':
                route = 'iloc'
            if key[0] == 'lsl' and route == 'iloc':
                route = 'loc'
            ops.append(['acc', b, route, key])
            ps = ref_positions(key, m)
            if is_multi(key) and not isinstance(ps, tuple):
                sizes.append(len(ps))
        elif r < 0.60:
            cnt = rng.randint(0, m + 1)
            if rng.random() < 0.5:
                ops.append(['acc', b, 'head', ['sl', None, cnt, None]])
                sizes.append(min(cnt, m))
            else:
                ops.append(['acc', b, 'tail', ['sl', -cnt, None, None]])
                sizes.append(m if cnt == 0 else min(cnt, m))
        elif r < 0.70:
            ops.append(['vals', b, rng.choice(['items', 'values'])])
        elif r < 0.74:
            ops.append(['get', b, rng.randrange(max(m, 1))] if rng.random() < 0.6 else ['raw', b])
        elif r < 0.81:
            ops.append(['peek', b, rng.choice(['status', 'iter', 'keys', 'len', 'contains', 'shapes', 'nbytes', 'repr', 'reversed'])])
        elif r < 0.87:
            key = rand_acc_key(rng, m)
            if key[0] == 'lsl':
                key = iloc_form(key)
            ops.append(['drop', b, rng.choice(['iloc', 'loc']), key])
            ps = ref_positions(key, m)
            if not isinstance(ps, tuple):
                sizes.append(m - len(set(ps)))
        elif r < 0.92:
            ps = rng.sample(range(m), rng.randint(0, m)) if m else []
            ops.append(['reindex', b, ps])
            sizes.append(len(ps))
        elif r < 0.97:
            ops.append(['sort', b, rng.randint(0, 1)])
            sizes.append(m)
        else:
            ops.append(['sortv', b, rng.randint(0, 1)])
            sizes.append(m)
    return ops


def rand_case(rng, fmts):
    fmt = rng.choice(fmts)
    n = rng.choice([1, 2, 3, 3, 4, 4, 5, 6])
    frames, cfg = rand_frames(rng, fmt, n)
    mp = rng.choice([None] + list(range(1, n + 1)) + [1, 2][:n])
    length = rng.randint(3, 12)
    p_event = rng.choice([0.0, 0.0, 0.12, 0.2])
    return {'k': 'hist', 'fmt': fmt, 'frames': frames, 'cfg': cfg, 'mp': mp, 'ops': rand_ops(rng, n, mp, length, p_event), 'n': n}


def rand_store_case(rng, fmts):
    fmt = rng.choice(fmts)
    frames, cfg = rand_frames(rng, fmt, rng.randint(1, 3))
    ops = []
    exists = rng.random() < 0.7
    t = 2
    ops.append(['open'])
    if not exists and (fmt == 'sqlite' or rng.random() < 0.6):
        # (reading a missing SQLite file would create an empty database: not a state of the model)
        ops.append(['write', t]); t += 1
    for _ in range(rng.randint(2, 8)):
        r = rng.random()
        if r < 0.3:
            ops.append(['read'])
        elif r < 0.4:
            ops.append(['labels'])
        elif r < 0.55:
            ops.append(['write', t]); t += 1
        elif r < 0.7:
            ops.append(['touch', t]); t += 1
        elif r < 0.8:
            ops.append(['rewrite', t]); t += 1
        elif r < 0.9:
            ops.append(['delete'])
        else:
            ops.append(['open'])
    ops.append(['read'])
    return {'k': 'store', 'fmt': fmt, 'frames': frames, 'cfg': cfg, 'exists': exists, 'ops': ops}


def scripted_cases(fmts):
    """Hand-made boundary histories (evictions at capacity, partially loaded selections, events at each point)."""
    out = []
    rng = __import__('random').Random('c17-scripted')
    for fmt in fmts:
        for mp in (None, 1, 2, 3, 4):
            frames, cfg = rand_frames(rng, fmt, 4)
            base = {'k': 'hist', 'fmt': fmt, 'frames': frames, 'cfg': cfg, 'mp': mp, 'n': 4}
            hs = [
                [['acc', 0, 'iloc', ['int', 0]], ['acc', 0, 'iloc', ['int', 1]], ['acc', 0, 'iloc', ['int', 0]], ['acc', 0, 'iloc', ['int', 2]],
                 ['acc', 0, 'iloc', ['int', 3]], ['peek', 0, 'status'], ['acc', 0, 'getitem', ['list', 0, 1]], ['vals', 0, 'items']],
                [['acc', 0, 'iloc', ['all']], ['acc', 1, 'iloc', ['int', 0]], ['acc', 0, 'loc', ['list', 3, 0]], ['acc', 0, 'iloc', ['sl', None, None, -1]],
                 ['acc', 2, 'iloc', ['int', 1]], ['vals', 0, 'values'], ['sort', 0, 0], ['acc', 5, 'iloc', ['int', 0]]],
                [['acc', 0, 'iloc', ['int', 1]], ['touch', 2], ['acc', 0, 'iloc', ['int', 1]], ['acc', 0, 'iloc', ['int', 2]], ['acc', 0, 'getitem', ['list', 1, 2]],
                 ['slabels'], ['touch', 1], ['acc', 0, 'iloc', ['int', 2]], ['slabels']],
                [['acc', 0, 'iloc', ['list', 0, 1]], ['delete'], ['acc', 0, 'iloc', ['int', 0]], ['acc', 0, 'iloc', ['int', 3]], ['vals', 0, 'items'], ['rewrite', 1],
                 ['acc', 0, 'iloc', ['int', 3]]],
                [['acc', 0, 'iloc', ['int', 0]], ['swrite', 2], ['acc', 0, 'iloc', ['int', 1]], ['touch', 3], ['acc', 0, 'loc', ['lsl', 1, 3, None]], ['touch', 2],
                 ['acc', 0, 'loc', ['lsl', 1, 3, None]], ['rewrite', 5], ['vals', 0, 'values']],
                [['touch', 2], ['acc', 0, 'iloc', ['int', 2]], ['touch', 1], ['acc', 0, 'iloc', ['int', 0]], ['acc', 0, 'iloc', ['int', 1]], ['acc', 0, 'iloc', ['int', 3]],
                 ['peek', 0, 'status'], ['acc', 0, 'iloc', ['all']], ['acc', 0, 'iloc', ['int', 2]]],
                [['drop', 0, 'iloc', ['int', 0]], ['acc', 1, 'iloc', ['all']], ['reindex', 0, [3, 1]], ['acc', 2, 'iloc', ['int', 0]], ['sortv', 0, 1], ['get', 0, 2], ['raw', 0]],
            ]
            for ops in hs:
                out.append(dict(base, ops=ops))
    return out


def exhaustive_cases(fmt='zip_pickle'):
    """Every access history of length 4 over 3 labels (single label, ordered pair, null slice) x max_persist."""
    rng = __import__('random').Random('c17-exhaustive')
    frames, cfg = rand_frames(rng, fmt, 3)
    alphabet = [['int', i] for i in range(3)] + [['list', i, j] for i in range(3) for j in range(3) if i != j] + [['all']]
    for mp in (None, 1, 2, 3):
        for hist in itertools.product(alphabet, repeat=4):
            yield {'k': 'hist', 'fmt': fmt, 'frames': frames, 'cfg': cfg, 'mp': mp, 'n': 3, 'x': 1,
                   'ops': [['acc', 0, 'iloc', list(k)] for k in hist]}


def formats(ctx=None):
    opt = optional_available()
    fmts = list(FMT_CORE) + [f for f, ok in opt.items() if ok]
    if ctx is not None:
        for f, ok in opt.items():
            if not ok:
                ctx.count(f'skipped_format_{f}_library_missing')
    return fmts


def cases(ctx):
    rng = ctx.rng('main')
    quick = ctx.tier == 'quick'
    fmts = formats(ctx)
    yield from bgen.cases(ctx)      # translated cache update vs the real Bus (grid) + the primitives of the translation
    for c in scripted_cases(fmts):
        yield c
    for _ in range(80 if quick else 600):
        yield rand_store_case(rng, fmts)
    for _ in range(700 if quick else 6000):
        yield rand_case(rng, fmts)
    # labels that are not their own file / table names (encoder) with one configuration per label
    erng = ctx.rng('enc')
    for _ in range(60 if quick else 600):
        yield rand_enc_case(erng, [f for f in fmts if f in ('zip_csv', 'zip_tsv', 'zip_pickle', 'sqlite')])
    if not quick:
        for c in exhaustive_cases('zip_pickle'):
            yield c
        for i, c in enumerate(exhaustive_cases('zip_csv')):
            if i % 7 == 0:
                yield c


def rand_enc_case(rng, fmts):
    fmt = rng.choice(fmts)
    n = rng.randint(2, 4)
    lkind = rng.choice(['int', 'tuple', 'date'])
    if lkind == 'int':
        labels = rng.sample(range(1, 40), n)
    elif lkind == 'tuple':
        labels = [list(t) for t in rng.sample([(a, b) for a in ('a', 'b', 'c') for b in (1, 2, 3)], n)]
    else:
        labels = sorted(rng.sample(range(1, 28), n))
    frames = [rand_safe_frame(rng, f'f{k}', k + 1, rng.choice(['auto', 'str', 'int', 'auto']), fmt) for k in range(n)]
    return {'k': 'enc', 'fmt': fmt, 'lkind': lkind, 'labels': labels, 'frames': frames, 'n': n,
            'default_depth': rng.choice([0, 1]), 'in_map': [rng.random() < 0.7 for _ in range(n)],
            'route': rng.choice(['bus', 'store'])}


def eval_enc(ctx, c):
    """write a Bus whose labels need an encoder, one StoreConfig per label (index written or not); every label must come
    back, in order, with the frame that was written under it, through a lazy Bus and through the store itself"""
    import datetime
    import static_frame as sf
    from static_frame.core.store import StoreConfig, StoreConfigMap
    fails = []
    fmt, lkind = c['fmt'], c['lkind']
    ctx.count(f'enc_{fmt}_{lkind}')
    if lkind == 'int':
        labels = list(c['labels']); dec = int
    elif lkind == 'tuple':
        labels = [tuple(x) for x in c['labels']]
        dec = lambda s: (s.split('|')[0], int(s.split('|')[1]))
    else:
        labels = [datetime.date(2021, 3, d) for d in c['labels']]
        dec = lambda s: datetime.date.fromisoformat(s)
    enc = (lambda l: f'{l[0]}|{l[1]}') if lkind == 'tuple' else str
    shared = dict(label_encoder=enc, label_decoder=dec)
    frames = [build_frame(spec) for spec in c['frames']]
    depth = [frame_depth(spec) for spec in c['frames']]

    def sc(d):
        return StoreConfig(index_depth=d, columns_depth=1, include_index=d > 0, include_columns=True, **shared)
    d0 = c['default_depth']
    in_map = [m or depth[i] != d0 for i, m in enumerate(c['in_map'])]
    config = StoreConfigMap({l: sc(depth[i]) for i, l in enumerate(labels) if in_map[i]}, default=sc(d0))
    desc = f'{fmt} labels={labels!r} depths={depth} default_depth={d0} in_map={in_map}'
    strict = fmt == 'zip_pickle'
    bus = sf.Bus.from_items(list(zip(labels, frames)))
    d = tmpdir()
    fp = os.path.join(d, f'enc_{abs(hash(repr(c))) % 10 ** 9}{EXT[fmt]}')
    try:
        getattr(bus, 'to_' + fmt)(fp, config=config)
        if c['route'] == 'bus':
            back = getattr(sf.Bus, 'from_' + fmt)(fp, config=config)
            got_labels = list(back.index)
            got = [back[l] for l in labels] if got_labels == labels else None
        else:
            from static_frame.core import store_zip, store_sqlite
            cls = {'zip_csv': store_zip.StoreZipCSV, 'zip_tsv': store_zip.StoreZipTSV, 'zip_pickle': store_zip.StoreZipPickle,
                   'sqlite': store_sqlite.StoreSQLite}[fmt]
            st = cls(fp)
            got_labels = list(st.labels(config=config))
            got = list(st.read_many(labels, config=config)) if got_labels == labels else None
    except Exception as ex:
        return [Failure('oracle', f'encoded-label round trip {desc} raised {type(ex).__name__}: {str(ex)[:160]}', c, detail={'exc': type(ex).__name__})]
    finally:
        try:
            os.remove(fp)
        except OSError:
            pass
    if got is None:
        return [Failure('oracle', f'encoded-label round trip {desc}: labels read back {got_labels!r}', c)]
    for l, f0, f1 in zip(labels, frames, got):
        a, b = snap(f0, strict), snap(f1.rename(f0.name) if not strict else f1, strict)
        if fmt == 'sqlite' and a != b and snap_rows_sorted(f0) == snap_rows_sorted(f1.rename(f0.name)):
            ctx.count('enc_sqlite_row_order_F63')
            continue
        if a[0] != b[0] or a[1] != b[1] or a[4] != b[4] or [x[1] for x in a[2]] != [x[1] for x in b[2]]:
            fails.append(Failure('oracle', f'encoded-label round trip {desc}: frame under {l!r} came back with index {b[0]} columns {b[1]} shape {b[4]}; written index {a[0]} columns {a[1]} shape {a[4]}', c))
            break
    return fails


def search(ctx):
    rng = ctx.rng('search')
    fmts = formats()
    yield from bgen.search(ctx)
    for _ in range(20000):
        yield rand_case(rng, fmts)


def nontrivial(c):
    if c['k'] in ('bgrid', 'bsem'):
        return bgen.nontrivial(c)
    if c['k'] == 'enc':
        return True
    if c['k'] == 'store':
        return any(o[0] in ('read', 'labels') for o in c['ops'])
    return c['n'] > 0 and any(o[0] in ('acc', 'vals') for o in c['ops'])


# ------------------------------------------------------------------ model lines
def ids_of(case):
    names = [f['name'] for f in case['frames']]
    rank = {n: i for i, n in enumerate(sorted(names))}
    return names, rank


def model_lines(c):
    if c['k'] in ('bgrid', 'bsem'):
        return bgen.model_lines(c)
    if c['k'] == 'enc':
        return []
    if c['k'] == 'store':
        ops = []
        for o in c['ops']:
            if o[0] in ('read', 'labels'):
                ops.append('(read)')
            elif o[0] in ('write', 'touch', 'rewrite'):
                ops.append(f'({o[0]} {o[1]})')
            else:
                ops.append(f'({o[0]})')
        return [f'store.run {"1" if c["exists"] else "N"} ({" ".join(ops)})']
    names, rank = ids_of(c)
    ops = []
    for o in c['ops']:
        k = o[0]
        if k == 'acc':
            ops.append(f'(acc {o[1]} {key_wire(o[3])})')
        elif k == 'vals':
            ops.append(f'(vals {o[1]})')
        elif k == 'raw':
            ops.append(f'(raw {o[1]})')
        elif k == 'get':
            ops.append(f'(get {o[1]} {o[2]})')
        elif k == 'peek':
            ops.append(f'(peek {o[1]})')
        elif k == 'drop':
            ops.append(f'(drop {o[1]} {key_wire(o[3])})')
        elif k == 'reindex':
            ops.append(f'(sel {o[1]} ({" ".join(str(p) for p in o[2])}))')
        elif k in ('sort', 'sortv'):
            ops.append(f'({k} {o[1]} {o[2]})')
        elif k in ('touch', 'rewrite', 'swrite'):
            ops.append(f'({k} {o[1]})')
        elif k in ('delete', 'slabels'):
            ops.append(f'({k})')
        else:
            raise ValueError(o)
    mp = 'N' if c['mp'] is None else str(c['mp'])
    gk = 1 if pinned_reader_variant() else 0
    return [f'bus.run {mp} {gk} ({" ".join(str(rank[n]) for n in names)}) ({" ".join(ops)})']


def parse_sexp(s):
    toks = s.replace('(', ' ( ').replace(')', ' ) ').split()
    stack = [[]]
    for t in toks:
        if t == '(':
            stack.append([])
        elif t == ')':
            top = stack.pop()
            stack[-1].append(top)
        else:
            stack[-1].append(t)
    return stack[0]


# ------------------------------------------------------------------ store files
class Files:
    """the store file of one case: pristine master copy + working copy with controlled mtimes"""

    def __init__(self, case, frames, cfgobj):
        import static_frame as sf
        d = tmpdir()
        key = hashlib.sha1(json.dumps([case['fmt'], case['frames'], case['cfg']], sort_keys=True, default=str).encode()).hexdigest()[:16]
        ext = EXT[case['fmt']]
        self.master = os.path.join(d, f'm_{key}{ext}')
        if not os.path.exists(self.master):
            getattr(sf.Bus.from_frames(frames), 'to_' + case['fmt'])(self.master, config=cfgobj)
        _STATE['n'] += 1
        self.fp = os.path.join(d, f'w_{_STATE["n"]}{ext}')
        self.fmap = {}   # logical time -> float mtime as os.path.getmtime reports it
        self.nsmap = {}  # logical time -> ns

    def ns(self, t):
        # distinct logical times give distinct mtimes 2 s apart, in scrambled order (a touch may go back in time)
        return self.nsmap.get(t, BASE_NS + ((t * 37) % 101) * 2 * 10 ** 9 + (t // 101) * 300 * 10 ** 9)

    def create(self, t=1):
        shutil.copyfile(self.master, self.fp)
        self.utime(t)

    def utime(self, t):
        ns = self.ns(t)
        os.utime(self.fp, ns=(ns, ns))
        self.nsmap[t] = ns
        self.fmap[t] = os.path.getmtime(self.fp)

    def register_now(self, t):
        ns = os.stat(self.fp).st_mtime_ns
        self.nsmap[t] = ns
        self.fmap[t] = os.path.getmtime(self.fp)

    def exists(self):
        return os.path.exists(self.fp)

    def mtime(self):
        return os.path.getmtime(self.fp) if self.exists() else None

    def logical(self, fl):
        """logical time of a float mtime (None when unknown)"""
        for t, v in self.fmap.items():
            if v == fl:
                return t
        return None

    def cleanup(self):
        try:
            os.remove(self.fp)
        except FileNotFoundError:
            pass


def logged_store_class(cls, log):
    if ('logged', cls) not in _STATE:
        class Logged(cls):
            __slots__ = ()
            LOG = None

            def read_many(self, labels, **kw):
                labels = list(labels)
                if type(self).LOG is not None:
                    type(self).LOG.append(labels)
                return cls.read_many(self, labels, **kw)
        Logged.__name__ = cls.__name__ + 'Logged'
        _STATE[('logged', cls)] = Logged
    L = _STATE[('logged', cls)]
    L.LOG = log
    return L


# ------------------------------------------------------------------ evaluation of store cases
def eval_store(ctx, c, outs):
    import static_frame as sf
    from static_frame.core.exception import StoreFileMutation
    fails = []
    frames = [build_frame(s) for s in c['frames']]
    cfgobj, _, _ = make_config(c)
    files = Files(c, frames, cfgobj)
    store_cls = {'zip_pickle': 'StoreZipPickle', 'zip_csv': 'StoreZipCSV', 'zip_tsv': 'StoreZipTSV', 'sqlite': 'StoreSQLite',
                 'xlsx': 'StoreXLSX', 'hdf5': 'StoreHDF5', 'zip_parquet': 'StoreZipParquet'}[c['fmt']]
    mod = {'sqlite': 'store_sqlite', 'xlsx': 'store_xlsx', 'hdf5': 'store_hdf5'}.get(c['fmt'], 'store_zip')
    cls = getattr(importlib.import_module(f'static_frame.core.{mod}'), store_cls)
    strict = c['fmt'] == 'zip_pickle'
    written = {f.name: snap(f, strict) for f in frames}
    names = [f.name for f in frames]
    if c['exists']:
        files.create(1)
    model = parse_sexp(outs[0][3:])[0] if outs and outs[0].startswith('ok ') else None
    if outs and model is None:
        fails.append(Failure('corr', f'store.run answered {outs[0][:80]}', c))
    store = None
    recorded = float('nan')  # oracle: mtime when this object last opened / wrote the file
    try:
        for i, o in enumerate(c['ops']):
            k = o[0]
            ctx.count(f'store_op_{k}')
            status = 'ok'
            if k == 'open' or store is None:
                store = cls(files.fp)
                recorded = files.mtime() if files.exists() else float('nan')
            if k in ('read', 'labels') and c['fmt'] == 'sqlite' and not files.exists() and math.isnan(recorded):
                # sqlite3.connect would create an empty database at the path (labels() == [], read: no such table):
                # not a state of the model; nothing of the property is at stake
                ctx.count('store_sqlite_read_of_missing_file_skipped')
                continue
            if k == 'read' or k == 'labels':
                exists = files.exists()
                stale = (exists and files.mtime() != recorded) or (not exists and not math.isnan(recorded))
                try:
                    if k == 'read':
                        got = list(store.read_many(names, config=cfgobj))
                        bad = [f.name for f in got if _verdict_snap(f, written, strict, c) not in ('W', 'S')]
                        if [f.name for f in got] != names or bad:
                            fails.append(Failure('oracle', f'{c["fmt"]}: frames read back differ from the frames written: {bad or [f.name for f in got]}', c))
                        for f in got:
                            if _verdict_snap(f, written, strict, c) == 'S':
                                fails.append(Failure('oracle', f'sqlite: rows of frame {f.name} come back ordered by the integer index, not as written', c,
                                                     detail={'tag': 'sqlite_order'}))
                    else:
                        got = list(store.labels(config=cfgobj))
                        if got != names:
                            fails.append(Failure('oracle', f'{c["fmt"]}: labels() {got} != labels written {names}', c))
                    if stale:
                        fails.append(Failure('oracle', f'{c["fmt"]}: Store.{k} returned data although the file changed since it was recorded (step {i})', c))
                except StoreFileMutation:
                    status = 'err storeMutation'
                    if not stale:
                        fails.append(Failure('oracle', f'{c["fmt"]}: Store.{k} raised StoreFileMutation on an unchanged file (step {i})', c))
                except Exception as ex:
                    status = 'err other'
                    if exists or stale:
                        fails.append(Failure('oracle', f'{c["fmt"]}: Store.{k} raised {type(ex).__name__}: {ex} (step {i})', c))
                    if not exists and files.exists():
                        files.cleanup()   # sqlite3.connect created an empty database while failing to read: put the world back
            elif k == 'write':
                _fresh_write(files, lambda: store.write(((f.name, f) for f in frames), config=cfgobj), o[1])
                recorded = files.mtime()
                if store._last_modified != files.mtime():
                    fails.append(Failure('oracle', f'{c["fmt"]}: after Store.write the recorded mtime is not the file\'s mtime', c))
            elif k == 'touch':
                if files.exists():
                    files.utime(o[1])
            elif k == 'rewrite':
                shutil.copyfile(files.master, files.fp)
                files.utime(o[1])
            elif k == 'delete':
                files.cleanup()
            if model is not None:
                mstatus, (mseen, mfile) = model[i]
                mstatus = 'ok' if mstatus == 'ok' else 'err ' + mstatus[1]
                seen = 'N' if math.isnan(store._last_modified) else str(files.logical(store._last_modified))
                cur = 'N' if not files.exists() else str(files.logical(files.mtime()))
                if (mstatus, mseen, mfile) != (status, seen, cur):
                    fails.append(Failure('corr', f'store step {i} {o}: model {(mstatus, mseen, mfile)} vs real {(status, seen, cur)}', c))
                    break
    finally:
        files.cleanup()
    return fails


def _fresh_write(files, do_write, t):
    """run a write through the store; make sure the resulting real mtime differs from every mtime used so far"""
    for _ in range(50):
        do_write()
        ns = os.stat(files.fp).st_mtime_ns
        if ns not in files.nsmap.values():
            break
        time.sleep(0.005)
    files.register_now(t)


def _verdict_snap(f, written, strict, case):
    w = written.get(f.name)
    if w is None:
        return 'X'
    s = snap(f, strict)
    if s == w:
        return 'W'
    if case['fmt'] == 'sqlite' and not strict:
        spec = next(x for x in case['frames'] if x['name'] == f.name)
        if spec['idx'][0] == 'int' and spec['idx'][1] != sorted(spec['idx'][1]):
            try:
                if snap(f, False) == snap_rows_sorted(build_frame(spec)):
                    return 'S'
            except Exception:
                pass
    return 'X'


# ------------------------------------------------------------------ evaluation of histories
class Ref:
    """textbook LRU over labels (independent of the library and of the Lean model)"""

    def __init__(self, labels, mp, loaded):
        self.labels = list(labels)
        self.mp = mp
        self.lru = collections.OrderedDict((l, None) for l in loaded)

    def access(self, labs):
        for l in labs:
            self.lru.pop(l, None)
            self.lru[l] = None
            if self.mp is not None and len(self.lru) > self.mp:
                self.lru.popitem(last=False)


def evaluate(ctx, c, outs):
    if c['k'] in ('bgrid', 'bsem'):
        return bgen.evaluate(ctx, c, outs)
    if c['k'] == 'enc':
        return eval_enc(ctx, c)
    if c['k'] == 'store':
        return eval_store(ctx, c, outs)
    return eval_hist(ctx, c, outs)


def eval_hist(ctx, c, outs):
    import static_frame as sf
    from static_frame.core.bus import FrameDeferred
    from static_frame.core.exception import StoreFileMutation
    fails = []
    fmt, mp = c['fmt'], c['mp']
    strict = fmt == 'zip_pickle'
    frames = [build_frame(s) for s in c['frames']]
    names, rank = ids_of(c)
    name_of = {v: k for k, v in rank.items()}
    by_name = {f.name: f for f in frames}
    written = {f.name: snap(f, strict) for f in frames}
    cfgobj, eff_depth, default_depth = make_config(c)
    files = Files(c, frames, cfgobj)
    files.create(1)
    ctx.count(f'fmt_{fmt}')
    ctx.count(f'mp_{"none" if mp is None else ("1" if mp == 1 else ("n" if mp >= c["n"] else "mid"))}')
    ctx.count(f'cfg_{c["cfg"]["mode"]}')
    model = None
    if outs:
        if outs[0].startswith('ok '):
            model = parse_sexp(outs[0][3:])[0]
        else:
            fails.append(Failure('corr', f'bus.run answered {outs[0][:100]}', c))
    log = []
    default_read = {}   # label -> snapshot of the frame the store builds with the map's default config

    def cfg_differs(name):
        return fmt != 'zip_pickle' and eff_depth.get(name, 0) != default_depth

    def default_snap(name):
        if name not in default_read:
            from static_frame.core.store import StoreConfigMap
            cm = StoreConfigMap.from_initializer(cfgobj)
            tmp = files.fp + '.probe' + EXT[fmt]
            shutil.copyfile(files.master, tmp)
            try:
                st = type(buses[0]._store).__mro__[1](tmp)
                default_read[name] = snap(st.read(name, config=cm.default), strict)
            except Exception as ex:
                default_read[name] = ('unreadable', type(ex).__name__)
            finally:
                os.remove(tmp)
        return default_read[name]

    try:
        root = getattr(sf.Bus, 'from_' + fmt)(files.fp, config=cfgobj, max_persist=mp)
    except Exception as ex:
        files.cleanup()
        return [Failure('oracle', f'{fmt}: opening the Bus raised {type(ex).__name__}: {ex}', c)]
    root._store.__class__ = logged_store_class(type(root._store), log)
    buses = [root]
    refs = [Ref(names, mp, [])]
    recorded = files.mtime()
    verdicts = {}    # id(frame) -> (frame, verdict, origin)
    reported = set()

    if list(root.index.values) != names:
        fails.append(Failure('oracle', f'{fmt}: labels of the opened Bus {list(root.index.values)} != labels written {names}', c))
        files.cleanup()
        return fails

    def verdict(f, origin):
        v = verdicts.get(id(f))
        if v is None or v[0] is not f:
            r = _verdict_snap(f, written, strict, c)
            if r == 'X' and cfg_differs(f.name) and snap(f, strict) == default_snap(f.name):
                r = 'D'
            v = (f, r, origin)
            verdicts[id(f)] = v
        return v

    def oracle_frame(f, origin, what, step):
        """the frame must be the one written under its label"""
        _, r, org = verdict(f, origin)
        if r == 'W' or id(f) in reported:
            return
        reported.add(id(f))
        tag = None
        if r == 'S':
            tag = 'sqlite_order'
        fails.append(Failure('oracle', f'{fmt} mp={mp} step {step} {what}: frame under label {f.name!r} differs from the frame written'
                             + (' (read with the default StoreConfig instead of the label\'s)' if r == 'D' else '')
                             + (' (rows ordered by the integer index)' if r == 'S' else ''), c, detail={'tag': tag, 'label': f.name, 'verdict': r}))

    def cell_token(v):
        if v is FrameDeferred:
            return 'D'
        if not isinstance(v, sf.Frame):
            return f'?{type(v).__name__}'
        return v

    def check_cell(mtok, v, origin, where, step):
        """correspondence of one cell with the model's token (D | [F l c])"""
        if mtok == 'D':
            if v is not FrameDeferred:
                fails.append(Failure('corr', f'step {step} {where}: model has FrameDeferred, real has {type(v).__name__}', c))
            return
        if v is FrameDeferred or not isinstance(v, sf.Frame):
            fails.append(Failure('corr', f'step {step} {where}: model has frame {mtok}, real has {v!r:.40}', c))
            return
        _, lid, own = mtok
        if rank.get(v.name) != int(lid):
            fails.append(Failure('corr', f'step {step} {where}: model has frame of label id {lid}, real frame is named {v.name!r}', c))
            return
        _, r, _ = verdict(v, origin)
        want_default = own == '0' and cfg_differs(v.name)
        if want_default and r != 'D':
            fails.append(Failure('corr', f'step {step} {where}: model predicts a read with the default config for {v.name!r}, real frame verdict {r}', c))
        if not want_default and r not in ('W', 'S'):
            fails.append(Failure('corr', f'step {step} {where}: model predicts the faithful frame for {v.name!r}, real frame verdict {r}', c))

    def stale_now():
        ex = files.exists()
        return (ex and files.mtime() != recorded) or (not ex and not math.isnan(recorded))

    def observe_all(step, origin):
        """oracle invariants on every Bus alive + registration of new frames"""
        for bi, (bus, ref) in enumerate(zip(buses, refs)):
            labs = list(bus.index.values)
            if labs != ref.labels:
                fails.append(Failure('oracle', f'step {step}: labels of bus {bi} changed: {labs} != {ref.labels}', c))
                continue
            flags = bus._loaded.tolist()
            cells = list(bus._series.values)
            nload = sum(flags)
            for l, fl, v in zip(labs, flags, cells):
                if fl != (v is not FrameDeferred):
                    fails.append(Failure('oracle', f'step {step}: bus {bi} loaded flag of {l!r} is {fl} but the cell holds {type(v).__name__}', c))
                if v is not FrameDeferred:
                    if not isinstance(v, sf.Frame) or v.name != l:
                        fails.append(Failure('oracle', f'step {step}: bus {bi} holds {v!r:.30} under label {l!r}', c))
                    else:
                        oracle_frame(v, origin, f'bus {bi}', step)
            if bus._loaded_all != all(flags):
                fails.append(Failure('oracle', f'step {step}: bus {bi} _loaded_all={bus._loaded_all} flags={flags}', c))
            if ref.mp is not None and nload > ref.mp:
                fails.append(Failure('oracle', f'{fmt} step {step}: bus {bi} holds {nload} frames with max_persist={ref.mp}', c))
            real_loaded = [l for l, fl in zip(labs, flags) if fl]
            if set(real_loaded) != set(ref.lru):
                fails.append(Failure('oracle', f'{fmt} mp={ref.mp} step {step}: bus {bi} loaded {real_loaded}, least-recently-used reference says {list(ref.lru)}', c))
            elif ref.mp is not None and list(getattr(bus, '_last_accessed', ())) != list(ref.lru):
                fails.append(Failure('oracle', f'{fmt} mp={ref.mp} step {step}: bus {bi} recency order {list(getattr(bus, "_last_accessed", ()))} != reference {list(ref.lru)}', c))

    def corr_world(step, mworld):
        mstore, mb = mworld[0], mworld[1:]
        seen = 'N' if math.isnan(root._store._last_modified) else str(files.logical(root._store._last_modified))
        cur = 'N' if not files.exists() else str(files.logical(files.mtime()))
        if [seen, cur] != mstore:
            fails.append(Failure('corr', f'step {step}: store (recorded, file) real {[seen, cur]} model {mstore}', c))
        if len(mb) != len(buses):
            fails.append(Failure('corr', f'step {step}: model has {len(mb)} buses, real {len(buses)}', c))
            return False
        for bi, (bus, m) in enumerate(zip(buses, mb)):
            mlabels, mcache, mloaded, mlru, mall = m
            labs = [str(rank[l]) for l in bus.index.values]
            flags = [str(int(x)) for x in bus._loaded.tolist()]
            lru = [str(rank[l]) for l in bus._last_accessed] if hasattr(bus, '_last_accessed') else []
            if labs != mlabels or flags != mloaded or lru != mlru or str(int(bool(bus._loaded_all))) != mall:
                fails.append(Failure('corr', f'step {step} bus {bi}: real labels {labs} loaded {flags} lru {lru} all {int(bool(bus._loaded_all))} '
                                             f'!= model {mlabels} {mloaded} {mlru} {mall}', c))
                return False
            for j, (mt, v) in enumerate(zip(mcache, bus._series.values)):
                check_cell(mt, v, None, f'bus {bi} cell {j}', step)
            st = bus.status
            if st['loaded'].values.tolist() != bus._loaded.tolist():
                fails.append(Failure('oracle', f'step {step} bus {bi}: status.loaded {st["loaded"].values.tolist()} != flags', c))
            shp = [None if v is FrameDeferred else v.shape for v in bus._series.values]
            if len(bus) and st['shape'].values.tolist() != shp:
                fails.append(Failure('oracle', f'step {step} bus {bi}: status.shape {st["shape"].values.tolist()} != {shp}', c))
        return True

    try:
        observe_all(-1, None)
        for step, o in enumerate(c['ops']):
            k = o[0]
            del log[:]
            ctx.count(f'op_{k}')
            status, result, newbus = 'ok', None, None
            origin = None
            expect_err = None     # oracle: error category that must be raised (None = must succeed)
            allowed_reads = set()
            tag_on_err = None
            abort = False
            if k in ('acc', 'vals', 'raw', 'get', 'peek', 'drop', 'reindex', 'sort', 'sortv'):
                bi = o[1] % len(buses)
                bus, ref = buses[bi], refs[bi]
                labs = ref.labels
                n = len(labs)
                flags0 = dict(zip(labs, bus._loaded.tolist()))
                stale = stale_now()
            if k == 'acc':
                route, key = o[2], o[3]
                ikey = iloc_form(key)
                ps = ref_positions(key, n)
                ctx.count(f'key_{key[0]}')
                ctx.count(f'route_{route}')
                multi = is_multi(key)
                origin = ('multi' if multi else 'element', mp)
                lk = label_key(key, labs) if route in ('loc', 'getitem') else None
                if route in ('loc', 'getitem') and lk is None:
                    route = 'iloc'
                if isinstance(ps, tuple):
                    expect_err = ps[1]
                    ctx.count('acc_invalid_key')
                else:
                    want = [labs[p] for p in ps]
                    need = [l for l in want if not flags0[l]]
                    allowed_reads = set(need)
                    if need and stale:
                        expect_err = 'storeMutation'
                        ctx.count('acc_stale_needs_read')
                    elif need:
                        ctx.count('acc_load')
                        if ref.mp is not None and len(ref.lru) + len(need) > ref.mp:
                            ctx.count('acc_evicts')
                    else:
                        ctx.count('acc_hit')
                try:
                    if route == 'iloc':
                        res = bus.iloc[gen.key_to_py(ikey)]
                    elif route == 'loc':
                        res = bus.loc[lk]
                    elif route == 'getitem':
                        res = bus[lk]
                    elif route == 'head':
                        res = bus.head(key[2])
                    elif route == 'tail':
                        res = bus.tail(-key[1] if key[1] else 0)
                    else:
                        raise AssertionError(route)
                    result = res
                except Exception as ex:
                    status = ('err', err_cat(ex), ex)
                if status == 'ok':
                    if expect_err == 'storeMutation':
                        fails.append(Failure('oracle', f'{fmt} step {step}: access {key} needs a store read on a changed/removed file but returned data', c))
                    elif expect_err:
                        fails.append(Failure('oracle', f'step {step}: access {key} should raise ({expect_err}) but returned', c))
                    else:
                        ref.access(want)
                        if not multi:
                            if res is FrameDeferred or not isinstance(res, sf.Frame):
                                fails.append(Failure('oracle', f'{fmt} mp={mp} step {step}: element access {key} returned {res!r:.40} instead of a Frame', c))
                            elif res.name != want[0]:
                                fails.append(Failure('oracle', f'step {step}: element access {key} returned frame {res.name!r}, label is {want[0]!r}', c))
                            else:
                                oracle_frame(res, origin, f'element access {key}', step)
                        else:
                            if not isinstance(res, sf.Bus):
                                fails.append(Failure('oracle', f'step {step}: access {key} returned {type(res).__name__}, expected a Bus', c))
                            else:
                                newbus = (res, want)
                else:
                    if status[1] == 'storeMutation' and expect_err == 'storeMutation':
                        # a failed access loads and drops nothing; the labels served from the cache before the first
                        # label that needed the store count as used
                        served = []
                        for l in want:
                            if not flags0[l]:
                                break
                            served.append(l)
                        ref.access(served)
                    elif expect_err is None:
                        tag = None
                        if pinned_reader_variant() and mp == 1 and multi and any(cfg_differs(l) for l in need) and status[1] != 'storeMutation':
                            abort = True  # historical reader only: the read with the default config could not build the frame
                        fails.append(Failure('oracle', f'{fmt} mp={mp} step {step}: access {key} raised {type(status[2]).__name__}: {status[2]}', c, detail={'tag': tag}))
                    elif status[1] != expect_err and not (expect_err in ('lookup', 'nonUnique', 'value') and status[1] in ('lookup', 'nonUnique', 'value', 'indexInit')):
                        fails.append(Failure('oracle', f'step {step}: access {key} raised {type(status[2]).__name__}, expected {expect_err}', c))
            elif k == 'vals':
                origin = ('element' if mp is not None else 'multi', mp)
                need = [l for l in labs if not flags0[l]]
                allowed_reads = set(labs) if mp is not None else set(need)
                try:
                    if o[2] == 'items':
                        items = list(bus.items())
                        if [l for l, _ in items] != labs:
                            fails.append(Failure('oracle', f'step {step}: items() labels {[l for l, _ in items]} != {labs}', c))
                        result = [v for _, v in items]
                    else:
                        result = list(bus.values)
                except Exception as ex:
                    status = ('err', err_cat(ex), ex)
                # reference: with max_persist the labels are visited one by one
                if mp is None:
                    if status == 'ok':
                        ref.access(labs)
                    if need and stale and status == 'ok':
                        fails.append(Failure('oracle', f'{fmt} step {step}: {o[2]} read from a changed/removed file', c))
                    if status != 'ok' and not (need and stale and status[1] == 'storeMutation'):
                        fails.append(Failure('oracle', f'{fmt} step {step}: {o[2]} raised {type(status[2]).__name__}: {status[2]}', c))
                else:
                    sim = Ref(ref.labels, ref.mp, list(ref.lru))
                    failed = False
                    for l in labs:
                        if l not in sim.lru and stale:
                            failed = True
                            break
                        sim.access([l])
                    ref.lru = sim.lru   # (labels visited before a failing read count as used)
                    if failed:
                        if status == 'ok':
                            fails.append(Failure('oracle', f'{fmt} step {step}: {o[2]} read from a changed/removed file', c))
                        elif status[1] != 'storeMutation':
                            fails.append(Failure('oracle', f'{fmt} step {step}: {o[2]} raised {type(status[2]).__name__}, expected StoreFileMutation', c))
                    elif status != 'ok':
                        fails.append(Failure('oracle', f'{fmt} step {step}: {o[2]} raised {type(status[2]).__name__}: {status[2]}', c))
                if status == 'ok':
                    for l, v in zip(labs, result):
                        if v is FrameDeferred or not isinstance(v, sf.Frame) or v.name != l:
                            fails.append(Failure('oracle', f'{fmt} mp={mp} step {step}: {o[2]} delivered {v!r:.30} for label {l!r}', c))
                        else:
                            oracle_frame(v, origin, o[2], step)
            elif k in ('raw', 'get'):
                if k == 'raw':
                    result = list(bus.iter_element())
                    pairs = list(zip(labs, result))
                elif n == 0:
                    result, pairs = None, []
                else:
                    l = labs[o[2] % n]
                    result = bus.get(l)
                    pairs = [(l, result)]
                for l, v in pairs:
                    if v is FrameDeferred:
                        ctx.count('placeholder_seen')
                        fails.append(Failure('oracle', f'step {step}: Bus.{"iter_element" if k == "raw" else "get"} delivered the FrameDeferred placeholder for label {l!r}', c,
                                             detail={'tag': 'placeholder' if not flags0[l] else None}))
                    elif not isinstance(v, sf.Frame) or v.name != l:
                        fails.append(Failure('oracle', f'step {step}: Bus.{k} delivered {v!r:.30} for label {l!r}', c))
            elif k == 'peek':
                what = o[2]
                if what == 'status':
                    got = bus.status['loaded'].values.tolist()
                    if got != [flags0[l] for l in labs]:
                        fails.append(Failure('oracle', f'step {step}: status.loaded {got}', c))
                elif what == 'iter':
                    if list(bus) != labs:
                        fails.append(Failure('oracle', f'step {step}: iteration {list(bus)} != {labs}', c))
                elif what == 'keys':
                    if list(bus.keys()) != labs:
                        fails.append(Failure('oracle', f'step {step}: keys {list(bus.keys())} != {labs}', c))
                elif what == 'len':
                    if len(bus) != n:
                        fails.append(Failure('oracle', f'step {step}: len {len(bus)} != {n}', c))
                elif what == 'contains':
                    if not all(l in bus for l in labs) or '__nope__' in bus:
                        fails.append(Failure('oracle', f'step {step}: __contains__ wrong', c))
                elif what == 'shapes':
                    got = bus.shapes.values.tolist()
                    exp = [by_name[l].shape if flags0[l] else None for l in labs]
                    if n and got != exp and not (pinned_reader_variant() and any(cfg_differs(l) for l in labs)):
                        fails.append(Failure('oracle', f'step {step}: shapes {got} != {exp}', c))
                elif what == 'nbytes':
                    bus.nbytes
                elif what == 'repr':
                    repr(bus)
                elif what == 'reversed':
                    if list(reversed(bus)) != labs[::-1]:
                        fails.append(Failure('oracle', f'step {step}: reversed {list(reversed(bus))}', c))
            elif k in ('drop', 'reindex', 'sort', 'sortv'):
                want = None
                if k == 'drop':
                    key = o[3]
                    ps = ref_positions(key, n)
                    if isinstance(ps, tuple) and ps[1] == 'nonUnique':
                        ps = sorted(set(p % n for p in key[1:]))
                    lk = label_key(key, labs) if o[2] == 'loc' else None
                    if isinstance(ps, tuple):
                        expect_err = ps[1]
                    else:
                        want = [l for i, l in enumerate(labs) if i not in set(ps)]
                    try:
                        result = bus.drop[lk] if (o[2] == 'loc' and lk is not None) else bus.drop.iloc[gen.key_to_py(key)]
                    except Exception as ex:
                        status = ('err', err_cat(ex), ex)
                elif k == 'reindex':
                    ps = [p for p in o[2] if p < n]
                    want = [labs[p] for p in ps]
                    try:
                        result = bus.reindex(want, fill_value=FrameDeferred)
                    except Exception as ex:
                        status = ('err', err_cat(ex), ex)
                elif k == 'sort':
                    want = sorted(labs, reverse=not o[2])
                    try:
                        result = bus.sort_index(ascending=bool(o[2]))
                    except Exception as ex:
                        status = ('err', err_cat(ex), ex)
                else:
                    origin = ('element' if mp is not None else 'multi', mp)
                    want = sorted(labs, reverse=not o[2])
                    need = [l for l in labs if not flags0[l]]
                    allowed_reads = set(labs) if mp is not None else set(need)
                    try:
                        result = bus.sort_values(ascending=bool(o[2]), key=lambda s: np.array([f.name for f in s.values], dtype=object))
                    except Exception as ex:
                        status = ('err', err_cat(ex), ex)
                    # reference for the parent: like `values`
                    sim = Ref(ref.labels, ref.mp, list(ref.lru))
                    failed = False
                    for l in labs:
                        if l not in sim.lru and stale:
                            failed = True
                            break
                        sim.access([l])
                    if mp is not None or not failed:
                        ref.lru = sim.lru   # with max_persist the labels visited before a failing read count as used
                    if failed:
                        expect_err = 'storeMutation'
                    if not failed and mp is not None and mp < n:
                        tag_on_err = 'sortv'
                if status == 'ok':
                    if expect_err:
                        fails.append(Failure('oracle', f'step {step}: {k} should raise ({expect_err})', c))
                    elif not isinstance(result, sf.Bus):
                        fails.append(Failure('oracle', f'step {step}: {k} returned {type(result).__name__}', c))
                    else:
                        newbus = (result, want)
                elif expect_err is None:
                    tag = tag_on_err if status[1] == 'init' else None
                    fails.append(Failure('oracle', f'{fmt} mp={mp} step {step}: {k} on a Bus of {n} raised {type(status[2]).__name__}: {status[2]}', c,
                                         detail={'tag': tag}))
            elif k == 'touch':
                if files.exists():
                    files.utime(o[1])
            elif k == 'rewrite':
                shutil.copyfile(files.master, files.fp)
                files.utime(o[1])
            elif k == 'delete':
                files.cleanup()
            elif k == 'swrite':
                _fresh_write(files, lambda: root._store.write(((f.name, f) for f in frames), config=cfgobj), o[1])
                recorded = files.mtime()
                if root._store._last_modified != recorded:
                    fails.append(Failure('oracle', f'{fmt} step {step}: after Store.write the recorded mtime {root._store._last_modified} is not the file mtime {recorded}', c))
            elif k == 'slabels':
                stale = stale_now()
                try:
                    result = list(root._store.labels(config=cfgobj))
                    if stale:
                        fails.append(Failure('oracle', f'{fmt} step {step}: Store.labels returned data from a changed/removed file', c))
                    elif result != names:
                        fails.append(Failure('oracle', f'{fmt} step {step}: Store.labels {result} != {names}', c))
                except Exception as ex:
                    status = ('err', err_cat(ex), ex)
                    if not (stale and status[1] == 'storeMutation'):
                        fails.append(Failure('oracle', f'{fmt} step {step}: Store.labels raised {type(ex).__name__}: {ex}', c))
            else:
                raise ValueError(o)

            if abort:
                ctx.count('aborted_default_config_read_raises')
                break
            # ---- laziness: only what was asked for and not yet loaded is read
            read = [l for batch in log for l in batch]
            extra = [l for l in read if l not in allowed_reads]
            if extra:
                fails.append(Failure('oracle', f'{fmt} mp={mp} step {step} {o[:3]}: labels {extra} were read from the store although not requested or already loaded', c))
            if k == 'acc' and status == 'ok' and expect_err is None and mp != 0 and sorted(read) != sorted(allowed_reads):
                fails.append(Failure('oracle', f'{fmt} mp={mp} step {step}: access read {read}, the not yet loaded requested labels are {sorted(allowed_reads)}', c))

            # ---- new derived Bus
            if newbus is not None:
                nb, want = newbus
                if list(nb.index.values) != want:
                    fails.append(Failure('oracle', f'{fmt} step {step}: derived Bus has labels {list(nb.index.values)}, expected {want}', c))
                    want = list(nb.index.values)
                if nb._max_persist != mp or nb._store is not root._store:
                    fails.append(Failure('oracle', f'step {step}: derived Bus lost the store or max_persist', c))
                pflags = dict(zip(labs, bus._loaded.tolist()))
                if k == 'sortv':
                    pflags = {l: True for l in labs}
                buses.append(nb)
                refs.append(Ref(want, mp, [l for l in want if pflags.get(l)]))

            observe_all(step, origin)

            # ---- correspondence with the Lean model
            if model is not None:
                if step >= len(model):
                    fails.append(Failure('corr', f'model answered {len(model)} steps', c))
                    break
                mstatus, mresult, mreads, mworld = model[step]
                rstatus = 'ok' if status == 'ok' else ['err', status[1]]
                if isinstance(rstatus, list) and isinstance(mstatus, list) and {rstatus[1], mstatus[1]} <= {'lookup', 'value', 'indexInit', 'nonUnique'} \
                        and (rstatus[1] == mstatus[1] or {rstatus[1], mstatus[1]} <= {'lookup', 'value'}):
                    rstatus = mstatus
                if rstatus != mstatus:
                    fails.append(Failure('corr', f'{fmt} mp={mp} step {step} {o}: real status {rstatus} ({status[2] if status != "ok" else ""}) model {mstatus}', c))
                    break
                mr = [[str(rank[l]) for l in batch] for batch in log]
                if mr != mreads:
                    fails.append(Failure('corr', f'{fmt} mp={mp} step {step} {o}: store read batches real {mr} model {mreads}', c))
                if status == 'ok':
                    if mresult[0] == 'el':
                        if k in ('acc', 'get'):
                            check_cell(mresult[1], result, origin, 'element result', step)
                    elif mresult[0] == 'vals':
                        if len(mresult) - 1 != len(result):
                            fails.append(Failure('corr', f'step {step}: model delivers {len(mresult) - 1} values, real {len(result)}', c))
                        for mt, v in zip(mresult[1:], result):
                            check_cell(mt, v, origin, f'{k} value', step)
                    elif mresult[0] == 'bus':
                        if newbus is None or int(mresult[1]) != len(buses) - 1:
                            fails.append(Failure('corr', f'step {step}: model creates bus {mresult[1]}, real {"none" if newbus is None else len(buses) - 1}', c))
                    elif mresult[0] == 'labels':
                        if [str(rank[l]) for l in result] != mresult[1:]:
                            fails.append(Failure('corr', f'step {step}: labels() real {result} model {mresult[1:]}', c))
                    elif mresult[0] == 'none' and newbus is not None:
                        fails.append(Failure('corr', f'step {step}: real created a Bus, model none', c))
                if not corr_world(step, mworld):
                    break
            if len(fails) > 6:
                break
    finally:
        files.cleanup()
        type(root._store).LOG = None
    return fails


def classify(f):
    d = f.detail if isinstance(f.detail, dict) else {}
    return TAGS.get(d.get('tag'))
